// C06 - no output is ever spent twice.
//
// Generator: the chainsm history machine on the in-process mini-node (payments,
// conflicting spends offered to the pool, mining from the pool, forks and
// reorganisations, withheld/orphan blocks, blocks that break the spending rules,
// pool maintenance).  Oracle: after every step the node's REPORTED active chain is
// replayed in an independent ledger model (every spent outpoint was created
// before and is spent at most once), the pool content is checked for shared
// outpoints and against the replayed ledger, every offending block must have been
// refused, and ChainStore.IsDoubleSpend must agree with the model for every
// transaction the history knows.
package c06

import (
	"fmt"
	"strings"
	"testing"

	"github.com/elastos/Elastos.ELA/blockchain"
	"github.com/elastos/Elastos.ELA/common"
	ctypes "github.com/elastos/Elastos.ELA/core/types/common"
	"pgregory.net/rapid"

	"verifharness/lib/chainsm"
	"verifharness/lib/vk"
)

func TestMain(m *testing.M) { vk.Main(m, "C06") }

func slug(s string) string {
	return strings.NewReplacer(" ", "-", ":", "-").Replace(s)
}

// oracle is called after the setup and after every action.
func oracle(m *chainsm.Machine, t *rapid.T) {
	op := m.Last.Op
	l := m.Ledger

	// (1) the reported active chain is a chain, and replays without a spending violation
	for i, b := range m.Active {
		if b.Height != uint32(i) || (i > 0 && b.Previous != m.Active[i-1].Hash()) {
			vk.Report(t, "C06:chain:not-linked:"+op, fmt.Sprintf("block %d of the reported chain has height %d / does not point to its predecessor", i, b.Height), m.Render())
			return
		}
	}
	for _, v := range l.Viol {
		vk.Report(t, "C06:chain:"+v.Kind+":"+op, "active chain "+v.String(), m.Render())
		return
	}

	// (2) pool: no outpoint shared by two transactions; after maintenance every input is unspent on the active chain
	used := map[ctypes.OutPoint]common.Uint256{}
	for _, tx := range m.PoolTxs() {
		for _, in := range tx.Inputs() {
			if other, dup := used[in.Previous]; dup {
				vk.Report(t, "C06:pool:shared-outpoint:"+op, fmt.Sprintf("pool txs %s and %s both spend %s:%d", other, tx.Hash(), in.Previous.TxID, in.Previous.Index), m.Render())
				return
			}
			used[in.Previous] = tx.Hash()
		}
	}
	if m.PoolSynced {
		for _, tx := range m.PoolTxs() {
			for _, in := range tx.Inputs() {
				if _, ok := l.UTXO[in.Previous]; !ok {
					why := "never created"
					if _, was := l.SpentBy[in.Previous]; was {
						why = "already spent"
					}
					vk.Report(t, "C06:pool:holds-spend-of-"+slug(why)+"-output:"+op, fmt.Sprintf("after pool maintenance the pool holds tx %s spending %s:%d which is %s on the active chain",
						tx.Hash(), in.Previous.TxID, in.Previous.Index, why), m.Render())
					return
				}
			}
		}
		vk.Count("pool-checked-against-chain", 1)
	}

	// (3) pool admission: accepted => the model admits it as far as spending is concerned
	if k := m.Last.Submitted; k != nil {
		accepted := m.Last.SubmitErr == nil
		switch {
		case accepted && !m.Last.ModelValid && m.Last.ModelWhy != "immature coinbase" && m.Last.ModelWhy != "fee below minimum":
			vk.Report(t, "C06:pool:accepted:"+slug(m.Last.ModelWhy), fmt.Sprintf("pool accepted %s tx %s although: %s", m.Last.SubmitKind, k.Hash, m.Last.ModelWhy), m.Render())
			return
		case !accepted && m.Last.ModelValid:
			// non-vacuity direction: an admissible payment is admitted - unless one of its
			// inputs may carry a conflict-slot key left behind by a removed pool transaction
			stale := false
			for _, in := range k.Tx.Inputs() {
				if m.MaybeStale[in.Previous] {
					stale = true
				}
			}
			if stale {
				vk.Class("also/honest-payment-refused-by-stale-slot-key(C34)")
				break
			}
			vk.Report(t, "C06:honest:pool-refused:"+m.Last.SubmitKind, fmt.Sprintf("pool refused admissible tx %s: %v", k.Hash, m.Last.SubmitErr), m.Render())
			return
		}
		if !accepted {
			// a refusal leaves the pool as it was
			now := m.PoolTxs()
			if len(now) != len(m.Last.PoolBefore) {
				vk.Report(t, "C06:pool:changed-by-refused-submission", fmt.Sprintf("pool had %d txs, has %d after a refused submission", len(m.Last.PoolBefore), len(now)), m.Render())
				return
			}
		}
		vk.Count("submit/"+m.Last.SubmitKind+"/"+map[bool]string{true: "accepted", false: "refused"}[accepted], 1)
	}

	// (4) offending blocks are refused; a refusal while extending the tip (or by the
	// context-free checks) leaves the tip where it was.  Failed reorganisations are
	// a separate class (property C12 owns what the tip is afterwards).
	for _, d := range m.Last.Deliveries {
		if d.BadKind != "" {
			if d.ExtendsTip || d.Sanity {
				if d.Err == nil {
					vk.Report(t, "C06:block:accepted:"+d.BadKind, fmt.Sprintf("block %s (%s) was accepted: main=%v orphan=%v", d.Node.Hash, d.BadKind, d.InMain, d.Orphan), m.Render())
					return
				}
				if d.TipAfter != d.TipBefore {
					vk.Report(t, "C06:block:tip-moved-on-refusal:"+d.BadKind, fmt.Sprintf("refusing block %s moved the tip %s -> %s", d.Node.Hash, d.TipBefore, d.TipAfter), m.Render())
					return
				}
				vk.Count("bad-block-refused/"+d.BadKind, 1)
			} else {
				vk.Count("bad-block-on-side/"+d.BadKind, 1)
			}
		} else if d.Node.Valid && d.ExtendsTip {
			// non-vacuity direction: an honest block on the tip gets connected
			if _, on := m.OnActive[d.Node.Hash]; !on {
				vk.Report(t, "C06:honest:block-not-connected:"+op, fmt.Sprintf("honest block %s extending the tip was not connected: %v", d.Node.Hash, d.Err), m.Render())
				return
			}
		}
	}
	for _, tn := range m.Tree.Nodes {
		if !tn.Valid && tn.Parent != nil && tn.Parent.Valid {
			if _, on := m.OnActive[tn.Hash]; on {
				vk.Report(t, "C06:chain:contains-offending-block:"+tn.Note, fmt.Sprintf("block %s (%s) is on the active chain", tn.Hash, tn.Note), m.Render())
				return
			}
		}
	}

	// (5) IsDoubleSpend agrees with the model for every known transaction
	for _, k := range m.Txs {
		want := false
		for _, in := range k.Tx.Inputs() {
			if _, ok := l.UTXO[in.Previous]; !ok {
				want = true
			}
		}
		got := blockchain.DefaultLedger.Store.IsDoubleSpend(k.Tx)
		if got != want {
			dir := "false-negative"
			if got {
				dir = "false-positive"
			}
			vk.Report(t, "C06:IsDoubleSpend:"+dir+":"+op, fmt.Sprintf("IsDoubleSpend(%s tx %s)=%v, model says %v", k.Kind, k.Hash, got, want), m.Render())
			return
		}
	}
	vk.Count("IsDoubleSpend-compared", int64(len(m.Txs)))
}

func classify(m *chainsm.Machine) (string, bool) {
	conflicts := m.RejectedBadBlocks + m.RejectedPoolConflicts
	nt := m.ReorgsWithSpend > 0 || conflicts > 0
	var parts []string
	if m.ReorgsWithSpend > 0 {
		parts = append(parts, "reorg-with-spend")
	} else if m.Reorgs > 0 {
		parts = append(parts, "reorg-without-spend")
	}
	if conflicts > 0 {
		parts = append(parts, "refused-conflict")
	}
	if len(parts) == 0 {
		parts = []string{"plain"}
	}
	if m.FailedReorgs > 0 {
		vk.Class("also/failed-reorg(C12)")
	}
	if m.RejectedBadBlocks > 0 {
		vk.Class("also/bad-block-refused")
	}
	if m.RejectedPoolConflicts > 0 {
		vk.Class("also/pool-conflict-refused")
	}
	if m.SideBad > 0 {
		vk.Class("also/bad-block-parked-on-side-branch")
	}
	if m.OrphanDeliveries > 0 {
		vk.Class("also/orphan-delivery")
	}
	if m.RespendReorgs > 0 {
		vk.Class("also/reorg-respends-restored-output-with-another-tx")
	}
	if m.ReminedReorgs > 0 {
		vk.Class("also/reorg-mines-disconnected-tx-again")
	}
	if len(m.Wide) > 0 {
		vk.Class("also/tx-with-more-than-256-outputs")
	}
	if m.WideSpent > 0 {
		vk.Class("also/spends-around-output-index-256")
	}
	if m.MaxReorgDepth >= 3 {
		vk.Class("also/reorg-depth>=3")
	}
	if !m.AutoPool {
		vk.Class("also/manual-pool-maintenance")
	}
	vk.Count("reorgs", int64(m.Reorgs))
	vk.Count("reorgs-with-spend", int64(m.ReorgsWithSpend))
	vk.Count("failed-reorgs", int64(m.FailedReorgs))
	vk.Count("steps", int64(len(m.Ops)))
	return strings.Join(parts, "+"), nt
}

func TestHistories(t *testing.T) {
	rapid.Check(t, func(t *rapid.T) {
		o := chainsm.Opts{
			NAddrs:   rapid.IntRange(2, 6).Draw(t, "naddrs"),
			ZeroOuts: rapid.Bool().Draw(t, "zero-outs"),
			MaxOuts:  3, MaxIns: 3,
			After: oracle,
		}
		m := chainsm.Run(t, o)
		cl, nt := classify(m)
		vk.Case(cl, nt, m.Key(), m.Render)
	})
}
