package c29

// Independent budget model of CR proposals.
//
// Inputs: the transactions the node accepted into each block and the proposal
// *status* the node reports (Registered, CRAgreed, VoterAgreed, ...).  From
// those the model keeps, per proposal: the budget stages with exact (big
// integer) sums, which stages became withdrawable (imprest when the voters
// agreed, a normal stage through an accepted Progress tracking, the final
// stage through an accepted Finalized tracking) and which were withdrawn; and
// for the committee: the coins at the CR expenses address and the commitments
// (budget stages of live proposals that are not withdrawn yet).
//
// It never reads WithdrawnBudgets / WithdrawableBudgets /
// AvailableWithdrawalAmount / CRCCommitteeUsedAmount before comparing.

import (
	"fmt"
	"math/big"
	"sort"

	"github.com/elastos/Elastos.ELA/common"
	common2 "github.com/elastos/Elastos.ELA/core/types/common"
	"github.com/elastos/Elastos.ELA/core/types/interfaces"
	"github.com/elastos/Elastos.ELA/core/types/payload"
	crstate "github.com/elastos/Elastos.ELA/cr/state"
	"verifharness/statekit"
)

type stage struct {
	typ          payload.InstallmentType
	amount       common.Fixed64
	withdrawable bool
	withdrawn    bool
	// ready: withdrawable since an earlier block.  The node judges and books
	// every transaction of a block against the state before the block, so a
	// stage released by a tracking transaction can be paid from the next
	// block on.
	ready bool
	// released: the committee took the stage's amount back (proposal
	// canceled / aborted / terminated / finalized / closed).  At most once.
	released bool
}

type prop struct {
	hash      common.Uint256
	typ       payload.CRCProposalType
	stages    map[uint8]*stage
	order     []uint8
	total     *big.Int // exact sum of the budgets
	wrapped   common.Fixed64
	regHeight uint32
	status    crstate.ProposalStatus
	seen      bool // the node knows it
	tainted   bool
	desc      string
	target    common.Uint256 // close proposal: the proposal it closes
	// terminatedByTx: a Terminated tracking transaction of the current block
	terminatedByTx bool
}

func (p *prop) expected() common.Fixed64 {
	var s common.Fixed64
	for _, st := range p.stages {
		if st.withdrawable && !st.withdrawn {
			s += st.amount
		}
	}
	return s
}

// payable sums the stages a withdrawal in the current block pays.
func (p *prop) payable() common.Fixed64 {
	var s common.Fixed64
	for _, st := range p.stages {
		if st.ready && !st.withdrawn {
			s += st.amount
		}
	}
	return s
}

func (p *prop) withdrawnTotal() *big.Int {
	s := new(big.Int)
	for _, st := range p.stages {
		if st.withdrawn {
			s.Add(s, big.NewInt(int64(st.amount)))
		}
	}
	return s
}

// outstanding is what the committee still owes to the proposal.
func (p *prop) outstanding() *big.Int {
	s := new(big.Int)
	switch p.status {
	case crstate.CRCanceled, crstate.VoterCanceled:
		return s
	case crstate.Finished, crstate.Terminated, crstate.Aborted:
		for _, st := range p.stages {
			if st.withdrawable && !st.withdrawn {
				s.Add(s, big.NewInt(int64(st.amount)))
			}
		}
		return s
	}
	for _, st := range p.stages {
		if !st.withdrawn {
			s.Add(s, big.NewInt(int64(st.amount)))
		}
	}
	return s
}

type model struct {
	k        *statekit.Kit
	props    map[common.Uint256]*prop
	expenses map[string]common.Fixed64 // outpoints at the CR expenses address
	assets   map[string]common.Fixed64 // outpoints at the CR assets address
	// observed before the current block
	canUse common.Fixed64
	// used is the model's version of the committee's committed amount
	// (CRCCommitteeUsedAmount): the budgets reserved in this term, each stage
	// given back at most once, recomputed from the outstanding stages when a
	// new committee takes office
	used common.Fixed64
	// usedTainted: a listed known finding made the node's amount diverge;
	// both agree again when the next committee recomputes it
	usedTainted       bool
	lastCommittee     uint32
	releasesThisBlock []string
	// usedCause qualifies a divergence of the committed amount in this block
	usedCause string
}

func newModel(k *statekit.Kit) *model {
	return &model{k: k, props: map[common.Uint256]*prop{}, expenses: map[string]common.Fixed64{}, assets: map[string]common.Fixed64{}}
}

type finding struct {
	sig, detail string
	subject     *prop
}

type blockTx struct {
	desc   string
	tx     interfaces.Transaction
	refs   map[*common2.Input]common2.Output
	second bool
}

func sum(m map[string]common.Fixed64) common.Fixed64 {
	var s common.Fixed64
	for _, v := range m {
		s += v
	}
	return s
}

// observeBefore records what the committee says it can still commit (input of
// the acceptance check, like the roles).
func (m *model) observeBefore() {
	m.canUse = m.k.Committee.GetCommitteeCanUseAmount()
}

// apply advances the model by the block's transactions (all of them,
// coinbase included) and judges accepted proposals and withdrawals.
func (m *model) apply(h uint32, txs []blockTx) []finding {
	var out []finding
	exp := *m.k.Params.CRConfiguration.CRExpensesProgramHash
	ast := *m.k.Params.CRConfiguration.CRAssetsProgramHash
	usedInBlock := new(big.Int)
	withdrawsOf := map[common.Uint256]int{}
	endingsOf := map[common.Uint256]int{}
	m.usedCause = ""
	for _, bt := range txs {
		tx := bt.tx
		hash := tx.Hash()
		var inSum, outSum common.Fixed64
		for _, in := range tx.Inputs() {
			if ref, ok := bt.refs[in]; ok {
				inSum += ref.Value
			}
			delete(m.expenses, in.ReferKey())
			delete(m.assets, in.ReferKey())
		}
		for i, o := range tx.Outputs() {
			outSum += o.Value
			rk := common2.NewOutPoint(hash, uint16(i)).ReferKey()
			if o.ProgramHash.IsEqual(exp) {
				m.expenses[rk] = o.Value
			} else if o.ProgramHash.IsEqual(ast) {
				m.assets[rk] = o.Value
			}
		}
		switch pl := tx.Payload().(type) {
		case *payload.CRCProposal:
			ph := pl.Hash(tx.PayloadVersion())
			p := &prop{hash: ph, typ: pl.ProposalType, stages: map[uint8]*stage{}, total: new(big.Int), regHeight: h,
				status: crstate.Registered, desc: bt.desc}
			for _, b := range pl.Budgets {
				p.stages[b.Stage] = &stage{typ: b.Type, amount: b.Amount}
				p.order = append(p.order, b.Stage)
				p.total.Add(p.total, big.NewInt(int64(b.Amount)))
				p.wrapped += b.Amount
			}
			m.props[ph] = p
			if pl.ProposalType == payload.CloseProposal {
				p.target = pl.TargetProposalHash
			}
			m.used += p.wrapped
			// acceptance: the exact sum has to fit into what the committee can
			// still commit, counting the proposals accepted earlier in this block
			room := new(big.Int).Sub(big.NewInt(int64(m.canUse)), usedInBlock)
			if p.total.Cmp(room) > 0 {
				sig := "C29:proposal:accepted-above-available-funds"
				if p.total.Cmp(big.NewInt(int64(p.wrapped))) != 0 {
					sig = "C29:proposal:budget-sum-wraps"
				}
				out = append(out, finding{sig, fmt.Sprintf("height %d: accepted %s: exact sum of budgets %s, the committee could still commit %s (can use %s, accepted earlier in this block %s)",
					h, bt.desc, fmtBig(p.total), fmtBig(room), m.canUse, fmtBig(usedInBlock)), p})
			}
			usedInBlock.Add(usedInBlock, p.total)
		case *payload.CRCProposalTracking:
			p := m.props[pl.ProposalHash]
			if p == nil {
				break
			}
			if pl.ProposalTrackingType == payload.Terminated || pl.ProposalTrackingType == payload.Finalized {
				endingsOf[pl.ProposalHash]++
				if endingsOf[pl.ProposalHash] > 1 {
					m.usedCause = ":several-terminating-trackings-of-one-proposal-in-one-block"
				}
			}
			switch pl.ProposalTrackingType {
			case payload.Terminated:
				// everything that had not become withdrawable before this block goes back
				if p.status == crstate.VoterAgreed {
					m.release(p, "terminated by tracking", func(st *stage) bool { return !st.ready })
					p.terminatedByTx = true
				}
			case payload.Progress:
				if st := p.stages[pl.Stage]; st != nil {
					if st.typ != payload.NormalPayment {
						out = append(out, finding{"C29:tracking:progress-on-imprest-or-final-stage",
							fmt.Sprintf("height %d: accepted %s on a stage of type %s", h, bt.desc, st.typ.Name()), p})
					}
					st.withdrawable = true
				}
			case payload.Finalized:
				// the unfinished stages other than the final payment go back
				m.release(p, "finalized", func(st *stage) bool { return !st.ready && st.typ != payload.FinalPayment })
				for _, st := range p.stages {
					if st.typ == payload.FinalPayment {
						st.withdrawable = true
					}
				}
			}
		case *payload.CRCProposalWithdraw:
			p := m.props[pl.ProposalHash]
			if p == nil {
				break
			}
			withdrawsOf[pl.ProposalHash]++
			paid := pl.Amount
			if tx.PayloadVersion() == payload.CRCProposalWithdrawDefault {
				// recipient output + fee
				paid = tx.Outputs()[0].Value + (inSum - outSum)
			}
			e := p.payable()
			cause := dupCause(withdrawsOf[pl.ProposalHash] > 1)
			if e == 0 && cause != "" {
				out = append(out, finding{"C29:withdraw:stage-paid-twice:several-withdrawals-of-the-proposal-in-one-block",
					fmt.Sprintf("height %d: accepted %s paying %s: the stages it pays were already paid by an earlier withdrawal of the same block; stages: %s", h, bt.desc, paid, p.render()), p})
			} else if e == 0 {
				out = append(out, finding{"C29:withdraw:nothing-withdrawable",
					fmt.Sprintf("height %d: accepted %s paying %s although no stage of the proposal is withdrawable and unwithdrawn (a stage is paid twice or before it became withdrawable); stages: %s",
						h, bt.desc, paid, p.render()), p})
			} else if paid != e {
				out = append(out, finding{"C29:withdraw:amount-differs-from-withdrawable-stages" + cause,
					fmt.Sprintf("height %d: accepted %s paying %s, withdrawable and unwithdrawn stages sum to %s; stages: %s", h, bt.desc, paid, e, p.render()), p})
			}
			for _, st := range p.stages {
				if st.ready {
					st.withdrawn = true
				}
			}
		}
	}
	return out
}

func dupCause(second bool) string {
	if second {
		return ":several-for-one-proposal-in-one-block"
	}
	return ""
}

func fmtBig(b *big.Int) string {
	if b.IsInt64() {
		return common.Fixed64(b.Int64()).String()
	}
	return b.String() + " sela"
}

func (p *prop) render() string {
	st := append([]uint8{}, p.order...)
	sort.Slice(st, func(i, j int) bool { return st[i] < st[j] })
	s := ""
	for _, i := range st {
		x := p.stages[i]
		s += fmt.Sprintf("[%d %s %s withdrawable=%v withdrawn=%v] ", i, x.typ.Name(), x.amount, x.withdrawable, x.withdrawn)
	}
	return s
}

// release gives the selected, not yet released stages back to the committee.
func (m *model) release(p *prop, why string, sel func(*stage) bool) {
	var amt common.Fixed64
	for _, st := range p.stages {
		if !st.released && sel(st) {
			st.released = true
			amt += st.amount
		}
	}
	m.used -= amt
	m.releasesThisBlock = append(m.releasesThisBlock, fmt.Sprintf("%x %s: %s", p.hash[:4], why, amt))
}

// observeAfter reads the statuses after block h; the voters' agreement makes
// the imprest stage withdrawable.
func (m *model) observeAfter(h uint32) {
	var hs []common.Uint256
	for hash := range m.props {
		hs = append(hs, hash)
	}
	sort.Slice(hs, func(i, j int) bool { return hs[i].Compare(hs[j]) < 0 })
	olds := map[common.Uint256]crstate.ProposalStatus{}
	for _, hash := range hs {
		olds[hash] = m.props[hash].status
	}
	closedBy := map[common.Uint256]int{}
	for _, hash := range hs {
		p := m.props[hash]
		ps := m.k.Committee.GetProposal(hash)
		if ps == nil {
			continue
		}
		p.seen = true
		old := p.status
		p.status = ps.Status
		all := func(*stage) bool { return true }
		switch {
		case old == crstate.Registered && p.status == crstate.CRCanceled:
			m.release(p, "rejected by the council", all)
		case old == crstate.CRAgreed && p.status == crstate.VoterCanceled:
			m.release(p, "rejected by the voters", all)
		case (old == crstate.Registered || old == crstate.CRAgreed) && p.status == crstate.Aborted:
			m.release(p, "aborted", all)
		case old == crstate.CRAgreed && p.status == crstate.Finished && p.typ == payload.CloseProposal:
			// a close proposal passed: the target, if the voters' agreement
			// still stood before this block's votes were counted, is terminated
			// and what had not become withdrawable goes back
			closedBy[p.target]++
			if closedBy[p.target] > 1 {
				m.usedCause = ":several-close-proposals-of-one-target-passed-in-one-block"
			}
			if t := m.props[p.target]; t != nil {
				was := olds[p.target]
				if t.terminatedByTx {
					was = crstate.Terminated
				}
				if was == crstate.VoterAgreed {
					m.release(t, "closed by proposal", func(st *stage) bool { return !st.withdrawable })
				}
			}
		}
		if old == crstate.CRAgreed && (p.status == crstate.VoterAgreed || p.status == crstate.Finished) {
			for _, i := range p.order {
				if p.stages[i].typ == payload.Imprest {
					p.stages[i].withdrawable = true
					break
				}
			}
		}
	}
	for _, p := range m.props {
		p.terminatedByTx = false
		for _, st := range p.stages {
			st.ready = st.withdrawable
		}
	}
	// a new committee took office: the committed amount is recomputed from the
	// stages still owed
	if lc := m.k.Committee.LastCommitteeHeight; lc != m.lastCommittee {
		m.lastCommittee = lc
		m.usedTainted = false
		var u common.Fixed64
		for _, hash := range hs {
			p := m.props[hash]
			if !p.seen {
				continue
			}
			switch p.status {
			case crstate.CRCanceled, crstate.VoterCanceled, crstate.Aborted:
			case crstate.Terminated, crstate.Finished:
				for _, st := range p.stages {
					if st.withdrawable && !st.withdrawn {
						u += st.amount
					}
				}
			default:
				for _, st := range p.stages {
					if !st.withdrawn {
						u += st.amount
					}
				}
			}
		}
		m.used = u
		m.releasesThisBlock = append(m.releasesThisBlock, fmt.Sprintf("new committee: recomputed %s", u))
	}
}

// compare checks the node's proposal books and the committee's commitments.
func (m *model) compare(h uint32) []finding {
	var out []finding
	var hs []common.Uint256
	for hash := range m.props {
		hs = append(hs, hash)
	}
	sort.Slice(hs, func(i, j int) bool { return hs[i].Compare(hs[j]) < 0 })
	committed := new(big.Int)
	for _, hash := range hs {
		p := m.props[hash]
		if p.tainted {
			continue
		}
		ps := m.k.Committee.GetProposal(hash)
		if ps == nil {
			// not registered (the member's proposal list was full): no books
			continue
		}
		who := fmt.Sprintf("height %d: proposal %x (%s, %s)", h, hash[:4], ps.Status, p.render())
		add := func(sig, f string, a ...any) {
			out = append(out, finding{sig, who + ": " + fmt.Sprintf(f, a...), p})
		}
		for i, st := range p.stages {
			_, wn := ps.WithdrawnBudgets[i]
			wa, wl := ps.WithdrawableBudgets[i]
			if wn != st.withdrawn {
				add("C29:books:WithdrawnBudgets-differs", "stage %d: node withdrawn=%v, model withdrawn=%v", i, wn, st.withdrawn)
			}
			if wl != st.withdrawable {
				add("C29:books:WithdrawableBudgets-differs", "stage %d: node withdrawable=%v, model withdrawable=%v", i, wl, st.withdrawable)
			} else if wl && wa != st.amount {
				add("C29:books:WithdrawableBudgets-amount", "stage %d: node %s, budget %s", i, wa, st.amount)
			}
			if wn && ps.WithdrawnBudgets[i] != st.amount {
				add("C29:books:WithdrawnBudgets-amount", "stage %d: node %s, budget %s", i, ps.WithdrawnBudgets[i], st.amount)
			}
		}
		for i := range ps.WithdrawnBudgets {
			if p.stages[i] == nil {
				add("C29:books:withdrawn-stage-not-in-budget", "stage %d", i)
			}
		}
		if got := m.k.Committee.AvailableWithdrawalAmount(hash); got != p.expected() {
			add("C29:books:AvailableWithdrawalAmount-differs", "node %s, model %s", got, p.expected())
		}
		if p.withdrawnTotal().Cmp(p.total) > 0 {
			add("C29:withdraw:total-exceeds-budget", "withdrawn %s of %s", fmtBig(p.withdrawnTotal()), fmtBig(p.total))
		}
		committed.Add(committed, p.outstanding())
	}
	// the committee's committed amount against the budgets reserved and given back once
	if got := m.k.Committee.CRCCommitteeUsedAmount; got != m.used && !m.usedTainted {
		out = append(out, finding{"C29:committee:CRCCommitteeUsedAmount-differs-from-reserved-budgets" + m.usedCause,
			fmt.Sprintf("height %d: CRCCommitteeUsedAmount %s, budgets reserved minus given back (each stage once) %s; this block: %v", h, got, m.used, m.releasesThisBlock), nil})
	}
	m.releasesThisBlock = nil
	// the committee's commitments against the funds it has or is entitled to
	funds := new(big.Int).Add(big.NewInt(int64(sum(m.expenses))), big.NewInt(int64(m.pendingAppropriation())))
	if committed.Cmp(funds) > 0 {
		out = append(out, finding{"C29:committee:commitments-exceed-funds",
			fmt.Sprintf("height %d: budgets the committee still owes %s, coins at the expenses address %s + appropriation due %s", h, fmtBig(committed), sum(m.expenses), m.pendingAppropriation()), nil})
	}
	return out
}

func (m *model) pendingAppropriation() common.Fixed64 {
	if m.k.Committee.IsAppropriationNeeded() {
		return m.k.Committee.AppropriationAmount
	}
	return 0
}
