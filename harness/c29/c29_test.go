// C29 - proposal spending stays within approved budgets.
//
// A real Committee/ProposalManager (statekit) is fed generated block histories
// whose every transaction went through the node's own checks; an independent
// budget model (model_test.go) is compared with the node after every block and
// judges every accepted proposal and withdrawal.
package c29

import (
	"encoding/json"
	"fmt"
	"os"
	"strings"
	"testing"

	crstate "github.com/elastos/Elastos.ELA/cr/state"
	"pgregory.net/rapid"
	"verifharness/lib/vk"
	"verifharness/statekit"
)

func TestMain(m *testing.M) { vk.Main(m, "C29") }

type history struct {
	Profile  statekit.Profile     `json:"profile"`
	Era      string               `json:"era"`
	Several  bool                 `json:"several_txs_per_proposal_and_block"`
	Drain    bool                 `json:"drain_mode"`
	Blocks   []statekit.BlockInfo `json:"blocks"`
	Rejected []string             `json:"rejected,omitempty"`
	Notes    []string             `json:"notes,omitempty"`
}

func eras() []int {
	if v := os.Getenv("C29_ERAS"); v != "" {
		var out []int
		for _, c := range v {
			if c >= '1' && c <= '3' {
				out = append(out, int(c-'0'))
			}
		}
		return out
	}
	return []int{1, 1, 1, 2, 2, 2, 3}
}

func TestProposalBudgets(t *testing.T) {
	rapid.Check(t, func(t *rapid.T) {
		era := statekit.Era(rapid.SampledFrom(eras()).Draw(t, "era"))
		prof := statekit.DrawProfile(t, era)
		prof.RecordSponsorStart = statekit.Far
		// longer terms: proposals are only admitted outside the voting period
		prof.DutyPeriod = prof.VotingPeriod + uint32(rapid.IntRange(14, 34).Draw(t, "dutyextra"))
		// agreement of one or two members within 3-6 blocks, so that proposals get through
		prof.CRAgreementCount = uint32(rapid.IntRange(1, 2).Draw(t, "agreement"))
		prof.ProposalCRVotingPeriod = uint32(rapid.IntRange(3, 6).Draw(t, "crvoting"))
		// penalties are not the subject here; keep the producers staffed
		k := statekit.New(prof)
		defer func() { k.Close() }()
		g := statekit.NewGen(k)
		g.DrawLazy(t)
		g.AddKinds(statekit.CRKinds())
		g.AddKinds(statekit.C29Kinds())
		g.MaxTxs = 5
		base := map[string]int{}
		for kk, v := range g.Kinds {
			base[kk] = v
		}
		hist := &history{Profile: prof, Era: era.String()}
		hist.Several = rapid.IntRange(0, 3).Draw(t, "several") == 0
		if hist.Several {
			statekit.SetC29SeveralPerProposal(g, true)
			defer statekit.SetC29SeveralPerProposal(g, false)
		}
		drain := rapid.IntRange(0, 3).Draw(t, "drainmode") == 0
		hist.Drain = drain
		if drain {
			statekit.SetC29Drain(g, true)
			defer statekit.SetC29Drain(g, false)
		}
		full := statekit.C28FullSanity()
		for kk := range statekit.C29FullSanity() {
			full[kk] = true
		}
		opts := &statekit.BlockOpts{FullSanity: full}
		k.StartAt(prof.VoteStart - 1)
		m := newModel(k)

		extra := rapid.IntRange(30, 80).Draw(t, "extra")
		if vk.Thorough() {
			extra = rapid.IntRange(30, 140).Draw(t, "extra2")
		}
		maxHeight := prof.CRCommitteeStart + uint32(extra)

		var events []statekit.TxEvent
		opts.OnTx = func(ev statekit.TxEvent) {
			if ev.Kind == "block-dropped" {
				events = nil
				return
			}
			events = append(events, ev)
		}
		render := func() any { return hist }
		dead := ""
		known := false
		acceptedWithdraws, rejectedWithdraws, acceptedProposals, secondWithdrawal := 0, 0, 0, false
		maxWithdrawalsOfOne := 0
		electedBlocks, allowedBlocks, firstCommittee := 0, 0, uint32(0)
		for dead == "" {
			// the history runs `extra` blocks past the first seated committee
			if firstCommittee != 0 && k.Height >= firstCommittee+uint32(extra) {
				break
			}
			if firstCommittee == 0 && k.Height >= maxHeight {
				break
			}
			h := k.Height + 1
			events = nil
			tune(g, base, prof, h, drain)
			opts.MinTxs = 0
			if k.Committee.IsInElectionPeriod() {
				opts.MinTxs = 2
				if drain && k.Committee.IsProposalAllowed(k.Height) {
					opts.MinTxs = 5
				}
			}
			m.observeBefore()
			for _, mb := range k.Committee.GetCurrentMembers() {
				if mb.MemberState == crstate.MemberElected && k.Committee.IsInElectionPeriod() {
					electedBlocks++
					break
				}
			}
			if k.Committee.IsProposalAllowed(k.Height) {
				allowedBlocks++
			}
			if firstCommittee == 0 && k.Committee.IsInElectionPeriod() {
				firstCommittee = k.Height
			}
			b, c, info := g.BlockEx(t, opts)
			hist.Blocks = append(hist.Blocks, info)
			desc := map[any]string{}
			for _, ev := range events {
				if ev.Err != nil {
					if ev.Kind == "withdraw" {
						rejectedWithdraws++
						if os.Getenv("C29_DEBUG") != "" {
							fmt.Println("WDREJ", ev.Err, "|", ev.Desc)
						}
					}
					if len(hist.Rejected) < 40 && (ev.Kind == "withdraw" || ev.Kind == "proposal" || ev.Kind == "tracking") {
						hist.Rejected = append(hist.Rejected, fmt.Sprintf("%d %s: %v", h, ev.Desc, ev.Err))
					}
					continue
				}
				desc[ev.Tx] = ev.Desc
				if ev.Kind == "withdraw" {
					acceptedWithdraws++
				}
				if ev.Kind == "proposal" {
					acceptedProposals++
				}
			}
			var btxs []blockTx
			for _, tx := range b.Transactions {
				refs, _ := k.TxReference(tx)
				d := desc[tx]
				if d == "" {
					d = "required/" + tx.TxType().Name()
				}
				btxs = append(btxs, blockTx{desc: d, tx: tx, refs: refs})
			}
			if p, val, frame := vk.Catch(func() { k.Process(b, c) }); p {
				dead = fmt.Sprintf("forward-panic:%s: %v", frame, val)
				break
			}
			if ok, why := k.ProducerMapsConsistent(); !ok {
				dead = "conflicting-transitions: " + why[:minInt(len(why), 40)]
				break
			}
			fs := m.apply(h, btxs)
			m.observeAfter(h)
			fs = append(fs, m.compare(h)...)
			for _, f := range fs {
				if os.Getenv("C29_DEBUG") != "" {
					fmt.Println("FINDING", f.sig, f.detail, "BLOCKTXS", info.Txs)
				}
				if f.subject != nil && f.subject.tainted {
					continue
				}
				if !vk.Report(t, f.sig, f.detail, render()) {
					return
				}
				known = true
				hist.Notes = append(hist.Notes, "known: "+f.sig+": "+f.detail)
				if f.subject != nil {
					f.subject.tainted = true
				} else if strings.HasPrefix(f.sig, "C29:committee:CRCCommitteeUsedAmount") {
					// the amounts agree again when the next committee recomputes it
					m.usedTainted = true
				} else {
					// a committee-level known finding: nothing more to learn from this history
					dead = "known committee-level finding"
				}
			}
			for _, p := range m.props {
				n := 0
				for _, st := range p.stages {
					if st.withdrawn {
						n++
					}
				}
				if n > maxWithdrawalsOfOne {
					maxWithdrawalsOfOne = n
				}
			}
		}
		// a proposal reached a second withdrawal (two stages paid at different times)?
		for _, bi := range hist.Blocks {
			_ = bi
		}
		secondWithdrawal = maxWithdrawalsOfOne >= 2
		cl := "era-" + hist.Era
		if hist.Several {
			cl += "/several-per-proposal"
		}
		switch {
		case dead != "" && !known:
			vk.Class("dead/" + dead[:minInt(len(dead), 90)])
			cl += "/dead"
		case known:
			cl += "/known-finding"
		case secondWithdrawal:
			cl += "/two-stages-withdrawn"
		case acceptedWithdraws > 0:
			cl += "/one-withdrawal"
		case acceptedProposals > 0:
			cl += "/proposals-only"
		default:
			cl += "/no-proposal"
		}
		key, _ := json.Marshal(hist)
		vk.Case(cl, secondWithdrawal, key, render)
		vk.Count("blocks", int64(len(hist.Blocks)))
		vk.Count("withdraw-accepted", int64(acceptedWithdraws))
		vk.Count("withdraw-rejected", int64(rejectedWithdraws))
		statuses := map[string]int{}
		for _, p := range m.props {
			statuses[p.status.String()]++
		}
		for s, n := range statuses {
			vk.Count("proposals-ending-"+s, int64(n))
		}
		for kk, v := range g.Accepted {
			vk.Count("tx-accepted/"+kk, int64(v))
		}
		for kk, v := range g.Rejected {
			if !strings.Contains(kk, "/") {
				vk.Count("tx-rejected/"+kk, int64(v))
			}
		}
		if os.Getenv("C29_DEBUG") != "" {
			fmt.Println("END era", era, "height", k.Height, "proposals", len(m.props), statuses, "withdraws", acceptedWithdraws, rejectedWithdraws, "dead", dead, "prop acc/rej/na", g.Accepted["proposal"], g.Rejected["proposal"], g.Rejected["proposal/na"], "review", g.Accepted["review"], g.Rejected["review"], g.Rejected["review/na"], "claim", g.Accepted["claimnode"], "electedBlocks", electedBlocks, "allowedBlocks", allowedBlocks, "committeeStart", prof.CRCommitteeStart, "firstCommittee", firstCommittee)
			for kk, v := range g.LastErr {
				fmt.Println("LASTERR", kk, v)
			}
		}
	})
}

// tune moves the kind weights towards what a proposal history needs: members
// that claim their nodes (only elected members may sponsor or review), then
// proposals, reviews, tracking and withdrawals.
func tune(g *statekit.Gen, base map[string]int, prof statekit.Profile, h uint32, drain bool) {
	for kk, v := range base {
		g.Kinds[kk] = v
	}
	if h < prof.CRCommitteeStart {
		return
	}
	mine := statekit.C29Kinds()
	for kk, v := range base {
		if _, ok := mine[kk]; !ok && v > 1 && kk != "registercr" && kk != "votecr" && kk != "claimnode" && kk != "register" && kk != "vote" {
			g.Kinds[kk] = (v + 2) / 3
		}
	}
	unclaimed := 0
	for _, m := range g.K.Committee.GetCurrentMembers() {
		if len(m.DPOSPublicKey) == 0 && (m.MemberState == crstate.MemberElected || m.MemberState == crstate.MemberInactive) {
			unclaimed++
		}
	}
	if unclaimed > 0 {
		g.Kinds["claimnode"] = base["claimnode"] * 6
	}
	if g.K.Committee.IsInElectionPeriod() {
		registered, agreed, payable := 0, 0, 0
		for _, p := range g.K.Proposals() {
			switch p.Status {
			case crstate.Registered:
				registered++
			case crstate.VoterAgreed:
				agreed++
			}
			if g.K.Committee.AvailableWithdrawalAmount(p.Proposal.Hash) > 0 {
				payable++
			}
		}
		g.Kinds["proposal"] = base["proposal"] * 4
		if registered+agreed >= 3 && !drain {
			g.Kinds["proposal"] = base["proposal"]
		}
		if drain {
			g.Kinds["proposal"] = base["proposal"] * 24
		}
		g.Kinds["review"] = base["review"] * (1 + 10*minInt(registered, 3))
		g.Kinds["tracking"] = base["tracking"] * (1 + 3*minInt(agreed, 2))
		g.Kinds["withdraw"] = base["withdraw"] * (1 + 3*minInt(payable+agreed, 3))
	}
}

func minInt(a, b int) int {
	if a < b {
		return a
	}
	return b
}
