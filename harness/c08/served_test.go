package c08

import (
	"bytes"
	"encoding/hex"
	"encoding/json"
	"fmt"
	"testing"

	"github.com/elastos/Elastos.ELA/common"
	pg "github.com/elastos/Elastos.ELA/core/contract/program"
	"github.com/elastos/Elastos.ELA/core/types"
	common2 "github.com/elastos/Elastos.ELA/core/types/common"
	"github.com/elastos/Elastos.ELA/core/types/functions"
	"github.com/elastos/Elastos.ELA/core/types/interfaces"
	"github.com/elastos/Elastos.ELA/core/types/outputpayload"
	"github.com/elastos/Elastos.ELA/core/types/payload"
	"github.com/elastos/Elastos.ELA/crypto"
	"github.com/elastos/Elastos.ELA/elanet/bloom"
	"github.com/elastos/Elastos.ELA/elanet/filter"
	"github.com/elastos/Elastos.ELA/p2p/msg"
	"pgregory.net/rapid"
	"verifharness/lib/vk"
)

type servedCase struct {
	proofCase
	Ctor     string   `json:"filter_ctor"`
	Size     int      `json:"filter_size"`
	K        uint32   `json:"filter_k"`
	Tweak    uint32   `json:"filter_tweak"`
	Watched  []string `json:"watched"`
	Txs      []string `json:"txs"` // per tx: hash | outputs | inputs
	Related  []int    `json:"related_to_watched"`
	Expected []int    `json:"expected_matches"`
}

func draw21(t *rapid.T, l string) (a [21]byte) {
	copy(a[:], rapid.SliceOfN(rapid.Byte(), 21, 21).Draw(t, l))
	return
}

func draw32(t *rapid.T, l string) (a hash) {
	copy(a[:], rapid.SliceOfN(rapid.Byte(), 32, 32).Draw(t, l))
	return
}

type filterPlan struct {
	ctor     string
	elements uint32
	fprate   float64
	size     int
	k        uint32
	tweak    uint32
	txTypes  []byte
	adds     [][]byte
}

func (p *filterPlan) direct() (*bloom.Filter, *msg.FilterLoad) {
	var f *bloom.Filter
	if p.ctor == "new" {
		f = bloom.NewFilter(p.elements, p.tweak, p.fprate)
	} else {
		f = bloom.LoadFilter(&msg.FilterLoad{Filter: make([]byte, p.size), HashFuncs: p.k, Tweak: p.tweak})
	}
	fl := f.GetFilterLoadMsg()
	p.size, p.k = len(fl.Filter), fl.HashFuncs
	fl.TxTypes = nil
	for _, tt := range p.txTypes {
		fl.TxTypes = append(fl.TxTypes, common2.TxType(tt))
	}
	for _, a := range p.adds {
		f.Add(a)
	}
	return f, fl
}

// served builds the per-peer filter object of elanet/server.go from the wire form.
func (p *filterPlan) served() (*filter.Filter, error) {
	_, fl := (&filterPlan{ctor: p.ctor, elements: p.elements, fprate: p.fprate, size: p.size, k: p.k, tweak: p.tweak, txTypes: p.txTypes}).direct()
	buf := new(bytes.Buffer)
	if err := fl.Serialize(buf); err != nil {
		return nil, err
	}
	sf := filter.New(func(typ uint8) filter.TxFilter {
		if typ == filter.FTBloom {
			return bloom.NewTxFilter()
		}
		return nil
	})
	if err := sf.Load(&msg.TxFilterLoad{Type: filter.FTBloom, Data: buf.Bytes()}); err != nil {
		return nil, err
	}
	for _, a := range p.adds {
		if err := sf.Add(a); err != nil {
			return nil, err
		}
	}
	return sf, nil
}

func TestServed(t *testing.T) {
	rapid.Check(t, func(t *rapid.T) {
		c := &servedCase{}
		plan := &filterPlan{}
		plan.tweak = rapid.OneOf(rapid.Just(uint32(0)), rapid.Uint32Range(0, 0xfffffffe)).Draw(t, "tweak")
		sideChain := rapid.IntRange(0, 5).Draw(t, "sideChainFilter") == 0
		if sideChain {
			plan.tweak = 0xffffffff
			for _, b := range rapid.SliceOfN(rapid.SampledFrom([]byte{byte(common2.CoinBase), byte(common2.TransferAsset), byte(common2.Record), 0x63}), 0, 2).Draw(t, "txTypes") {
				plan.txTypes = append(plan.txTypes, b)
			}
		}
		if rapid.Bool().Draw(t, "ctorNew") {
			plan.ctor = "new"
			plan.elements = uint32(rapid.IntRange(1, 200).Draw(t, "elements"))
			plan.fprate = rapid.SampledFrom([]float64{1e-9, 1e-6, 1e-4, 0.001, 0.01, 0.1, 0.3, 1.0}).Draw(t, "fprate")
		} else {
			plan.ctor = "load"
			plan.size = rapid.OneOf(rapid.IntRange(0, 4), rapid.IntRange(8, 200), rapid.IntRange(8, 200), rapid.IntRange(30, 200), rapid.IntRange(30, 200),
				rapid.IntRange(200, 4000), rapid.IntRange(200, 4000)).Draw(t, "size")
			plan.k = uint32(rapid.OneOf(rapid.IntRange(1, 8), rapid.IntRange(1, 8), rapid.IntRange(0, 50)).Draw(t, "k"))
		}
		maxTx := 24
		if vk.Thorough() {
			maxTx = 70
		}
		ntx := rapid.OneOf(rapid.IntRange(1, 3), rapid.IntRange(3, 12), rapid.IntRange(3, 12), rapid.IntRange(13, maxTx), rapid.IntRange(13, maxTx)).Draw(t, "ntx")
		nph := rapid.IntRange(1, 8).Draw(t, "nph")
		phs := make([][21]byte, nph)
		watchedPH := map[[21]byte]bool{}
		for i := range phs {
			phs[i] = draw21(t, "ph")
			if rapid.IntRange(0, 3).Draw(t, "watchPH") == 0 {
				watchedPH[phs[i]] = true
				plan.adds = append(plan.adds, append([]byte(nil), phs[i][:]...))
				c.Watched = append(c.Watched, "ph:"+hex.EncodeToString(phs[i][:]))
			}
		}
		nop := rapid.IntRange(0, 6).Draw(t, "nop")
		ops := make([][]byte, nop)
		watchedOP := map[string]bool{}
		for i := range ops {
			ops[i] = outpointBytes(draw32(t, "optx"), uint16(rapid.IntRange(0, 3).Draw(t, "opidx")))
			if rapid.IntRange(0, 3).Draw(t, "watchOP") == 0 {
				watchedOP[string(ops[i])] = true
				plan.adds = append(plan.adds, ops[i])
				c.Watched = append(c.Watched, "op:"+hex.EncodeToString(ops[i]))
			}
		}
		// transactions
		var txs []interfaces.Transaction
		var models []*txModel
		related := map[int]bool{}
		for i := 0; i < ntx; i++ {
			var inputs []*common2.Input
			var outputs []*common2.Output
			m := &txModel{}
			tt := common2.TransferAsset
			var pl interfaces.Payload = &payload.TransferAsset{}
			if i > 0 && rapid.IntRange(0, 3).Draw(t, "record") == 0 {
				tt, pl = common2.Record, &payload.Record{Type: "r", Content: rapid.SliceOfN(rapid.Byte(), 0, 6).Draw(t, "rec")}
			}
			if i == 0 {
				tt, pl = common2.CoinBase, &payload.CoinBase{Content: rapid.SliceOfN(rapid.Byte(), 0, 6).Draw(t, "cb")}
				inputs = append(inputs, &common2.Input{Previous: common2.OutPoint{Index: 0xffff}, Sequence: 0xffffffff})
				m.inputs = append(m.inputs, outpointBytes(hash{}, 0xffff))
			} else {
				nin := rapid.IntRange(1, 2).Draw(t, "nin")
				for j := 0; j < nin; j++ {
					var ob []byte
					if nop > 0 && rapid.IntRange(0, 9).Draw(t, "inKnown") < 3 {
						ob = ops[rapid.IntRange(0, nop-1).Draw(t, "inOP")]
					} else {
						ob = outpointBytes(draw32(t, "inFresh"), uint16(rapid.IntRange(0, 3).Draw(t, "inIdx")))
					}
					var op common2.OutPoint
					copy(op.TxID[:], ob[:32])
					op.Index = uint16(ob[32]) | uint16(ob[33])<<8
					inputs = append(inputs, &common2.Input{Previous: op})
					m.inputs = append(m.inputs, ob)
					if watchedOP[string(ob)] {
						related[i] = true
					}
				}
			}
			nout := rapid.IntRange(1, 3).Draw(t, "nout")
			for j := 0; j < nout; j++ {
				var ph [21]byte
				if rapid.IntRange(0, 9).Draw(t, "outKnown") < 4 {
					ph = phs[rapid.IntRange(0, nph-1).Draw(t, "outPH")]
				} else {
					ph = draw21(t, "outFresh")
				}
				outputs = append(outputs, &common2.Output{Value: common.Fixed64(rapid.Int64Range(0, 1e9).Draw(t, "val")),
					ProgramHash: common.Uint168(ph), Payload: &outputpayload.DefaultOutput{}})
				m.outputs = append(m.outputs, ph)
				if watchedPH[ph] {
					related[i] = true
				}
			}
			ver := common2.TxVersionDefault
			if rapid.Bool().Draw(t, "v9") {
				ver = common2.TxVersion09
			}
			tx := functions.CreateTransaction(ver, tt, 0, pl, []*common2.Attribute{}, inputs, outputs,
				rapid.Uint32().Draw(t, "lock"), []*pg.Program{})
			m.hash = hash(tx.Hash())
			m.txType = byte(tt)
			if rapid.IntRange(0, 11).Draw(t, "watchTxid") == 0 {
				plan.adds = append(plan.adds, append([]byte(nil), m.hash[:]...))
				c.Watched = append(c.Watched, "txid:"+hx(m.hash))
				related[i] = true
			}
			txs = append(txs, tx)
			models = append(models, m)
		}
		for i, m := range models {
			s := hx(m.hash) + "|"
			for _, o := range m.outputs {
				s += hex.EncodeToString(o[:]) + ","
			}
			s += "|"
			for _, in := range m.inputs {
				s += hex.EncodeToString(in) + ","
			}
			c.Txs = append(c.Txs, s)
			if related[i] {
				c.Related = append(c.Related, i)
			}
		}

		// the block as the node stores it
		c.leaves = make([]hash, ntx)
		hs := make([]common.Uint256, ntx)
		for i, m := range models {
			c.leaves[i] = m.hash
			hs[i] = common.Uint256(m.hash)
		}
		c.N = ntx
		rows := levels(c.leaves)
		c.root = rows[len(rows)-1][0]
		nodeRootV, err := crypto.ComputeRoot(hs)
		if err != nil || hash(nodeRootV) != c.root {
			vk.Report(t, "C08:crypto.ComputeRoot:differs-from-reference", fmt.Sprint(err), c)
			return
		}
		block := &types.Block{Header: common2.Header{Version: rapid.Uint32().Draw(t, "hver"), Previous: common.Uint256(draw32(t, "prev")),
			MerkleRoot: nodeRootV, Timestamp: rapid.Uint32().Draw(t, "ts"), Bits: 0x207fffff, Nonce: rapid.Uint32().Draw(t, "nonce"),
			Height: rapid.Uint32().Draw(t, "height")}, Transactions: txs}

		// real filters and the reference prediction
		var f *bloom.Filter
		var sf *filter.Filter
		var ferr error
		if p, v, fr := vk.Catch(func() { f, _ = plan.direct(); sf, ferr = plan.served() }); p {
			vk.Report(t, "C08:filter:panic:"+fr, fmt.Sprint(v), c)
			return
		}
		if ferr != nil {
			t.Fatalf("harness: served filter: %v", ferr)
		}
		c.Ctor, c.Size, c.K, c.Tweak = plan.ctor, plan.size, plan.k, plan.tweak
		ref := &refFilter{bits: make([]byte, plan.size), k: plan.k, tweak: plan.tweak, txTypes: plan.txTypes}
		for _, a := range plan.adds {
			ref.add(a)
		}
		c.match = make([]bool, ntx)
		for i, m := range models {
			c.match[i] = ref.matchTx(m)
			if c.match[i] {
				c.Expected = append(c.Expected, i)
			}
			if related[i] && !c.match[i] && !sideChain {
				t.Fatalf("harness: reference filter has a false negative")
			}
		}
		c.Match = bitmapString(c.match)

		var mbA, mbB *msg.MerkleBlock
		var idxA, idxB []uint32
		if p, v, fr := vk.Catch(func() { mbA, idxA = bloom.NewMerkleBlock(block, f) }); p {
			vk.Report(t, "C08:bloom.NewMerkleBlock:panic:"+fr, fmt.Sprint(v), c)
			return
		}
		if p, v, fr := vk.Catch(func() { mbB, idxB = filter.NewMerkleBlock(block.Transactions, sf) }); p {
			vk.Report(t, "C08:filter.NewMerkleBlock:panic:"+fr, fmt.Sprint(v), c)
			return
		}
		mbB.Header = &block.Header // what pushMerkleBlockMsg does for bloom filters
		for _, got := range []struct {
			name string
			idx  []uint32
		}{{"bloom.NewMerkleBlock", idxA}, {"filter.NewMerkleBlock", idxB}} {
			set := map[uint32]bool{}
			for _, i := range got.idx {
				set[i] = true
			}
			for i := range related {
				if !set[uint32(i)] && !sideChain { // side-chain filters do not watch outpoints/txids
					vk.Report(t, "C08:"+got.name+":watched-transaction-not-matched", fmt.Sprintf("tx %d", i), c)
					return
				}
			}
			ok := len(got.idx) == len(c.Expected)
			for k := 0; ok && k < len(got.idx); k++ {
				ok = int(got.idx[k]) == c.Expected[k]
			}
			if !ok {
				vk.Report(t, "C08:"+got.name+":matched-indexes-differ-from-reference", fmt.Sprintf("got %v want %v", got.idx, c.Expected), c)
				return
			}
		}
		c.Via = "bloom.NewMerkleBlock"
		if !verifyHonest(t, mbA, &c.proofCase) || !verifyBranches(t, mbA, &c.proofCase, 4) {
			return
		}
		c.Via = "filter.NewMerkleBlock+wire"
		wb, ok := wire(t, mbB, &c.proofCase)
		if !ok {
			return
		}
		wh := wb.Header.(*common2.Header)
		bh := &block.Header
		if wh.Version != bh.Version || wh.Previous != bh.Previous || wh.MerkleRoot != bh.MerkleRoot || wh.Timestamp != bh.Timestamp ||
			wh.Bits != bh.Bits || wh.Nonce != bh.Nonce || wh.Height != bh.Height {
			vk.Report(t, "C08:wire:header-differs", "", c)
			return
		}
		if !verifyHonest(t, wb, &c.proofCase) || !verifyBranches(t, wb, &c.proofCase, 4) {
			return
		}
		if !corruptOne(t, wb, &c.proofCase, "hash", rapid.IntRange(0, len(wb.Hashes)-1).Draw(t, "hidx"), rapid.IntRange(0, 255).Draw(t, "hbit")) ||
			!corruptOne(t, wb, &c.proofCase, "root", 0, rapid.IntRange(0, 255).Draw(t, "rbit")) ||
			!corruptOne(t, wb, &c.proofCase, "flag", 0, rapid.IntRange(0, len(wb.Flags)*8-1).Draw(t, "fbit")) {
			return
		}
		c.Mutation = ""
		key, _ := json.Marshal(c)
		cl := "served/" + shapeClass(&c.proofCase)
		if len(related) > 0 {
			cl += "/watched"
		}
		if sideChain {
			cl += "/side-chain-filter"
		}
		vk.Case(cl, nontrivial(&c.proofCase), key, func() any { return c })
	})
}
