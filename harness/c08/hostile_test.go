package c08

import (
	"encoding/hex"
	"encoding/json"
	"fmt"
	"os"
	"testing"

	"github.com/elastos/Elastos.ELA/auxpow"
	"github.com/elastos/Elastos.ELA/common"
	common2 "github.com/elastos/Elastos.ELA/core/types/common"
	"github.com/elastos/Elastos.ELA/elanet/bloom"
	"github.com/elastos/Elastos.ELA/p2p/msg"
	"pgregory.net/rapid"
	"verifharness/lib/vk"
)

type hostileCase struct {
	proofCase
	Transactions uint32   `json:"transactions"`
	Hashes       []string `json:"hashes"`
	Flags        string   `json:"flags"`
	Root         string   `json:"root"`
	Steps        []string `json:"steps,omitempty"`
}

// hostileOracle: whatever the message says, the checkers neither panic nor
// hang, accept exactly what the reference extractor accepts (with the same
// ids), and for an accepted proof with pairwise distinct hashes every returned
// id has a branch that recomputes the header root.
func hostileOracle(t vk.TB, mb *msg.MerkleBlock, c *hostileCase, sameCount bool) bool {
	hostileFill(mb, c)
	root := hash(mb.Header.(*common2.Header).MerkleRoot)
	c.Mutation = fmt.Sprint(c.Steps)
	if !expectVerdict(t, mb, &c.proofCase, false, sameCount) {
		return false
	}
	ids, err := bloom.CheckMerkleBlock(*cloneMB(mb))
	if err != nil {
		return true
	}
	distinct := map[hash]bool{}
	for _, h := range mb.Hashes {
		distinct[hash(*h)] = true
	}
	if len(distinct) != len(mb.Hashes) {
		// duplicated hashes make "the" leaf of an id ambiguous (GetTxMerkleBranch
		// looks the id up by value); a proof accepted against a real block root
		// never contains duplicates, so this is outside the statement
		vk.Class("hostile/accepted-with-duplicate-hashes(branch skipped)")
		return true
	}
	for i, id := range ids {
		if i >= 4 {
			break
		}
		var br *bloom.MerkleBranch
		var berr error
		p, v, fr, hung := guarded(func() { br, berr = bloom.GetTxMerkleBranch(*cloneMB(mb), id) })
		if hung {
			vk.Report(t, "C08:GetTxMerkleBranch:hang", c.Mutation, c)
			return false
		}
		if p {
			vk.Report(t, "C08:GetTxMerkleBranch:panic:"+fr, fmt.Sprintf("%v: %s", v, c.Mutation), c)
			return false
		}
		if berr != nil {
			vk.Report(t, "C08:GetTxMerkleBranch:error-for-accepted-proof", berr.Error(), c)
			return false
		}
		if hash(auxpow.GetMerkleRoot(*id, br.Branches, br.Index)) != root {
			vk.Report(t, "C08:GetTxMerkleBranch:branch-does-not-recompute-root", c.Mutation, c)
			return false
		}
	}
	return true
}

func hostileFill(mb *msg.MerkleBlock, c *hostileCase) {
	c.Transactions = mb.Transactions
	c.Hashes = nil
	for _, h := range mb.Hashes {
		c.Hashes = append(c.Hashes, hex.EncodeToString(h[:]))
	}
	c.Flags = hex.EncodeToString(mb.Flags)
	c.Root = hx(hash(mb.Header.(*common2.Header).MerkleRoot))
}

var hostileCounts = []uint32{0, 1, 2, 3, 7, 8, 9, 9999, 10000, 10001, 65535, 65536, 1 << 30, 1<<30 + 1, 1<<31 - 1, 1 << 31, 1<<31 + 1, 1<<32 - 2, 1<<32 - 1}

// forgeDuplicate looks for a longer leaf list that has the same merkle root
// because it spells out the node the tree builder duplicates implicitly on an
// odd level (CVE-2012-2459).  A proof over that list that visits the explicit
// duplicate must not verify, although its root is the block's root.
func forgeDuplicate(t *rapid.T, c *hostileCase) (*msg.MerkleBlock, bool) {
	n := len(c.leaves)
	type cand struct{ np, d int }
	var cands []cand
	for np := n + 1; np <= 2*n && np <= n+64; np++ {
		for d := 1; d <= n; d *= 2 {
			padded := append([]hash(nil), c.leaves...)
			for i := n; i < np; i++ {
				padded = append(padded, padded[i-d])
			}
			rows := levels(padded)
			if rows[len(rows)-1][0] == c.root {
				cands = append(cands, cand{np, d})
			}
		}
	}
	if len(cands) == 0 {
		return nil, false
	}
	k := cands[rapid.IntRange(0, len(cands)-1).Draw(t, "forgery")]
	padded := append([]hash(nil), c.leaves...)
	match := append([]bool(nil), c.match...)
	for i := n; i < k.np; i++ {
		padded = append(padded, padded[i-k.d])
		match = append(match, false)
	}
	// flag one duplicated leaf and its original so that both are visited explicitly
	j := rapid.IntRange(n, k.np-1).Draw(t, "flagged")
	match[j], match[j-k.d] = true, true
	p := refBuild(padded, match)
	mb := &msg.MerkleBlock{Header: &common2.Header{MerkleRoot: common.Uint256(c.root)}, Transactions: p.n, Flags: p.flags}
	for _, h := range p.hashes {
		mb.Hashes = append(mb.Hashes, toU256(h))
	}
	c.Steps = append(c.Steps, fmt.Sprintf("forge-duplicate-subtree n'=%d d=%d flagged=%d", k.np, k.d, j))
	return mb, true
}

func TestHostile(t *testing.T) {
	rapid.Check(t, func(t *rapid.T) {
		c := &hostileCase{proofCase: *drawShape(t)}
		c.Via = "hostile"
		if c.N <= 130 && rapid.IntRange(0, 5).Draw(t, "forge") == 0 {
			if mb, ok := forgeDuplicate(t, c); ok {
				c.Mutation = fmt.Sprint(c.Steps)
				hostileFill(mb, c)
				if !expectVerdict(t, mb, &c.proofCase, true, false) {
					return
				}
				key, _ := json.Marshal(c)
				vk.Case("hostile/forged-duplicate-subtree/rejected", true, key, func() any { return c })
				return
			}
		}
		mb := buildWithMBlock(c.leaves, c.match, c.root)
		sameCount := true
		nsteps := rapid.IntRange(1, 3).Draw(t, "nsteps")
		for s := 0; s < nsteps; s++ {
			kinds := []string{"count", "count", "hash-drop", "hash-dup", "hash-swap", "hash-append", "hash-truncate",
				"flags-truncate", "flags-append", "flags-byte", "flags-ones", "flags-zeros", "flags-empty", "hashes-empty"}
			kind := rapid.SampledFrom(kinds).Draw(t, "kind")
			switch kind {
			case "count":
				n := mb.Transactions
				nv := rapid.OneOf(rapid.SampledFrom([]uint32{n + 1, n - 1, n * 2, n / 2, n + 2, (n + 1) / 2}),
					rapid.SampledFrom(hostileCounts), rapid.Uint32Range(1, 300), rapid.Uint32()).Draw(t, "count")
				mb.Transactions = nv
				sameCount = sameCount && nv == uint32(c.N)
				kind += fmt.Sprintf("=%d", nv)
			case "hash-drop":
				if len(mb.Hashes) > 0 {
					i := rapid.IntRange(0, len(mb.Hashes)-1).Draw(t, "i")
					mb.Hashes = append(mb.Hashes[:i:i], mb.Hashes[i+1:]...)
				}
			case "hash-dup":
				if len(mb.Hashes) > 0 {
					i := rapid.IntRange(0, len(mb.Hashes)-1).Draw(t, "i")
					j := rapid.IntRange(0, len(mb.Hashes)).Draw(t, "j")
					v := *mb.Hashes[i]
					mb.Hashes = append(mb.Hashes[:j:j], append([]*common.Uint256{&v}, mb.Hashes[j:]...)...)
				}
			case "hash-swap":
				if len(mb.Hashes) > 1 {
					i := rapid.IntRange(0, len(mb.Hashes)-1).Draw(t, "i")
					j := rapid.IntRange(0, len(mb.Hashes)-1).Draw(t, "j")
					mb.Hashes[i], mb.Hashes[j] = mb.Hashes[j], mb.Hashes[i]
				}
			case "hash-append":
				mb.Hashes = append(mb.Hashes, toU256(draw32(t, "extra")))
			case "hash-truncate":
				mb.Hashes = mb.Hashes[:rapid.IntRange(0, len(mb.Hashes)).Draw(t, "keep")]
			case "hashes-empty":
				mb.Hashes = nil
			case "flags-truncate":
				mb.Flags = mb.Flags[:rapid.IntRange(0, len(mb.Flags)).Draw(t, "keep")]
			case "flags-append":
				mb.Flags = append(mb.Flags, rapid.SliceOfN(rapid.Byte(), 1, 3).Draw(t, "more")...)
			case "flags-byte":
				if len(mb.Flags) > 0 {
					mb.Flags[rapid.IntRange(0, len(mb.Flags)-1).Draw(t, "i")] = rapid.Byte().Draw(t, "b")
				}
			case "flags-ones":
				for i := range mb.Flags {
					mb.Flags[i] = 0xff
				}
			case "flags-zeros":
				for i := range mb.Flags {
					mb.Flags[i] = 0
				}
			case "flags-empty":
				mb.Flags = nil
			}
			c.Steps = append(c.Steps, kind)
		}
		// half of the time give the message the root its own structure implies,
		// so that structurally valid forgeries are accepted and compared in depth
		rootMode := "original-root"
		if rapid.Bool().Draw(t, "selfRoot") {
			if r, _, _, _, ok := refExtract(mb.Transactions, hashesOf(mb), mb.Flags); ok {
				mb.Header.(*common2.Header).MerkleRoot = common.Uint256(r)
				rootMode = "self-consistent-root"
				sameCount = false
			}
		}
		c.Steps = append(c.Steps, rootMode)
		if !hostileOracle(t, mb, c, sameCount) {
			return
		}
		_, err := bloom.CheckMerkleBlock(*cloneMB(mb))
		verdict := "rejected"
		if err == nil {
			verdict = "accepted"
		}
		cnt := "count-kept"
		switch {
		case mb.Transactions == 0:
			cnt = "count=0"
		case mb.Transactions > 1<<31:
			cnt = "count>2^31"
		case mb.Transactions > 10000:
			cnt = "count>max"
		case mb.Transactions != uint32(c.N):
			cnt = "count-changed"
		}
		key, _ := json.Marshal(c)
		vk.Case("hostile/"+cnt+"/"+rootMode+"/"+verdict, true, key, func() any { return c })
	})
}

// fuzzOne is the body shared by the native fuzz target and the raw replay.
func fuzzOne(t vk.TB, n uint32, hs []byte, flags []byte, rootSel uint8) {
	c := &hostileCase{}
	c.Via = "fuzz"
	mb := &msg.MerkleBlock{Transactions: n, Flags: append([]byte(nil), flags...)}
	for i := 0; i+32 <= len(hs) && i < 32*600; i += 32 {
		var h common.Uint256
		copy(h[:], hs[i:i+32])
		mb.Hashes = append(mb.Hashes, &h)
	}
	var root hash
	r, _, _, _, ok := refExtract(n, hashesOf(mb), mb.Flags)
	if ok && rootSel%4 != 0 {
		root = r
		c.Steps = []string{"self-consistent-root"}
	} else {
		root = sha256d(append([]byte{rootSel}, hs...))
		c.Steps = []string{"unrelated-root"}
	}
	mb.Header = &common2.Header{MerkleRoot: common.Uint256(root)}
	hostileOracle(t, mb, c, false)
}

func FuzzCheckMerkleBlock(f *testing.F) {
	// seeds: honest proofs of several shapes, plus hostile constants
	for _, n := range []int{1, 2, 3, 5, 7, 8, 13, 33} {
		leaves := synthLeaves(uint64(n), n)
		for _, per := range []int{0, 150, 500, 1000} {
			p := refBuild(leaves, prngBits(uint64(n*per+1), n, per))
			var hs []byte
			for _, h := range p.hashes {
				hs = append(hs, h[:]...)
			}
			f.Add(p.n, hs, p.flags, uint8(1))
			f.Add(p.n, hs, p.flags, uint8(0))
			f.Add(p.n+1, hs, p.flags, uint8(1))
			f.Add(p.n*2, hs, append(p.flags, 0xff), uint8(2))
		}
	}
	one := make([]byte, 64)
	for _, n := range hostileCounts {
		f.Add(n, one, []byte{0xff, 0xff, 0xff, 0xff, 0xff}, uint8(1))
		f.Add(n, one[:32], []byte{0x00}, uint8(3))
		f.Add(n, []byte{}, []byte{}, uint8(1))
	}
	f.Fuzz(func(t *testing.T, n uint32, hs []byte, flags []byte, rootSel uint8) {
		fuzzOne(t, n, hs, flags, rootSel)
	})
}

// TestReplayInput re-runs a native-fuzz crasher file (go test fuzz v1 corpus
// format) given in VERIF_REPLAY_INPUT.
func TestReplayInput(t *testing.T) {
	p := os.Getenv("VERIF_REPLAY_INPUT")
	if p == "" {
		t.Skip("no VERIF_REPLAY_INPUT")
	}
	vals, err := parseCorpusFile(p)
	if err != nil || len(vals) != 4 {
		t.Fatalf("harness: cannot parse %s: %v", p, err)
	}
	fuzzOne(t, vals[0].(uint32), vals[1].([]byte), vals[2].([]byte), vals[3].(uint8))
}
