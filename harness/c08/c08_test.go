package c08

import (
	"bytes"
	"encoding/binary"
	"encoding/hex"
	"encoding/json"
	"fmt"
	"testing"
	"time"

	"github.com/elastos/Elastos.ELA/auxpow"
	"github.com/elastos/Elastos.ELA/common"
	"github.com/elastos/Elastos.ELA/core/transaction"
	common2 "github.com/elastos/Elastos.ELA/core/types/common"
	"github.com/elastos/Elastos.ELA/core/types/functions"
	"github.com/elastos/Elastos.ELA/crypto"
	"github.com/elastos/Elastos.ELA/elanet/bloom"
	"github.com/elastos/Elastos.ELA/elanet/filter"
	"github.com/elastos/Elastos.ELA/p2p/msg"
	"pgregory.net/rapid"
	"verifharness/lib/vk"
)

func TestMain(m *testing.M) {
	functions.GetTransactionByTxType = transaction.GetTransaction
	functions.GetTransactionByBytes = transaction.GetTransactionByBytes
	functions.CreateTransaction = transaction.CreateTransaction
	functions.GetTransactionParameters = transaction.GetTransactionparameters
	vk.Main(m, "C08")
}

// ------------------------------------------------------------------ helpers

// synthLeaves derives n distinct pseudo txids from a seed drawn by the generator.
func synthLeaves(seed uint64, n int) []hash {
	out := make([]hash, n)
	var b [12]byte
	binary.LittleEndian.PutUint64(b[:8], seed)
	for i := range out {
		binary.LittleEndian.PutUint32(b[8:], uint32(i))
		out[i] = sha256d(b[:])
	}
	return out
}

// prngBits is a deterministic bit stream keyed by a drawn seed (used for big bitmaps).
func prngBits(seed uint64, n int, per1000 int) []bool {
	out := make([]bool, n)
	var b [16]byte
	binary.LittleEndian.PutUint64(b[:8], seed)
	for i := range out {
		binary.LittleEndian.PutUint64(b[8:], uint64(i))
		h := sha256d(b[:])
		out[i] = int(binary.LittleEndian.Uint32(h[:4])%1000) < per1000
	}
	return out
}

type proofCase struct {
	N        int    `json:"n"`
	Seed     uint64 `json:"leaf_seed"`
	Match    string `json:"match"` // bitmap, leaf 0 first
	Via      string `json:"via"`
	Mutation string `json:"mutation,omitempty"`
	leaves   []hash
	match    []bool
	root     hash
}

func bitmapString(m []bool) string {
	b := make([]byte, len(m))
	for i, v := range m {
		b[i] = '0'
		if v {
			b[i] = '1'
		}
	}
	if len(b) > 200 {
		return string(b[:200]) + fmt.Sprintf("...(%d)", len(b))
	}
	return string(b)
}

func toU256(h hash) *common.Uint256 { u := common.Uint256(h); return &u }

// buildWithMBlock drives the anchored builder (MBlock.TraverseAndBuild) the
// way NewMerkleBlock does, for synthetic txids.
func buildWithMBlock(leaves []hash, match []bool, root hash) *msg.MerkleBlock {
	mb := bloom.MBlock{NumTx: uint32(len(leaves))}
	for i, l := range leaves {
		mb.AllHashes = append(mb.AllHashes, toU256(l))
		if match[i] {
			mb.MatchedBits = append(mb.MatchedBits, 1)
		} else {
			mb.MatchedBits = append(mb.MatchedBits, 0)
		}
	}
	height := uint32(0)
	for mb.CalcTreeWidth(height) > 1 {
		height++
	}
	mb.TraverseAndBuild(height, 0)
	out := &msg.MerkleBlock{
		Header:       &common2.Header{MerkleRoot: common.Uint256(root)},
		Transactions: mb.NumTx,
		Flags:        make([]byte, (len(mb.Bits)+7)/8),
	}
	out.Hashes = append(out.Hashes, mb.FinalHashes...)
	for i := range mb.Bits {
		out.Flags[i/8] |= mb.Bits[i] << (uint(i) % 8)
	}
	return out
}

func cloneMB(m *msg.MerkleBlock) *msg.MerkleBlock {
	h := *(m.Header.(*common2.Header))
	c := &msg.MerkleBlock{Header: &h, Transactions: m.Transactions, Flags: append([]byte(nil), m.Flags...)}
	for _, x := range m.Hashes {
		v := *x
		c.Hashes = append(c.Hashes, &v)
	}
	return c
}

func hashesOf(m *msg.MerkleBlock) []hash {
	out := make([]hash, len(m.Hashes))
	for i, h := range m.Hashes {
		out[i] = hash(*h)
	}
	return out
}

func idsOf(ids []*common.Uint256) []hash {
	out := make([]hash, len(ids))
	for i, h := range ids {
		out[i] = hash(*h)
	}
	return out
}

func sameHashes(a, b []hash) bool {
	if len(a) != len(b) {
		return false
	}
	for i := range a {
		if a[i] != b[i] {
			return false
		}
	}
	return true
}

// orderedSubsequence reports whether ids occur in leaves in the same order.
func orderedSubsequence(ids, leaves []hash) bool {
	j := 0
	for _, id := range ids {
		for j < len(leaves) && leaves[j] != id {
			j++
		}
		if j == len(leaves) {
			return false
		}
		j++
	}
	return true
}

type checker struct {
	name string
	f    func(msg.MerkleBlock) ([]*common.Uint256, error)
}

var checkers = []checker{
	{"bloom.CheckMerkleBlock", bloom.CheckMerkleBlock},
	{"filter.CheckMerkleBlock", filter.CheckMerkleBlock},
}

// guarded runs f with panic capture and a watchdog.  The code under test has
// no unbounded loops on honest data, so the watchdog only matters for hostile
// counts; 60 s is many orders of magnitude above the slowest honest call.
func guarded(f func()) (panicked bool, val any, frame string, hung bool) {
	done := make(chan struct{})
	go func() {
		defer close(done)
		panicked, val, frame = vk.Catch(f)
	}()
	select {
	case <-done:
		return
	case <-time.After(60 * time.Second):
		return false, nil, "", true
	}
}

// verifyHonest: completeness and exactness of an honestly built proof.
func verifyHonest(t vk.TB, mb *msg.MerkleBlock, c *proofCase) bool {
	ref := refBuild(c.leaves, c.match)
	if mb.Transactions != ref.n {
		vk.Report(t, "C08:build:transaction-count", fmt.Sprintf("got %d want %d", mb.Transactions, ref.n), c)
		return false
	}
	if !sameHashes(hashesOf(mb), ref.hashes) {
		vk.Report(t, "C08:build:hashes-differ-from-reference", fmt.Sprintf("got %d hashes want %d", len(mb.Hashes), len(ref.hashes)), c)
		return false
	}
	if !bytes.Equal(mb.Flags, ref.flags) {
		vk.Report(t, "C08:build:flags-differ-from-reference", fmt.Sprintf("got %x want %x", mb.Flags, ref.flags), c)
		return false
	}
	var want []hash
	for i, m := range c.match {
		if m {
			want = append(want, c.leaves[i])
		}
	}
	for _, ck := range checkers {
		var ids []*common.Uint256
		var err error
		if p, v, fr := vk.Catch(func() { ids, err = ck.f(*cloneMB(mb)) }); p {
			vk.Report(t, "C08:"+ck.name+":panic:"+fr, fmt.Sprint(v), c)
			return false
		}
		if err != nil {
			vk.Report(t, "C08:"+ck.name+":honest-proof-rejected", err.Error(), c)
			return false
		}
		if !sameHashes(idsOf(ids), want) {
			vk.Report(t, "C08:"+ck.name+":recovered-set-differs", fmt.Sprintf("got %d ids want %d", len(ids), len(want)), c)
			return false
		}
	}
	return true
}

// verifyBranches: every matched leaf yields a branch that recomputes the root.
func verifyBranches(t vk.TB, mb *msg.MerkleBlock, c *proofCase, limit int) bool {
	depth := 0
	for (1 << depth) < len(c.leaves) {
		depth++
	}
	done := 0
	for i, m := range c.match {
		if !m {
			continue
		}
		if limit > 0 && done >= limit {
			break
		}
		done++
		var br *bloom.MerkleBranch
		var err error
		if p, v, fr := vk.Catch(func() { br, err = bloom.GetTxMerkleBranch(*cloneMB(mb), toU256(c.leaves[i])) }); p {
			vk.Report(t, "C08:GetTxMerkleBranch:panic:"+fr, fmt.Sprintf("leaf %d: %v", i, v), c)
			return false
		}
		if err != nil {
			vk.Report(t, "C08:GetTxMerkleBranch:error-for-matched-leaf", fmt.Sprintf("leaf %d: %v", i, err), c)
			return false
		}
		got := auxpow.GetMerkleRoot(common.Uint256(c.leaves[i]), br.Branches, br.Index)
		if hash(got) != c.root {
			vk.Report(t, "C08:GetTxMerkleBranch:branch-does-not-recompute-root", fmt.Sprintf("leaf %d index %d branch len %d", i, br.Index, len(br.Branches)), c)
			return false
		}
		bs := make([]hash, len(br.Branches))
		for k := range bs {
			bs[k] = hash(br.Branches[k])
		}
		if evalBranch(c.leaves[i], bs, br.Index) != c.root || len(bs) != depth {
			vk.Report(t, "C08:GetTxMerkleBranch:branch-shape", fmt.Sprintf("leaf %d index %d branch len %d depth %d", i, br.Index, len(bs), depth), c)
			return false
		}
	}
	return true
}

// expectVerdict runs both checkers on a (possibly corrupted) proof and compares
// with the reference extractor.  sameCount tells that Transactions is the real
// count, so that accepted ids must be real txids.
func expectVerdict(t vk.TB, mb *msg.MerkleBlock, c *proofCase, mustReject bool, sameCount bool) bool {
	root := hash(mb.Header.(*common2.Header).MerkleRoot)
	rroot, rids, _, _, rok := refExtract(mb.Transactions, hashesOf(mb), mb.Flags)
	refAccept := rok && rroot == root
	for _, ck := range checkers {
		var ids []*common.Uint256
		var err error
		p, v, fr, hung := guarded(func() { ids, err = ck.f(*cloneMB(mb)) })
		if hung {
			vk.Report(t, "C08:"+ck.name+":hang", fmt.Sprintf("no result after 60 s, Transactions=%d", mb.Transactions), c)
			return false
		}
		if p {
			vk.Report(t, "C08:"+ck.name+":panic:"+fr, fmt.Sprint(v), c)
			return false
		}
		accepted := err == nil
		if accepted && mustReject {
			vk.Report(t, "C08:"+ck.name+":corrupted-proof-accepted", c.Mutation, c)
			return false
		}
		if accepted && sameCount && !orderedSubsequence(idsOf(ids), c.leaves) {
			vk.Report(t, "C08:"+ck.name+":invented-txid", c.Mutation, c)
			return false
		}
		if accepted && !refAccept {
			vk.Report(t, "C08:"+ck.name+":accepted-but-reference-rejects", c.Mutation, c)
			return false
		}
		if accepted && !sameHashes(idsOf(ids), rids) {
			vk.Report(t, "C08:"+ck.name+":accepted-set-differs-from-reference", c.Mutation, c)
			return false
		}
		if !accepted && refAccept && mb.Transactions <= 1<<31 { // above 2^31 leaves the position encoding cannot represent the tree
			vk.Report(t, "C08:"+ck.name+":rejected-but-reference-accepts", c.Mutation+": "+err.Error(), c)
			return false
		}
	}
	return true
}

func nontrivial(c *proofCase) bool {
	n := len(c.leaves)
	ones := 0
	for _, m := range c.match {
		if m {
			ones++
		}
	}
	if n >= 3 && ones >= 1 && ones < n {
		return true
	}
	for w := n; w > 1; w = (w + 1) / 2 {
		if w%2 == 1 {
			return true
		}
	}
	return false
}

func shapeClass(c *proofCase) string {
	n := len(c.leaves)
	ones := 0
	for _, m := range c.match {
		if m {
			ones++
		}
	}
	s := "n="
	switch {
	case n == 1:
		s += "1"
	case n == 2:
		s += "2"
	case n <= 12:
		s += "3-12"
	case n <= 40:
		s += "13-40"
	default:
		s += ">40"
	}
	odd := false
	for w := n; w > 1; w = (w + 1) / 2 {
		odd = odd || w%2 == 1
	}
	if odd {
		s += "/odd-width"
	} else {
		s += "/even"
	}
	switch {
	case ones == 0:
		s += "/no-match"
	case ones == n:
		s += "/all-match"
	case ones == 1:
		s += "/one-match"
	default:
		s += "/mixed"
	}
	return s
}

func drawShape(t *rapid.T) *proofCase {
	c := &proofCase{Seed: rapid.Uint64().Draw(t, "leafSeed")}
	if vk.Thorough() {
		c.N = rapid.OneOf(rapid.IntRange(1, 12), rapid.IntRange(1, 40), rapid.IntRange(1, 40), rapid.IntRange(41, 300),
			rapid.SampledFrom([]int{255, 256, 257, 511, 513, 1000, 1023, 1025, 2049})).Draw(t, "n")
	} else {
		c.N = rapid.OneOf(rapid.IntRange(1, 12), rapid.IntRange(1, 40), rapid.IntRange(1, 40),
			rapid.SampledFrom([]int{15, 16, 17, 31, 32, 33, 63, 64, 65, 100, 129})).Draw(t, "n")
	}
	c.leaves = synthLeaves(c.Seed, c.N)
	mode := rapid.SampledFrom([]string{"mask", "mask", "none", "all", "single", "sparse", "half", "dense"}).Draw(t, "matchMode")
	c.match = make([]bool, c.N)
	switch mode {
	case "mask":
		if c.N <= 20 {
			m := rapid.Uint32Range(0, uint32(1)<<uint(c.N)-1).Draw(t, "mask")
			for i := range c.match {
				c.match[i] = m>>uint(i)&1 == 1
			}
		} else {
			c.match = prngBits(rapid.Uint64().Draw(t, "maskSeed"), c.N, rapid.IntRange(0, 1000).Draw(t, "density"))
		}
	case "all":
		for i := range c.match {
			c.match[i] = true
		}
	case "single":
		c.match[rapid.IntRange(0, c.N-1).Draw(t, "single")] = true
	case "sparse":
		c.match = prngBits(rapid.Uint64().Draw(t, "maskSeed"), c.N, 80)
	case "half":
		c.match = prngBits(rapid.Uint64().Draw(t, "maskSeed"), c.N, 500)
	case "dense":
		c.match = prngBits(rapid.Uint64().Draw(t, "maskSeed"), c.N, 920)
	}
	c.Match = bitmapString(c.match)
	rows := levels(c.leaves)
	c.root = rows[len(rows)-1][0]
	return c
}

// nodeRoot checks that the root the node puts into headers (crypto.ComputeRoot)
// is the tree the proof code assumes.
func nodeRoot(t vk.TB, c *proofCase) bool {
	hs := make([]common.Uint256, len(c.leaves))
	for i, l := range c.leaves {
		hs[i] = common.Uint256(l)
	}
	r, err := crypto.ComputeRoot(hs)
	if err != nil || hash(r) != c.root {
		vk.Report(t, "C08:crypto.ComputeRoot:differs-from-reference", fmt.Sprint(err), c)
		return false
	}
	return true
}

// wire sends the merkle block through Serialize/Deserialize like the network does.
func wire(t vk.TB, mb *msg.MerkleBlock, c *proofCase) (*msg.MerkleBlock, bool) {
	buf := new(bytes.Buffer)
	if err := mb.Serialize(buf); err != nil {
		vk.Report(t, "C08:wire:serialize-error", err.Error(), c)
		return nil, false
	}
	out := &msg.MerkleBlock{Header: &common2.Header{}}
	if err := out.Deserialize(bytes.NewReader(buf.Bytes())); err != nil {
		vk.Report(t, "C08:wire:deserialize-error", err.Error(), c)
		return nil, false
	}
	if out.Transactions != mb.Transactions || !sameHashes(hashesOf(out), hashesOf(mb)) || !bytes.Equal(out.Flags, mb.Flags) ||
		out.Header.(*common2.Header).MerkleRoot != mb.Header.(*common2.Header).MerkleRoot {
		vk.Report(t, "C08:wire:round-trip-differs", "", c)
		return nil, false
	}
	return out, true
}

// corruptions applies the single-bit corruptions of the statement.
// hashBits/flagBits/rootBits: which bit positions to flip (nil = skip).
func corruptOne(t vk.TB, mb *msg.MerkleBlock, c *proofCase, kind string, idx, bit int) bool {
	m := cloneMB(mb)
	usedBits := refBuild(c.leaves, c.match).nbits
	switch kind {
	case "hash":
		m.Hashes[idx][bit/8] ^= 1 << (uint(bit) % 8)
		c.Mutation = fmt.Sprintf("flip bit %d of hash %d", bit, idx)
		return expectVerdict(t, m, c, true, true)
	case "root":
		h := m.Header.(*common2.Header)
		h.MerkleRoot[bit/8] ^= 1 << (uint(bit) % 8)
		c.Mutation = fmt.Sprintf("flip bit %d of header merkle root", bit)
		return expectVerdict(t, m, c, true, true)
	case "flag":
		m.Flags[bit/8] ^= 1 << (uint(bit) % 8)
		c.Mutation = fmt.Sprintf("flip flag bit %d (used bits %d)", bit, usedBits)
		if !expectVerdict(t, m, c, false, true) {
			return false
		}
		if bit >= usedBits {
			// padding: nothing may change
			for _, ck := range checkers {
				ids, err := ck.f(*cloneMB(m))
				var want []hash
				for i, mm := range c.match {
					if mm {
						want = append(want, c.leaves[i])
					}
				}
				if err != nil || !sameHashes(idsOf(ids), want) {
					vk.Report(t, "C08:"+ck.name+":padding-bit-changes-result", c.Mutation, c)
					return false
				}
			}
		}
		return true
	case "drop-last-hash":
		m.Hashes = m.Hashes[:len(m.Hashes)-1]
		c.Mutation = "drop last hash"
		return expectVerdict(t, m, c, true, true)
	}
	return true
}

// ------------------------------------------------------------------ unit: synthetic proofs

func TestSynthetic(t *testing.T) {
	rapid.Check(t, func(t *rapid.T) {
		c := drawShape(t)
		c.Via = "MBlock.TraverseAndBuild"
		if !nodeRoot(t, c) {
			return
		}
		var mb *msg.MerkleBlock
		if p, v, fr := vk.Catch(func() { mb = buildWithMBlock(c.leaves, c.match, c.root) }); p {
			vk.Report(t, "C08:build:panic:"+fr, fmt.Sprint(v), c)
			return
		}
		if rapid.Bool().Draw(t, "overWire") {
			c.Via += "+wire"
			var ok bool
			if mb, ok = wire(t, mb, c); !ok {
				return
			}
		}
		if !verifyHonest(t, mb, c) || !verifyBranches(t, mb, c, 6) {
			return
		}
		// single-bit corruptions
		nh := rapid.IntRange(1, 3).Draw(t, "nHashFlips")
		for i := 0; i < nh; i++ {
			if !corruptOne(t, mb, c, "hash", rapid.IntRange(0, len(mb.Hashes)-1).Draw(t, "hidx"), rapid.IntRange(0, 255).Draw(t, "hbit")) {
				return
			}
		}
		if !corruptOne(t, mb, c, "root", 0, rapid.IntRange(0, 255).Draw(t, "rbit")) {
			return
		}
		nf := rapid.IntRange(1, 4).Draw(t, "nFlagFlips")
		for i := 0; i < nf; i++ {
			if !corruptOne(t, mb, c, "flag", 0, rapid.IntRange(0, len(mb.Flags)*8-1).Draw(t, "fbit")) {
				return
			}
		}
		if !corruptOne(t, mb, c, "drop-last-hash", 0, 0) {
			return
		}
		c.Mutation = ""
		key, _ := json.Marshal(c)
		vk.Case("synthetic/"+shapeClass(c), nontrivial(c), key, func() any { return c })
	})
}

// ------------------------------------------------------------------ unit: exhaustive small trees

// TestExhaustive enumerates every match bitmap of every tree with 1..maxN
// leaves (maxN = VERIF_N), and for each one every single-bit flip of the flag
// bytes and of the header root, and `hbits` bit positions of every hash
// (all 256 in the thorough tier).
func TestExhaustive(t *testing.T) {
	maxN := vk.Scale(8)
	hbits := 3
	if vk.Thorough() {
		hbits = 256
	}
	shard, nshards := vk.Shard()
	idx := 0
	for n := 1; n <= maxN; n++ {
		leaves := synthLeaves(uint64(n)*0x9E3779B97F4A7C15+vk.Seed(), n)
		rows := levels(leaves)
		for mask := uint32(0); mask < uint32(1)<<uint(n); mask++ {
			idx++
			if idx%nshards != shard {
				continue
			}
			c := &proofCase{N: n, Seed: uint64(n), leaves: leaves, root: rows[len(rows)-1][0], Via: "exhaustive"}
			c.match = make([]bool, n)
			for i := range c.match {
				c.match[i] = mask>>uint(i)&1 == 1
			}
			c.Match = bitmapString(c.match)
			if !nodeRoot(t, c) {
				return
			}
			mb := buildWithMBlock(leaves, c.match, c.root)
			if !verifyHonest(t, mb, c) || !verifyBranches(t, mb, c, 0) {
				return
			}
			for b := 0; b < len(mb.Flags)*8; b++ {
				if !corruptOne(t, mb, c, "flag", 0, b) {
					return
				}
			}
			for h := range mb.Hashes {
				for k := 0; k < hbits; k++ {
					bit := k
					if hbits != 256 {
						bit = (idx*31 + h*97 + k*83) % 256
					}
					if !corruptOne(t, mb, c, "hash", h, bit) {
						return
					}
				}
			}
			for k := 0; k < hbits; k++ {
				bit := k
				if hbits != 256 {
					bit = (idx*17 + k*89) % 256
				}
				if !corruptOne(t, mb, c, "root", 0, bit) {
					return
				}
			}
			if !corruptOne(t, mb, c, "drop-last-hash", 0, 0) {
				return
			}
			c.Mutation = ""
			vk.Case("exhaustive/"+shapeClass(c), nontrivial(c), []byte(fmt.Sprintf("ex|%d|%d", n, mask)), func() any { return c })
		}
	}
	vk.Note("exhaustive", fmt.Sprintf("all match bitmaps for 1..%d leaves; every flag bit; %d bit position(s) of every hash and of the root", maxN, hbits))
}

func hx(h hash) string { return hex.EncodeToString(h[:]) }
