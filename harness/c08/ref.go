// Package c08 decides property C08 (SPV merkle proofs are sound and complete).
//
// ref.go is the independent reference: double-SHA256 merkle levels, a partial
// merkle tree builder and extractor written from the BIP37 description, and a
// small bloom filter used to predict which transactions a filter matches.
package c08

import (
	"crypto/sha256"
	"math/bits"
)

type hash = [32]byte

func sha256d(b []byte) hash {
	a := sha256.Sum256(b)
	return sha256.Sum256(a[:])
}

func parent(l, r hash) hash {
	var b [64]byte
	copy(b[:32], l[:])
	copy(b[32:], r[:])
	return sha256d(b[:])
}

// levels returns all rows of the merkle tree, row 0 = leaves, last row = root.
// An odd row is completed by pairing the last node with itself.
func levels(leaves []hash) [][]hash {
	rows := [][]hash{leaves}
	for cur := leaves; len(cur) > 1; {
		next := make([]hash, 0, (len(cur)+1)/2)
		for i := 0; i < len(cur); i += 2 {
			if i+1 < len(cur) {
				next = append(next, parent(cur[i], cur[i+1]))
			} else {
				next = append(next, parent(cur[i], cur[i]))
			}
		}
		rows = append(rows, next)
		cur = next
	}
	return rows
}

// refProof is a partial merkle tree in wire form.
type refProof struct {
	n      uint32
	hashes []hash
	nbits  int
	flags  []byte
}

// refBuild builds the partial merkle tree for the given match bitmap: depth
// first, one bit per visited node (1 = the subtree contains a match), a hash
// for every leaf visited and for every subtree without a match.
func refBuild(leaves []hash, match []bool) *refProof {
	rows := levels(leaves)
	// has[h][i]: subtree (h,i) contains a matched leaf
	has := make([][]bool, len(rows))
	has[0] = match
	for h := 1; h < len(rows); h++ {
		has[h] = make([]bool, len(rows[h]))
		for i := range has[h] {
			has[h][i] = has[h-1][2*i] || (2*i+1 < len(has[h-1]) && has[h-1][2*i+1])
		}
	}
	p := &refProof{n: uint32(len(leaves))}
	var bitsv []bool
	type node struct{ h, i int }
	stack := []node{{len(rows) - 1, 0}}
	for len(stack) > 0 {
		nd := stack[len(stack)-1]
		stack = stack[:len(stack)-1]
		bitsv = append(bitsv, has[nd.h][nd.i])
		if nd.h == 0 || !has[nd.h][nd.i] {
			p.hashes = append(p.hashes, rows[nd.h][nd.i])
			continue
		}
		if 2*nd.i+1 < len(rows[nd.h-1]) {
			stack = append(stack, node{nd.h - 1, 2*nd.i + 1})
		}
		stack = append(stack, node{nd.h - 1, 2 * nd.i})
	}
	p.nbits = len(bitsv)
	p.flags = make([]byte, (len(bitsv)+7)/8)
	for i, b := range bitsv {
		if b {
			p.flags[i/8] |= 1 << (i % 8)
		}
	}
	return p
}

// refExtract parses a partial merkle tree.  ok is false when the data runs out
// of bits or hashes, or when an explicit right child equals its left sibling.
// Unused trailing bits and hashes are tolerated (the code under test tolerates
// them as well; the statement does not speak about them).
func refExtract(n uint32, hashes []hash, flags []byte) (root hash, matched []hash, usedBits, usedHashes int, ok bool) {
	if n == 0 {
		return
	}
	width := func(h uint) uint64 { return (uint64(n) + (uint64(1) << h) - 1) >> h }
	height := uint(0)
	for width(height) > 1 {
		height++
	}
	bad := false
	var walk func(h uint, pos uint64) hash
	walk = func(h uint, pos uint64) hash {
		if bad {
			return hash{}
		}
		if usedBits >= len(flags)*8 {
			bad = true
			return hash{}
		}
		bit := flags[usedBits/8]>>(usedBits%8)&1 == 1
		usedBits++
		if h == 0 || !bit {
			if usedHashes >= len(hashes) {
				bad = true
				return hash{}
			}
			v := hashes[usedHashes]
			usedHashes++
			if h == 0 && bit {
				matched = append(matched, v)
			}
			return v
		}
		l := walk(h-1, 2*pos)
		if bad {
			return hash{}
		}
		r := l
		if 2*pos+1 < width(h-1) {
			r = walk(h-1, 2*pos+1)
			if bad {
				return hash{}
			}
			if r == l {
				bad = true
				return hash{}
			}
		}
		return parent(l, r)
	}
	root = walk(height, 0)
	ok = !bad
	return
}

// evalBranch folds a merkle branch: bit i of index tells whether the running
// hash is the right child at level i.
func evalBranch(leaf hash, branch []hash, index int) hash {
	h := leaf
	for _, s := range branch {
		if index&1 == 1 {
			h = parent(s, h)
		} else {
			h = parent(h, s)
		}
		index >>= 1
	}
	return h
}

// ---- reference bloom filter (BIP37), used to predict matches of real txs

func refMurmur(seed uint32, data []byte) uint32 {
	const c1, c2 = 0xcc9e2d51, 0x1b873593
	h := seed
	n := len(data)
	i := 0
	for ; i+4 <= n; i += 4 {
		k := uint32(data[i]) | uint32(data[i+1])<<8 | uint32(data[i+2])<<16 | uint32(data[i+3])<<24
		k *= c1
		k = bits.RotateLeft32(k, 15)
		k *= c2
		h ^= k
		h = bits.RotateLeft32(h, 13)
		h = h*5 + 0xe6546b64
	}
	if i < n {
		var k uint32
		for j := n - 1; j >= i; j-- {
			k = k<<8 | uint32(data[j])
		}
		k *= c1
		k = bits.RotateLeft32(k, 15)
		k *= c2
		h ^= k
	}
	h ^= uint32(n)
	h ^= h >> 16
	h *= 0x85ebca6b
	h ^= h >> 13
	h *= 0xc2b2ae35
	h ^= h >> 16
	return h
}

type refFilter struct {
	bits    []byte
	k       uint32
	tweak   uint32
	txTypes []byte
}

func (r *refFilter) add(d []byte) {
	if len(r.bits) == 0 {
		return
	}
	for i := uint32(0); i < r.k; i++ {
		b := refMurmur(i*0xfba4c795+r.tweak, d) % (uint32(len(r.bits)) * 8)
		r.bits[b/8] |= 1 << (b % 8)
	}
}

func (r *refFilter) matches(d []byte) bool {
	if len(r.bits) == 0 {
		return true
	}
	for i := uint32(0); i < r.k; i++ {
		b := refMurmur(i*0xfba4c795+r.tweak, d) % (uint32(len(r.bits)) * 8)
		if r.bits[b/8]&(1<<(b%8)) == 0 {
			return false
		}
	}
	return true
}

func outpointBytes(txid hash, index uint16) []byte {
	b := append(make([]byte, 0, 34), txid[:]...)
	return append(b, byte(index), byte(index>>8))
}

type txModel struct {
	hash    hash
	txType  byte
	outputs [][21]byte
	inputs  [][]byte // outpoint bytes
}

// matchTx is BIP37 matching with "update all" as implemented for normal filters.
//
// A filter with tweak 0xffffffff is a side-chain SPV filter: it matches listed
// transaction types and, when the bit array is non-empty, watched output
// program hashes; it is never updated.
func (r *refFilter) matchTx(tx *txModel) bool {
	if r.tweak == 0xffffffff {
		for _, t := range r.txTypes {
			if t == tx.txType {
				return true
			}
		}
		if len(r.bits) != 0 {
			for _, o := range tx.outputs {
				if r.matches(o[:]) {
					return true
				}
			}
		}
		return false
	}
	matched := r.matches(tx.hash[:])
	for i, o := range tx.outputs {
		if r.matches(o[:]) {
			matched = true
			r.add(outpointBytes(tx.hash, uint16(i)))
		}
	}
	if matched {
		return true
	}
	for _, in := range tx.inputs {
		if r.matches(in) {
			return true
		}
	}
	return false
}
