// C31 - cross-chain UTXO spending follows the emergency policy.
//
// Layer (a): the policy helper (checkTransactionCrossChainUTXO, through a
// verif-tagged shim) against a policy table transcribed from the property
// statement: exhaustive grid + random mixes.
// Layer (c): the same table against the node's real entry
// BlockChain.CheckTransactionContext on a real chain whose reference cache
// holds the spent outputs.
// Layer (b): generated configuration files / command lines loaded through
// settings.SetupConfig; the resulting heights must be the coordinated
// constants on mainnet and disabled elsewhere, and the policy helper fed with
// the loaded heights must behave accordingly.
package c31

import (
	"encoding/json"
	"fmt"
	"strings"
	"testing"

	"github.com/elastos/Elastos.ELA/common"
	"github.com/elastos/Elastos.ELA/common/config"
	"github.com/elastos/Elastos.ELA/core"
	"github.com/elastos/Elastos.ELA/core/transaction"
	ctypes "github.com/elastos/Elastos.ELA/core/types/common"
	"github.com/elastos/Elastos.ELA/core/types/interfaces"
	"github.com/elastos/Elastos.ELA/core/types/outputpayload"
	elaerr "github.com/elastos/Elastos.ELA/errors"
	"pgregory.net/rapid"
	"verifharness/lib/polkit"
	"verifharness/lib/vk"
)

func TestMain(m *testing.M) { vk.Main(m, "C31") }

const (
	typeWithdraw ctypes.TxType = 0x07 // WithdrawFromSideChain
	typeReturn   ctypes.TxType = 0x51 // ReturnSideChainDepositCoin
)

// policy is the table transcribed from the statement.  refs are the first
// bytes (address prefix) of the program hashes owning the spent outputs.
// Domain: freeze <= restriction (every configuration the node can run with).
func policy(txType ctypes.TxType, version byte, refs []byte, h, freeze, restriction uint32) (allowed bool, clause string) {
	nX := 0
	for _, p := range refs {
		if p == polkit.PrefixCrossChain {
			nX++
		}
	}
	switch {
	case nX == 0:
		return true, "no-crosschain-utxo"
	case h < freeze:
		return true, "before-freeze"
	case h < restriction:
		return false, "freeze-window"
	}
	switch txType {
	case typeWithdraw:
		if version <= 2 {
			return true, "withdraw-supported-version"
		}
		return false, "withdraw-unsupported-version"
	case typeReturn:
		if version != 0 {
			return false, "return-not-legacy"
		}
		if nX != len(refs) {
			return false, "return-mixed-inputs"
		}
		return true, "legacy-return-only-crosschain"
	}
	return false, "other-type-after-restriction"
}

type pcase struct {
	Type        byte   `json:"tx_type"`
	TypeName    string `json:"tx_type_name"`
	Version     byte   `json:"payload_version"`
	Refs        []byte `json:"-"`
	RefPrefixes []int  `json:"ref_prefixes"`
	Height      uint32 `json:"height"`
	Freeze      uint32 `json:"freeze"`
	Restriction uint32 `json:"restriction"`
}

func (c *pcase) fill() {
	c.RefPrefixes = c.RefPrefixes[:0]
	for _, p := range c.Refs {
		c.RefPrefixes = append(c.RefPrefixes, int(p))
	}
	c.TypeName = ctypes.TxType(c.Type).Name()
}

func (c *pcase) key() []byte {
	return []byte(fmt.Sprintf("%d|%d|%v|%d|%d|%d", c.Type, c.Version, c.Refs, c.Height, c.Freeze, c.Restriction))
}

func refsMap(prefixes []byte) map[*ctypes.Input]ctypes.Output {
	m := make(map[*ctypes.Input]ctypes.Output, len(prefixes))
	for i, p := range prefixes {
		in := &ctypes.Input{Previous: ctypes.OutPoint{Index: uint16(i)}}
		m[in] = ctypes.Output{AssetID: core.ELAAssetID, Value: 1, ProgramHash: polkit.Hash168(p, uint32(i))}
	}
	return m
}

func classOf(c *pcase, allowed bool, clause string) (string, bool) {
	nt := false
	for _, p := range c.Refs {
		if p == polkit.PrefixCrossChain {
			nt = true
		}
	}
	nt = nt && c.Height >= c.Freeze
	return clause, nt
}

// judge compares one verdict of the helper with the table.
func judge(t vk.TB, site string, c *pcase, got error) {
	allowed, clause := policy(ctypes.TxType(c.Type), c.Version, c.Refs, c.Height, c.Freeze, c.Restriction)
	if allowed && got != nil {
		c.fill()
		vk.Report(t, "C31:"+site+":rejected:"+clause, "policy table allows, code rejects: "+got.Error(), c)
	}
	if !allowed && got == nil {
		c.fill()
		vk.Report(t, "C31:"+site+":accepted:"+clause, "policy table forbids, code accepts", c)
	}
}

// --------------------------------------------------------------------------
// (a1) exhaustive grid

var gridVersions = []byte{0, 1, 2, 3, 4, 0x7f, 0xff}

var gridMixes = [][]byte{
	{},
	{0x21},
	{0x21, 0x12},
	{0x1f},
	{0x4B},
	{0x4B, 0x4B},
	{0x4B, 0x4B, 0x4B},
	{0x4B, 0x21},
	{0x21, 0x4B},
	{0x4B, 0x12},
	{0x4B, 0x1f},
	{0x4B, 0x3f},
	{0x4B, 0x67},
	{0x4B, 0x00},
	{0x21, 0x21, 0x4B},
	{0x4B, 0x4B, 0x21},
	{0x4A}, {0x4C}, {0x00}, // near misses of the prefix byte
}

var gridPairs = [][2]uint32{
	{100, 200}, {100, 101}, {100, 100}, {0, 0}, {0, 1}, {0, 100}, {1, 1},
	{polkit.MainNetFreezeHeight, polkit.MainNetRestrictionHeight},
	{polkit.Disabled, polkit.Disabled}, {polkit.Disabled - 1, polkit.Disabled}, {5, polkit.Disabled},
}

func gridHeights(f, r uint32) []uint32 {
	raw := []int64{0, 1, int64(f) - 1, int64(f), int64(f) + 1, (int64(f) + int64(r)) / 2, int64(r) - 1, int64(r), int64(r) + 1,
		int64(r) + 1000, 0xFFFFFFFE, 0xFFFFFFFF}
	seen := map[uint32]bool{}
	var out []uint32
	for _, v := range raw {
		if v < 0 || v > 0xFFFFFFFF {
			continue
		}
		if !seen[uint32(v)] {
			seen[uint32(v)] = true
			out = append(out, uint32(v))
		}
	}
	return out
}

func TestPolicyGrid(t *testing.T) {
	polkit.WireFunctions()
	shard, nshards := vk.Shard()
	types := polkit.TxTypes()
	if len(types) < 40 {
		t.Fatalf("harness: only %d transaction types instantiable", len(types))
	}
	cells := 0
	for ti, ty := range types {
		if ti%nshards != shard {
			continue
		}
		versions := gridVersions
		if vk.Thorough() && (ty == typeWithdraw || ty == typeReturn) {
			versions = nil
			for v := 0; v < 256; v++ {
				versions = append(versions, byte(v))
			}
		}
		for _, ver := range versions {
			tx, err := polkit.NewTx(ty, ver, nil, nil, 0)
			if err != nil {
				t.Fatalf("harness: %v", err)
			}
			for _, mix := range gridMixes {
				refs := refsMap(mix)
				for _, pr := range gridPairs {
					for _, h := range gridHeights(pr[0], pr[1]) {
						c := &pcase{Type: byte(ty), Version: ver, Refs: mix, Height: h, Freeze: pr[0], Restriction: pr[1]}
						var got error
						if p, v, fr := vk.Catch(func() {
							got = transaction.VerifC31CheckTransactionCrossChainUTXO(tx, refs, h, pr[0], pr[1])
						}); p {
							c.fill()
							vk.Report(t, "C31:checkTransactionCrossChainUTXO:panic:"+fr, fmt.Sprint(v), c)
							continue
						}
						judge(t, "checkTransactionCrossChainUTXO", c, got)
						allowed, clause := policy(ty, ver, mix, h, pr[0], pr[1])
						cl, nt := classOf(c, allowed, clause)
						vk.Case("grid/"+cl, nt, c.key(), func() any { c.fill(); return c })
						cells++
					}
				}
			}
		}
	}
	vk.Count("grid_cells", int64(cells))
	if shard == 0 {
		vk.Count("grid_tx_types", int64(len(types)))
	}
}

// --------------------------------------------------------------------------
// (a2) random mixes

var prefixPool = []byte{0x4B, 0x4B, 0x4B, 0x21, 0x12, 0x1f, 0x67, 0x3f, 0x00, 0x4A, 0x4C}

func genCase(t *rapid.T, forContext bool) *pcase {
	types := polkit.TxTypes()
	c := &pcase{}
	switch rapid.IntRange(0, 5).Draw(t, "type-kind") {
	case 0, 1:
		c.Type = byte(typeWithdraw)
	case 2:
		c.Type = byte(typeReturn)
	default:
		c.Type = byte(types[rapid.IntRange(0, len(types)-1).Draw(t, "type")])
	}
	if rapid.IntRange(0, 3).Draw(t, "ver-kind") == 0 {
		c.Version = rapid.Byte().Draw(t, "version-any")
	} else {
		c.Version = byte(rapid.IntRange(0, 4).Draw(t, "version"))
	}
	n := rapid.IntRange(0, 6).Draw(t, "nrefs")
	if forContext && n == 0 {
		n = 1
	}
	allX := rapid.IntRange(0, 3).Draw(t, "all-x") == 0
	if ctypes.TxType(c.Type) == typeReturn {
		// the permitted shape of a deposit return is narrow: construct it often
		if rapid.Bool().Draw(t, "return-legacy") {
			c.Version = 0
		}
		allX = rapid.Bool().Draw(t, "return-all-x")
	}
	for i := 0; i < n; i++ {
		p := prefixPool[rapid.IntRange(0, len(prefixPool)-1).Draw(t, "prefix")]
		if allX {
			p = polkit.PrefixCrossChain
		}
		if !allX && rapid.IntRange(0, 15).Draw(t, "prefix-any") == 0 {
			p = rapid.Byte().Draw(t, "prefix-byte")
		}
		c.Refs = append(c.Refs, p)
	}
	anchors := []uint32{0, 100, polkit.MainNetFreezeHeight, polkit.Disabled}
	c.Freeze = polkit.U32Around(t, "freeze", anchors...)
	var delta uint32
	switch rapid.IntRange(0, 4).Draw(t, "delta-kind") {
	case 0:
		delta = 0
	case 1:
		delta = uint32(rapid.IntRange(1, 3).Draw(t, "delta-small"))
	case 2:
		delta = 614
	default:
		delta = rapid.Uint32().Draw(t, "delta-any")
	}
	if uint64(c.Freeze)+uint64(delta) > 0xFFFFFFFF {
		c.Restriction = 0xFFFFFFFF
	} else {
		c.Restriction = c.Freeze + delta
	}
	c.Height = polkit.U32Around(t, "height", c.Freeze, c.Restriction, c.Freeze, c.Restriction)
	return c
}

func TestPolicyRandom(t *testing.T) {
	polkit.WireFunctions()
	rapid.Check(t, func(t *rapid.T) {
		c := genCase(t, false)
		tx, err := polkit.NewTx(ctypes.TxType(c.Type), c.Version, nil, nil, 0)
		if err != nil {
			t.Fatalf("harness: %v", err)
		}
		refs := refsMap(c.Refs)
		var got error
		if p, v, fr := vk.Catch(func() {
			got = transaction.VerifC31CheckTransactionCrossChainUTXO(tx, refs, c.Height, c.Freeze, c.Restriction)
		}); p {
			c.fill()
			vk.Report(t, "C31:checkTransactionCrossChainUTXO:panic:"+fr, fmt.Sprint(v), c)
			return
		}
		judge(t, "checkTransactionCrossChainUTXO", c, got)
		allowed, clause := policy(ctypes.TxType(c.Type), c.Version, c.Refs, c.Height, c.Freeze, c.Restriction)
		cl, nt := classOf(c, allowed, clause)
		vk.Case("random/"+cl, nt, c.key(), func() any { c.fill(); return c })
	})
}

// --------------------------------------------------------------------------
// (c) the node's entry: BlockChain.CheckTransactionContext

var c31Messages = []string{
	"CrossChain UTXO spending is temporarily frozen",
	"unsupported WithdrawFromSideChain payload version cannot spend CrossChain UTXOs",
	"only WithdrawFromSideChain and ReturnSideChainDepositCoin can spend CrossChain UTXOs",
	"only legacy ReturnSideChainDepositCoin can spend CrossChain UTXOs",
	"ReturnSideChainDepositCoin can only spend CrossChain UTXOs",
}

// stageOf classifies the outcome of the context check relative to the policy
// step: "pre" (rejected by a step that runs before it), "policy" (rejected by
// it), "post" (the policy step was passed).
func stageOf(err elaerr.ELAError) string {
	if err == nil {
		return "post:accepted"
	}
	switch err.Code() {
	case elaerr.ErrTxHeightVersion:
		return "pre:height-version"
	case elaerr.ErrTxDuplicate:
		return "pre:duplicate"
	case elaerr.ErrTxUnknownReferredTx:
		return "pre:unknown-reference"
	case elaerr.ErrTxInvalidInput:
		if in := err.InnerError(); in != nil {
			for _, m := range c31Messages {
				if in.Error() == m {
					return "policy"
				}
			}
			if strings.Contains(in.Error(), "frozen address") {
				return "policy:frozen-address"
			}
		}
	}
	return fmt.Sprintf("post:code-%d", int(err.Code()))
}

var fixture *polkit.Chain

func chain(t *testing.T) *polkit.Chain {
	if fixture == nil {
		c, err := polkit.NewChain()
		if err != nil {
			t.Fatalf("harness: chain fixture: %v", err)
		}
		fixture = c
		t.Cleanup(func() { fixture.Close(); fixture = nil })
	}
	return fixture
}

func TestPolicyContext(t *testing.T) {
	ch := chain(t)
	nonce := uint32(0)
	rapid.Check(t, func(t *rapid.T) {
		c := genCase(t, true)
		// heights where most transaction types are past their activation heights are
		// the interesting ones on this parameter set; keep the small ones too
		if rapid.IntRange(0, 3).Draw(t, "era") != 0 {
			base := uint32(rapid.IntRange(2000000, 2400000).Draw(t, "era-base"))
			span := c.Restriction - c.Freeze
			if span > 1000000 {
				span = uint32(rapid.IntRange(0, 700).Draw(t, "era-span"))
			}
			c.Freeze, c.Restriction = base, base+span
			c.Height = polkit.U32Around(t, "era-height", c.Freeze, c.Restriction, c.Freeze, c.Restriction)
		}
		ch.ResetCache()
		ch.Params.CrossChainUTXOFreezeHeight = c.Freeze
		ch.Params.CrossChainUTXORestrictionHeight = c.Restriction
		ch.Params.FrozenAddresses = nil

		var inputs []*ctypes.Input
		var tx interfaces.Transaction
		var err error
		nonce++
		if ctypes.TxType(c.Type) == ctypes.CoinBase {
			// a coinbase spends nothing: it carries the null input only
			c.Refs = nil
			inputs = []*ctypes.Input{{Previous: ctypes.OutPoint{TxID: common.EmptyHash, Index: 0xffff}, Sequence: 0xffffffff}}
		} else {
			for i, p := range c.Refs {
				inputs = append(inputs, ch.Spendable(ctypes.Output{Value: 1000, ProgramHash: polkit.Hash168(p, uint32(i))}))
			}
		}
		outputs := []*ctypes.Output{{AssetID: core.ELAAssetID, Value: 1, ProgramHash: polkit.Hash168(0x21, 77),
			Type: ctypes.OTNone, Payload: &outputpayload.DefaultOutput{}}}
		tx, err = polkit.NewTx(ctypes.TxType(c.Type), c.Version, inputs, outputs, nonce)
		if err != nil {
			t.Fatalf("harness: %v", err)
		}
		var cerr elaerr.ELAError
		panicked, pv, frame := vk.Catch(func() {
			_ = tx.Hash() // the node has hashed every transaction it validates
			_, cerr = ch.Chain.CheckTransactionContext(c.Height, tx, 0, 0)
		})
		allowed, clause := policy(ctypes.TxType(c.Type), c.Version, c.Refs, c.Height, c.Freeze, c.Restriction)
		_, nt := classOf(c, allowed, clause)
		if panicked {
			// a crash of a later/earlier step says nothing about the policy verdict (C03's subject)
			_ = pv
			vk.Class("context/inconclusive-panic:" + frame)
			vk.Case("context/inconclusive-panic", false, c.key(), nil)
			return
		}
		st := stageOf(cerr)
		switch {
		case !allowed && strings.HasPrefix(st, "post"):
			c.fill()
			vk.Report(t, "C31:CheckTransactionContext:accepted:"+clause,
				"policy table forbids, context check went past the policy step ("+st+")", c)
		case allowed && st == "policy":
			c.fill()
			vk.Report(t, "C31:CheckTransactionContext:rejected:"+clause,
				"policy table allows, context check rejects with "+cerr.InnerError().Error(), c)
		}
		stc := st
		if i := strings.IndexByte(stc, ':'); i > 0 {
			stc = stc[:i]
		}
		vk.Case("context/"+clause+"/"+stc, nt && !strings.HasPrefix(st, "pre"), c.key(), func() any { c.fill(); return map[string]any{"case": c, "stage": st} })
	})
}

// --------------------------------------------------------------------------
// (b) configuration

type cfgResult struct {
	Case        any    `json:"config"`
	ActiveNet   string `json:"loaded_active_net"`
	Class       string `json:"net_class"`
	Magic       uint32 `json:"loaded_magic"`
	Identity    bool   `json:"mainnet_identity"`
	Freeze      uint32 `json:"loaded_freeze"`
	Restriction uint32 `json:"loaded_restriction"`
}

func TestConfig(t *testing.T) {
	rapid.Check(t, func(t *rapid.T) {
		cc := polkit.GenConfig(t)
		cfg, err := polkit.RunSetupConfig(cc.Run)
		if err != nil {
			// the node would not start with this configuration: not a configuration the statement quantifies over
			vk.Case("config/rejected-by-node", false, cc.Key(), nil)
			vk.Note("config_rejected_example", err.Error())
			return
		}
		cls := polkit.ClassifyNet(cfg.ActiveNet)
		identity := polkit.MainNetIdentity(cfg)
		res := &cfgResult{Case: cc.Render(), ActiveNet: cfg.ActiveNet, Class: string(cls), Magic: cfg.Magic, Identity: identity,
			Freeze: cfg.CrossChainUTXOFreezeHeight, Restriction: cfg.CrossChainUTXORestrictionHeight}

		wantMain := cls == polkit.NetMain || (cls == polkit.NetUnknown && identity)
		class := string(cls)
		if cls == polkit.NetUnknown {
			if identity {
				class += "+mainnet-identity"
			} else {
				class += "+private-identity"
			}
		}
		if cc.OverridesHeights && !cc.Malformed && !cc.NoFile {
			class += "/heights-overridden"
		}
		sig := ""
		if wantMain {
			if cfg.CrossChainUTXOFreezeHeight != polkit.MainNetFreezeHeight || cfg.CrossChainUTXORestrictionHeight != polkit.MainNetRestrictionHeight {
				if cls == polkit.NetMain {
					sig = "C31:SetupConfig:mainnet-name:heights-not-the-coordinated-constants"
				} else {
					sig = "C31:SetupConfig:unknown-activenet-with-mainnet-identity:policy-not-enforced"
				}
			}
		} else {
			if cfg.CrossChainUTXOFreezeHeight != polkit.Disabled || cfg.CrossChainUTXORestrictionHeight != polkit.Disabled {
				sig = "C31:SetupConfig:" + string(cls) + ":policy-not-disabled"
			}
		}
		if sig == "" {
			// the node reads its parameters through three handles: the returned value, config.Parameters, config.DefaultParams
			for name, v := range map[string]*config.Configuration{"config.Parameters": config.Parameters, "config.DefaultParams": &config.DefaultParams} {
				if v == nil || v.CrossChainUTXOFreezeHeight != cfg.CrossChainUTXOFreezeHeight ||
					v.CrossChainUTXORestrictionHeight != cfg.CrossChainUTXORestrictionHeight {
					sig = "C31:SetupConfig:" + name + ":differs-from-returned-configuration"
				}
			}
		}
		if sig == "" {
			// behaviour of the policy helper under the loaded heights
			sig = probeLoaded(cfg.CrossChainUTXOFreezeHeight, cfg.CrossChainUTXORestrictionHeight, wantMain)
		}
		nontrivial := cc.OverridesHeights && !cc.Malformed && !cc.NoFile
		vk.Case("config/"+class, nontrivial, cc.Key(), func() any { return res })
		if sig != "" {
			if vk.Report(t, sig, fmt.Sprintf("loaded freeze=%d restriction=%d active_net=%q magic=%d", cfg.CrossChainUTXOFreezeHeight,
				cfg.CrossChainUTXORestrictionHeight, cfg.ActiveNet, cfg.Magic), res) {
				return
			}
		}
	})
}

// probeLoaded exercises the helper with loaded heights at the coordinated
// heights: the exploit shape (plain transfer of a cross-chain UTXO) must be
// refused from the freeze height on when the policy is in force, and nothing
// may be refused when it is disabled.
func probeLoaded(freeze, restriction uint32, enforced bool) string {
	polkit.WireFunctions()
	transfer, _ := polkit.NewTx(ctypes.TransferAsset, 0, nil, nil, 0)
	withdraw, _ := polkit.NewTx(typeWithdraw, 0, nil, nil, 0)
	refs := refsMap([]byte{polkit.PrefixCrossChain})
	type probe struct {
		tx     interfaces.Transaction
		h      uint32
		reject bool
	}
	var ps []probe
	if enforced {
		ps = []probe{
			{transfer, polkit.MainNetFreezeHeight - 1, false},
			{transfer, polkit.MainNetFreezeHeight, true},
			{withdraw, polkit.MainNetRestrictionHeight - 1, true},
			{transfer, polkit.MainNetRestrictionHeight, true},
			{withdraw, polkit.MainNetRestrictionHeight, false},
			{transfer, 0xFFFFFFFE, true},
		}
	} else {
		ps = []probe{
			{transfer, 0, false},
			{transfer, polkit.MainNetFreezeHeight, false},
			{transfer, polkit.MainNetRestrictionHeight, false},
			{transfer, 0xFFFFFFFE, false},
		}
	}
	for _, p := range ps {
		err := transaction.VerifC31CheckTransactionCrossChainUTXO(p.tx, refs, p.h, freeze, restriction)
		if (err != nil) != p.reject {
			return fmt.Sprintf("C31:SetupConfig+policy:enforced=%v:probe-h%d-reject-%v", enforced, p.h, p.reject)
		}
	}
	return ""
}

var _ = json.Marshal
