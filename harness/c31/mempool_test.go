package c31

// Layer (d): acceptance by the running node.  A small real chain (mini-node,
// regnet instant blocks, harness arbiters) is mined to a tip a few blocks around
// the freeze / restriction heights, with funded cross-chain ("X") outputs whose
// script the harness controls.  Fully signed, otherwise valid transactions are
// handed to the REAL mempool.TxPool.AppendToTxPool and then to the REAL
// BlockChain.ProcessBlock (as the only transaction of block tip+1).  Oracle:
// the policy table evaluated at tip+1, the first block that could contain the
// transaction: accepted (by the pool or in a block) => allowed; allowed and
// otherwise valid => accepted (non-vacuity).

import (
	"bytes"
	"fmt"
	"strings"
	"testing"

	"github.com/elastos/Elastos.ELA/common"
	"github.com/elastos/Elastos.ELA/common/config"
	"github.com/elastos/Elastos.ELA/core"
	"github.com/elastos/Elastos.ELA/core/contract/program"
	"github.com/elastos/Elastos.ELA/core/types"
	ctypes "github.com/elastos/Elastos.ELA/core/types/common"
	"github.com/elastos/Elastos.ELA/core/types/functions"
	"github.com/elastos/Elastos.ELA/core/types/interfaces"
	"github.com/elastos/Elastos.ELA/core/types/outputpayload"
	"github.com/elastos/Elastos.ELA/core/types/payload"
	"pgregory.net/rapid"
	"verifharness/lib/polkit"
	"verifharness/lib/vk"
	"verifharness/lib/xchain"
	"verifharness/node"
)

const ela = common.Fixed64(100000000)

type poolCase struct {
	Freeze      uint32   `json:"freeze"`
	Restriction uint32   `json:"restriction"`
	Tip         uint32   `json:"tip"`
	Ops         []string `json:"ops"`
}

func policyMessage(err error) bool {
	if err == nil {
		return false
	}
	for _, m := range c31Messages {
		if strings.Contains(err.Error(), m) {
			return true
		}
	}
	return false
}

func short(s string) string {
	if i := strings.Index(s, "hash"); i > 0 {
		s = s[:i]
	}
	if len(s) > 70 {
		s = s[:70]
	}
	return s
}

func TestPolicyMempool(t *testing.T) {
	rapid.Check(t, func(t *rapid.T) {
		pc := &poolCase{}
		pc.Freeze = uint32(rapid.IntRange(4, 7).Draw(t, "freeze"))
		pc.Restriction = pc.Freeze + uint32(rapid.IntRange(0, 3).Draw(t, "span"))
		tips := []uint32{pc.Freeze - 2, pc.Freeze - 1, pc.Freeze, pc.Restriction - 2, pc.Restriction - 1, pc.Restriction, pc.Restriction + 1}
		pc.Tip = tips[rapid.IntRange(0, len(tips)-1).Draw(t, "tip")]
		if pc.Tip < 2 {
			pc.Tip = 2
		}
		n, arb, err := xchain.NewWithdrawNode(func(p *config.Configuration) {
			p.CrossChainUTXOFreezeHeight = pc.Freeze
			p.CrossChainUTXORestrictionHeight = pc.Restriction
			p.FrozenAddresses = nil
		})
		if err != nil {
			t.Fatalf("harness: node: %v", err)
		}
		defer n.Close()
		fx := &xchain.Fixture{N: n, ArbKeys: arb}

		// the X address the harness controls: 2-of-3 cross-chain script
		xkeys := xchain.Keys(3, 9100)
		xcode := xchain.Code(2, xchain.Pubs(xkeys), 3)
		xhash := *common.ToProgramHash(polkit.PrefixCrossChain, xcode)

		// block 1 empty, block 2 funds X and standard outputs
		b1, err := n.BuildBlock(node.BlockSpec{Parent: n.Genesis, Salt: 1})
		if err != nil {
			t.Fatalf("harness: block 1: %v", err)
		}
		if in, _, err := n.Process(b1); err != nil || !in {
			t.Fatalf("harness: block 1: %v %v", in, err)
		}
		u, _ := node.Replay([]*types.Block{n.Genesis, b1}, n.KeyIndexOf)
		coins := u.Spendable(2, n.Params.PowConfiguration.CoinbaseMaturity)
		if len(coins) == 0 {
			t.Fatalf("harness: no spendable coin")
		}
		c0 := coins[0]
		const nX, nS = 6, 4
		var outs []node.Out
		for i := 0; i < nX; i++ {
			outs = append(outs, node.Out{To: xhash, Value: 10 * ela})
		}
		for i := 0; i < nS; i++ {
			outs = append(outs, node.Out{To: n.Keys[1].ProgramHash, Value: 10 * ela})
		}
		outs = append(outs, node.Out{To: n.Keys[0].ProgramHash, Value: c0.Value - (nX+nS)*10*ela - 1000})
		fund, err := n.Transfer([]node.Coin{c0}, outs, 2)
		if err != nil {
			t.Fatalf("harness: fund: %v", err)
		}
		fb, err := n.BuildBlock(node.BlockSpec{Parent: b1, Txs: []interfaces.Transaction{fund}, Fees: 1000, Salt: 2})
		if err != nil {
			t.Fatalf("harness: funding block: %v", err)
		}
		if in, _, err := n.Process(fb); err != nil || !in {
			t.Fatalf("harness: funding block refused: %v %v", in, err)
		}
		tipBlock := fb
		for h := uint32(3); h <= pc.Tip; h++ {
			b, err := n.BuildBlock(node.BlockSpec{Parent: tipBlock, Salt: uint64(h)})
			if err != nil {
				t.Fatalf("harness: block %d: %v", h, err)
			}
			if in, _, err := n.Process(b); err != nil || !in {
				t.Fatalf("harness: empty block %d refused: %v %v", h, in, err)
			}
			tipBlock = b
		}
		if n.Chain.GetHeight() != pc.Tip {
			t.Fatalf("harness: tip %d want %d", n.Chain.GetHeight(), pc.Tip)
		}
		fid := fund.Hash()
		xcoin := func(i int) xchain.Coin {
			return xchain.Coin{Op: ctypes.OutPoint{TxID: fid, Index: uint16(i)}, Val: 10 * ela, Owner: xhash, Key: -1}
		}
		scoin := func(i int) node.Coin {
			return node.Coin{Op: ctypes.OutPoint{TxID: fid, Index: uint16(nX + i)}, Value: 10 * ela, Owner: n.Keys[1].ProgramHash, KeyIdx: 1, Height: 2}
		}

		// transfer spending X coins xi... and standard coins si..., fully signed
		transfer := func(xi []int, si []int) interfaces.Transaction {
			var ins []*ctypes.Input
			var total common.Fixed64
			for _, i := range xi {
				ins = append(ins, &ctypes.Input{Previous: xcoin(i).Op})
				total += 10 * ela
			}
			for _, i := range si {
				ins = append(ins, &ctypes.Input{Previous: scoin(i).Op})
				total += 10 * ela
			}
			out := &ctypes.Output{AssetID: core.ELAAssetID, Value: total - 100, ProgramHash: n.Keys[2].ProgramHash,
				Type: ctypes.OTNone, Payload: &outputpayload.DefaultOutput{}}
			tx := functions.CreateTransaction(n.TxVersionAt(pc.Tip+1), ctypes.TransferAsset, 0, &payload.TransferAsset{},
				[]*ctypes.Attribute{fx.NonceAttr()}, ins, []*ctypes.Output{out}, 0, []*program.Program{})
			buf := new(bytes.Buffer)
			if err := tx.SerializeUnsigned(buf); err != nil {
				t.Fatalf("harness: %v", err)
			}
			var progs []*program.Program
			if len(xi) > 0 {
				progs = append(progs, &program.Program{Code: xcode,
					Parameter: xchain.Param([][]byte{xkeys[0].Sign(buf.Bytes()), xkeys[1].Sign(buf.Bytes())})})
			}
			tx.SetPrograms(progs)
			if len(si) > 0 {
				var sc []node.Coin
				for _, i := range si {
					sc = append(sc, scoin(i))
				}
				if err := n.SignStandard(tx, sc); err != nil {
					t.Fatalf("harness: %v", err)
				}
				tx.SetPrograms(append(progs, tx.Programs()...))
			}
			return tx
		}

		type cand struct {
			name    string
			tx      interfaces.Transaction
			txType  ctypes.TxType
			version byte
			refs    []byte
		}
		nextX, nextS := 0, 0
		mk := func(kind int) *cand {
			switch kind {
			case 0:
				nextX++
				return &cand{"transfer-of-X", transfer([]int{nextX - 1}, nil), ctypes.TransferAsset, 0, []byte{polkit.PrefixCrossChain}}
			case 1:
				nextX++
				nextS++
				return &cand{"transfer-of-X+standard", transfer([]int{nextX - 1}, []int{nextS - 1}), ctypes.TransferAsset, 0, []byte{polkit.PrefixCrossChain, 0x21}}
			case 2:
				nextS++
				return &cand{"transfer-of-standard", transfer(nil, []int{nextS - 1}), ctypes.TransferAsset, 0, []byte{0x21}}
			default:
				ver := byte(kind - 3)
				nextX++
				tx, err := fx.HonestWithdraw(xchain.WithdrawSpec{Version: ver, Hashes: []common.Uint256{fx.FreshHash(fmt.Sprint("w", nextX))},
					Coins: []xchain.Coin{xcoin(nextX - 1)}, Height: pc.Tip + 1, Keys: arb, M: xchain.SigsFor(ver), To: n.Keys[2].ProgramHash})
				if err != nil {
					t.Fatalf("harness: withdraw: %v", err)
				}
				return &cand{fmt.Sprintf("withdraw-v%d", ver), tx, typeWithdraw, ver, []byte{polkit.PrefixCrossChain}}
			}
		}
		h := pc.Tip + 1
		nc := rapid.IntRange(1, 3).Draw(t, "ncand")
		var cands []*cand
		for i := 0; i < nc; i++ {
			cands = append(cands, mk(rapid.IntRange(0, 5).Draw(t, "kind")))
		}
		nontrivial := false
		class := ""
		for _, c := range cands {
			allowed, clause := policy(c.txType, c.version, c.refs, h, pc.Freeze, pc.Restriction)
			perr := n.Pool.AppendToTxPool(c.tx)
			var e error
			if perr != nil {
				e = fmt.Errorf("%v", perr)
			}
			pc.Ops = append(pc.Ops, fmt.Sprintf("AppendToTxPool(%s) at tip %d -> %v", c.name, pc.Tip, e))
			hasX := len(c.refs) > 0 && c.refs[0] == polkit.PrefixCrossChain
			nontrivial = nontrivial || (hasX && h >= pc.Freeze)
			switch {
			case e == nil && !allowed:
				vk.Report(t, "C31:AppendToTxPool:accepted:"+clause,
					fmt.Sprintf("%s admitted to the pool at tip %d; the first block that can hold it has height %d (freeze %d, restriction %d)", c.name, pc.Tip, h, pc.Freeze, pc.Restriction), pc)
			case e != nil && allowed && policyMessage(e):
				vk.Report(t, "C31:AppendToTxPool:rejected:"+clause,
					fmt.Sprintf("%s refused by the pool at tip %d with %v although block %d may hold it (freeze %d, restriction %d)", c.name, pc.Tip, e, h, pc.Freeze, pc.Restriction), pc)
			case e != nil && allowed:
				vk.Class("mempool/allowed-but-refused-for-another-reason/" + c.name + "/" + short(e.Error()))
			}
			st := "refused"
			if e == nil {
				st = "admitted"
			}
			class = "mempool/" + clause + "/" + c.name + "/" + st
			vk.Class(class)
		}
		// the same question asked of block validation: block tip+1 holding exactly one candidate
		c := cands[rapid.IntRange(0, len(cands)-1).Draw(t, "blockcand")]
		allowed, clause := policy(c.txType, c.version, c.refs, h, pc.Freeze, pc.Restriction)
		blk, err := n.BuildBlock(node.BlockSpec{Parent: tipBlock, Txs: []interfaces.Transaction{c.tx}, Fees: 100, Salt: 99})
		if err != nil {
			t.Fatalf("harness: candidate block: %v", err)
		}
		in, _, berr := n.Process(blk)
		pc.Ops = append(pc.Ops, fmt.Sprintf("ProcessBlock(height %d with %s) -> main=%v err=%v", h, c.name, in, berr))
		switch {
		case berr == nil && in && !allowed:
			vk.Report(t, "C31:ProcessBlock:accepted:"+clause,
				fmt.Sprintf("block %d holding %s connected (freeze %d, restriction %d)", h, c.name, pc.Freeze, pc.Restriction), pc)
		case berr != nil && allowed && policyMessage(berr):
			vk.Report(t, "C31:ProcessBlock:rejected:"+clause,
				fmt.Sprintf("block %d holding %s refused with %v (freeze %d, restriction %d)", h, c.name, berr, pc.Freeze, pc.Restriction), pc)
		case berr != nil && allowed:
			vk.Class("block/allowed-but-refused-for-another-reason/" + c.name + "/" + short(berr.Error()))
		}
		bst := "refused"
		if berr == nil && in {
			bst = "connected"
		}
		vk.Class("block/" + clause + "/" + c.name + "/" + bst)
		vk.Case("mempool-case", nontrivial, []byte(fmt.Sprint(pc.Freeze, pc.Restriction, pc.Tip, pc.Ops)), func() any { return pc })
	})
}
