module verifharness

go 1.23

toolchain go1.23.5

require (
	github.com/elastos/Elastos.ELA v0.0.0
	pgregory.net/rapid v1.3.0
)

require (
	github.com/go-echarts/go-echarts/v2 v2.2.3 // indirect
	github.com/go-echarts/statsview v0.3.4 // indirect
	github.com/howeyc/gopass v0.0.0-20190910152052-7cb4b85ec19c // indirect
	github.com/itchyny/base58-go v0.1.0 // indirect
	github.com/rs/cors v1.8.0 // indirect
	golang.org/x/crypto v0.17.0 // indirect
	golang.org/x/sys v0.15.0 // indirect
	golang.org/x/term v0.15.0 // indirect
)

replace github.com/elastos/Elastos.ELA => /repo
