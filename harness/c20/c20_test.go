// C20 - height-indexed change history rolls back exactly.
//
// Generator: rapid state machine over utils.History driving 6 integer
// variables.  Oracle: the model keeps the variable vector after every commit.
package c20

import (
	"encoding/json"
	"fmt"
	"testing"

	"github.com/elastos/Elastos.ELA/utils"
	"pgregory.net/rapid"
	"verifharness/lib/vk"
)

func TestMain(m *testing.M) { vk.Main(m, "C20") }

const nvars = 6

type vec [nvars]int64

type entry struct {
	height uint32
	state  vec
}

type machine struct {
	h        *utils.History
	capacity int
	v        *vec    // live state mutated by the closures
	commits  []entry // model: state after each commit, in order (non-decreasing heights)
	base     vec     // state before any commit
	height   uint32  // last committed height (model)
	ops      []string
	consecutive bool

	pendingHeight uint32 // height of cached (uncommitted) appends, 0 if none
	tempPending   bool   // temp changes executed by Commit, not yet undone
	tempAppended  int
	pendingShape  map[int]int
	dead          bool // a known finding left the history undefined: stop checking
	seeked        bool // SeekTo moved state away from best
	seekHeight    uint32
	floor         uint32
	retained      []uint32
	everOverflowed bool
	staleSeek     bool // RollbackTo/RollbackSeekTo happened with no commit since (History.seekHeight not reset)

	// classification
	didSeekCommit, didOverflowRollback, didMultiCommitRollback, didRollback, didSeek bool
}

func (m *machine) log(f string, a ...any) { m.ops = append(m.ops, fmt.Sprintf(f, a...)) }

// modelAt returns the state after the last commit with height <= h.
func (m *machine) modelAt(h uint32) vec {
	s := m.base
	for _, e := range m.commits {
		if e.height <= h {
			s = e.state
		}
	}
	return s
}

func (m *machine) distinctAbove(h uint32) int {
	seen := map[uint32]bool{}
	for _, e := range m.commits {
		if e.height > h {
			seen[e.height] = true
		}
	}
	return len(seen)
}

func (m *machine) entriesAbove(h uint32) int {
	n := 0
	for _, e := range m.commits {
		if e.height > h {
			n++
		}
	}
	return n
}

// Retention model.  History documents "capacity is the max block changes
// stored": before a commit is stored, if the stored changes already span
// >= capacity distinct heights, the changes of the oldest height are dropped.
// The model mirrors only this bookkeeping (which heights are still stored);
// the STATE oracle stays independent (vector after every commit).  A target t
// is within capacity iff every commit above t is still stored, i.e. t >= the
// greatest dropped height (dropped entries never come back).
func (m *machine) retainCommit(h uint32) {
	seen := map[uint32]bool{}
	for _, x := range m.retained {
		seen[x] = true
	}
	if len(seen) >= m.capacity && len(m.retained) > 0 {
		first := m.retained[0]
		k := 0
		for k < len(m.retained) && m.retained[k] == first {
			k++
		}
		m.retained = m.retained[k:]
		if first > m.floor {
			m.floor = first
		}
		m.everOverflowed = true
	}
	m.retained = append(m.retained, h)
}

func (m *machine) retainTruncate(target uint32) {
	k := 0
	for _, x := range m.retained {
		if x <= target {
			m.retained[k] = x
			k++
		}
	}
	m.retained = m.retained[:k]
}

func (m *machine) updateFloor() {}

// lowestWithin returns the lowest rollback/seek target that is within capacity.
func (m *machine) lowestWithin() uint32 {
	lo := m.floor
	if !m.everOverflowed && len(m.commits) > 0 && m.commits[0].height > 1 {
		lo = m.commits[0].height - 1
	}
	if lo > m.height {
		lo = m.height
	}
	return lo
}

func (m *machine) best() vec {
	if len(m.commits) == 0 {
		return m.base
	}
	return m.commits[len(m.commits)-1].state
}

// appendChanges appends 1-4 changes at height ht obeying the callers'
// discipline: per variable within one height either only "set" changes (each
// restoring the value captured at append time) or only "delta" changes.
func (m *machine) appendChanges(t *rapid.T, ht uint32, deltaOnly bool) (apply func(s vec) vec) {
	n := rapid.IntRange(1, 4).Draw(t, "nchanges")
	if m.pendingShape == nil {
		m.pendingShape = map[int]int{}
	}
	shape := m.pendingShape // var -> 1 set, 2 delta (per pending height)
	type ch struct {
		idx   int
		set   bool
		value int64
	}
	var chs []ch
	for i := 0; i < n; i++ {
		idx := rapid.IntRange(0, nvars-1).Draw(t, "var")
		set := rapid.Bool().Draw(t, "set")
		if deltaOnly {
			set = false
		}
		if sh, ok := shape[idx]; ok {
			if deltaOnly && sh == 1 {
				continue
			}
			set = sh == 1
		} else if set {
			shape[idx] = 1
		} else {
			shape[idx] = 2
		}
		val := rapid.Int64Range(-50, 50).Draw(t, "val")
		chs = append(chs, ch{idx, set, val})
		v := m.v
		if set {
			old := v[idx]
			m.h.Append(ht, func() { v[idx] = val }, func() { v[idx] = old })
			m.log("append(%d, set v%d=%d restore %d)", ht, idx, val, old)
		} else {
			m.h.Append(ht, func() { v[idx] += val }, func() { v[idx] -= val })
			m.log("append(%d, v%d+=%d)", ht, idx, val)
		}
	}
	return func(s vec) vec {
		for _, c := range chs {
			if c.set {
				s[c.idx] = c.value
			} else {
				s[c.idx] += c.value
			}
		}
		return s
	}
}

func (m *machine) render() any {
	return map[string]any{"capacity": m.capacity, "consecutive": m.consecutive, "ops": m.ops}
}

func (m *machine) check(t *rapid.T, clause string, want vec) {
	if *m.v != want {
		m.dead = true
		vk.Report(t, "C20:"+clause, fmt.Sprintf("state %v want %v", *m.v, want), m.render())
	}
}

// runMachine: consecutive=false -> heights with gaps/repeats, ops append/commit/
// temp/RollbackTo/RollbackSeekTo; consecutive=true -> one commit per
// consecutive height plus SeekTo (the only shape State.GetHistory produces).
func runMachine(t *rapid.T, consecutive bool) *machine {
	m := &machine{capacity: rapid.IntRange(2, 8).Draw(t, "capacity"), v: &vec{}, consecutive: consecutive}
	m.h = utils.NewHistory(m.capacity)
	var pendingApply []func(vec) vec

	nextHeight := func() uint32 {
		if consecutive {
			return m.height + 1
		}
		if m.height > 0 && !m.seeked && rapid.IntRange(0, 3).Draw(t, "sameHeight") == 0 {
			return m.height // repeated commit at one height (Arbiters does this)
		}
		return m.height + uint32(rapid.IntRange(1, 4).Draw(t, "gap"))
	}
	undoTemp := func() {
		// the next Append(height>0) or RollbackTo rolls temp changes back
		m.tempPending = false
		m.tempAppended = 0
	}

	actions := map[string]func(*rapid.T){
		"append": func(t *rapid.T) {
			if m.tempAppended > 0 && !m.tempPending {
				t.Skip("temp appended but not executed yet")
			}
			ht := m.pendingHeight
			if ht == 0 {
				ht = nextHeight()
			}
			deltaOnly := m.seeked
			if m.tempPending {
				undoTemp()
				// History.Append rolls the temp changes back only when it is called, so a
				// value captured by the caller before that call would be the temporary
				// one; the first batch after a temp block is therefore delta-shaped.
				deltaOnly = true
			}
			ap := m.appendChanges(t, ht, deltaOnly)
			m.pendingHeight = ht
			pendingApply = append(pendingApply, ap)
		},
		"commit": func(t *rapid.T) {
			if m.tempAppended > 0 || m.tempPending {
				t.Skip("temp in flight (handled by tempBlock)")
			}
			ht := m.pendingHeight
			if ht == 0 {
				ht = nextHeight()
			}
			m.h.Commit(ht)
			s := m.best()
			for _, ap := range pendingApply {
				s = ap(s)
			}
			pendingApply = nil
			m.pendingHeight = 0
			m.pendingShape = nil
			m.commits = append(m.commits, entry{ht, s})
			m.height = ht
			m.retainCommit(ht)
			m.log("commit(%d)", ht)
			if m.seeked {
				m.didSeekCommit = true
			}
			m.seeked = false
			m.staleSeek = false
			m.check(t, "commit:state-after-commit", s)
		},
		"tempBlock": func(t *rapid.T) {
			if m.pendingHeight != 0 || m.tempPending || m.seeked || m.height == 0 {
				t.Skip("not at a block boundary")
			}
			// the way ProcessSpecialTxPayload uses it: Append(0,...)+ then Commit(h)
			n := rapid.IntRange(1, 2).Draw(t, "ntemp")
			want := m.best()
			for i := 0; i < n; i++ {
				idx := rapid.IntRange(0, nvars-1).Draw(t, "tvar")
				val := rapid.Int64Range(-50, 50).Draw(t, "tval")
				v := m.v
				old := v[idx] // captured at append time, as the callers do
				m.h.Append(0, func() { v[idx] = val }, func() { v[idx] = old })
				want[idx] = val
				m.log("append(0, set v%d=%d restore %d)", idx, val, old)
			}
			m.h.Commit(m.height)
			m.log("commit(%d) [temp]", m.height)
			m.tempPending = true
			m.check(t, "temp:executed", want)
		},
		"rollbackTo": func(t *rapid.T) {
			if m.pendingHeight != 0 || m.height == 0 || m.seeked {
				t.Skip("pending appends / nothing committed / seeked")
			}
			lo := m.lowestWithin()
			target := uint32(rapid.IntRange(int(lo), int(m.height)).Draw(t, "target"))
			within := target >= m.floor
			multi := m.entriesAbove(target) > m.distinctAbove(target)
			overflowed := len(m.commits) > m.capacity
			err := m.h.RollbackTo(target)
			m.log("RollbackTo(%d) within=%v", target, within)
			if m.tempPending && target < m.height {
				undoTemp() // RollbackTo(current height) is a no-op by design and keeps temp changes
			}
			if !within {
				t.Fatalf("harness: target beyond capacity generated")
			}
			if m.tempPending {
				return
			}
			if err != nil {
				vk.Report(t, "C20:RollbackTo:error-within-capacity", err.Error(), m.render())
			}
			want := m.modelAt(target)
			// drop model entries above target
			k := 0
			for _, e := range m.commits {
				if e.height <= target {
					m.commits[k] = e
					k++
				}
			}
			m.commits = m.commits[:k]
			m.retainTruncate(target)
			if target < m.height {
				m.height = target
				m.staleSeek = true
			}
			m.didRollback = true
			if overflowed {
				m.didOverflowRollback = true
			}
			if multi {
				m.didMultiCommitRollback = true
			}
			m.check(t, "RollbackTo:state", want)
			if m.h.Height() != m.height {
				vk.Report(t, "C20:RollbackTo:height", fmt.Sprintf("Height()=%d want %d", m.h.Height(), m.height), m.render())
			}
		},
		"rollbackSeekTo": func(t *rapid.T) {
			if m.pendingHeight != 0 || m.height == 0 || m.seeked || m.tempPending {
				t.Skip("not applicable")
			}
			lo := m.lowestWithin()
			target := uint32(rapid.IntRange(int(lo), int(m.height)).Draw(t, "target"))
			// checkpoint restore: history forgets heights above target, the caller
			// installs the state of the checkpoint taken at that height
			m.h.RollbackSeekTo(target)
			want := m.modelAt(target)
			*m.v = want
			k := 0
			for _, e := range m.commits {
				if e.height <= target {
					m.commits[k] = e
					k++
				}
			}
			m.commits = m.commits[:k]
			m.retainTruncate(target)
			if target < m.height {
				m.height = target
				m.staleSeek = true
			}
			m.log("RollbackSeekTo(%d)", target)
			if m.h.Height() != m.height {
				vk.Report(t, "C20:RollbackSeekTo:height", fmt.Sprintf("Height()=%d want %d", m.h.Height(), m.height), m.render())
			}
		},
		"": func(t *rapid.T) {},
	}
	if consecutive {
		delete(actions, "tempBlock")
		actions["seekTo"] = func(t *rapid.T) {
			if m.pendingHeight != 0 || m.height == 0 {
				t.Skip("pending appends / nothing committed")
			}
			// domain: consecutive single-commit heights, target within capacity
			target := uint32(rapid.IntRange(int(m.lowestWithin()), int(m.height)).Draw(t, "seek"))
			if m.staleSeek {
				vk.Class("seek-after-rollback-without-commit")
			}
			var err error
			p, val, frame := vk.Catch(func() { err = m.h.SeekTo(target) })
			m.log("SeekTo(%d)", target)
			if p {
				m.dead = true
				vk.Report(t, "C20:SeekTo:panic:"+frame, fmt.Sprint(val), m.render())
				return
			}
			if err != nil {
				m.dead = true
				vk.Report(t, "C20:SeekTo:error-within-capacity", err.Error(), m.render())
				return
			}
			m.seeked = target != m.height
			m.seekHeight = target
			m.didSeek = true
			m.check(t, "SeekTo:state", m.modelAt(target))
		}
	}
	for name, f := range actions {
		f := f
		actions[name] = func(t *rapid.T) {
			if m.dead {
				return
			}
			f(t)
		}
	}
	t.Repeat(actions)
	return m
}

func classify(m *machine) (string, bool) {
	nt := m.didSeekCommit || m.didOverflowRollback || m.didMultiCommitRollback
	cl := "plain"
	switch {
	case m.didSeekCommit:
		cl = "seek-then-commit"
	case m.didOverflowRollback:
		cl = "rollback-after-capacity-overflow"
	case m.didMultiCommitRollback:
		cl = "rollback-over-repeated-height"
	case m.didRollback:
		cl = "rollback"
	case m.didSeek:
		cl = "seek"
	}
	return cl, nt
}

func TestHistoryGapped(t *testing.T) {
	rapid.Check(t, func(t *rapid.T) {
		m := runMachine(t, false)
		cl, nt := classify(m)
		key, _ := json.Marshal(m.ops)
		vk.Case("gapped/"+cl, nt, key, m.render)
	})
}

func TestHistoryConsecutiveSeek(t *testing.T) {
	rapid.Check(t, func(t *rapid.T) {
		m := runMachine(t, true)
		cl, nt := classify(m)
		key, _ := json.Marshal(m.ops)
		vk.Case("consecutive/"+cl, nt, key, m.render)
	})
}
