package c34

import (
	"bytes"
	"fmt"

	"github.com/elastos/Elastos.ELA/common"
	"github.com/elastos/Elastos.ELA/core"
	"github.com/elastos/Elastos.ELA/core/contract"
	"github.com/elastos/Elastos.ELA/core/contract/program"
	ctypes "github.com/elastos/Elastos.ELA/core/types/common"
	"github.com/elastos/Elastos.ELA/core/types/functions"
	"github.com/elastos/Elastos.ELA/core/types/interfaces"
	"github.com/elastos/Elastos.ELA/core/types/outputpayload"
	"github.com/elastos/Elastos.ELA/core/types/payload"
	"github.com/elastos/Elastos.ELA/crypto"
	"verifharness/node"
)

const ela = common.Fixed64(100000000)

func pubBytes(k *node.Key) []byte {
	b, err := k.PublicKey.EncodePoint(true)
	if err != nil {
		panic("harness: EncodePoint: " + err.Error())
	}
	return b
}

func stdOutput(to common.Uint168, v common.Fixed64) *ctypes.Output {
	return &ctypes.Output{AssetID: core.ELAAssetID, Value: v, ProgramHash: to,
		Type: ctypes.OTNone, Payload: &outputpayload.DefaultOutput{}}
}

func inputsOf(coins []node.Coin) []*ctypes.Input {
	ins := make([]*ctypes.Input, 0, len(coins))
	for _, c := range coins {
		ins = append(ins, &ctypes.Input{Previous: c.Op, Sequence: 0})
	}
	return ins
}

func sumCoins(coins []node.Coin) common.Fixed64 {
	var s common.Fixed64
	for _, c := range coins {
		s += c.Value
	}
	return s
}

// buildSigned creates a transaction of the given type spending coins, paying
// `extra` outputs first and the change (inputs - extra - fee) to changeTo, and
// signs it with the ring keys owning the coins.
func buildSigned(n *node.Node, typ ctypes.TxType, pver byte, pl interfaces.Payload, coins []node.Coin,
	extra []*ctypes.Output, fee common.Fixed64, changeTo common.Uint168, height uint32) (interfaces.Transaction, error) {
	total := sumCoins(coins)
	var spent common.Fixed64
	for _, o := range extra {
		spent += o.Value
	}
	change := total - spent - fee
	if change < 0 {
		return nil, fmt.Errorf("harness: coins %v do not cover %v + fee %v", total, spent, fee)
	}
	outs := append([]*ctypes.Output{}, extra...)
	if change > 0 || len(outs) == 0 {
		outs = append(outs, stdOutput(changeTo, change))
	}
	// a version-0 transaction starts with its type byte, so types >= 0x09 are
	// only expressible with TxVersion09 (the decoder reads a first byte >= 9 as version)
	ver := n.TxVersionAt(height)
	if byte(typ) >= byte(ctypes.TxVersion09) {
		ver = ctypes.TxVersion09
	}
	tx := functions.CreateTransaction(ver, typ, pver, pl,
		[]*ctypes.Attribute{}, inputsOf(coins), outs, 0, []*program.Program{})
	if err := n.SignStandard(tx, coins); err != nil {
		return nil, err
	}
	return tx, nil
}

// producerInfo builds a signed ProducerInfo payload (version 0).
func producerInfo(owner, nodeKey *node.Key, nick string, url string) *payload.ProducerInfo {
	pi := &payload.ProducerInfo{
		OwnerKey:      pubBytes(owner),
		NodePublicKey: pubBytes(nodeKey),
		NickName:      nick,
		Url:           url,
		Location:      1,
		NetAddress:    "127.0.0.1:20338",
	}
	buf := new(bytes.Buffer)
	if err := pi.SerializeUnsigned(buf, payload.ProducerInfoVersion); err != nil {
		panic("harness: " + err.Error())
	}
	sig, err := crypto.Sign(owner.PrivKey(), buf.Bytes())
	if err != nil {
		panic("harness: " + err.Error())
	}
	pi.Signature = sig
	return pi
}

func depositHashOfKey(k *node.Key) common.Uint168 {
	h, err := contract.PublicKeyToDepositProgramHash(pubBytes(k))
	if err != nil {
		panic("harness: " + err.Error())
	}
	return *h
}

func registerProducerTx(n *node.Node, coins []node.Coin, owner, nodeKey *node.Key, nick string,
	deposit, fee common.Fixed64, height uint32) (interfaces.Transaction, error) {
	pi := producerInfo(owner, nodeKey, nick, "http://verif/"+nick)
	return buildSigned(n, ctypes.RegisterProducer, payload.ProducerInfoVersion, pi, coins,
		[]*ctypes.Output{stdOutput(depositHashOfKey(owner), deposit)}, fee, coins[0].Owner, height)
}

func updateProducerTx(n *node.Node, coins []node.Coin, owner, nodeKey *node.Key, nick, url string,
	fee common.Fixed64, height uint32) (interfaces.Transaction, error) {
	pi := producerInfo(owner, nodeKey, nick, url)
	return buildSigned(n, ctypes.UpdateProducer, payload.ProducerInfoVersion, pi, coins, nil, fee, coins[0].Owner, height)
}

func cancelProducerTx(n *node.Node, coins []node.Coin, owner *node.Key, fee common.Fixed64, height uint32) (interfaces.Transaction, error) {
	pp := &payload.ProcessProducer{OwnerKey: pubBytes(owner)}
	buf := new(bytes.Buffer)
	if err := pp.SerializeUnsigned(buf, payload.ProcessProducerVersion); err != nil {
		return nil, err
	}
	sig, err := crypto.Sign(owner.PrivKey(), buf.Bytes())
	if err != nil {
		return nil, err
	}
	pp.Signature = sig
	return buildSigned(n, ctypes.CancelProducer, payload.ProcessProducerVersion, pp, coins, nil, fee, coins[0].Owner, height)
}

// crIDs returns (code, cid, did, depositHash) of a CR identified by a ring key.
func crIDs(k *node.Key) (code []byte, cid, did, dep common.Uint168) {
	code = k.RedeemScript
	ct, err := contract.CreateCRIDContractByCode(code)
	if err != nil {
		panic("harness: " + err.Error())
	}
	cid = *ct.ToProgramHash()
	didCode := append(append([]byte{}, code[:len(code)-1]...), common.DID)
	ct2, err := contract.CreateCRIDContractByCode(didCode)
	if err != nil {
		panic("harness: " + err.Error())
	}
	did = *ct2.ToProgramHash()
	ct3, err := contract.CreateDepositContractByCode(code)
	if err != nil {
		panic("harness: " + err.Error())
	}
	dep = *ct3.ToProgramHash()
	return
}

func crInfo(k *node.Key, nick, url string, pver byte) *payload.CRInfo {
	code, cid, did, _ := crIDs(k)
	ci := &payload.CRInfo{Code: code, CID: cid, DID: did, NickName: nick, Url: url, Location: 1}
	buf := new(bytes.Buffer)
	if err := ci.SerializeUnsigned(buf, pver); err != nil {
		panic("harness: " + err.Error())
	}
	sig, err := crypto.Sign(k.PrivKey(), buf.Bytes())
	if err != nil {
		panic("harness: " + err.Error())
	}
	ci.Signature = sig
	return ci
}

func registerCRTx(n *node.Node, coins []node.Coin, k *node.Key, nick string, pver byte,
	deposit, fee common.Fixed64, height uint32) (interfaces.Transaction, error) {
	_, _, _, dep := crIDs(k)
	return buildSigned(n, ctypes.RegisterCR, pver, crInfo(k, nick, "http://verif/cr/"+nick, pver), coins,
		[]*ctypes.Output{stdOutput(dep, deposit)}, fee, coins[0].Owner, height)
}

func updateCRTx(n *node.Node, coins []node.Coin, k *node.Key, nick, url string, pver byte,
	fee common.Fixed64, height uint32) (interfaces.Transaction, error) {
	return buildSigned(n, ctypes.UpdateCR, pver, crInfo(k, nick, url, pver), coins, nil, fee, coins[0].Owner, height)
}

func unregisterCRTx(n *node.Node, coins []node.Coin, k *node.Key, fee common.Fixed64, height uint32) (interfaces.Transaction, error) {
	_, cid, _, _ := crIDs(k)
	u := &payload.UnregisterCR{CID: cid}
	buf := new(bytes.Buffer)
	if err := u.SerializeUnsigned(buf, payload.UnregisterCRVersion); err != nil {
		return nil, err
	}
	sig, err := crypto.Sign(k.PrivKey(), buf.Bytes())
	if err != nil {
		return nil, err
	}
	u.Signature = sig
	return buildSigned(n, ctypes.UnregisterCR, payload.UnregisterCRVersion, u, coins, nil, fee, coins[0].Owner, height)
}
