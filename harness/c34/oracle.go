package c34

import (
	"fmt"
	"sort"

	"github.com/elastos/Elastos.ELA/common"
	ctypes "github.com/elastos/Elastos.ELA/core/types/common"
	"github.com/elastos/Elastos.ELA/core/types/interfaces"
	"github.com/elastos/Elastos.ELA/mempool"
)

// finding is one violated clause; sig is the stable signature (without the
// "C34:" prefix and without the exposing operation).
type finding struct {
	sig    string
	detail string
}

func txDesc(tx interfaces.Transaction) string {
	if tx == nil {
		return "<unknown tx>"
	}
	h := tx.Hash()
	return fmt.Sprintf("%s/v%d %s", tx.TxType().Name(), tx.PayloadVersion(), h.String()[:12])
}

func typeTag(tx interfaces.Transaction) string {
	if tx == nil {
		return "unknown"
	}
	return fmt.Sprintf("%s/v%d", tx.TxType().Name(), tx.PayloadVersion())
}

func sortedHashes(m map[common.Uint256]interfaces.Transaction) []common.Uint256 {
	out := make([]common.Uint256, 0, len(m))
	for h := range m {
		out = append(out, h)
	}
	sort.Slice(out, func(i, j int) bool { return out[i].Compare(out[j]) < 0 })
	return out
}

// checkPool decides every clause of the property on one snapshot.
//
//	feeOf:   the fee of a pooled transaction, computed by the harness
//	         (sum of spent outputs - sum of outputs), not read from the pool
//	lookup:  every transaction the harness ever built, by hash (for messages)
//
// It returns the first violated clause in a fixed order (deterministic).
func checkPool(pool *mempool.TxPool, s *mempool.VerifSnapshot, feeOf func(interfaces.Transaction) common.Fixed64,
	lookup func(common.Uint256) interfaces.Transaction) *finding {
	f, _ := checkPoolSoft(pool, s, feeOf, lookup)
	return f
}

// checkPoolSoft additionally returns findings the oracle can continue past.
func checkPoolSoft(pool *mempool.TxPool, s *mempool.VerifSnapshot, feeOf func(interfaces.Transaction) common.Fixed64,
	lookup func(common.Uint256) interfaces.Transaction) (*finding, []*finding) {
	var soft []*finding
	f := checkPoolInner(pool, s, feeOf, lookup, &soft)
	return f, soft
}

func checkPoolInner(pool *mempool.TxPool, s *mempool.VerifSnapshot, feeOf func(interfaces.Transaction) common.Fixed64,
	lookup func(common.Uint256) interfaces.Transaction, soft *[]*finding) *finding {

	hashes := sortedHashes(s.TxList)

	// (0) the pool map is keyed by the hash of the transaction it holds
	for _, h := range hashes {
		if th := s.TxList[h].Hash(); th != h {
			return &finding{"txlist:key-not-hash", fmt.Sprintf("txnList[%s] holds %s", h, txDesc(s.TxList[h]))}
		}
	}

	// (1) per-resource index: each slot's key->tx map equals the one recomputed
	// from the held transactions - independently for the named resources, with
	// the pool's extractors for the remaining slots.
	expect := map[string]map[string]common.Uint256{}
	add := func(slot, key string, h common.Uint256) *finding {
		m := expect[slot]
		if m == nil {
			m = map[string]common.Uint256{}
			expect[slot] = m
		}
		if o, dup := m[key]; dup && o != h {
			kind := slotKind[slot]
			if kind == "" {
				kind = "slot-" + slot
			}
			a, b := s.TxList[o], s.TxList[h]
			return &finding{"conflict:" + kind,
				fmt.Sprintf("pooled %s and %s both claim %s key %s", txDesc(a), txDesc(b), kind, key)}
		}
		m[key] = h
		return nil
	}
	// conflict-freeness on the named resources first (the headline clause)
	for _, h := range hashes {
		tx := s.TxList[h]
		res := resources(tx)
		kinds := make([]string, 0, len(res))
		for k := range res {
			kinds = append(kinds, k)
		}
		sort.Strings(kinds)
		for _, k := range kinds {
			for _, key := range res[k] {
				if f := add(kindSlot[k], key, h); f != nil {
					return f
				}
			}
		}
	}
	for _, h := range hashes {
		tx := s.TxList[h]
		keys, errs := pool.VerifTxKeys(tx)
		names := make([]string, 0, len(keys))
		for n := range keys {
			names = append(names, n)
		}
		sort.Strings(names)
		for _, slot := range names {
			if _, named := slotKind[slot]; named {
				continue
			}
			ks := keys[slot]
			if slot == "DPoSActivateCancel" && tx.TxType() == ctypes.CancelProducer {
				// This key is not a function of the transaction: it is the node public
				// key the DPoS state holds for the producer NOW.  When a block updates
				// that producer's node key while the cancel is pooled, the index keeps
				// the key of admission time.  Reported once, then the held key is taken.
				if held := heldKeys(s, slot, h); len(held) == 1 && len(ks) == 1 && held[0] != ks[0] {
					*soft = append(*soft, &finding{sig: "index:DPoSActivateCancel:key-not-refreshed-after-producer-update",
						detail: fmt.Sprintf("pooled %s is indexed under node key %s, the producer's node key is now %s", txDesc(tx), held[0], ks[0])})
					ks = held
				}
			}
			for _, key := range ks {
				if f := add(slot, key, h); f != nil {
					return f
				}
			}
		}
		_ = errs // an extractor that fails on a pooled tx shows up as stale/missing below
	}
	for _, sl := range s.Slots {
		exp := expect[sl.Name]
		var ks []string
		for k := range sl.Keys {
			ks = append(ks, k)
		}
		sort.Strings(ks)
		for _, k := range ks {
			got := sl.Keys[k]
			want, ok := exp[k]
			if !ok {
				holder := lookup(got)
				where := "a transaction that is not pooled"
				if _, in := s.TxList[got]; in {
					where = "a pooled transaction that does not claim it"
				}
				return &finding{"index:" + sl.Name + ":stale-key:" + typeTag(holder),
					fmt.Sprintf("slot %s holds key %s -> %s (%s)", sl.Name, k, txDesc(holder), where)}
			}
			if want != got {
				return &finding{"index:" + sl.Name + ":wrong-tx",
					fmt.Sprintf("slot %s key %s -> %s, held by %s", sl.Name, k, txDesc(lookup(got)), txDesc(s.TxList[want]))}
			}
		}
		var es []string
		for k := range exp {
			es = append(es, k)
		}
		sort.Strings(es)
		for _, k := range es {
			if _, ok := sl.Keys[k]; !ok {
				return &finding{"index:" + sl.Name + ":missing-key:" + typeTag(s.TxList[exp[k]]),
					fmt.Sprintf("slot %s lacks key %s of pooled %s", sl.Name, k, txDesc(s.TxList[exp[k]]))}
			}
		}
	}

	// (2) fee ordered list == pooled transactions, ordered by fee rate
	seen := map[common.Uint256]bool{}
	for i, it := range s.Fees {
		tx, ok := s.TxList[it.Hash]
		if !ok {
			return &finding{"fees:entry-not-pooled", fmt.Sprintf("fee list entry %d %s is not in the pool", i, txDesc(lookup(it.Hash)))}
		}
		if seen[it.Hash] {
			return &finding{"fees:duplicate-entry", fmt.Sprintf("fee list holds %s twice", txDesc(tx))}
		}
		seen[it.Hash] = true
		size := tx.GetSize()
		if int(it.Size) != size {
			return &finding{"fees:size", fmt.Sprintf("fee list size %d of %s, serialized size %d", it.Size, txDesc(tx), size)}
		}
		want := float64(feeOf(tx)) / float64(size)
		if it.FeeRate != want {
			return &finding{"fees:rate", fmt.Sprintf("fee rate %v of %s, fee/size = %v/%d = %v", it.FeeRate, txDesc(tx), feeOf(tx), size, want)}
		}
		if i > 0 && s.Fees[i-1].FeeRate < it.FeeRate {
			return &finding{"fees:order", fmt.Sprintf("entry %d rate %v before entry %d rate %v", i-1, s.Fees[i-1].FeeRate, i, it.FeeRate)}
		}
	}
	for _, h := range hashes {
		if !seen[h] {
			return &finding{"fees:pooled-not-listed", fmt.Sprintf("pooled %s is not in the fee list", txDesc(s.TxList[h]))}
		}
	}

	// (3) size accounting and limit
	var total uint64
	for _, h := range hashes {
		total += uint64(s.TxList[h].GetSize())
	}
	if total != s.TotalSize {
		return &finding{"size:total-mismatch", fmt.Sprintf("totalSize %d, sum of pooled sizes %d", s.TotalSize, total)}
	}
	if total > s.MaxSize {
		return &finding{"size:over-limit", fmt.Sprintf("pooled bytes %d > limit %d", total, s.MaxSize)}
	}

	// (4) pending-proposal budget
	var budget common.Fixed64
	for _, h := range hashes {
		budget += budgetOf(s.TxList[h])
	}
	if budget != s.ProposalsUsedAmount {
		return &finding{"budget:mismatch", fmt.Sprintf("proposalsUsedAmount %d, sum over pooled proposals %d", s.ProposalsUsedAmount, budget)}
	}
	return nil
}

func heldKeys(s *mempool.VerifSnapshot, slot string, h common.Uint256) []string {
	var out []string
	for _, sl := range s.Slots {
		if sl.Name != slot {
			continue
		}
		for k, v := range sl.Keys {
			if v == h {
				out = append(out, k)
			}
		}
	}
	sort.Strings(out)
	return out
}

// conflictsWithPool tells whether tx shares a key with a pooled transaction,
// by the harness' resources for the named kinds and by the pool's extractors
// for the remaining slots.  Used for the "no spurious rejection" direction.
func conflictsWithPool(pool *mempool.TxPool, s *mempool.VerifSnapshot, tx interfaces.Transaction) (bool, string) {
	mine := map[string]map[string]bool{}
	put := func(slot, key string) {
		if mine[slot] == nil {
			mine[slot] = map[string]bool{}
		}
		mine[slot][key] = true
	}
	for k, keys := range resources(tx) {
		for _, key := range keys {
			put(kindSlot[k], key)
		}
	}
	keys, _ := pool.VerifTxKeys(tx)
	for slot, ks := range keys {
		if _, named := slotKind[slot]; named {
			continue
		}
		for _, key := range ks {
			put(slot, key)
		}
	}
	for _, h := range sortedHashes(s.TxList) {
		o := s.TxList[h]
		for k, ks := range resources(o) {
			for _, key := range ks {
				if mine[kindSlot[k]][key] {
					return true, kindSlot[k]
				}
			}
		}
		okeys, _ := pool.VerifTxKeys(o)
		for slot, ks := range okeys {
			if _, named := slotKind[slot]; named {
				continue
			}
			for _, key := range ks {
				if mine[slot][key] {
					return true, slot
				}
			}
		}
	}
	return false, ""
}
