package c34

import (
	"bytes"
	"encoding/json"
	"fmt"
	"sort"
	"strings"
	"sync"
	"testing"

	"github.com/elastos/Elastos.ELA/common"
	"github.com/elastos/Elastos.ELA/common/config"
	"github.com/elastos/Elastos.ELA/core/types"
	ctypes "github.com/elastos/Elastos.ELA/core/types/common"
	"github.com/elastos/Elastos.ELA/core/types/functions"
	"github.com/elastos/Elastos.ELA/core/types/interfaces"
	"github.com/elastos/Elastos.ELA/core/types/payload"
	elaerr "github.com/elastos/Elastos.ELA/errors"
	"github.com/elastos/Elastos.ELA/events"
	"pgregory.net/rapid"
	"verifharness/lib/vk"
	"verifharness/node"
)

func TestMain(m *testing.M) { vk.Main(m, "C34") }

// ---------------------------------------------------------------------------
// mirror of netsync's ETBlockDisconnected handling (the mini-node mirrors the
// connected/processed handlers): reinsert the transactions of a disconnected
// block, and drop the dependants of those that are not accepted.

var (
	discOnce sync.Once
	discMu   sync.Mutex
	discCur  *machA
)

func subscribeDisconnect() {
	discOnce.Do(func() {
		events.Subscribe(func(e *events.Event) {
			if e.Type != events.ETBlockDisconnected {
				return
			}
			discMu.Lock()
			m := discCur
			discMu.Unlock()
			if m == nil || !m.n.AutoPoolCleanup {
				return
			}
			b, ok := e.Data.(*types.Block)
			if !ok {
				return
			}
			for _, tx := range b.Transactions[1:] {
				m.register(tx)
				if err := m.n.Pool.MaybeAcceptTransaction(tx); err != nil {
					m.n.Pool.RemoveTransaction(tx)
				} else {
					m.reinserted++
				}
			}
		})
	})
}

// ---------------------------------------------------------------------------

type machA struct {
	t   *rapid.T
	n   *node.Node
	ops []string
	op  string // operation being executed (part of signatures)

	known map[ctypes.OutPoint]common.Fixed64        // value of every output the harness ever saw
	all   map[common.Uint256]interfaces.Transaction // every transaction ever built / seen
	built []interfaces.Transaction                  // submission candidates in creation order
	tree  map[common.Uint256]*types.Block           // every block built, by hash
	utxo  node.UTXOSet                              // replay of the node's active chain
	limit uint64

	dead bool

	// classification
	accepted, rejectedConflict, rejectedChain, rejectedCapacity int
	removedMultiKey, removedAny                                 int
	foreignInBlock, reorgs, reinserted, blocks, blockRejected   int
	acceptedByType                                              map[string]int
}

func (m *machA) log(f string, a ...any) { m.ops = append(m.ops, fmt.Sprintf(f, a...)) }

func (m *machA) render() any {
	return map[string]any{"machine": "A", "limit": m.limit, "ops": m.ops}
}

func (m *machA) register(tx interfaces.Transaction) {
	h := tx.Hash()
	if _, ok := m.all[h]; !ok {
		m.all[h] = tx
	}
	for i, o := range tx.Outputs() {
		m.known[ctypes.OutPoint{TxID: h, Index: uint16(i)}] = o.Value
	}
}

func (m *machA) lookup(h common.Uint256) interfaces.Transaction { return m.all[h] }

func (m *machA) feeOf(tx interfaces.Transaction) common.Fixed64 {
	var in, out common.Fixed64
	for _, i := range tx.Inputs() {
		in += m.known[i.Previous]
	}
	for _, o := range tx.Outputs() {
		out += o.Value
	}
	return in - out
}

func wireCopy(tx interfaces.Transaction) interfaces.Transaction {
	buf := new(bytes.Buffer)
	if err := tx.Serialize(buf); err != nil {
		panic("harness: serialize: " + err.Error())
	}
	r := bytes.NewReader(buf.Bytes())
	c, err := functions.GetTransactionByBytes(r)
	if err != nil {
		panic("harness: GetTransactionByBytes: " + err.Error())
	}
	if err := c.Deserialize(r); err != nil {
		panic("harness: deserialize " + tx.TxType().Name() + ": " + err.Error())
	}
	return c
}

func (m *machA) resync() {
	blocks, err := m.n.ActiveChain()
	if err != nil {
		m.t.Fatalf("harness: ActiveChain: %v", err)
	}
	u, err := node.Replay(blocks, m.n.KeyIndexOf)
	if err != nil {
		m.t.Fatalf("harness: replay of the node's active chain: %v", err)
	}
	m.utxo = u
	for _, b := range blocks {
		for _, tx := range b.Transactions {
			m.register(tx)
		}
	}
}

func (m *machA) tipBlock() *types.Block {
	b, err := m.n.Tip()
	if err != nil {
		m.t.Fatalf("harness: Tip: %v", err)
	}
	return b
}

// verdict runs the snapshot oracle; returns false when checking must stop.
func (m *machA) verdict() bool {
	if m.dead {
		return false
	}
	s := m.n.Pool.VerifSnapshot()
	f, soft := checkPoolSoft(m.n.Pool, s, m.feeOf, m.lookup)
	for _, sf := range soft {
		if !vk.Report(m.t, "C34:"+sf.sig, sf.detail, m.render()) {
			m.dead = true
			return false
		}
	}
	if f != nil {
		m.dead = true
		vk.Report(m.t, "C34:"+f.sig+":"+m.op, f.detail, m.render())
		return false
	}
	return true
}

// pooledKeyCounts: tx hash -> number of index keys it holds (named + others).
func keyCount(m *machA, tx interfaces.Transaction) int {
	n := 0
	for _, ks := range resources(tx) {
		n += len(ks)
	}
	return n
}

// noteRemovals compares two snapshots of the pool membership.
func (m *machA) noteRemovals(before map[common.Uint256]interfaces.Transaction) {
	after := m.n.Pool.VerifSnapshot().TxList
	for h, tx := range before {
		if _, ok := after[h]; !ok {
			m.removedAny++
			if keyCount(m, tx) >= 2 {
				m.removedMultiKey++
			}
		}
	}
}

// submit hands tx to the pool through the public admission path and checks
// the rejection reason against the harness' view of the pool.
func (m *machA) submit(tx interfaces.Transaction, what string) {
	m.register(tx)
	pre := m.n.Pool.VerifSnapshot()
	_, already := pre.TxList[tx.Hash()]
	conflict, cslot := conflictsWithPool(m.n.Pool, pre, tx)
	err := m.n.Pool.AppendToTxPoolWithoutEvent(tx)
	switch {
	case err == nil:
		m.accepted++
		m.acceptedByType[tx.TxType().Name()]++
		m.log("%s -> accepted %s", what, txDesc(tx))
	default:
		code := err.Code()
		inner := ""
		if ie := err.InnerError(); ie != nil {
			inner = ie.Error()
		}
		m.log("%s -> rejected (%v) %s", what, err, txDesc(tx))
		switch {
		case code == elaerr.ErrTxPoolOverCapacity:
			m.rejectedCapacity++
		case code == elaerr.ErrTxPoolFailure && strings.Contains(err.Error(), "verify tx error"):
			// a pool-level rejection: it must be explained by a pooled transaction
			// claiming the same key, unless the extractor itself failed
			dup := false
			if se, ok := err.InnerError().(elaerr.ELAError); ok && se.Code() == elaerr.ErrTxPoolTxDuplicate {
				dup = true
			}
			if dup && !conflict && !already {
				slot := slotOfMessage(err.Error())
				m.dead = true
				vk.Report(m.t, "C34:admission:spurious-conflict:"+slot+":"+m.op,
					fmt.Sprintf("%s rejected by slot %s (%s) although no pooled transaction claims any of its keys", txDesc(tx), slot, inner), m.render())
				return
			}
			m.rejectedConflict++
		default:
			m.rejectedChain++
		}
	}
	_ = cslot
}

func slotOfMessage(s string) string {
	// "slot <name> verify tx error"
	i := strings.Index(s, "slot ")
	if i < 0 {
		return "unknown"
	}
	rest := s[i+5:]
	j := strings.Index(rest, " ")
	if j < 0 {
		return "unknown"
	}
	return rest[:j]
}

// spendable returns ring-owned coins of the active chain usable at tip+1, sorted.
func (m *machA) spendable() []node.Coin {
	return m.utxo.Spendable(m.n.Chain.GetHeight()+1, m.n.Params.PowConfiguration.CoinbaseMaturity)
}

// pickCoins draws k coins; with bias towards coins a pooled transaction already spends.
func (m *machA) pickCoins(k int, minEach common.Fixed64, exclude map[ctypes.OutPoint]bool) []node.Coin {
	var cands, hot []node.Coin
	used := m.n.Pool.GetUsedUTXOs()
	for _, c := range m.spendable() {
		if c.Value < minEach || exclude[c.Op] {
			continue
		}
		cands = append(cands, c)
		if _, ok := used[c.Op.ReferKey()]; ok {
			hot = append(hot, c)
		}
	}
	var out []node.Coin
	taken := map[ctypes.OutPoint]bool{}
	for len(out) < k && len(cands) > 0 {
		src := cands
		if len(hot) > 0 && rapid.IntRange(0, 9).Draw(m.t, "collide") < 4 {
			src = hot
		}
		c := src[rapid.IntRange(0, len(src)-1).Draw(m.t, "coin")]
		if taken[c.Op] {
			// draw again from the full list deterministically
			found := false
			for _, d := range cands {
				if !taken[d.Op] {
					c, found = d, true
					break
				}
			}
			if !found {
				break
			}
		}
		taken[c.Op] = true
		out = append(out, c)
	}
	return out
}

var feeChoices = []common.Fixed64{100, 100, 1000, 4242, 10000, 10000, 250000}

func (m *machA) drawFee() common.Fixed64 {
	return feeChoices[rapid.IntRange(0, len(feeChoices)-1).Draw(m.t, "fee")]
}

type cast struct {
	owners, nodes, crs []int
	pnicks, cnicks     []string
}

// Owner keys and node keys of different producers are kept disjoint: before
// DPoSV2StartHeight the chain accepts a producer whose owner key is another
// producer's node key when they arrive in different blocks, and the DPoS state
// then resolves that key ambiguously (State.getProducerKey) - a chain-state
// matter outside this property (the pool-level owner/node cross check is
// exercised in machine B).  -1 = "the producer's own owner key".
var theCast = cast{
	owners: []int{4, 5, 6},
	nodes:  []int{7, 8, 9, -1},
	crs:    []int{9, 10, 4},
	pnicks: []string{"n1", "n2", "n3"},
	cnicks: []string{"c1", "c2"},
}

// genTx builds one candidate transaction of a drawn kind; nil when the chain
// has no suitable coin.
func (m *machA) genTx(exclude map[ctypes.OutPoint]bool) (interfaces.Transaction, string) {
	t := m.t
	h := m.n.Chain.GetHeight() + 1
	kind := rapid.SampledFrom([]string{"transfer", "transfer", "transfer", "regProducer", "regProducer", "updProducer",
		"updProducer", "cancelProducer", "regCR", "regCR", "updCR", "unregCR"}).Draw(t, "kind")
	fee := m.drawFee()
	pick := func(idx []int, label string) *node.Key {
		i := idx[rapid.IntRange(0, len(idx)-1).Draw(t, label)]
		if i < 0 {
			return nil
		}
		return m.n.Keys[i]
	}
	// entity choice biased by what the chain knows, so that most candidates
	// pass the chain checks and reach the pool: wantRegistered=true for
	// update/cancel/unregister, false for register (3 of 4 draws follow the bias)
	pickEntity := func(idx []int, label string, registered func(*node.Key) bool, wantRegistered bool) *node.Key {
		var match []*node.Key
		for _, i := range idx {
			if i >= 0 && registered(m.n.Keys[i]) == wantRegistered {
				match = append(match, m.n.Keys[i])
			}
		}
		if len(match) > 0 && rapid.IntRange(0, 3).Draw(t, label+"Bias") != 0 {
			return match[rapid.IntRange(0, len(match)-1).Draw(t, label)]
		}
		return pick(idx, label)
	}
	producerRegistered := func(k *node.Key) bool {
		p := m.n.Arbiters.State.GetProducer(pubBytes(k))
		return p != nil && bytes.Equal(p.OwnerPublicKey(), pubBytes(k))
	}
	crRegistered := func(k *node.Key) bool {
		_, cid, _, _ := crIDs(k)
		return m.n.Committee.GetCandidate(cid) != nil
	}
	var tx interfaces.Transaction
	var err error
	desc := kind
	switch kind {
	case "transfer":
		k := rapid.IntRange(1, 2).Draw(t, "nin")
		coins := m.pickCoins(k, 2*ela, exclude)
		if len(coins) == 0 {
			return nil, ""
		}
		total := sumCoins(coins) - fee
		nout := rapid.IntRange(1, 3).Draw(t, "nout")
		var outs []node.Out
		for i := 0; i < nout; i++ {
			v := total / common.Fixed64(nout)
			if i == nout-1 {
				v = total - v*common.Fixed64(nout-1)
			}
			outs = append(outs, node.Out{To: m.n.Keys[rapid.IntRange(0, 3).Draw(t, "to")].ProgramHash, Value: v})
		}
		tx, err = m.n.Transfer(coins, outs, h)
		desc = fmt.Sprintf("transfer(%d in, %d out, fee %d)", len(coins), nout, fee)
	case "regProducer":
		coins := m.pickCoins(1, 5000*ela+fee, exclude)
		if len(coins) == 0 {
			return nil, ""
		}
		o, nd, nick := pickEntity(theCast.owners, "owner", producerRegistered, false), pick(theCast.nodes, "node"), rapid.SampledFrom(theCast.pnicks).Draw(t, "nick")
		if nd == nil {
			nd = o
		}
		tx, err = registerProducerTx(m.n, coins, o, nd, nick, 5000*ela, fee, h)
		desc = fmt.Sprintf("regProducer(owner K%d, node K%d, nick %s, fee %d)", o.Index, nd.Index, nick, fee)
	case "updProducer":
		coins := m.pickCoins(1, 2*ela, exclude)
		if len(coins) == 0 {
			return nil, ""
		}
		o, nd, nick := pickEntity(theCast.owners, "owner", producerRegistered, true), pick(theCast.nodes, "node"), rapid.SampledFrom(theCast.pnicks).Draw(t, "nick")
		if nd == nil {
			nd = o
		}
		url := rapid.SampledFrom([]string{"u1", "u2"}).Draw(t, "url")
		tx, err = updateProducerTx(m.n, coins, o, nd, nick, url, fee, h)
		desc = fmt.Sprintf("updProducer(owner K%d, node K%d, nick %s, url %s, fee %d)", o.Index, nd.Index, nick, url, fee)
	case "cancelProducer":
		coins := m.pickCoins(1, 2*ela, exclude)
		if len(coins) == 0 {
			return nil, ""
		}
		o := pickEntity(theCast.owners, "owner", producerRegistered, true)
		tx, err = cancelProducerTx(m.n, coins, o, fee, h)
		desc = fmt.Sprintf("cancelProducer(owner K%d, fee %d)", o.Index, fee)
	case "regCR":
		coins := m.pickCoins(1, 5000*ela+fee, exclude)
		if len(coins) == 0 {
			return nil, ""
		}
		k, nick := pickEntity(theCast.crs, "cr", crRegistered, false), rapid.SampledFrom(theCast.cnicks).Draw(t, "cnick")
		tx, err = registerCRTx(m.n, coins, k, nick, payload.CRInfoVersion, 5000*ela, fee, h)
		desc = fmt.Sprintf("regCR(K%d, nick %s, fee %d)", k.Index, nick, fee)
	case "updCR":
		coins := m.pickCoins(1, 2*ela, exclude)
		if len(coins) == 0 {
			return nil, ""
		}
		k, nick := pickEntity(theCast.crs, "cr", crRegistered, true), rapid.SampledFrom(theCast.cnicks).Draw(t, "cnick")
		url := rapid.SampledFrom([]string{"u1", "u2"}).Draw(t, "url")
		tx, err = updateCRTx(m.n, coins, k, nick, url, payload.CRInfoVersion, fee, h)
		desc = fmt.Sprintf("updCR(K%d, nick %s, url %s, fee %d)", k.Index, nick, url, fee)
	case "unregCR":
		coins := m.pickCoins(1, 2*ela, exclude)
		if len(coins) == 0 {
			return nil, ""
		}
		k := pickEntity(theCast.crs, "cr", crRegistered, true)
		tx, err = unregisterCRTx(m.n, coins, k, fee, h)
		desc = fmt.Sprintf("unregCR(K%d, fee %d)", k.Index, fee)
	}
	if err != nil {
		t.Fatalf("harness: build %s: %v", kind, err)
	}
	// what a node holds is what arrived on the wire
	tx = wireCopy(tx)
	m.register(tx)
	m.built = append(m.built, tx)
	return tx, desc
}

// chainValid asks the chain (not the pool) whether tx could be mined on the tip.
func (m *machA) chainValid(tx interfaces.Transaction) bool {
	h := m.n.Chain.GetHeight() + 1
	c := wireCopy(tx) // the checks write the fee into the object
	if err := m.n.Chain.CheckTransactionSanity(h, c); err != nil {
		return false
	}
	if _, err := m.n.Chain.CheckTransactionContext(h, c, 0, 0); err != nil {
		return false
	}
	return true
}

func disjoint(claimed map[string]map[string]bool, tx interfaces.Transaction) bool {
	for k, ks := range resources(tx) {
		for _, key := range ks {
			if claimed[k][key] {
				return false
			}
		}
	}
	return true
}

func claim(claimed map[string]map[string]bool, tx interfaces.Transaction) {
	for k, ks := range resources(tx) {
		if claimed[k] == nil {
			claimed[k] = map[string]bool{}
		}
		for _, key := range ks {
			claimed[k][key] = true
		}
	}
}

// processBlock delivers b and notes pool removals.
func (m *machA) processBlock(b *types.Block, what string) (inMain bool, ok bool) {
	before := m.n.Pool.VerifSnapshot().TxList
	tipBefore := *m.n.Chain.BestChain.Hash
	m.tree[b.Hash()] = b
	in, orphan, err := m.n.Process(b)
	m.log("%s h=%d txs=%d -> inMain=%v orphan=%v err=%v", what, b.Height, len(b.Transactions)-1, in, orphan, err)
	if err != nil {
		m.blockRejected++
		// the harness builds blocks it believes valid; a refusal is not a verdict of this
		// property (C12 decides chain selection) but the pool must stay consistent
		return false, false
	}
	m.blocks++
	switch {
	case in && b.Previous == tipBefore && m.utxo != nil:
		if err := m.utxo.Apply(b, m.n.KeyIndexOf); err != nil {
			m.t.Fatalf("harness: model cannot apply an accepted block: %v", err)
		}
		for _, tx := range b.Transactions {
			m.register(tx)
		}
	case in:
		if b.Previous != tipBefore {
			m.reorgs++
		}
		m.resync()
	}
	m.noteRemovals(before)
	return in, true
}

func sortedPool(m *machA) []interfaces.Transaction {
	s := m.n.Pool.VerifSnapshot()
	var out []interfaces.Transaction
	for _, h := range sortedHashes(s.TxList) {
		out = append(out, s.TxList[h])
	}
	return out
}

func feesOf(m *machA, txs []interfaces.Transaction) common.Fixed64 {
	var f common.Fixed64
	for _, tx := range txs {
		f += m.feeOf(tx)
	}
	return f
}

func runA(t *rapid.T) *machA {
	m := &machA{t: t, known: map[ctypes.OutPoint]common.Fixed64{}, all: map[common.Uint256]interfaces.Transaction{},
		tree: map[common.Uint256]*types.Block{}, acceptedByType: map[string]int{}}
	n, err := node.New(node.Opts{NKeys: 11, Tweak: func(p *config.Configuration) {
		p.VoteStartHeight = 1
		p.CRConfiguration.CRVotingStartHeight = 1
		p.CRConfiguration.CRCommitteeStartHeight = 100000
	}})
	if err != nil {
		t.Fatalf("harness: node.New: %v", err)
	}
	m.n = n
	subscribeDisconnect()
	discMu.Lock()
	discCur = m
	discMu.Unlock()
	defer func() {
		discMu.Lock()
		discCur = nil
		discMu.Unlock()
		n.Close()
	}()

	m.limit = rapid.SampledFrom([]uint64{20000000, 20000000, 20000000, 2500, 900, 450}).Draw(t, "limit")
	if m.limit != 20000000 {
		n.Pool.VerifSetMaxSize(m.limit)
	}

	// deterministic prologue: mature the genesis coin, fan it out
	m.op = "setup"
	m.tree[n.Genesis.Hash()] = n.Genesis
	b1, err := n.BuildBlock(node.BlockSpec{Parent: n.Genesis})
	if err != nil {
		t.Fatalf("harness: %v", err)
	}
	if in, ok := m.processBlock(b1, "setup-block"); !ok || !in {
		t.Fatalf("harness: setup block 1 refused")
	}
	var big node.Coin
	for _, c := range m.spendable() {
		if c.Value > big.Value {
			big = c
		}
	}
	var outs []node.Out
	var sum common.Fixed64
	for i := 0; i < 8; i++ {
		outs = append(outs, node.Out{To: n.Keys[i%4].ProgramHash, Value: 6000 * ela})
		sum += 6000 * ela
	}
	for i := 0; i < 14; i++ {
		v := common.Fixed64(20+i) * ela
		outs = append(outs, node.Out{To: n.Keys[i%4].ProgramHash, Value: v})
		sum += v
	}
	outs = append(outs, node.Out{To: n.Keys[0].ProgramHash, Value: big.Value - sum - 10000})
	fan, err := n.Transfer([]node.Coin{big}, outs, 2)
	if err != nil {
		t.Fatalf("harness: fan-out: %v", err)
	}
	m.register(fan)
	b2, err := n.BuildBlock(node.BlockSpec{Parent: b1, Txs: []interfaces.Transaction{fan}, Fees: 10000})
	if err != nil {
		t.Fatalf("harness: %v", err)
	}
	if in, ok := m.processBlock(b2, "setup-block"); !ok || !in {
		t.Fatalf("harness: setup block 2 refused")
	}
	m.ops = nil

	actions := map[string]func(*rapid.T){
		"": func(t *rapid.T) {},
		"submit": func(t *rapid.T) {
			m.op = "submit"
			tx, desc := m.genTx(nil)
			if tx == nil {
				return
			}
			m.submit(tx, "submit "+desc)
			m.verdict()
		},
		"resubmit": func(t *rapid.T) {
			m.op = "resubmit"
			if len(m.built) == 0 {
				return
			}
			tx := m.built[rapid.IntRange(0, len(m.built)-1).Draw(t, "which")]
			m.submit(wireCopy(tx), "resubmit")
			m.verdict()
		},
		"mine": func(t *rapid.T) {
			m.op = "mine"
			claimed := map[string]map[string]bool{}
			var txs []interfaces.Transaction
			desc := []string{}
			// foreign transactions first or last: they are not in this node's pool
			// (another miner's block); they may conflict with what stays pooled
			nforeign := rapid.SampledFrom([]int{0, 0, 1, 1, 2}).Draw(t, "nforeign")
			var foreign []interfaces.Transaction
			for i := 0; i < nforeign; i++ {
				var tx interfaces.Transaction
				if len(m.built) > 0 && rapid.Bool().Draw(t, "foreignFromBuilt") {
					tx = m.built[rapid.IntRange(0, len(m.built)-1).Draw(t, "which")]
				} else {
					tx, _ = m.genTx(nil)
				}
				if tx == nil || m.n.Pool.HaveTransaction(tx.Hash()) {
					continue
				}
				if !disjoint(claimed, tx) || !m.chainValid(tx) {
					continue
				}
				claim(claimed, tx)
				foreign = append(foreign, wireCopy(tx))
				desc = append(desc, "foreign "+txDesc(tx))
			}
			sameObject := rapid.Bool().Draw(t, "sameObject")
			for _, tx := range sortedPool(m) {
				if rapid.IntRange(0, 9).Draw(t, "include") < 6 {
					if !disjoint(claimed, tx) || !m.chainValid(tx) {
						continue
					}
					claim(claimed, tx)
					if sameObject {
						txs = append(txs, tx) // the local miner packs the pooled objects themselves
					} else {
						txs = append(txs, wireCopy(tx))
					}
					desc = append(desc, "pooled "+txDesc(tx))
				}
			}
			txs = append(txs, foreign...)
			m.foreignInBlock += len(foreign)
			b, err := m.n.BuildBlock(node.BlockSpec{Parent: m.tipBlock(), Txs: txs, Fees: feesOf(m, txs),
				Salt: uint64(len(m.tree)), MinerKey: rapid.IntRange(0, 3).Draw(t, "miner")})
			if err != nil {
				t.Fatalf("harness: BuildBlock: %v", err)
			}
			m.processBlock(b, "mine ["+strings.Join(desc, "; ")+"]")
			m.verdict()
		},
		"fork": func(t *rapid.T) {
			m.op = "reorg"
			height := m.n.Chain.GetHeight()
			if height < 3 {
				return
			}
			depth := uint32(rapid.IntRange(1, 2).Draw(t, "depth"))
			if height-depth < 2 {
				depth = height - 2
			}
			if depth == 0 {
				return
			}
			active, err := m.n.ActiveChain()
			if err != nil {
				t.Fatalf("harness: %v", err)
			}
			base := active[height-depth]
			// UTXO view at the fork base: fork blocks only carry transfers whose
			// inputs exist there (and, optionally, transfers of the detached blocks)
			u, err := node.Replay(active[:height-depth+1], m.n.KeyIndexOf)
			if err != nil {
				t.Fatalf("harness: %v", err)
			}
			var carry []interfaces.Transaction
			for _, b := range active[height-depth+1:] {
				for _, tx := range b.Transactions[1:] {
					if tx.TxType() == ctypes.TransferAsset && rapid.Bool().Draw(t, "carry") {
						carry = append(carry, tx)
					}
				}
			}
			parent := base
			nblocks := int(depth) + 1
			spent := map[ctypes.OutPoint]bool{}
			for i := 0; i < nblocks; i++ {
				var txs []interfaces.Transaction
				if i == 0 {
					for _, tx := range carry {
						ok := true
						for _, in := range tx.Inputs() {
							if _, have := u[in.Previous]; !have || spent[in.Previous] {
								ok = false
							}
						}
						if ok {
							for _, in := range tx.Inputs() {
								spent[in.Previous] = true
							}
							txs = append(txs, wireCopy(tx))
						}
					}
				}
				b, err := m.n.BuildBlock(node.BlockSpec{Parent: parent, Txs: txs, Fees: feesOf(m, txs),
					Salt: 0xF0000 + uint64(len(m.tree)), MinerKey: 1})
				if err != nil {
					t.Fatalf("harness: BuildBlock(fork): %v", err)
				}
				_, ok := m.processBlock(b, fmt.Sprintf("fork(depth %d, block %d/%d, carried %d)", depth, i+1, nblocks, len(txs)))
				if !ok {
					break
				}
				parent = b
				if !m.verdict() {
					return
				}
			}
		},
	}
	// rapid picks actions uniformly: weight by aliasing (submit 5, resubmit 1, mine 3, fork 1, no-op 1)
	for _, alias := range []string{"submit2", "submit3", "submit4", "submit5"} {
		actions[alias] = actions["submit"]
	}
	for _, alias := range []string{"mine2", "mine3"} {
		actions[alias] = actions["mine"]
	}
	for name, f := range actions {
		f := f
		actions[name] = func(t *rapid.T) {
			if m.dead {
				return
			}
			m.t = t
			f(t)
		}
	}
	t.Repeat(actions)
	return m
}

func TestPoolRealAdmission(t *testing.T) {
	rapid.Check(t, func(t *rapid.T) {
		m := runA(t)
		nt := m.rejectedConflict >= 1 && m.removedMultiKey >= 1
		cl := "A/plain"
		switch {
		case m.reorgs > 0 && m.reinserted > 0:
			cl = "A/reorg-with-reinsertion"
		case m.reorgs > 0:
			cl = "A/reorg"
		case m.foreignInBlock > 0 && m.removedAny > 0:
			cl = "A/foreign-block-with-removal"
		case m.removedAny > 0:
			cl = "A/mined-with-removal"
		case m.rejectedConflict > 0:
			cl = "A/conflicts-only"
		}
		if m.limit != 20000000 {
			vk.Class("A/tiny-limit")
			if m.rejectedCapacity > 0 {
				vk.Class("A/capacity-rejection")
			}
		}
		var ts []string
		for k := range m.acceptedByType {
			ts = append(ts, k)
		}
		sort.Strings(ts)
		for _, k := range ts {
			vk.Count("A/accepted/"+k, int64(m.acceptedByType[k]))
		}
		vk.Count("A/rejected-conflict", int64(m.rejectedConflict))
		vk.Count("A/rejected-chain", int64(m.rejectedChain))
		vk.Count("A/rejected-capacity", int64(m.rejectedCapacity))
		vk.Count("A/removed", int64(m.removedAny))
		vk.Count("A/removed-multikey", int64(m.removedMultiKey))
		vk.Count("A/blocks", int64(m.blocks))
		vk.Count("A/blocks-refused", int64(m.blockRejected))
		vk.Count("A/foreign-in-block", int64(m.foreignInBlock))
		vk.Count("A/reorgs", int64(m.reorgs))
		vk.Count("A/reinserted", int64(m.reinserted))
		key, _ := json.Marshal(m.ops)
		vk.Case(cl, nt, key, m.render)
	})
}
