package c34

import (
	"encoding/hex"

	"github.com/elastos/Elastos.ELA/common"
	ctypes "github.com/elastos/Elastos.ELA/core/types/common"
	"github.com/elastos/Elastos.ELA/core/types/interfaces"
	"github.com/elastos/Elastos.ELA/core/types/outputpayload"
	"github.com/elastos/Elastos.ELA/core/types/payload"
)

// Independent derivation of the unique resources a transaction claims, from
// the transaction's contents only (no pool code, no chain lookups).  The kinds
// are the ones the property names; kindSlot maps each kind to the pool slot
// that must index it (rendered keys use the snapshot's "s:/h:/p:" convention).

const (
	kOutpoint      = "outpoint"
	kOwnerKey      = "producer-owner-key"
	kNodeKey       = "producer-node-key"
	kOwnerNodeKeys = "producer-owner-or-node-key"
	kProdNick      = "producer-nickname"
	kCRCID         = "cr-cid"
	kCRNick        = "cr-nickname"
	kDraftHash     = "proposal-draft-hash"
	kProposalHash  = "proposal-withdraw-hash"
	kSideTxHash    = "sidechain-tx-hash"
	kReturnDeposit = "sidechain-return-deposit-hash"
)

var kindSlot = map[string]string{
	kOutpoint:      "TxInputsReferKeys",
	kOwnerKey:      "DPoSOwnerPublicKey",
	kNodeKey:       "DPoSNodePublicKey",
	kOwnerNodeKeys: "DPoSOwnerNodePublicKeys",
	kProdNick:      "DPoSNickname",
	kCRCID:         "CrDID",
	kCRNick:        "CrNickname",
	kDraftHash:     "CRCProposalDraftHash",
	kProposalHash:  "CRCProposalHash",
	kSideTxHash:    "SidechainTxHashes",
	kReturnDeposit: "SidechainReturnDepositTxHashes",
}

var slotKind = func() map[string]string {
	m := map[string]string{}
	for k, s := range kindSlot {
		m[s] = k
	}
	return m
}()

func hx(b []byte) string { return hex.EncodeToString(b) }

// outpointKey is the byte-level identity of an outpoint: txid || index (LE).
func outpointKey(op ctypes.OutPoint) string {
	b := make([]byte, 0, 34)
	b = append(b, op.TxID[:]...)
	b = append(b, byte(op.Index), byte(op.Index>>8))
	return "s:" + hx(b)
}

// crPublicKeyOf returns the identity a RegisterCR transaction claims in the
// producer key namespaces: the public key of a single-signature code, or the
// whole code of a multi-signature one.
func crPublicKeyOf(tx interfaces.Transaction, ci *payload.CRInfo) (string, bool) {
	code := ci.Code
	if tx.PayloadVersion() == payload.CRInfoSchnorrVersion || tx.PayloadVersion() == payload.CRInfoMultiSignVersion {
		if len(tx.Programs()) == 0 {
			return "", false
		}
		code = tx.Programs()[0].Code
	}
	if len(code) < 3 {
		return "", false
	}
	switch code[len(code)-1] {
	case 0xac: // CHECKSIG
		if len(ci.Code) < 3 {
			return "", false
		}
		return "s:" + hx(ci.Code[1:len(ci.Code)-1]), true
	case 0xae: // CHECKMULTISIG
		return "s:" + hx(ci.Code), true
	}
	return "", false
}

// resources returns kind -> rendered keys claimed by tx.
func resources(tx interfaces.Transaction) map[string][]string {
	r := map[string][]string{}
	seen := map[string]bool{}
	for _, in := range tx.Inputs() {
		k := outpointKey(in.Previous)
		if !seen[k] {
			seen[k] = true
			r[kOutpoint] = append(r[kOutpoint], k)
		}
	}
	switch tx.TxType() {
	case ctypes.RegisterProducer, ctypes.UpdateProducer:
		if p, ok := tx.Payload().(*payload.ProducerInfo); ok {
			o, n := "s:"+hx(p.OwnerKey), "s:"+hx(p.NodePublicKey)
			r[kOwnerKey] = []string{o}
			r[kNodeKey] = []string{n}
			r[kOwnerNodeKeys] = []string{o}
			if n != o {
				r[kOwnerNodeKeys] = append(r[kOwnerNodeKeys], n)
			}
			r[kProdNick] = []string{"s:" + p.NickName}
		}
	case ctypes.CancelProducer:
		if p, ok := tx.Payload().(*payload.ProcessProducer); ok {
			r[kOwnerKey] = []string{"s:" + hx(p.OwnerKey)}
		}
	case ctypes.ActivateProducer:
		if p, ok := tx.Payload().(*payload.ActivateProducer); ok {
			r[kNodeKey] = []string{"s:" + hx(p.NodePublicKey)}
		}
	case ctypes.CRCouncilMemberClaimNode:
		if p, ok := tx.Payload().(*payload.CRCouncilMemberClaimNode); ok {
			r[kNodeKey] = []string{"s:" + hx(p.NodePublicKey)}
		}
	case ctypes.RegisterCR:
		if p, ok := tx.Payload().(*payload.CRInfo); ok {
			if pk, ok := crPublicKeyOf(tx, p); ok {
				r[kOwnerKey] = []string{pk}
				r[kNodeKey] = []string{pk}
			}
			r[kCRCID] = []string{"p:" + hx(p.CID[:])}
			r[kCRNick] = []string{"s:" + p.NickName}
		}
	case ctypes.UpdateCR:
		if p, ok := tx.Payload().(*payload.CRInfo); ok {
			r[kCRCID] = []string{"p:" + hx(p.CID[:])}
			r[kCRNick] = []string{"s:" + p.NickName}
		}
	case ctypes.UnregisterCR:
		if p, ok := tx.Payload().(*payload.UnregisterCR); ok {
			r[kCRCID] = []string{"p:" + hx(p.CID[:])}
		}
	case ctypes.CRCProposal:
		if p, ok := tx.Payload().(*payload.CRCProposal); ok {
			r[kDraftHash] = []string{"h:" + hx(p.DraftHash[:])}
		}
	case ctypes.CRCProposalWithdraw:
		if p, ok := tx.Payload().(*payload.CRCProposalWithdraw); ok {
			r[kProposalHash] = []string{"h:" + hx(p.ProposalHash[:])}
		}
	case ctypes.WithdrawFromSideChain:
		var hs []common.Uint256
		if tx.PayloadVersion() == payload.WithdrawFromSideChainVersion {
			if p, ok := tx.Payload().(*payload.WithdrawFromSideChain); ok {
				hs = p.SideChainTransactionHashes
			}
		} else {
			// v1 and v2 carry one side-chain transaction hash per withdraw output
			// (this is what the ledger records as spent)
			for _, o := range tx.Outputs() {
				if o.Type != ctypes.OTWithdrawFromSideChain {
					continue
				}
				if w, ok := o.Payload.(*outputpayload.Withdraw); ok {
					hs = append(hs, w.SideChainTransactionHash)
				}
			}
		}
		s := map[common.Uint256]bool{}
		for _, h := range hs {
			if !s[h] {
				s[h] = true
				r[kSideTxHash] = append(r[kSideTxHash], "h:"+hx(h[:]))
			}
		}
	case ctypes.ReturnSideChainDepositCoin:
		s := map[common.Uint256]bool{}
		for _, o := range tx.Outputs() {
			if o.Type != ctypes.OTReturnSideChainDepositCoin {
				continue
			}
			if w, ok := o.Payload.(*outputpayload.ReturnSideChainDeposit); ok && !s[w.DepositTransactionHash] {
				s[w.DepositTransactionHash] = true
				r[kReturnDeposit] = append(r[kReturnDeposit], "h:"+hx(w.DepositTransactionHash[:]))
			}
		}
	}
	return r
}

// budgetOf is the pending-proposal budget a pooled transaction accounts for.
func budgetOf(tx interfaces.Transaction) common.Fixed64 {
	if tx.TxType() != ctypes.CRCProposal {
		return 0
	}
	p, ok := tx.Payload().(*payload.CRCProposal)
	if !ok {
		return 0
	}
	var s common.Fixed64
	for _, b := range p.Budgets {
		s += b.Amount
	}
	return s
}
