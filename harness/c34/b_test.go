package c34

import (
	"encoding/json"
	"fmt"
	"os"
	"sort"
	"strings"
	"testing"

	"github.com/elastos/Elastos.ELA/common"
	"github.com/elastos/Elastos.ELA/common/config"
	"github.com/elastos/Elastos.ELA/core"
	"github.com/elastos/Elastos.ELA/core/contract/program"
	"github.com/elastos/Elastos.ELA/core/types"
	ctypes "github.com/elastos/Elastos.ELA/core/types/common"
	"github.com/elastos/Elastos.ELA/core/types/functions"
	"github.com/elastos/Elastos.ELA/core/types/interfaces"
	"github.com/elastos/Elastos.ELA/core/types/outputpayload"
	"github.com/elastos/Elastos.ELA/core/types/payload"
	elaerr "github.com/elastos/Elastos.ELA/errors"
	"github.com/elastos/Elastos.ELA/mempool"
	"pgregory.net/rapid"
	"verifharness/lib/vk"
	"verifharness/node"
)

// Machine B: index consistency over EVERY conflict slot.  Transactions of all
// pool-relevant types are built from small value pools (so they collide),
// brought into their wire form and inserted through the hook that is
// appendToTxPool minus the chain checks.  The chain underneath is fixed (one
// per process): 40 spendable outputs and two registered producers.

type worldB struct {
	n      *node.Node
	coins  []node.Coin // fan-out outputs, sorted
	value  map[ctypes.OutPoint]common.Fixed64
	hashes []common.Uint256
	dids   []common.Uint168
}

func newWorldB(t *testing.T) *worldB {
	n, err := node.New(node.Opts{NKeys: 11, Tweak: func(p *config.Configuration) {
		p.VoteStartHeight = 1
		p.CRConfiguration.CRVotingStartHeight = 1
		p.CRConfiguration.CRCommitteeStartHeight = 100000
	}})
	if err != nil {
		t.Fatalf("harness: node.New: %v", err)
	}
	w := &worldB{n: n, value: map[ctypes.OutPoint]common.Fixed64{}}
	process := func(b *types.Block) {
		in, orphan, err := n.Process(b)
		if err != nil || !in || orphan {
			t.Fatalf("harness: world block %d: in=%v orphan=%v err=%v", b.Height, in, orphan, err)
		}
	}
	b1, err := n.BuildBlock(node.BlockSpec{Parent: n.Genesis})
	if err != nil {
		t.Fatalf("harness: %v", err)
	}
	process(b1)
	blocks, _ := n.ActiveChain()
	u, err := node.Replay(blocks, n.KeyIndexOf)
	if err != nil {
		t.Fatalf("harness: %v", err)
	}
	var big node.Coin
	for _, c := range u.Spendable(2, 1) {
		if c.Value > big.Value {
			big = c
		}
	}
	var outs []node.Out
	var sum common.Fixed64
	for i := 0; i < 2; i++ {
		outs = append(outs, node.Out{To: n.Keys[0].ProgramHash, Value: 6000 * ela})
		sum += 6000 * ela
	}
	for i := 0; i < 40; i++ {
		v := common.Fixed64(10+i) * ela
		outs = append(outs, node.Out{To: n.Keys[i%4].ProgramHash, Value: v})
		sum += v
	}
	outs = append(outs, node.Out{To: n.Keys[0].ProgramHash, Value: big.Value - sum - 10000})
	fan, err := n.Transfer([]node.Coin{big}, outs, 2)
	if err != nil {
		t.Fatalf("harness: %v", err)
	}
	b2, err := n.BuildBlock(node.BlockSpec{Parent: b1, Txs: []interfaces.Transaction{fan}, Fees: 10000})
	if err != nil {
		t.Fatalf("harness: %v", err)
	}
	process(b2)
	fh := fan.Hash()
	coin := func(i int) node.Coin {
		o := fan.Outputs()[i]
		return node.Coin{Op: ctypes.OutPoint{TxID: fh, Index: uint16(i)}, Value: o.Value, Owner: o.ProgramHash,
			KeyIdx: n.KeyIndexOf(o.ProgramHash), Height: 2}
	}
	// two registered producers: (owner K4, node K7) and (owner K5, node K8)
	r1, err := registerProducerTx(n, []node.Coin{coin(0)}, n.Keys[4], n.Keys[7], "w1", 5000*ela, 10000, 3)
	if err != nil {
		t.Fatalf("harness: %v", err)
	}
	r2, err := registerProducerTx(n, []node.Coin{coin(1)}, n.Keys[5], n.Keys[8], "w2", 5000*ela, 10000, 3)
	if err != nil {
		t.Fatalf("harness: %v", err)
	}
	b3, err := n.BuildBlock(node.BlockSpec{Parent: b2, Txs: []interfaces.Transaction{r1, r2}, Fees: 20000})
	if err != nil {
		t.Fatalf("harness: %v", err)
	}
	process(b3)
	if len(n.Arbiters.State.GetAllProducers()) != 2 {
		t.Fatalf("harness: world has %d producers", len(n.Arbiters.State.GetAllProducers()))
	}
	for i := 2; i < 42; i++ {
		c := coin(i)
		w.coins = append(w.coins, c)
		w.value[c.Op] = c.Value
	}
	for i := 0; i < 4; i++ {
		var h common.Uint256
		for j := range h {
			h[j] = byte(0xA0 + i)
		}
		w.hashes = append(w.hashes, h)
	}
	for i := 0; i < 3; i++ {
		_, cid, _, _ := crIDs(n.Keys[i+6])
		w.dids = append(w.dids, cid)
	}
	return w
}

type machB struct {
	t     *rapid.T
	w     *worldB
	pool  *mempool.TxPool
	ops   []string
	op    string
	limit uint64
	all   map[common.Uint256]interfaces.Transaction
	built []interfaces.Transaction
	fee   map[common.Uint256]common.Fixed64
	dead  bool

	accepted, rejectedConflict, rejectedOther, rejectedCapacity int
	removedMultiKey, removedAny, blocks, replaced               int
	fullCleanups, fullWithInputless                             int
	slotsHit                                                    map[string]bool
	typesAccepted                                               map[string]int
}

func (m *machB) log(f string, a ...any) { m.ops = append(m.ops, fmt.Sprintf(f, a...)) }
func (m *machB) render() any {
	return map[string]any{"machine": "B", "limit": m.limit, "ops": m.ops}
}
func (m *machB) lookup(h common.Uint256) interfaces.Transaction { return m.all[h] }
func (m *machB) feeOf(tx interfaces.Transaction) common.Fixed64 { return m.fee[tx.Hash()] }

func (m *machB) verdict() bool {
	if m.dead {
		return false
	}
	s := m.pool.VerifSnapshot()
	f, soft := checkPoolSoft(m.pool, s, m.feeOf, m.lookup)
	for _, sf := range soft {
		if !vk.Report(m.t, "C34:"+sf.sig, sf.detail, m.render()) {
			m.dead = true
			return false
		}
	}
	if f != nil {
		m.dead = true
		vk.Report(m.t, "C34:"+f.sig+":"+m.op, f.detail, m.render())
		return false
	}
	for _, sl := range s.Slots {
		if len(sl.Keys) > 0 {
			m.slotsHit[sl.Name] = true
		}
	}
	return true
}

type txSpec struct {
	typ   ctypes.TxType
	pver  byte
	pl    interfaces.Payload
	outs  []*ctypes.Output // extra outputs placed first
	code  []byte           // program[0] code (default: standard script of the first coin's owner)
	noIn  bool             // transaction without inputs (special transactions)
	label string
}

// genSpec draws the type-specific part of a transaction.
func (m *machB) genSpec() txSpec {
	t := m.t
	n := m.w.n
	key := func(label string, lo, hi int) *node.Key { return n.Keys[rapid.IntRange(lo, hi).Draw(t, label)] }
	hash := func(label string) common.Uint256 {
		return m.w.hashes[rapid.IntRange(0, len(m.w.hashes)-1).Draw(t, label)]
	}
	hashSet := func(label string) []common.Uint256 {
		k := rapid.IntRange(1, 3).Draw(t, label+"N")
		seen := map[common.Uint256]bool{}
		var out []common.Uint256
		for i := 0; i < k; i++ {
			h := hash(label)
			if !seen[h] {
				seen[h] = true
				out = append(out, h)
			}
		}
		return out
	}
	did := func(label string) common.Uint168 {
		return m.w.dids[rapid.IntRange(0, len(m.w.dids)-1).Draw(t, label)]
	}
	nick := func() string { return rapid.SampledFrom([]string{"n1", "n2", "n3"}).Draw(t, "nick") }
	sig := []byte{1, 2, 3}
	kind := rapid.SampledFrom([]string{
		"transfer", "transfer", "regProducer", "updProducer", "cancelProducer", "activateProducer",
		"regCR", "updCR", "unregCR", "claimNode",
		"proposal", "proposal", "proposal", "proposalWithdraw", "proposalTracking", "proposalReview",
		"appropriation", "rectify", "realWithdraw", "dposV2RealWithdraw",
		"withdraw", "withdraw", "withdraw", "returnSideDeposit", "sideChainPow", "nftDestroy",
		"returnDeposit", "returnCRDeposit", "exchangeVotes", "voting", "returnVotes", "createNFT", "claimReward",
		"votesRealWithdraw", "revertToDPOS", "proposalResult", "inactiveArbitrators", "nextTurn", "nextTurn",
		"sideChainPowNew", "updateVersion",
	}).Draw(t, "kind")
	sp := txSpec{label: kind}
	switch kind {
	case "transfer":
		sp.typ, sp.pl = ctypes.TransferAsset, &payload.TransferAsset{}
	case "regProducer", "updProducer":
		// owner and node keys from one pool, so that one transaction's owner key
		// can be another's node key (DPoSOwnerNodePublicKeys)
		o, nd := key("owner", 4, 8), key("node", 4, 8)
		sp.typ = ctypes.RegisterProducer
		if kind == "updProducer" {
			sp.typ = ctypes.UpdateProducer
		}
		sp.pl = producerInfo(o, nd, nick(), "u")
		sp.label = fmt.Sprintf("%s(owner K%d node K%d nick %s)", kind, o.Index, nd.Index, sp.pl.(*payload.ProducerInfo).NickName)
	case "cancelProducer":
		o := key("owner", 4, 6) // K4, K5 registered; K6 not (extractor fails)
		sp.typ, sp.pl = ctypes.CancelProducer, &payload.ProcessProducer{OwnerKey: pubBytes(o), Signature: sig}
		sp.label = fmt.Sprintf("cancelProducer(owner K%d)", o.Index)
	case "activateProducer":
		nd := key("node", 4, 8)
		sp.typ, sp.pl = ctypes.ActivateProducer, &payload.ActivateProducer{NodePublicKey: pubBytes(nd), Signature: sig}
		sp.label = fmt.Sprintf("activateProducer(node K%d)", nd.Index)
		sp.noIn = true
	case "regCR", "updCR":
		k := key("cr", 4, 8)
		sp.typ = ctypes.RegisterCR
		if kind == "updCR" {
			sp.typ = ctypes.UpdateCR
		}
		sp.pver = rapid.SampledFrom([]byte{payload.CRInfoVersion, payload.CRInfoDIDVersion}).Draw(t, "crver")
		nk := rapid.SampledFrom([]string{"c1", "c2", "n1"}).Draw(t, "cnick")
		sp.pl = crInfo(k, nk, "u", sp.pver)
		sp.label = fmt.Sprintf("%s(K%d nick %s v%d)", kind, k.Index, nk, sp.pver)
	case "unregCR":
		k := key("cr", 4, 8)
		_, cid, _, _ := crIDs(k)
		sp.typ, sp.pl = ctypes.UnregisterCR, &payload.UnregisterCR{CID: cid, Signature: sig}
		sp.label = fmt.Sprintf("unregCR(K%d)", k.Index)
	case "claimNode":
		nd := key("node", 4, 8)
		sp.typ = ctypes.CRCouncilMemberClaimNode
		sp.pl = &payload.CRCouncilMemberClaimNode{NodePublicKey: pubBytes(nd), CRCouncilCommitteeDID: did("did"), CRCouncilCommitteeSignature: sig}
		sp.label = fmt.Sprintf("claimNode(node K%d)", nd.Index)
	case "proposal":
		pt := rapid.SampledFrom([]payload.CRCProposalType{payload.Normal, payload.Normal, payload.ELIP, payload.SecretaryGeneral,
			payload.ChangeProposalOwner, payload.CloseProposal, payload.RegisterSideChain, payload.ReserveCustomID,
			payload.ReceiveCustomID, payload.ChangeCustomIDFee}).Draw(t, "ptype")
		p := &payload.CRCProposal{ProposalType: pt, OwnerKey: pubBytes(key("powner", 4, 6)), DraftHash: hash("draft"),
			Signature: sig, CRCouncilMemberDID: did("did"), CRCouncilMemberSignature: sig,
			TargetProposalHash: hash("target"), NewOwnerKey: pubBytes(key("newowner", 4, 6)), NewOwnerSignature: sig,
			SecretaryGeneralPublicKey: pubBytes(key("sg", 4, 6)), SecretaryGeneralDID: did("sgdid"), SecretaryGeneraSignature: sig}
		switch pt {
		case payload.Normal, payload.ELIP:
			nb := rapid.IntRange(0, 3).Draw(t, "nbudgets")
			for i := 0; i < nb; i++ {
				p.Budgets = append(p.Budgets, payload.Budget{Type: payload.InstallmentType(i % 3), Stage: byte(i),
					Amount: common.Fixed64(rapid.SampledFrom([]int64{0, 1, 100000000, 7 * 100000000, 1 << 40}).Draw(t, "budget"))})
			}
		case payload.RegisterSideChain:
			p.SideChainInfo = payload.SideChainInfo{SideChainName: rapid.SampledFrom([]string{"sc1", "sc2"}).Draw(t, "scname"),
				MagicNumber: uint32(rapid.SampledFrom([]int{7, 8}).Draw(t, "magic")), GenesisHash: hash("scgenesis"), ExchangeRate: 100000000}
		case payload.ReserveCustomID:
			p.ReservedCustomIDList = []string{"r1"}
		case payload.ReceiveCustomID:
			ids := rapid.SampledFrom([][]string{{"id1"}, {"id2"}, {"id1", "id2"}, {"id3", "id1"}}).Draw(t, "customids")
			p.ReceivedCustomIDList = ids
			p.ReceiverDID = did("receiver")
		case payload.ChangeCustomIDFee:
			p.CustomIDFeeRateInfo = payload.CustomIDFeeRateInfo{RateOfCustomIDFee: 100, EIDEffectiveHeight: 10}
		}
		sp.typ, sp.pl = ctypes.CRCProposal, p
		sp.pver = rapid.SampledFrom([]byte{payload.CRCProposalVersion, payload.CRCProposalVersion01}).Draw(t, "pver")
		sp.label = fmt.Sprintf("proposal(type %#x v%d)", uint16(pt), sp.pver)
	case "proposalWithdraw":
		sp.typ = ctypes.CRCProposalWithdraw
		sp.pl = &payload.CRCProposalWithdraw{ProposalHash: hash("phash"), OwnerKey: pubBytes(key("powner", 4, 6)), Signature: sig}
	case "proposalTracking":
		sp.typ = ctypes.CRCProposalTracking
		sp.pl = &payload.CRCProposalTracking{ProposalHash: hash("phash"), OwnerKey: pubBytes(key("powner", 4, 6)),
			OwnerSignature: sig, SecretaryGeneralOpinionHash: hash("op"), SecretaryGeneralSignature: sig}
	case "proposalReview":
		sp.typ = ctypes.CRCProposalReview
		sp.pl = &payload.CRCProposalReview{ProposalHash: hash("phash"), DID: did("did"), Signature: sig}
	case "appropriation":
		sp.typ, sp.pl = ctypes.CRCAppropriation, &payload.CRCAppropriation{}
	case "rectify":
		sp.typ, sp.pl = ctypes.CRAssetsRectify, &payload.CRAssetsRectify{}
	case "realWithdraw":
		sp.typ, sp.pl = ctypes.CRCProposalRealWithdraw, &payload.CRCProposalRealWithdraw{WithdrawTransactionHashes: hashSet("rw")}
	case "dposV2RealWithdraw":
		sp.typ, sp.pl = ctypes.DposV2ClaimRewardRealWithdraw, &payload.DposV2ClaimRewardRealWithdraw{WithdrawTransactionHashes: hashSet("rw")}
	case "withdraw":
		sp.typ = ctypes.WithdrawFromSideChain
		sp.pver = rapid.SampledFrom([]byte{payload.WithdrawFromSideChainVersion, payload.WithdrawFromSideChainVersionV1,
			payload.WithdrawFromSideChainVersionV2}).Draw(t, "wver")
		hs := hashSet("side")
		if sp.pver == payload.WithdrawFromSideChainVersion {
			sp.pl = &payload.WithdrawFromSideChain{BlockHeight: 1, GenesisBlockAddress: "g", SideChainTransactionHashes: hs}
		} else {
			sp.pl = &payload.WithdrawFromSideChain{Signers: []uint8{0, 1}}
			for _, h := range hs {
				sp.outs = append(sp.outs, &ctypes.Output{Value: 1000, ProgramHash: n.Keys[1].ProgramHash, Type: ctypes.OTWithdrawFromSideChain,
					Payload: &outputpayload.Withdraw{Version: 0, GenesisBlockAddress: "g", SideChainTransactionHash: h, TargetData: []byte{}}})
			}
		}
		sp.label = fmt.Sprintf("withdraw(v%d, %d hashes)", sp.pver, len(hs))
	case "returnSideDeposit":
		sp.typ, sp.pl = ctypes.ReturnSideChainDepositCoin, &payload.ReturnSideChainDepositCoin{}
		for _, h := range hashSet("dep") {
			sp.outs = append(sp.outs, &ctypes.Output{Value: 1000, ProgramHash: n.Keys[1].ProgramHash, Type: ctypes.OTReturnSideChainDepositCoin,
				Payload: &outputpayload.ReturnSideChainDeposit{Version: 0, GenesisBlockAddress: "g", DepositTransactionHash: h}})
		}
	case "sideChainPow":
		sp.typ = ctypes.SideChainPow
		sp.pl = &payload.SideChainPow{SideBlockHash: hash("sblock"), SideGenesisHash: hash("sgenesis"), BlockHeight: 5, Signature: sig}
	case "sideChainPowNew":
		// the input-less form (IsNewSideChainPowTx): removed by hash in cleanTransactions
		sp.typ = ctypes.SideChainPow
		sp.pl = &payload.SideChainPow{SideBlockHash: hash("sblock"), SideGenesisHash: hash("sgenesis"), BlockHeight: 5, Signature: sig}
		sp.noIn = true
	case "updateVersion":
		sp.typ = ctypes.UpdateVersion
		sp.pl = &payload.UpdateVersion{StartHeight: uint32(rapid.IntRange(1, 3).Draw(t, "uvs")), EndHeight: 10}
		sp.noIn = true
	case "nftDestroy":
		ids := hashSet("nft")
		var addrs []common.Uint168
		for range ids {
			addrs = append(addrs, did("stake"))
		}
		sp.typ, sp.pl = ctypes.NFTDestroyFromSideChain, &payload.NFTDestroyFromSideChain{IDs: ids, OwnerStakeAddresses: addrs, GenesisBlockHash: hash("g")}
	case "returnDeposit":
		sp.typ, sp.pl = ctypes.ReturnDepositCoin, &payload.ReturnDepositCoin{}
		sp.code = key("code", 4, 6).RedeemScript
	case "returnCRDeposit":
		sp.typ, sp.pl = ctypes.ReturnCRDepositCoin, &payload.ReturnDepositCoin{}
		sp.code = key("code", 4, 6).RedeemScript
	case "exchangeVotes":
		sp.typ, sp.pl = ctypes.ExchangeVotes, &payload.ExchangeVotes{}
		sp.outs = []*ctypes.Output{{Value: 1000, ProgramHash: n.Keys[1].ProgramHash, Type: ctypes.OTStake,
			Payload: &outputpayload.ExchangeVotesOutput{Version: 0, StakeAddress: stakeAddrOf(key("stake", 4, 6))}}}
	case "voting":
		sp.typ = ctypes.Voting
		sp.pl = &payload.Voting{Contents: []payload.VotesContent{{VoteType: outputpayload.Delegate,
			VotesInfo: []payload.VotesWithLockTime{{Candidate: pubBytes(n.Keys[4]), Votes: 100, LockTime: 0}}}}}
		sp.code = key("stake", 4, 6).RedeemScript
	case "returnVotes":
		sp.typ = ctypes.ReturnVotes
		sp.pver = rapid.SampledFrom([]byte{payload.ReturnVotesVersionV0, payload.ReturnVotesSchnorrVersion}).Draw(t, "rvver")
		k := key("stake", 4, 6)
		sp.pl = &payload.ReturnVotes{ToAddr: n.Keys[1].ProgramHash, Code: k.RedeemScript, Value: 100, Signature: sig}
		if sp.pver != payload.ReturnVotesVersionV0 {
			sp.code = key("stake2", 4, 6).RedeemScript
		}
	case "createNFT":
		sp.typ = ctypes.CreateNFT
		sp.pl = &payload.CreateNFT{ReferKey: hash("nftref"), StakeAddress: rapid.SampledFrom([]string{"sa1", "sa2"}).Draw(t, "sa"),
			GenesisBlockHash: hash("g")}
		sp.code = key("stake", 4, 6).RedeemScript
	case "claimReward":
		sp.typ = ctypes.DposV2ClaimReward
		sp.pver = rapid.SampledFrom([]byte{payload.DposV2ClaimRewardVersionV0, payload.DposV2ClaimRewardVersionV1}).Draw(t, "crver")
		k := key("stake", 4, 6)
		sp.pl = &payload.DPoSV2ClaimReward{ToAddr: n.Keys[1].ProgramHash, Code: k.RedeemScript, Value: 100, Signature: sig}
		if sp.pver != payload.DposV2ClaimRewardVersionV0 {
			sp.code = key("stake2", 4, 6).RedeemScript
		}
	case "votesRealWithdraw":
		sp.typ = ctypes.VotesRealWithdraw
		sp.pl = &payload.VotesRealWithdrawPayload{VotesRealWithdraw: []payload.VotesRealWidhdraw{{ReturnVotesTXHash: hash("rv"),
			StakeAddress: did("stake"), Value: 100}}}
	case "revertToDPOS":
		sp.typ, sp.pl = ctypes.RevertToDPOS, &payload.RevertToDPOS{WorkHeightInterval: uint32(rapid.IntRange(1, 2).Draw(t, "whi")), RevertToPOWBlockHeight: 3}
		sp.noIn = true
	case "proposalResult":
		sp.typ = ctypes.ProposalResult
		sp.pl = &payload.RecordProposalResult{ProposalResults: []payload.ProposalResult{{ProposalHash: hash("phash"), ProposalType: payload.ReserveCustomID, Result: true}}}
		sp.noIn = true
	case "inactiveArbitrators":
		sp.typ = ctypes.InactiveArbitrators
		sp.pl = &payload.InactiveArbitrators{Sponsor: pubBytes(key("sponsor", 4, 5)), Arbitrators: [][]byte{pubBytes(key("arb", 4, 5))},
			BlockHeight: uint32(rapid.IntRange(1, 2).Draw(t, "bh"))}
		sp.noIn = true
	case "nextTurn":
		sp.typ = ctypes.NextTurnDPOSInfo
		sp.pl = &payload.NextTurnDPOSInfo{WorkingHeight: uint32(rapid.IntRange(1, 2).Draw(t, "wh")), CRPublicKeys: [][]byte{pubBytes(n.Keys[4])},
			DPOSPublicKeys: [][]byte{pubBytes(n.Keys[5])}}
		sp.noIn = true
	}
	return sp
}

// copyOf is the separately deserialized copy of a pooled transaction a block
// from the network carries; block validation leaves the same fee in it.
func (m *machB) copyOf(tx interfaces.Transaction) interfaces.Transaction {
	c := wireCopy(tx)
	c.SetFee(m.fee[tx.Hash()])
	return c
}

func stakeAddrOf(k *node.Key) common.Uint168 {
	// any fixed function of the key will do for the ExchangeVotes slot
	_, cid, _, _ := crIDs(k)
	return cid
}

// build turns a spec into a wire-form transaction with 1-3 inputs (or none) and a drawn fee.
func (m *machB) build(sp txSpec) interfaces.Transaction {
	t := m.t
	var coins []node.Coin
	if !sp.noIn {
		k := rapid.IntRange(1, 3).Draw(t, "nin")
		seen := map[int]bool{}
		for i := 0; i < k; i++ {
			j := rapid.IntRange(0, len(m.w.coins)-1).Draw(t, "coin")
			if !seen[j] {
				seen[j] = true
				coins = append(coins, m.w.coins[j])
			}
		}
	}
	fee := common.Fixed64(0)
	outs := append([]*ctypes.Output{}, sp.outs...)
	for _, o := range outs {
		o.AssetID = core.ELAAssetID
	}
	if len(coins) > 0 {
		fee = common.Fixed64(rapid.SampledFrom([]int64{100, 100, 1000, 4242, 10000, 250000}).Draw(t, "fee"))
		var extra common.Fixed64
		for _, o := range outs {
			extra += o.Value
		}
		outs = append(outs, stdOutput(m.w.n.Keys[1].ProgramHash, sumCoins(coins)-extra-fee))
	} else if len(outs) == 0 {
		outs = nil
	}
	code := sp.code
	if code == nil {
		code = m.w.n.Keys[0].RedeemScript
		if len(coins) > 0 {
			code = m.w.n.Keys[coins[0].KeyIdx].RedeemScript
		}
	}
	ver := ctypes.TxVersion09
	if byte(sp.typ) < byte(ctypes.TxVersion09) && rapid.Bool().Draw(t, "oldTxVersion") && plainOutputs(outs) {
		ver = ctypes.TxVersionDefault
	}
	tx := functions.CreateTransaction(ver, sp.typ, sp.pver, sp.pl, []*ctypes.Attribute{}, inputsOf(coins), outs, 0,
		[]*program.Program{{Code: code, Parameter: []byte{0x40, 1, 2, 3}}})
	c := wireCopy(tx)
	c.SetFee(fee) // what CheckTransactionFee leaves in the object on the real admission path
	h := c.Hash()
	if _, ok := m.all[h]; !ok {
		m.all[h] = c
		m.fee[h] = fee
		m.built = append(m.built, c)
	}
	return c
}

func plainOutputs(outs []*ctypes.Output) bool {
	for _, o := range outs {
		if o.Type != ctypes.OTNone {
			return false
		}
	}
	return true
}

func runB(t *rapid.T, w *worldB) *machB {
	m := &machB{t: t, w: w, all: map[common.Uint256]interfaces.Transaction{}, fee: map[common.Uint256]common.Fixed64{},
		slotsHit: map[string]bool{}, typesAccepted: map[string]int{}}
	w.n.Ckp.Unregister("cp_txPool")
	m.pool = mempool.NewTxPool(w.n.Params, w.n.Ckp)
	w.n.Pool = m.pool
	m.limit = rapid.SampledFrom([]uint64{20000000, 20000000, 6000, 2500, 900}).Draw(t, "limit")
	if m.limit != 20000000 {
		m.pool.VerifSetMaxSize(m.limit)
	}

	insert := func(tx interfaces.Transaction, what string) {
		pre := m.pool.VerifSnapshot()
		_, already := pre.TxList[tx.Hash()]
		conflict, _ := conflictsWithPool(m.pool, pre, tx)
		err := m.pool.VerifInsertUnchecked(tx)
		post := m.pool.VerifSnapshot()
		if err == nil {
			m.accepted++
			m.typesAccepted[typeTag(tx)]++
			m.log("%s -> accepted %s fee %d", what, txDesc(tx), m.fee[tx.Hash()])
		} else {
			m.log("%s -> rejected (%v) %s", what, err, txDesc(tx))
			switch {
			case err.Code() == elaerr.ErrTxPoolOverCapacity:
				m.rejectedCapacity++
			case err.Code() == elaerr.ErrTxPoolFailure && strings.Contains(err.Error(), "verify tx error"):
				dup := false
				if se, ok := err.InnerError().(elaerr.ELAError); ok && se.Code() == elaerr.ErrTxPoolTxDuplicate {
					dup = true
				}
				if dup && !conflict && !already {
					slot := slotOfMessage(err.Error())
					m.dead = true
					vk.Report(m.t, "C34:admission:spurious-conflict:"+slot+":"+m.op,
						fmt.Sprintf("%s rejected by slot %s although no pooled transaction claims any of its keys", txDesc(tx), slot), m.render())
					return
				}
				m.rejectedConflict++
			default:
				m.rejectedOther++
			}
		}
		// side effects of an insert on other pooled transactions (side-chain pow
		// replacement, appropriation vs rectify)
		for h, o := range pre.TxList {
			if _, ok := post.TxList[h]; !ok {
				m.replaced++
				m.removedAny++
				if len(flatKeys(m.pool, o)) >= 2 {
					m.removedMultiKey++
				}
			}
		}
	}

	actions := map[string]func(*rapid.T){
		"": func(t *rapid.T) {},
		"insert": func(t *rapid.T) {
			m.op = "insert"
			sp := m.genSpec()
			tx := m.build(sp)
			insert(tx, "insert "+sp.label)
			m.verdict()
		},
		"reinsert": func(t *rapid.T) {
			m.op = "reinsert"
			if len(m.built) == 0 {
				return
			}
			tx := m.built[rapid.IntRange(0, len(m.built)-1).Draw(t, "which")]
			insert(tx, "reinsert")
			m.verdict()
		},
		"remove": func(t *rapid.T) {
			m.op = "remove"
			pooled := sortedPoolOf(m.pool)
			if len(pooled) == 0 {
				return
			}
			tx := pooled[rapid.IntRange(0, len(pooled)-1).Draw(t, "which")]
			nk := len(flatKeys(m.pool, tx))
			how := "pool-object"
			// C34_NO_REMOVE_COPY=1 (sensitivity runs only) leaves the block paths as the
			// only ones that hand the pool a separately deserialized object
			if rapid.Bool().Draw(t, "wireCopy") && os.Getenv("C34_NO_REMOVE_COPY") == "" {
				tx, how = m.copyOf(tx), "wire-copy"
			}
			m.op = "remove/" + how
			m.pool.VerifRemovePooled(tx)
			m.removedAny++
			if nk >= 2 {
				m.removedMultiKey++
			}
			m.log("remove %s (%d keys)", txDesc(tx), nk)
			m.verdict()
		},
		"removeSpenders": func(t *rapid.T) {
			// TxPool.RemoveTransaction(tx): drop pooled transactions spending outputs of tx
			m.op = "removeSpenders"
			fan, err := m.w.n.Chain.UTXOCache.GetTransaction(m.w.coins[0].Op.TxID)
			if err != nil {
				t.Fatalf("harness: fan-out tx not found: %v", err)
			}
			before := m.pool.VerifSnapshot().TxList
			m.pool.RemoveTransaction(fan)
			after := m.pool.VerifSnapshot().TxList
			for h, o := range before {
				if _, ok := after[h]; !ok {
					m.removedAny++
					if len(flatKeys(m.pool, o)) >= 2 {
						m.removedMultiKey++
					}
				}
			}
			m.log("RemoveTransaction(fan-out): %d -> %d pooled", len(before), len(after))
			m.verdict()
		},
		"minedOwn": func(t *rapid.T) {
			// a block assembled from pooled transactions only (the local miner's block)
			m.op = "block"
			var txs []interfaces.Transaction
			copies := 0
			for _, tx := range sortedPoolOf(m.pool) {
				// Input-less special transactions leave the pool only through the
				// follow-up CheckAndCleanAllTransactions (their hash is then in the
				// ledger); that second half of the node's cleanup needs chain-valid
				// transactions and is exercised in machine A, so they stay out here.
				if len(tx.Inputs()) == 0 && !(tx.IsNewSideChainPowTx() || tx.IsUpdateVersion() || tx.IsNextTurnDPOSInfoTx()) {
					continue
				}
				if rapid.IntRange(0, 9).Draw(t, "include") < 5 {
					// the local miner packs the pooled objects; a block from the network
					// carries separately deserialized copies
					if rapid.Bool().Draw(t, "wireCopy") {
						tx = m.copyOf(tx)
						copies++
					}
					txs = append(txs, tx)
				}
			}
			cb := m.w.n.NewCoinbase(99, 0, uint64(len(m.ops)))
			b := &types.Block{Header: ctypes.Header{Height: 99}, Transactions: append([]interfaces.Transaction{cb}, txs...)}
			before := m.pool.VerifSnapshot().TxList
			m.pool.CleanSubmittedTransactions(b)
			after := m.pool.VerifSnapshot().TxList
			for h, o := range before {
				if _, ok := after[h]; !ok {
					m.removedAny++
					if len(flatKeys(m.pool, o)) >= 2 {
						m.removedMultiKey++
					}
				}
			}
			m.blocks++
			m.log("CleanSubmittedTransactions(%d pooled txs, %d as wire copies): %d -> %d pooled", len(txs), copies, len(before), len(after))
			m.verdict()
		},
		"minedFull": func(t *rapid.T) {
			// The node's whole post-block sequence (netsync): CleanSubmittedTransactions(block)
			// then CheckAndCleanAllTransactions, judged only after both.  The block carries
			// any pooled transactions, input-less special ones included, as wire copies or
			// as the pooled objects.  B's transactions are not chain-valid, so the second
			// step removes (nearly) everything that is left: what must hold afterwards is
			// that nothing of the removed transactions stays behind in any index.
			m.op = "block+recheck"
			var txs []interfaces.Transaction
			copies, inputless := 0, 0
			for _, tx := range sortedPoolOf(m.pool) {
				if rapid.IntRange(0, 9).Draw(t, "include") < 6 {
					if len(tx.Inputs()) == 0 {
						inputless++
					}
					if rapid.IntRange(0, 3).Draw(t, "wireCopy") != 0 {
						tx = m.copyOf(tx)
						copies++
					}
					txs = append(txs, tx)
				}
			}
			cb := m.w.n.NewCoinbase(99, 0, uint64(len(m.ops)))
			b := &types.Block{Header: ctypes.Header{Height: 99}, Transactions: append([]interfaces.Transaction{cb}, txs...)}
			before := m.pool.VerifSnapshot().TxList
			m.pool.CleanSubmittedTransactions(b)
			mid := len(m.pool.VerifSnapshot().TxList)
			panicked, val, frame := vk.Catch(func() { m.pool.CheckAndCleanAllTransactions() })
			if panicked {
				// a chain checker panicking on a transaction that never passed admission is
				// C03's subject; the pool mutex stays locked, so this case ends here
				m.dead = true
				vk.Count("B/recheck-panicked/"+frame, 1)
				m.log("CheckAndCleanAllTransactions panicked in %s: %v", frame, val)
				return
			}
			after := m.pool.VerifSnapshot().TxList
			for h, o := range before {
				if _, ok := after[h]; !ok {
					m.removedAny++
					if len(flatKeys(m.pool, o)) >= 2 {
						m.removedMultiKey++
					}
				}
			}
			m.blocks++
			m.fullCleanups++
			if inputless > 0 {
				m.fullWithInputless++
			}
			m.log("CleanSubmittedTransactions(%d pooled txs, %d input-less, %d as wire copies) + CheckAndCleanAllTransactions: %d -> %d -> %d pooled",
				len(txs), inputless, copies, len(before), mid, len(after))
			m.verdict()
		},
	}
	for _, alias := range []string{"insert2", "insert3", "insert4", "insert5", "insert6"} {
		actions[alias] = actions["insert"]
	}
	actions["remove2"] = actions["remove"]
	for name, f := range actions {
		f := f
		actions[name] = func(t *rapid.T) {
			if m.dead {
				return
			}
			m.t = t
			f(t)
		}
	}
	t.Repeat(actions)
	return m
}

func sortedPoolOf(p *mempool.TxPool) []interfaces.Transaction {
	s := p.VerifSnapshot()
	var out []interfaces.Transaction
	for _, h := range sortedHashes(s.TxList) {
		out = append(out, s.TxList[h])
	}
	return out
}

func flatKeys(p *mempool.TxPool, tx interfaces.Transaction) []string {
	keys, _ := p.VerifTxKeys(tx)
	var out []string
	for s, ks := range keys {
		for _, k := range ks {
			out = append(out, s+"|"+k)
		}
	}
	return out
}

func TestPoolIndexAllSlots(t *testing.T) {
	w := newWorldB(t)
	defer w.n.Close()
	slots := map[string]int{}
	rapid.Check(t, func(t *rapid.T) {
		m := runB(t, w)
		nt := m.rejectedConflict >= 1 && m.removedMultiKey >= 1
		cl := "B/plain"
		switch {
		case m.rejectedConflict > 0 && m.removedMultiKey > 0 && m.blocks > 0:
			cl = "B/conflict+removal+block"
		case m.rejectedConflict > 0 && m.removedMultiKey > 0:
			cl = "B/conflict+removal"
		case m.rejectedConflict > 0:
			cl = "B/conflict-only"
		case m.removedAny > 0:
			cl = "B/removal-only"
		}
		if m.limit != 20000000 {
			vk.Class("B/tiny-limit")
			if m.rejectedCapacity > 0 {
				vk.Class("B/capacity-rejection")
			}
		}
		if m.replaced > 0 {
			vk.Class("B/insert-evicted-another")
		}
		if m.fullCleanups > 0 {
			vk.Class("B/full-post-block-sequence")
		}
		if m.fullWithInputless > 0 {
			vk.Class("B/full-post-block-sequence-with-input-less-special-tx")
		}
		for s := range m.slotsHit {
			slots[s]++
		}
		var ts []string
		for k := range m.typesAccepted {
			ts = append(ts, k)
		}
		sort.Strings(ts)
		for _, k := range ts {
			vk.Count("B/accepted/"+k, int64(m.typesAccepted[k]))
		}
		vk.Count("B/rejected-conflict", int64(m.rejectedConflict))
		vk.Count("B/rejected-capacity", int64(m.rejectedCapacity))
		vk.Count("B/rejected-other", int64(m.rejectedOther))
		vk.Count("B/removed", int64(m.removedAny))
		vk.Count("B/removed-multikey", int64(m.removedMultiKey))
		key, _ := json.Marshal(m.ops)
		vk.Case(cl, nt, key, m.render)
	})
	names := w.n.Pool.VerifSlotNames()
	for _, s := range names {
		vk.Count("B/slot-nonempty-cases/"+s, int64(slots[s]))
	}
}
