// C12 - the node follows the most-work valid chain; a failed switch to an
// invalid heavier branch leaves it on its previous valid chain.
//
// Generator: machine.go (block trees on the mini-node).  Oracle: after every
// ProcessBlock call the node's reported tip is compared with the block-tree
// model (validity by construction, work by the model's own arithmetic).
package c12

import (
	"encoding/json"
	"fmt"
	"math/big"
	"strings"
	"testing"

	"github.com/elastos/Elastos.ELA/dpos/state"
	"pgregory.net/rapid"
	"verifharness/lib/vk"
	"verifharness/node"
)

func TestMain(m *testing.M) { vk.Main(m, "C12") }

// Signatures of findings this oracle can tell apart.
const (
	sigNoReattach = "C12:reorganizeChain:attach-failed:old-chain-not-reattached"
	sigStranded   = "C12:ProcessOrphans:valid-orphan-left-in-pool-after-parent-accepted"
)

type oracle struct {
	degraded bool // a known finding broke the induction "tip is the global best"; re-armed when it holds again
	hits     map[string]int
}

// Excused reports whether the node may refuse to switch from tip `from` to
// branch tip `to` because of irreversibility (only live in compressed profiles).
// The statement's excuse is "switching would detach a block at or below the
// last irreversible height"; the node's guard (State.IsIrreversible) is
// conservative by one (a fork AT that height is refused as well) and also
// caps the reorganisation depth (IrreversibleHeight = 6) in DPOS mode / before
// RevertToPOWStartHeight.  Returned: must (the statement forbids the switch),
// may (the node's documented rule forbids it; either behaviour is accepted).
func Excused(m *Machine, from, to *Blk, lih uint32, pow bool) (must, may bool) {
	p := m.N.Params
	if from.Height <= p.CRCOnlyDPOSHeight {
		return false, false
	}
	fp := ForkPoint(from, to)
	depth := int(from.Height - fp.Height)
	if depth == 0 {
		return false, false
	}
	if lih != 0 && fp.Height < lih {
		must = true
	}
	if fp.Height <= lih {
		may = true
	}
	if from.Height >= p.DPoSConfiguration.RevertToPOWStartHeight {
		if !pow && depth >= state.IrreversibleHeight {
			may = true
		}
	} else if depth > state.IrreversibleHeight {
		may = true
	}
	return must, must || may
}

func (o *oracle) report(m *Machine, s *Step, sig, detail string) bool {
	m.T.Logf("%s: %s", sig, detail)
	known := vk.Report(m.T, sig, detail+fmt.Sprintf(" [step %d: %s %v]", m.Steps, s.Op, s.Blk), m.Render())
	if known {
		o.hits[sig]++
		o.degraded = true
	}
	return known
}

// onStep judges one ProcessBlock call.
func (o *oracle) onStep(m *Machine, s *Step) bool {
	if s.Panic != "" {
		vk.Report(m.T, "C12:ProcessBlock:panic:"+frameOf(s.Panic), s.Panic, m.Render())
		return false
	}
	// (1) the tip is a block we built, delivered with all its ancestors
	if s.After == nil {
		vk.Report(m.T, "C12:tip:unknown-block", fmt.Sprintf("tip %s height %d is not a block of the tree", s.AfterHash.String(), s.AfterHeight), m.Render())
		return false
	}
	after, before := s.After, s.Before
	for x := after; x != nil; x = x.Parent {
		if !x.Delivered || !x.Sane {
			vk.Report(m.T, "C12:tip:chain-contains-undelivered-or-malformed-block", fmt.Sprintf("tip %v: block %v kind=%s delivered=%v", after, x, x.Kind, x.Delivered), m.Render())
			return false
		}
	}
	// (2) the height index and the stored blocks agree with the tip's ancestry
	if m.N.Chain.GetHeight() != after.Height {
		vk.Report(m.T, "C12:active-chain:height", fmt.Sprintf("GetHeight()=%d tip height %d", m.N.Chain.GetHeight(), after.Height), m.Render())
		return false
	}
	for _, x := range after.Path() {
		h, err := m.N.Chain.GetBlockHash(x.Height)
		if err != nil || h != x.Hash {
			vk.Report(m.T, "C12:active-chain:GetBlockHash-differs-from-tip-ancestry", fmt.Sprintf("height %d: %s (err %v) want %v", x.Height, h.String(), err, x), m.Render())
			return false
		}
	}
	if blk, err := m.N.Chain.GetBlockByHash(after.Hash); err != nil || blk.Hash() != after.Hash {
		vk.Report(m.T, "C12:active-chain:tip-block-not-readable", fmt.Sprint(err), m.Render())
		return false
	}
	// (3) the active chain is valid
	if !after.ChainOK {
		var bad *Blk
		for _, x := range after.Path() {
			if !x.Valid {
				bad = x
				break
			}
		}
		vk.Report(m.T, "C12:tip:active-chain-contains-invalid-block:"+bad.Kind, fmt.Sprintf("tip %v contains %v (%s)", after, bad, bad.Kind), m.Render())
		return false
	}

	// (4) incremental clause: chains that became known in this step
	var cand *Blk // heaviest valid newly known chain heavier than the old tip, switch not excused
	var candMay bool
	var invalidHeavier *Blk // newly known block on an invalid chain heavier than the old tip
	for _, x := range s.NewlyAccepted {
		if x.Work.Cmp(before.Work) <= 0 {
			if x.ChainOK && x.Work.Cmp(before.Work) == 0 && !x.IsAncestorOf(before) {
				m.SawEqualFork = true
			}
			continue
		}
		if !x.ChainOK {
			if invalidHeavier == nil || x.Work.Cmp(invalidHeavier.Work) > 0 {
				invalidHeavier = x
			}
			continue
		}
		must, may := Excused(m, before, x, s.LIHBefore, s.PowBefore)
		if len(s.NewlyAccepted) > 1 && !may {
			// several blocks were accepted by this call: height, mode and irreversible height moved in between
			lih := s.LIHAfter
			if s.LIHBefore > lih {
				lih = s.LIHBefore
			}
			for _, from := range []*Blk{before, after} {
				for _, pow := range []bool{s.PowBefore, s.PowAfter} {
					if _, my := Excused(m, from, x, lih, pow); my {
						may = true
					}
				}
			}
		}
		if must {
			vk.Count("heavier-chain-behind-irreversible-height", 1)
			continue
		}
		if cand == nil || x.Work.Cmp(cand.Work) > 0 {
			cand, candMay = x, may
		}
	}
	if invalidHeavier != nil && !before.IsAncestorOf(invalidHeavier) {
		m.SawInvalidReorg = true
	}
	if cand != nil && !before.IsAncestorOf(cand) {
		m.SawReorg = true
	}

	moved := after != before
	switch {
	case cand == nil && moved:
		// nothing heavier and valid became known, yet the tip changed
		if x := failedAttachBelow(m, after, before); x != nil {
			if !o.report(m, s, sigNoReattach, fmt.Sprintf("tip was %v (h%d); a heavier branch through invalid block %v (%s) was tried; node now on %v (h%d), old chain abandoned",
				before, before.Height, x, x.Kind, after, after.Height)) {
				return false
			}
		} else if !after.IsAncestorOf(before) && after.Work.Cmp(before.Work) > 0 && o.degraded {
			// recovering from an earlier known finding: an older, heavier, valid chain was re-evaluated
			vk.Count("recovered-after-known-finding", 1)
		} else {
			vk.Report(m.T, "C12:tip-changed-without-heavier-valid-chain:"+s.Op, fmt.Sprintf("tip %v (work %v) -> %v (work %v), nothing heavier and valid became known", before, before.Work, after, after.Work), m.Render())
			return false
		}
	case cand != nil && after.Work.Cmp(cand.Work) < 0:
		if candMay {
			vk.Count("switch-refused-by-depth-rule-or-fork-at-irreversible-height", 1)
			if moved && after.Work.Cmp(before.Work) <= 0 {
				vk.Report(m.T, "C12:tip-changed-without-heavier-valid-chain:"+s.Op, fmt.Sprintf("tip %v -> %v", before, after), m.Render())
				return false
			}
			break
		}
		// a heavier valid chain became known and the node is not on something at least as heavy
		if st := strandedOrphan(m, cand); st != nil {
			if !o.report(m, s, sigStranded, fmt.Sprintf("valid block %v (parent %v known) is still in the orphan pool after its parent was accepted; heavier valid chain %v ignored, tip %v", st, st.Parent, cand, after)) {
				return false
			}
			m.Strand(st)
		} else if x := failedAttachBelow(m, after, before); x != nil && moved {
			if !o.report(m, s, sigNoReattach, fmt.Sprintf("tip was %v; heavier branch through invalid %v (%s) tried; node now on %v", before, x, x.Kind, after)) {
				return false
			}
		} else {
			vk.Report(m.T, "C12:heavier-valid-chain-ignored:"+s.Op, fmt.Sprintf("chain %v (work %v) became known, tip %v (work %v)", cand, cand.Work, after, after.Work), m.Render())
			return false
		}
	}

	// (5) global clause: no known valid chain is strictly heavier than the tip
	best := m.BestKnownValid()
	if best.Work.Cmp(after.Work) > 0 {
		if must, may := Excused(m, after, best, s.LIHAfter, s.PowAfter); must || may {
			vk.Count("global-best-behind-irreversible-height", 1)
		} else if !o.degraded {
			// distinguish stranded orphans (can show up one step late: the failing sibling came first)
			if st := strandedOrphan(m, best); st != nil {
				if !o.report(m, s, sigStranded, fmt.Sprintf("valid block %v is stuck in the orphan pool; chain %v heavier than tip %v", st, best, after)) {
					return false
				}
				m.Strand(st)
			} else {
				vk.Report(m.T, "C12:global:known-valid-chain-heavier-than-tip", fmt.Sprintf("chain %v (work %v) vs tip %v (work %v)", best, best.Work, after, after.Work), m.Render())
				return false
			}
		}
	} else if o.degraded {
		o.degraded = false
		vk.Count("rearmed-global-clause", 1)
	}

	// (6) a valid block whose parent is known is never refused
	if b := s.Blk; !s.Duplicate && b.ChainOK && b.Accepted && len(s.NewlyAccepted) == 1 && (s.Err != nil || s.Orphan) {
		vk.Report(m.T, "C12:ProcessBlock:valid-block-with-known-parent-refused", fmt.Sprintf("%v: orphan=%v err=%v", b, s.Orphan, s.Err), m.Render())
		return false
	}
	return true
}

// failedAttachBelow recognises the outcome of reorganizeChain giving up in the
// middle: the node sits on `after`, whose chain is valid, directly below a
// delivered sane-but-invalid block X that leads to a delivered block heavier
// than the tip the node had before.  Returns X.
func failedAttachBelow(m *Machine, after, before *Blk) *Blk {
	for _, x := range after.Children {
		if !x.Delivered || !x.Sane || x.Valid || x.IsAncestorOf(before) {
			continue
		}
		if heaviestDelivered(x).Cmp(before.Work) > 0 {
			return x
		}
	}
	return nil
}

func heaviestDelivered(x *Blk) *big.Int {
	w := x.Work
	for _, c := range x.Children {
		if c.Delivered {
			if cw := heaviestDelivered(c); cw.Cmp(w) > 0 {
				w = cw
			}
		}
	}
	return w
}

// strandedOrphan finds, on the path to target, a block the node still keeps in
// its orphan pool although the node has its parent.
func strandedOrphan(m *Machine, target *Blk) *Blk {
	for _, x := range target.Path() {
		if x.Parent == nil {
			continue
		}
		if m.N.Chain.IsKnownOrphan(&x.Hash) && !m.N.Chain.IsKnownOrphan(&x.Parent.Hash) && m.N.Chain.BlockExists(&x.Parent.Hash) {
			return x
		}
	}
	return nil
}

func frameOf(p string) string {
	if i := strings.Index(p, ": "); i > 0 {
		return p[:i]
	}
	return p
}

func runCase(t *rapid.T, cfg Config, unit string) {
	o := &oracle{hits: map[string]int{}}
	cfg.OnStep = o.onStep
	m := Start(t, cfg)
	defer m.Close()
	if cfg.Tweak != nil {
		m.Extra = map[string]any{"CRCOnlyDPOSHeight": m.N.Params.CRCOnlyDPOSHeight, "RevertToPOWStartHeight": m.N.Params.DPoSConfiguration.RevertToPOWStartHeight}
	}
	if cfg.Premine > 0 {
		m.Premine(t, rapid.IntRange(0, cfg.Premine).Draw(t, "premine"))
	}
	t.Repeat(m.Actions())
	class := "plain"
	switch {
	case m.SawInvalidReorg && m.SawReorg:
		class = "reorg-to-valid+invalid-heavier-branch"
	case m.SawInvalidReorg:
		class = "invalid-heavier-branch"
	case m.SawReorg && m.SawOrphanResolved:
		class = "reorg-to-valid+orphans-resolved"
	case m.SawReorg:
		class = "reorg-to-valid"
	case m.SawOrphanResolved:
		class = "orphans-resolved"
	case m.SawEqualFork:
		class = "equal-work-fork"
	}
	for sig := range o.hits {
		vk.Class(unit + "/hit:" + sig)
	}
	if m.SawDeepOrphan {
		vk.Class(unit + "/with-orphan-chain>=3")
	}
	if m.SawEqualFork {
		vk.Class(unit + "/with-equal-work-fork")
	}
	if cfg.Retarget {
		limit := m.N.Params.PowConfiguration.PowLimitBits
		for x := m.Tip; x != nil && x.Parent != nil; x = x.Parent {
			if x.Block.Bits != limit {
				vk.Class(unit + "/active-chain-with-retargeted-bits")
				break
			}
		}
	}
	vk.Count("blocks-built", int64(len(m.Blocks)-1))
	vk.Count("deliveries", int64(m.Steps))
	nt := m.SawReorg || m.SawInvalidReorg
	key, _ := json.Marshal(m.Ops)
	vk.Case(unit+"/"+class, nt, key, m.Render)
}

func sizes() (maxBranch, maxDepth int) {
	if vk.Thorough() {
		return 12, 12
	}
	return 7, 6
}

// TestTreeInstant: default profile (pure PoW, every block the same work).
func TestTreeInstant(t *testing.T) {
	mb, md := sizes()
	rapid.Check(t, func(t *rapid.T) {
		runCase(t, Config{Invalid: true, MaxBranch: mb, MaxDepth: md, Premine: 3}, "instant")
	})
}

// TestTreeRetarget: 4-block retarget, branches of equal length differ in work.
func TestTreeRetarget(t *testing.T) {
	mb, md := sizes()
	rapid.Check(t, func(t *rapid.T) {
		runCase(t, Config{Invalid: true, Retarget: true, MaxBranch: mb, MaxDepth: md, Premine: 6}, "retarget")
	})
}

// TestTreeCompressed: compressed activation heights (CRCOnlyDPOSHeight <
// RevertToPOWStartHeight both small): the irreversibility rule is live and the
// node switches between DPOS and POW mode.
func TestTreeCompressed(t *testing.T) {
	mb, md := sizes()
	rapid.Check(t, func(t *rapid.T) {
		c := uint32(rapid.IntRange(2, 12).Draw(t, "CRCOnlyDPOSHeight"))
		lo := int(c) + 1
		if lo < 7 {
			lo = 7
		}
		r := uint32(rapid.IntRange(lo, lo+8).Draw(t, "RevertToPOWStartHeight"))
		cfg := Config{Invalid: true, Reverts: true, MaxBranch: mb + 2, MaxDepth: md + 2, Premine: int(r) + 8,
			Tweak: node.Compressed(node.Heights{VoteStart: 2, CRCOnlyDPOS: c, RevertToPOWStart: r})}
		runCase(t, cfg, "compressed")
	})
}
