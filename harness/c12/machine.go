// Package c12 holds the block-tree state machine shared by C12 (most-work valid
// chain) and C30 (irreversible blocks are never detached): a rapid-driven
// generator of block trees on the in-process mini-node (forks of any depth,
// out-of-order delivery, branches containing blocks that are invalid in
// different ways) plus the bookkeeping model.  The machine itself states no
// verdicts; every delivery produces a Step that the property's oracle judges.
package c12

import (
	"encoding/binary"
	"fmt"
	"math/big"
	"sort"

	"github.com/elastos/Elastos.ELA/common"
	"github.com/elastos/Elastos.ELA/common/config"
	"github.com/elastos/Elastos.ELA/core/contract"
	"github.com/elastos/Elastos.ELA/core/contract/program"
	"github.com/elastos/Elastos.ELA/core/types"
	ctypes "github.com/elastos/Elastos.ELA/core/types/common"
	"github.com/elastos/Elastos.ELA/core/types/functions"
	"github.com/elastos/Elastos.ELA/core/types/interfaces"
	"github.com/elastos/Elastos.ELA/core/types/payload"
	"github.com/elastos/Elastos.ELA/crypto"
	"github.com/elastos/Elastos.ELA/dpos/state"
	"pgregory.net/rapid"
	"verifharness/lib/vk"
	"verifharness/node"
)

// Invalid block kinds.  "sane" kinds pass the context-free checks and are
// only found out when the block is connected (directly or during a
// reorganisation); the others are refused outright by ProcessBlock.
const (
	KindOK          = "ok"
	KindBadCoinbase = "bad-coinbase"  // coinbase pays 1 sela too much / too little (connect)
	KindDoubleSpend = "double-spend"  // spends an output already spent on its own branch (connect)
	KindMissing     = "missing-input" // spends an output that does not exist on its branch (connect)
	KindImmature    = "immature"      // spends the parent's coinbase (connect)
	KindOldTime     = "old-timestamp" // timestamp before the genesis block: not after the median time (connect)
	KindWrongBits   = "wrong-bits"    // harder target than required: passes the PoW check, fails the context check (connect)
	KindBadMerkle   = "bad-merkle"    // merkle root does not match the transactions (sanity)
	KindNoPow       = "no-pow"        // proof of work not solved (sanity)
)

var saneInvalidKinds = []string{KindBadCoinbase, KindDoubleSpend, KindMissing, KindImmature, KindOldTime, KindWrongBits}
var insaneKinds = []string{KindBadMerkle, KindNoPow}

// Blk is one block the harness built, with what the model knows about it.
type Blk struct {
	ID       int
	Block    *types.Block
	Hash     common.Uint256
	Parent   *Blk
	Children []*Blk
	Height   uint32
	Kind     string
	Sane     bool     // passes ProcessBlock's context-free checks
	Valid    bool     // valid on top of a valid parent chain (by construction)
	ChainOK  bool     // this block and all ancestors are Sane && Valid
	Work     *big.Int // cumulative work genesis..this (model's own arithmetic)
	Revert   bool     // contains a RevertToPOW transaction
	NTx      int

	Delivered bool // handed to the node and not refused outright (sane)
	Accepted  bool // ideal model: Delivered and parent Accepted (the node "knows" this chain)
	Stranded  bool // a listed known finding left this block stuck in the node's orphan pool

	spent []node.Coin // coins spent by this block's transactions
	utxo  node.UTXOSet
}

func (b *Blk) String() string {
	if b == nil {
		return "#nil"
	}
	return fmt.Sprintf("#%d", b.ID)
}

// IsAncestorOf reports whether b is x or an ancestor of x.
func (b *Blk) IsAncestorOf(x *Blk) bool {
	for ; x != nil && x.Height >= b.Height; x = x.Parent {
		if x == b {
			return true
		}
	}
	return false
}

// Path returns genesis..b.
func (b *Blk) Path() []*Blk {
	var p []*Blk
	for x := b; x != nil; x = x.Parent {
		p = append(p, x)
	}
	for i, j := 0, len(p)-1; i < j; i, j = i+1, j-1 {
		p[i], p[j] = p[j], p[i]
	}
	return p
}

// ForkPoint returns the deepest common ancestor.
func ForkPoint(a, b *Blk) *Blk {
	for a != b {
		if a.Height >= b.Height {
			a = a.Parent
		} else {
			b = b.Parent
		}
	}
	return a
}

// Step is what one ProcessBlock call did, as seen from outside.
type Step struct {
	Op            string
	Blk           *Blk
	InMain        bool
	Orphan        bool
	Err           error
	Panic         string // non-empty: ProcessBlock panicked (top repo frame: value)
	Before, After *Blk   // node's active tip before / after (After nil: tip is not a block of the tree)
	AfterHash     common.Uint256
	AfterHeight   uint32
	NewlyAccepted []*Blk // blocks that became known-with-all-ancestors in this step (ideal model)
	Events        []node.ChainEvent
	LIHBefore     uint32
	LIHAfter      uint32
	PowBefore     bool // consensus algorithm was POW before the step
	PowAfter      bool
	Duplicate     bool // block had been delivered before
}

// Config selects profile and sizes.
type Config struct {
	Tweak     func(p *config.Configuration)
	Retarget  bool // non-instant PoW: 4-block retarget, work differs between equally long branches
	Premine   int  // linear chain mined before the random part starts
	MaxBranch int  // longest branch built by one fork action
	MaxDepth  int  // deepest fork point below the tip chosen by the fork action
	Invalid   bool // generate invalid blocks
	Reverts   bool // generate RevertToPOW blocks (needs RevertToPOWStartHeight reachable)
	// ExtraActions adds property-specific actions to the table.
	ExtraActions func(m *Machine) map[string]func(*rapid.T)
	// OnStep is the oracle; it may call m.* helpers.  Return false to stop the case.
	OnStep func(m *Machine, s *Step) bool
}

// Machine drives one case.
type Machine struct {
	T      *rapid.T
	Cfg    Config
	N      *node.Node
	Blocks []*Blk
	ByHash map[common.Uint256]*Blk
	Tip    *Blk // node's active tip as last observed (nil if it left the tree)
	Ops    []string
	Steps  int
	Dead   bool
	salt   uint64
	genTS  uint32
	Extra  map[string]any // rendered with the case (profile parameters ...)

	// classification
	SawReorg, SawInvalidReorg, SawOrphanResolved, SawEqualFork, SawDeepOrphan bool
}

func (m *Machine) logf(f string, a ...any) { m.Ops = append(m.Ops, fmt.Sprintf(f, a...)) }

// Render is the JSON-able description of the case.
func (m *Machine) Render() any {
	type row struct {
		ID, Parent int
		Height     uint32
		Kind       string
		NTx        int    `json:",omitempty"`
		Hash       string `json:",omitempty"`
	}
	var rows []row
	for _, b := range m.Blocks {
		p := -1
		if b.Parent != nil {
			p = b.Parent.ID
		}
		rows = append(rows, row{ID: b.ID, Parent: p, Height: b.Height, Kind: b.Kind, NTx: b.NTx})
	}
	return map[string]any{"retarget": m.Cfg.Retarget, "premine": m.Cfg.Premine, "profile": m.Extra, "ops": m.Ops, "blocks": rows}
}

// ---------------------------------------------------------------------------
// proof-of-work arithmetic (model's own; the node's is in blockchain/difficulty.go)

func compactToTarget(c uint32) *big.Int {
	mant := int64(c & 0x007fffff)
	exp := uint(c >> 24)
	t := big.NewInt(mant)
	if exp <= 3 {
		t.Rsh(t, 8*(3-exp))
	} else {
		t.Lsh(t, 8*(exp-3))
	}
	if c&0x00800000 != 0 {
		t.Neg(t)
	}
	return t
}

func targetToCompact(t *big.Int) uint32 {
	if t.Sign() == 0 {
		return 0
	}
	size := uint((t.BitLen() + 7) / 8)
	var mant uint32
	if size <= 3 {
		mant = uint32(t.Uint64()) << (8 * (3 - size))
	} else {
		mant = uint32(new(big.Int).Rsh(t, 8*(size-3)).Uint64())
	}
	if mant&0x00800000 != 0 {
		mant >>= 8
		size++
	}
	return uint32(size<<24) | mant
}

var two256 = new(big.Int).Lsh(big.NewInt(1), 256)

func workOfBits(bits uint32) *big.Int {
	t := compactToTarget(bits)
	if t.Sign() <= 0 {
		return big.NewInt(0)
	}
	return new(big.Int).Div(two256, t.Add(t, big.NewInt(1)))
}

const (
	retargetLimitBits = 0x207ffffe
	retargetBlocks    = 4
	retargetTimespan  = 4 // seconds
	retargetFactor    = 4
)

// requiredBits is the difficulty the block after parent must carry.
func (m *Machine) requiredBits(parent *Blk) uint32 {
	limit := m.N.Params.PowConfiguration.PowLimitBits
	if !m.Cfg.Retarget || parent.Height == 0 {
		return limit
	}
	if (parent.Height+1)%retargetBlocks != 0 {
		return parent.Block.Bits
	}
	first := parent
	for i := 0; i < retargetBlocks-1; i++ {
		first = first.Parent
	}
	actual := int64(parent.Block.Timestamp) - int64(first.Block.Timestamp)
	if actual < retargetTimespan/retargetFactor {
		actual = retargetTimespan / retargetFactor
	}
	if actual > retargetTimespan*retargetFactor {
		actual = retargetTimespan * retargetFactor
	}
	t := compactToTarget(parent.Block.Bits)
	t.Mul(t, big.NewInt(actual))
	t.Div(t, big.NewInt(retargetTimespan))
	if t.Cmp(m.N.Params.PowConfiguration.PowLimit) > 0 {
		t.Set(m.N.Params.PowConfiguration.PowLimit)
	}
	return targetToCompact(t)
}

// RetargetTweak is the parameter change of the variable-work variant.
func RetargetTweak(p *config.Configuration) {
	p.PowConfiguration.PowLimitBits = retargetLimitBits
	p.PowConfiguration.TargetTimespan = retargetTimespan * 1e9
	p.PowConfiguration.TargetTimePerBlock = 1e9
	p.PowConfiguration.AdjustmentFactor = retargetFactor
}

// ---------------------------------------------------------------------------

// Start builds the node and the genesis entry.
func Start(t *rapid.T, cfg Config) *Machine {
	tweak := cfg.Tweak
	if cfg.Retarget {
		inner := tweak
		tweak = func(p *config.Configuration) {
			if inner != nil {
				inner(p)
			}
			RetargetTweak(p)
		}
	}
	n, err := node.New(node.Opts{Tweak: tweak})
	if err != nil {
		t.Fatalf("harness: node.New: %v", err)
	}
	n.AutoPoolCleanup = false
	m := &Machine{T: t, Cfg: cfg, N: n, ByHash: map[common.Uint256]*Blk{}}
	g := &Blk{ID: 0, Block: n.Genesis, Hash: n.Genesis.Hash(), Kind: KindOK, Sane: true, Valid: true, ChainOK: true,
		Work: workOfBits(n.Genesis.Bits), Delivered: true, Accepted: true}
	if u, err := node.Replay([]*types.Block{n.Genesis}, n.KeyIndexOf); err == nil {
		g.utxo = u
	} else {
		t.Fatalf("harness: genesis replay: %v", err)
	}
	m.genTS = n.Genesis.Timestamp
	m.Blocks = append(m.Blocks, g)
	m.ByHash[g.Hash] = g
	m.Tip = g
	n.DrainEvents()
	return m
}

// Close releases the node.
func (m *Machine) Close() { m.N.Close() }

func (m *Machine) utxoOf(b *Blk) node.UTXOSet {
	if !b.ChainOK {
		return nil
	}
	if b.utxo != nil {
		return b.utxo
	}
	pu := m.utxoOf(b.Parent)
	u := pu.Clone()
	if err := u.Apply(b.Block, m.N.KeyIndexOf); err != nil {
		m.T.Fatalf("harness: model rejects a block built as valid (%v): %v", b, err)
	}
	b.utxo = u
	return u
}

func (m *Machine) spentOnPath(b *Blk) []node.Coin {
	var out []node.Coin
	for x := b; x != nil; x = x.Parent {
		out = append(out, x.spent...)
	}
	return out
}

// BuildSpec describes one block to build.
type BuildSpec struct {
	Parent    *Blk
	Kind      string
	NTx       int
	TimeDelta uint32
	Revert    bool // include a RevertToPOW (NoBlock) transaction
	ToDPOS    bool // include a RevertToDPOS transaction (only meaningful on the node's tip while it is in POW mode)
}

func (m *Machine) transfer(t *rapid.T, c node.Coin, height uint32, label string) (interfaces.Transaction, common.Fixed64) {
	fee := common.Fixed64(rapid.SampledFrom([]int64{100, 101, 1000, 10000}).Draw(t, label+"fee"))
	if c.Value <= fee+2 {
		return nil, 0
	}
	rest := c.Value - fee
	to := rapid.IntRange(0, len(m.N.Keys)-1).Draw(t, label+"to")
	a := rest / 2
	outs := []node.Out{{To: m.N.Keys[to].ProgramHash, Value: a}, {To: m.N.Keys[c.KeyIdx].ProgramHash, Value: rest - a}}
	tx, err := m.N.Transfer([]node.Coin{c}, outs, height)
	if err != nil {
		t.Fatalf("harness: Transfer: %v", err)
	}
	return tx, fee
}

// Build constructs a block per spec (no delivery).  If the requested invalid
// kind cannot be built on that parent a different sane-invalid kind is used.
func (m *Machine) Build(t *rapid.T, spec BuildSpec) *Blk {
	parent := spec.Parent
	height := parent.Height + 1
	kind := spec.Kind
	if kind == "" {
		kind = KindOK
	}
	td := spec.TimeDelta
	if td == 0 {
		td = 1
	}
	var txs []interfaces.Transaction
	var fees common.Fixed64
	var spent []node.Coin
	revert := false

	pu := m.utxoOf(parent) // nil below an invalid block: coinbase-only children
	maturity := m.N.Params.PowConfiguration.CoinbaseMaturity
	if pu != nil {
		if spec.Revert {
			// RevertToPOW (NoBlock): zero-cost, no programs; valid iff the block is
			// RevertToPOWNoBlockTime after its parent and the height is in range.
			td = uint32(m.N.Params.DPoSConfiguration.RevertToPOWNoBlockTime) + td
			tx := functions.CreateTransaction(ctypes.TxVersion09, ctypes.RevertToPOW, payload.RevertToPOWVersion,
				&payload.RevertToPOW{Type: payload.NoBlock, WorkingHeight: height},
				[]*ctypes.Attribute{}, []*ctypes.Input{}, []*ctypes.Output{}, 0, []*program.Program{})
			txs = append(txs, tx)
			revert = true
		}
		if spec.ToDPOS {
			tx, err := m.revertToDPOSTx()
			if err != nil {
				t.Fatalf("harness: RevertToDPOS tx: %v", err)
			}
			txs = append(txs, tx)
		}
		coins := pu.Spendable(height, maturity)
		for i := 0; i < spec.NTx && len(coins) > 0; i++ {
			k := rapid.IntRange(0, len(coins)-1).Draw(t, "coin")
			c := coins[k]
			coins = append(coins[:k:k], coins[k+1:]...)
			tx, fee := m.transfer(t, c, height, "tx")
			if tx == nil {
				continue
			}
			txs = append(txs, tx)
			fees += fee
			spent = append(spent, c)
		}
		switch kind {
		case KindDoubleSpend:
			sp := m.spentOnPath(parent)
			if len(sp) == 0 {
				kind = KindImmature
				break
			}
			c := sp[rapid.IntRange(0, len(sp)-1).Draw(t, "dsCoin")]
			tx, fee := m.transfer(t, c, height, "ds")
			if tx == nil {
				kind = KindImmature
				break
			}
			txs = append(txs, tx)
			fees += fee
		case KindMissing:
			// the miner output of a coinbase that is not on this branch, else a made-up outpoint
			var foreign []node.Coin
			for _, q := range m.Blocks {
				if q.Height == 0 || q.IsAncestorOf(parent) || !q.ChainOK {
					continue
				}
				cb := q.Block.Transactions[0]
				if len(cb.Outputs()) > 1 && cb.Outputs()[1].Value > 1000 {
					if ki := m.N.KeyIndexOf(cb.Outputs()[1].ProgramHash); ki >= 0 {
						foreign = append(foreign, node.Coin{Op: ctypes.OutPoint{TxID: cb.Hash(), Index: 1},
							Value: cb.Outputs()[1].Value, Owner: cb.Outputs()[1].ProgramHash, KeyIdx: ki, Height: q.Height, IsCoinbase: true})
					}
				}
			}
			var c node.Coin
			if len(foreign) > 0 && rapid.Bool().Draw(t, "foreign") {
				c = foreign[rapid.IntRange(0, len(foreign)-1).Draw(t, "foreignCoin")]
			} else {
				var id common.Uint256
				binary.BigEndian.PutUint64(id[:8], 0xdead0000+uint64(len(m.Blocks)))
				c = node.Coin{Op: ctypes.OutPoint{TxID: id, Index: 0}, Value: 100000000, KeyIdx: 0, Owner: m.N.Keys[0].ProgramHash}
			}
			tx, fee := m.transfer(t, c, height, "ms")
			txs = append(txs, tx)
			fees += fee
		}
		if kind == KindImmature {
			// the parent's own coinbase can never be spent by the next block (maturity >= 1)
			cb := parent.Block.Transactions[0]
			idx := -1
			for i, o := range cb.Outputs() {
				if o.Value > 1000 && m.N.KeyIndexOf(o.ProgramHash) >= 0 {
					idx = i
					break
				}
			}
			if idx < 0 {
				kind = KindBadCoinbase
			} else {
				o := cb.Outputs()[idx]
				c := node.Coin{Op: ctypes.OutPoint{TxID: cb.Hash(), Index: uint16(idx)}, Value: o.Value, Owner: o.ProgramHash,
					KeyIdx: m.N.KeyIndexOf(o.ProgramHash), Height: parent.Height, IsCoinbase: true}
				if _, unspent := pu[c.Op]; !unspent {
					kind = KindBadCoinbase
				} else {
					tx, fee := m.transfer(t, c, height, "im")
					txs = append(txs, tx)
					fees += fee
				}
			}
		}
	} else if kind == KindDoubleSpend || kind == KindMissing || kind == KindImmature {
		kind = KindBadCoinbase
	}

	m.salt++
	bs := node.BlockSpec{Parent: parent.Block, Txs: txs, Fees: fees, TimeDelta: td,
		MinerKey: rapid.IntRange(0, len(m.N.Keys)-1).Draw(t, "miner"), Salt: m.salt, NoSolve: true}
	if kind == KindBadCoinbase {
		up := rapid.Bool().Draw(t, "overpay")
		bs.MutateCoinbase = func(cb interfaces.Transaction) {
			if up {
				cb.Outputs()[1].Value++
			} else {
				cb.Outputs()[1].Value--
			}
		}
	}
	blk, err := m.N.BuildBlock(bs)
	if err != nil {
		t.Fatalf("harness: BuildBlock: %v", err)
	}
	blk.Header.Bits = m.requiredBits(parent)
	switch kind {
	case KindOldTime:
		blk.Header.Timestamp = m.genTS - 1
	case KindWrongBits:
		// one mantissa step harder: still below the limit, but not the required value
		blk.Header.Bits--
	}
	if err := m.N.Seal(blk, false); err != nil {
		t.Fatalf("harness: Seal: %v", err)
	}
	if kind == KindBadMerkle {
		blk.Header.MerkleRoot[5] ^= 0x40
	}
	if kind != KindNoPow {
		node.Solve(blk, m.N.Params)
	}

	b := &Blk{ID: len(m.Blocks), Block: blk, Hash: blk.Hash(), Parent: parent, Height: height, Kind: kind,
		Sane: kind != KindBadMerkle && kind != KindNoPow, Valid: kind == KindOK, Revert: revert && kind == KindOK, NTx: len(txs)}
	b.ChainOK = parent.ChainOK && b.Sane && b.Valid
	b.Work = new(big.Int).Add(parent.Work, workOfBits(blk.Header.Bits))
	if b.ChainOK {
		b.spent = spent
	}
	parent.Children = append(parent.Children, b)
	m.Blocks = append(m.Blocks, b)
	m.ByHash[b.Hash] = b
	m.logf("build %v on %v h=%d kind=%s ntx=%d td=%d bits=%08x", b, parent, height, kind, len(txs), td, blk.Header.Bits)
	return b
}

// revertToDPOSTx builds the transaction the arbiters publish to leave POW mode:
// one program whose code is the m-of-n multi-signature script of the current
// normal arbiters (m = 2/3+1).  TransactionChecker.ContextCheck stops after
// RevertToDPOSTransaction.SpecialContextCheck, which inspects that script only.
func (m *Machine) revertToDPOSTx() (interfaces.Transaction, error) {
	var pks []*crypto.PublicKey
	for _, a := range m.N.Arbiters.GetArbitrators() {
		if !a.IsNormal {
			continue
		}
		pk, err := crypto.DecodePoint(a.NodePublicKey)
		if err != nil {
			return nil, err
		}
		pks = append(pks, pk)
	}
	need := int(float64(m.N.Arbiters.GetArbitersCount())*state.MajoritySignRatioNumerator/state.MajoritySignRatioDenominator) + 1
	code, err := contract.CreateMultiSigRedeemScript(need, pks)
	if err != nil || code == nil {
		return nil, fmt.Errorf("multisig script for %d arbiters (m=%d): %v", len(pks), need, err)
	}
	m.salt++
	nonce := make([]byte, 8)
	binary.BigEndian.PutUint64(nonce, m.salt)
	attr := ctypes.NewAttribute(ctypes.Nonce, nonce)
	param := make([]byte, 0, need*65)
	for i := 0; i < need; i++ {
		param = append(param, 64)
		param = append(param, make([]byte, 64)...)
	}
	return functions.CreateTransaction(ctypes.TxVersion09, ctypes.RevertToDPOS, payload.RevertToDPOSVersion,
		&payload.RevertToDPOS{WorkHeightInterval: payload.WorkHeightInterval, RevertToPOWBlockHeight: m.N.Arbiters.GetRevertToPOWBlockHeight()},
		[]*ctypes.Attribute{&attr}, []*ctypes.Input{}, []*ctypes.Output{}, 0,
		[]*program.Program{{Code: code, Parameter: param}}), nil
}

func isPow(n *node.Node) bool { return n.Arbiters.IsInPOWMode() }

// Deliver hands a block to the node, updates the ideal model and calls the oracle.
func (m *Machine) Deliver(b *Blk, op string) bool {
	return m.step(b, op, nil)
}

// ForceReorganize calls the exported BlockChain.ReorganizeChain(block) (the
// entry point meant for following a confirmed block on a side chain; it
// ignores work) and hands the resulting Step to the oracle.
func (m *Machine) ForceReorganize(b *Blk) bool {
	return m.step(b, "ReorganizeChain", func() error { return m.N.Chain.ReorganizeChain(b.Block) })
}

func (m *Machine) step(b *Blk, op string, call func() error) bool {
	if m.Dead {
		return false
	}
	s := &Step{Op: op, Blk: b, Before: m.Tip, Duplicate: b.Delivered || call != nil}
	s.LIHBefore = m.N.Arbiters.GetLastIrreversibleHeight()
	s.PowBefore = isPow(m.N)
	m.N.DrainEvents()
	vk.Journal([]byte(fmt.Sprintf("%v", m.Ops)))
	panicked, val, frame := vk.Catch(func() {
		if call != nil {
			s.Err = call()
			return
		}
		s.InMain, s.Orphan, s.Err = m.N.Process(b.Block)
	})
	if panicked {
		s.Panic = fmt.Sprintf("%s: %v", frame, val)
	}
	s.Events = m.N.DrainEvents()
	s.LIHAfter = m.N.Arbiters.GetLastIrreversibleHeight()
	s.PowAfter = isPow(m.N)

	// ideal model: a sane block is known once all its ancestors are known
	if call == nil && !b.Delivered && b.Sane {
		b.Delivered = true
		if b.Parent.Accepted && !b.Parent.Stranded {
			queue := []*Blk{b}
			for len(queue) > 0 {
				x := queue[0]
				queue = queue[1:]
				x.Accepted = true
				s.NewlyAccepted = append(s.NewlyAccepted, x)
				for _, c := range x.Children {
					if c.Delivered && !c.Accepted && !c.Stranded {
						queue = append(queue, c)
					}
				}
			}
		}
	}

	best := m.N.Chain.GetBestChain()
	s.AfterHash = *best.Hash
	s.AfterHeight = best.Height
	s.After = m.ByHash[s.AfterHash]
	m.Steps++
	errs := ""
	if s.Err != nil {
		errs = s.Err.Error()
		if len(errs) > 60 {
			errs = errs[:60]
		}
	}
	m.logf("%s %v -> main=%v orphan=%v err=%q tip=%v h=%d", op, b, s.InMain, s.Orphan, errs, s.After, s.AfterHeight)

	if len(s.NewlyAccepted) > 1 {
		m.SawOrphanResolved = true
		if len(s.NewlyAccepted) > 3 {
			m.SawDeepOrphan = true
		}
	}
	cont := true
	if m.Cfg.OnStep != nil {
		cont = m.Cfg.OnStep(m, s)
	}
	m.Tip = s.After
	if !cont || s.After == nil || s.Panic != "" {
		m.Dead = true
	}
	return !m.Dead
}

// BestKnownValid returns the heaviest block whose whole chain is known and valid
// (first built wins ties; callers only use its Work).
func (m *Machine) BestKnownValid() *Blk {
	var best *Blk
	for _, b := range m.Blocks {
		if b.Accepted && b.ChainOK && !b.Stranded && (best == nil || b.Work.Cmp(best.Work) > 0) {
			best = b
		}
	}
	return best
}

// Strand marks b and its delivered descendants as stuck in the orphan pool.
func (m *Machine) Strand(b *Blk) {
	b.Stranded = true
	b.Accepted = false
	for _, c := range b.Children {
		if c.Delivered {
			m.Strand(c)
		}
	}
}

func (m *Machine) undelivered() []*Blk {
	var out []*Blk
	for _, b := range m.Blocks {
		if !b.Delivered {
			out = append(out, b)
		}
	}
	return out
}

func (m *Machine) leaves() []*Blk {
	var out []*Blk
	for _, b := range m.Blocks {
		if len(b.Children) == 0 {
			out = append(out, b)
		}
	}
	return out
}

func (m *Machine) drawKind(t *rapid.T, pInvalid int) string {
	if !m.Cfg.Invalid || rapid.IntRange(0, 99).Draw(t, "inv") >= pInvalid {
		return KindOK
	}
	if rapid.IntRange(0, 9).Draw(t, "insane") == 0 {
		return rapid.SampledFrom(insaneKinds).Draw(t, "kind")
	}
	return rapid.SampledFrom(saneInvalidKinds).Draw(t, "kind")
}

func (m *Machine) drawTD(t *rapid.T) uint32 {
	if m.Cfg.Retarget {
		return uint32(rapid.SampledFrom([]int{1, 1, 1, 2, 3, 5, 8}).Draw(t, "td"))
	}
	return uint32(rapid.SampledFrom([]int{1, 1, 1, 2, 7}).Draw(t, "td"))
}

func (m *Machine) drawNTx(t *rapid.T) int {
	if m.Cfg.Reverts {
		// in POW consensus mode the node refuses plain TransferAsset transactions
		// (TransferAssetTransaction.IsAllowedInPOWConsensus), so whether a block
		// carrying one is valid would depend on the mode of its branch: histories
		// with mode switches use coinbase-only blocks (plus the switch transactions)
		return 0
	}
	return rapid.SampledFrom([]int{0, 0, 0, 1, 1, 2}).Draw(t, "ntx")
}

// Premine extends the tip linearly with valid blocks.
func (m *Machine) Premine(t *rapid.T, k int) {
	for i := 0; i < k && !m.Dead; i++ {
		b := m.Build(t, BuildSpec{Parent: m.Tip, Kind: KindOK})
		m.Deliver(b, "premine")
	}
}

// Actions returns the rapid action table.
func (m *Machine) Actions() map[string]func(*rapid.T) {
	maxBranch := m.Cfg.MaxBranch
	if maxBranch <= 0 {
		maxBranch = 6
	}
	maxDepth := m.Cfg.MaxDepth
	if maxDepth <= 0 {
		maxDepth = 6
	}
	acts := map[string]func(*rapid.T){
		// the honest miner: one valid block on the node's tip, delivered at once
		"mine": func(t *rapid.T) {
			if m.Tip == nil {
				t.Skip("dead")
			}
			k := rapid.IntRange(1, 3).Draw(t, "k")
			for i := 0; i < k && !m.Dead; i++ {
				b := m.Build(t, BuildSpec{Parent: m.Tip, Kind: KindOK, NTx: m.drawNTx(t), TimeDelta: m.drawTD(t)})
				m.Deliver(b, "deliver")
			}
		},
		// a competing branch from a point at or below the tip, possibly containing an
		// invalid block, delivered in order / reversed / shuffled / withheld
		"fork": func(t *rapid.T) {
			if m.Tip == nil {
				t.Skip("dead")
			}
			var base *Blk
			switch rapid.IntRange(0, 3).Draw(t, "baseSel") {
			case 0: // any block
				base = m.Blocks[rapid.IntRange(0, len(m.Blocks)-1).Draw(t, "base")]
			case 1: // a leaf
				ls := m.leaves()
				base = ls[rapid.IntRange(0, len(ls)-1).Draw(t, "leaf")]
			default: // below the tip
				d := rapid.IntRange(0, maxDepth).Draw(t, "depth")
				base = m.Tip
				for i := 0; i < d && base.Parent != nil; i++ {
					base = base.Parent
				}
			}
			// length relative to what is needed to overtake the tip
			need := 1
			if fp := ForkPoint(base, m.Tip); fp == base {
				need = int(m.Tip.Height-base.Height) + 1
			}
			l := need + rapid.IntRange(-2, 2).Draw(t, "dl")
			if l < 1 {
				l = 1
			}
			if l > maxBranch {
				l = maxBranch
			}
			var built []*Blk
			cur := base
			// at most one invalid block per branch, in a quarter of the branches
			badAt := -1
			if m.Cfg.Invalid && rapid.IntRange(0, 3).Draw(t, "hasInvalid") == 0 {
				badAt = rapid.IntRange(0, l-1).Draw(t, "badAt")
			}
			for i := 0; i < l; i++ {
				kind := KindOK
				if i == badAt {
					kind = m.drawKind(t, 100)
				}
				b := m.Build(t, BuildSpec{Parent: cur, Kind: kind, NTx: m.drawNTx(t), TimeDelta: m.drawTD(t)})
				built = append(built, b)
				cur = b
			}
			switch rapid.SampledFrom([]string{"order", "order", "order", "reverse", "shuffle", "withhold", "tail-first"}).Draw(t, "policy") {
			case "order":
				for _, b := range built {
					m.Deliver(b, "deliver")
				}
			case "reverse":
				for i := len(built) - 1; i >= 0; i-- {
					m.Deliver(built[i], "deliver")
				}
			case "shuffle":
				perm := rapid.Permutation(built).Draw(t, "perm")
				for _, b := range perm {
					m.Deliver(b, "deliver")
				}
			case "tail-first":
				// everything but the first block, then the first one (one delivery resolves a chain of orphans)
				for _, b := range built[1:] {
					m.Deliver(b, "deliver")
				}
				m.Deliver(built[0], "deliver")
			case "withhold":
			}
		},
		"deliver": func(t *rapid.T) {
			u := m.undelivered()
			if len(u) == 0 || m.Tip == nil {
				t.Skip("nothing withheld")
			}
			k := rapid.IntRange(1, len(u)).Draw(t, "n")
			perm := rapid.Permutation(u).Draw(t, "perm")
			for _, b := range perm[:k] {
				m.Deliver(b, "deliver")
			}
		},
		// several children (one possibly invalid, some with a child of their own) of a
		// withheld block arrive first; then the block itself: one delivery resolves a fan of orphans
		"orphan-fan": func(t *rapid.T) {
			if m.Tip == nil {
				t.Skip("dead")
			}
			d := rapid.IntRange(0, 2).Draw(t, "depth")
			base := m.Tip
			for i := 0; i < d && base.Parent != nil; i++ {
				base = base.Parent
			}
			root := m.Build(t, BuildSpec{Parent: base, Kind: KindOK, TimeDelta: m.drawTD(t)})
			cur := root
			for i := 0; i < d; i++ { // reach the tip's height so that the children overtake it
				cur = m.Build(t, BuildSpec{Parent: cur, Kind: KindOK, TimeDelta: m.drawTD(t)})
				m.Deliver(cur, "deliver")
			}
			nkids := rapid.IntRange(2, 3).Draw(t, "kids")
			badAt := -1
			if m.Cfg.Invalid && rapid.IntRange(0, 1).Draw(t, "hasInvalid") == 0 {
				badAt = rapid.IntRange(0, nkids-1).Draw(t, "badAt")
			}
			for i := 0; i < nkids; i++ {
				kind := KindOK
				if i == badAt {
					kind = m.drawKind(t, 100)
				}
				k := m.Build(t, BuildSpec{Parent: cur, Kind: kind, NTx: m.drawNTx(t), TimeDelta: m.drawTD(t)})
				m.Deliver(k, "deliver")
				if rapid.Bool().Draw(t, "grandchild") {
					g := m.Build(t, BuildSpec{Parent: k, Kind: KindOK, TimeDelta: m.drawTD(t)})
					m.Deliver(g, "deliver")
				}
			}
			m.Deliver(root, "deliver")
		},
		"redeliver": func(t *rapid.T) {
			if m.Tip == nil || len(m.Blocks) < 2 {
				t.Skip("nothing")
			}
			b := m.Blocks[rapid.IntRange(1, len(m.Blocks)-1).Draw(t, "blk")]
			m.Deliver(b, "redeliver")
		},
		"": func(t *rapid.T) {},
	}
	if m.Cfg.Reverts {
		// leave POW mode again (takes effect WorkHeightInterval blocks later)
		acts["to-dpos"] = func(t *rapid.T) {
			if m.Tip == nil || !m.Tip.ChainOK || !isPow(m.N) {
				t.Skip("not in POW mode")
			}
			if m.N.Arbiters.DPOSWorkHeight > m.Tip.Height+1 {
				t.Skip("RevertToDPOS already received")
			}
			b := m.Build(t, BuildSpec{Parent: m.Tip, Kind: KindOK, ToDPOS: true})
			m.Deliver(b, "deliver")
		}
		// a branch forking around the last irreversible height, long enough to overtake
		acts["deep-fork"] = func(t *rapid.T) {
			lih := m.N.Arbiters.GetLastIrreversibleHeight()
			if m.Tip == nil || lih == 0 || lih > m.Tip.Height {
				t.Skip("no irreversible height below the tip")
			}
			at := int(lih) + rapid.IntRange(-2, 2).Draw(t, "around")
			if at < 0 {
				at = 0
			}
			if at > int(m.Tip.Height) {
				at = int(m.Tip.Height)
			}
			base := m.Tip
			for int(base.Height) > at {
				base = base.Parent
			}
			l := int(m.Tip.Height-base.Height) + rapid.IntRange(0, 2).Draw(t, "extra")
			if l < 1 {
				l = 1
			}
			if l > 4*maxBranch {
				t.Skip("too long")
			}
			var built []*Blk
			cur := base
			for i := 0; i < l; i++ {
				cur = m.Build(t, BuildSpec{Parent: cur, Kind: KindOK, TimeDelta: m.drawTD(t)})
				built = append(built, cur)
			}
			if rapid.IntRange(0, 3).Draw(t, "tailFirst") == 0 {
				for _, b := range built[1:] {
					m.Deliver(b, "deliver")
				}
				m.Deliver(built[0], "deliver")
			} else {
				for _, b := range built {
					m.Deliver(b, "deliver")
				}
			}
		}
		acts["revert"] = func(t *rapid.T) {
			if m.Tip == nil || !m.Tip.ChainOK {
				t.Skip("dead")
			}
			if m.Tip.Height+1 < m.N.Params.DPoSConfiguration.RevertToPOWStartHeight || isPow(m.N) {
				t.Skip("not in DPOS mode / too early")
			}
			b := m.Build(t, BuildSpec{Parent: m.Tip, Kind: KindOK, Revert: true})
			m.Deliver(b, "deliver")
		}
	}
	if m.Cfg.ExtraActions != nil {
		for k, f := range m.Cfg.ExtraActions(m) {
			acts[k] = f
		}
	}
	acts["fork-b"] = acts["fork"] // weight
	acts["fork-c"] = acts["fork"]
	for name, f := range acts {
		f := f
		acts[name] = func(t *rapid.T) {
			if m.Dead {
				return
			}
			f(t)
		}
	}
	return acts
}

// SortedIDs renders a block list.
func SortedIDs(bs []*Blk) []int {
	var ids []int
	for _, b := range bs {
		ids = append(ids, b.ID)
	}
	sort.Ints(ids)
	return ids
}
