package c23

import (
	"bytes"
	"encoding/json"
	"fmt"
	"io"
	"reflect"
	"testing"

	"github.com/elastos/Elastos.ELA/common"
	crstate "github.com/elastos/Elastos.ELA/cr/state"
	dstate "github.com/elastos/Elastos.ELA/dpos/state"
	"pgregory.net/rapid"
	"verifharness/lib/canon"
	"verifharness/lib/vk"
	"verifharness/statekit"
)

func TestMain(m *testing.M) { vk.Main(m, "C23") }

type serializable interface {
	Serialize(w io.Writer) error
	Deserialize(r io.Reader) error
}

// target is one checkpoint / key-frame type of part (a).
type target struct {
	name string
	mk   func() serializable
	// notPersisted lists canon paths (generalised) of fields that are not part
	// of the persisted state by design (reviewed allow-list).
	notPersisted []string
}

var targets = []target{
	{"dpos/state.Producer", func() serializable { return &dstate.Producer{} }, nil},
	{"dpos/state.RewardData", func() serializable { return &dstate.RewardData{} }, nil},
	{"dpos/state.StateKeyFrame", func() serializable { return &dstate.StateKeyFrame{} }, nil},
	{"dpos/state.CheckPoint", func() serializable { return &dstate.CheckPoint{} }, []string{"arbitrators"}},
	{"cr/state.CRMember", func() serializable { return &crstate.CRMember{} }, nil},
	{"cr/state.Candidate", func() serializable { return &crstate.Candidate{} }, nil},
	{"cr/state.ProposalState", func() serializable { return &crstate.ProposalState{} }, nil},
	{"cr/state.KeyFrame", func() serializable { return &crstate.KeyFrame{} }, nil},
	{"cr/state.StateKeyFrame", func() serializable { return &crstate.StateKeyFrame{} }, nil},
	{"cr/state.ProposalKeyFrame", func() serializable { return &crstate.ProposalKeyFrame{} }, nil},
	{"cr/state.Checkpoint", func() serializable { return &crstate.Checkpoint{} }, []string{"committee"}},
}

// arbiterMember fills an ArbiterMember interface value with one of the three
// real implementations (built with the real constructors, then field-filled).
func arbiterMember(f *filler, v reflect.Value, path string) {
	var am dstate.ArbiterMember
	switch rapid.IntRange(0, 2).Draw(f.t, path+".kind") {
	case 0:
		am, _ = dstate.NewOriginArbiter(statekit.K(0).PK)
	case 1:
		am, _ = dstate.NewDPoSArbiter(&dstate.Producer{})
	default:
		am, _ = dstate.NewCRCArbiter(statekit.K(1).PK, statekit.K(2).PK, &crstate.CRMember{}, true)
	}
	f.fill(reflect.ValueOf(am).Elem(), path)
	v.Set(reflect.ValueOf(am))
}

func newStateFiller(t *rapid.T) *filler {
	f := newFiller(t)
	f.byType["ArbiterMember"] = arbiterMember
	// hash caches of payload objects are not state
	f.skipField["DPOSProposal.hash"] = true
	// back pointers
	f.skipField["CheckPoint.arbitrators"] = true
	f.skipField["Checkpoint.committee"] = true
	// CheckPoint.DutyIndex is written as uint32
	return f
}

func roundTrip(t *rapid.T, tg target) {
	x := tg.mk()
	f := newStateFiller(t)
	f.fill(reflect.ValueOf(x).Elem(), "")
	buf := new(bytes.Buffer)
	render := func() any {
		return map[string]any{"type": tg.name, "value": canon.Dump(x).Short(6000)}
	}
	if p, val, frame := vk.Catch(func() {
		if err := x.Serialize(buf); err != nil {
			panic("serialize error: " + err.Error())
		}
	}); p {
		vk.Report(t, "C23:roundtrip:"+tg.name+":serialize-failed:"+frame, fmt.Sprint(val), render())
		return
	}
	data := append([]byte{}, buf.Bytes()...)
	y := tg.mk()
	var derr error
	if p, val, frame := vk.Catch(func() { derr = y.Deserialize(bytes.NewReader(data)) }); p {
		vk.Report(t, "C23:roundtrip:"+tg.name+":deserialize-panic:"+frame, fmt.Sprint(val), render())
		return
	}
	if derr != nil {
		vk.Report(t, "C23:roundtrip:"+tg.name+":deserialize-error", derr.Error(), render())
		return
	}
	d := &canon.Differ{Mask: map[string]bool{}}
	for _, p := range tg.notPersisted {
		d.Mask[p] = true
	}
	nx, ny := canon.Dump(x), canon.Dump(y)
	maps := 0
	countMaps(nx, &maps)
	for {
		df := d.First(ny, nx)
		if df == nil {
			break
		}
		// one signature per (struct type, field) wherever the value is embedded
		df.Owner, df.Field = canon.OwnerOf(nx, df.Path)
		sig := "C23:roundtrip:" + df.TypeSig()
		if !vk.Report(t, sig, fmt.Sprintf("%s %s: decoded %s, encoded value was %s", tg.name, df.Path, df.A, df.B), render()) {
			return
		}
		d.Mask[df.Sig()] = true
	}
	key, _ := json.Marshal([]any{tg.name, nx.Hash()})
	vk.Case("roundtrip/"+tg.name, maps >= 3 || len(nx.Kids) < 8, key, render)
}

func countMaps(n *canon.Node, c *int) {
	if n == nil {
		return
	}
	if n.Kind == canon.KMap && len(n.Kids) > 0 {
		*c++
	}
	for _, k := range n.Kids {
		countMaps(k, c)
	}
}

func TestRoundTrip(t *testing.T) {
	rapid.Check(t, func(t *rapid.T) {
		tg := targets[rapid.IntRange(0, len(targets)-1).Draw(t, "target")]
		roundTrip(t, tg)
	})
}

var _ = common.Uint256{}
