package c23

import (
	"encoding/json"
	"fmt"
	"testing"

	"github.com/elastos/Elastos.ELA/common"
	"pgregory.net/rapid"
	"verifharness/lib/canon"
	"verifharness/lib/vk"
	"verifharness/statekit"
	"verifharness/statekit/rbk"
)

type restoreCase struct {
	Profile  statekit.Profile     `json:"profile"`
	Era      string               `json:"era"`
	SaveAt   uint32               `json:"save_at"`
	End      uint32               `json:"end"`
	Blocks   []statekit.BlockInfo `json:"blocks"`
	Compared []uint32             `json:"compared"`
}

// TestRestoreContinue: a node that saves its DPoS and CR checkpoints at height
// s, restarts from them and processes the following blocks must reach the
// state of the node that never restarted.
func TestRestoreContinue(t *testing.T) {
	rapid.Check(t, func(t *rapid.T) {
		era := statekit.Era(rapid.SampledFrom([]int{0, 1, 1, 2, 2, 3, 3}).Draw(t, "era"))
		prof := statekit.DrawProfile(t, era)
		prof.RecordSponsorStart = statekit.Far
		if era >= statekit.EraV2 {
			prof.DPoSV2MaxVotesLockTime = 100000
			prof.DPoSV2EffectiveVotes = common.Fixed64(rapid.SampledFrom([]int64{80, 800}).Draw(t, "effective")) * statekit.ELA
		}
		statekit.CRFocusProfile(t, &prof)
		a := statekit.New(prof)
		defer a.Close()
		g := statekit.NewGen(a)
		g.DrawLazy(t)
		g.UniformKinds = true
		if era >= statekit.EraCR {
			g.AddKinds(statekit.CRKinds())
			if era >= statekit.EraV2 {
				// staking, DPoS 2.0 producers and votes, stake-based CR votes
				g.AddKinds(statekit.C28Kinds())
				g.AddKinds(statekit.CRV2Kinds())
				g.NProducers = 12
				g.MaxTxs = 4
				statekit.SetC28Drive(g, true)
				defer statekit.SetC28Drive(g, false)
			}
			// proposal life cycles, a staffed second election
			statekit.CRFocusKinds(g)
			if era >= statekit.EraV2 {
				focus := g.Boost
				v2 := statekit.C28Kinds()
				g.Boost = func(kind string) int {
					b := focus(kind)
					if _, ok := v2[kind]; ok && g.K.Height+1 >= g.K.Params.DPoSV2StartHeight {
						b *= 3
					}
					return b
				}
			}
		}
		a.StartAt(prof.VoteStart - 1)
		rc := &restoreCase{Profile: prof, Era: era.String()}
		render := func() any { return rc }
		last := prof.PublicDPOS
		switch era {
		case statekit.EraCR:
			last = prof.CRClaimStart
		case statekit.EraNewCR:
			last = prof.RevertToPOWStart
		case statekit.EraV2:
			last = prof.DPoSV2Start
		}
		end := last + uint32(rapid.IntRange(2, 30).Draw(t, "end"))
		saveAt := prof.VoteStart + uint32(rapid.IntRange(1, int(end-prof.VoteStart)-1).Draw(t, "saveat"))
		if era >= statekit.EraCR {
			// half of the CR histories save right before / at / after a committee
			// change (the first or the second one) and run past it
			first, second := prof.CRCommitteeStart, prof.CRCommitteeStart+prof.DutyPeriod
			switch rapid.IntRange(0, 3).Draw(t, "savemode") {
			case 0:
				saveAt = first - 2 + uint32(rapid.IntRange(0, 3).Draw(t, "around-first-change"))
				if end <= saveAt+1 {
					end = saveAt + 2
				}
			case 1:
				saveAt = second - 2 + uint32(rapid.IntRange(0, 3).Draw(t, "around-second-change"))
				end = second + uint32(rapid.IntRange(1, 8).Draw(t, "past-second-change"))
				if end <= saveAt {
					end = saveAt + 1
				}
			}
		}
		rc.SaveAt, rc.End = saveAt, end
		advance := func(k *statekit.Kit, to uint32) bool {
			for k.Height < to {
				b, c, info := g.Block(t)
				rc.Blocks = append(rc.Blocks, info)
				if p, _, frame := vk.Catch(func() { k.Process(b, c) }); p {
					vk.Class("dead/forward-panic:" + frame)
					return false
				}
				if ok, _ := k.ProducerMapsConsistent(); !ok {
					vk.Class("dead/forward-conflicting-transitions")
					return false
				}
			}
			return true
		}
		if !advance(a, saveAt) {
			vk.Case("restore/era-"+rc.Era+"/dead", false, nil, nil)
			return
		}
		pendingOrCanceled := len(a.Arbiters.State.PendingProducers)+len(a.Arbiters.State.CanceledProducers) > 0
		sessAtSave := a.Committee.GetState().CurrentSession
		if n := a.NextCommitteeChange(); n != 0 && n-saveAt <= 2 {
			vk.Class("restore/saved-within-two-blocks-before-a-committee-change")
		}
		if a.Committee.LastCommitteeHeight == saveAt && saveAt != 0 {
			vk.Class("restore/saved-at-a-committee-change")
		}
		saved, err := a.Save()
		if err != nil {
			vk.Report(t, "C23:restore:save-failed", err.Error(), render())
			return
		}
		var b *statekit.Kit
		if p, val, frame := vk.Catch(func() { b, err = a.Restore(saved) }); p {
			vk.Report(t, "C23:restore:panic:"+frame, fmt.Sprint(val), render())
			return
		}
		if err != nil {
			vk.Report(t, "C23:restore:load-failed", err.Error(), render())
			return
		}
		defer b.Close()
		// right after the restart
		if !compareKits(t, "restored", a, b, rc) {
			return
		}
		// the straight node generates and processes the rest; the restarted one follows
		g.K = a
		if !advance(a, end) {
			vk.Case("restore/era-"+rc.Era+"/dead", false, nil, nil)
			return
		}
		b.AdoptFaucet(a)
		for b.Height < a.Height {
			h := b.Height + 1
			if p, val, frame := vk.Catch(func() { b.Process(a.Blocks[h], a.Confirms[h]) }); p {
				vk.Report(t, "C23:continue:panic:"+frame, fmt.Sprintf("block %d on the restarted node: %v", h, val), render())
				return
			}
		}
		if !compareKits(t, "continue", a, b, rc) {
			return
		}
		if a.Committee.GetState().CurrentSession != sessAtSave {
			vk.Class("restore/committee-change-after-the-restart")
		}
		if len(a.Committee.GetAllProposals()) > 0 {
			vk.Class("restore/with-proposals")
		}
		key, _ := json.Marshal(rc)
		vk.Case("restore/era-"+rc.Era, pendingOrCanceled && saveAt < end, key, render)
	})
}

// notRestored lists the live fields a restart legitimately does not bring
// back (reviewed): none at the moment besides what statekit already skips
// (snapshot cache, histories, callbacks).
var notRestored = map[string]bool{}

var arbiterCopies = rbk.ArbiterCopyMask()

func compareKits(t *rapid.T, clause string, a, b *statekit.Kit, rc *restoreCase) bool {
	rc.Compared = append(rc.Compared, a.Height)
	// CRInfo.Signature is dropped by CRMember/Candidate.Serialize: that is the
	// round-trip finding C23:roundtrip:payload.CRInfo.Signature, not repeated here
	do, co := statekit.DPoSOptions(), statekit.CROptions()
	do.SkipFields = append(do.SkipFields, "CRInfo.Signature")
	co.SkipFields = append(co.SkipFields, "CRInfo.Signature")
	a.Activate()
	oaLive, caLive := do.Dump(a.Arbiters), co.Dump(a.Committee)
	b.Activate()
	obLive, cbLive := do.Dump(b.Arbiters), co.Dump(b.Committee)
	for _, v := range []struct {
		name string
		x, y *canon.Node
	}{{"dpos:", obLive, oaLive}, {"cr:", cbLive, caLive}} {
		d := &canon.Differ{Mask: notRestored}
		df := d.First(v.x, v.y)
		if df == nil {
			continue
		}
		sig := "C23:" + clause + ":" + v.name + df.Sig()
		if v.name == "dpos:" && (&canon.Differ{Mask: arbiterCopies}).First(v.x, v.y) == nil {
			// the only differences are the vote maps inside the Producer copies
			// of the arbiter lists: in the straight node they are the live
			// producer's maps (shallow copy), in the restarted node separate
			// deserialized ones - one finding whatever the list
			sig = "C23:" + clause + ":dpos:arbiter-producer-copy-shares-vote-maps"
		}
		detail := fmt.Sprintf("height %d: restarted node has %s = %s, straight node has %s", a.Height, df.Path, df.A, df.B)
		if !vk.Report(t, sig, detail, rc) {
			return false
		}
		// known: the histories of both nodes may differ from here on
		return false
	}
	return true
}
