// Package c23 decides "saved state checkpoints are lossless".
package c23

import (
	"fmt"
	"reflect"
	"unsafe"

	"pgregory.net/rapid"
)

// filler sets every leaf of a value to a non-zero value through reflection,
// unexported fields included, so that a field that is missing from both
// Serialize and Deserialize shows up as a zero after the round trip.
type filler struct {
	t *rapid.T
	// byType overrides the generic filling for named types (pkgpath.Name or Name).
	byType map[string]func(f *filler, v reflect.Value, path string)
	// byField overrides for "TypeName.Field".
	byField map[string]func(f *filler, v reflect.Value, path string)
	// skipField leaves "TypeName.Field" untouched (zero).
	skipField map[string]bool
	ctr       int
	// sizes
	minLen, maxLen int
}

func newFiller(t *rapid.T) *filler {
	return &filler{t: t, byType: map[string]func(*filler, reflect.Value, string){},
		byField: map[string]func(*filler, reflect.Value, string){}, skipField: map[string]bool{}, minLen: 1, maxLen: 2}
}

func (f *filler) next() int { f.ctr++; return f.ctr }

func settable(v reflect.Value) reflect.Value {
	if v.CanSet() {
		return v
	}
	if v.CanAddr() {
		return reflect.NewAt(v.Type(), unsafe.Pointer(v.UnsafeAddr())).Elem()
	}
	panic("c23: value not addressable")
}

func (f *filler) nonZeroUint(bits int, label string) uint64 {
	max := uint64(1)<<uint(bits) - 1
	if bits >= 64 {
		max = 1 << 62
	}
	if bits > 32 {
		// stay within what height / amount fields hold in practice
		max = 1 << 40
	}
	return rapid.Uint64Range(1, max).Draw(f.t, label)
}

func (f *filler) bytes(n int, label string) []byte {
	b := rapid.SliceOfN(rapid.Byte(), n, n).Draw(f.t, label)
	allZero := true
	for _, x := range b {
		if x != 0 {
			allZero = false
		}
	}
	if allZero && n > 0 {
		b[0] = 1
	}
	return b
}

func (f *filler) fill(v reflect.Value, path string) {
	v = settable(v)
	t := v.Type()
	if fn, ok := f.byType[t.PkgPath()+"."+t.Name()]; ok && t.Name() != "" {
		fn(f, v, path)
		return
	}
	if fn, ok := f.byType[t.Name()]; ok && t.Name() != "" {
		fn(f, v, path)
		return
	}
	switch t.Kind() {
	case reflect.Bool:
		v.SetBool(true)
	case reflect.Int, reflect.Int8, reflect.Int16, reflect.Int32, reflect.Int64:
		bits := t.Bits() - 1
		if t.Kind() == reflect.Int {
			bits = 20
		}
		v.SetInt(int64(f.nonZeroUint(bits, path)))
	case reflect.Uint, reflect.Uint8, reflect.Uint16, reflect.Uint32, reflect.Uint64:
		v.SetUint(f.nonZeroUint(t.Bits(), path))
	case reflect.Float32, reflect.Float64:
		v.SetFloat(float64(f.nonZeroUint(30, path)) / 7)
	case reflect.String:
		v.SetString(fmt.Sprintf("s%d-%d", f.next(), rapid.IntRange(0, 99).Draw(f.t, path)))
	case reflect.Array:
		if t.Elem().Kind() == reflect.Uint8 {
			reflect.Copy(v, reflect.ValueOf(f.bytes(t.Len(), path)))
			return
		}
		for i := 0; i < t.Len(); i++ {
			f.fill(v.Index(i), fmt.Sprintf("%s[%d]", path, i))
		}
	case reflect.Slice:
		if t.Elem().Kind() == reflect.Uint8 {
			v.SetBytes(f.bytes(33, path))
			return
		}
		n := rapid.IntRange(f.minLen, f.maxLen).Draw(f.t, path+".len")
		s := reflect.MakeSlice(t, n, n)
		for i := 0; i < n; i++ {
			f.fill(s.Index(i), fmt.Sprintf("%s[%d]", path, i))
		}
		v.Set(s)
	case reflect.Map:
		n := rapid.IntRange(f.minLen, f.maxLen).Draw(f.t, path+".len")
		m := reflect.MakeMapWithSize(t, n)
		for i := 0; i < n; i++ {
			k := reflect.New(t.Key()).Elem()
			f.fill(k, path+".key")
			e := reflect.New(t.Elem()).Elem()
			f.fill(e, path+".val")
			m.SetMapIndex(k, e)
		}
		v.Set(m)
	case reflect.Pointer:
		p := reflect.New(t.Elem())
		f.fill(p.Elem(), path)
		v.Set(p)
	case reflect.Struct:
		for i := 0; i < t.NumField(); i++ {
			sf := t.Field(i)
			key := t.Name() + "." + sf.Name
			if f.skipField[key] {
				continue
			}
			fp := path + "." + sf.Name
			if fn, ok := f.byField[key]; ok {
				fn(f, settable(v.Field(i)), fp)
				continue
			}
			switch sf.Type.Kind() {
			case reflect.Func, reflect.Chan, reflect.UnsafePointer:
				continue
			}
			if sf.Type.PkgPath() == "sync" {
				continue
			}
			f.fill(v.Field(i), fp)
		}
	case reflect.Interface:
		// left nil unless a byType/byField override handles it
	default:
		panic("c23: cannot fill kind " + t.Kind().String() + " at " + path)
	}
}
