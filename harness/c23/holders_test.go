package c23

import (
	"bytes"
	"encoding/json"
	"fmt"
	"reflect"
	"sort"
	"testing"

	"github.com/elastos/Elastos.ELA/blockchain/indexers"
	"github.com/elastos/Elastos.ELA/common"
	"github.com/elastos/Elastos.ELA/core/checkpoint"
	common2 "github.com/elastos/Elastos.ELA/core/types/common"
	"github.com/elastos/Elastos.ELA/core/types/interfaces"
	"github.com/elastos/Elastos.ELA/core/types/outputpayload"
	"github.com/elastos/Elastos.ELA/mempool"
	"github.com/elastos/Elastos.ELA/wallet"
	"pgregory.net/rapid"
	"verifharness/lib/canon"
	"verifharness/lib/vk"
	"verifharness/node"
	"verifharness/statekit"
)

// realTxs builds a few real transactions of different types (the checkpoints
// of the pool, the tx cache and the wallet hold transactions / outputs).
func realTxs(t *rapid.T, k *statekit.Kit, standalone bool) []interfaces.Transaction {
	n := rapid.IntRange(1, 6).Draw(t, "ntx")
	var txs []interfaces.Transaction
	for i := 0; i < n; i++ {
		a := rapid.IntRange(0, 7).Draw(t, "who")
		kind := rapid.IntRange(0, 6).Draw(t, "txkind")
		if standalone && (kind == 1 || kind == 2) {
			// update / cancel need the producer to exist in the state (pool conflict keys)
			kind = 0
		}
		switch kind {
		case 0:
			txs = append(txs, k.RegisterProducerTx(statekit.K(statekit.KeyOwnerBase+a), statekit.K(statekit.KeyNodeBase+a), fmt.Sprintf("n%d", i), 5000*statekit.ELA, 0))
		case 1:
			txs = append(txs, k.UpdateProducerTx(statekit.K(statekit.KeyOwnerBase+a), statekit.K(statekit.KeyNodeAltBase+a), fmt.Sprintf("u%d", i), 0))
		case 2:
			txs = append(txs, k.CancelProducerTx(statekit.K(statekit.KeyOwnerBase+a)))
		case 3:
			txs = append(txs, k.VoteTx(statekit.K(statekit.KeyVoterBase+a%4), common.Fixed64(rapid.IntRange(1, 500).Draw(t, "amt"))*statekit.ELA,
				outputpayload.VoteProducerVersion, []outputpayload.VoteContent{{VoteType: outputpayload.Delegate,
					CandidateVotes: []outputpayload.CandidateVotes{{Candidate: statekit.K(statekit.KeyOwnerBase + a).PK}}}}, nil))
		case 4:
			txs = append(txs, k.RegisterCRTx(statekit.K(statekit.KeyCRBase+a%6), fmt.Sprintf("c%d", i), 5000*statekit.ELA))
		case 5:
			txs = append(txs, k.TransferTx(statekit.K(statekit.KeyVoterBase+a%4), nil, []*common2.Output{
				statekit.PlainOutput(statekit.K(statekit.KeyOwnerBase+a).Standard, common.Fixed64(rapid.IntRange(1, 900).Draw(t, "amt2"))*statekit.ELA)}))
		default:
			txs = append(txs, k.ActivateProducerTx(statekit.K(statekit.KeyNodeBase+a)))
		}
	}
	return txs
}

func txBytes(tx interfaces.Transaction) string {
	buf := new(bytes.Buffer)
	if err := tx.Serialize(buf); err != nil {
		return "serialize error: " + err.Error()
	}
	return common.BytesToHexString(buf.Bytes())
}

// TestTxCacheRoundTrip: indexers.TxCache / indexers.Checkpoint.
func TestTxCacheRoundTrip(t *testing.T) {
	statekit.InitProcess()
	params := statekit.DefaultProfile().Params()
	rapid.Check(t, func(t *rapid.T) {
		k := statekit.New(statekit.DefaultProfile())
		defer k.Close()
		k.StartAt(40)
		txs := realTxs(t, k, false)
		tc := indexers.NewTxCache(params)
		want := map[string]string{}
		for i, tx := range txs {
			h := uint32(rapid.IntRange(1, 1<<20).Draw(t, "height"))
			tc.VerifSetTxn(h, tx)
			want[tx.Hash().String()] = fmt.Sprintf("%d:%s", h, txBytes(tx))
			_ = i
		}
		cp := indexers.NewCheckpoint(&indexers.UnspentIndex{TxCache: tc})
		cp.SetHeight(uint32(rapid.IntRange(1, 1<<20).Draw(t, "cpheight")))
		buf := new(bytes.Buffer)
		if err := cp.Serialize(buf); err != nil {
			vk.Report(t, "C23:roundtrip:indexers.Checkpoint:serialize-error", err.Error(), want)
			return
		}
		tc2 := indexers.NewTxCache(params)
		cp2 := indexers.NewCheckpoint(&indexers.UnspentIndex{TxCache: tc2})
		if err := cp2.Deserialize(bytes.NewReader(buf.Bytes())); err != nil {
			vk.Report(t, "C23:roundtrip:indexers.Checkpoint:deserialize-error", err.Error(), want)
			return
		}
		if cp2.GetHeight() != cp.GetHeight() {
			vk.Report(t, "C23:roundtrip:indexers.Checkpoint.height", fmt.Sprintf("%d != %d", cp2.GetHeight(), cp.GetHeight()), want)
			return
		}
		got := map[string]string{}
		for _, h := range tc2.VerifHashes() {
			ti := tc2.GetTxn(h)
			if ti == nil {
				continue
			}
			got[h.String()] = fmt.Sprintf("%d:%s", ti.BlockHeight, txBytes(ti.Txn))
		}
		if p, a, b := canon.FirstDiff(got, want); p != "" {
			vk.Report(t, "C23:roundtrip:indexers.TxCache.txns", fmt.Sprintf("%s: decoded %s, encoded %s", p, a, b), want)
			return
		}
		key, _ := json.Marshal(want)
		vk.Case("roundtrip/indexers.Checkpoint", len(txs) >= 2, key, func() any { return want })
	})
}

// TestTxPoolCheckpointRoundTrip: mempool.txPoolCheckpoint through the pool's
// hooks, on the in-process mini-node (restoring a pool re-validates every
// transaction against the chain).
func TestTxPoolCheckpointRoundTrip(t *testing.T) {
	rapid.Check(t, func(t *rapid.T) {
		n, err := node.New(node.Opts{})
		if err != nil {
			t.Fatalf("harness: node: %v", err)
		}
		defer n.Close()
		parent := n.Genesis
		nblocks := rapid.IntRange(3, 8).Draw(t, "nblocks")
		for i := 0; i < nblocks; i++ {
			b, err := n.BuildBlock(node.BlockSpec{Parent: parent})
			if err != nil {
				t.Fatalf("harness: build: %v", err)
			}
			if in, _, err := n.Process(b); err != nil || !in {
				t.Fatalf("harness: process: %v %v", in, err)
			}
			parent = b
		}
		blocks, err := n.ActiveChain()
		if err != nil {
			t.Fatalf("harness: chain: %v", err)
		}
		u, err := node.Replay(blocks, n.KeyIndexOf)
		if err != nil {
			t.Fatalf("harness: replay: %v", err)
		}
		coins := u.Spendable(n.Chain.GetHeight()+1, n.Params.PowConfiguration.CoinbaseMaturity)
		want := map[string]string{}
		ntx := rapid.IntRange(1, minInt(5, len(coins))).Draw(t, "ntx")
		for i := 0; i < ntx; i++ {
			c := coins[i]
			fee := common.Fixed64(rapid.IntRange(100, 100000).Draw(t, "fee"))
			to := n.Keys[rapid.IntRange(0, len(n.Keys)-1).Draw(t, "to")].ProgramHash
			part := c.Value / common.Fixed64(rapid.IntRange(2, 5).Draw(t, "part"))
			tx, err := n.Transfer([]node.Coin{c}, []node.Out{{To: to, Value: part}, {To: n.Keys[0].ProgramHash, Value: c.Value - part - fee}}, n.Chain.GetHeight()+1)
			if err != nil {
				t.Fatalf("harness: transfer: %v", err)
			}
			if e := n.Pool.AppendToTxPool(tx); e != nil {
				continue
			}
			want[tx.Hash().String()] = txBytes(tx)
		}
		data, err := n.Pool.VerifCheckpointBytes()
		if err != nil {
			vk.Report(t, "C23:roundtrip:mempool.txPoolCheckpoint:serialize-error", err.Error(), want)
			return
		}
		ckp2 := checkpoint.NewManager(n.Params)
		defer ckp2.Close()
		pool2 := mempool.NewTxPool(n.Params, ckp2)
		if err := pool2.VerifRestoreCheckpoint(data); err != nil {
			vk.Report(t, "C23:roundtrip:mempool.txPoolCheckpoint:deserialize-error", err.Error(), want)
			return
		}
		s1, s2 := n.Pool.VerifSnapshot(), pool2.VerifSnapshot()
		got := map[string]string{}
		for h, tx := range s2.TxList {
			got[h.String()] = txBytes(tx)
		}
		if p, a, b := canon.FirstDiff(got, want); p != "" {
			vk.Report(t, "C23:roundtrip:mempool.txPoolCheckpoint.txnList", fmt.Sprintf("%s: decoded %s, encoded %s", p, a, b), want)
			return
		}
		// the derived indexes (fee list, conflict slots) must be rebuilt to the same content
		norm := func(s *mempool.VerifSnapshot) any {
			fees := append([]mempool.VerifFeeItem{}, s.Fees...)
			sort.Slice(fees, func(i, j int) bool { return bytes.Compare(fees[i].Hash[:], fees[j].Hash[:]) < 0 })
			return map[string]any{"fees": fees, "size": s.TotalSize, "slots": s.Slots, "used": s.ProposalsUsedAmount}
		}
		if p, a, b := canon.FirstDiff(norm(s2), norm(s1)); p != "" {
			vk.Report(t, "C23:roundtrip:mempool.txPoolCheckpoint.derived:"+canon.Generalize(p), fmt.Sprintf("%s: restored %s, original %s", p, a, b), want)
			return
		}
		key, _ := json.Marshal(want)
		vk.Case("roundtrip/mempool.txPoolCheckpoint", len(want) >= 2, key, func() any { return want })
	})
}

func minInt(a, b int) int {
	if a < b {
		return a
	}
	return b
}

// TestCoinsCheckPointRoundTrip: wallet.CoinsCheckPoint, field-filled.
func TestCoinsCheckPointRoundTrip(t *testing.T) {
	rapid.Check(t, func(t *rapid.T) {
		x := wallet.NewCoinCheckPoint()
		f := newFiller(t)
		// outputs: real default / vote outputs (the payload depends on the type)
		f.byType["Output"] = func(f *filler, v reflect.Value, path string) {
			o := common2.Output{Value: common.Fixed64(f.nonZeroUint(40, path+".value")), OutputLock: uint32(f.nonZeroUint(32, path+".lock"))}
			copy(o.AssetID[:], f.bytes(32, path+".asset"))
			copy(o.ProgramHash[:], f.bytes(21, path+".ph"))
			if rapid.Bool().Draw(t, path+".vote") {
				o.Type = common2.OTVote
				o.Payload = &outputpayload.VoteOutput{Version: 0, Contents: []outputpayload.VoteContent{{VoteType: outputpayload.Delegate,
					CandidateVotes: []outputpayload.CandidateVotes{{Candidate: f.bytes(33, path+".cand")}}}}}
			} else {
				o.Type = common2.OTNone
				o.Payload = &outputpayload.DefaultOutput{}
			}
			v.Set(reflect.ValueOf(o))
		}
		f.byType["TransactionVersion"] = func(f *filler, v reflect.Value, path string) { v.SetUint(uint64(common2.TxVersion09)) }
		f.fill(reflect.ValueOf(x).Elem(), "")
		render := func() any { return canon.Dump(x).Short(4000) }
		buf := new(bytes.Buffer)
		if err := x.Serialize(buf); err != nil {
			vk.Report(t, "C23:roundtrip:wallet.CoinsCheckPoint:serialize-error", err.Error(), render())
			return
		}
		y := wallet.NewCoinCheckPoint()
		if err := y.Deserialize(bytes.NewReader(buf.Bytes())); err != nil {
			vk.Report(t, "C23:roundtrip:wallet.CoinsCheckPoint:deserialize-error", err.Error(), render())
			return
		}
		nx, ny := canon.Dump(x), canon.Dump(y)
		if df := (&canon.Differ{}).First(ny, nx); df != nil {
			df.Owner, df.Field = canon.OwnerOf(nx, df.Path)
			vk.Report(t, "C23:roundtrip:"+df.TypeSig(), fmt.Sprintf("wallet.CoinsCheckPoint %s: decoded %s, encoded %s", df.Path, df.A, df.B), render())
			return
		}
		vk.Case("roundtrip/wallet.CoinsCheckPoint", true, nx.Hash(), render)
	})
}
