package c21

import (
	"fmt"
	"testing"

	"github.com/elastos/Elastos.ELA/core/types/interfaces"
	"verifharness/lib/canon"
	"verifharness/lib/vk"
	"verifharness/statekit"
)

// TestOwnerKeyIsNodeKey is a fixed history for a known finding the generated
// histories avoid by construction: before DPoSV2StartHeight RegisterProducer
// admits an owner key that is already the NODE key of another producer;
// State.getProducer(ownerKey) then resolves to the other producer, an
// UpdateProducer of the new producer rewrites the wrong one and rolling that
// block back panics / does not restore the state.
func TestOwnerKeyIsNodeKey(t *testing.T) {
	p := statekit.DefaultProfile()
	p.VoteStart = 21
	p.CRCOnly = 60
	p.PublicDPOS = 70
	k := statekit.New(p)
	defer k.Close()
	k.StartAt(p.VoteStart - 1)
	a, b := statekit.K(statekit.KeyOwnerBase+4), statekit.K(statekit.KeyOwnerBase+5)
	var hist []string
	step := func(desc string, txs ...interfaces.Transaction) bool {
		hist = append(hist, desc)
		for _, tx := range txs {
			if err := k.CheckTx(tx, 0, 0); err != nil {
				// the node refuses the history: nothing to check (e.g. once the defect is repaired)
				vk.Case("known/owner-is-node-key/refused", false, nil, nil)
				t.Logf("%s refused: %v", desc, err)
				return false
			}
		}
		blk := k.NewBlock(txs)
		if err := k.CheckBlock(blk); err != nil {
			t.Fatalf("harness: block refused: %v", err)
		}
		k.Process(blk, nil)
		return true
	}
	if !step("register(owner a, node = key b)", k.RegisterProducerTx(a, b, "na", 5000*statekit.ELA, 0)) ||
		!step("empty") ||
		!step("register(owner b, node c)", k.RegisterProducerTx(b, statekit.K(statekit.KeyNodeBase+7), "nb", 5000*statekit.ELA, 0)) ||
		!step("empty") {
		return
	}
	before := k.ObserveDPoS()
	if !step("update(owner b)", k.UpdateProducerTx(b, statekit.K(statekit.KeyNodeBase+8), "nb2", 0)) {
		return
	}
	render := map[string]any{"history": hist}
	var err error
	if pn, val, frame := vk.Catch(func() { err = k.RollbackOne() }); pn {
		vk.Case("known/owner-is-node-key/panic", true, []byte("owner-is-node-key"), func() any { return render })
		vk.Report(t, "C21:rollback:owner-key-is-another-producers-node-key", fmt.Sprintf("RollbackTo panicked in %s: %v", frame, val), render)
		return
	}
	if err != nil {
		t.Fatalf("harness: rollback: %v", err)
	}
	if df := (&canon.Differ{}).First(k.ObserveDPoS().Live, before.Live); df != nil {
		vk.Case("known/owner-is-node-key/diff", true, []byte("owner-is-node-key"), func() any { return render })
		vk.Report(t, "C21:rollback:owner-key-is-another-producers-node-key", fmt.Sprintf("%s = %s, direct build has %s", df.Path, df.A, df.B), render)
		return
	}
	vk.Case("known/owner-is-node-key/clean", true, []byte("owner-is-node-key"), func() any { return render })
}
