// C21 - DPoS state after a rollback equals the state built directly.
//
// One real Arbiters/State/Committee instance (statekit) is fed a generated,
// node-valid block sequence; after every block the full state is dumped
// (canon).  The dump taken when the instance had processed exactly the blocks
// up to h IS the direct build to h.  Then the instance is rolled back the way
// reorganizeChain does it (one OnRollbackTo per detached block) and after
// every step compared with the direct-build dump of that height; then either
// the detached blocks are re-applied (and must reproduce the original dumps)
// or a fork is generated.  At the end a fresh instance is fed the final chain
// from scratch and compared with the instance that went through the rollbacks
// (hidden state such as change histories shows up here).
package c21

import (
	"encoding/json"
	"fmt"
	"os"
	"testing"

	"pgregory.net/rapid"
	"verifharness/lib/canon"
	"verifharness/lib/vk"
	"verifharness/statekit"
)

func TestMain(m *testing.M) { vk.Main(m, "C21") }

type history struct {
	Profile statekit.Profile     `json:"profile"`
	Era     string               `json:"era"`
	Ops     []string             `json:"ops"`
	Blocks  []statekit.BlockInfo `json:"blocks"`
}

type run struct {
	t     *rapid.T
	k     *statekit.Kit
	g     *statekit.Gen
	hist  *history
	dumps map[uint32]*statekit.DPoSObs
	base  uint32 // lowest height with a dump == lowest rollback target
	// blocks of the current chain (k.Blocks also holds abandoned ones)
	kinds    map[string]bool
	roundChg bool
	// classification
	maxDepth     int
	rollbacks    int
	forks        int
	kindsInRange int
	known        bool
	dead         string
}

func (r *run) render() any { return r.hist }

// compare reports the first difference between got (the instance under test)
// and want (the direct build).  The signature is the generalised path of the
// first differing field (one root cause is reported once per comparison: the
// fields after it usually repeat it).  Returns (clean, ok): clean = equal;
// ok = equal or a listed known finding (the caller resynchronises).
func (r *run) compare(clause string, h uint32, got, want *statekit.DPoSObs) (clean, ok bool) {
	views := []struct {
		name string
		a, b *canon.Node
	}{{"", got.Live, want.Live}, {"Checkpoint.", got.Checkpoint, want.Checkpoint}, {"Frame.", got.Frame, want.Frame}}
	for _, v := range views {
		df := (&canon.Differ{}).First(v.a, v.b)
		if df == nil {
			continue
		}
		sig := "C21:" + clause + ":" + v.name + df.Sig()
		detail := fmt.Sprintf("height %d: %s%s = %s, direct build has %s", h, v.name, df.Path, df.A, df.B)
		if !vk.Report(r.t, sig, detail, r.render()) {
			return false, false
		}
		r.known = true
		return false, true
	}
	return true, true
}

func (r *run) advance(n int) {
	for i := 0; i < n && r.dead == ""; i++ {
		before := r.k.Arbiters.DutyIndex
		nArb := len(r.k.Arbiters.CurrentArbitrators)
		b, c, info := r.g.Block(r.t)
		r.hist.Blocks = append(r.hist.Blocks, info)
		if p, val, frame := vk.Catch(func() { r.k.Process(b, c) }); p {
			// a node panic while connecting a valid block is not a rollback
			// question (C27/C03 territory); the history cannot continue
			r.dead = fmt.Sprintf("forward-panic:%s: %v", frame, val)
			if os.Getenv("C21_DEBUG") != "" {
				j, _ := json.Marshal(r.hist)
				fmt.Println(r.dead, string(j))
			}
			return
		}
		if ok, why := r.k.ProducerMapsConsistent(); !ok {
			if !r.conflictingTransitions(b.Height, why) {
				return
			}
			continue
		}
		r.dumps[b.Height] = r.k.ObserveDPoS()
		if r.k.Arbiters.DutyIndex < before || len(r.k.Arbiters.CurrentArbitrators) != nArb {
			r.roundChg = true
		}
	}
}

// conflictingTransitions handles a block after which the producer maps are
// inconsistent (known forward-processing defect: the per-transaction closures
// and the automatic transitions of one block are all computed from the
// pre-block state).  The block is detached again; if that does not give back
// the previous state the known finding is counted.  The history continues
// without the block.  Returns false when the case must stop.
func (r *run) conflictingTransitions(h uint32, why string) bool {
	vk.Class("forward-conflicting-transitions")
	r.hist.Ops = append(r.hist.Ops, fmt.Sprintf("block %d dropped: %s", h, why))
	var err error
	if p, val, frame := vk.Catch(func() { err = r.k.RollbackOne() }); p {
		vk.Report(r.t, "C21:rollback:panic:"+frame, fmt.Sprintf("RollbackTo(%d) panicked: %v", h-1, val), r.render())
		return false
	}
	if err != nil {
		vk.Report(r.t, "C21:rollback:error-within-capacity", fmt.Sprintf("RollbackTo(%d): %v", h-1, err), r.render())
		return false
	}
	if want := r.dumps[h-1]; want != nil {
		if df := (&canon.Differ{}).First(r.k.ObserveDPoS().Live, want.Live); df != nil {
			detail := fmt.Sprintf("block %d (%s) rolled back: %s = %s, direct build has %s", h, why, df.Path, df.A, df.B)
			if !vk.Report(r.t, "C21:rollback:two-transitions-of-one-producer-in-a-block", detail, r.render()) {
				return false
			}
			r.known = true
		}
	}
	r.truncateBlocks(h - 1)
	r.rebuild()
	return true
}

// rebuild replaces the instance by a fresh one fed the current chain (used to
// resynchronise after a known finding left the instance diverged).
func (r *run) rebuild() {
	old := r.k
	k := old.Rebuild(old.Height)
	old.Close()
	r.k = k
	r.g.K = k
}

func TestRollbackEqualsDirect(t *testing.T) {
	rapid.Check(t, func(t *rapid.T) {
		era := statekit.Era(rapid.SampledFrom(eras()).Draw(t, "era"))
		prof := statekit.DrawProfile(t, era)
		k := statekit.New(prof)
		r := &run{t: t, k: k, hist: &history{Profile: prof, Era: era.String()}, dumps: map[uint32]*statekit.DPoSObs{}, kinds: map[string]bool{}}
		defer func() { r.k.Close() }()
		r.g = statekit.NewGen(k)
		r.g.DrawLazy(t)
		if era >= statekit.EraCR {
			r.g.AddKinds(statekit.CRKinds())
		}
		// heights below VoteStart do not touch the DPoS state
		k.StartAt(prof.VoteStart - 1)
		r.base = prof.VoteStart
		// histories reach a drawn distance past the last activation height of the era
		last := prof.PublicDPOS
		switch era {
		case statekit.EraCR:
			last = prof.CRClaimStart
		case statekit.EraNewCR:
			last = prof.RevertToPOWStart
		case statekit.EraV2:
			last = prof.DPoSV2Start
		}
		maxHeight := last + uint32(rapid.IntRange(4, 30).Draw(t, "maxheight"))
		if vk.Thorough() {
			maxHeight = last + uint32(rapid.IntRange(4, 50).Draw(t, "maxheight2"))
		}
		// first block at VoteStart: after it the lowest rollback target exists
		r.advance(1)
		nops := rapid.IntRange(6, 30).Draw(t, "nops")
		for op := 0; op < nops; op++ {
			if r.k.Height >= maxHeight || r.dead != "" {
				break
			}
			if r.k.Height > r.base && rapid.IntRange(0, 2).Draw(t, "op") == 0 {
				if !r.rollbackEpisode() {
					return
				}
				continue
			}
			n := rapid.IntRange(1, 8).Draw(t, "advance")
			r.hist.Ops = append(r.hist.Ops, fmt.Sprintf("advance %d from %d", n, r.k.Height))
			r.advance(n)
		}
		if r.dead != "" {
			vk.Class("dead/" + r.dead[:minInt(len(r.dead), 90)])
			vk.Case("era-"+r.hist.Era+"/forward-panic", false, nil, nil)
			return
		}
		if r.k.Height > r.base {
			if !r.rollbackEpisode() {
				return
			}
		}
		if r.dead != "" {
			vk.Class("dead/" + r.dead[:minInt(len(r.dead), 90)])
			vk.Case("era-"+r.hist.Era+"/forward-panic", false, nil, nil)
			return
		}
		// fresh instance fed the final chain
		if r.rollbacks > 0 && !r.known {
			fresh := r.k.Rebuild(r.k.Height)
			got := r.k.ObserveDPoS()
			want := fresh.ObserveDPoS()
			fresh.Close()
			if _, ok := r.compare("rebuild", r.k.Height, got, want); !ok {
				return
			}
		}
		r.classify()
	})
}

// rollbackEpisode rolls back d blocks step by step, then re-applies or forks.
func (r *run) rollbackEpisode() bool {
	t := r.t
	tip := r.k.Height
	maxD := int(tip - r.base)
	d := 1
	switch rapid.IntRange(0, 3).Draw(t, "depthclass") {
	case 0:
		d = 1
	case 1, 2:
		d = rapid.IntRange(1, minInt(6, maxD)).Draw(t, "depth")
	case 3:
		d = rapid.IntRange(1, maxD).Draw(t, "deepdepth")
	}
	fork := rapid.IntRange(0, 2).Draw(t, "fork") == 0
	r.hist.Ops = append(r.hist.Ops, fmt.Sprintf("rollback %d from %d fork=%v", d, tip, fork))
	r.rollbacks++
	if d > r.maxDepth {
		r.maxDepth = d
	}
	// what is in the rolled-back range
	kinds := map[string]bool{}
	for _, bi := range r.hist.Blocks {
		if bi.Height > tip-uint32(d) && bi.Height <= tip {
			for _, s := range bi.Txs {
				for i := 0; i < len(s); i++ {
					if s[i] == '(' {
						kinds[s[:i]] = true
						break
					}
				}
			}
		}
	}
	if len(kinds) > r.kindsInRange {
		r.kindsInRange = len(kinds)
	}
	for i := 0; i < d; i++ {
		target := r.k.Height - 1
		var err error
		p, val, frame := vk.Catch(func() { err = r.k.RollbackOne() })
		if p {
			vk.Report(t, "C21:rollback:panic:"+frame, fmt.Sprintf("RollbackTo(%d) panicked: %v", target, val), r.render())
			return false
		}
		if err != nil {
			vk.Report(t, "C21:rollback:error-within-capacity", fmt.Sprintf("RollbackTo(%d): %v", target, err), r.render())
			return false
		}
		clean, ok := r.compare("rollback", target, r.k.ObserveDPoS(), r.dumps[target])
		if !ok {
			return false
		}
		if !clean {
			// known finding: resynchronise with a fresh build of the chain up to target
			r.rebuild()
		}
	}
	target := tip - uint32(d)
	if fork {
		r.forks++
		r.truncateBlocks(target)
		for h := range r.dumps {
			if h > target {
				delete(r.dumps, h)
			}
		}
		n := rapid.IntRange(1, d+2).Draw(t, "forklen")
		r.advance(n)
		return r.dead == ""
	}
	// re-apply the detached blocks: must reproduce the original states
	for r.k.Height < tip {
		if r.k.Blocks[r.k.Height+1] == nil {
			break
		}
		if p, val, frame := vk.Catch(func() { r.k.Replay() }); p {
			// the same block was processed without a panic before the rollback
			vk.Report(t, "C21:reapply:panic:"+frame, fmt.Sprintf("re-applying block %d after the rollback panicked: %v", r.k.Height+1, val), r.render())
			return false
		}
		clean, ok := r.compare("reapply", r.k.Height, r.k.ObserveDPoS(), r.dumps[r.k.Height])
		if !ok {
			return false
		}
		if !clean {
			r.rebuild()
		}
	}
	return true
}

// truncateBlocks drops the rendering of blocks above h (they are abandoned).
func (r *run) truncateBlocks(h uint32) {
	n := 0
	for _, bi := range r.hist.Blocks {
		if bi.Height <= h {
			r.hist.Blocks[n] = bi
			n++
		}
	}
	// abandoned blocks stay visible in the op log only
	if n < len(r.hist.Blocks) {
		r.hist.Ops = append(r.hist.Ops, fmt.Sprintf("abandon blocks above %d", h))
	}
	r.hist.Blocks = r.hist.Blocks[:n]
}

func (r *run) classify() {
	cl := "era-" + r.hist.Era
	switch {
	case r.rollbacks == 0:
		cl += "/no-rollback"
	case r.maxDepth > 6:
		cl += "/deep-rollback"
	case r.forks > 0:
		cl += "/fork"
	default:
		cl += "/rollback-reapply"
	}
	nt := r.rollbacks > 0 && (r.kindsInRange >= 2 || r.roundChg)
	key, _ := json.Marshal(r.hist)
	vk.Case(cl, nt, key, r.render)
	for k, v := range r.g.Accepted {
		vk.Count("tx-accepted/"+k, int64(v))
	}
	for k, v := range r.g.Rejected {
		vk.Count("tx-rejected/"+k, int64(v))
	}
	if r.roundChg {
		vk.Class("has-round-change")
	}
	vk.Count("blocks", int64(len(r.hist.Blocks)))
}

// eras lists the eras to draw from (C21_ERAS=0,1,2,3 narrows it for debugging).
func eras() []int {
	if v := os.Getenv("C21_ERAS"); v != "" {
		var out []int
		for _, c := range v {
			if c >= '0' && c <= '3' {
				out = append(out, int(c-'0'))
			}
		}
		return out
	}
	return []int{0, 1, 1, 2, 2, 2}
}

func minInt(a, b int) int {
	if a < b {
		return a
	}
	return b
}
