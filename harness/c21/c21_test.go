// C21 - DPoS state after a rollback equals the state built directly.
// The engine is verifharness/statekit/rbk (shared with C22); this package
// selects the DPoS side.
package c21

import (
	"testing"

	"github.com/elastos/Elastos.ELA/common"
	"pgregory.net/rapid"
	"verifharness/lib/vk"
	"verifharness/statekit"
	"verifharness/statekit/rbk"
)

func TestMain(m *testing.M) { vk.Main(m, "C21") }

func TestRollbackEqualsDirect(t *testing.T) {
	cfg := rbk.Config{Prop: "C21", Side: rbk.DPoS, Eras: rbk.ErasFromEnv([]int{0, 1, 1, 2, 2, 2, 3, 3}),
		Profile: func(t *rapid.T, p *statekit.Profile, era statekit.Era) {
			if era >= statekit.EraV2 {
				// vote weights are log10(lock/720): allow locks long enough to make
				// a producer "effective" so that DPoS 2.0 can become active
				p.DPoSV2MaxVotesLockTime = 100000
				p.DPoSV2EffectiveVotes = common.Fixed64(rapid.SampledFrom([]int64{80, 800}).Draw(t, "effective")) * statekit.ELA
				if rapid.Bool().Draw(t, "fewnormal") {
					p.NNormal = 2
				}
			}
		},
		Kinds: func(g *statekit.Gen, era statekit.Era) {
			if era >= statekit.EraV2 {
				// stake / voting / DPoS 2.0 registration kinds of the C28 builder
				g.AddKinds(statekit.C28Kinds())
				g.NProducers = 12
				g.MaxTxs = 4
				statekit.SetC28Drive(g, true)
				v2 := statekit.C28Kinds()
				g.Boost = func(kind string) int {
					if _, ok := v2[kind]; ok && g.K.Height+1 >= g.K.Params.DPoSV2StartHeight {
						return 3
					}
					return 1
				}
			}
		},
		Done: func(g *statekit.Gen) { statekit.SetC28Drive(g, false) }}
	rapid.Check(t, func(t *rapid.T) { rbk.Run(t, cfg) })
}
