// C21 - DPoS state after a rollback equals the state built directly.
// The engine is verifharness/statekit/rbk (shared with C22); this package
// selects the DPoS side.
package c21

import (
	"testing"

	"pgregory.net/rapid"
	"verifharness/lib/vk"
	"verifharness/statekit/rbk"
)

func TestMain(m *testing.M) { vk.Main(m, "C21") }

func TestRollbackEqualsDirect(t *testing.T) {
	cfg := rbk.Config{Prop: "C21", Side: rbk.DPoS, Eras: rbk.ErasFromEnv([]int{0, 1, 1, 2, 2, 2})}
	rapid.Check(t, func(t *rapid.T) { rbk.Run(t, cfg) })
}
