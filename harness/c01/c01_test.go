// C01 - no transaction creates value: outputs never exceed inputs.
//
// Three layers, one oracle (exact math/big sums):
//
//	(i)   checker level: for every transaction type of transaction.GetTransaction the
//	      type's CheckTransactionOutput + CheckTransactionFee(references) (and the fee
//	      step of CRCProposalWithdraw.SpecialContextCheck through the hook)
//	(ii)  blockchain.GetTxFee / GetTxFeeMap and the legacy BlockChain.CheckTransactionFee
//	(iii) end to end on the mini-node: a signed transfer spending a real coin is offered
//	      to the mempool and mined into a block given to ProcessBlock; the model's supply
//	      (exact sum over the replayed UTXO set) may only grow by the subsidy.
//
// accepted => every output >= 0, sum(outputs) <= sum(inputs) as integers, and the fee
// the node records is exactly sum(inputs) - sum(outputs).  In the other direction (all
// amounts far from the int64 edge) the fee verdict equals the exact rule (fee >=
// MinTransactionFee; == 0 for ActivateProducer), which keeps the check non-vacuous and
// pins the boundary.
package c01

import (
	"encoding/json"
	"fmt"
	"math"
	"math/big"
	"os"
	"testing"

	"github.com/elastos/Elastos.ELA/blockchain"
	"github.com/elastos/Elastos.ELA/common"
	"github.com/elastos/Elastos.ELA/core"
	"github.com/elastos/Elastos.ELA/core/contract"
	"github.com/elastos/Elastos.ELA/core/contract/program"
	"github.com/elastos/Elastos.ELA/core/transaction"
	ctypes "github.com/elastos/Elastos.ELA/core/types/common"
	"github.com/elastos/Elastos.ELA/core/types/functions"
	"github.com/elastos/Elastos.ELA/core/types/interfaces"
	"github.com/elastos/Elastos.ELA/core/types/outputpayload"
	"github.com/elastos/Elastos.ELA/core/types/payload"
	"pgregory.net/rapid"
	"verifharness/lib/vk"
	"verifharness/node"
)

func TestMain(m *testing.M) { vk.Main(m, "C01") }

const ela = 100000000

var (
	two64  = new(big.Int).Lsh(big.NewInt(1), 64)
	maxI64 = big.NewInt(math.MaxInt64)
)

func bigSum(vs []int64) *big.Int {
	s := new(big.Int)
	for _, v := range vs {
		s.Add(s, big.NewInt(v))
	}
	return s
}

// ---------------------------------------------------------------------------
// amount vectors

type amounts struct {
	Mode string  `json:"mode"`
	Ins  []int64 `json:"ins"`
	Outs []int64 `json:"outs"`
	// DupSeq, if set, makes every input reference the SAME outpoint (Ins are all equal)
	// with these Sequence values: the exact input sum is that one output's value
	DupSeq []uint32 `json:"dup_seq,omitempty"`
}

var inputEdges = []int64{0, 1, 99, 100, 101, ela, 10 * ela, 5000 * ela, 33000000 * ela}
var hugeEdges = []int64{1 << 62, 1<<62 - 1, 1<<62 + 1, math.MaxInt64, math.MaxInt64 - 1, 1 << 61, 3 << 61}

func drawSmallInputs(t *rapid.T, maxIn int) []int64 {
	n := rapid.IntRange(1, maxIn).Draw(t, "nin")
	ins := make([]int64, n)
	for i := range ins {
		if rapid.IntRange(0, 3).Draw(t, "inedge") == 0 {
			ins[i] = rapid.SampledFrom(inputEdges).Draw(t, "inedgev")
		} else {
			ins[i] = rapid.Int64Range(1, 1000*ela).Draw(t, "inv")
		}
	}
	return ins
}

// splitExact returns k values in [0, MaxInt64] summing exactly to S (S >= 0,
// S <= k*MaxInt64), jittered around S/k.
func splitExact(t *rapid.T, S *big.Int, k int) []int64 {
	out := make([]int64, k)
	if k == 1 {
		out[0] = S.Int64()
		return out
	}
	base := new(big.Int).Div(S, big.NewInt(int64(k)))
	rem := new(big.Int).Set(S)
	for i := 0; i < k-1; i++ {
		v := new(big.Int).Set(base)
		// jitter within what keeps v and the remaining share in range
		j := rapid.Int64Range(-1000*ela, 1000*ela).Draw(t, "jitter")
		v.Add(v, big.NewInt(j))
		if v.Sign() < 0 {
			v.SetInt64(0)
		}
		if v.Cmp(maxI64) > 0 {
			v.Set(maxI64)
		}
		// remaining after this one must fit into the outputs left: 0 <= rem-v <= (k-1-i)*MaxInt64
		left := new(big.Int).Sub(rem, v)
		capLeft := new(big.Int).Mul(maxI64, big.NewInt(int64(k-1-i)))
		if left.Sign() < 0 {
			v.Set(rem)
			if v.Cmp(maxI64) > 0 {
				v.Set(maxI64)
			}
		} else if left.Cmp(capLeft) > 0 {
			v.Sub(rem, capLeft)
		}
		out[i] = v.Int64()
		rem.Sub(rem, v)
	}
	if rem.Sign() < 0 || rem.Cmp(maxI64) > 0 {
		t.Fatalf("harness: splitExact left %v for the last of %d outputs", rem, k)
	}
	out[k-1] = rem.Int64()
	return out
}

var feeChoices = []int64{100, 100, 101, 10000, ela, 0, 1, 99, -1, -100}

// drawAmounts draws inputs and outputs. kFixed > 0 forces the output count.
func drawAmounts(t *rapid.T, kFixed, maxIn, maxOut int) amounts {
	mode := rapid.SampledFrom([]string{"honest", "honest", "boundary", "wrap-out", "wrap-out", "wrap-out", "wrap-in", "over", "random", "neg-balanced", "dup-outpoint", "dup-outpoint", "no-input"}).Draw(t, "mode")
	k := kFixed
	if k == 0 {
		k = rapid.IntRange(1, maxOut).Draw(t, "nout")
	}
	a := amounts{Mode: mode}
	switch mode {
	case "honest", "boundary", "over":
		a.Ins = drawSmallInputs(t, maxIn)
		I := bigSum(a.Ins)
		var fee int64
		switch mode {
		case "honest":
			fee = rapid.SampledFrom([]int64{100, 101, 1000, 10000, ela}).Draw(t, "fee")
		case "boundary":
			fee = rapid.SampledFrom(feeChoices).Draw(t, "fee")
		case "over":
			fee = -rapid.Int64Range(1, 1000*ela).Draw(t, "overby")
		}
		S := new(big.Int).Sub(I, big.NewInt(fee))
		if S.Sign() < 0 {
			S.SetInt64(0)
		}
		a.Outs = splitExact(t, S, k)
	case "wrap-out":
		// outputs >= 0 whose exact sum is inputs - fee + m*2^64: the int64 sum wraps to inputs - fee
		a.Ins = drawSmallInputs(t, maxIn)
		I := bigSum(a.Ins)
		fee := rapid.SampledFrom(feeChoices).Draw(t, "fee")
		maxM := (k - 1) / 2 // k outputs below 2^63 sum to less than k*2^63 = (k/2)*2^64
		if maxM < 1 {
			// not enough outputs to wrap: degrade to the largest possible sum
			a.Mode = "wrap-out-impossible"
			a.Outs = make([]int64, k)
			for i := range a.Outs {
				a.Outs[i] = rapid.SampledFrom(hugeEdges).Draw(t, "huge")
			}
			return a
		}
		m := rapid.IntRange(1, maxM).Draw(t, "wraps")
		S := new(big.Int).Sub(I, big.NewInt(fee))
		S.Add(S, new(big.Int).Mul(two64, big.NewInt(int64(m))))
		if S.Cmp(new(big.Int).Mul(maxI64, big.NewInt(int64(k)))) > 0 {
			S.Mul(maxI64, big.NewInt(int64(k)))
		}
		a.Outs = splitExact(t, S, k)
	case "wrap-in":
		// inputs whose exact sum exceeds int64 (only reachable after value was created)
		n := rapid.IntRange(2, maxIn).Draw(t, "nin")
		a.Ins = make([]int64, n)
		for i := range a.Ins {
			a.Ins[i] = rapid.SampledFrom(hugeEdges).Draw(t, "hugein")
		}
		I := bigSum(a.Ins)
		fee := rapid.SampledFrom(feeChoices).Draw(t, "fee")
		S := new(big.Int).Sub(I, big.NewInt(fee))
		S.Mod(S, two64)
		maxM := (k - 1) / 2
		if maxM > 0 {
			S.Add(S, new(big.Int).Mul(two64, big.NewInt(int64(rapid.IntRange(0, maxM).Draw(t, "wraps")))))
		}
		if S.Cmp(new(big.Int).Mul(maxI64, big.NewInt(int64(k)))) > 0 {
			S.Mod(S, new(big.Int).Mul(maxI64, big.NewInt(int64(k))))
		}
		a.Outs = splitExact(t, S, k)
	case "no-input":
		// no inputs at all, positive outputs: only "no cost" transaction types admit an empty
		// input list, and those must then carry no outputs
		a.Ins = []int64{}
		a.Outs = make([]int64, k)
		for i := range a.Outs {
			a.Outs[i] = rapid.OneOf(rapid.Int64Range(1, 1000*ela), rapid.SampledFrom([]int64{1, ela, 33000000 * ela})).Draw(t, "niout")
		}
	case "dup-outpoint":
		// one outpoint referenced k times with different Sequence values, outputs worth up to k coins
		v := rapid.OneOf(rapid.Int64Range(100000, 1000*ela), rapid.SampledFrom([]int64{ela, 10 * ela, 5000 * ela})).Draw(t, "coin")
		n := rapid.IntRange(2, 4).Draw(t, "copies")
		a.DupSeq = drawSequences(t, n)
		for i := 0; i < n; i++ {
			a.Ins = append(a.Ins, v)
		}
		fee := rapid.SampledFrom([]int64{100, 10000, 0}).Draw(t, "fee") // 0: the only fee ActivateProducer admits
		claimed := int64(n) * v
		if rapid.IntRange(0, 3).Draw(t, "partial") == 0 {
			claimed = rapid.Int64Range(v+fee+1, int64(n)*v).Draw(t, "claimed")
		}
		S := big.NewInt(claimed - fee)
		if S.Sign() < 0 {
			S.SetInt64(0)
		}
		a.Outs = splitExact(t, S, k)
	case "neg-balanced":
		// one negative output balanced by larger positive ones: the sum rule holds, the
		// per-output rule must refuse it
		a.Ins = drawSmallInputs(t, maxIn)
		I := bigSum(a.Ins)
		fee := rapid.SampledFrom([]int64{0, 100, 10000}).Draw(t, "fee")
		x := rapid.Int64Range(1, 1000*ela).Draw(t, "negx")
		S := new(big.Int).Sub(I, big.NewInt(fee))
		if S.Sign() < 0 {
			S.SetInt64(0)
		}
		S.Add(S, big.NewInt(x))
		if k < 2 {
			k = 2
		}
		a.Outs = append(splitExact(t, S, k-1), -x)
		if kFixed == 0 && rapid.Bool().Draw(t, "negfirst") {
			a.Outs[0], a.Outs[k-1] = a.Outs[k-1], a.Outs[0]
		}
	default: // random
		n := rapid.IntRange(1, maxIn).Draw(t, "nin")
		a.Ins = make([]int64, n)
		for i := range a.Ins {
			a.Ins[i] = rapid.OneOf(rapid.Int64Range(0, math.MaxInt64), rapid.SampledFrom(inputEdges), rapid.SampledFrom(hugeEdges)).Draw(t, "rin")
		}
		a.Outs = make([]int64, k)
		for i := range a.Outs {
			a.Outs[i] = rapid.OneOf(rapid.Int64(), rapid.Int64Range(0, math.MaxInt64), rapid.SampledFrom(hugeEdges),
				rapid.SampledFrom([]int64{-1, -100, math.MinInt64, 0, 1})).Draw(t, "rout")
		}
	}
	return a
}

// drawSequences: n Sequence values, mostly pairwise different.
func drawSequences(t *rapid.T, n int) []uint32 {
	seqs := make([]uint32, n)
	for i := range seqs {
		seqs[i] = rapid.OneOf(rapid.SampledFrom([]uint32{0, 1, math.MaxUint32, math.MaxUint32 - 1, math.MaxUint16}), rapid.Uint32()).Draw(t, "seq")
	}
	if rapid.IntRange(0, 7).Draw(t, "sameseq") != 0 {
		for i := range seqs { // force them apart
			for j := 0; j < i; j++ {
				if seqs[i] == seqs[j] {
					seqs[i] = seqs[j] + uint32(i) + 1
				}
			}
		}
	}
	return seqs
}

func (a amounts) exact() (I, O *big.Int, anyNeg bool, inRange bool) {
	I, O = bigSum(a.Ins), bigSum(a.Outs)
	if len(a.DupSeq) > 0 {
		I = big.NewInt(a.Ins[0]) // the one outpoint really spent
	}
	inRange = I.Cmp(maxI64) <= 0 && O.Cmp(maxI64) <= 0
	for _, v := range a.Outs {
		if v < 0 {
			anyNeg = true
			inRange = false
		}
	}
	for _, v := range a.Ins {
		if v < 0 {
			inRange = false
		}
	}
	if len(a.DupSeq) > 0 {
		inRange = false
	}
	return
}

func (a amounts) nontrivial() bool {
	if len(a.DupSeq) > 0 {
		return true
	}
	_, O, anyNeg, _ := a.exact()
	if anyNeg {
		return false
	}
	if O.Cmp(maxI64) > 0 {
		return true
	}
	for _, v := range a.Outs {
		if v >= 1<<62 {
			return true
		}
	}
	return false
}

func (a amounts) key(extra string) []byte {
	b, _ := json.Marshal(a)
	return append(b, extra...)
}

// ---------------------------------------------------------------------------
// layer (i): checker level

var allTypes = []ctypes.TxType{
	ctypes.RegisterAsset, ctypes.TransferAsset, ctypes.Record, ctypes.SideChainPow,
	ctypes.WithdrawFromSideChain, ctypes.TransferCrossChainAsset,
	ctypes.RegisterProducer, ctypes.CancelProducer, ctypes.UpdateProducer, ctypes.ReturnDepositCoin,
	ctypes.ActivateProducer, ctypes.IllegalProposalEvidence, ctypes.IllegalVoteEvidence,
	ctypes.IllegalBlockEvidence, ctypes.IllegalSidechainEvidence, ctypes.InactiveArbitrators,
	ctypes.UpdateVersion, ctypes.NextTurnDPOSInfo, ctypes.ProposalResult, ctypes.RegisterCR,
	ctypes.UnregisterCR, ctypes.UpdateCR, ctypes.ReturnCRDepositCoin, ctypes.CRCProposal,
	ctypes.CRCProposalReview, ctypes.CRCProposalTracking, ctypes.CRCAppropriation,
	ctypes.CRCProposalWithdraw, ctypes.CRCProposalRealWithdraw, ctypes.CRAssetsRectify,
	ctypes.CRCouncilMemberClaimNode, ctypes.RevertToPOW, ctypes.RevertToDPOS,
	ctypes.ReturnSideChainDepositCoin, ctypes.DposV2ClaimReward, ctypes.DposV2ClaimRewardRealWithdraw,
	ctypes.ExchangeVotes, ctypes.Voting, ctypes.ReturnVotes, ctypes.VotesRealWithdraw,
	ctypes.RecordSponsor, ctypes.CreateNFT, ctypes.NFTDestroyFromSideChain,
}

var shared *node.Node

func sharedNode(t interface{ Fatalf(string, ...any) }) *node.Node {
	if shared == nil {
		n, err := node.New(node.Opts{})
		if err != nil {
			t.Fatalf("harness: node: %v", err)
		}
		tip := n.Genesis
		for i := 0; i < 2; i++ {
			b, err := n.BuildBlock(node.BlockSpec{Parent: tip})
			if err != nil {
				t.Fatalf("harness: %v", err)
			}
			if _, _, err := n.Process(b); err != nil {
				t.Fatalf("harness: %v", err)
			}
			tip = b
		}
		shared = n
	}
	return shared
}

type checkerCase struct {
	Type    string  `json:"type"`
	TxType  byte    `json:"tx_type"`
	Version byte    `json:"version"`
	Height  uint32  `json:"height"`
	A       amounts `json:"amounts"`
}

func buildTyped(n *node.Node, tt ctypes.TxType, version ctypes.TransactionVersion, a amounts) (interfaces.Transaction, map[*ctypes.Input]ctypes.Output, error) {
	p := n.Params
	ins := make([]*ctypes.Input, len(a.Ins))
	refs := map[*ctypes.Input]ctypes.Output{}
	for i, v := range a.Ins {
		var id common.Uint256
		id[0], id[1], id[31] = byte(i+1), byte(tt), 0xc1
		ins[i] = &ctypes.Input{Previous: ctypes.OutPoint{TxID: id, Index: uint16(i)}, Sequence: 0}
		if len(a.DupSeq) > 0 {
			ins[i].Previous = ins[0].Previous
			ins[i].Sequence = a.DupSeq[i]
		}
		refs[ins[i]] = ctypes.Output{AssetID: core.ELAAssetID, Value: common.Fixed64(v), ProgramHash: n.Keys[i%len(n.Keys)].ProgramHash}
	}
	outs := make([]*ctypes.Output, len(a.Outs))
	for i, v := range a.Outs {
		outs[i] = &ctypes.Output{AssetID: core.ELAAssetID, Value: common.Fixed64(v), ProgramHash: n.Keys[(i+1)%len(n.Keys)].ProgramHash,
			Type: ctypes.OTNone, Payload: &outputpayload.DefaultOutput{}}
	}
	progs := []*program.Program{{Code: n.Keys[0].RedeemScript, Parameter: make([]byte, 65)}}
	switch tt {
	case ctypes.CRCAppropriation:
		if len(outs) == 2 {
			outs[0].ProgramHash = *p.CRConfiguration.CRExpensesProgramHash
			outs[1].ProgramHash = *p.CRConfiguration.CRAssetsProgramHash
		}
	case ctypes.ExchangeVotes:
		if len(outs) >= 1 {
			ct, err := contract.CreateStakeContractByCode(progs[0].Code)
			if err != nil {
				return nil, nil, err
			}
			outs[0].Type = ctypes.OTStake
			outs[0].Payload = &outputpayload.ExchangeVotesOutput{Version: 0, StakeAddress: *ct.ToProgramHash()}
			outs[0].ProgramHash = *p.StakePoolProgramHash
		}
	}
	// the checks under test never look at the payload; CheckTransactionFee serialises the
	// transaction (result ignored), so any serialisable payload will do
	tx := functions.CreateTransaction(version, tt, 0, &payload.TransferAsset{}, []*ctypes.Attribute{}, ins, outs, 0, progs)
	if tx == nil {
		return nil, nil, fmt.Errorf("no transaction for type %v", tt)
	}
	return tx, refs, nil
}

func fixedOutCount(tt ctypes.TxType, t *rapid.T) int {
	switch tt {
	case ctypes.CRCAppropriation:
		return 2
	case ctypes.ExchangeVotes:
		return rapid.IntRange(1, 2).Draw(t, "evouts")
	}
	return 0
}

func TestCheckerLevel(t *testing.T) {
	maxOut := 8
	if vk.Thorough() {
		maxOut = 12
	}
	rapid.Check(t, func(rt *rapid.T) {
		n := sharedNode(rt)
		tt := rapid.SampledFrom(allTypes).Draw(rt, "type")
		if rapid.IntRange(0, 3).Draw(rt, "favour") == 0 {
			tt = rapid.SampledFrom([]ctypes.TxType{ctypes.TransferAsset, ctypes.ActivateProducer, ctypes.CRCProposalWithdraw,
				ctypes.TransferCrossChainAsset, ctypes.WithdrawFromSideChain, ctypes.ReturnSideChainDepositCoin, ctypes.SideChainPow,
				ctypes.ExchangeVotes, ctypes.CRCAppropriation, ctypes.Voting}).Draw(rt, "type2")
		}
		version := rapid.SampledFrom([]ctypes.TransactionVersion{ctypes.TxVersionDefault, ctypes.TxVersion09}).Draw(rt, "version")
		p := n.Params
		nft, mev := p.DPoSConfiguration.NFTStartHeight, p.MultiExchangeVotesStartHeight
		height := rapid.SampledFrom([]uint32{1, 3, p.PublicDPOSHeight - 1, p.PublicDPOSHeight, p.PublicDPOSHeight + 1,
			nft - 1, nft, nft + 1, nft, nft + 1, mev - 1, mev, mev + 1, p.DPoSV2StartHeight, 3000000}).Draw(rt, "height")
		a := drawAmounts(rt, fixedOutCount(tt, rt), 6, maxOut)
		cc := checkerCase{Type: tt.Name(), TxType: byte(tt), Version: byte(version), Height: height, A: a}
		checkCheckerCase(rt, n, cc)
	})
}

func checkCheckerCase(t vk.TB, n *node.Node, cc checkerCase) {
	tt := ctypes.TxType(cc.TxType)
	a := cc.A
	tx, refs, err := buildTyped(n, tt, ctypes.TransactionVersion(cc.Version), a)
	if err != nil {
		t.Fatalf("harness: build %s: %v", cc.Type, err)
	}
	para := functions.GetTransactionParameters(tx, cc.Height, 0, n.Params, n.Chain, 0)
	if e := tx.SetParameters(para); e != nil {
		t.Fatalf("harness: SetParameters: %v", e)
	}
	I, O, anyNeg, inRange := a.exact()
	exactFee := new(big.Int).Sub(I, O)
	minFee := big.NewInt(int64(n.Params.MinTransactionFee))

	var inErr, outErr, feeErr error
	panicked, pv, frame := vk.Catch(func() {
		inErr = tx.CheckTransactionInput()
		outErr = tx.CheckTransactionOutput()
		if outErr == nil {
			feeErr = tx.CheckTransactionFee(refs)
		}
	})
	if panicked {
		t.Fatalf("harness: checker panicked for %s: %v at %s", cc.Type, pv, frame)
	}
	// real order (SanityCheck: input, output; ContextCheck: SpecialContextCheck, then the fee
	// check unless the special check ended validation).  ActivateProducer ends it at heights
	// <= NFTStartHeight (payload signature and producer state assumed valid), so the fee
	// check is not reached there.
	feeSkipped := tt == ctypes.ActivateProducer && cc.Height <= n.Params.DPoSConfiguration.NFTStartHeight
	accepted := inErr == nil && outErr == nil && (feeErr == nil || feeSkipped)
	if accepted && feeSkipped && O.Cmp(I) > 0 {
		vk.Report(t, "C01:ActivateProducerTransaction.CheckTransactionOutput:outputs-accepted-where-fee-check-is-skipped",
			fmt.Sprintf("%s at height %d (NFTStartHeight %d): %d inputs (sum %v), outputs %v pass the input and output checks and the fee check is never reached",
				cc.Type, cc.Height, n.Params.DPoSConfiguration.NFTStartHeight, len(a.Ins), I, a.Outs), cc)
		return
	}
	if len(a.DupSeq) > 0 {
		// the input check is what has to refuse a repeated outpoint
		if accepted && O.Cmp(I) > 0 {
			vk.Report(t, fmt.Sprintf("C01:%s.CheckTransactionInput:repeated-outpoint-accepted", inputChecker(tt)),
				fmt.Sprintf("%s at height %d: %d inputs on one outpoint worth %v (sequences %v) pass CheckTransactionInput/Output/Fee with outputs summing to %v",
					cc.Type, cc.Height, len(a.Ins), I, a.DupSeq, O), cc)
			return
		}
		vk.Class("dup-outpoint input-check " + map[bool]string{true: "passed", false: "refused"}[inErr == nil])
	}
	class := fmt.Sprintf("%s %s", cc.Type, map[bool]string{true: "out-ok", false: "out-rejected"}[outErr == nil])
	if outErr == nil {
		class += map[bool]string{true: " fee-ok", false: " fee-rejected"}[feeErr == nil]
	}
	vk.Class("mode=" + a.Mode + map[bool]string{true: " accepted", false: " refused"}[accepted])
	rend := func() any { return cc }
	defer vk.Case(class, a.nontrivial() && outErr == nil, a.key(cc.Type+fmt.Sprint(cc.Version, cc.Height)), rend)

	checker := "DefaultChecker"
	if tt == ctypes.ActivateProducer {
		checker = "ActivateProducerTransaction"
	}
	wrapped := O.Cmp(maxI64) > 0 || I.Cmp(maxI64) > 0
	if accepted {
		if anyNeg {
			vk.Report(t, fmt.Sprintf("C01:%s.CheckTransactionOutput:negative-output-accepted", typeStruct(tt)),
				fmt.Sprintf("%s at height %d: outputs %v pass CheckTransactionOutput and CheckTransactionFee", cc.Type, cc.Height, a.Outs), cc)
			return
		}
		if O.Cmp(I) > 0 {
			sig := fmt.Sprintf("C01:%s.CheckTransactionFee:outputs-exceed-inputs", checker)
			if wrapped {
				sig = "C01:transaction.getTransactionFee:wrapped-sum-accepted"
			}
			vk.Report(t, sig, fmt.Sprintf("%s: inputs %v (sum %v) outputs %v (sum %v) accepted, fee recorded %d", cc.Type, a.Ins, I, a.Outs, O, int64(tx.Fee())), cc)
			return
		}
		if !feeSkipped && big.NewInt(int64(tx.Fee())).Cmp(exactFee) != 0 {
			vk.Report(t, "C01:transaction.getTransactionFee:fee-not-exact",
				fmt.Sprintf("%s: recorded fee %d, exact %v", cc.Type, int64(tx.Fee()), exactFee), cc)
			return
		}
	}
	// other direction, only where no sum can leave int64
	if outErr == nil && inRange {
		want := exactFee.Cmp(minFee) >= 0
		if tt == ctypes.ActivateProducer {
			want = exactFee.Sign() == 0
		}
		if want != (feeErr == nil) {
			vk.Report(t, fmt.Sprintf("C01:%s.CheckTransactionFee:verdict-differs-from-exact-fee", checker),
				fmt.Sprintf("%s: exact fee %v, min %v, CheckTransactionFee error: %v", cc.Type, exactFee, minFee, feeErr), cc)
			return
		}
	}
	// the helper itself (also used by CRCProposalWithdraw.SpecialContextCheck)
	if !anyNeg && len(a.DupSeq) == 0 {
		fee, ferr := transaction.VerifGetTransactionFee(tx, refs)
		if ferr == nil && big.NewInt(int64(fee)).Cmp(exactFee) != 0 {
			if exactFee.Cmp(minFee) < 0 && big.NewInt(int64(fee)).Cmp(minFee) >= 0 {
				// the wrapped value would pass every caller's fee test
				vk.Report(t, "C01:transaction.getTransactionFee:wrapped-sum-accepted",
					fmt.Sprintf("getTransactionFee reports %d, exact %v", int64(fee), exactFee), cc)
				return
			}
			vk.Count("helper_inexact_but_refused_by_callers", 1)
		}
		if w, ok := tx.(*transaction.CRCProposalWithdrawTransaction); ok {
			small, werr := transaction.VerifCRCProposalWithdrawFeeTooSmall(w, refs)
			passes := werr == nil && !small
			if passes && O.Cmp(I) > 0 {
				vk.Report(t, "C01:transaction.getTransactionFee:wrapped-sum-accepted",
					fmt.Sprintf("CRCProposalWithdraw fee step passes with inputs %v outputs %v", I, O), cc)
				return
			}
			if inRange && passes != (exactFee.Cmp(minFee) >= 0) {
				vk.Report(t, "C01:CRCProposalWithdrawTransaction.SpecialContextCheck:fee-verdict-differs-from-exact-fee",
					fmt.Sprintf("exact fee %v, min %v, passes=%v err=%v", exactFee, minFee, passes, werr), cc)
				return
			}
		}
	}
}

// overridesOutputCheck: transaction types with their own CheckTransactionOutput;
// all others run DefaultChecker's (one root cause, one signature).
var overridesOutputCheck = map[ctypes.TxType]bool{
	ctypes.NextTurnDPOSInfo: true, ctypes.RecordSponsor: true, ctypes.IllegalProposalEvidence: true,
	ctypes.SideChainPow: true, ctypes.TransferAsset: true, ctypes.IllegalBlockEvidence: true,
	ctypes.NFTDestroyFromSideChain: true, ctypes.IllegalVoteEvidence: true, ctypes.CoinBase: true,
	ctypes.CRCAppropriation: true, ctypes.IllegalSidechainEvidence: true, ctypes.ExchangeVotes: true,
	ctypes.TransferCrossChainAsset: true, ctypes.UpdateVersion: true, ctypes.RevertToPOW: true,
	ctypes.WithdrawFromSideChain: true, ctypes.ActivateProducer: true, ctypes.ReturnSideChainDepositCoin: true,
	ctypes.InactiveArbitrators: true, ctypes.RevertToDPOS: true,
}

func inputChecker(tt ctypes.TxType) string {
	switch tt {
	case ctypes.ActivateProducer:
		return "ActivateProducerTransaction"
	case ctypes.SideChainPow:
		return "SideChainPOWTransaction"
	}
	return "DefaultChecker"
}

func typeStruct(tt ctypes.TxType) string {
	if !overridesOutputCheck[tt] {
		return "DefaultChecker"
	}
	tx, err := transaction.GetTransaction(tt)
	if err != nil {
		return tt.Name()
	}
	s := fmt.Sprintf("%T", tx)
	if len(s) > len("*transaction.") {
		return s[len("*transaction."):]
	}
	return s
}

// ---------------------------------------------------------------------------
// layer (ii): blockchain.GetTxFee / GetTxFeeMap / legacy BlockChain.CheckTransactionFee

type feeMapCase struct {
	A        amounts `json:"amounts"`
	InAsset  []byte  `json:"in_asset"` // 0 = ELA, 1 = other asset
	OutAsset []byte  `json:"out_asset"`
}

func TestGetTxFee(t *testing.T) {
	rapid.Check(t, func(rt *rapid.T) {
		n := sharedNode(rt)
		a := drawAmounts(rt, 0, 6, 8)
		a.DupSeq = nil             // the fee helpers are only handed input lists that passed the input check
		for i, v := range a.Outs { // callers only pass validated (non-negative) amounts
			if v < 0 {
				a.Outs[i] = 0
			}
		}
		fc := feeMapCase{A: a}
		multi := rapid.IntRange(0, 3).Draw(rt, "multiasset") == 0
		for range a.Ins {
			b := byte(0)
			if multi {
				b = byte(rapid.IntRange(0, 1).Draw(rt, "inasset"))
			}
			fc.InAsset = append(fc.InAsset, b)
		}
		for range a.Outs {
			b := byte(0)
			if multi {
				b = byte(rapid.IntRange(0, 1).Draw(rt, "outasset"))
			}
			fc.OutAsset = append(fc.OutAsset, b)
		}
		checkFeeMapCase(rt, n, fc)
	})
}

func checkFeeMapCase(t vk.TB, n *node.Node, fc feeMapCase) {
	a := fc.A
	tx, refs, err := buildTyped(n, ctypes.TransferAsset, ctypes.TxVersionDefault, a)
	if err != nil {
		t.Fatalf("harness: %v", err)
	}
	other := common.Uint256{0xaa, 0xbb}
	assetOf := func(b byte) common.Uint256 {
		if b == 0 {
			return core.ELAAssetID
		}
		return other
	}
	exact := map[common.Uint256]*big.Int{}
	add := func(id common.Uint256, v int64, sign int64) {
		if exact[id] == nil {
			exact[id] = new(big.Int)
		}
		exact[id].Add(exact[id], new(big.Int).Mul(big.NewInt(v), big.NewInt(sign)))
	}
	for i, in := range tx.Inputs() {
		o := refs[in]
		o.AssetID = assetOf(fc.InAsset[i])
		refs[in] = o
		add(o.AssetID, int64(o.Value), 1)
	}
	for i, o := range tx.Outputs() {
		o.AssetID = assetOf(fc.OutAsset[i])
		add(o.AssetID, int64(o.Value), -1)
	}
	I, O, _, inRange := a.exact()
	rend := func() any { return fc }
	class := "feemap mode=" + a.Mode
	defer vk.Case(class, a.nontrivial(), a.key("feemap"+string(fc.InAsset)+"/"+string(fc.OutAsset)), rend)

	fm, ferr := blockchain.GetTxFeeMap(tx, refs)
	if ferr == nil {
		for id, want := range exact {
			got := big.NewInt(int64(fm[id]))
			if got.Cmp(want) != 0 {
				vk.Report(t, "C01:blockchain.GetTxFeeMap:wrapped-sum",
					fmt.Sprintf("asset %x: reported %v, exact %v (inputs %v outputs %v)", id[:2], got, want, a.Ins, a.Outs), fc)
				return
			}
		}
		for id := range fm {
			if exact[id] == nil && fm[id] != 0 {
				vk.Report(t, "C01:blockchain.GetTxFeeMap:unknown-asset", fmt.Sprintf("asset %x", id[:2]), fc)
				return
			}
		}
	} else {
		vk.Class("feemap error")
		if inRange {
			vk.Report(t, "C01:blockchain.GetTxFeeMap:error-on-representable-sums", ferr.Error(), fc)
			return
		}
	}
	fee := blockchain.GetTxFee(tx, core.ELAAssetID, refs)
	if want := exact[core.ELAAssetID]; want != nil && ferr == nil && big.NewInt(int64(fee)).Cmp(want) != 0 {
		vk.Report(t, "C01:blockchain.GetTxFeeMap:wrapped-sum", fmt.Sprintf("GetTxFee %d exact %v", int64(fee), want), fc)
		return
	}
	// legacy checker on BlockChain (single asset view)
	single := true
	for _, b := range append(append([]byte{}, fc.InAsset...), fc.OutAsset...) {
		if b != 0 {
			single = false
		}
	}
	if single {
		lerr := n.Chain.CheckTransactionFee(tx, refs)
		minFee := big.NewInt(int64(n.Params.MinTransactionFee))
		if lerr == nil && O.Cmp(I) > 0 {
			vk.Report(t, "C01:blockchain.getTransactionFee:wrapped-sum-accepted",
				fmt.Sprintf("BlockChain.CheckTransactionFee accepts inputs %v outputs %v", a.Ins, a.Outs), fc)
			return
		}
		if inRange && (lerr == nil) != (new(big.Int).Sub(I, O).Cmp(minFee) >= 0) {
			vk.Report(t, "C01:BlockChain.CheckTransactionFee:verdict-differs-from-exact-fee", fmt.Sprintf("err=%v", lerr), fc)
			return
		}
	}
}

// ---------------------------------------------------------------------------
// layer (iii): end to end on the mini-node

type e2eTx struct {
	Mode   string   `json:"mode"`
	Coins  int      `json:"coins"` // number of coins spent (1..2)
	Pick   int      `json:"pick"`
	Outs   []int64  `json:"outs"`
	Fee    int64    `json:"claimed_fee"` // what the int64 arithmetic of the node yields
	DupSeq []uint32 `json:"dup_seq,omitempty"`
}

// dupTransfer builds and signs a TransferAsset whose inputs all reference coin c,
// with the given Sequence values.
func dupTransfer(n *node.Node, c node.Coin, seqs []uint32, outs []node.Out, atHeight uint32) (interfaces.Transaction, error) {
	var ins []*ctypes.Input
	for _, s := range seqs {
		ins = append(ins, &ctypes.Input{Previous: c.Op, Sequence: s})
	}
	var os []*ctypes.Output
	for _, o := range outs {
		os = append(os, &ctypes.Output{AssetID: core.ELAAssetID, Value: o.Value, ProgramHash: o.To,
			Type: ctypes.OTNone, Payload: &outputpayload.DefaultOutput{}})
	}
	tx := functions.CreateTransaction(n.TxVersionAt(atHeight), ctypes.TransferAsset, 0, &payload.TransferAsset{},
		[]*ctypes.Attribute{}, ins, os, 0, []*program.Program{})
	if err := n.SignStandard(tx, []node.Coin{c}); err != nil {
		return nil, err
	}
	return tx, nil
}

type e2eCase struct {
	Txs []e2eTx `json:"txs"`
}

func exactSupply(u node.UTXOSet) *big.Int {
	s := new(big.Int)
	for _, c := range u {
		s.Add(s, big.NewInt(int64(c.Value)))
	}
	return s
}

func TestEndToEnd(t *testing.T) {
	rapid.Check(t, func(rt *rapid.T) {
		n, err := node.New(node.Opts{})
		if err != nil {
			rt.Fatalf("harness: node: %v", err)
		}
		defer n.Close()
		tip := n.Genesis
		for i := 0; i < 3; i++ {
			b, err := n.BuildBlock(node.BlockSpec{Parent: tip, MinerKey: i % 3})
			if err != nil {
				rt.Fatalf("harness: %v", err)
			}
			if in, _, err := n.Process(b); err != nil || !in {
				rt.Fatalf("harness: setup block: %v", err)
			}
			tip = b
		}
		chain, err := n.ActiveChain()
		if err != nil {
			rt.Fatalf("harness: %v", err)
		}
		u, err := node.Replay(chain, n.KeyIndexOf)
		if err != nil {
			rt.Fatalf("harness: replay: %v", err)
		}
		maturity := n.Params.PowConfiguration.CoinbaseMaturity
		ntx := rapid.IntRange(1, 5).Draw(rt, "ntx")
		var ec e2eCase
		for k := 0; k < ntx; k++ {
			spendable := u.Spendable(tip.Height+1, maturity)
			// keep to coins whose value is far from the int64 edge unless value was already created
			if len(spendable) == 0 {
				rt.Fatalf("harness: no spendable coin")
			}
			pick := rapid.IntRange(0, len(spendable)-1).Draw(rt, "coin")
			coins := []node.Coin{spendable[pick]}
			if len(spendable) > 1 && rapid.IntRange(0, 3).Draw(rt, "twocoins") == 0 {
				coins = append(coins, spendable[(pick+1)%len(spendable)])
			}
			ins := make([]int64, len(coins))
			for i, c := range coins {
				ins[i] = int64(c.Value)
			}
			I := bigSum(ins)
			mode := rapid.SampledFrom([]string{"honest", "boundary", "over", "wrap-out", "wrap-out", "dup-outpoint", "dup-outpoint"}).Draw(rt, "mode")
			if I.Cmp(maxI64) > 0 {
				mode = "honest"
			}
			var dupSeq []uint32
			if mode == "dup-outpoint" {
				// the same coin referenced 2-4 times with different Sequence values
				coins = coins[:1]
				ins = ins[:1]
				I = bigSum(ins)
				dupSeq = drawSequences(rt, rapid.IntRange(2, 4).Draw(rt, "copies"))
			}
			nout := rapid.IntRange(1, 6).Draw(rt, "nout")
			var fee int64
			var S *big.Int
			switch mode {
			case "honest":
				fee = rapid.SampledFrom([]int64{100, 101, 10000}).Draw(rt, "fee")
				S = new(big.Int).Sub(I, big.NewInt(fee))
			case "boundary":
				fee = rapid.SampledFrom([]int64{99, 100, 0, 1}).Draw(rt, "fee")
				S = new(big.Int).Sub(I, big.NewInt(fee))
			case "over":
				fee = -rapid.Int64Range(1, 10*ela).Draw(rt, "over")
				S = new(big.Int).Sub(I, big.NewInt(fee))
			case "dup-outpoint":
				fee = rapid.SampledFrom([]int64{100, 10000}).Draw(rt, "fee")
				claimed := new(big.Int).Mul(I, big.NewInt(int64(len(dupSeq))))
				if rapid.IntRange(0, 3).Draw(rt, "partial") == 0 && ins[0] > 2 {
					claimed = big.NewInt(rapid.Int64Range(ins[0]+fee+1, ins[0]+fee+1+ins[0]/2).Draw(rt, "claimed"))
				}
				S = new(big.Int).Sub(claimed, big.NewInt(fee))
			case "wrap-out":
				if nout < 3 {
					nout = 3 + nout
				}
				fee = rapid.SampledFrom([]int64{100, 10000, ela, 99}).Draw(rt, "fee")
				m := rapid.IntRange(1, (nout-1)/2).Draw(rt, "wraps")
				S = new(big.Int).Sub(I, big.NewInt(fee))
				S.Add(S, new(big.Int).Mul(two64, big.NewInt(int64(m))))
			}
			if S.Sign() < 0 {
				S.SetInt64(0)
			}
			if S.Cmp(new(big.Int).Mul(maxI64, big.NewInt(int64(nout)))) > 0 {
				S.Mul(maxI64, big.NewInt(int64(nout)))
			}
			outsV := splitExact(rt, S, nout)
			et := e2eTx{Mode: mode, Coins: len(coins), Pick: pick, Outs: outsV, Fee: fee, DupSeq: dupSeq}
			ec.Txs = append(ec.Txs, et)
			O := bigSum(outsV)
			createsValue := O.Cmp(I) > 0
			exactFee := new(big.Int).Sub(I, O)
			honest := exactFee.Cmp(big.NewInt(int64(n.Params.MinTransactionFee))) >= 0 && O.Cmp(maxI64) <= 0 && I.Cmp(maxI64) <= 0 && dupSeq == nil

			var outs []node.Out
			for i, v := range outsV {
				outs = append(outs, node.Out{To: n.Keys[(k+i)%len(n.Keys)].ProgramHash, Value: common.Fixed64(v)})
			}
			build := func() (interfaces.Transaction, error) {
				if dupSeq == nil {
					return n.Transfer(coins, outs, tip.Height+1)
				}
				return dupTransfer(n, coins[0], dupSeq, outs, tip.Height+1)
			}
			tx, err := build()
			if err != nil {
				rt.Fatalf("harness: transfer: %v", err)
			}
			rend := func() any { return map[string]any{"case": ec, "inputs": ins, "step": k, "dup_seq": dupSeq} }
			am := amounts{Mode: mode, Ins: ins, Outs: outsV}
			vk.Case("e2e mode="+mode, am.nontrivial(), am.key(fmt.Sprint("e2e", k)), rend)

			// path 1: mempool (unit e2e-block skips it so that the block path is judged on its own)
			var perr error
			if os.Getenv("VERIF_C01_PATH") == "block" {
				perr = fmt.Errorf("skipped")
				if honest {
					perr = nil
				}
			} else if e := n.Pool.AppendToTxPool(tx); e != nil {
				perr = e
			}
			vk.Class("e2e mempool " + map[bool]string{true: "accepted", false: "refused"}[perr == nil] + " mode=" + mode)
			if perr == nil && createsValue && dupSeq != nil {
				vk.Report(rt, "C01:TxPool.AppendToTxPool:repeated-outpoint-accepted",
					fmt.Sprintf("mempool accepted a transfer referencing one coin of %v sela %d times (sequences %v) with outputs summing to %v", I, len(dupSeq), dupSeq, O), rend())
				return
			}
			if perr == nil && createsValue {
				vk.Report(rt, "C01:TxPool.AppendToTxPool:outputs-exceed-inputs",
					fmt.Sprintf("mempool accepted a transfer spending %v sela with outputs %v (exact sum %v)", I, outsV, O), rend())
				return
			}
			if perr != nil && honest {
				vk.Report(rt, "C01:TxPool.AppendToTxPool:honest-rejected", fmt.Sprintf("%v", perr), rend())
				return
			}
			// path 2: a block carrying the transaction (independent of the pool's verdict)
			claimed := common.Fixed64(ins[0])
			for _, v := range ins[1:] {
				claimed += common.Fixed64(v)
			}
			for _, v := range outsV {
				claimed -= common.Fixed64(v) // int64 arithmetic, as the node does
			}
			if claimed < 0 {
				claimed = 0
			}
			if dupSeq != nil { // the node would count the coin once per input
				claimed = common.Fixed64(ins[0]) * common.Fixed64(len(dupSeq))
				for _, v := range outsV {
					claimed -= common.Fixed64(v)
				}
				if claimed < 0 {
					claimed = 0
				}
			}
			tx2, err := build() // fresh object: no cached fee
			if err != nil {
				rt.Fatalf("harness: transfer: %v", err)
			}
			b, err := n.BuildBlock(node.BlockSpec{Parent: tip, Txs: []interfaces.Transaction{tx2}, Fees: claimed, MinerKey: k % 3})
			if err != nil {
				rt.Fatalf("harness: build: %v", err)
			}
			before := exactSupply(u)
			in, orphan, berr := n.Process(b)
			acceptedBlock := berr == nil && !orphan && in
			vk.Class("e2e block " + map[bool]string{true: "accepted", false: "refused"}[acceptedBlock] + " mode=" + mode)
			if acceptedBlock && createsValue {
				vk.Report(rt, "C01:ProcessBlock:outputs-exceed-inputs",
					fmt.Sprintf("block %d accepted with a transfer spending %v sela and outputs %v (exact sum %v)", b.Height, I, outsV, O), rend())
				// known-finding path: resynchronise the model and go on
			}
			if !acceptedBlock && honest {
				vk.Report(rt, "C01:ProcessBlock:honest-rejected", fmt.Sprintf("in=%v orphan=%v err=%v", in, orphan, berr), rend())
				return
			}
			if acceptedBlock {
				if err := u.Apply(b, n.KeyIndexOf); err != nil {
					vk.Report(rt, "C01:ProcessBlock:model-cannot-apply-accepted-block", err.Error(), rend())
					return
				}
				tip = b
				after := exactSupply(u)
				want := new(big.Int).Add(before, big.NewInt(int64(n.Params.GetBlockReward(b.Height))))
				if after.Cmp(want) != 0 && !createsValue {
					vk.Report(rt, "C01:ProcessBlock:supply-invariant",
						fmt.Sprintf("supply %v -> %v, expected %v (subsidy %d)", before, after, want, int64(n.Params.GetBlockReward(b.Height))), rend())
					return
				}
				if createsValue {
					return // the chain now holds created value; stop this history
				}
			} else {
				// the tip must not have moved
				if *n.Chain.BestChain.Hash != tip.Hash() {
					rt.Fatalf("harness: tip moved although the block was refused")
				}
			}
		}
	})
}
