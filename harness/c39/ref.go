// Package c39 decides property C39 (bloom filters have no false negatives).
//
// ref.go holds the independent reference: a MurmurHash3-x86-32 written from
// the published algorithm, a plain bit-array bloom filter, the wire form of an
// outpoint, and a model of the documented MatchTxAndUpdate protocol.
package c39

import "math/bits"

// refMurmur is MurmurHash3_x86_32 (Austin Appleby, public domain), written
// independently of elanet/bloom/murmurhash3.go.
func refMurmur(seed uint32, data []byte) uint32 {
	const c1, c2 = 0xcc9e2d51, 0x1b873593
	h := seed
	n := len(data)
	i := 0
	for ; i+4 <= n; i += 4 {
		k := uint32(data[i]) | uint32(data[i+1])<<8 | uint32(data[i+2])<<16 | uint32(data[i+3])<<24
		k *= c1
		k = bits.RotateLeft32(k, 15)
		k *= c2
		h ^= k
		h = bits.RotateLeft32(h, 13)
		h = h*5 + 0xe6546b64
	}
	if i < n {
		var k uint32
		for j := n - 1; j >= i; j-- {
			k = k<<8 | uint32(data[j])
		}
		k *= c1
		k = bits.RotateLeft32(k, 15)
		k *= c2
		h ^= k
	}
	h ^= uint32(n)
	h ^= h >> 16
	h *= 0x85ebca6b
	h ^= h >> 13
	h *= 0xc2b2ae35
	h ^= h >> 16
	return h
}

// refFilter is a BIP37 bloom filter over a private bit array.
type refFilter struct {
	bits  []byte
	k     uint32
	tweak uint32
}

func newRef(size int, k, tweak uint32) *refFilter {
	return &refFilter{bits: make([]byte, size), k: k, tweak: tweak}
}

func (r *refFilter) clone() *refFilter {
	c := *r
	c.bits = append([]byte(nil), r.bits...)
	return &c
}

func (r *refFilter) bit(i uint32, d []byte) uint32 {
	return refMurmur(i*0xfba4c795+r.tweak, d) % (uint32(len(r.bits)) * 8)
}

// add: an empty bit array stores nothing.
func (r *refFilter) add(d []byte) {
	if len(r.bits) == 0 {
		return
	}
	for i := uint32(0); i < r.k; i++ {
		b := r.bit(i, d)
		r.bits[b/8] |= 1 << (b % 8)
	}
}

// matches: an empty bit array cannot rule anything out (it must not produce
// false negatives), so it matches everything.
func (r *refFilter) matches(d []byte) bool {
	if len(r.bits) == 0 {
		return true
	}
	for i := uint32(0); i < r.k; i++ {
		b := r.bit(i, d)
		if r.bits[b/8]&(1<<(b%8)) == 0 {
			return false
		}
	}
	return true
}

func (r *refFilter) setBits() int {
	n := 0
	for _, b := range r.bits {
		n += bits.OnesCount8(b)
	}
	return n
}

// saturated: at least half of the bits are set (matching is then mostly
// trivially true).
func (r *refFilter) saturated() bool {
	return len(r.bits) == 0 || r.k == 0 || r.setBits()*2 >= len(r.bits)*8
}

// outpointBytes is the wire form of an outpoint: txid followed by the
// little-endian 16 bit output index.
func outpointBytes(txid [32]byte, index uint16) []byte {
	b := make([]byte, 0, 34)
	b = append(b, txid[:]...)
	return append(b, byte(index), byte(index>>8))
}

// txModel is what the protocol looks at in a transaction.
type txModel struct {
	hash    [32]byte
	txType  byte
	outputs [][21]byte // program hashes
	inputs  []outRef
}

type outRef struct {
	txid  [32]byte
	index uint16
}

// matchTx is the documented protocol of Filter.MatchTxAndUpdate.
//
// normal filter: match if the tx hash matches; every output whose program hash
// matches makes the tx match and inserts that output's outpoint; otherwise
// match if any spent outpoint matches.
//
// side-chain filter (tweak 0xffffffff): match if the tx type is listed, or the
// bit array is non-empty and some output's program hash matches; never updated.
func (r *refFilter) matchTx(tx *txModel, txTypes []byte) bool {
	if r.tweak == 0xffffffff {
		for _, t := range txTypes {
			if t == tx.txType {
				return true
			}
		}
		if len(r.bits) != 0 {
			for _, o := range tx.outputs {
				if r.matches(o[:]) {
					return true
				}
			}
		}
		return false
	}
	matched := r.matches(tx.hash[:])
	for i, o := range tx.outputs {
		if r.matches(o[:]) {
			matched = true
			r.add(outpointBytes(tx.hash, uint16(i)))
		}
	}
	if matched {
		return true
	}
	for _, in := range tx.inputs {
		if r.matches(outpointBytes(in.txid, in.index)) {
			return true
		}
	}
	return false
}
