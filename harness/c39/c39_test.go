package c39

import (
	"bytes"
	"encoding/hex"
	"encoding/json"
	"fmt"
	"testing"

	"github.com/elastos/Elastos.ELA/common"
	pg "github.com/elastos/Elastos.ELA/core/contract/program"
	"github.com/elastos/Elastos.ELA/core/transaction"
	common2 "github.com/elastos/Elastos.ELA/core/types/common"
	"github.com/elastos/Elastos.ELA/core/types/functions"
	"github.com/elastos/Elastos.ELA/core/types/interfaces"
	"github.com/elastos/Elastos.ELA/core/types/outputpayload"
	"github.com/elastos/Elastos.ELA/core/types/payload"
	"github.com/elastos/Elastos.ELA/elanet/bloom"
	"github.com/elastos/Elastos.ELA/elanet/filter"
	"github.com/elastos/Elastos.ELA/p2p/msg"
	"pgregory.net/rapid"
	"verifharness/lib/vk"
)

func TestMain(m *testing.M) {
	functions.GetTransactionByTxType = transaction.GetTransaction
	functions.GetTransactionByBytes = transaction.GetTransactionByBytes
	functions.CreateTransaction = transaction.CreateTransaction
	functions.GetTransactionParameters = transaction.GetTransactionparameters
	vk.Main(m, "C39")
}

// ---------------------------------------------------------------- generators

type params struct {
	Ctor     string  `json:"ctor"` // "new" (NewFilter) | "load" (LoadFilter, what a peer sends)
	Elements uint32  `json:"elements,omitempty"`
	FPRate   float64 `json:"fprate,omitempty"`
	Size     int     `json:"size"`
	K        uint32  `json:"k"`
	Tweak    uint32  `json:"tweak"`
	TxTypes  []byte  `json:"txtypes,omitempty"`
	Preset   string  `json:"preset,omitempty"` // bits already set in a loaded filter (hex of sparse positions)
	preset   []uint32
	// Ctor "reload": the Filter object first held another filter (PrevSize bytes, PrevK functions; PrevSize < 0:
	// it was unloaded) and then received this one through Filter.Reload.
	PrevSize int    `json:"prev_size,omitempty"`
	PrevK    uint32 `json:"prev_k,omitempty"`
}

var fprates = []float64{-1, 0, 1e-12, 1e-9, 1e-6, 1e-4, 0.001, 0.01, 0.05, 0.1, 0.3, 0.5, 0.9, 0.999, 1.0, 2.0}

// sideMode: 0 never 0xffffffff, 1 always, 2 sometimes.
func drawParams(t *rapid.T, sideMode int) *params {
	p := &params{}
	switch sideMode {
	case 1:
		p.Tweak = 0xffffffff
	default:
		p.Tweak = rapid.OneOf(rapid.Just(uint32(0)), rapid.Just(uint32(1)), rapid.Just(uint32(0xfffffffe)),
			rapid.Just(uint32(0x80000000)), rapid.Uint32(), rapid.Uint32()).Draw(t, "tweak")
		if sideMode == 0 && p.Tweak == 0xffffffff {
			p.Tweak = 0xfffffffd
		}
	}
	if rapid.IntRange(0, 2).Draw(t, "ctor") == 0 {
		p.Ctor = "new"
		p.Elements = uint32(rapid.OneOf(rapid.IntRange(1, 12), rapid.IntRange(1, 300), rapid.IntRange(1, 5000)).Draw(t, "elements"))
		if rapid.Bool().Draw(t, "fpTable") {
			p.FPRate = rapid.SampledFrom(fprates).Draw(t, "fprate")
		} else {
			p.FPRate = rapid.Float64Range(0, 1).Draw(t, "fprateF")
		}
		return p
	}
	p.Ctor = "load"
	if rapid.IntRange(0, 3).Draw(t, "reload") == 0 {
		p.Ctor = "reload"
		p.PrevSize = rapid.OneOf(rapid.Just(-1), rapid.Just(0), rapid.IntRange(1, 40), rapid.IntRange(1, 600), rapid.IntRange(1, 36000)).Draw(t, "prevSize")
		p.PrevK = uint32(rapid.IntRange(0, 50).Draw(t, "prevK"))
	}
	p.Size = rapid.OneOf(rapid.Just(0), rapid.IntRange(1, 4), rapid.IntRange(5, 40), rapid.IntRange(5, 40),
		rapid.IntRange(20, 600), rapid.IntRange(20, 600), rapid.IntRange(20, 600), rapid.IntRange(1, 36000),
		rapid.IntRange(1, 36000), rapid.IntRange(35990, 36000)).Draw(t, "size")
	p.K = uint32(rapid.OneOf(rapid.IntRange(0, 50), rapid.IntRange(1, 6), rapid.IntRange(1, 6), rapid.Just(50)).Draw(t, "k"))
	if p.Size > 0 && rapid.IntRange(0, 3).Draw(t, "preset") == 0 {
		n := rapid.IntRange(1, 12).Draw(t, "npreset")
		for i := 0; i < n; i++ {
			p.preset = append(p.preset, uint32(rapid.IntRange(0, p.Size*8-1).Draw(t, "presetBit")))
		}
		p.Preset = fmt.Sprint(p.preset)
	}
	return p
}

// build creates the real filter and the reference with the same parameters.
func build(p *params) (*bloom.Filter, *refFilter, *msg.FilterLoad) {
	var f *bloom.Filter
	var fl *msg.FilterLoad
	if p.Ctor == "new" {
		f = bloom.NewFilter(p.Elements, p.Tweak, p.FPRate)
		fl = f.GetFilterLoadMsg()
		p.Size, p.K = len(fl.Filter), fl.HashFuncs
	} else {
		fl = &msg.FilterLoad{Filter: make([]byte, p.Size), HashFuncs: p.K, Tweak: p.Tweak}
		for _, b := range p.preset {
			fl.Filter[b/8] |= 1 << (b % 8)
		}
		if p.Ctor == "reload" {
			prev := &msg.FilterLoad{Filter: make([]byte, maxInt(p.PrevSize, 0)), HashFuncs: p.PrevK, Tweak: ^p.Tweak}
			f = bloom.LoadFilter(prev)
			if p.PrevSize > 0 && p.PrevK > 0 {
				f.Add([]byte("previous"))
			}
			if p.PrevSize < 0 {
				f.Unload()
			}
			f.Reload(fl)
		} else {
			f = bloom.LoadFilter(fl)
		}
	}
	for _, tt := range p.TxTypes {
		fl.TxTypes = append(fl.TxTypes, common2.TxType(tt))
	}
	r := newRef(p.Size, p.K, p.Tweak)
	for _, b := range p.preset {
		r.bits[b/8] |= 1 << (b % 8)
	}
	return f, r, fl
}

type elem struct {
	Kind string `json:"kind"` // bytes | ph | hash | outpoint
	Data string `json:"data"`
	b    []byte
}

func drawElem(t *rapid.T, label string) elem {
	kind := rapid.SampledFrom([]string{"bytes", "bytes", "ph", "hash", "outpoint"}).Draw(t, label+"Kind")
	var b []byte
	switch kind {
	case "bytes":
		b = rapid.SliceOfN(rapid.Byte(), 0, 100).Draw(t, label)
	case "ph":
		b = rapid.SliceOfN(rapid.Byte(), 21, 21).Draw(t, label)
	case "hash":
		b = rapid.SliceOfN(rapid.Byte(), 32, 32).Draw(t, label)
	case "outpoint":
		b = rapid.SliceOfN(rapid.Byte(), 34, 34).Draw(t, label)
	}
	return elem{Kind: kind, Data: hex.EncodeToString(b), b: b}
}

func toOutPoint(b []byte) *common2.OutPoint {
	var op common2.OutPoint
	copy(op.TxID[:], b[:32])
	op.Index = uint16(b[32]) | uint16(b[33])<<8
	return &op
}

func sutAdd(f *bloom.Filter, e elem) {
	switch e.Kind {
	case "hash":
		var h common.Uint256
		copy(h[:], e.b)
		f.AddHash(&h)
	case "outpoint":
		f.AddOutPoint(toOutPoint(e.b))
	default:
		f.Add(e.b)
	}
}

func sutMatches(f *bloom.Filter, e elem) bool {
	if e.Kind == "outpoint" {
		a := f.MatchesOutPoint(toOutPoint(e.b))
		b := f.Matches(e.b)
		if a != b {
			return false // the two views must agree; a disagreement surfaces as a mismatch below
		}
		return a
	}
	return f.Matches(e.b)
}

func maxInt(a, b int) int {
	if a > b {
		return a
	}
	return b
}

func classOf(p *params) string {
	c := p.Ctor
	switch {
	case p.Size == 0 && p.K > 0:
		c += "/zero-size-k>0"
	case p.Size == 0:
		c += "/zero-size-k=0"
	case p.K == 0:
		c += "/k=0"
	case p.Size <= 4:
		c += "/size<=4B"
	case p.Size <= 600:
		c += "/size<=600B"
	default:
		c += "/size>600B"
	}
	return c
}

// ---------------------------------------------------------------- unit 1: murmur

var murmurVectors = []struct {
	seed uint32
	data string
	want uint32
}{
	{0, "", 0}, {1, "", 0x514E28B7}, {0xffffffff, "", 0x81F16F39},
	{0, "ffffffff", 0x76293B50}, {0, "21436587", 0xF55B516B}, {0x5082EDEE, "21436587", 0x2362F9DE},
	{0, "214365", 0x7E4A8634}, {0, "2143", 0xA0F7B07A}, {0, "21", 0x72661CF4},
	{0, "00000000", 0x2362F9DE}, {0, "000000", 0x85F0B427}, {0, "0000", 0x30F4C306}, {0, "00", 0x514E28B7},
}

func TestMurmur(t *testing.T) {
	// the reference itself is pinned to the published test vectors first
	for _, v := range murmurVectors {
		d, _ := hex.DecodeString(v.data)
		if got := refMurmur(v.seed, d); got != v.want {
			t.Fatalf("harness: reference murmur3(%#x,%s)=%#x want %#x", v.seed, v.data, got, v.want)
		}
	}
	rapid.Check(t, func(t *rapid.T) {
		seed := rapid.OneOf(rapid.Just(uint32(0)), rapid.Just(uint32(0xffffffff)), rapid.Uint32()).Draw(t, "seed")
		data := rapid.SliceOfN(rapid.Byte(), 0, 100).Draw(t, "data")
		got := bloom.MurmurHash3(seed, data)
		want := refMurmur(seed, data)
		render := func() any { return map[string]any{"seed": seed, "data": hex.EncodeToString(data)} }
		if got != want {
			vk.Report(t, "C39:MurmurHash3:differs-from-reference", fmt.Sprintf("got %#x want %#x", got, want), render())
		}
		key := append([]byte{byte(seed), byte(seed >> 8), byte(seed >> 16), byte(seed >> 24)}, data...)
		vk.Case(fmt.Sprintf("murmur/len%%4=%d", len(data)%4), len(data) > 0, key, render)
	})
}

// ---------------------------------------------------------------- unit 2: add / matches

type addCase struct {
	P      *params `json:"params"`
	Added  []elem  `json:"added"`
	Probes []elem  `json:"probes"`
}

func TestAddMatch(t *testing.T) {
	rapid.Check(t, func(t *rapid.T) {
		c := &addCase{P: drawParams(t, 2)}
		var f *bloom.Filter
		var r *refFilter
		var fl *msg.FilterLoad
		sat := true
		if p, v, fr := vk.Catch(func() { f, r, fl = build(c.P) }); p {
			vk.Report(t, "C39:panic:"+fr, fmt.Sprint(v), c)
			return
		}
		if c.P.Ctor == "new" {
			if c.P.Size > bloom.MaxFilterLoadFilterSize || c.P.K > bloom.MaxFilterLoadHashFuncs || (c.P.Size == 0 && c.P.K != 0) {
				vk.Report(t, "C39:NewFilter:exceeds-protocol-limits", fmt.Sprintf("size %d k %d", c.P.Size, c.P.K), c)
				return
			}
		}
		n := rapid.IntRange(1, 24).Draw(t, "nadd")
		stop := false
		for i := 0; i < n && !stop; i++ {
			var e elem
			if i > 0 && rapid.IntRange(0, 9).Draw(t, "re-add") == 0 {
				e = c.Added[rapid.IntRange(0, len(c.Added)-1).Draw(t, "which")]
			} else {
				e = drawElem(t, "e")
			}
			c.Added = append(c.Added, e)
			if !r.saturated() {
				sat = false
			}
			r.add(e.b)
			var got bool
			if p, v, fr := vk.Catch(func() { sutAdd(f, e); got = sutMatches(f, e) }); p {
				vk.Report(t, "C39:panic:"+fr, fmt.Sprint(v), c)
				return
			}
			if !got {
				sig := "C39:Add:false-negative"
				if e.Kind == "outpoint" {
					sig = "C39:AddOutPoint:false-negative"
				}
				vk.Report(t, sig, fmt.Sprintf("element %d (%s) does not match right after being added", i, e.Kind), c)
				return
			}
			if !bytes.Equal(fl.Filter, r.bits) {
				vk.Report(t, "C39:Add:bits-differ-from-reference", fmt.Sprintf("after adding element %d", i), c)
				return
			}
		}
		// everything added so far still matches
		for i, e := range c.Added {
			var got bool
			if p, v, fr := vk.Catch(func() { got = sutMatches(f, e) }); p {
				vk.Report(t, "C39:panic:"+fr, fmt.Sprint(v), c)
				return
			}
			if !got {
				vk.Report(t, "C39:Add:false-negative", fmt.Sprintf("element %d no longer matches after later additions", i), c)
				return
			}
		}
		// exactness on elements that were not added (and near misses of added ones)
		np := rapid.IntRange(0, 8).Draw(t, "nprobe")
		for i := 0; i < np; i++ {
			var e elem
			if rapid.Bool().Draw(t, "near") {
				src := c.Added[rapid.IntRange(0, len(c.Added)-1).Draw(t, "src")]
				b := append([]byte(nil), src.b...)
				if len(b) == 0 {
					b = []byte{0}
				} else {
					b[rapid.IntRange(0, len(b)-1).Draw(t, "pos")] ^= 1 << rapid.IntRange(0, 7).Draw(t, "bit")
				}
				e = elem{Kind: src.Kind, Data: hex.EncodeToString(b), b: b}
				if len(b) != len(src.b) {
					e.Kind = "bytes"
				}
			} else {
				e = drawElem(t, "probe")
			}
			c.Probes = append(c.Probes, e)
			want := r.matches(e.b)
			var got bool
			if p, v, fr := vk.Catch(func() { got = sutMatches(f, e) }); p {
				vk.Report(t, "C39:panic:"+fr, fmt.Sprint(v), c)
				return
			}
			if got != want {
				vk.Report(t, "C39:Matches:differs-from-reference", fmt.Sprintf("probe %d: got %v want %v", i, got, want), c)
				return
			}
		}
		key, _ := json.Marshal(c)
		vk.Case("add/"+classOf(c.P), !sat, key, func() any { return c })
	})
}

// ---------------------------------------------------------------- unit 3: transactions

var txTypes = []common2.TxType{common2.TransferAsset, common2.TransferAsset, common2.CoinBase, common2.Record,
	common2.SideChainPow, common2.CRCAppropriation, common2.CRAssetsRectify, common2.RevertToPOW}

func payloadFor(tt common2.TxType, t *rapid.T) interfaces.Payload {
	switch tt {
	case common2.CoinBase:
		return &payload.CoinBase{Content: rapid.SliceOfN(rapid.Byte(), 0, 8).Draw(t, "cb")}
	case common2.Record:
		return &payload.Record{Type: "t", Content: rapid.SliceOfN(rapid.Byte(), 0, 8).Draw(t, "rec")}
	case common2.SideChainPow:
		return &payload.SideChainPow{BlockHeight: rapid.Uint32().Draw(t, "sph"), Signature: []byte{1, 2, 3}}
	case common2.CRCAppropriation:
		return &payload.CRCAppropriation{}
	case common2.CRAssetsRectify:
		return &payload.CRAssetsRectify{}
	case common2.RevertToPOW:
		return &payload.RevertToPOW{WorkingHeight: rapid.Uint32().Draw(t, "wh")}
	}
	return &payload.TransferAsset{}
}

type txDesc struct {
	Type    byte     `json:"type"`
	Version byte     `json:"version"`
	Outputs []string `json:"outputs"` // program hashes
	Inputs  []string `json:"inputs"`  // outpoints
	Hash    string   `json:"hash"`
	tx      interfaces.Transaction
	model   *txModel
}

func makeTx(t *rapid.T, tt common2.TxType, outs [][21]byte, ins []outRef, label string) *txDesc {
	ver := common2.TxVersionDefault
	if rapid.Bool().Draw(t, label+"v9") {
		ver = common2.TxVersion09
	}
	var inputs []*common2.Input
	var outputs []*common2.Output
	d := &txDesc{Type: byte(tt), Version: byte(ver)}
	for _, in := range ins {
		inputs = append(inputs, &common2.Input{Previous: common2.OutPoint{TxID: in.txid, Index: in.index},
			Sequence: rapid.Uint32().Draw(t, label+"seq")})
		d.Inputs = append(d.Inputs, hex.EncodeToString(outpointBytes(in.txid, in.index)))
	}
	for _, o := range outs {
		outputs = append(outputs, &common2.Output{Value: common.Fixed64(rapid.Int64Range(0, 1e10).Draw(t, label+"val")),
			ProgramHash: common.Uint168(o), Type: common2.OTNone, Payload: &outputpayload.DefaultOutput{}})
		d.Outputs = append(d.Outputs, hex.EncodeToString(o[:]))
	}
	d.tx = functions.CreateTransaction(ver, tt, 0, payloadFor(tt, t), []*common2.Attribute{}, inputs, outputs,
		rapid.Uint32().Draw(t, label+"lock"), []*pg.Program{})
	h := d.tx.Hash()
	d.Hash = hex.EncodeToString(h[:])
	d.model = &txModel{hash: h, txType: byte(tt), outputs: outs, inputs: ins}
	return d
}

func draw21(t *rapid.T, label string) (a [21]byte) {
	copy(a[:], rapid.SliceOfN(rapid.Byte(), 21, 21).Draw(t, label))
	return
}

func draw32(t *rapid.T, label string) (a [32]byte) {
	copy(a[:], rapid.SliceOfN(rapid.Byte(), 32, 32).Draw(t, label))
	return
}

// matcher hides the three ways the node reaches a bloom filter.
type matcher struct {
	via string
	f   *bloom.Filter   // via == "filter"
	tf  filter.TxFilter // via == "txfilter" (bloom.TxFilter loaded from bytes)
	sf  *filter.Filter  // via == "served" (what elanet/server.go holds per peer)
	fl  *msg.FilterLoad // live bits when via == "filter"
}

func newMatcher(via string, p *params) (*matcher, *refFilter, error) {
	f, r, fl := build(p)
	m := &matcher{via: via, f: f, fl: fl}
	if via == "filter" {
		return m, r, nil
	}
	buf := new(bytes.Buffer)
	if err := fl.Serialize(buf); err != nil {
		return nil, nil, err
	}
	if via == "txfilter" {
		m.tf = bloom.NewTxFilter()
		return m, r, m.tf.Load(buf.Bytes())
	}
	m.sf = filter.New(func(typ uint8) filter.TxFilter {
		if typ == filter.FTBloom {
			return bloom.NewTxFilter()
		}
		return nil
	})
	return m, r, m.sf.Load(&msg.TxFilterLoad{Type: filter.FTBloom, Data: buf.Bytes()})
}

func (m *matcher) add(kind string, b []byte) error {
	switch m.via {
	case "filter":
		sutAdd(m.f, elem{Kind: kind, b: b})
		return nil
	case "txfilter":
		return m.tf.Add(b)
	}
	return m.sf.Add(b)
}

func (m *matcher) matchTx(tx interfaces.Transaction, confirmed bool) bool {
	switch m.via {
	case "filter":
		return m.f.MatchTxAndUpdate(tx)
	case "txfilter":
		if confirmed {
			return m.tf.MatchConfirmed(tx)
		}
		return m.tf.MatchUnconfirmed(tx)
	}
	if confirmed {
		return m.sf.MatchConfirmed(tx)
	}
	return m.sf.MatchUnconfirmed(tx)
}

type txCase struct {
	P          *params  `json:"params"`
	Via        string   `json:"via"`
	WatchedPH  []string `json:"watched_program_hashes"`
	WatchedOP  []string `json:"watched_outpoints"`
	WatchTxid  bool     `json:"watch_tx1_hash"`
	Tx1        *txDesc  `json:"tx1"`
	Tx2        *txDesc  `json:"tx2,omitempty"`
	Spent      int      `json:"tx2_spends_output,omitempty"`
	Relations  []string `json:"relations"`
	Got1, Got2 bool
}

func TestMatchTx(t *testing.T) {
	rapid.Check(t, func(t *rapid.T) {
		side := 0
		if rapid.IntRange(0, 3).Draw(t, "side") == 0 {
			side = 1
		}
		c := &txCase{P: drawParams(t, side)}
		c.Via = rapid.SampledFrom([]string{"filter", "filter", "txfilter", "served"}).Draw(t, "via")
		if side == 1 {
			nt := rapid.IntRange(0, 3).Draw(t, "ntypes")
			for i := 0; i < nt; i++ {
				c.P.TxTypes = append(c.P.TxTypes, byte(rapid.SampledFrom(txTypes).Draw(t, "listed")))
			}
		}
		// universe
		nph := rapid.IntRange(1, 6).Draw(t, "nph")
		phs := make([][21]byte, nph)
		watchedPH := map[[21]byte]bool{}
		for i := range phs {
			phs[i] = draw21(t, "ph")
		}
		nop := rapid.IntRange(0, 4).Draw(t, "nop")
		ops := make([]outRef, nop)
		watchedOP := map[outRef]bool{}
		for i := range ops {
			ops[i] = outRef{draw32(t, "optx"), uint16(rapid.OneOf(rapid.IntRange(0, 3), rapid.IntRange(0, 65535)).Draw(t, "opidx"))}
		}

		var m *matcher
		var r *refFilter
		var err error
		fail := func(sig, detail string) { vk.Report(t, sig, detail, c) }
		guard := func(f func()) bool {
			if p, v, fr := vk.Catch(f); p {
				fail("C39:panic:"+fr, fmt.Sprint(v))
				return false
			}
			return true
		}
		if !guard(func() { m, r, err = newMatcher(c.Via, c.P) }) {
			return
		}
		if err != nil {
			t.Fatalf("harness: filter could not be loaded: %v", err)
		}
		type pend struct {
			kind string
			b    []byte
		}
		var adds []pend
		for _, ph := range phs {
			if rapid.IntRange(0, 2).Draw(t, "watchPH") != 0 {
				watchedPH[ph] = true
				c.WatchedPH = append(c.WatchedPH, hex.EncodeToString(ph[:]))
				adds = append(adds, pend{"ph", append([]byte(nil), ph[:]...)})
			}
		}
		for _, op := range ops {
			if rapid.IntRange(0, 2).Draw(t, "watchOP") != 0 {
				watchedOP[op] = true
				b := outpointBytes(op.txid, op.index)
				c.WatchedOP = append(c.WatchedOP, hex.EncodeToString(b))
				adds = append(adds, pend{"outpoint", b})
			}
		}
		var addErr error
		ok := guard(func() {
			for _, a := range adds {
				r.add(a.b)
				if e := m.add(a.kind, a.b); e != nil {
					addErr = e
				}
			}
		})
		if !ok {
			return
		}
		if addErr != nil {
			t.Fatalf("harness: add: %v", addErr)
		}

		// tx1
		tt := rapid.SampledFrom(txTypes).Draw(t, "type1")
		nout := rapid.IntRange(0, 6).Draw(t, "nout")
		outs := make([][21]byte, nout)
		for i := range outs {
			if rapid.IntRange(0, 9).Draw(t, "outKnown") < 6 {
				outs[i] = phs[rapid.IntRange(0, nph-1).Draw(t, "outPH")]
			} else {
				outs[i] = draw21(t, "outFresh")
			}
		}
		nin := rapid.IntRange(0, 4).Draw(t, "nin")
		ins := make([]outRef, nin)
		for i := range ins {
			if nop > 0 && rapid.IntRange(0, 9).Draw(t, "inKnown") < 5 {
				ins[i] = ops[rapid.IntRange(0, nop-1).Draw(t, "inOP")]
			} else {
				ins[i] = outRef{draw32(t, "inFresh"), uint16(rapid.IntRange(0, 3).Draw(t, "inIdx"))}
			}
		}
		c.Tx1 = makeTx(t, tt, outs, ins, "tx1")
		c.WatchTxid = rapid.IntRange(0, 5).Draw(t, "watchTxid") == 0
		if c.WatchTxid {
			r.add(c.Tx1.model.hash[:])
			if !guard(func() { addErr = m.add("hash", c.Tx1.model.hash[:]) }) {
				return
			}
			if addErr != nil {
				t.Fatalf("harness: add: %v", addErr)
			}
		}

		// relations the statement talks about
		sideFilter := c.P.Tweak == 0xffffffff
		pays, spends, listed := false, false, false
		for _, o := range outs {
			pays = pays || watchedPH[o]
		}
		for _, in := range ins {
			spends = spends || watchedOP[in]
		}
		for _, x := range c.P.TxTypes {
			listed = listed || x == byte(tt)
		}
		must1 := ""
		if sideFilter {
			switch {
			case listed:
				must1 = "txtype-listed"
			case pays && c.P.Size > 0:
				must1 = "pays-watched"
			}
		} else {
			switch {
			case pays:
				must1 = "pays-watched"
			case spends:
				must1 = "spends-watched"
			case c.WatchTxid:
				must1 = "txid-watched"
			}
		}
		if sideFilter {
			// a side-chain filter watches tx types and paid program hashes only
			if listed {
				c.Relations = append(c.Relations, "txtype-listed")
			}
			if pays && c.P.Size > 0 {
				c.Relations = append(c.Relations, "pays-watched")
			}
		} else {
			if pays {
				c.Relations = append(c.Relations, "pays-watched")
			}
			if spends {
				c.Relations = append(c.Relations, "spends-watched")
			}
			if c.WatchTxid {
				c.Relations = append(c.Relations, "txid-watched")
			}
		}
		saturated := r.saturated()
		confirmed := rapid.Bool().Draw(t, "confirmed")

		want1 := r.matchTx(c.Tx1.model, c.P.TxTypes)
		if !guard(func() { c.Got1 = m.matchTx(c.Tx1.tx, confirmed) }) {
			return
		}
		mode := "normal"
		if sideFilter {
			mode = "side"
		}
		if must1 != "" && !c.Got1 {
			fail("C39:MatchTxAndUpdate:"+mode+":false-negative:"+must1, "tx1 is related to a watched item but did not match")
			return
		}
		if c.Got1 != want1 {
			fail("C39:MatchTxAndUpdate:"+mode+":verdict-differs-from-reference", fmt.Sprintf("tx1 got %v want %v", c.Got1, want1))
			return
		}
		if c.Via == "filter" {
			if !bytes.Equal(m.fl.Filter, r.bits) {
				fail("C39:MatchTxAndUpdate:"+mode+":bits-differ-from-reference", "after tx1")
				return
			}
			if !sideFilter {
				for i, o := range outs {
					if !watchedPH[o] {
						continue
					}
					var got bool
					if !guard(func() { got = m.f.MatchesOutPoint(common2.NewOutPoint(c.Tx1.tx.Hash(), uint16(i))) }) {
						return
					}
					if !got {
						fail("C39:MatchTxAndUpdate:outpoint-not-inserted", fmt.Sprintf("output %d pays a watched program hash but its outpoint does not match afterwards", i))
						return
					}
				}
			}
		}
		// matching again must not lose the match
		if c.Got1 {
			var again bool
			if !guard(func() { again = m.matchTx(c.Tx1.tx, !confirmed) }) {
				return
			}
			r.matchTx(c.Tx1.model, c.P.TxTypes)
			if !again {
				fail("C39:MatchTxAndUpdate:"+mode+":false-negative:rematch", "tx1 matched once and not the second time")
				return
			}
		}

		// tx2 spends an output of tx1 and pays nobody we watch
		if nout > 0 {
			c.Spent = rapid.IntRange(0, nout-1).Draw(t, "spent")
			var ins2 []outRef
			nf := rapid.IntRange(0, 2).Draw(t, "ins2Before")
			for i := 0; i < nf; i++ {
				ins2 = append(ins2, outRef{draw32(t, "in2Fresh"), uint16(rapid.IntRange(0, 3).Draw(t, "in2Idx"))})
			}
			ins2 = append(ins2, outRef{c.Tx1.model.hash, uint16(c.Spent)})
			nf = rapid.IntRange(0, 2).Draw(t, "outs2")
			outs2 := make([][21]byte, nf)
			for i := range outs2 {
				outs2[i] = draw21(t, "out2Fresh")
			}
			c.Tx2 = makeTx(t, common2.TransferAsset, outs2, ins2, "tx2")
			want2 := r.matchTx(c.Tx2.model, c.P.TxTypes)
			if !guard(func() { c.Got2 = m.matchTx(c.Tx2.tx, confirmed) }) {
				return
			}
			if !sideFilter && watchedPH[outs[c.Spent]] && !c.Got2 {
				c.Relations = append(c.Relations, "later-spend")
				fail("C39:MatchTxAndUpdate:later-spend-missed", fmt.Sprintf("tx2 spends output %d of tx1 (paid to a watched program hash) but does not match", c.Spent))
				return
			}
			if !sideFilter && watchedPH[outs[c.Spent]] {
				c.Relations = append(c.Relations, "later-spend")
			}
			if c.Got2 != want2 {
				fail("C39:MatchTxAndUpdate:"+mode+":verdict-differs-from-reference", fmt.Sprintf("tx2 got %v want %v", c.Got2, want2))
				return
			}
			if c.Via == "filter" && !bytes.Equal(m.fl.Filter, r.bits) {
				fail("C39:MatchTxAndUpdate:"+mode+":bits-differ-from-reference", "after tx2")
				return
			}
		}

		rel := "unrelated"
		if len(c.Relations) > 0 {
			rel = c.Relations[0]
			if len(c.Relations) > 1 && c.Relations[len(c.Relations)-1] == "later-spend" {
				rel += "+later-spend"
			}
		}
		key, _ := json.Marshal(c)
		vk.Case("tx/"+mode+"/"+c.Via+"/"+rel, !saturated && len(c.Relations) > 0, key, func() any { return c })
		vk.Class("tx-filter/" + classOf(c.P))
	})
}
