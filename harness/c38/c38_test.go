// C38 - private keys, signing nonces, keystore master keys and IVs come only
// from the OS CSPRNG, never from a seeded or time-derived PRNG.
//
// Oracle: entropy accounting by substitution.  The harness owns the two
// process-wide random sources the node can reach: it replaces the package
// variable crypto/rand.Reader by a deterministic counting stream derived from a
// generated seed S, and pins the global math/rand generator with rand.Seed(K).
// Every entry point that creates secret material is then executed three times
// on identical arguments - (S,K1), (S,K2), (S',K1) - and must satisfy
//
//	A  it drew at least the size of its secrets from the CSPRNG stream,
//	B  the global math/rand stream is where rand.Seed(K) left it,
//	C  a different CSPRNG stream gives a different secret,
//	D  the same CSPRNG stream gives the same secret whatever K and the clock are
//	   (the secret is a function of the CSPRNG stream and the arguments only).
//
//	E  (fault injection) when the CSPRNG stream fails after k bytes, k below the
//	   number of bytes the healthy run drew, the entry point reports an error: no
//	   secret is produced from a failed read; the same when exactly one Read call
//	   fails and the source then recovers (four further runs per case).
//
// A time-seeded local PRNG is invisible to B but fails A and D; the global
// math/rand fails A, B, C and D; an ignored read error fails E.
package c38

import (
	"bytes"
	"crypto/aes"
	"crypto/cipher"
	crand "crypto/rand"
	"crypto/sha256"
	"encoding/binary"
	"encoding/hex"
	"encoding/json"
	"errors"
	"fmt"
	"io"
	"math/big"
	mrand "math/rand"
	"os"
	"path/filepath"
	"sort"
	"strings"
	"testing"

	"github.com/elastos/Elastos.ELA/account"
	"github.com/elastos/Elastos.ELA/core/transaction"
	common2 "github.com/elastos/Elastos.ELA/core/types/common"
	"github.com/elastos/Elastos.ELA/core/types/functions"
	"github.com/elastos/Elastos.ELA/core/types/interfaces"
	"github.com/elastos/Elastos.ELA/core/types/payload"
	"github.com/elastos/Elastos.ELA/crypto"
	dposacc "github.com/elastos/Elastos.ELA/dpos/account"
	"pgregory.net/rapid"
	"verifharness/lib/vk"
)

func TestMain(m *testing.M) { vk.Main(m, "C38") }

// ------------------------------------------------------------ the CSPRNG

// stream is the substituted crypto/rand.Reader: SHA-256 in counter mode over a
// seed.  Reads of exactly one byte (crypto/internal/randutil.MaybeReadByte,
// which the Go standard library performs or skips at random precisely to stop
// callers from depending on the stream position) are served from a second
// counter stream so that they do not shift the main one.
type stream struct {
	seed    [32]byte
	off     uint64 // bytes served from the main stream
	one     uint64 // one-byte reads served
	reads   int
	buf     []byte
	blockNo uint64
	// fault injection (rule E): once failAt main-stream bytes have been served every further
	// read of the main stream fails; the read that crosses the limit is a short read + error
	failing bool
	failAt  uint64
	failErr error
	failed  int // failed reads so far
	// transient fault: exactly the main-stream Read call number failCall (0-based) fails, with
	// failShort of its bytes served; every other call is served normally
	transient bool
	failCall  int
	failShort int
	mainCalls int // multi-byte Read calls so far
}

func newStream(seed []byte) *stream {
	s := &stream{}
	s.seed = sha256.Sum256(append([]byte("c38-main|"), seed...))
	return s
}

func (s *stream) block(tag byte, n uint64) []byte {
	var b [41]byte
	copy(b[:32], s.seed[:])
	b[32] = tag
	binary.BigEndian.PutUint64(b[33:], n)
	h := sha256.Sum256(b[:])
	return h[:]
}

func (s *stream) Read(p []byte) (int, error) {
	s.reads++
	if len(p) == 1 {
		p[0] = s.block(1, s.one)[0]
		s.one++
		return 1, nil
	}
	call := s.mainCalls
	s.mainCalls++
	if s.transient && call == s.failCall {
		n := s.failShort
		if n >= len(p) {
			n = len(p) - 1
		}
		for i := 0; i < n; i++ {
			if len(s.buf) == 0 {
				s.buf = s.block(0, s.blockNo)
				s.blockNo++
			}
			p[i] = s.buf[0]
			s.buf = s.buf[1:]
		}
		s.off += uint64(n)
		s.failed++
		return n, s.failErr
	}
	if s.failing && s.off+uint64(len(p)) > s.failAt {
		n := int(s.failAt - s.off)
		for i := 0; i < n; i++ {
			if len(s.buf) == 0 {
				s.buf = s.block(0, s.blockNo)
				s.blockNo++
			}
			p[i] = s.buf[0]
			s.buf = s.buf[1:]
		}
		s.off += uint64(n)
		s.failed++
		return n, s.failErr
	}
	for i := range p {
		if len(s.buf) == 0 {
			s.buf = s.block(0, s.blockNo)
			s.blockNo++
		}
		p[i] = s.buf[0]
		s.buf = s.buf[1:]
	}
	s.off += uint64(len(p))
	return len(p), nil
}

func (s *stream) total() int { return int(s.off + s.one) }

// pinned runs f with crypto/rand.Reader = a fresh stream(seedS) and the global
// math/rand seeded with K; returns the bytes drawn and whether the global
// math/rand stream is untouched afterwards.
func pinned(seedS []byte, K int64, f func()) (drawn int, untouched bool) {
	d, _, u := pinnedStream(newStream(seedS), K, f)
	return d, u
}

// pinnedStream is pinned on a prepared stream; also returns the main-stream byte count.
func pinnedStream(st *stream, K int64, f func()) (drawn int, mainBytes int, untouched bool) {
	d, u := pinnedOn(st, K, f)
	return d, int(st.off), u
}

func pinnedOn(st *stream, K int64, f func()) (drawn int, untouched bool) {
	old := crand.Reader
	crand.Reader = st
	mrand.Seed(K)
	defer func() { crand.Reader = old }()
	f()
	crand.Reader = old
	got := mrand.Uint64()
	want := mrand.New(mrand.NewSource(K)).Uint64()
	return st.total(), got == want
}

// ------------------------------------------------------------ operations

type secretView struct {
	kind string // which secret this is a function of
	data []byte
}

type opRun func(dir string) ([]secretView, error)

type op struct {
	name     string
	kind     string // secret kind the byte count is attributed to if no view singles one out
	minBytes int
	desc     map[string]any
	run      opRun
}

func scalar(t *rapid.T, label string) []byte {
	n := elliptic256N()
	b := rapid.SliceOfN(rapid.Byte(), 32, 32).Draw(t, label)
	d := new(big.Int).SetBytes(b)
	d.Mod(d, new(big.Int).Sub(n, big.NewInt(1)))
	d.Add(d, big.NewInt(1))
	return d.FillBytes(make([]byte, 32))
}

func elliptic256N() *big.Int { return crypto.DefaultParams.N }

// keystore reading, independent of the account package
type ksFile struct {
	Version      string
	PasswordHash string
	IV           string
	MasterKey    string
	Account      []struct {
		Address             string
		ProgramHash         string
		RedeemScript        string
		PrivateKeyEncrypted string
		Type                string
	}
}

func cbcDecrypt(key, iv, ct []byte) ([]byte, error) {
	if len(ct) == 0 || len(ct)%16 != 0 || len(iv) != 16 {
		return nil, fmt.Errorf("bad cbc sizes ct=%d iv=%d", len(ct), len(iv))
	}
	blk, err := aes.NewCipher(key)
	if err != nil {
		return nil, err
	}
	out := make([]byte, len(ct))
	cipher.NewCBCDecrypter(blk, iv).CryptBlocks(out, ct)
	return out, nil
}

// readKeystore returns IV, master key and the private keys stored in the file.
func readKeystore(path string, pwd []byte) (iv, mk []byte, privs [][]byte, err error) {
	raw, err := os.ReadFile(path)
	if err != nil {
		return
	}
	var f ksFile
	if err = json.Unmarshal(raw, &f); err != nil {
		return
	}
	if iv, err = hex.DecodeString(f.IV); err != nil {
		return
	}
	emk, err := hex.DecodeString(f.MasterKey)
	if err != nil {
		return
	}
	h1 := sha256.Sum256(pwd)
	h2 := sha256.Sum256(h1[:])
	if mk, err = cbcDecrypt(h2[:], iv, emk); err != nil {
		return
	}
	for _, a := range f.Account {
		if a.PrivateKeyEncrypted == "" {
			continue
		}
		var enc, dec []byte
		if enc, err = hex.DecodeString(a.PrivateKeyEncrypted); err != nil {
			return
		}
		if dec, err = cbcDecrypt(mk, iv, enc); err != nil {
			return
		}
		if len(dec) != 96 {
			err = fmt.Errorf("stored key pair of %d bytes", len(dec))
			return
		}
		privs = append(privs, dec[64:])
	}
	return
}

func keystoreViews(path string, pwd []byte, wantKeys int) ([]secretView, error) {
	iv, mk, privs, err := readKeystore(path, pwd)
	if err != nil {
		return nil, err
	}
	if len(iv) != 16 || len(mk) != 32 {
		return nil, fmt.Errorf("keystore iv %d bytes, master key %d bytes", len(iv), len(mk))
	}
	v := []secretView{{"keystore-master-key", mk}, {"keystore-iv", iv}}
	if len(privs) < wantKeys {
		return nil, fmt.Errorf("keystore holds %d private keys, want >= %d", len(privs), wantKeys)
	}
	if wantKeys > 0 {
		v = append(v, secretView{"ecdsa-private-key", bytes.Join(privs[len(privs)-wantKeys:], nil)})
	}
	return v, nil
}

var opNames = []string{
	"crypto.GenerateKeyPair", "account.NewAccount",
	"crypto.Sign", "crypto.SignDigest", "Account.Sign", "Account.SignDigest",
	"account.SignBySigner", "dpos/account.Sign", "dpos/account.SignTx",
	"crypto.AggregateSignatures",
	"account.NewClient(create)", "account.Create", "account.CreateFromAccount", "account.AddMultiSig(new keystore)",
	"account.Add", "Client.CreateAccount",
	"crypto.Encrypt",
}

func genOp(t *rapid.T) *op {
	name := rapid.SampledFrom(opNames).Draw(t, "op")
	o := &op{name: name, desc: map[string]any{"op": name}}
	pwd := func() []byte {
		p := []byte(rapid.StringN(1, 16, 32).Draw(t, "password"))
		o.desc["password"] = string(p)
		return p
	}
	switch name {
	case "crypto.GenerateKeyPair":
		o.kind, o.minBytes = "ecdsa-private-key", 32
		o.run = func(string) ([]secretView, error) {
			priv, pub, err := crypto.GenerateKeyPair()
			if err != nil {
				return nil, err
			}
			if pub == nil || len(priv) == 0 {
				return nil, fmt.Errorf("no key")
			}
			return []secretView{{"ecdsa-private-key", priv}}, nil
		}
	case "account.NewAccount":
		o.kind, o.minBytes = "ecdsa-private-key", 32
		o.run = func(string) ([]secretView, error) {
			a, err := account.NewAccount()
			if err != nil {
				return nil, err
			}
			return []secretView{{"ecdsa-private-key", a.PrivateKey}}, nil
		}
	case "crypto.Sign", "crypto.SignDigest", "Account.Sign", "Account.SignDigest", "account.SignBySigner", "dpos/account.Sign", "dpos/account.SignTx":
		o.kind, o.minBytes = "ecdsa-nonce", 32
		priv := scalar(t, "priv")
		var msg []byte
		if strings.HasSuffix(name, "Digest") {
			msg = rapid.SliceOfN(rapid.Byte(), 32, 32).Draw(t, "digest")
		} else {
			msg = rapid.SliceOfN(rapid.Byte(), 0, 200).Draw(t, "message")
		}
		o.desc["priv"], o.desc["message"] = hex.EncodeToString(priv), hex.EncodeToString(msg)
		acc, err := account.NewAccountWithPrivateKey(priv)
		if err != nil {
			t.Fatalf("harness: NewAccountWithPrivateKey: %v", err)
		}
		o.run = func(string) ([]secretView, error) {
			var sig []byte
			var err error
			switch name {
			case "crypto.Sign":
				sig, err = crypto.Sign(priv, msg)
			case "crypto.SignDigest":
				sig, err = crypto.SignDigest(priv, msg)
			case "Account.Sign":
				sig, err = acc.Sign(msg)
			case "Account.SignDigest":
				sig, err = acc.SignDigest(msg)
			case "account.SignBySigner":
				sig, err = account.SignBySigner(recordTx(msg), acc)
			case "dpos/account.Sign":
				if sig = dposacc.New(acc).Sign(msg); sig == nil {
					err = fmt.Errorf("nil signature")
				}
			case "dpos/account.SignTx":
				sig, err = dposacc.New(acc).SignTx(recordTx(msg))
			}
			if err != nil {
				return nil, err
			}
			// r = (k*G).x: the signature is an injective image of the nonce for fixed key and message
			return []secretView{{"ecdsa-nonce", sig}}, nil
		}
	case "crypto.AggregateSignatures":
		o.kind, o.minBytes = "schnorr-nonce", 32
		n := rapid.IntRange(1, 5).Draw(t, "nkeys")
		var privs []*big.Int
		var hexes []string
		sum := new(big.Int)
		for i := 0; i < n; i++ {
			d := new(big.Int).SetBytes(scalar(t, fmt.Sprintf("priv%d", i)))
			privs = append(privs, d)
			hexes = append(hexes, d.Text(16))
			sum.Add(sum, d)
		}
		if sum.Mod(sum, elliptic256N()).Sign() == 0 {
			privs[0] = new(big.Int).Add(privs[0], big.NewInt(1)) // keep the aggregate key off infinity
		}
		var msg [32]byte
		copy(msg[:], rapid.SliceOfN(rapid.Byte(), 32, 32).Draw(t, "message"))
		o.desc["privs"], o.desc["message"] = hexes, hex.EncodeToString(msg[:])
		o.run = func(string) ([]secretView, error) {
			ps := make([]*big.Int, len(privs))
			for i := range privs {
				ps[i] = new(big.Int).Set(privs[i])
			}
			sig, err := crypto.AggregateSignatures(ps, msg)
			if err != nil {
				return nil, err
			}
			return []secretView{{"schnorr-nonce", sig[:]}}, nil
		}
	case "account.NewClient(create)":
		o.kind, o.minBytes = "keystore-master-key", 48
		p := pwd()
		o.run = func(dir string) ([]secretView, error) {
			path := filepath.Join(dir, "keystore.dat")
			if cl := account.NewClient(path, append([]byte{}, p...), true); cl == nil {
				return nil, fmt.Errorf("NewClient returned nil")
			}
			return keystoreViews(path, p, 0)
		}
	case "account.Create":
		o.kind, o.minBytes = "keystore-master-key", 80
		p := pwd()
		o.run = func(dir string) ([]secretView, error) {
			path := filepath.Join(dir, "keystore.dat")
			if _, err := account.Create(path, append([]byte{}, p...)); err != nil {
				return nil, err
			}
			return keystoreViews(path, p, 1)
		}
	case "account.CreateFromAccount":
		o.kind, o.minBytes = "keystore-master-key", 48
		p := pwd()
		priv := scalar(t, "priv")
		o.desc["priv"] = hex.EncodeToString(priv)
		acc, err := account.NewAccountWithPrivateKey(priv)
		if err != nil {
			t.Fatalf("harness: NewAccountWithPrivateKey: %v", err)
		}
		o.run = func(dir string) ([]secretView, error) {
			path := filepath.Join(dir, "keystore.dat")
			if _, err := account.CreateFromAccount(path, append([]byte{}, p...), acc); err != nil {
				return nil, err
			}
			return keystoreViews(path, p, 0)
		}
	case "account.AddMultiSig(new keystore)":
		o.kind, o.minBytes = "keystore-master-key", 48
		p := pwd()
		n := rapid.IntRange(2, 4).Draw(t, "n")
		m := rapid.IntRange(1, n).Draw(t, "m")
		var pubs []*crypto.PublicKey
		for i := 0; i < n; i++ {
			a, err := account.NewAccountWithPrivateKey(scalar(t, fmt.Sprintf("member%d", i)))
			if err != nil {
				t.Fatalf("harness: NewAccountWithPrivateKey: %v", err)
			}
			pubs = append(pubs, a.PublicKey)
		}
		o.desc["m"], o.desc["n"] = m, n
		o.run = func(dir string) ([]secretView, error) {
			path := filepath.Join(dir, "keystore.dat")
			if _, err := account.AddMultiSig(path, append([]byte{}, p...), m, append([]*crypto.PublicKey{}, pubs...)); err != nil {
				return nil, err
			}
			return keystoreViews(path, p, 0)
		}
	case "account.Add", "Client.CreateAccount":
		// a key added to an existing keystore (built outside the measured window)
		o.kind, o.minBytes = "ecdsa-private-key", 32
		p := pwd()
		priv := scalar(t, "mainPriv")
		o.desc["main_priv"] = hex.EncodeToString(priv)
		main, err := account.NewAccountWithPrivateKey(priv)
		if err != nil {
			t.Fatalf("harness: NewAccountWithPrivateKey: %v", err)
		}
		o.run = func(dir string) ([]secretView, error) {
			path := filepath.Join(dir, "keystore.dat")
			// setup must not be measured: use the real reader for it
			cur := crand.Reader
			crand.Reader = realReader
			cl, err := account.CreateFromAccount(path, append([]byte{}, p...), main)
			crand.Reader = cur
			if err != nil {
				return nil, fmt.Errorf("setup: %v", err)
			}
			if name == "account.Add" {
				_, err = account.Add(path, append([]byte{}, p...))
			} else {
				_, err = cl.CreateAccount()
			}
			if err != nil {
				return nil, err
			}
			vs, err := keystoreViews(path, p, 1)
			if err != nil {
				return nil, err
			}
			return vs[2:], nil // master key and IV were made by the setup
		}
	case "crypto.Encrypt":
		o.kind, o.minBytes = "ecies-ephemeral-key", 48
		priv := scalar(t, "recipient")
		msg := rapid.SliceOfN(rapid.Byte(), 1, 120).Draw(t, "plaintext")
		o.desc["recipient_priv"], o.desc["plaintext"] = hex.EncodeToString(priv), hex.EncodeToString(msg)
		pub := crypto.NewPubKey(priv)
		o.run = func(string) ([]secretView, error) {
			ct, err := crypto.Encrypt(pub, msg)
			if err != nil {
				return nil, err
			}
			if len(ct) < 65+16 {
				return nil, fmt.Errorf("ciphertext of %d bytes", len(ct))
			}
			// ciphertext = R (ephemeral public key, 65 bytes) || IV (16) || ...
			return []secretView{{"ecies-ephemeral-key", ct[:65]}, {"ecies-iv", ct[65:81]}}, nil
		}
	}
	return o
}

var realReader io.Reader = crand.Reader

var errInjected = errors.New("injected entropy failure")

// recordTx wraps msg into a Record transaction (the signed content is its unsigned serialization).
func recordTx(msg []byte) interfaces.Transaction {
	return functions.CreateTransaction(common2.TxVersion09, common2.Record, 0, &payload.Record{Type: "c38", Content: msg},
		nil, nil, nil, 0, nil)
}

func init() {
	functions.GetTransactionByTxType = transaction.GetTransaction
	functions.GetTransactionByBytes = transaction.GetTransactionByBytes
	functions.CreateTransaction = transaction.CreateTransaction
	functions.GetTransactionParameters = transaction.GetTransactionparameters
}

type runResult struct {
	views     []secretView
	drawn     int
	mainBytes int // bytes drawn from the main stream (without the optional one-byte reads)
	failed    int // reads that failed (fault injection only)
	mainCalls int // multi-byte Read calls made on the stream
	untouched bool
	err       error
	panicked  bool
	panicVal  any
	frame     string
}

func execute(o *op, seedS []byte, K int64) runResult {
	var r runResult
	dir, err := os.MkdirTemp("", "c38")
	if err != nil {
		r.err = fmt.Errorf("harness: %v", err)
		return r
	}
	defer os.RemoveAll(dir)
	st := newStream(seedS)
	r.drawn, r.mainBytes, r.untouched = pinnedStream(st, K, func() {
		r.panicked, r.panicVal, r.frame = vk.Catch(func() { r.views, r.err = o.run(dir) })
	})
	r.mainCalls = st.mainCalls
	return r
}

// executeTransient runs o with stream(seedS) whose main-stream Read call number failCall fails
// once (short bytes served, then ferr); all other calls are served normally.
func executeTransient(o *op, seedS []byte, K int64, failCall, short int, ferr error) runResult {
	var r runResult
	dir, err := os.MkdirTemp("", "c38")
	if err != nil {
		r.err = fmt.Errorf("harness: %v", err)
		return r
	}
	defer os.RemoveAll(dir)
	st := newStream(seedS)
	st.transient, st.failCall, st.failShort, st.failErr = true, failCall, short, ferr
	r.drawn, r.mainBytes, r.untouched = pinnedStream(st, K, func() {
		r.panicked, r.panicVal, r.frame = vk.Catch(func() { r.views, r.err = o.run(dir) })
	})
	r.failed, r.mainCalls = st.failed, st.mainCalls
	return r
}

// executeFailing runs o with a CSPRNG stream that is identical to stream(seedS) for its first
// failAt bytes and fails from there on.
func executeFailing(o *op, seedS []byte, K int64, failAt int, ferr error) runResult {
	var r runResult
	dir, err := os.MkdirTemp("", "c38")
	if err != nil {
		r.err = fmt.Errorf("harness: %v", err)
		return r
	}
	defer os.RemoveAll(dir)
	st := newStream(seedS)
	st.failing, st.failAt, st.failErr = true, uint64(failAt), ferr
	r.drawn, r.mainBytes, r.untouched = pinnedStream(st, K, func() {
		r.panicked, r.panicVal, r.frame = vk.Catch(func() { r.views, r.err = o.run(dir) })
	})
	r.failed = st.failed
	return r
}

func viewOf(vs []secretView, kind string) []byte {
	for _, v := range vs {
		if v.kind == kind {
			return v.data
		}
	}
	return nil
}

func TestSecretsFromCSPRNG(t *testing.T) {
	// harness self-check: the pin oracle must hold for an operation that draws nothing
	if _, ok := pinned([]byte("x"), 42, func() {}); !ok {
		t.Fatalf("harness: rand.Seed(K) does not reproduce rand.New(rand.NewSource(K))")
	}
	if _, ok := pinned([]byte("x"), 42, func() { mrand.Int() }); ok {
		t.Fatalf("harness: consuming the global math/rand is not detected")
	}
	rapid.Check(t, func(t *rapid.T) {
		o := genOp(t)
		S1 := rapid.SliceOfN(rapid.Byte(), 8, 8).Draw(t, "S1")
		S2 := rapid.SliceOfN(rapid.Byte(), 8, 8).Draw(t, "S2")
		if bytes.Equal(S1, S2) {
			S2 = append(S2, 1)
		}
		K1 := rapid.Int64().Draw(t, "K1")
		K2 := rapid.Int64().Draw(t, "K2")
		if K2 == K1 {
			K2 = K1 + 1
		}
		o.desc["S1"], o.desc["S2"], o.desc["K1"], o.desc["K2"] = hex.EncodeToString(S1), hex.EncodeToString(S2), K1, K2
		key, _ := json.Marshal(o.desc)

		runs := []runResult{execute(o, S1, K1), execute(o, S1, K2), execute(o, S2, K1)}
		for i, r := range runs {
			if r.panicked {
				t.Fatalf("harness: %s panicked in run %d: %v (%s)", o.name, i, r.panicVal, r.frame)
			}
			if r.err != nil {
				t.Fatalf("harness: %s failed in run %d: %v", o.name, i, r.err)
			}
		}
		var fails []string
		blame := ""
		kinds := []string{}
		for _, v := range runs[0].views {
			kinds = append(kinds, v.kind)
		}
		sort.Strings(kinds)
		for _, k := range kinds {
			a, b, c := viewOf(runs[0].views, k), viewOf(runs[1].views, k), viewOf(runs[2].views, k)
			if !bytes.Equal(a, b) {
				fails = append(fails, fmt.Sprintf("D: %s differs between two runs on the same CSPRNG stream (math/rand seeds %d vs %d, later clock): %x vs %x", k, K1, K2, a, b))
				if blame == "" {
					blame = k
				}
			}
			if bytes.Equal(a, c) {
				fails = append(fails, fmt.Sprintf("C: %s is identical for two different CSPRNG streams (same math/rand seed %d): %x", k, K1, a))
				if blame == "" {
					blame = k
				}
			}
		}
		for i, r := range runs {
			if r.drawn < o.minBytes {
				fails = append(fails, fmt.Sprintf("A: run %d drew %d bytes from crypto/rand.Reader, its secrets need >= %d", i, r.drawn, o.minBytes))
				break
			}
		}
		for i, r := range runs {
			if !r.untouched {
				fails = append(fails, fmt.Sprintf("B: run %d advanced the global math/rand generator", i))
				break
			}
		}
		// ---- rule E: fault injection.  The healthy run (S1,K1) drew mainBytes bytes; with the
		// same stream failing after k < mainBytes bytes some read of secret material must fail,
		// and then no secret may come out: the entry point has to report an error.
		if need := runs[0].mainBytes; need > 0 && runs[0].mainCalls > 0 && len(fails) == 0 {
			k := rapid.IntRange(0, need-1).Draw(t, "failAfter")
			switch rapid.IntRange(0, 3).Draw(t, "failEdge") {
			case 0:
				k = 0
			case 1:
				k = need - 1
			}
			ferr := rapid.SampledFrom([]error{errInjected, io.EOF, io.ErrUnexpectedEOF}).Draw(t, "failErr")
			o.desc["fail_after_bytes"], o.desc["fail_error"], o.desc["healthy_bytes"] = k, ferr.Error(), need
			f1 := executeFailing(o, S1, K1, k, ferr)
			f2 := executeFailing(o, S2, K1, k, ferr)
			vk.Count("fault_runs", 2)
			blameE := o.kind
			if o.kind == "keystore-master-key" {
				blameE = "keystore-master-key-iv"
				if k >= 48 {
					blameE = "ecdsa-private-key" // master key and IV were read in full, the account key read fails
				}
			}
			if o.kind == "ecies-ephemeral-key" {
				blameE = "ecies-ephemeral-key-iv"
			}
			// transient fault: exactly one of the Read calls the healthy run made fails, the source
			// then recovers (an error that a later successful read overwrites must not be lost)
			ncalls := runs[0].mainCalls
			ci := rapid.IntRange(0, ncalls-1).Draw(t, "failCall")
			short := rapid.SampledFrom([]int{0, 0, 1, 8, 15, 31}).Draw(t, "failShort")
			o.desc["transient_fail_call"], o.desc["transient_short_bytes"], o.desc["healthy_read_calls"] = ci, short, ncalls
			t1 := executeTransient(o, S1, K1, ci, short, ferr)
			t2 := executeTransient(o, S2, K1, ci, short, ferr)
			vk.Count("fault_runs", 2)
			blameT := blameE
			if o.kind == "keystore-master-key" {
				blameT = "keystore-master-key-iv"
				if ci >= 2 {
					blameT = "ecdsa-private-key" // calls 0 and 1 are IV and master key
				}
			}
			type fr struct {
				r     runResult
				peer  runResult
				blame string
				what  string
			}
			frs := []fr{
				{f1, f2, blameE, fmt.Sprintf("failed (%v) for good after %d of the %d bytes it needs", ferr, k, need)},
				{f2, f1, blameE, fmt.Sprintf("failed (%v) for good after %d of the %d bytes it needs", ferr, k, need)},
				{t1, t2, blameT, fmt.Sprintf("failed once (%v, %d bytes served) on read call %d of %d and then recovered", ferr, short, ci, ncalls)},
				{t2, t1, blameT, fmt.Sprintf("failed once (%v, %d bytes served) on read call %d of %d and then recovered", ferr, short, ci, ncalls)},
			}
			for i, x := range frs {
				f, blameE := x.r, x.blame
				f1, f2 := x.r, x.peer
				if f.failed == 0 {
					t.Fatalf("harness: %s did not hit the injected failure (run %d: %s)", o.name, i, x.what)
				}
				if f.panicked {
					vk.Class("fault/" + o.name + "/panic")
					vk.Report(t, "C38:"+blameE+":panic-on-failed-os-csprng-read:"+f.frame, fmt.Sprintf("%s: crypto/rand.Reader %s: panic %v", o.name, x.what, f.panicVal), o.desc)
					return
				}
				if f.err == nil {
					same := ""
					if f1.err == nil && f2.err == nil && len(f1.views) > 0 && len(f2.views) > 0 && bytes.Equal(f1.views[0].data, f2.views[0].data) {
						same = "; two different CSPRNG streams gave the SAME secret"
					}
					vk.Class("fault/" + o.name + "/secret-produced")
					vk.Report(t, "C38:"+blameE+":secret-produced-after-failed-os-csprng-read", fmt.Sprintf("%s returned a secret although crypto/rand.Reader %s%s", o.name, x.what, same), o.desc)
					return
				}
				if !f.untouched {
					vk.Report(t, "C38:"+blameE+":not-only-from-os-csprng", o.name+": E: fell back to the global math/rand after a failed crypto/rand read", o.desc)
					return
				}
			}
			vk.Class("fault/" + o.name + "/error-returned")
		}
		vk.Count("runs", 3)
		vk.Count("csprng_bytes_drawn", int64(runs[0].drawn+runs[1].drawn+runs[2].drawn))
		defer vk.Case("op/"+o.name, true, key, func() any { return o.desc })
		if len(fails) > 0 {
			if blame == "" {
				blame = o.kind
			}
			// master key and IV are made by the same lines of NewClient: one root cause
			if blame == "keystore-iv" || blame == "keystore-master-key" {
				blame = "keystore-master-key-iv"
			}
			if blame == "ecies-iv" || blame == "ecies-ephemeral-key" {
				blame = "ecies-ephemeral-key-iv"
			}
			o.desc["failed_rules"] = fails
			vk.Report(t, "C38:"+blame+":not-only-from-os-csprng", o.name+": "+strings.Join(fails, "; "), o.desc)
		}
	})
}
