// C07 - block contents are bound to the header.
//
// Generator: a block that is valid on a real chain (coinbase + 0..N signed
// transfers spending distinct mature coins of the mini-node), then a short
// sequence of list edits (replace / change / remove / swap / move / duplicate /
// CVE-2012-2459 root-preserving tail duplication / second coinbase / coinbase
// not first / conflicting spend) and a choice "header kept" (same header and
// merged-mining proof, so the proof of work still passes) or "re-sealed" (the
// attacker recomputes the merkle root of the edited list and re-solves).
//
// Oracles:
//
//	O1  CheckBlockSanity(block) == nil  <=>  P(block), P written from the statement
//	    with an independent merkle implementation: non-empty, first transaction is
//	    the only coinbase, transaction ids pairwise distinct, no outpoint spent
//	    twice, header root == reference root of the ids.
//	O2  header kept and the id sequence differs from the accepted block => rejected.
//	O3  the unedited block is accepted (non-vacuity), also by ProcessBlock.
//	O4  (unit e2e) the same through Chain.ProcessBlock on a fresh node: the mutant is
//	    refused, the tip does not move, and the original is then still accepted.
package c07

import (
	"bytes"
	"crypto/sha256"
	"encoding/hex"
	"fmt"
	"strings"
	"testing"

	"github.com/elastos/Elastos.ELA/common"
	"github.com/elastos/Elastos.ELA/core/types"
	ctypes "github.com/elastos/Elastos.ELA/core/types/common"
	"github.com/elastos/Elastos.ELA/core/types/functions"
	"github.com/elastos/Elastos.ELA/core/contract/program"
	"github.com/elastos/Elastos.ELA/core/types/interfaces"
	"github.com/elastos/Elastos.ELA/core/types/payload"
	"github.com/elastos/Elastos.ELA/crypto"
	"pgregory.net/rapid"
	"verifharness/lib/vk"
	"verifharness/node"
)

func TestMain(m *testing.M) { vk.Main(m, "C07") }

// ---------------------------------------------------------------------------
// independent merkle root (Bitcoin style, written from the definition: pair
// adjacent nodes, an odd node is paired with itself, double SHA-256).

func refParent(l, r [32]byte) [32]byte {
	var b [64]byte
	copy(b[:32], l[:])
	copy(b[32:], r[:])
	h := sha256.Sum256(b[:])
	return sha256.Sum256(h[:])
}

func refRoot(leaves [][32]byte) (root [32]byte, ok bool) {
	if len(leaves) == 0 {
		return root, false
	}
	level := append([][32]byte(nil), leaves...)
	for len(level) > 1 {
		next := make([][32]byte, 0, (len(level)+1)/2)
		for i := 0; i < len(level); i += 2 {
			j := i + 1
			if j == len(level) {
				j = i
			}
			next = append(next, refParent(level[i], level[j]))
		}
		level = next
	}
	return level[0], true
}

// cveExpansions returns, for a leaf list, every longer list with the same
// merkle root obtained by materialising the implicit duplicate of the last
// subtree at a level of odd width (the CVE-2012-2459 family).  Result entries
// are index lists into the original leaves.
func cveExpansions(n int) [][]int {
	var out [][]int
	idx := make([]int, n)
	for i := range idx {
		idx[i] = i
	}
	// level L: groups of 2^L leaves; width = ceil(len/2^L)
	cur := idx
	for span := 1; span < 2*len(cur) && len(out) < 8; span *= 2 {
		width := (len(cur) + span - 1) / span
		if width <= 1 {
			break
		}
		if width%2 == 1 {
			// materialise the last group to a full span (padding = repeat of its own tail
			// subtrees), then append a copy of it
			last := append([]int(nil), cur[(width-1)*span:]...)
			last = fillSpan(last, span)
			exp := append(append([]int(nil), cur[:(width-1)*span]...), last...)
			exp = append(exp, last...)
			out = append(out, exp)
			cur = exp
		}
	}
	return out
}

// fillSpan expands a group of k <= span leaves to exactly span leaves the way
// the tree pads it (duplicate the last sub-group at every level).
func fillSpan(g []int, span int) []int {
	if len(g) == span || span == 1 {
		return g
	}
	half := span / 2
	if len(g) <= half {
		l := fillSpan(g, half)
		return append(append([]int(nil), l...), l...)
	}
	l := g[:half]
	r := fillSpan(append([]int(nil), g[half:]...), half)
	return append(append([]int(nil), l...), r...)
}

func txids(txs []interfaces.Transaction) [][32]byte {
	out := make([][32]byte, len(txs))
	for i, tx := range txs {
		out[i] = [32]byte(tx.Hash())
	}
	return out
}

// ---------------------------------------------------------------------------
// statement predicate

type verdict struct {
	ok     bool
	clause string // first violated clause
}

func predicate(b *types.Block) verdict {
	txs := b.Transactions
	if len(txs) == 0 {
		return verdict{false, "empty"}
	}
	if !txs[0].IsCoinBaseTx() {
		return verdict{false, "first-not-coinbase"}
	}
	for _, tx := range txs[1:] {
		if tx.IsCoinBaseTx() {
			return verdict{false, "second-coinbase"}
		}
	}
	seen := map[[32]byte]bool{}
	for _, id := range txids(txs) {
		if seen[id] {
			return verdict{false, "duplicate-tx"}
		}
		seen[id] = true
	}
	root, _ := refRoot(txids(txs))
	if root != [32]byte(b.Header.MerkleRoot) {
		return verdict{false, "merkle-mismatch"}
	}
	// not part of the statement's three clauses but a documented reason to refuse
	// (two different transactions spending one outpoint)
	spent := map[ctypes.OutPoint]bool{}
	for _, tx := range txs {
		for _, in := range tx.Inputs() {
			if spent[in.Previous] {
				return verdict{false, "duplicate-input"}
			}
			spent[in.Previous] = true
		}
	}
	return verdict{true, ""}
}

// ---------------------------------------------------------------------------
// scenario: a node with a short chain and a set of mature coins

type scenario struct {
	n     *node.Node
	tip   *types.Block
	coins []node.Coin // spendable at tip.Height+1, value >= 1 ELA
}

const ela = 100000000

func newScenario(fan int) (*scenario, error) {
	n, err := node.New(node.Opts{})
	if err != nil {
		return nil, err
	}
	s := &scenario{n: n}
	tip := n.Genesis
	mine := func(txs []interfaces.Transaction, fees common.Fixed64, miner int) error {
		b, err := n.BuildBlock(node.BlockSpec{Parent: tip, Txs: txs, Fees: fees, MinerKey: miner})
		if err != nil {
			return err
		}
		in, orphan, err := n.Process(b)
		if err != nil || !in || orphan {
			return fmt.Errorf("setup block %d: in=%v orphan=%v err=%v", b.Height, in, orphan, err)
		}
		tip = b
		return nil
	}
	for i := 0; i < 3; i++ {
		if err := mine(nil, 0, i%len(n.Keys)); err != nil {
			n.Close()
			return nil, err
		}
	}
	// fan the genesis coin out into many coins owned by ring keys
	chain, err := n.ActiveChain()
	if err != nil {
		n.Close()
		return nil, err
	}
	u, err := node.Replay(chain, n.KeyIndexOf)
	if err != nil {
		n.Close()
		return nil, err
	}
	var big node.Coin
	for _, c := range u.Spendable(tip.Height+1, n.Params.PowConfiguration.CoinbaseMaturity) {
		if c.Value > big.Value {
			big = c
		}
	}
	if big.Value < common.Fixed64((fan+2)*10*ela) {
		n.Close()
		return nil, fmt.Errorf("no large coin (%v)", big.Value)
	}
	fee := common.Fixed64(1000)
	var outs []node.Out
	var sum common.Fixed64
	for i := 0; i < fan; i++ {
		v := common.Fixed64((3 + i%5) * ela)
		outs = append(outs, node.Out{To: n.Keys[i%len(n.Keys)].ProgramHash, Value: v})
		sum += v
	}
	outs = append(outs, node.Out{To: n.Keys[0].ProgramHash, Value: big.Value - sum - fee})
	tx, err := n.Transfer([]node.Coin{big}, outs, tip.Height+1)
	if err != nil {
		n.Close()
		return nil, err
	}
	if err := mine([]interfaces.Transaction{tx}, fee, 1); err != nil {
		n.Close()
		return nil, err
	}
	if err := mine(nil, 0, 2); err != nil {
		n.Close()
		return nil, err
	}
	chain, err = n.ActiveChain()
	if err != nil {
		n.Close()
		return nil, err
	}
	u, err = node.Replay(chain, n.KeyIndexOf)
	if err != nil {
		n.Close()
		return nil, err
	}
	for _, c := range u.Spendable(tip.Height+1, n.Params.PowConfiguration.CoinbaseMaturity) {
		if c.Value >= ela && c.Value <= 20*ela {
			s.coins = append(s.coins, c)
		}
	}
	s.tip = tip
	return s, nil
}

var shared *scenario

func sharedScenario(t interface{ Fatalf(string, ...any) }) *scenario {
	if shared == nil {
		s, err := newScenario(72)
		if err != nil {
			t.Fatalf("harness: scenario: %v", err)
		}
		shared = s
	}
	// the shared node is never mutated after setup: CheckBlockSanity is stateless
	return shared
}

// ---------------------------------------------------------------------------
// case generation

type txSpec struct {
	Coins []int   `json:"coins"` // indexes into scenario.coins
	Outs  []int64 `json:"outs"`
	To    []int   `json:"to"`
}

type edit struct {
	Kind string `json:"kind"`
	I    int    `json:"i"`
	J    int    `json:"j"`
}

type blockCase struct {
	Base     []txSpec `json:"base"`
	Extra    []txSpec `json:"extra"`
	NoInput  []int    `json:"no_input"` // positions (seeds) of input-less transactions in the base list (sanity units only)
	Edits    []edit   `json:"edits"`
	Reseal   bool     `json:"reseal"`
	FlipRoot int      `json:"flip_root"` // -1 none, else bit index 0..255 (re-solved)
}

var editKinds = []string{
	"replace-tx", "replace-coinbase", "change-value", "change-locktime", "change-address",
	"remove", "swap", "move", "dup-insert", "dup-cve", "second-coinbase", "coinbase-not-first",
	"tx-to-coinbase", "conflict", "insert-noinput", "dup-noinput",
}

// noInputTx builds an ActivateProducer transaction: it has no inputs, outputs,
// attributes or programs (a "no cost" transaction) and passes the context-free
// checks, so a duplicate of it is caught by nothing but the duplicate-id rule.
func noInputTx(k int) interfaces.Transaction {
	key := node.DeterministicKey(1000 + k)
	pub, err := key.PublicKey.EncodePoint(true)
	if err != nil {
		panic(err)
	}
	sig := make([]byte, 64)
	sig[0] = byte(k)
	return functions.CreateTransaction(ctypes.TxVersion09, ctypes.ActivateProducer, 0,
		&payload.ActivateProducer{NodePublicKey: pub, Signature: sig},
		[]*ctypes.Attribute{}, []*ctypes.Input{}, []*ctypes.Output{}, 0, []*program.Program{})
}

func drawTxSpec(t *rapid.T, free *[]int, label string) (txSpec, bool) {
	if len(*free) == 0 {
		return txSpec{}, false
	}
	nin := 1
	if len(*free) >= 2 && rapid.IntRange(0, 3).Draw(t, label+"-2in") == 0 {
		nin = 2
	}
	var sp txSpec
	for k := 0; k < nin; k++ {
		p := rapid.IntRange(0, len(*free)-1).Draw(t, label+"-coin")
		sp.Coins = append(sp.Coins, (*free)[p])
		*free = append((*free)[:p], (*free)[p+1:]...)
	}
	nout := rapid.IntRange(1, 3).Draw(t, label+"-nout")
	for k := 0; k < nout; k++ {
		sp.Outs = append(sp.Outs, rapid.Int64Range(1, ela/2).Draw(t, label+"-out"))
		sp.To = append(sp.To, rapid.IntRange(0, 5).Draw(t, label+"-to"))
	}
	return sp, true
}

// allowNoInputBase: base blocks of the CheckBlockSanity units may contain
// input-less transactions (they are not valid in context, so the ProcessBlock
// unit switches this off and only meets them through edits).
var allowNoInputBase = true

func drawCase(t *rapid.T, ncoins, maxTx int, forceSingle bool) blockCase {
	free := make([]int, ncoins)
	for i := range free {
		free[i] = i
	}
	var c blockCase
	c.FlipRoot = -1
	nb := rapid.IntRange(0, maxTx-1).Draw(t, "ntx")
	for i := 0; i < nb; i++ {
		sp, ok := drawTxSpec(t, &free, "base")
		if !ok {
			break
		}
		c.Base = append(c.Base, sp)
	}
	for i := 0; i < 2; i++ {
		sp, ok := drawTxSpec(t, &free, "extra")
		if ok {
			c.Extra = append(c.Extra, sp)
		}
	}
	if allowNoInputBase {
		for k := rapid.SampledFrom([]int{0, 0, 0, 1, 1, 2}).Draw(t, "nnoinput"); k > 0; k-- {
			c.NoInput = append(c.NoInput, rapid.IntRange(0, 40).Draw(t, "noinput-pos"))
		}
	}
	c.Edits, c.Reseal, c.FlipRoot = drawEdits(t, forceSingle)
	return c
}

func drawEdits(t *rapid.T, forceSingle bool) (edits []edit, reseal bool, flip int) {
	flip = -1
	ne := 1
	if !forceSingle {
		ne = rapid.SampledFrom([]int{0, 1, 1, 1, 1, 2, 2, 3}).Draw(t, "nedits")
	}
	for i := 0; i < ne; i++ {
		edits = append(edits, edit{
			Kind: rapid.SampledFrom(editKinds).Draw(t, "edit"),
			I:    rapid.IntRange(0, 40).Draw(t, "ei"),
			J:    rapid.IntRange(0, 40).Draw(t, "ej"),
		})
	}
	if !forceSingle {
		reseal = rapid.IntRange(0, 2).Draw(t, "reseal") == 0
		if rapid.IntRange(0, 9).Draw(t, "fliproot") == 0 {
			flip = rapid.OneOf(rapid.SampledFrom([]int{0, 7, 8, 247, 248, 255}), rapid.IntRange(0, 255)).Draw(t, "flipbit")
		}
	}
	return
}

// ---------------------------------------------------------------------------
// case materialisation

func cloneTx(tx interfaces.Transaction) (interfaces.Transaction, error) {
	buf := new(bytes.Buffer)
	if err := tx.Serialize(buf); err != nil {
		return nil, err
	}
	r := bytes.NewReader(buf.Bytes())
	c, err := functions.GetTransactionByBytes(r)
	if err != nil {
		return nil, err
	}
	if err := c.Deserialize(r); err != nil {
		return nil, err
	}
	return c, nil
}

func (s *scenario) buildTx(sp txSpec) (interfaces.Transaction, common.Fixed64, error) {
	var coins []node.Coin
	var in common.Fixed64
	for _, ci := range sp.Coins {
		coins = append(coins, s.coins[ci])
		in += s.coins[ci].Value
	}
	var outs []node.Out
	var sum common.Fixed64
	for k, v := range sp.Outs {
		outs = append(outs, node.Out{To: s.n.Keys[sp.To[k]%len(s.n.Keys)].ProgramHash, Value: common.Fixed64(v)})
		sum += common.Fixed64(v)
	}
	fee := common.Fixed64(10000)
	// change back to the first owner
	outs = append(outs, node.Out{To: coins[0].Owner, Value: in - sum - fee})
	tx, err := s.n.Transfer(coins, outs, s.tip.Height+1)
	return tx, fee, err
}

type built struct {
	orig     *types.Block
	mut      *types.Block
	applied  []string // edits that actually changed something
	sameIDs  bool     // mutant id sequence equals the original's
	resealed bool
	flipped  bool
}

type baseBlock struct {
	orig  *types.Block
	extra []interfaces.Transaction
	cbAlt interfaces.Transaction
}

func (s *scenario) buildBase(c blockCase) (*baseBlock, error) {
	var txs []interfaces.Transaction
	var fees common.Fixed64
	for _, sp := range c.Base {
		tx, fee, err := s.buildTx(sp)
		if err != nil {
			return nil, err
		}
		txs = append(txs, tx)
		fees += fee
	}
	var extra []interfaces.Transaction
	for _, sp := range c.Extra {
		tx, _, err := s.buildTx(sp)
		if err != nil {
			return nil, err
		}
		extra = append(extra, tx)
	}
	for k, seed := range c.NoInput {
		pos := seed % (len(txs) + 1)
		txs = append(txs[:pos:pos], append([]interfaces.Transaction{noInputTx(k)}, txs[pos:]...)...)
	}
	orig, err := s.n.BuildBlock(node.BlockSpec{Parent: s.tip, Txs: txs, Fees: fees, Salt: 1})
	if err != nil {
		return nil, err
	}
	cbAlt := s.n.NewCoinbase(orig.Height, 1, 77)
	cbAlt.Outputs()[0].Value = orig.Transactions[0].Outputs()[0].Value
	cbAlt.Outputs()[1].Value = orig.Transactions[0].Outputs()[1].Value
	return &baseBlock{orig: orig, extra: extra, cbAlt: cbAlt}, nil
}

func (s *scenario) materialise(c blockCase) (*built, error) {
	bb, err := s.buildBase(c)
	if err != nil {
		return nil, err
	}
	return s.applyEdits(bb, c)
}

func (s *scenario) applyEdits(bb *baseBlock, c blockCase) (*built, error) {
	orig, extra, cbAlt := bb.orig, bb.extra, bb.cbAlt
	list := append([]interfaces.Transaction(nil), orig.Transactions...)
	b := &built{orig: orig}
	extraUsed := 0
	for _, e := range c.Edits {
		n := len(list)
		if n == 0 {
			break
		}
		i, j := e.I%n, e.J%n
		if (e.Kind == "swap" || e.Kind == "move") && n > 1 {
			j = (i + 1 + e.J%(n-1)) % n
		}
		nonCb := func(k int) int { // map to an index >= 1 if possible
			if n == 1 {
				return -1
			}
			return 1 + k%(n-1)
		}
		done := false
		switch e.Kind {
		case "replace-tx":
			if k := nonCb(e.I); k > 0 && extraUsed < len(extra) {
				list[k] = extra[extraUsed]
				extraUsed++
				done = true
			}
		case "replace-coinbase":
			if list[0].IsCoinBaseTx() {
				list[0] = cbAlt
				done = true
			}
		case "change-value", "change-locktime", "change-address":
			cp, err := cloneTx(list[i])
			if err != nil {
				return nil, err
			}
			kind := e.Kind
			if len(cp.Outputs()) == 0 {
				kind = "change-locktime" // input-less transactions have no outputs to edit
			}
			switch kind {
			case "change-value":
				o := cp.Outputs()[e.J%len(cp.Outputs())]
				o.Value++
			case "change-locktime":
				cp.SetLockTime(cp.LockTime() + 1 + uint32(e.J))
			case "change-address":
				o := cp.Outputs()[e.J%len(cp.Outputs())]
				o.ProgramHash = s.n.Keys[(s.n.KeyIndexOf(o.ProgramHash)+1+len(s.n.Keys))%len(s.n.Keys)].ProgramHash
			}
			if cp.Hash() == list[i].Hash() {
				return nil, fmt.Errorf("edit %s did not change the id", e.Kind)
			}
			list[i] = cp
			done = true
		case "remove":
			list = append(list[:i:i], list[i+1:]...)
			done = true
		case "swap":
			if i != j {
				list[i], list[j] = list[j], list[i]
				done = true
			}
		case "move":
			if i != j {
				x := list[i]
				rest := append(list[:i:i], list[i+1:]...)
				list = append(rest[:j:j], append([]interfaces.Transaction{x}, rest[j:]...)...)
				done = true
			}
		case "dup-insert":
			pos := e.J % (n + 1)
			list = append(list[:pos:pos], append([]interfaces.Transaction{list[i]}, list[pos:]...)...)
			done = true
		case "dup-cve":
			exps := cveExpansions(n)
			if len(exps) > 0 {
				ex := exps[e.I%len(exps)]
				nl := make([]interfaces.Transaction, len(ex))
				for k, src := range ex {
					nl[k] = list[src]
				}
				list = nl
				done = true
			}
		case "second-coinbase":
			pos := 1 + e.J%n
			list = append(list[:pos:pos], append([]interfaces.Transaction{cbAlt}, list[pos:]...)...)
			done = true
		case "coinbase-not-first":
			if n > 1 && list[0].IsCoinBaseTx() {
				k := nonCb(e.J)
				x := list[0]
				rest := append([]interfaces.Transaction(nil), list[1:]...)
				pos := k
				if pos > len(rest) {
					pos = len(rest)
				}
				list = append(rest[:pos:pos], append([]interfaces.Transaction{x}, rest[pos:]...)...)
				done = true
			}
		case "tx-to-coinbase":
			if k := nonCb(e.I); k > 0 {
				list[k] = cbAlt
				done = true
			}
		case "insert-noinput", "dup-noinput":
			fresh := noInputTx(100 + len(b.applied))
			pos := 1 + e.J%n
			list = append(list[:pos:pos], append([]interfaces.Transaction{fresh}, list[pos:]...)...)
			if e.Kind == "dup-noinput" {
				pos2 := 1 + e.I%(n+1)
				list = append(list[:pos2:pos2], append([]interfaces.Transaction{fresh}, list[pos2:]...)...)
			}
			done = true
		case "conflict":
			// a different transaction spending the first outpoint of list[k]
			if k := nonCb(e.I); k > 0 && !list[k].IsCoinBaseTx() && len(list[k].Inputs()) > 0 {
				cp, err := cloneTx(list[k])
				if err != nil {
					return nil, err
				}
				cp.Outputs()[0].Value++
				pos := e.J % (n + 1)
				if pos == 0 {
					pos = n
				}
				list = append(list[:pos:pos], append([]interfaces.Transaction{cp}, list[pos:]...)...)
				done = true
			}
		}
		if done {
			b.applied = append(b.applied, e.Kind)
		}
	}
	mut := &types.Block{Header: orig.Header, Transactions: list}
	if c.Reseal && len(list) > 0 {
		ids := txids(list)
		root, _ := refRoot(ids)
		if root != [32]byte(mut.Header.MerkleRoot) {
			mut.Header.MerkleRoot = common.Uint256(root)
			node.Solve(mut, s.n.Params)
			b.resealed = true
		}
	}
	if c.FlipRoot >= 0 {
		mut.Header.MerkleRoot[c.FlipRoot/8] ^= 1 << uint(c.FlipRoot%8)
		node.Solve(mut, s.n.Params)
		b.flipped = true
	}
	b.mut = mut
	oi, mi := txids(orig.Transactions), txids(list)
	b.sameIDs = len(oi) == len(mi)
	if b.sameIDs {
		for k := range oi {
			if oi[k] != mi[k] {
				b.sameIDs = false
				break
			}
		}
	}
	return b, nil
}

func (b *built) class() string {
	hdr := "kept"
	if b.resealed {
		hdr = "resealed"
	}
	if b.flipped {
		hdr += "+flip"
	}
	if len(b.applied) == 0 {
		return "edits=none hdr=" + hdr
	}
	if len(b.applied) == 1 {
		return "edit=" + b.applied[0] + " hdr=" + hdr
	}
	return fmt.Sprintf("edits=%d hdr=%s", len(b.applied), hdr)
}

func render(c blockCase, b *built) func() any {
	return func() any {
		ids := func(txs []interfaces.Transaction) []string {
			var o []string
			for _, tx := range txs {
				h := tx.Hash()
				o = append(o, hex.EncodeToString(h[:6]))
			}
			return o
		}
		return map[string]any{"case": c, "applied": b.applied, "orig_ids": ids(b.orig.Transactions),
			"mutant_ids": ids(b.mut.Transactions), "header_root": hex.EncodeToString(b.mut.Header.MerkleRoot[:6])}
	}
}

func errClass(err error) string {
	if err == nil {
		return "accepted"
	}
	s := err.Error()
	for _, k := range []string{"second coinbase", "not a coinbase", "duplicate transaction", "duplicate UTXO",
		"merkle root is invalid", "does not contain any", "CheckTransactionSanity", "aux pow", "proof of work"} {
		if strings.Contains(s, k) {
			return strings.ReplaceAll(k, " ", "-")
		}
	}
	return "other"
}

// checkSanityCase runs O1-O3 for one case against CheckBlockSanity.
func checkSanityCase(t vk.TB, s *scenario, c blockCase) {
	b, err := s.materialise(c)
	if err != nil {
		t.Fatalf("harness: materialise: %v", err)
	}
	rend := render(c, b)
	key := []byte(fmt.Sprintf("%v", rend()))
	nontrivial := len(b.applied) > 0 || b.flipped
	defer func() { vk.Case(b.class(), nontrivial, key, rend) }()

	// O3: the unedited block is accepted
	if err := s.n.Chain.CheckBlockSanity(b.orig); err != nil {
		if pv := predicate(b.orig); !pv.ok {
			t.Fatalf("harness: honest block does not satisfy the predicate: %s", pv.clause)
		}
		vk.Report(t, "C07:CheckBlockSanity:rejected-valid-block:"+errClass(err), err.Error(), rend())
		return
	}
	got := s.n.Chain.CheckBlockSanity(b.mut)
	want := predicate(b.mut)
	vk.Class("result=" + errClass(got))
	if got == nil && !want.ok {
		vk.Report(t, "C07:CheckBlockSanity:accepted-but-"+want.clause,
			fmt.Sprintf("block with %d txs accepted although %s (edits %v)", len(b.mut.Transactions), want.clause, b.applied), rend())
		return
	}
	if got != nil && want.ok {
		if errClass(got) == "CheckTransactionSanity" {
			// an edited transaction (e.g. coinbase value+1 breaking the 30% rule) is not
			// sane on its own: outside the statement, only counted
			vk.Class("precondition: edited tx not sane")
			return
		}
		vk.Report(t, "C07:CheckBlockSanity:rejected-valid-block:"+errClass(got), got.Error(), rend())
		return
	}
	// O2: header kept, different id sequence => rejected
	if !b.resealed && !b.flipped && !b.sameIDs && got == nil {
		vk.Report(t, "C07:CheckBlockSanity:mutant-accepted",
			fmt.Sprintf("transaction list changed (%v) under an unchanged header and still accepted", b.applied), rend())
	}
}

func TestBlockPredicate(t *testing.T) {
	maxTx := 9
	if vk.Thorough() {
		maxTx = 34
	}
	rapid.Check(t, func(rt *rapid.T) {
		s := sharedScenario(rt)
		c := drawCase(rt, len(s.coins), maxTx, false)
		checkSanityCase(rt, s, c)
	})
}

// TestSingleMutation: exactly one edit, header and proof of work kept.
func TestSingleMutation(t *testing.T) {
	maxTx := 9
	if vk.Thorough() {
		maxTx = 20
	}
	rapid.Check(t, func(rt *rapid.T) {
		s := sharedScenario(rt)
		c := drawCase(rt, len(s.coins), maxTx, true)
		checkSanityCase(rt, s, c)
	})
}

// TestProcessBlock: the same family delivered through Chain.ProcessBlock on a
// fresh node (O4).
func TestProcessBlock(t *testing.T) {
	rapid.Check(t, func(rt *rapid.T) {
		s, err := newScenario(24)
		if err != nil {
			rt.Fatalf("harness: scenario: %v", err)
		}
		defer s.n.Close()
		allowNoInputBase = false
		c := drawCase(rt, len(s.coins), 9, false)
		allowNoInputBase = true
		bb, err := s.buildBase(c)
		if err != nil {
			rt.Fatalf("harness: base: %v", err)
		}
		// several mutants of the same accepted block are delivered to one node: each
		// refused one must leave the node exactly where it was
		nmut := rapid.IntRange(1, 6).Draw(rt, "nmutants")
		tip0 := *s.n.Chain.BestChain.Hash
		var last *built
		var lastCase blockCase
		delivered := 0
		for m := 0; m < nmut; m++ {
			if m > 0 {
				c.Edits, c.Reseal, c.FlipRoot = drawEdits(rt, false)
			}
			b, err := s.applyEdits(bb, c)
			if err != nil {
				rt.Fatalf("harness: edits: %v", err)
			}
			last, lastCase = b, c
			rend := render(c, b)
			changed := !b.sameIDs || b.flipped
			vk.Case("e2e "+b.class(), changed, []byte(fmt.Sprintf("%v", rend())), rend)
			if !changed {
				continue
			}
			delivered++
			tipBefore := *s.n.Chain.BestChain.Hash
			want := predicate(b.mut)
			in, orphan, perr := s.n.Process(b.mut)
			accepted := perr == nil && !orphan
			moved := *s.n.Chain.BestChain.Hash != tipBefore
			vk.Class("e2e result=" + map[bool]string{true: "accepted", false: "refused"}[accepted])
			if (accepted || moved || in) && !want.ok {
				vk.Report(rt, "C07:ProcessBlock:accepted-but-"+want.clause,
					fmt.Sprintf("ProcessBlock in=%v orphan=%v err=%v tip moved=%v although %s (edits %v)", in, orphan, perr, moved, want.clause, b.applied), rend())
				return
			}
			if !b.resealed && !b.flipped && (accepted || moved) {
				vk.Report(rt, "C07:ProcessBlock:mutant-accepted",
					fmt.Sprintf("changed list (%v) under unchanged header accepted", b.applied), rend())
				return
			}
			if accepted {
				// a re-sealed list that satisfies the predicate (and, on the main chain, the
				// context rules) is simply another block; the original becomes its sibling
				vk.Class("e2e resealed-valid-accepted")
			}
		}
		// the honest block is (still) accepted
		rend := render(lastCase, last)
		in, orphan, perr := s.n.Process(bb.orig)
		if perr != nil || orphan {
			vk.Report(rt, "C07:ProcessBlock:rejected-valid-block", fmt.Sprintf("in=%v orphan=%v err=%v after %d mutants", in, orphan, perr, delivered), rend())
			return
		}
		if !in && *s.n.Chain.BestChain.Hash == tip0 {
			vk.Report(rt, "C07:ProcessBlock:rejected-valid-block", "honest block neither connected nor stored as side chain", rend())
			return
		}
		vk.Class("e2e honest accepted in-main=" + fmt.Sprint(in))
	})
}

// TestOutOfOrder: the mutant of a child block arrives BEFORE its parent (it can only
// be refused or parked), then the parent, then the original child.  Oracle: no
// block whose contents do not match its header is ever on the active chain.
func TestOutOfOrder(t *testing.T) {
	rapid.Check(t, func(rt *rapid.T) {
		s, err := newScenario(24)
		if err != nil {
			rt.Fatalf("harness: scenario: %v", err)
		}
		defer s.n.Close()
		old := s.tip
		parent, err := s.n.BuildBlock(node.BlockSpec{Parent: old, Salt: 5, MinerKey: 2})
		if err != nil {
			rt.Fatalf("harness: parent: %v", err)
		}
		s.tip = parent // the child is built on the undelivered parent
		allowNoInputBase = false
		c := drawCase(rt, len(s.coins), 9, false)
		allowNoInputBase = true
		bb, err := s.buildBase(c)
		if err != nil {
			rt.Fatalf("harness: base: %v", err)
		}
		nmut := rapid.IntRange(1, 3).Draw(rt, "nmutants")
		var last *built
		var lastCase blockCase
		badDelivered := 0
		for m := 0; m < nmut; m++ {
			if m > 0 || len(c.Edits) == 0 {
				c.Edits, c.Reseal, c.FlipRoot = drawEdits(rt, true)
				if rapid.IntRange(0, 3).Draw(rt, "reseal-ooo") == 0 {
					c.Reseal = true
				}
			}
			b, err := s.applyEdits(bb, c)
			if err != nil {
				rt.Fatalf("harness: edits: %v", err)
			}
			last, lastCase = b, c
			rend := render(c, b)
			changed := !b.sameIDs || b.flipped
			vk.Case("out-of-order "+b.class(), changed, []byte(fmt.Sprintf("ooo%v", rend())), rend)
			if !changed {
				continue
			}
			want := predicate(b.mut)
			in, orphan, perr := s.n.Process(b.mut)
			vk.Class(fmt.Sprintf("out-of-order mutant-first: orphan=%v err=%v", orphan, perr != nil))
			if in || *s.n.Chain.BestChain.Hash != old.Hash() {
				vk.Report(rt, "C07:ProcessBlock:block-connected-before-its-parent", fmt.Sprintf("in=%v orphan=%v err=%v", in, orphan, perr), rend())
				return
			}
			if !want.ok {
				badDelivered++
			}
		}
		rend := render(lastCase, last)
		if _, orphan, perr := s.n.Process(parent); orphan || *s.n.Chain.BestChain.Hash == old.Hash() {
			vk.Report(rt, "C07:ProcessBlock:rejected-valid-block", fmt.Sprintf("parent refused after parked children: orphan=%v err=%v", orphan, perr), rend())
			return
		}
		chain, err := s.n.ActiveChain()
		if err != nil {
			rt.Fatalf("harness: active chain: %v", err)
		}
		for _, blk := range chain {
			if blk.Height <= old.Height {
				continue
			}
			if v := predicate(blk); !v.ok {
				vk.Report(rt, "C07:ProcessOrphans:connected-block-not-matching-header:"+v.clause,
					fmt.Sprintf("block at height %d with %d txs is on the active chain although %s (delivered before its parent; edits %v)",
						blk.Height, len(blk.Transactions), v.clause, last.applied), rend())
				return
			}
		}
		// the honest child is accepted (connected, or a side-chain sibling of a legitimately re-sealed variant)
		in, orphan, perr := s.n.Process(bb.orig)
		if perr != nil || orphan {
			vk.Report(rt, "C07:ProcessBlock:rejected-valid-block", fmt.Sprintf("in=%v orphan=%v err=%v after %d bad mutants delivered before the parent", in, orphan, perr, badDelivered), rend())
			return
		}
		vk.Class("out-of-order honest child accepted in-main=" + fmt.Sprint(in))
	})
}

// ---------------------------------------------------------------------------
// merkle reference vs crypto.ComputeRoot

func TestMerkleReference(t *testing.T) {
	maxN := 64
	if vk.Thorough() {
		maxN = 300
	}
	rapid.Check(t, func(rt *rapid.T) {
		n := rapid.IntRange(1, maxN).Draw(rt, "n")
		distinct := rapid.IntRange(1, n).Draw(rt, "distinct")
		pool := make([][32]byte, distinct)
		seed := rapid.SliceOfN(rapid.Byte(), 8, 8).Draw(rt, "seed")
		for i := range pool {
			pool[i] = sha256.Sum256(append(append([]byte{}, seed...), byte(i), byte(i>>8)))
		}
		leaves := make([][32]byte, n)
		hashes := make([]common.Uint256, n)
		for i := range leaves {
			k := i
			if distinct < n {
				k = rapid.IntRange(0, distinct-1).Draw(rt, "pick")
			}
			leaves[i] = pool[k%distinct]
			hashes[i] = common.Uint256(leaves[i])
		}
		want, _ := refRoot(leaves)
		got, err := crypto.ComputeRoot(hashes)
		class := "n=odd"
		if n%2 == 0 {
			class = "n=even"
		}
		if n&(n-1) == 0 {
			class = "n=pow2"
		}
		key := append(append([]byte{}, seed...), byte(n), byte(n>>8), byte(distinct))
		vk.Case("merkle "+class, n >= 2, key, func() any { return map[string]any{"n": n, "distinct": distinct} })
		if err != nil {
			vk.Report(rt, "C07:ComputeRoot:error", err.Error(), map[string]any{"n": n})
			return
		}
		if [32]byte(got) != want {
			vk.Report(rt, "C07:ComputeRoot:differs-from-reference", fmt.Sprintf("n=%d", n), map[string]any{"n": n, "seed": hex.EncodeToString(seed), "distinct": distinct})
			return
		}
		// the known ambiguity: every CVE expansion has the same root in both
		for _, ex := range cveExpansions(n) {
			hs := make([]common.Uint256, len(ex))
			ls := make([][32]byte, len(ex))
			for k, src := range ex {
				hs[k] = hashes[src]
				ls[k] = leaves[src]
			}
			r1, _ := crypto.ComputeRoot(hs)
			r2, _ := refRoot(ls)
			if [32]byte(r1) != r2 {
				vk.Report(rt, "C07:ComputeRoot:differs-from-reference", fmt.Sprintf("expansion of n=%d to %d", n, len(ex)), map[string]any{"n": n, "len": len(ex)})
				return
			}
			if r2 != want {
				rt.Fatalf("harness: cveExpansions produced a list with a different root (n=%d -> %d)", n, len(ex))
			}
			vk.Count("cve_expansions_checked", 1)
		}
	})
}

// TestMerkleAllLengths: every length 1..N once (plain loop).
func TestMerkleAllLengths(t *testing.T) {
	N := vk.Scale(64)
	for n := 1; n <= N; n++ {
		leaves := make([][32]byte, n)
		hashes := make([]common.Uint256, n)
		for i := range leaves {
			leaves[i] = sha256.Sum256([]byte{byte(n), byte(n >> 8), byte(i), byte(i >> 8), byte(vk.Seed())})
			hashes[i] = common.Uint256(leaves[i])
		}
		want, _ := refRoot(leaves)
		got, err := crypto.ComputeRoot(hashes)
		vk.Case("merkle-all-lengths", n >= 2, []byte{byte(n), byte(n >> 8), 0xaa}, nil)
		if err != nil || [32]byte(got) != want {
			vk.Report(t, "C07:ComputeRoot:differs-from-reference", fmt.Sprintf("n=%d err=%v", n, err), map[string]any{"n": n})
			return
		}
	}
}

// ---------------------------------------------------------------------------
// exhaustive single mutations for all blocks with <= 6 transactions (thorough)

func TestExhaustiveSingleMutations(t *testing.T) {
	s := sharedScenario(t)
	bases := vk.Scale(4) // base blocks per transaction count
	shard, nshards := vk.Shard()
	caseNo := 0
	for ntx := 1; ntx <= 6; ntx++ {
		for v := 0; v < bases; v++ {
			var base blockCase
			base.FlipRoot = -1
			coin := (v*13 + ntx*7) % (len(s.coins) - 16)
			for k := 0; k < ntx-1; k++ {
				base.Base = append(base.Base, txSpec{Coins: []int{coin + k}, Outs: []int64{int64(1000 + 17*k + v)}, To: []int{k % 6}})
			}
			base.Extra = []txSpec{{Coins: []int{coin + 10}, Outs: []int64{4242}, To: []int{1}}}
			for _, kind := range editKinds {
				for i := 0; i < ntx; i++ {
					for j := 0; j <= ntx; j++ {
						caseNo++
						if caseNo%nshards != shard {
							continue
						}
						c := base
						c.Edits = []edit{{Kind: kind, I: i, J: j}}
						checkSanityCase(t, s, c)
						if t.Failed() {
							return
						}
					}
				}
			}
		}
	}
}
