// C22 - CR committee state after a rollback equals the state built directly.
// The engine is verifharness/statekit/rbk (shared with C21); this package
// selects the CR side, the proposal kinds and period lengths that let proposals
// end at a committee change (statekit.CRFocus*).
package c22

import (
	"testing"

	"pgregory.net/rapid"
	"verifharness/lib/vk"
	"verifharness/statekit"
	"verifharness/statekit/rbk"
)

func TestMain(m *testing.M) { vk.Main(m, "C22") }

func TestRollbackEqualsDirect(t *testing.T) {
	cfg := rbk.Config{Prop: "C22", Side: rbk.CR, Eras: rbk.ErasFromEnv([]int{1, 1, 2, 2}),
		Profile: func(t *rapid.T, p *statekit.Profile, era statekit.Era) { statekit.CRFocusProfile(t, p) },
		// two thirds of the histories run past the second committee change
		MaxHeight: func(t *rapid.T, p *statekit.Profile, era statekit.Era) uint32 {
			change := p.CRCommitteeStart + p.DutyPeriod
			if rapid.IntRange(0, 2).Draw(t, "short") == 0 {
				return p.CRCommitteeStart + uint32(rapid.IntRange(2, int(p.DutyPeriod)).Draw(t, "maxheight"))
			}
			extra := 10
			if vk.Thorough() {
				extra = 10 + int(p.DutyPeriod)
			}
			return change + uint32(rapid.IntRange(1, extra).Draw(t, "past-second-change"))
		},
		Kinds: func(g *statekit.Gen, era statekit.Era) { statekit.CRFocusKinds(g) }}
	rapid.Check(t, func(t *rapid.T) { rbk.Run(t, cfg) })
}
