// C22 - CR committee state after a rollback equals the state built directly.
// The engine is verifharness/statekit/rbk (shared with C21); this package
// selects the CR side and adds the proposal kinds.
package c22

import (
	"testing"

	"pgregory.net/rapid"
	"verifharness/lib/vk"
	"verifharness/statekit"
	"verifharness/statekit/rbk"

	crstate "github.com/elastos/Elastos.ELA/cr/state"
)

func minInt(a, b int) int {
	if a < b {
		return a
	}
	return b
}

func TestMain(m *testing.M) { vk.Main(m, "C22") }

func TestRollbackEqualsDirect(t *testing.T) {
	cfg := rbk.Config{Prop: "C22", Side: rbk.CR, Eras: rbk.ErasFromEnv([]int{1, 1, 2, 2}),
		Kinds: func(g *statekit.Gen, era statekit.Era) {
			// proposals, reviews, proposal votes, tracking, withdrawals (kinds of the C29 builder)
			for k, w := range statekit.C29Kinds() {
				g.Kinds[k] = (w + 1) / 2
			}
			// the DPoS side only has to keep the chain staffed here
			for _, k := range []string{"illegalproposal", "illegalvote", "illegalblock", "sidechainillegal", "inactivearbiters", "cancel", "topup", "returndeposit", "update"} {
				g.Kinds[k] = 1
			}
			// steer towards whole proposal life cycles (the weights of the C29
			// builder's own check): members claim nodes, proposals get reviewed
			// within the short review period, agreed ones are tracked and paid
			g.Boost = func(kind string) int {
				c := g.K.Committee
				if !c.IsInElectionPeriod() {
					return 1
				}
				registered, agreed, payable := 0, 0, 0
				for _, p := range g.K.Proposals() {
					switch p.Status {
					case crstate.Registered:
						registered++
					case crstate.VoterAgreed:
						agreed++
					}
					if c.AvailableWithdrawalAmount(p.Proposal.Hash) > 0 {
						payable++
					}
				}
				switch kind {
				case "claimnode":
					for _, m := range c.GetCurrentMembers() {
						if len(m.DPOSPublicKey) == 0 && (m.MemberState == crstate.MemberElected || m.MemberState == crstate.MemberInactive) {
							return 4
						}
					}
				case "proposal":
					if registered+agreed < 3 {
						return 4
					}
				case "review":
					return 1 + 8*minInt(registered, 3)
				case "tracking":
					return 1 + 3*minInt(agreed, 2)
				case "withdraw":
					return 1 + 3*minInt(payable+agreed, 3)
				}
				return 1
			}
		}}
	rapid.Check(t, func(t *rapid.T) { rbk.Run(t, cfg) })
}
