// C22 - CR committee state after a rollback equals the state built directly.
// The engine is verifharness/statekit/rbk (shared with C21); this package
// selects the CR side, the proposal kinds and period lengths that let proposals
// end at a committee change (statekit.CRFocus*).
package c22

import (
	"testing"

	"github.com/elastos/Elastos.ELA/common"
	"pgregory.net/rapid"
	"verifharness/lib/vk"
	"verifharness/statekit"
	"verifharness/statekit/rbk"
)

func TestMain(m *testing.M) { vk.Main(m, "C22") }

func TestRollbackEqualsDirect(t *testing.T) {
	cfg := rbk.Config{Prop: "C22", Side: rbk.CR, Eras: rbk.ErasFromEnv([]int{1, 1, 2, 2, 3, 3}),
		Profile: func(t *rapid.T, p *statekit.Profile, era statekit.Era) {
			if era >= statekit.EraV2 {
				p.DPoSV2MaxVotesLockTime = 100000
				p.DPoSV2EffectiveVotes = common.Fixed64(rapid.SampledFrom([]int64{80, 800}).Draw(t, "effective")) * statekit.ELA
			}
			statekit.CRFocusProfile(t, p)
		},
		// two thirds of the histories run past the second committee change
		MaxHeight: func(t *rapid.T, p *statekit.Profile, era statekit.Era) uint32 {
			change := p.CRCommitteeStart + p.DutyPeriod
			if rapid.IntRange(0, 2).Draw(t, "short") == 0 {
				return p.CRCommitteeStart + uint32(rapid.IntRange(2, int(p.DutyPeriod)).Draw(t, "maxheight"))
			}
			extra := 10
			if vk.Thorough() || era >= statekit.EraV2 && rapid.IntRange(0, 2).Draw(t, "third-term") == 0 {
				// through the next term as well (in era v2 that election runs
				// under the DPoS 2.0 rules: stake votes, claim period, next members)
				extra = 10 + int(p.DutyPeriod)
			}
			return change + uint32(rapid.IntRange(1, extra).Draw(t, "past-second-change"))
		},
		Kinds: func(g *statekit.Gen, era statekit.Era) {
			if era >= statekit.EraV2 {
				// staking, DPoS 2.0 producers and votes keep the arbiters staffed;
				// the stake also carries the CR votes of this era
				g.AddKinds(statekit.C28Kinds())
				g.AddKinds(statekit.CRV2Kinds())
				g.NProducers = 12
				g.MaxTxs = 4
				statekit.SetC28Drive(g, true)
			}
			statekit.CRFocusKinds(g)
			if era >= statekit.EraV2 {
				focus := g.Boost
				v2 := statekit.C28Kinds()
				g.Boost = func(kind string) int {
					b := focus(kind)
					if _, ok := v2[kind]; ok && g.K.Height+1 >= g.K.Params.DPoSV2StartHeight {
						b *= 3
					}
					return b
				}
			}
		},
		Done: func(g *statekit.Gen) { statekit.SetC28Drive(g, false) }}
	rapid.Check(t, func(t *rapid.T) { rbk.Run(t, cfg) })
}
