// C22 - CR committee state after a rollback equals the state built directly.
// The engine is verifharness/statekit/rbk (shared with C21); this package
// selects the CR side.
package c22

import (
	"testing"

	"pgregory.net/rapid"
	"verifharness/lib/vk"
	"verifharness/statekit/rbk"
)

func TestMain(m *testing.M) { vk.Main(m, "C22") }

func TestRollbackEqualsDirect(t *testing.T) {
	cfg := rbk.Config{Prop: "C22", Side: rbk.CR, Eras: rbk.ErasFromEnv([]int{1, 1, 2, 2})}
	rapid.Check(t, func(t *rapid.T) { rbk.Run(t, cfg) })
}
