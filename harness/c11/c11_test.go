// C11 - issuance follows the schedule.
//
// (a) Configuration.GetBlockReward over heights: never negative; non-increasing
//     for heights >= NewELAIssuanceHeight; equal (+-1 sela) to an independent
//     rational reference of "new inflation per 2-minute block, halved at
//     HalvingRewardHeight and every HalvingRewardInterval after it".
//     quick: strided sample of the 2^32 heights + every halving boundary +-2 for
//     mainnet / testnet / regnet, rapid-generated parameter sets; thorough: all
//     2^32 heights of the three networks (sharded).
// (b) coinbase rule after DPoS v2: real chain (mini-node) with DPoS v2 switched on
//     (State.DPoSV2ActiveHeight set by the harness), blocks carrying fee-paying
//     transfers and a generated coinbase vector (honest from
//     pow.Service.AssignCoinbaseTxRewards, or one mutation).  Oracle with integer
//     arithmetic from the statement: accepted => 3 outputs, sum = subsidy + fees,
//     CR share ceil(30%), DPoS share ceil(35%), miner the rest, CR/DPoS shares at
//     the fixed addresses of the consensus mode; honest => accepted.
package c11

import (
	"encoding/json"
	"fmt"
	"math"
	"math/big"
	"sort"
	"testing"

	"github.com/elastos/Elastos.ELA/common"
	"github.com/elastos/Elastos.ELA/common/config"
	"github.com/elastos/Elastos.ELA/core"
	ctypes "github.com/elastos/Elastos.ELA/core/types/common"
	"github.com/elastos/Elastos.ELA/core/types/interfaces"
	"github.com/elastos/Elastos.ELA/core/types/outputpayload"
	"github.com/elastos/Elastos.ELA/dpos/state"
	"pgregory.net/rapid"
	"verifharness/lib/vk"
	"verifharness/node"
)

func TestMain(m *testing.M) { vk.Main(m, "C11") }

// ---------------------------------------------------------------------------
// (a) subsidy schedule

// the statement's schedule, written independently: 4% of 20,000,000 ELA per year
// over 365*24*30 two-minute blocks, halved at HalvingRewardHeight and then every
// HalvingRewardInterval blocks.
var (
	refInflationPerYear = big.NewInt(20000000 * 100000000 / 100 * 4)
	refBlocksPerYear    = big.NewInt(365 * 24 * 30)
)

type schedule struct {
	Name     string `json:"name"`
	NewIssue uint32 `json:"new_issuance_height"`
	Halving  uint32 `json:"halving_height"`
	Interval uint32 `json:"halving_interval"`
	Old      int64  `json:"old_reward_per_block"`
}

func (s schedule) config() *config.Configuration {
	p := config.GetDefaultParams()
	p.NewELAIssuanceHeight = s.NewIssue
	p.HalvingRewardHeight = s.Halving
	p.HalvingRewardInterval = s.Interval
	p.PowConfiguration.RewardPerBlock = common.Fixed64(s.Old)
	return p
}

func scheduleOf(name string, p *config.Configuration) schedule {
	return schedule{Name: name, NewIssue: p.NewELAIssuanceHeight, Halving: p.HalvingRewardHeight,
		Interval: p.HalvingRewardInterval, Old: int64(p.PowConfiguration.RewardPerBlock)}
}

func networks() []struct {
	s schedule
	p *config.Configuration
} {
	var out []struct {
		s schedule
		p *config.Configuration
	}
	for _, n := range []struct {
		name string
		p    *config.Configuration
	}{
		{"mainnet", config.GetDefaultParams()},
		{"testnet", config.GetDefaultParams().TestNet()},
		{"regnet", config.GetDefaultParams().RegNet()},
	} {
		out = append(out, struct {
			s schedule
			p *config.Configuration
		}{scheduleOf(n.name, n.p), n.p})
	}
	return out
}

// refReward returns floor and ceil of the exact reward of the new schedule at h.
func (s schedule) refReward(h uint32) (lo, hi *big.Int) {
	halvings := uint64(0)
	if h >= s.Halving {
		halvings = 1 + uint64(h-s.Halving)/uint64(s.Interval)
	}
	num := new(big.Int).Set(refInflationPerYear)
	if halvings > 80 {
		return big.NewInt(0), big.NewInt(1)
	}
	den := new(big.Int).Lsh(refBlocksPerYear, uint(halvings))
	q, r := new(big.Int).QuoRem(num, den, new(big.Int))
	hi = new(big.Int).Set(q)
	if r.Sign() != 0 {
		hi.Add(hi, big.NewInt(1))
	}
	return q, hi
}

// checkHeight judges one height (and its successor relation to prev, if any).
// prevH < h, both already known to be >= NewIssue when prevOK.
func checkReward(t vk.TB, s schedule, p *config.Configuration, h uint32, prevH uint32, prev common.Fixed64, havePrev bool) (common.Fixed64, bool) {
	r := p.GetBlockReward(h)
	rend := map[string]any{"schedule": s, "height": h, "reward": int64(r)}
	if r < 0 {
		vk.Report(t, "C11:GetBlockReward:negative", fmt.Sprintf("%s height %d reward %d", s.Name, h, int64(r)), rend)
		return r, false
	}
	if h >= s.NewIssue {
		if havePrev && prevH >= s.NewIssue && r > prev {
			rend["prev_height"], rend["prev_reward"] = prevH, int64(prev)
			vk.Report(t, "C11:GetBlockReward:increases", fmt.Sprintf("%s reward(%d)=%d > reward(%d)=%d", s.Name, h, int64(r), prevH, int64(prev)), rend)
			return r, false
		}
		lo, hi := s.refReward(h)
		got := big.NewInt(int64(r))
		lo.Sub(lo, big.NewInt(1))
		hi.Add(hi, big.NewInt(1))
		if got.Cmp(lo) < 0 || got.Cmp(hi) > 0 {
			rend["ref_lo"], rend["ref_hi"] = lo.String(), hi.String()
			vk.Report(t, "C11:GetBlockReward:differs-from-schedule", fmt.Sprintf("%s reward(%d)=%d, schedule says %v..%v", s.Name, h, int64(r), lo, hi), rend)
			return r, false
		}
	} else if int64(r) != s.Old {
		vk.Report(t, "C11:GetBlockReward:old-schedule-changed", fmt.Sprintf("%s reward(%d)=%d, RewardPerBlock %d", s.Name, h, int64(r), s.Old), rend)
		return r, false
	}
	return r, true
}

func boundaryHeights(s schedule) []uint32 {
	set := map[uint32]bool{0: true, 1: true, 2: true, math.MaxUint32: true, math.MaxUint32 - 1: true, math.MaxUint32 - 2: true}
	add := func(c uint64) {
		for d := int64(-2); d <= 2; d++ {
			v := int64(c) + d
			if v >= 0 && v <= math.MaxUint32 {
				set[uint32(v)] = true
			}
		}
	}
	add(uint64(s.NewIssue))
	for k := uint64(0); ; k++ {
		c := uint64(s.Halving) + k*uint64(s.Interval)
		if c > math.MaxUint32 || k > 5000 {
			break
		}
		add(c)
	}
	out := make([]uint32, 0, len(set))
	for h := range set {
		out = append(out, h)
	}
	sort.Slice(out, func(i, j int) bool { return out[i] < out[j] })
	return out
}

// TestRewardSample: strided sample + boundaries, ascending, each compared with
// its predecessor (so the whole sampled sequence is checked to be non-increasing).
func TestRewardSample(t *testing.T) {
	n := vk.Scale(5000000)
	shard, nshards := vk.Shard()
	nets := networks()
	per := n / len(nets)
	if per < 1000 {
		per = 1000
	}
	for _, net := range nets {
		stride := uint64(1<<32) / uint64(per*nshards)
		if stride == 0 {
			stride = 1
		}
		offset := (vk.Seed() % stride)
		bs := boundaryHeights(net.s)
		bi := 0
		var prev common.Fixed64
		var prevH uint32
		have := false
		step := func(h uint32, class string) bool {
			r, ok := checkReward(t, net.s, net.p, h, prevH, prev, have)
			if !ok {
				return false
			}
			vk.Case(class, h >= net.s.NewIssue, []byte(fmt.Sprintf("%s/%d", net.s.Name, h)), func() any {
				return map[string]any{"net": net.s.Name, "height": h, "reward": int64(r)}
			})
			prev, prevH, have = r, h, true
			return true
		}
		// this shard's slice of the height axis
		lo := uint64(1<<32) / uint64(nshards) * uint64(shard)
		hi := uint64(1<<32) / uint64(nshards) * uint64(shard+1)
		if shard == nshards-1 {
			hi = 1 << 32
		}
		for h := lo + offset; h < hi; h += stride {
			for bi < len(bs) && uint64(bs[bi]) < h {
				if uint64(bs[bi]) >= lo && (!have || bs[bi] > prevH) {
					if !step(bs[bi], "reward "+net.s.Name+" boundary") {
						return
					}
				}
				bi++
			}
			if have && uint32(h) <= prevH {
				continue
			}
			if !step(uint32(h), "reward "+net.s.Name+" sample") {
				return
			}
		}
		for ; bi < len(bs); bi++ {
			if uint64(bs[bi]) >= lo && uint64(bs[bi]) < hi && (!have || bs[bi] > prevH) {
				if !step(bs[bi], "reward "+net.s.Name+" boundary") {
					return
				}
			}
		}
	}
}

// TestRewardExhaustive: every height of the three networks (thorough tier).
func TestRewardExhaustive(t *testing.T) {
	shard, nshards := vk.Shard()
	for _, net := range networks() {
		lo := uint64(1<<32) / uint64(nshards) * uint64(shard)
		hi := uint64(1<<32) / uint64(nshards) * uint64(shard+1)
		if shard == nshards-1 {
			hi = 1 << 32
		}
		var prev common.Fixed64
		have := false
		if lo > 0 {
			prev, have = net.p.GetBlockReward(uint32(lo-1)), true
		}
		var changes int64
		// next halving boundary at or after lo (the reference changes there even if the code's value does not)
		nextB := uint64(net.s.Halving)
		if lo > nextB {
			k := (lo - nextB + uint64(net.s.Interval) - 1) / uint64(net.s.Interval)
			nextB += k * uint64(net.s.Interval)
		}
		for h := lo; h < hi; h++ {
			r := net.p.GetBlockReward(uint32(h))
			atBoundary := h == nextB || h == uint64(net.s.NewIssue)
			if h == nextB {
				nextB += uint64(net.s.Interval)
			}
			if r < 0 || !have || r != prev || atBoundary {
				// slow path only where something happens (value change, first height, suspicious value)
				pr, ph := prev, uint32(h-1)
				if _, ok := checkReward(t, net.s, net.p, uint32(h), ph, pr, have && h > 0); !ok {
					return
				}
				changes++
			}
			prev, have = r, true
		}
		// one reference comparison per constant stretch is enough: value changes were all judged above
		vk.Count("exhaustive_heights_"+net.s.Name, int64(hi-lo))
		vk.Count("exhaustive_value_changes_"+net.s.Name, changes)
		vk.Case("reward "+net.s.Name+" exhaustive-range", true, []byte(fmt.Sprintf("%s/%d-%d", net.s.Name, lo, hi)), func() any {
			return map[string]any{"net": net.s.Name, "from": lo, "to": hi - 1, "value_changes": changes}
		})
	}
}

// TestRewardGeneratedParams: generated parameter sets (interval >= 1).
func TestRewardGeneratedParams(t *testing.T) {
	rapid.Check(t, func(rt *rapid.T) {
		u32 := rapid.OneOf(rapid.Uint32Range(0, 3000000), rapid.Uint32(),
			rapid.SampledFrom([]uint32{0, 1, 2, 720, 919800, 1051200, math.MaxUint32 - 1, math.MaxUint32}))
		s := schedule{Name: "generated",
			NewIssue: u32.Draw(rt, "newIssue"),
			Halving:  u32.Draw(rt, "halving"),
			Interval: rapid.OneOf(rapid.Uint32Range(1, 3000000), rapid.Uint32Range(1, math.MaxUint32),
				rapid.SampledFrom([]uint32{1, 2, 3, 720, 1051200, math.MaxUint32})).Draw(rt, "interval"),
			Old: rapid.Int64Range(0, 10*100000000).Draw(rt, "old"),
		}
		p := s.config()
		// heights: around the boundaries and anywhere
		var cands []uint32
		bs := boundaryHeights(s)
		for i := 0; i < 6; i++ {
			switch rapid.IntRange(0, 2).Draw(rt, "hkind") {
			case 0:
				cands = append(cands, rapid.SampledFrom(bs).Draw(rt, "hb"))
			case 1:
				cands = append(cands, rapid.Uint32().Draw(rt, "hany"))
			default:
				k := rapid.Uint32Range(0, 70).Draw(rt, "hk")
				d := rapid.Uint32Range(0, 2).Draw(rt, "hd")
				v := uint64(s.Halving) + uint64(k)*uint64(s.Interval) + uint64(d)
				if v > math.MaxUint32 {
					v = math.MaxUint32
				}
				cands = append(cands, uint32(v))
			}
		}
		sort.Slice(cands, func(i, j int) bool { return cands[i] < cands[j] })
		var prev common.Fixed64
		var prevH uint32
		have := false
		after := 0
		for _, h := range cands {
			if have && h == prevH {
				continue
			}
			r, ok := checkReward(rt, s, p, h, prevH, prev, have)
			if !ok {
				return
			}
			if h >= s.NewIssue {
				after++
			}
			prev, prevH, have = r, h, true
		}
		key, _ := json.Marshal(struct {
			S schedule
			H []uint32
		}{s, cands})
		class := "generated-params interval>=1000"
		if s.Interval < 1000 {
			class = "generated-params interval<1000"
		}
		vk.Case(class, after >= 2, key, func() any { return map[string]any{"schedule": s, "heights": cands} })
	})
}

// ---------------------------------------------------------------------------
// (b) coinbase after DPoS v2

const ela = 100000000

func ceilDiv(a *big.Int, num, den int64) *big.Int {
	x := new(big.Int).Mul(a, big.NewInt(num))
	q, r := new(big.Int).QuoRem(x, big.NewInt(den), new(big.Int))
	if r.Sign() > 0 {
		q.Add(q, big.NewInt(1))
	}
	return q
}

type cbOut struct {
	Value int64  `json:"value"`
	Addr  string `json:"addr"`
}

type cbStep struct {
	Fees     []int64 `json:"fees"`
	Mutation string  `json:"mutation"`
	I        int     `json:"i"`
	J        int     `json:"j"`
	Delta    int64   `json:"delta"`
	Coinbase []cbOut `json:"coinbase,omitempty"`
	Total    string  `json:"subsidy_plus_fees,omitempty"`
	Accepted bool    `json:"accepted"`
}

type cbCase struct {
	Mode  string   `json:"mode"`
	Steps []cbStep `json:"steps"`
}

var cbMutations = []string{"honest", "honest", "plus1", "minus1", "shift1", "reorder", "drop-third", "add-fourth",
	"wrong-address", "total-delta", "negative-pair", "dpos-share-only", "cr-share-only"}

// coinbasePredicate is the statement as a predicate over the coinbase outputs.
func coinbasePredicate(outs []*ctypes.Output, total *big.Int, p *config.Configuration, pow bool) (bool, string) {
	if len(outs) != 3 {
		return false, "output-count"
	}
	sum := new(big.Int)
	for _, o := range outs {
		if o.Value < 0 {
			return false, "negative-output"
		}
		sum.Add(sum, big.NewInt(int64(o.Value)))
	}
	if sum.Cmp(total) != 0 {
		return false, "total"
	}
	cr := ceilDiv(total, 3, 10)
	dpos := ceilDiv(total, 35, 100)
	miner := new(big.Int).Sub(new(big.Int).Sub(total, cr), dpos)
	if big.NewInt(int64(outs[0].Value)).Cmp(cr) != 0 {
		return false, "cr-share"
	}
	if big.NewInt(int64(outs[2].Value)).Cmp(dpos) != 0 {
		return false, "dpos-share"
	}
	if big.NewInt(int64(outs[1].Value)).Cmp(miner) != 0 {
		return false, "miner-share"
	}
	crAddr, dposAddr := *p.CRConfiguration.CRAssetsProgramHash, *p.DPoSConfiguration.DPoSV2RewardAccumulateProgramHash
	if pow {
		crAddr, dposAddr = *p.DestroyELAProgramHash, *p.DestroyELAProgramHash
	}
	if !outs[0].ProgramHash.IsEqual(crAddr) {
		return false, "cr-address"
	}
	if !outs[2].ProgramHash.IsEqual(dposAddr) {
		return false, "dpos-address"
	}
	return true, ""
}

func TestCoinbaseV2(t *testing.T) {
	rapid.Check(t, func(rt *rapid.T) {
		pow := rapid.IntRange(0, 3).Draw(rt, "pow-mode") == 0
		n, err := node.New(node.Opts{Tweak: func(p *config.Configuration) {
			// coinbase output 0 goes to the CR assets address from the start, as on every
			// network by the time DPoS v2 is active
			p.CRConfiguration.CRCommitteeStartHeight = 1
		}})
		if err != nil {
			rt.Fatalf("harness: node: %v", err)
		}
		defer n.Close()
		// DPoS v2 switched on by the harness (the production path needs 3/2*N v2 producers)
		n.Arbiters.State.DPoSV2ActiveHeight = 1
		if pow {
			n.Arbiters.State.ConsensusAlgorithm = state.POW
		} else {
			n.Arbiters.State.ConsensusAlgorithm = state.DPOS
		}
		cc := cbCase{Mode: map[bool]string{true: "POW", false: "DPOS"}[pow]}
		tip := n.Genesis
		for i := 0; i < 3; i++ {
			b, err := n.BuildBlock(node.BlockSpec{Parent: tip, MinerKey: i % 3})
			if err != nil {
				rt.Fatalf("harness: %v", err)
			}
			if in, _, err := n.Process(b); err != nil || !in {
				rt.Fatalf("harness: setup block %d refused: %v", b.Height, err)
			}
			tip = b
		}
		chain, err := n.ActiveChain()
		if err != nil {
			rt.Fatalf("harness: %v", err)
		}
		u, err := node.Replay(chain, n.KeyIndexOf)
		if err != nil {
			rt.Fatalf("harness: replay: %v", err)
		}
		nsteps := rapid.IntRange(1, 6).Draw(rt, "nsteps")
		for k := 0; k < nsteps; k++ {
			height := tip.Height + 1
			if height <= n.Arbiters.GetDPoSV2ActiveHeight()+1 {
				rt.Fatalf("harness: height %d not in the DPoS v2 branch", height)
			}
			spendable := u.Spendable(height, n.Params.PowConfiguration.CoinbaseMaturity)
			ntx := rapid.IntRange(0, 3).Draw(rt, "ntx")
			if pow {
				// after a revert to POW consensus the node admits no plain transfers (and, with
				// DPoS v2 running, no vote-carrying ones either): such blocks carry the subsidy only
				ntx = 0
			}
			if ntx > len(spendable) {
				ntx = len(spendable)
			}
			st := cbStep{}
			var txs []interfaces.Transaction
			fees := new(big.Int)
			var feeSum common.Fixed64
			for i := 0; i < ntx; i++ {
				c := spendable[i]
				fee := rapid.OneOf(rapid.SampledFrom([]int64{100, 101, 119, 120, 1000, 10000, ela}), rapid.Int64Range(100, 3*ela)).Draw(rt, "fee")
				if int64(c.Value) <= fee+1 {
					continue
				}
				pay := (int64(c.Value) - fee) / 3
				outs := []node.Out{{To: n.Keys[(k+i+1)%len(n.Keys)].ProgramHash, Value: common.Fixed64(pay)},
					{To: c.Owner, Value: c.Value - common.Fixed64(pay) - common.Fixed64(fee)}}
				tx, err := n.Transfer([]node.Coin{c}, outs, height)
				if err != nil {
					rt.Fatalf("harness: transfer: %v", err)
				}
				txs = append(txs, tx)
				st.Fees = append(st.Fees, fee)
				fees.Add(fees, big.NewInt(fee))
				feeSum += common.Fixed64(fee)
			}
			subsidy := n.Params.GetBlockReward(height)
			total := new(big.Int).Add(fees, big.NewInt(int64(subsidy)))
			st.Total = total.String()
			st.Mutation = rapid.SampledFrom(cbMutations).Draw(rt, "mutation")
			st.I = rapid.IntRange(0, 5).Draw(rt, "i")
			st.J = rapid.IntRange(1, 2).Draw(rt, "j")
			st.Delta = rapid.SampledFrom([]int64{1, -1, 2, -2, 100, -100, ela, -ela}).Draw(rt, "delta")
			other := n.Keys[4].ProgramHash
			mutate := func(cb interfaces.Transaction) {
				outs := cb.Outputs()
				i, j := st.I%len(outs), (st.I+st.J)%len(outs)
				switch st.Mutation {
				case "plus1":
					outs[i].Value++
				case "minus1":
					outs[i].Value--
				case "shift1":
					outs[i].Value++
					outs[j].Value--
				case "reorder":
					outs[i], outs[j] = outs[j], outs[i]
				case "drop-third":
					// keep the total: give the third share to the miner
					outs[1].Value += outs[len(outs)-1].Value
					cb.SetOutputs(outs[:len(outs)-1])
				case "add-fourth":
					// an extra output of 0 / 1 sela / more, with or without taking it from the miner share
					v := common.Fixed64([]int64{0, 0, 1, ela}[st.I%4+0*st.J])
					if st.J == 2 {
						outs[1].Value -= v
					}
					cb.SetOutputs(append(outs, &ctypes.Output{AssetID: core.ELAAssetID, Value: v, ProgramHash: other,
						Payload: &outputpayload.DefaultOutput{}}))
				case "wrong-address":
					outs[[]int{0, 2}[st.I%2]].ProgramHash = other
				case "total-delta":
					outs[1].Value += common.Fixed64(st.Delta)
				case "negative-pair":
					// extra outputs -x and +x after the three correct ones (total unchanged), or a
					// negative fourth output balanced by the miner share
					if st.J == 2 {
						outs[1].Value += common.Fixed64(ela)
						cb.SetOutputs(append(outs, &ctypes.Output{AssetID: core.ELAAssetID, Value: -ela, ProgramHash: other,
							Payload: &outputpayload.DefaultOutput{}}))
					} else {
						cb.SetOutputs(append(outs,
							&ctypes.Output{AssetID: core.ELAAssetID, Value: -ela, ProgramHash: other, Payload: &outputpayload.DefaultOutput{}},
							&ctypes.Output{AssetID: core.ELAAssetID, Value: ela, ProgramHash: other, Payload: &outputpayload.DefaultOutput{}}))
					}
				case "dpos-share-only":
					outs[2].Value += common.Fixed64(st.Delta)
				case "cr-share-only":
					outs[0].Value += common.Fixed64(st.Delta)
				}
			}
			b, err := n.BuildBlock(node.BlockSpec{Parent: tip, Txs: txs, Fees: feeSum, MinerKey: k % 3, MutateCoinbase: mutate})
			if err != nil {
				rt.Fatalf("harness: build: %v", err)
			}
			cbOuts := b.Transactions[0].Outputs()
			for _, o := range cbOuts {
				a, _ := o.ProgramHash.ToAddress()
				st.Coinbase = append(st.Coinbase, cbOut{int64(o.Value), a})
			}
			want, clause := coinbasePredicate(cbOuts, total, n.Params, pow)
			if st.Mutation == "honest" && !want {
				// the miner's own construction disagrees with the integer oracle: report as such
				cc.Steps = append(cc.Steps, st)
				vk.Report(rt, "C11:AssignCoinbaseTxRewards:split-differs-from-statement:"+clause,
					fmt.Sprintf("height %d total %v coinbase %+v", height, total, st.Coinbase), cc)
				return
			}
			in, orphan, perr := n.Process(b)
			accepted := perr == nil && !orphan && in
			st.Accepted = accepted
			cc.Steps = append(cc.Steps, st)
			rend := func() any { return cc }
			smallDiff := st.Mutation == "plus1" || st.Mutation == "minus1" || st.Mutation == "shift1" ||
				((st.Mutation == "total-delta" || st.Mutation == "dpos-share-only" || st.Mutation == "cr-share-only") && (st.Delta == 1 || st.Delta == -1))
			key, _ := json.Marshal(st)
			vk.Case(fmt.Sprintf("coinbase %s %s ntx=%d %s", cc.Mode, st.Mutation, len(txs), map[bool]string{true: "accepted", false: "refused"}[accepted]),
				len(txs) > 0 || smallDiff, append(key, byte(height)), rend)
			if accepted && !want {
				vk.Report(rt, "C11:checkCoinbaseTransactionContext:accepted-but-"+clause,
					fmt.Sprintf("height %d (%s, %d fee-paying txs, subsidy+fees %v): coinbase %+v accepted", height, cc.Mode, len(txs), total, st.Coinbase), rend())
				return
			}
			if !accepted && want {
				vk.Report(rt, "C11:ProcessBlock:honest-coinbase-refused",
					fmt.Sprintf("height %d (%s) mutation %s: in=%v orphan=%v err=%v coinbase %+v", height, cc.Mode, st.Mutation, in, orphan, perr, st.Coinbase), rend())
				return
			}
			if accepted {
				if err := u.Apply(b, n.KeyIndexOf); err != nil {
					rt.Fatalf("harness: model cannot apply an accepted block: %v", err)
				}
				tip = b
			} else if *n.Chain.BestChain.Hash != tip.Hash() {
				rt.Fatalf("harness: tip moved although the block was refused")
			}
		}
	})
}
