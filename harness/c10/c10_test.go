// C10 - a merged-mining proof commits to exactly this block.
//
// Generator: the harness builds valid aux proofs itself (own struct, own wire
// writer), applies at most one mutation drawn from a catalogue that covers
// every committed field, every marker placement of the statement (two
// markers, gap, nibble-misaligned, missing, after the root) and the
// uncommitted fields, sends the wire bytes through AuxPow.Deserialize (what a
// peer's header goes through) and calls AuxPow.Check.
// Oracle: refCheck (ref.go), a byte-level verifier written from the statement.
package c10

import (
	"bytes"
	"encoding/binary"
	"encoding/hex"
	"fmt"
	"testing"

	"github.com/elastos/Elastos.ELA/auxpow"
	"github.com/elastos/Elastos.ELA/common"
	"pgregory.net/rapid"
	"verifharness/lib/vk"
)

func TestMain(m *testing.M) { vk.Main(m, "C10") }

const realChainID = 1224 // auxpow.AuxPowChainID, the only value CheckBlockSanity passes

// ---------------------------------------------------------------- generator

type gcase struct {
	P       proof
	Hash    h256
	ChainID uint32
	Mut     string
	Note    string
}

func (c *gcase) render() any {
	return map[string]any{
		"mutation": c.Mut, "note": c.Note,
		"block_hash": hex.EncodeToString(c.Hash[:]), "chain_id": c.ChainID,
		"auxpow_wire": hex.EncodeToString(c.P.wire()),
		"script":      hex.EncodeToString(firstScript(&c.P)),
		"aux_height":  len(c.P.AuxBranch), "aux_index": c.P.AuxIndex,
		"par_height": len(c.P.ParBranch), "par_index": c.P.ParIndex,
	}
}

func firstScript(p *proof) []byte {
	if len(p.Coinbase.In) == 0 {
		return nil
	}
	return p.Coinbase.In[0].Script
}

func genHash(t *rapid.T, label string) h256 {
	var h h256
	copy(h[:], rapid.SliceOfN(rapid.Byte(), 32, 32).Draw(t, label))
	return h
}

// scrub removes accidental byte-level markers from filler bytes so that the
// mutation label says what the script really contains.
func scrub(b []byte) []byte {
	for {
		i := bytes.Index(b, marker)
		if i < 0 {
			return b
		}
		b[i] ^= 0x01
	}
}

func genFiller(t *rapid.T, label string, max int) []byte {
	n := rapid.IntRange(0, max).Draw(t, label+"Len")
	return scrub(rapid.SliceOfN(rapid.Byte(), n, n).Draw(t, label))
}

// nibbleShift returns the bytes whose hex string is lead ‖ hex(b) ‖ trail
// (lead and trail are single hex digits).
func nibbleShift(lead byte, b []byte, trail byte) []byte {
	out := make([]byte, len(b)+1)
	prev := lead & 0xf
	for i, x := range b {
		out[i] = prev<<4 | x>>4
		prev = x & 0xf
	}
	out[len(b)] = prev<<4 | trail&0xf
	return out
}

func le32(v uint32) []byte {
	var b [4]byte
	binary.LittleEndian.PutUint32(b[:], v)
	return b[:]
}

func cat(parts ...[]byte) []byte {
	var out []byte
	for _, p := range parts {
		out = append(out, p...)
	}
	return out
}

func flipBit(t *rapid.T, h *h256, label string) {
	i := rapid.IntRange(0, 255).Draw(t, label)
	h[i/8] ^= 1 << uint(i%8)
}

var mutations = []string{
	// marker placements (rapid favours the front of the list)
	"nibble-shift", "two-markers", "gap", "truncate-tail", "phantom-marker", "root-before-marker",
	"marker-corrupt", "no-marker", "earlier-root", "earlier-root-nibble", "script-in-second-input",
	"no-input", "tall-branch",
	// committed fields
	"hash-flip", "chainid", "auxindex", "auxbranch-flip", "auxbranch-len", "size", "nonce",
	"parroot-flip", "parindex-low", "parbranch-flip", "coinbase-tamper", "script-tamper-after-seal",
	// uncommitted fields: proof must stay valid
	"uncommitted", "parindex-high",
	"none", "none", "none",
}

func genCase(t *rapid.T) *gcase {
	c := &gcase{}
	c.Mut = rapid.SampledFrom(mutations).Draw(t, "mutation")

	// ---- honest skeleton
	h := rapid.IntRange(0, 12).Draw(t, "auxHeight")
	if rapid.IntRange(0, 9).Draw(t, "tall") == 0 {
		h = rapid.IntRange(13, 31).Draw(t, "auxHeightTall") // 32+ divides by zero in GetExpectedIndex (C03)
	}
	c.ChainID = realChainID
	if rapid.IntRange(0, 3).Draw(t, "otherChain") == 0 {
		c.ChainID = rapid.Uint32Range(0, 1<<31-1).Draw(t, "chainID")
	}
	nonce := rapid.Uint32().Draw(t, "nonce")
	c.Hash = genHash(t, "blockHash")
	branch := make([]h256, h)
	for i := range branch {
		branch[i] = genHash(t, "auxSibling")
	}
	index := expectedSlot(nonce, c.ChainID, h)
	size := uint32(1) << uint(h)
	pre := genFiller(t, "pre", 40)
	post := genFiller(t, "post", 24)

	rootOf := func() (rr h256) { return reversed(fold(reversed(c.Hash), branch, index)) }
	rr := rootOf()
	var script []byte
	assemble := func() { script = cat(pre, marker, rr[:], le32(size), le32(nonce), post) }
	assemble()
	junkInput := false

	// ---- mutations that act before the coinbase is sealed under the parent root
	verifyHash, verifyChain := c.Hash, c.ChainID
	switch c.Mut {
	case "hash-flip":
		flipBit(t, &verifyHash, "bit")
	case "chainid":
		verifyChain = rapid.Uint32Range(0, 1<<31-1).Draw(t, "chainID2")
	case "auxindex":
		switch rapid.IntRange(0, 2).Draw(t, "how") {
		case 0:
			index ^= 1 << uint(rapid.IntRange(0, 31).Draw(t, "bit"))
		case 1:
			index++
		default:
			index = rapid.Uint32().Draw(t, "index")
		}
	case "auxbranch-flip":
		if h == 0 {
			c.Mut = "hash-flip"
			flipBit(t, &verifyHash, "bit")
		} else {
			flipBit(t, &branch[rapid.IntRange(0, h-1).Draw(t, "which")], "bit")
		}
	case "auxbranch-len":
		if h > 0 && rapid.Bool().Draw(t, "drop") {
			branch = branch[:h-1]
		} else if h < 31 {
			branch = append(branch, genHash(t, "auxSibling"))
		} else {
			branch = branch[:h-1]
		}
		if rapid.Bool().Draw(t, "resizeToo") { // size and root follow the new height, slot need not
			size = uint32(1) << uint(len(branch))
			rr = rootOf()
		}
		assemble()
	case "size":
		switch rapid.IntRange(0, 4).Draw(t, "how") {
		case 0:
			size = 0
		case 1:
			size++
		case 2:
			size <<= 1
		case 3:
			size >>= 1
		default:
			size ^= 1 << uint(rapid.IntRange(0, 31).Draw(t, "bit"))
		}
		assemble()
	case "nonce":
		nonce = rapid.Uint32().Draw(t, "nonce2") // may hit the same slot: the reference decides
		assemble()
	case "two-markers":
		extra := cat(marker)
		switch rapid.IntRange(0, 2).Draw(t, "second") {
		case 1:
			extra = cat(marker, rr[:], le32(size), le32(nonce))
		case 2:
			o := genHash(t, "otherRoot")
			extra = cat(marker, o[:], le32(size), le32(nonce))
		}
		if rapid.Bool().Draw(t, "before") {
			pre = cat(pre, extra)
		} else {
			post = cat(extra, post)
		}
		assemble()
	case "marker-corrupt":
		m := cat(marker)
		m[rapid.IntRange(0, 3).Draw(t, "which")] ^= 1 << uint(rapid.IntRange(0, 7).Draw(t, "bit"))
		script = cat(pre, m, rr[:], le32(size), le32(nonce), post)
	case "no-marker":
		if len(pre) > 19 {
			pre = pre[:19] // the legacy (pre-marker) placement other merged-mined chains still accept
		}
		script = cat(pre, rr[:], le32(size), le32(nonce), post)
	case "gap":
		g := scrub(rapid.SliceOfN(rapid.Byte(), 1, 4).Draw(t, "gap"))
		script = cat(pre, marker, g, rr[:], le32(size), le32(nonce), post)
	case "root-before-marker":
		script = cat(pre, rr[:], marker, le32(size), le32(nonce), post)
	case "truncate-tail":
		keep := rapid.IntRange(0, 7).Draw(t, "keep")
		script = cat(pre, marker, rr[:], cat(le32(size), le32(nonce))[:keep])
		c.Note = fmt.Sprintf("%d bytes after the root", keep)
	case "nibble-shift":
		// hex(script) = hex(pre) ‖ lead ‖ "fabe6d6d" ‖ hex(root) ‖ x0 ‖ ...: no marker in the
		// bytes.  The last byte of the shifted run is (root's last nibble, x0); a reader that
		// floors the odd hex offset takes it as the low byte of size, so grind the root
		// until that byte can be the low byte of 2^h.
		want := byte(size & 0xff)
		tries := 0
		for rr[31]&0xf != want>>4 {
			tries++
			if h == 0 {
				c.Hash[31] = c.Hash[31]&0xf0 | want>>4
				verifyHash = c.Hash
			} else {
				binary.LittleEndian.PutUint32(branch[h-1][:4], uint32(tries))
			}
			rr = rootOf()
			if tries > 4000 {
				t.Fatalf("harness: cannot grind aux root")
			}
		}
		lead := byte(rapid.IntRange(0, 15).Draw(t, "lead"))
		run := nibbleShift(lead, cat(marker, rr[:]), want&0xf)
		if bytes.Contains(run, marker) {
			c.Note = "accidental byte marker"
		}
		rest := cat(le32(size)[1:], le32(nonce))
		script = cat(pre, run, rest, post)
	case "phantom-marker":
		// bytes whose hex contains fabe6d6d at an odd offset only
		ph := nibbleShift(byte(rapid.IntRange(0, 15).Draw(t, "lead")), marker, byte(rapid.IntRange(0, 15).Draw(t, "trail")))
		if rapid.Bool().Draw(t, "before") {
			pre = cat(pre, ph)
		} else {
			post = cat(ph, post)
		}
		assemble()
	case "earlier-root":
		pre = cat(pre, rr[:], genFiller(t, "pre2", 4))
		assemble()
	case "earlier-root-nibble":
		pre = cat(pre, nibbleShift(byte(rapid.IntRange(0, 15).Draw(t, "lead")), rr[:], byte(rapid.IntRange(0, 15).Draw(t, "trail"))))
		assemble()
	case "script-in-second-input":
		junkInput = true
	case "tall-branch":
		// 32+ levels: 2^h does not fit the size field (size written as the wrapped value 0, or 1)
		for n := rapid.IntRange(32, 40).Draw(t, "tallHeight"); len(branch) < n; {
			branch = append(branch, genHash(t, "auxSibling"))
		}
		size = uint32(rapid.IntRange(0, 1).Draw(t, "wrappedSize"))
		index = uint32(rapid.IntRange(0, 1).Draw(t, "tallIndex")) * index
		rr = rootOf()
		assemble()
	}
	// ---- parent coinbase
	cb := coinbaseTx{Version: int32(rapid.Uint32().Draw(t, "cbVersion")), LockTime: rapid.Uint32().Draw(t, "lockTime")}
	nin := rapid.IntRange(1, 3).Draw(t, "nIn") // 0 inputs panics in Check (C03): excluded by construction
	if junkInput && nin < 2 {
		nin = 2
	}
	if c.Mut == "no-input" {
		nin = 0 // the commitment script has nowhere to live
	}
	for i := 0; i < nin; i++ {
		in := txIn{PrevHash: genHash(t, "prev"), PrevIndex: rapid.Uint32().Draw(t, "prevIndex"), Sequence: rapid.Uint32().Draw(t, "sequence")}
		switch {
		case i == 0 && !junkInput, i == 1 && junkInput:
			in.Script = script
		default:
			in.Script = genFiller(t, "otherScript", 30)
		}
		cb.In = append(cb.In, in)
	}
	for i, n := 0, rapid.IntRange(0, 3).Draw(t, "nOut"); i < n; i++ {
		cb.Out = append(cb.Out, txOut{Value: rapid.Int64().Draw(t, "value"), PkScript: rapid.SliceOfN(rapid.Byte(), 0, 30).Draw(t, "pk")})
	}
	ph := rapid.IntRange(0, 8).Draw(t, "parHeight")
	parBranch := make([]h256, ph)
	for i := range parBranch {
		parBranch[i] = genHash(t, "parSibling")
	}
	parIndex := uint32(0)
	if rapid.Bool().Draw(t, "parIndexNonZero") {
		parIndex = rapid.Uint32().Draw(t, "parIndex")
	}
	hdr := parentHeader{
		Version: rapid.Uint32().Draw(t, "hVersion"), Prev: genHash(t, "hPrev"),
		Time: rapid.Uint32().Draw(t, "hTime"), Bits: rapid.Uint32().Draw(t, "hBits"), Nonce: rapid.Uint32().Draw(t, "hNonce"),
	}
	hdr.Root = fold(sha256d(cb.wire()), parBranch, parIndex) // seal
	c.P = proof{Coinbase: cb, ParentHash: genHash(t, "parentHash"), ParBranch: parBranch, ParIndex: parIndex,
		AuxBranch: branch, AuxIndex: index, Header: hdr}

	// ---- mutations after sealing
	switch c.Mut {
	case "parroot-flip":
		flipBit(t, &c.P.Header.Root, "bit")
	case "parindex-low":
		if ph == 0 {
			c.Mut = "parroot-flip"
			flipBit(t, &c.P.Header.Root, "bit")
		} else {
			c.P.ParIndex ^= 1 << uint(rapid.IntRange(0, ph-1).Draw(t, "bit"))
		}
	case "parindex-high":
		c.P.ParIndex ^= 1 << uint(rapid.IntRange(ph, 31).Draw(t, "bit")) // bits above the branch height select nothing
	case "parbranch-flip":
		switch {
		case ph == 0:
			c.P.ParBranch = append(c.P.ParBranch, genHash(t, "parSibling"))
		case rapid.IntRange(0, 3).Draw(t, "dropOrFlip") == 0:
			c.P.ParBranch = c.P.ParBranch[:ph-1]
		default:
			flipBit(t, &c.P.ParBranch[rapid.IntRange(0, ph-1).Draw(t, "which")], "bit")
		}
	case "coinbase-tamper":
		switch rapid.IntRange(0, 3).Draw(t, "what") {
		case 0:
			c.P.Coinbase.LockTime++
		case 1:
			c.P.Coinbase.Version ^= 1
		case 2:
			c.P.Coinbase.In[len(c.P.Coinbase.In)-1].Sequence ^= 0x80
		default:
			c.P.Coinbase.Out = append(c.P.Coinbase.Out, txOut{Value: 1})
		}
	case "script-tamper-after-seal":
		s := cat(c.P.Coinbase.In[0].Script)
		i := rapid.IntRange(0, len(s)*8-1).Draw(t, "bit")
		s[i/8] ^= 1 << uint(i%8)
		c.P.Coinbase.In[0].Script = s
	case "uncommitted":
		c.P.ParentHash = genHash(t, "parentHash2")
		c.P.Header.Nonce++
		c.P.Header.Time ^= 0xffff
		flipBit(t, &c.P.Header.Prev, "bit")
	}
	c.Hash, c.ChainID = verifyHash, verifyChain
	return c
}

// ---------------------------------------------------------------- oracle

// runCheck sends the proof through the node's decoder and Check.
func runCheck(t vk.TB, wire []byte, hash h256, chainID uint32) (ok, panicked bool, pval any, frame string) {
	var ap auxpow.AuxPow
	r := bytes.NewReader(wire)
	if err := ap.Deserialize(r); err != nil {
		t.Fatalf("harness: own wire encoding rejected by AuxPow.Deserialize: %v", err)
	}
	if r.Len() != 0 {
		t.Fatalf("harness: %d trailing bytes after AuxPow.Deserialize", r.Len())
	}
	bh := common.Uint256(hash)
	panicked, pval, frame = vk.Catch(func() { ok = ap.Check(&bh, int(chainID)) })
	return
}

// compare states the verdict for one case; returns the class suffix.
func compare(t vk.TB, c *gcase) (string, verdict) {
	ref := refCheck(&c.P, c.Hash, c.ChainID)
	got, panicked, pval, frame := runCheck(t, c.P.wire(), c.Hash, c.ChainID)
	switch {
	case panicked:
		vk.Report(t, "C10:Check:panic:"+frame, fmt.Sprintf("%v (reference: ok=%v %s)", pval, ref.OK, ref.Clause), c.render())
		return "panic", ref
	case got && !ref.OK:
		// accepted although the statement's condition does not hold
		vk.Report(t, "C10:Check:accepted:"+ref.Clause, "Check returned true; reference: "+ref.Clause, c.render())
		return "ACCEPTED-INVALID", ref
	case !got && ref.OK && ref.EarlierRoot:
		// the aux root bytes occur a second time before the committed position; Check
		// (like the Bitcoin-side reference code) looks at the first occurrence only and
		// refuses.  The statement is an "only if": refusal is allowed.
		return "valid-but-root-repeated-earlier:refused", ref
	case !got && ref.OK:
		vk.Report(t, "C10:Check:rejected-valid-proof", "Check returned false for a proof the statement's conditions all hold for", c.render())
		return "REJECTED-VALID", ref
	case got:
		return "accept", ref
	default:
		return "reject:" + ref.Clause, ref
	}
}

func TestAuxPowDifferential(t *testing.T) {
	rapid.Check(t, func(t *rapid.T) {
		c := genCase(t)
		cls, ref := compare(t, c)
		key := cat(c.P.wire(), c.Hash[:], le32(c.ChainID))
		vk.Case(c.Mut+"/"+cls, ref.ParentOK, key, c.render)
	})
}

// ---------------------------------------------------------------- shipped fixtures

func fromAuxPow(ap *auxpow.AuxPow) proof {
	var p proof
	p.Coinbase.Version = ap.ParCoinbaseTx.Version
	p.Coinbase.LockTime = ap.ParCoinbaseTx.LockTime
	for _, in := range ap.ParCoinbaseTx.TxIn {
		p.Coinbase.In = append(p.Coinbase.In, txIn{PrevHash: in.PreviousOutPoint.Hash, PrevIndex: in.PreviousOutPoint.Index,
			Script: in.SignatureScript, Sequence: in.Sequence})
	}
	for _, o := range ap.ParCoinbaseTx.TxOut {
		p.Coinbase.Out = append(p.Coinbase.Out, txOut{Value: o.Value, PkScript: o.PkScript})
	}
	p.ParentHash = ap.ParentHash
	for _, x := range ap.ParCoinBaseMerkle {
		p.ParBranch = append(p.ParBranch, x)
	}
	p.ParIndex = uint32(ap.ParMerkleIndex)
	for _, x := range ap.AuxMerkleBranch {
		p.AuxBranch = append(p.AuxBranch, x)
	}
	p.AuxIndex = uint32(ap.AuxMerkleIndex)
	p.Header = parentHeader{Version: ap.ParBlockHeader.Version, Prev: ap.ParBlockHeader.Previous, Root: ap.ParBlockHeader.MerkleRoot,
		Time: ap.ParBlockHeader.Timestamp, Bits: ap.ParBlockHeader.Bits, Nonce: ap.ParBlockHeader.Nonce}
	return p
}

// real-world proofs (the three of auxpow_test.go: ELA and namecoin blocks merged-mined by BTC.COM, chain id 6)
var fixtures = []struct{ hash, wire string }{
	{"7926398947f332fe534b15c628ff0cd9dc6f7d3ea59c74801dc758ac65428e64", "02000000010000000000000000000000000000000000000000000000000000000000000000ffffffff4b0313ee0904a880495b742f4254432e434f4d2ffabe6d6d9581ba0156314f1e92fd03430c6e4428a32bb3f1b9dc627102498e5cfbf26261020000004204cb9a010f32a00601000000000000ffffffff0200000000000000001976a914c0174e89bd93eacd1d5a1af4ba1802d412afc08688ac0000000000000000266a24aa21a9ede2f61c3f71d1defd3fa999dfa36953755c690689799962b48bebd836974e8cf90000000014acac4ee8fdd8ca7e0b587b35fce8c996c70aefdf24c333038bdba7af531266000000000001ccc205f0e1cb435f50cc2f63edd53186b414fcb22b719da8c59eab066cf30bdb0000000000000020d1061d1e456cae488c063838b64c4911ce256549afadfc6a4736643359141b01551e4d94f9e8b6b03eec92bb6de1e478a0e913e5f733f5884857a7c2b965f53ca880495bffff7f20a880495b"},
	{"21187623de86cd62b4ce211cd8a74e88f80eda6cc12f279bf3cdb5c0d9539a9d", "02000000010000000000000000000000000000000000000000000000000000000000000000ffffffff4b039aff0904db044a5b742f4254432e434f4d2ffabe6d6d35ecfc5f5ca2971449ee78b7d810f280de7e3e7c407e3c0162ef8692df350ef8020000004204cb9a011fde202e00000000000000ffffffff0200000000000000001976a914c0174e89bd93eacd1d5a1af4ba1802d412afc08688ac0000000000000000266a24aa21a9ede2f61c3f71d1defd3fa999dfa36953755c690689799962b48bebd836974e8cf9000000001d1879510258c5186e39cfcde4539c88686854b1ca640681dd38ed9527e635600000000000015f2f03802d61504f12e25d4b679b881ddb374cc04f240b6eb765d887679fb6360000000000000020a9f32bdb09d7777f3fa308fcd221e531393441f50e7f8b2d4ef63b2c3440940ec866338e7674b07d6a92269317f09f6c0fdb60ce7052e0211133e0015727ebb2db044a5bffff7f20db044a5b"},
	{"a4c78cf0c73256f8607e85baaa72874408525d7c5488a4cc69ad6930d1186d2c", "02000000010000000000000000000000000000000000000000000000000000000000000000ffffffff4a02050e04a4e2515b742f4254432e434f4d2ffabe6d6da4c78cf0c73256f8607e85baaa72874408525d7c5488a4cc69ad6930d1186d2c01000000000000000108d7517400000000000000ffffffff0300e1f505000000001976a914c0174e89bd93eacd1d5a1af4ba1802d412afc08688ac0000000000000000266a24aa21a9ede2f61c3f71d1defd3fa999dfa36953755c690689799962b48bebd836974e8cf90000000000000000424063643337386238613335653764623466356636343562303833396130373635613661326637613064343338663565626432653638663036323633313832333034f90000000042cbe48afcac502073e24700fcb536d52737c1d7938ff859685e31558df685f800000000000000000000000000207f9ebb83cd305988685bbc7c8ee006ba6934f791708f37c1e4d913fd8b0c000070833a09a50ea430f421b89292925ca8499f0bb3c2a6f7bcc804eb8105ea4bbca7e2515b7182281ea7e2515b"},
}

func loadFixture(t vk.TB, i int) (proof, h256) {
	w, _ := hex.DecodeString(fixtures[i].wire)
	var ap auxpow.AuxPow
	if err := ap.Deserialize(bytes.NewReader(w)); err != nil {
		t.Fatalf("harness: fixture %d does not decode: %v", i, err)
	}
	u, err := common.Uint256FromHexString(fixtures[i].hash)
	if err != nil {
		t.Fatalf("harness: fixture hash: %v", err)
	}
	p := fromAuxPow(&ap)
	if !bytes.Equal(p.wire(), w) {
		t.Fatalf("harness: own wire writer does not reproduce fixture %d", i)
	}
	return p, h256(*u)
}

// TestFixtures anchors the reference verifier (and the harness' wire writer)
// on proofs the harness did not build: three real merged-mined blocks must be
// accepted by both sides, and every single-bit change of the block hash, every
// single-bit change inside marker/root/size/nonce of the script (re-sealed under
// the parent root, so that the commitment logic decides) must get the same
// verdict from both sides.
func TestFixtures(t *testing.T) {
	for i := range fixtures {
		p, hash := loadFixture(t, i)
		base := &gcase{P: p, Hash: hash, ChainID: 6, Mut: fmt.Sprintf("fixture%d", i)}
		cls, ref := compare(t, base)
		if !ref.OK {
			t.Fatalf("harness: reference verifier rejects real-world proof %d: %s", i, ref.Clause)
		}
		vk.Case("fixture/"+cls, true, cat(p.wire(), hash[:]), base.render)

		for bit := 0; bit < 256; bit++ {
			c := &gcase{P: p, Hash: hash, ChainID: 6, Mut: "fixture-hash-bit"}
			c.Hash[bit/8] ^= 1 << uint(bit%8)
			cls, ref := compare(t, c)
			vk.Case("fixture-hash-bit/"+cls, ref.ParentOK, cat(p.wire(), c.Hash[:]), c.render)
		}
		script := p.Coinbase.In[0].Script
		for bit := 0; bit < len(script)*8; bit++ {
			c := &gcase{P: p, Hash: hash, ChainID: 6, Mut: "fixture-script-bit"}
			c.P.Coinbase.In = append([]txIn(nil), p.Coinbase.In...)
			s := cat(script)
			s[bit/8] ^= 1 << uint(bit%8)
			c.P.Coinbase.In[0].Script = s
			c.P.Header.Root = fold(sha256d(c.P.Coinbase.wire()), c.P.ParBranch, c.P.ParIndex)
			cls, ref := compare(t, c)
			vk.Case("fixture-script-bit/"+cls, ref.ParentOK, cat(c.P.wire(), hash[:]), c.render)
		}
		for _, chain := range []uint32{0, 1, 5, 7, 1224} {
			c := &gcase{P: p, Hash: hash, ChainID: chain, Mut: "fixture-chainid"}
			cls, ref := compare(t, c)
			vk.Case("fixture-chainid/"+cls, ref.ParentOK, cat(p.wire(), hash[:], le32(chain)), c.render)
		}
	}
}

// ---------------------------------------------------------------- native fuzz

// buildFuzzProof turns raw fuzz input into a sealed proof: the script is
// pre ‖ mid ‖ root ‖ post (optionally shifted by one nibble), where root is the
// aux root the proof really commits to, so the fuzzer explores marker
// placement, sizes and nonces without having to invert SHA-256.
func buildFuzzProof(pre, mid, post, hashSeed []byte, height uint8, index, chainID uint32, flags uint8) *gcase {
	c := &gcase{Mut: "fuzz", ChainID: chainID & 0x7fffffff}
	c.Hash = sha256d(hashSeed)
	h := int(height % 41)
	branch := make([]h256, h)
	for i := range branch {
		branch[i] = sha256d(append([]byte{byte(i)}, hashSeed...))
	}
	if flags&1 != 0 && len(post) >= 8 {
		index = expectedSlot(binary.LittleEndian.Uint32(post[4:8]), c.ChainID, h)
	}
	rr := reversed(fold(reversed(c.Hash), branch, index))
	if len(pre) > 200 {
		pre = pre[:200]
	}
	if len(mid) > 200 {
		mid = mid[:200]
	}
	if len(post) > 200 {
		post = post[:200]
	}
	var script []byte
	if flags&2 != 0 {
		script = cat(pre, nibbleShift(flags>>4, cat(mid, rr[:], post), flags>>2))
	} else {
		script = cat(pre, mid, rr[:], post)
	}
	cb := coinbaseTx{Version: 1, In: []txIn{{Script: script, Sequence: 0xffffffff}}}
	c.P = proof{Coinbase: cb, AuxBranch: branch, AuxIndex: index}
	c.P.Header.Root = sha256d(cb.wire())
	return c
}

func FuzzAuxPowCheck(f *testing.F) {
	one := cat(le32(1), le32(0))
	f.Add([]byte{}, cat(marker), one, []byte("seed"), uint8(0), uint32(0), uint32(realChainID), uint8(0))
	f.Add([]byte("/BTC.COM/"), cat(marker), cat(le32(4), le32(77), []byte("tail")), []byte("x"), uint8(2), uint32(0), uint32(realChainID), uint8(1))
	f.Add([]byte{0x03, 0x13}, cat(marker), cat(le32(1<<12), le32(0xffffffff)), []byte("y"), uint8(12), uint32(5), uint32(6), uint8(1))
	f.Add([]byte{}, cat(marker), one[:5], []byte("short"), uint8(0), uint32(0), uint32(realChainID), uint8(0))
	f.Add([]byte{}, cat(marker), cat([]byte{0x10}, one[1:]), []byte("nib"), uint8(0), uint32(0), uint32(realChainID), uint8(2|1<<2))
	f.Add(cat(marker), cat(marker), one, []byte("two"), uint8(0), uint32(0), uint32(realChainID), uint8(0))
	f.Add([]byte{}, cat(marker, []byte{0}), one, []byte("gap"), uint8(0), uint32(0), uint32(realChainID), uint8(0))
	f.Add([]byte{}, []byte{}, one, []byte("legacy"), uint8(0), uint32(0), uint32(realChainID), uint8(0))
	f.Add([]byte{}, cat(marker), cat(le32(0), le32(0)), []byte("h31"), uint8(31), uint32(0), uint32(realChainID), uint8(1))
	f.Fuzz(func(t *testing.T, pre, mid, post, hashSeed []byte, height uint8, index, chainID uint32, flags uint8) {
		c := buildFuzzProof(pre, mid, post, hashSeed, height, index, chainID, flags)
		if len(c.P.Coinbase.In[0].Script) > auxpow.MaxScriptSize {
			return
		}
		compare(t, c)
	})
}

// ---------------------------------------------------------------- concrete regression inputs

// concrete builds a minimal sealed proof around a given script builder (aux
// height 0, nonce 0, one input, no parent branch).
func concrete(name string, hash h256, mk func(rr h256) []byte) *gcase {
	rr := reversed(fold(reversed(hash), nil, 0))
	cb := coinbaseTx{Version: 1, In: []txIn{{Script: mk(rr), Sequence: 0xffffffff}}}
	c := &gcase{Mut: name, Hash: hash, ChainID: realChainID}
	c.P = proof{Coinbase: cb}
	c.P.Header.Root = sha256d(cb.wire())
	return c
}

// TestConcrete runs hand-built inputs for the marker placements the statement
// names, so that each of them is exercised at every seed.
func TestConcrete(t *testing.T) {
	hash := sha256d([]byte("C10 concrete block"))
	hash[31] &= 0xf0 // lets the nibble-shifted script end in the low byte of size 1
	tail := cat(le32(1), le32(0))
	cases := []*gcase{
		concrete("concrete/honest", hash, func(rr h256) []byte { return cat([]byte("/pool/"), marker, rr[:], tail) }),
		// hex(script) = "0" "fabe6d6d" hex(root) "1" "000000" "00000000": marker only at an odd hex offset
		concrete("concrete/nibble-shift", hash, func(rr h256) []byte { return cat(nibbleShift(0, cat(marker, rr[:]), 1), tail[1:]) }),
		concrete("concrete/phantom-marker", hash, func(rr h256) []byte {
			return cat(nibbleShift(1, marker, 2), marker, rr[:], tail)
		}),
		concrete("concrete/two-markers", hash, func(rr h256) []byte { return cat(marker, rr[:], tail, marker) }),
		concrete("concrete/gap", hash, func(rr h256) []byte { return cat(marker, []byte{0}, rr[:], tail) }),
		concrete("concrete/root-then-marker", hash, func(rr h256) []byte { return cat(rr[:], marker, tail) }),
		concrete("concrete/no-marker", hash, func(rr h256) []byte { return cat(rr[:], tail) }),
	}
	for keep := 0; keep < 8; keep++ {
		keep := keep
		cases = append(cases, concrete(fmt.Sprintf("concrete/tail-%d-bytes", keep), hash,
			func(rr h256) []byte { return cat(marker, rr[:], tail[:keep]) }))
	}
	// proofs made by the node's own generator (what its miner attaches): accepted for
	// their block hash, refused for any other
	for i := 0; i < 16; i++ {
		hash := sha256d([]byte{'g', 'e', 'n', byte(i)})
		p := fromAuxPow(auxpow.GenerateAuxPow(common.Uint256(hash)))
		p.Header.Time = 1537000000 + uint32(i) // GenerateAuxPow stamps the wall clock; not committed
		cases = append(cases, &gcase{P: p, Hash: hash, ChainID: realChainID, Mut: fmt.Sprintf("concrete/node-generated-%d", i)})
		other := hash
		other[i] ^= 0x40
		cases = append(cases, &gcase{P: p, Hash: other, ChainID: realChainID, Mut: fmt.Sprintf("concrete/node-generated-%d-other-block", i)})
	}
	for _, c := range cases {
		c := c
		t.Run(c.Mut, func(t *testing.T) {
			cls, ref := compare(t, c)
			vk.Case(c.Mut+"/"+cls, ref.ParentOK, cat(c.P.wire(), c.Hash[:]), c.render)
		})
	}
}

// TestScriptLayout drives the fuzz target's builder from rapid: free-form
// pieces around the real aux root, each piece drawn from marker-like and
// arbitrary bytes, optionally shifted by a nibble.  It covers layouts the
// mutation catalogue does not name (several mutations at once).
func TestScriptLayout(t *testing.T) {
	piece := rapid.OneOf(
		rapid.Just(cat(marker)),
		rapid.Just([]byte{}),
		rapid.SliceOfN(rapid.Byte(), 0, 12),
		rapid.Custom(func(t *rapid.T) []byte {
			return cat(rapid.SliceOfN(rapid.Byte(), 0, 6).Draw(t, "a"), marker, rapid.SliceOfN(rapid.Byte(), 0, 2).Draw(t, "b"))
		}),
		rapid.Custom(func(t *rapid.T) []byte {
			return nibbleShift(rapid.Byte().Draw(t, "lead"), marker, rapid.Byte().Draw(t, "trail"))
		}),
	)
	rapid.Check(t, func(t *rapid.T) {
		height := uint8(rapid.IntRange(0, 40).Draw(t, "height"))
		if rapid.Bool().Draw(t, "low") {
			height %= 4
		}
		nonce := rapid.Uint32().Draw(t, "nonce")
		size := uint32(1) << uint(height)
		if rapid.IntRange(0, 7).Draw(t, "badSize") == 0 {
			size = rapid.Uint32().Draw(t, "size")
		}
		tail := cat(le32(size), le32(nonce), rapid.SliceOfN(rapid.Byte(), 0, 6).Draw(t, "after"))
		tail = tail[:rapid.IntRange(0, len(tail)).Draw(t, "tailLen")]
		if rapid.IntRange(0, 3).Draw(t, "fullTail") != 0 {
			tail = cat(le32(size), le32(nonce), piece.Draw(t, "afterPiece"))
		}
		flags := uint8(1)
		if rapid.IntRange(0, 5).Draw(t, "freeIndex") == 0 {
			flags = 0
		}
		if rapid.IntRange(0, 3).Draw(t, "shift") == 0 {
			flags |= 2 | uint8(rapid.IntRange(0, 15).Draw(t, "nibbles"))<<2&0xfc
		}
		chain := uint32(realChainID)
		c := buildFuzzProof(piece.Draw(t, "pre"), piece.Draw(t, "mid"), tail,
			rapid.SliceOfN(rapid.Byte(), 1, 8).Draw(t, "hashSeed"), height, rapid.Uint32().Draw(t, "index"), chain, flags)
		c.Mut = "layout"
		cls, ref := compare(t, c)
		vk.Case("layout/"+cls, ref.ParentOK, cat(c.P.wire(), c.Hash[:]), c.render)
	})
}
