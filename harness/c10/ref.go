// Reference side of C10: the harness' own representation of a merged-mining
// proof, its own wire writer, and a byte-level verifier written from the
// property statement.  Nothing in this file calls into /repo/auxpow.
package c10

import (
	"bytes"
	"crypto/sha256"
	"encoding/binary"
)

type h256 = [32]byte

type txIn struct {
	PrevHash  h256
	PrevIndex uint32
	Script    []byte
	Sequence  uint32
}

type txOut struct {
	Value    int64
	PkScript []byte
}

type coinbaseTx struct {
	Version  int32
	In       []txIn
	Out      []txOut
	LockTime uint32
}

type parentHeader struct {
	Version uint32
	Prev    h256
	Root    h256
	Time    uint32
	Bits    uint32
	Nonce   uint32
}

// proof mirrors the wire layout of an aux proof-of-work.
type proof struct {
	Coinbase   coinbaseTx
	ParentHash h256
	ParBranch  []h256
	ParIndex   uint32
	AuxBranch  []h256
	AuxIndex   uint32
	Header     parentHeader
}

var marker = []byte{0xfa, 0xbe, 0x6d, 0x6d}

func putVarUint(b *bytes.Buffer, v uint64) {
	var t [8]byte
	switch {
	case v < 0xfd:
		b.WriteByte(byte(v))
	case v <= 0xffff:
		b.WriteByte(0xfd)
		binary.LittleEndian.PutUint16(t[:], uint16(v))
		b.Write(t[:2])
	case v <= 0xffffffff:
		b.WriteByte(0xfe)
		binary.LittleEndian.PutUint32(t[:], uint32(v))
		b.Write(t[:4])
	default:
		b.WriteByte(0xff)
		binary.LittleEndian.PutUint64(t[:], v)
		b.Write(t[:8])
	}
}

func putU32(b *bytes.Buffer, v uint32) {
	var t [4]byte
	binary.LittleEndian.PutUint32(t[:], v)
	b.Write(t[:])
}

func putU64(b *bytes.Buffer, v uint64) {
	var t [8]byte
	binary.LittleEndian.PutUint64(t[:], v)
	b.Write(t[:])
}

// wire is the Bitcoin transaction serialisation (no witness).
func (tx *coinbaseTx) wire() []byte {
	var b bytes.Buffer
	putU32(&b, uint32(tx.Version))
	putVarUint(&b, uint64(len(tx.In)))
	for i := range tx.In {
		in := &tx.In[i]
		b.Write(in.PrevHash[:])
		putU32(&b, in.PrevIndex)
		putVarUint(&b, uint64(len(in.Script)))
		b.Write(in.Script)
		putU32(&b, in.Sequence)
	}
	putVarUint(&b, uint64(len(tx.Out)))
	for i := range tx.Out {
		o := &tx.Out[i]
		putU64(&b, uint64(o.Value))
		putVarUint(&b, uint64(len(o.PkScript)))
		b.Write(o.PkScript)
	}
	putU32(&b, tx.LockTime)
	return b.Bytes()
}

// wire is the aux proof-of-work serialisation a peer sends inside a header.
func (p *proof) wire() []byte {
	var b bytes.Buffer
	b.Write(p.Coinbase.wire())
	b.Write(p.ParentHash[:])
	putVarUint(&b, uint64(len(p.ParBranch)))
	for i := range p.ParBranch {
		b.Write(p.ParBranch[i][:])
	}
	putU32(&b, p.ParIndex)
	putVarUint(&b, uint64(len(p.AuxBranch)))
	for i := range p.AuxBranch {
		b.Write(p.AuxBranch[i][:])
	}
	putU32(&b, p.AuxIndex)
	putU32(&b, p.Header.Version)
	b.Write(p.Header.Prev[:])
	b.Write(p.Header.Root[:])
	putU32(&b, p.Header.Time)
	putU32(&b, p.Header.Bits)
	putU32(&b, p.Header.Nonce)
	return b.Bytes()
}

func sha256d(b []byte) h256 {
	a := sha256.Sum256(b)
	return sha256.Sum256(a[:])
}

// fold climbs a merkle branch: bit i of index says whether the running hash is
// the right (1) or left (0) child at level i.
func fold(leaf h256, branch []h256, index uint32) h256 {
	cur := leaf
	for i, sib := range branch {
		var cat [64]byte
		right := i < 32 && (index>>uint(i))&1 == 1
		if right {
			copy(cat[:32], sib[:])
			copy(cat[32:], cur[:])
		} else {
			copy(cat[:32], cur[:])
			copy(cat[32:], sib[:])
		}
		cur = sha256d(cat[:])
	}
	return cur
}

func reversed(h h256) h256 {
	var r h256
	for i := range h {
		r[i] = h[31-i]
	}
	return r
}

// expectedSlot is the slot of a chain in an aux tree of height h (h <= 31):
// two rounds of the classic LCG on 32-bit words, chain id added in between.
func expectedSlot(nonce uint32, chainID uint32, h int) uint32 {
	const mask = uint64(0xffffffff)
	r := uint64(nonce)
	r = (r*1103515245 + 12345) & mask
	r = (r + uint64(chainID)) & mask
	r = (r*1103515245 + 12345) & mask
	return uint32(r % (uint64(1) << uint(h)))
}

// positions returns every byte offset at which needle occurs in hay.
func positions(hay, needle []byte) []int {
	var out []int
	for i := 0; i+len(needle) <= len(hay); i++ {
		if bytes.Equal(hay[i:i+len(needle)], needle) {
			out = append(out, i)
		}
	}
	return out
}

// verdict of the reference verifier.
type verdict struct {
	OK           bool
	Clause       string // first clause of the statement that fails ("" if OK)
	ParentOK     bool   // coinbase lies under the parent header's merkle root
	EarlierRoot  bool   // the aux root bytes also occur before the committed position
	MarkerOffset int    // byte offset of the single marker (-1 if none / several)
	Markers      int
}

// refCheck decides the statement of C10 on bytes:
//
//	(1) the parent coinbase lies under the parent header's merkle root;
//	(2) the script of its first input contains exactly one marker fa be 6d 6d;
//	(3) the 32 bytes right after the marker are the byte-reversed aux root,
//	    where aux root = fold(reversed block hash, aux branch, aux index);
//	(4) at least 8 bytes follow: size (LE32) == 2^len(aux branch), nonce (LE32);
//	(5) aux index == slot derived from nonce, chain id and the tree height.
//
// A coinbase without inputs has no script, and a tree of 32+ levels has no
// 32-bit size: both are refused.
func refCheck(p *proof, blockHash h256, chainID uint32) verdict {
	v := verdict{MarkerOffset: -1}
	cbHash := sha256d(p.Coinbase.wire())
	v.ParentOK = fold(cbHash, p.ParBranch, p.ParIndex) == p.Header.Root
	if !v.ParentOK {
		v.Clause = "coinbase-not-under-parent-root"
		return v
	}
	if len(p.Coinbase.In) == 0 {
		v.Clause = "coinbase-has-no-input"
		return v
	}
	script := p.Coinbase.In[0].Script
	auxRoot := fold(reversed(blockHash), p.AuxBranch, p.AuxIndex)
	rr := reversed(auxRoot)

	ms := positions(script, marker)
	v.Markers = len(ms)
	if len(ms) == 0 {
		v.Clause = "no-marker-in-script-bytes"
		return v
	}
	if len(ms) > 1 {
		v.Clause = "more-than-one-marker"
		return v
	}
	m := ms[0]
	v.MarkerOffset = m
	rootAt := m + len(marker)
	if rootAt+32 > len(script) || !bytes.Equal(script[rootAt:rootAt+32], rr[:]) {
		v.Clause = "aux-root-not-right-after-marker"
		return v
	}
	if rs := positions(script, rr[:]); len(rs) > 0 && rs[0] < rootAt {
		v.EarlierRoot = true
	}
	tail := script[rootAt+32:]
	if len(tail) < 8 {
		v.Clause = "size-nonce-missing"
		return v
	}
	size := binary.LittleEndian.Uint32(tail[0:4])
	nonce := binary.LittleEndian.Uint32(tail[4:8])
	h := len(p.AuxBranch)
	if h >= 32 || uint64(size) != uint64(1)<<uint(h) { // a 32-bit size field cannot hold 2^32 or more
		v.Clause = "size-not-2^height"
		return v
	}
	if p.AuxIndex != expectedSlot(nonce, chainID, h) {
		v.Clause = "index-not-expected-slot"
		return v
	}
	v.OK = true
	return v
}
