// C27 - DPoS reward distribution never pays out more than the pool.
//
// A real state.Arbiters is populated with a generated current arbiter set
// (configured CRC arbiters, CR-member arbiters elected / impeached / with or
// without a claimed DPoS node, elected producers), candidates and the vote
// snapshot (CurrentReward) built the way snapshotVotesStates builds it; the
// real distributeDPOSReward (all four eras V0-V3) and clearingDPOSReward run on
// it through verif-tagged shims.  Oracle: the payout invariants of the statement.
package c27

import (
	"encoding/hex"
	"encoding/json"
	"fmt"
	"math/big"
	"os"
	"path/filepath"
	"testing"

	"github.com/elastos/Elastos.ELA/common"
	"github.com/elastos/Elastos.ELA/common/config"
	elalog "github.com/elastos/Elastos.ELA/common/log"
	"github.com/elastos/Elastos.ELA/core/checkpoint"
	"github.com/elastos/Elastos.ELA/core/types"
	ctypes "github.com/elastos/Elastos.ELA/core/types/common"
	"github.com/elastos/Elastos.ELA/core/types/payload"
	crstate "github.com/elastos/Elastos.ELA/cr/state"
	"github.com/elastos/Elastos.ELA/dpos/state"
	"pgregory.net/rapid"
	"verifharness/gen"
	"verifharness/lib/vk"
)

func TestMain(m *testing.M) {
	elalog.NewDefault(filepath.Join(os.TempDir(), "c27-unused-log"), 255, 0, 0)
	vk.Main(m, "C27")
}

const keyBase = 7000

func pk(seed int) []byte { return gen.KeyFromSeed(uint64(keyBase + seed)).PK }

func stdCode(pub []byte) []byte { return append(append([]byte{byte(len(pub))}, pub...), 0xac) }

func hashOf(t *rapid.T, pub []byte) common.Uint168 {
	h, err := state.GetOwnerKeyStandardProgramHash(pub)
	if err != nil {
		t.Fatalf("harness: program hash: %v", err)
	}
	return *h
}

// ---------------------------------------------------------------- case

type crcSpec struct {
	Kind    string `json:"kind"` // config (DPoS arbiter built from the configured key) | member (CR member arbiter)
	Elected bool   `json:"elected,omitempty"`
	Claimed bool   `json:"claimed_dpos_node,omitempty"`
	// unclaimed members: node key borrowed from a top producer (before the hot-fix
	// height) or taken from the configured CRC keys
	BorrowsProducer bool  `json:"borrows_producer_node,omitempty"`
	BorrowedVotes   int64 `json:"borrowed_producer_votes,omitempty"`
}

type caseV struct {
	Era        string    `json:"era"` // V0..V3
	POW        bool      `json:"pow_mode,omitempty"`
	NormalCfg  int       `json:"normal_arbitrators_count"`
	CRC        []crcSpec `json:"crc_arbiters"`
	CRCParams  []int     `json:"configured_crc_keys"`
	Arbiters   []int64   `json:"elected_producer_votes"`
	Candidates []int64   `json:"candidate_votes"`
	Reward     int64     `json:"reward"`
	Height     uint32    `json:"height"`
	TotalVotes int64     `json:"total_votes_in_round"`
	Clearing   string    `json:"clearing,omitempty"`
	Accum      int64     `json:"accumulated,omitempty"`
}

const (
	h1 = 1000 // CRCommitteeStartHeight
	h2 = 2000 // CRClaimDPOSNodeStartHeight
	h3 = 3000 // ChangeCommitteeNewCRHeight
)

func genVotes(t *rapid.T, label string, zeroRate int) int64 {
	if zeroRate > 0 && rapid.IntRange(0, zeroRate).Draw(t, label+"zero") == 0 {
		return 0
	}
	switch rapid.IntRange(0, 4).Draw(t, label+"kind") {
	case 0:
		return rapid.SampledFrom([]int64{1, 2, 3, 7, 100000000}).Draw(t, label+"tiny")
	case 1:
		return rapid.Int64Range(1, 1000).Draw(t, label+"small")
	case 2:
		return rapid.Int64Range(1, 3_000_000_00000000).Draw(t, label+"any")
	}
	return rapid.Int64Range(1_000_00000000, 900_000_00000000).Draw(t, label+"typical")
}

func genReward(t *rapid.T) int64 {
	switch rapid.IntRange(0, 6).Draw(t, "rewardKind") {
	case 0:
		return rapid.SampledFrom([]int64{0, 1, 2, 3, 4, 5, 7, 35, 36, 37, 99, 100, 101}).Draw(t, "rTiny")
	case 1:
		return rapid.Int64Range(0, 100000).Draw(t, "rSmall")
	case 2: // a round of mainnet block rewards: 36 * ~1.5 ELA * 0.35
		return rapid.Int64Range(10_00000000, 40_00000000).Draw(t, "rRound")
	case 3:
		return rapid.SampledFrom([]int64{1_000_000_000_000_000, 999_999_999_999_999, 1 << 40, 1<<40 + 1, 1<<49 - 1}).Draw(t, "rBig")
	}
	return rapid.Int64Range(0, 1_000_000_000_000_000).Draw(t, "rAny")
}

type built struct {
	a       *state.Arbiters
	params  *config.Configuration
	destroy common.Uint168
	crcHash common.Uint168
}

func genCase(t *rapid.T) (*caseV, *built) {
	c := &caseV{}
	c.Era = rapid.SampledFrom([]string{"V0", "V1", "V2", "V3", "V3", "V2"}).Draw(t, "era")
	c.NormalCfg = rapid.IntRange(1, 6).Draw(t, "normalCfg")
	if rapid.IntRange(0, 5).Draw(t, "bigN") == 0 {
		c.NormalCfg = rapid.SampledFrom([]int{12, 24}).Draw(t, "normalBig")
	}
	ncrc := rapid.IntRange(0, 4).Draw(t, "ncrc")
	if rapid.IntRange(0, 7).Draw(t, "crc12") == 0 {
		ncrc = 12
	}
	shape := rapid.SampledFrom([]string{"full", "full", "full", "full", "crc-only", "short", "all-zero-votes"}).Draw(t, "shape")
	if shape == "crc-only" && ncrc == 0 {
		shape = "full"
	}
	if shape == "short" && c.Era != "V3" {
		// fewer elected producers than configured is only produced after
		// ChangeCommitteeNewCRHeight (GetNormalArbitratorsDesc with start = unclaimed
		// slots needs len(producers) >= N, not >= start+N); earlier eras fall back to
		// a CRC-only set instead
		shape = "full"
	}
	zeroRate := 12
	if shape == "all-zero-votes" {
		zeroRate = -1
	}
	votes := func(label string) int64 {
		if zeroRate < 0 {
			return 0
		}
		return genVotes(t, label, zeroRate)
	}

	params := config.GetDefaultParams()
	params.DPoSConfiguration.NormalArbitratorsCount = c.NormalCfg
	params.DPoSConfiguration.CRCArbiters = nil
	params.DPoSConfiguration.OriginArbiters = nil
	params.DPoSConfiguration.SponsorsFilePath = filepath.Join(os.TempDir(), "c27-no-such-file")
	params.CRConfiguration.CRCommitteeStartHeight = h1
	params.CRConfiguration.CRClaimDPOSNodeStartHeight = h2
	params.CRConfiguration.ChangeCommitteeNewCRHeight = h3
	for i := 0; i < ncrc; i++ {
		params.DPoSConfiguration.CRCArbiters = append(params.DPoSConfiguration.CRCArbiters, hex.EncodeToString(pk(900+i)))
		c.CRCParams = append(c.CRCParams, 900+i)
	}
	ckp := checkpoint.NewManager(params)
	committee := crstate.NewCommittee(params, ckp)
	a, err := state.NewArbitrators(params, committee, nil, nil, nil, nil, nil, nil, nil, ckp)
	if err != nil {
		t.Fatalf("harness: NewArbitrators: %v", err)
	}
	b := &built{a: a, params: params, destroy: *params.DestroyELAProgramHash, crcHash: *params.CRConfiguration.CRCProgramHash}
	a.CurrentArbitrators = nil
	a.CurrentCandidates = nil
	a.CurrentCRCArbitersMap = map[common.Uint168]state.ArbiterMember{}
	a.CurrentReward = state.RewardData{OwnerVotesInRound: map[common.Uint168]common.Fixed64{}}
	a.ConsensusAlgorithm = state.DPOS
	if c.Era == "V3" && rapid.IntRange(0, 9).Draw(t, "pow") == 0 {
		c.POW = true
		a.ConsensusAlgorithm = state.POW
	}

	newProducerArbiter := func(owner, node int, v int64) state.ArbiterMember {
		p := state.VerifC24NewProducer(payload.ProducerInfo{OwnerKey: pk(owner), NodePublicKey: pk(node)}, state.Active, common.Fixed64(v), nil)
		ar, err := state.NewDPoSArbiter(p)
		if err != nil {
			t.Fatalf("harness: NewDPoSArbiter: %v", err)
		}
		return ar
	}
	record := func(ownerPub []byte, v int64) {
		// what snapshotVotesStates.recordVotes does for a producer it finds
		a.CurrentReward.OwnerVotesInRound[hashOf(t, ownerPub)] = common.Fixed64(v)
		a.CurrentReward.TotalVotesInRound += common.Fixed64(v)
	}

	// ---- CRC arbiters: either every slot is a CR member (election period) or
	// every slot is filled from the configuration / by a top producer (before the
	// first committee, outside an election period)
	membersMode := c.Era != "V0" && rapid.IntRange(0, 3).Draw(t, "membersMode") != 0
	borrowed := 0
	for i := 0; i < ncrc; i++ {
		var s crcSpec
		var ar state.ArbiterMember
		configKey := pk(900 + i)
		memberKind := membersMode
		if !memberKind {
			// before the first committee / outside an election period the CRC slots are
			// DPoS arbiters built from the configured keys
			s.Kind = "config"
			p := state.VerifC24NewProducer(payload.ProducerInfo{OwnerKey: configKey, NodePublicKey: configKey}, state.Active, 0, nil)
			ar, err = state.NewDPoSArbiter(p)
			if err != nil {
				t.Fatalf("harness: %v", err)
			}
			if c.Era == "V3" {
				// after ChangeCommitteeNewCRHeight, outside an election period, the CRC slots
				// are taken by the top producers (ordinary DPoS arbiters with votes)
				v := votes("crcslot.")
				ar = newProducerArbiter(600+i, 650+i, v)
				record(pk(600+i), v)
				s.BorrowedVotes = v
			}
		} else {
			s.Kind = "member"
			s.Elected = rapid.IntRange(0, 4).Draw(t, "elected") != 0
			crOwner := pk(800 + i)
			m := &crstate.CRMember{Info: payload.CRInfo{Code: stdCode(crOwner)}, MemberState: crstate.MemberElected}
			if !s.Elected {
				m.MemberState = crstate.MemberImpeached
			}
			node := configKey
			if c.Era == "V2" || c.Era == "V3" {
				s.Claimed = rapid.Bool().Draw(t, "claimed")
			}
			if s.Claimed {
				node = pk(850 + i)
				m.DPOSPublicKey = node
			} else if c.Era == "V3" && s.Elected && rapid.Bool().Draw(t, "borrow") {
				// before CRDPoSNodeHotFixHeight an elected member without a claimed node
				// runs on the node key of a top producer
				s.BorrowsProducer = true
				v := votes("borrow.")
				s.BorrowedVotes = v
				owner, pnode := 700+borrowed, 750+borrowed
				borrowed++
				node = pk(pnode)
				a.NodeOwnerKeys[hex.EncodeToString(node)] = hex.EncodeToString(pk(owner))
				record(pk(owner), v) // snapshot: CRC, normal, no claimed key -> recordVotes finds the producer
			}
			normal := !(c.Era != "V0" && c.Era != "V1" && !s.Elected) // isNormal=false once height >= claim height and not elected
			ar, err = state.NewCRCArbiter(node, crOwner, m, normal)
			if err != nil {
				t.Fatalf("harness: %v", err)
			}
		}
		c.CRC = append(c.CRC, s)
		a.CurrentArbitrators = append(a.CurrentArbitrators, ar)
		if !(s.Kind == "config" && c.Era == "V3") {
			a.CurrentCRCArbitersMap[ar.GetOwnerProgramHash()] = ar
		}
	}

	// ---- elected producers and candidates
	nNormal := c.NormalCfg
	switch shape {
	case "crc-only":
		nNormal = 0
	case "short":
		// GetNormalArbitratorsDesc(count N, producers, start) needs len(producers) >= N
		// but takes producers[start:start+N]: with start = unclaimed CRC slots (members
		// running on borrowed producer nodes, or all slots outside an election period)
		// up to `start` elected producers can be missing
		slack := borrowed
		if !membersMode {
			slack = ncrc
		}
		if slack > c.NormalCfg {
			slack = c.NormalCfg
		}
		if slack > 0 {
			nNormal = c.NormalCfg - rapid.IntRange(1, slack).Draw(t, "missing")
		}
	}
	for i := 0; i < nNormal; i++ {
		v := votes("arb.")
		c.Arbiters = append(c.Arbiters, v)
		a.CurrentArbitrators = append(a.CurrentArbitrators, newProducerArbiter(100+i, 200+i, v))
		record(pk(100+i), v)
	}
	ncand := 0
	if nNormal > 0 && nNormal == c.NormalCfg { // a short set used up every producer: no candidates
		ncand = rapid.SampledFrom([]int{0, 0, 1, 2, 5, 20}).Draw(t, "ncand")
	}
	for i := 0; i < ncand; i++ {
		v := votes("cand.")
		c.Candidates = append(c.Candidates, v)
		a.CurrentCandidates = append(a.CurrentCandidates, newProducerArbiter(300+i, 400+i, v))
		record(pk(300+i), v)
	}
	c.TotalVotes = int64(a.CurrentReward.TotalVotesInRound)

	// ---- height inside the era
	l := uint32(2 * len(a.CurrentArbitrators))
	var lo, hi uint32
	switch c.Era {
	case "V0":
		lo, hi = 1, h1+l-1
	case "V1":
		lo, hi = h1+l, h2+l-1
	case "V2":
		lo, hi = h2+l, h3+l-1
	default:
		lo, hi = h3+l, h3+l+5000
	}
	c.Height = uint32(rapid.IntRange(int(lo), int(hi)).Draw(t, "height"))
	if rapid.IntRange(0, 3).Draw(t, "edge") == 0 {
		c.Height = rapid.SampledFrom([]uint32{lo, hi}).Draw(t, "edgeHeight")
	}
	c.Reward = genReward(t)
	return c, b
}

// ---------------------------------------------------------------- oracle

func sum(m map[common.Uint168]common.Fixed64) *big.Int {
	s := new(big.Int)
	for _, v := range m {
		s.Add(s, big.NewInt(int64(v)))
	}
	return s
}

// checkPayout applies the statement to one distribution result.  site names the
// entry point for the signature.
// It returns false when a (known) finding was reported for the case.
func checkPayout(t *rapid.T, site string, c *caseV, pool int64, round map[common.Uint168]common.Fixed64, change common.Fixed64) bool {
	for h, v := range round {
		if v < 0 {
			return !vk.Report(t, "C27:"+site+":negative-payout",
				fmt.Sprintf("payout %d to %s (pool %d, total votes %d)", int64(v), h.String(), pool, c.TotalVotes), c)
		}
	}
	if change < 0 {
		return !vk.Report(t, "C27:"+site+":negative-change", fmt.Sprintf("change %d pool %d", int64(change), pool), c)
	}
	paid := sum(round)
	if paid.Cmp(big.NewInt(pool)) > 0 {
		return !vk.Report(t, "C27:"+site+":payouts-exceed-pool", fmt.Sprintf("sum of payouts %s > pool %d", paid, pool), c)
	}
	if total := new(big.Int).Add(paid, big.NewInt(int64(change))); total.Cmp(big.NewInt(pool)) > 0 {
		// V2/V3 add the block-confirm share of every missing arbiter slot to the
		// destroy address of the round reward map without counting it as paid
		slots := len(c.CRCParams) + c.NormalCfg
		missing := int64(slots - len(c.CRC) - len(c.Arbiters))
		excess := new(big.Int).Sub(total, big.NewInt(pool)).Int64()
		if missing > 0 && (c.Era == "V2" || c.Era == "V3") && excess%missing == 0 && excess/missing <= pool/4/int64(slots)+1 {
			return !vk.Report(t, "C27:distributeWithNormalArbitrators"+c.Era+":destroyed-share-of-missing-slots-not-counted",
				fmt.Sprintf("%d of %d arbiter slots filled: sum of payouts %s + change %d = %s > pool %d (excess %d = %d missing slots x %d)",
					int64(slots)-missing, slots, paid, int64(change), total, pool, excess, missing, excess/missing), c)
		}
		return !vk.Report(t, "C27:"+site+":payouts-plus-change-exceed-pool",
			fmt.Sprintf("sum of payouts %s + change %d = %s > pool %d", paid, int64(change), total, pool), c)
	}
	return true
}

func classify(c *caseV) (string, bool) {
	cl := c.Era + "/"
	distinct := map[int64]bool{}
	zero := false
	for _, v := range c.Arbiters {
		distinct[v] = true
		if v == 0 {
			zero = true
		}
	}
	total := len(c.CRC) + len(c.Arbiters)
	switch {
	case c.POW:
		cl += "pow-mode"
	case len(c.Arbiters) == 0:
		cl += "crc-only"
	case c.TotalVotes == 0:
		cl += "zero-total-votes"
	case len(c.Arbiters) < c.NormalCfg:
		cl += "short-arbiter-set"
	case zero:
		cl += "has-zero-vote-arbiter"
	default:
		cl += "full"
	}
	for _, s := range c.CRC {
		switch {
		case s.Kind == "member" && s.BorrowsProducer:
			vk.Class("crc-slot/member-on-borrowed-producer-node")
		case s.Kind == "member" && !s.Elected:
			vk.Class("crc-slot/member-not-elected")
		case s.Kind == "member" && s.Claimed:
			vk.Class("crc-slot/member-claimed-node")
		case s.Kind == "member":
			vk.Class("crc-slot/member-unclaimed")
		case c.Era == "V3":
			vk.Class("crc-slot/top-producer")
		default:
			vk.Class("crc-slot/configured-key")
		}
	}
	if len(c.Candidates) > 0 {
		vk.Class("has-candidates")
	}
	nt := len(c.Arbiters) >= 2 && len(distinct) >= 2 && total > 0 && c.Reward%int64(total) != 0
	return cl, nt
}

func TestDistribute(t *testing.T) {
	rapid.Check(t, func(t *rapid.T) {
		c, b := genCase(t)
		var round map[common.Uint168]common.Fixed64
		var change common.Fixed64
		var err error
		panicked, val, frame := vk.Catch(func() {
			round, change, err = b.a.VerifC27DistributeDPOSReward(c.Height, common.Fixed64(c.Reward))
		})
		cl, nt := classify(c)
		if panicked {
			if !vk.Report(t, "C27:distributeDPOSReward:panic:"+frame, fmt.Sprint(val), c) {
				return
			}
			cl += ",panic"
		} else if err != nil {
			cl += ",error"
			if round != nil || change != 0 {
				vk.Report(t, "C27:distributeDPOSReward:result-with-error", err.Error(), c)
				return
			}
			// an error here makes the node panic at the round change ("normal change fail
			// when clear DPOS reward"): with consistent data it must not happen
			if len(b.a.CurrentArbitrators) > 0 {
				if !vk.Report(t, "C27:distributeDPOSReward:error-on-consistent-data", err.Error(), c) {
					return
				}
			}
		} else if !checkPayout(t, "distributeDPOSReward", c, c.Reward, round, change) {
			cl += ",known-finding"
			nt = false
		}
		key, _ := json.Marshal(c)
		vk.Case(cl, nt, key, func() any { return c })
	})
}

// TestClearing drives clearingDPOSReward (the caller of the distribution at a
// round change) and checks the bookkeeping the coinbase check and the miner
// read afterwards: GetArbitersRoundReward / GetFinalRoundChange against the
// pool that was accumulated.
func TestClearing(t *testing.T) {
	rapid.Check(t, func(t *rapid.T) {
		c, b := genCase(t)
		b.params.PublicDPOSHeight = 1
		smooth := rapid.Bool().Draw(t, "smooth")
		c.Clearing = map[bool]string{true: "smooth", false: "force"}[smooth]
		c.Accum = c.Reward
		b.a.VerifC27SetAccumulativeReward(common.Fixed64(c.Accum))
		block := &types.Block{Header: ctypes.Header{Height: c.Height}}
		blockShare := int64(common.Fixed64(0))
		{
			// 35 % of the block reward, rounded up (no fees: the block has no transactions)
			r := big.NewInt(int64(b.params.GetBlockReward(c.Height)))
			r.Mul(r, big.NewInt(35))
			q, m := new(big.Int).DivMod(r, big.NewInt(100), new(big.Int))
			if m.Sign() != 0 {
				q.Add(q, big.NewInt(1))
			}
			blockShare = q.Int64()
		}
		pool := c.Accum
		if smooth {
			pool += blockShare
		}
		before, beforeChange, beforeAcc, beforeClr := b.a.VerifC27Accounting()
		var err error
		panicked, val, frame := vk.Catch(func() { err = b.a.VerifC27Clearing(block, smooth) })
		cl, nt := classify(c)
		cl = "clearing-" + c.Clearing + "/" + cl
		switch {
		case panicked:
			if !vk.Report(t, "C27:clearingDPOSReward:panic:"+frame, fmt.Sprint(val), c) {
				return
			}
			cl += ",panic"
		case err != nil:
			cl += ",error"
			after, afterChange, afterAcc, afterClr := b.a.VerifC27Accounting()
			if len(after) != len(before) || afterChange != beforeChange || afterAcc != beforeAcc || afterClr != beforeClr {
				vk.Report(t, "C27:clearingDPOSReward:state-changed-on-error", err.Error(), c)
				return
			}
			if len(b.a.CurrentArbitrators) > 0 {
				if !vk.Report(t, "C27:distributeDPOSReward:error-on-consistent-data", err.Error(), c) {
					return
				}
			}
		default:
			b.a.History.Commit(c.Height)
			round := b.a.GetArbitersRoundReward()
			change := b.a.GetFinalRoundChange()
			if !checkPayout(t, "distributeDPOSReward", c, pool, round, change) {
				cl += ",known-finding"
				nt = false
			}
			_, _, acc, clr := b.a.VerifC27Accounting()
			wantAcc := blockShare
			if smooth {
				wantAcc = 0
			}
			if int64(acc) != wantAcc || clr != c.Height {
				vk.Report(t, "C27:clearingDPOSReward:carry-over",
					fmt.Sprintf("accumulated after clearing %d want %d, clearing height %d want %d", int64(acc), wantAcc, clr, c.Height), c)
				return
			}
		}
		key, _ := json.Marshal(c)
		vk.Case(cl, nt, key, func() any { return c })
	})
}
