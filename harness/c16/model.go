// Reference model for C16: nested sorted maps with copy-on-begin transactions.
package c16

import (
	"bytes"
	"sort"
	"strings"
)

const specialPrefix = "ffldb-" // internal entries ffldb keeps in the root bucket

// mbucket is one bucket of the model: an ordered key space and an ordered,
// separate name space of nested buckets (ffldb keeps nested buckets in a bucket
// index of their own, so a key and a nested bucket may carry the same name).
type mbucket struct {
	keys   map[string][]byte
	subs   map[string]*mbucket
	opaque bool // internal bucket the harness never looks into
}

func newBucket() *mbucket {
	return &mbucket{keys: map[string][]byte{}, subs: map[string]*mbucket{}}
}

func (b *mbucket) clone() *mbucket {
	n := &mbucket{keys: make(map[string][]byte, len(b.keys)), subs: make(map[string]*mbucket, len(b.subs)), opaque: b.opaque}
	for k, v := range b.keys {
		n.keys[k] = append([]byte{}, v...)
	}
	for k, s := range b.subs {
		n.subs[k] = s.clone()
	}
	return n
}

func (b *mbucket) sortedKeys() []string {
	out := make([]string, 0, len(b.keys))
	for k := range b.keys {
		out = append(out, k)
	}
	sort.Strings(out)
	return out
}

func (b *mbucket) sortedSubs() []string {
	out := make([]string, 0, len(b.subs))
	for k := range b.subs {
		out = append(out, k)
	}
	sort.Strings(out)
	return out
}

func (b *mbucket) resolve(path []string) *mbucket {
	cur := b
	for _, p := range path {
		if cur == nil {
			return nil
		}
		cur = cur.subs[p]
	}
	return cur
}

func isSpecial(name string) bool { return strings.HasPrefix(name, specialPrefix) }

// item is one cursor position: a key or a nested bucket.  ffldb's full cursor
// walks all keys of the bucket in byte order and then all nested buckets in
// byte order (the two live in different raw key ranges).
type item struct {
	bucket bool
	name   string
}

func (a item) less(b item) bool {
	if a.bucket != b.bucket {
		return !a.bucket
	}
	return a.name < b.name
}

func (b *mbucket) items() []item {
	out := make([]item, 0, len(b.keys)+len(b.subs))
	for _, k := range b.sortedKeys() {
		out = append(out, item{false, k})
	}
	for _, k := range b.sortedSubs() {
		out = append(out, item{true, k})
	}
	return out
}

// after returns the first item strictly greater than p.
func (b *mbucket) after(p item) (item, bool) {
	for _, it := range b.items() {
		if p.less(it) {
			return it, true
		}
	}
	return item{}, false
}

// before returns the last item strictly smaller than p.
func (b *mbucket) before(p item) (item, bool) {
	its := b.items()
	for i := len(its) - 1; i >= 0; i-- {
		if its[i].less(p) {
			return its[i], true
		}
	}
	return item{}, false
}

// seek returns the first item whose raw position is >= key k (keys first, then
// nested buckets).
func (b *mbucket) seek(k string) (item, bool) {
	for _, it := range b.items() {
		if it.bucket || it.name >= k {
			return it, true
		}
	}
	return item{}, false
}

func equalBytes(a, b []byte) bool { return bytes.Equal(a, b) }

func pathStr(p []string) string { return "/" + strings.Join(p, "/") }

func samePath(a, b []string) bool {
	if len(a) != len(b) {
		return false
	}
	for i := range a {
		if a[i] != b[i] {
			return false
		}
	}
	return true
}

// hasPrefixPath reports whether p starts with prefix.
func hasPrefixPath(p, prefix []string) bool {
	if len(p) < len(prefix) {
		return false
	}
	return samePath(p[:len(prefix)], prefix)
}
