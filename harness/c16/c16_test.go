// C16 - ffldb behaves like an ordered, transactional key/value store.
//
// Generator: rapid state machine over database.DB ("ffldb") - managed and
// unmanaged transactions (one read-write, several read-only snapshots held
// across later commits), nested buckets, cursors, ForEach, blocks, commit,
// rollback, failing / panicking Update closures, close/reopen - under a cache
// configuration drawn per history.  Oracle: the copy-on-begin model in
// model.go; every result, cursor position and error code is compared.
package c16

import (
	"encoding/json"
	"errors"
	"fmt"
	"os"
	"sort"
	"strings"
	"testing"

	"github.com/btcsuite/btcd/wire"
	"github.com/elastos/Elastos.ELA/common"
	"github.com/elastos/Elastos.ELA/database"
	"github.com/elastos/Elastos.ELA/database/ffldb"
	"pgregory.net/rapid"
	"verifharness/lib/vk"
)

func TestMain(m *testing.M) { vk.Main(m, "C16") }

const (
	maxDepth   = 3
	maxCursors = 3
	nHashes    = 6
)

type config struct {
	MaxFile   uint32 `json:"max_block_file"`
	CacheSize uint64 `json:"cache_size"`
	FlushSecs uint32 `json:"flush_secs"`
}

type curh struct {
	id      int
	c       database.Cursor
	path    []string
	at      bool // positioned at an item
	pos     item
	deleted bool // the item at pos was removed through this cursor
	invalid bool // bucket modified since last positioning: must be repositioned
	dead    bool // bucket (or an ancestor) deleted
	dir     int  // +1 after First/Seek/Next, -1 after Last/Prev, 0 unpositioned
}

type txh struct {
	id       int
	tx       database.Tx
	writable bool
	managed  bool
	closed   bool
	root     *mbucket
	blocks   map[common.Uint256][]byte
	cursors  []*curh
	wrote    bool
	pendingW map[string]bool // bucket paths with uncommitted changes
}

type machine struct {
	dir     string
	db      database.DB
	dbOpen  bool
	cfg     config
	root    *mbucket // committed state
	blocks  map[common.Uint256][]byte
	txs     []*txh // open transactions
	closed  []*txh // a few recently closed ones (ErrTxClosed checks)
	rw      *txh
	nextID  int
	ops     []string
	stopped bool                       // a known finding left the database in an unmodelled state
	ever    map[string]map[string]bool // per bucket path: every key / bucket name ever written (absence checks)

	fRollbackAfterWrite, fFailedUpdateAfterWrite, fCursorPending, fReopen, fDirChange bool
	fSnapshotAcrossCommit, fNested, fCursorDelete                                     bool
	hashCount                                                                         int  // block hash universe in use (grows with failCommit)
	fIOFailure                                                                        bool // a commit failed on an injected block-file write error
	flushesSeen                                                                       bool
}

func (m *machine) log(f string, a ...any) { m.ops = append(m.ops, fmt.Sprintf(f, a...)) }

func (m *machine) render() any {
	return map[string]any{"config": m.cfg, "ops": m.ops}
}

var errSentinel = errors.New("c16: closure error")

// debugSkip (env C16_SKIP, comma separated) switches operation classes off while
// investigating a failure; never set by the registered check.
var debugSkip = func() map[string]bool {
	m := map[string]bool{}
	for _, s := range strings.Split(os.Getenv("C16_SKIP"), ",") {
		if s != "" {
			m[s] = true
		}
	}
	return m
}()

type userPanic struct{}

func hashN(i int) common.Uint256 {
	var h common.Uint256
	h[0] = byte(i + 1)
	h[31] = 0xAA
	return h
}

// ---------------------------------------------------------------- generators

// alphabet / name lengths of the running profile (set by runMachine; cases run
// serially inside a process)
var (
	nameAlphabet = []byte("abcd")
	nameLens     = []int{0, 1, 1, 1, 1, 1, 2, 2, 2, 3}
)

func genName(t *rapid.T, label string) string {
	n := rapid.SampledFrom(nameLens).Draw(t, label+"Len")
	var sb strings.Builder
	for i := 0; i < n; i++ {
		sb.WriteByte(rapid.SampledFrom(nameAlphabet).Draw(t, label+"Ch"))
	}
	return sb.String()
}

// pickName prefers names that exist (or once existed) under the bucket, so that
// deletes, re-creations and reads hit something.
func (m *machine) pickName(t *rapid.T, label string, path []string, existing []string) string {
	cands := append([]string{}, existing...)
	var old []string
	for n := range m.ever[pathStr(path)] {
		old = append(old, n)
	}
	sort.Strings(old)
	cands = append(cands, old...)
	if len(cands) > 0 && rapid.IntRange(0, 9).Draw(t, label+"Known") < 6 {
		n := rapid.SampledFrom(cands).Draw(t, label+"Pick")
		if !isSpecial(n) {
			return n
		}
	}
	return genName(t, label)
}

func genValue(t *rapid.T) []byte {
	if rapid.IntRange(0, 9).Draw(t, "bigVal") == 0 {
		n := rapid.IntRange(40, 300).Draw(t, "bigLen")
		b := make([]byte, n)
		fill := rapid.Byte().Draw(t, "fill")
		for i := range b {
			b[i] = fill + byte(i)
		}
		return b
	}
	return rapid.SliceOfN(rapid.Byte(), 0, 5).Draw(t, "val")
}

func genConfig(t *rapid.T) config {
	dMax, dCache, dFlush := ffldb.VerifDefaults()
	return config{
		MaxFile:   rapid.SampledFrom([]uint32{dMax, 160, 600}).Draw(t, "maxFile"),
		CacheSize: rapid.SampledFrom([]uint64{0, 64, 1024, dCache}).Draw(t, "cacheSize"),
		FlushSecs: rapid.SampledFrom([]uint32{0, dFlush}).Draw(t, "flushSecs"),
	}
}

// ---------------------------------------------------------------- verdict helpers

func errCode(err error) (database.ErrorCode, bool) {
	var de database.Error
	if errors.As(err, &de) {
		return de.ErrorCode, true
	}
	return 0, false
}

// expectErr: want empty => err must be nil; otherwise err must carry one of
// the listed codes (several when the contract does not order the checks).
func (m *machine) expectErr(t *rapid.T, site string, err error, want ...database.ErrorCode) bool {
	if len(want) == 0 {
		if err != nil {
			m.report(t, "C16:"+site+":unexpected-error", fmt.Sprintf("got %v, want success", err))
			return false
		}
		return true
	}
	if err == nil {
		m.report(t, "C16:"+site+":missing-error", fmt.Sprintf("got success, want %v", want))
		return false
	}
	c, ok := errCode(err)
	if ok {
		for _, w := range want {
			if c == w {
				return true
			}
		}
	}
	m.report(t, "C16:"+site+":error-code", fmt.Sprintf("got %v, want %v", err, want))
	return false
}

// report returns true when the signature is a listed known finding.
func (m *machine) report(t *rapid.T, sig, detail string) bool {
	m.log("!! %s: %s", sig, detail)
	return vk.Report(t, sig, detail, m.render())
}

// ---------------------------------------------------------------- database life cycle

func (m *machine) open(t *rapid.T, create bool) {
	var err error
	if create {
		m.db, err = database.Create("ffldb", m.dir, wire.MainNet)
	} else {
		m.db, err = database.Open("ffldb", m.dir, wire.MainNet)
	}
	if err != nil {
		if create {
			t.Fatalf("harness: create: %v", err)
		}
		m.stopped = true
		m.report(t, "C16:Open:error-after-clean-close", err.Error())
		return
	}
	if !ffldb.VerifTune(m.db, m.cfg.MaxFile, m.cfg.CacheSize, m.cfg.FlushSecs) {
		t.Fatalf("harness: VerifTune rejected the database")
	}
	if !ffldb.VerifInstallWriteFailer(m.db) {
		t.Fatalf("harness: VerifInstallWriteFailer rejected the database")
	}
	m.dbOpen = true
}

func (m *machine) cleanup() {
	if m.db != nil && m.dbOpen {
		for _, x := range m.txs {
			if !x.closed && !x.managed {
				func() {
					defer func() { _ = recover() }()
					_ = x.tx.Rollback()
				}()
			}
		}
		func() {
			defer func() { _ = recover() }()
			_ = m.db.Close()
		}()
	}
	_ = os.RemoveAll(m.dir)
}

func (m *machine) newTx(tx database.Tx, writable, managed bool) *txh {
	m.nextID++
	x := &txh{id: m.nextID, tx: tx, writable: writable, managed: managed, pendingW: map[string]bool{}}
	if writable {
		x.root = m.root.clone()
		x.blocks = make(map[common.Uint256][]byte, len(m.blocks))
		for k, v := range m.blocks {
			x.blocks[k] = v
		}
	} else {
		// committed roots are never mutated in place (commit swaps the pointer)
		x.root = m.root
		x.blocks = m.blocks
	}
	return x
}

func (m *machine) retire(x *txh) {
	x.closed = true
	for i, y := range m.txs {
		if y == x {
			m.txs = append(m.txs[:i], m.txs[i+1:]...)
			break
		}
	}
	if m.rw == x {
		m.rw = nil
	}
	if !x.managed {
		m.closed = append(m.closed, x)
		if len(m.closed) > 2 {
			m.closed = m.closed[1:]
		}
	}
}

func (m *machine) applyCommit(x *txh) {
	m.root = x.root
	m.blocks = x.blocks
	for _, y := range m.txs {
		if y != x && !y.closed {
			m.fSnapshotAcrossCommit = true
		}
	}
}

// ---------------------------------------------------------------- bucket navigation

func (m *machine) pickPath(t *rapid.T, x *txh) []string {
	var path []string
	if x.closed {
		return path
	}
	cur := x.root
	for len(path) < maxDepth {
		var subs []string
		for _, s := range cur.sortedSubs() {
			if !isSpecial(s) {
				subs = append(subs, s)
			}
		}
		if len(subs) == 0 || rapid.IntRange(0, 2).Draw(t, "descend") == 0 {
			break
		}
		s := rapid.SampledFrom(subs).Draw(t, "sub")
		path = append(path, s)
		cur = cur.subs[s]
	}
	return path
}

// realBucket walks the path with Bucket() calls; every step must exist.
func (m *machine) realBucket(t *rapid.T, x *txh, path []string) database.Bucket {
	b := x.tx.Metadata()
	if b == nil {
		m.report(t, "C16:Metadata:nil", "Metadata() returned nil")
		return nil
	}
	for i, p := range path {
		nb := b.Bucket([]byte(p))
		if nb == nil {
			m.report(t, "C16:Bucket:existing-bucket-not-found", fmt.Sprintf("tx%d bucket %s missing", x.id, pathStr(path[:i+1])))
			return nil
		}
		b = nb
	}
	return b
}

func (m *machine) remember(path []string, name string) {
	p := pathStr(path)
	if m.ever == nil {
		m.ever = map[string]map[string]bool{}
	}
	if m.ever[p] == nil {
		m.ever[p] = map[string]bool{}
	}
	m.ever[p][name] = true
}

func (x *txh) touch(path []string) {
	x.wrote = true
	x.pendingW[pathStr(path)] = true
}

// invalidate marks cursors over path as needing repositioning (except keep).
func (x *txh) invalidate(path []string, keep *curh) {
	for _, c := range x.cursors {
		if c != keep && samePath(c.path, path) {
			c.invalid = true
		}
	}
}

func (x *txh) killUnder(path []string) {
	for _, c := range x.cursors {
		if hasPrefixPath(c.path, path) {
			c.dead = true
		}
	}
}

// ---------------------------------------------------------------- key/value, bucket and block operations

var kvKinds = []string{
	"put", "put", "put", "put", "get", "get", "get", "delete", "delete",
	"createBucket", "createBucket", "createIfNotExists", "deleteBucket", "bucket",
	"forEach", "forEachBucket", "storeBlock", "hasBlock", "fetchBlock", "writable",
}

func (m *machine) writeErrs(x *txh, extra ...database.ErrorCode) []database.ErrorCode {
	var want []database.ErrorCode
	if x.closed {
		return []database.ErrorCode{database.ErrTxClosed}
	}
	if !x.writable {
		want = append(want, database.ErrTxNotWritable)
	}
	return append(want, extra...)
}

func (m *machine) kvOp(t *rapid.T, x *txh) {
	kind := rapid.SampledFrom(kvKinds).Draw(t, "kv")
	path := m.pickPath(t, x)
	rb := m.realBucket(t, x, path)
	if rb == nil {
		return
	}
	var mb *mbucket
	if !x.closed {
		mb = x.root.resolve(path)
		if mb == nil {
			t.Fatalf("harness: model path %v vanished", path)
		}
	}
	tag := fmt.Sprintf("tx%d%s %s", x.id, map[bool]string{true: "(closed)", false: ""}[x.closed], pathStr(path))

	switch kind {
	case "put":
		k, v := m.pickName(t, "key", path, nil), genValue(t)
		var extra []database.ErrorCode
		if k == "" {
			extra = append(extra, database.ErrKeyRequired)
		}
		want := m.writeErrs(x, extra...)
		err := rb.Put([]byte(k), v)
		m.log("%s Put(%q, %s) -> %v", tag, k, vk.Hex(v), err)
		if m.expectErr(t, "Put", err, want...) && len(want) == 0 {
			mb.keys[k] = append([]byte{}, v...)
			m.remember(path, k)
			x.touch(path)
			x.invalidate(path, nil)
		}
	case "get":
		k := m.pickName(t, "key", path, nil)
		got := rb.Get([]byte(k))
		m.log("%s Get(%q) -> %s", tag, k, showVal(got))
		var want []byte
		exists := false
		if !x.closed && k != "" {
			want, exists = mb.keys[k]
		}
		m.checkValue(t, "Get", k, got, want, exists)
	case "delete":
		k := m.pickName(t, "key", path, nil)
		want := m.writeErrs(x)
		err := rb.Delete([]byte(k))
		m.log("%s Delete(%q) -> %v", tag, k, err)
		if k == "" && len(want) == 0 {
			// interface.go lists ErrKeyRequired for an empty key; ffldb documents and
			// implements a no-op.  No state is involved either way: accept both.
			if err != nil {
				m.expectErr(t, "Delete", err, database.ErrKeyRequired)
			}
			vk.Class("note/Delete-empty-key")
			return
		}
		if m.expectErr(t, "Delete", err, want...) && len(want) == 0 {
			if _, ok := mb.keys[k]; ok {
				delete(mb.keys, k)
			}
			x.touch(path)
			x.invalidate(path, nil)
		}
	case "createBucket", "createIfNotExists":
		name := m.pickName(t, "bname", path, nil)
		if len(path) >= maxDepth {
			kind = "createBucket"
			name = "" // depth limit reached: only the error path
		}
		var extra []database.ErrorCode
		exists := false
		if !x.closed {
			_, exists = mb.subs[name]
		}
		if name == "" {
			extra = append(extra, database.ErrBucketNameRequired)
		} else if exists && kind == "createBucket" {
			extra = append(extra, database.ErrBucketExists)
		}
		want := m.writeErrs(x, extra...)
		var nb database.Bucket
		var err error
		if kind == "createBucket" {
			nb, err = rb.CreateBucket([]byte(name))
		} else {
			nb, err = rb.CreateBucketIfNotExists([]byte(name))
		}
		m.log("%s %s(%q) -> %v", tag, kind, name, err)
		if m.expectErr(t, kind, err, want...) && len(want) == 0 {
			if nb == nil {
				m.report(t, "C16:"+kind+":nil-bucket", "success but nil bucket returned")
				return
			}
			if !exists {
				mb.subs[name] = newBucket()
				m.remember(path, name)
				x.touch(path)
				x.invalidate(path, nil)
				if len(path) >= 1 {
					m.fNested = true
				}
			}
		}
	case "deleteBucket":
		var subsNow []string
		if mb != nil {
			for _, n := range mb.sortedSubs() {
				subsNow = append(subsNow, n, n)
			}
		}
		name := m.pickName(t, "bname", path, subsNow)
		exists := false
		if !x.closed {
			_, exists = mb.subs[name]
		}
		var extra []database.ErrorCode
		if !exists {
			extra = append(extra, database.ErrBucketNotFound)
		}
		want := m.writeErrs(x, extra...)
		err := rb.DeleteBucket([]byte(name))
		m.log("%s DeleteBucket(%q) -> %v", tag, name, err)
		if m.expectErr(t, "DeleteBucket", err, want...) && len(want) == 0 {
			delete(mb.subs, name)
			x.touch(path)
			x.invalidate(path, nil)
			x.killUnder(append(append([]string{}, path...), name))
		}
	case "bucket":
		name := m.pickName(t, "bname", path, nil)
		got := rb.Bucket([]byte(name))
		exists := false
		if !x.closed {
			_, exists = mb.subs[name]
		}
		m.log("%s Bucket(%q) -> %v", tag, name, got != nil)
		if (got != nil) != exists {
			m.report(t, "C16:Bucket:existence", fmt.Sprintf("Bucket(%q) non-nil=%v, model exists=%v", name, got != nil, exists))
		}
	case "forEach":
		m.forEach(t, x, rb, mb, tag)
	case "forEachBucket":
		m.forEachBucket(t, x, rb, mb, tag)
	case "storeBlock":
		h := hashN(rapid.IntRange(0, nHashes-1).Draw(t, "hash"))
		data := rapid.SliceOfN(rapid.Byte(), 1, 90).Draw(t, "block")
		var extra []database.ErrorCode
		if !x.closed {
			if _, ok := x.blocks[h]; ok {
				extra = append(extra, database.ErrBlockExists)
			}
		}
		want := m.writeErrs(x, extra...)
		err := x.tx.StoreBlock(h, data)
		m.log("tx%d StoreBlock(%x.., %d bytes) -> %v", x.id, h[0], len(data), err)
		if m.expectErr(t, "StoreBlock", err, want...) && len(want) == 0 {
			x.blocks[h] = append([]byte{}, data...)
			x.wrote = true
		}
	case "hasBlock":
		h := hashN(rapid.IntRange(0, nHashes-1).Draw(t, "hash"))
		got, err := x.tx.HasBlock(h)
		m.log("tx%d HasBlock(%x..) -> %v %v", x.id, h[0], got, err)
		if x.closed {
			m.expectErr(t, "HasBlock", err, database.ErrTxClosed)
			return
		}
		_, want := x.blocks[h]
		if m.expectErr(t, "HasBlock", err) && got != want {
			m.report(t, "C16:HasBlock:existence", fmt.Sprintf("HasBlock=%v, model=%v", got, want))
		}
	case "fetchBlock":
		h := hashN(rapid.IntRange(0, nHashes-1).Draw(t, "hash"))
		got, err := x.tx.FetchBlock(&h)
		m.log("tx%d FetchBlock(%x..) -> %d bytes %v", x.id, h[0], len(got), err)
		if x.closed {
			m.expectErr(t, "FetchBlock", err, database.ErrTxClosed)
			return
		}
		want, ok := x.blocks[h]
		if !ok {
			m.expectErr(t, "FetchBlock", err, database.ErrBlockNotFound)
			return
		}
		if m.expectErr(t, "FetchBlock", err) && !equalBytes(got, want) {
			m.report(t, "C16:FetchBlock:bytes", fmt.Sprintf("got %s want %s", vk.Hex(got), vk.Hex(want)))
		}
	case "writable":
		if !x.closed && rb.Writable() != x.writable {
			m.report(t, "C16:Writable:flag", fmt.Sprintf("Writable()=%v want %v", rb.Writable(), x.writable))
		}
	}
}

func showVal(v []byte) string {
	if v == nil {
		return "nil"
	}
	return "0x" + vk.Hex(v)
}

func (m *machine) checkValue(t *rapid.T, site, key string, got, want []byte, exists bool) {
	if !exists {
		if got != nil {
			m.report(t, "C16:"+site+":absent-key-has-value", fmt.Sprintf("key %q: got %s, model has no such key", key, showVal(got)))
		}
		return
	}
	if got == nil {
		m.report(t, "C16:"+site+":present-key-returned-nil", fmt.Sprintf("key %q: got nil, model has %s", key, showVal(want)))
		return
	}
	if isSpecial(key) {
		return
	}
	if !equalBytes(got, want) {
		m.report(t, "C16:"+site+":value", fmt.Sprintf("key %q: got %s want %s", key, showVal(got), showVal(want)))
	}
}

func (m *machine) forEach(t *rapid.T, x *txh, rb database.Bucket, mb *mbucket, tag string) {
	stopAt := rapid.IntRange(-1, 4).Draw(t, "stopAt")
	type kv struct {
		k string
		v []byte
	}
	var got []kv
	err := rb.ForEach(func(k, v []byte) error {
		if len(got) == stopAt {
			return errSentinel
		}
		var vc []byte
		if v != nil {
			vc = append([]byte{}, v...)
		}
		got = append(got, kv{string(k), vc})
		return nil
	})
	m.log("%s ForEach(stopAt=%d) -> %d pairs, %v", tag, stopAt, len(got), err)
	if x.closed {
		m.expectErr(t, "ForEach", err, database.ErrTxClosed)
		return
	}
	keys := mb.sortedKeys()
	wantErr := stopAt >= 0 && stopAt < len(keys)
	if wantErr {
		keys = keys[:stopAt]
		if err != errSentinel {
			m.report(t, "C16:ForEach:callback-error-not-returned", fmt.Sprintf("got %v", err))
			return
		}
	} else if err != nil {
		m.report(t, "C16:ForEach:unexpected-error", err.Error())
		return
	}
	if x.writable && x.pendingW[tagPath(tag)] {
		m.fCursorPending = true
	}
	if len(got) != len(keys) {
		m.report(t, "C16:ForEach:sequence", fmt.Sprintf("got %d pairs %v, want keys %v", len(got), got, keys))
		return
	}
	for i, k := range keys {
		if got[i].k != k {
			m.report(t, "C16:ForEach:sequence", fmt.Sprintf("pair %d: got key %q want %q (want keys %v)", i, got[i].k, k, keys))
			return
		}
		m.checkValue(t, "ForEach", k, got[i].v, mb.keys[k], true)
	}
}

func tagPath(tag string) string {
	if i := strings.LastIndex(tag, " "); i >= 0 {
		return tag[i+1:]
	}
	return tag
}

func (m *machine) forEachBucket(t *rapid.T, x *txh, rb database.Bucket, mb *mbucket, tag string) {
	stopAt := rapid.IntRange(-1, 3).Draw(t, "stopAt")
	var got []string
	err := rb.ForEachBucket(func(k []byte) error {
		if len(got) == stopAt {
			return errSentinel
		}
		got = append(got, string(k))
		return nil
	})
	m.log("%s ForEachBucket(stopAt=%d) -> %v, %v", tag, stopAt, got, err)
	if x.closed {
		m.expectErr(t, "ForEachBucket", err, database.ErrTxClosed)
		return
	}
	subs := mb.sortedSubs()
	if stopAt >= 0 && stopAt < len(subs) {
		subs = subs[:stopAt]
		if err != errSentinel {
			m.report(t, "C16:ForEachBucket:callback-error-not-returned", fmt.Sprintf("got %v", err))
			return
		}
	} else if err != nil {
		m.report(t, "C16:ForEachBucket:unexpected-error", err.Error())
		return
	}
	if strings.Join(got, "\x00") != strings.Join(subs, "\x00") {
		m.report(t, "C16:ForEachBucket:sequence", fmt.Sprintf("got %q want %q", got, subs))
	}
}

// ---------------------------------------------------------------- cursors

var curKinds = []string{"first", "last", "next", "next", "next", "next", "next", "prev", "prev", "prev", "seek", "seek", "seek", "delete", "delete", "bucket", "keyvalue"}

func (m *machine) cursorOp(t *rapid.T, x *txh) {
	var c *curh
	live := 0
	for _, cc := range x.cursors {
		if !cc.dead {
			live++
		}
	}
	if live == 0 || (live < maxCursors && rapid.IntRange(0, 5).Draw(t, "newCursor") == 0) {
		path := m.pickPath(t, x)
		rb := m.realBucket(t, x, path)
		if rb == nil {
			return
		}
		m.nextID++
		c = &curh{id: m.nextID, c: rb.Cursor(), path: path}
		if c.c == nil {
			m.report(t, "C16:Cursor:nil", "Cursor() returned nil")
			return
		}
		x.cursors = append(x.cursors, c)
		m.log("tx%d cur%d := Cursor(%s)", x.id, c.id, pathStr(path))
	} else {
		var cands []*curh
		for _, cc := range x.cursors {
			if !cc.dead {
				cands = append(cands, cc)
			}
		}
		c = cands[rapid.IntRange(0, len(cands)-1).Draw(t, "cursor")]
	}
	kind := rapid.SampledFrom(curKinds).Draw(t, "cur")
	if debugSkip["dirchange"] && c.at && ((kind == "next" && c.dir < 0) || (kind == "prev" && c.dir > 0)) {
		kind = "keyvalue"
	}
	if debugSkip["rodelete"] && kind == "delete" && !x.writable {
		kind = "keyvalue"
	}
	if c.invalid && !x.closed {
		// the contract requires repositioning after the bucket was modified
		switch kind {
		case "first", "last", "seek":
		default:
			kind = rapid.SampledFrom([]string{"first", "last", "seek"}).Draw(t, "reposition")
		}
	}
	tag := fmt.Sprintf("tx%d cur%d", x.id, c.id)

	if x.closed {
		m.closedCursorOp(t, x, c, kind, tag)
		return
	}
	mb := x.root.resolve(c.path)
	if mb == nil {
		t.Fatalf("harness: cursor bucket %v vanished without being marked dead", c.path)
	}
	pending := x.writable && x.pendingW[pathStr(c.path)]

	move := func(name string, got bool, want item, ok bool, dir int, dirChange bool) {
		m.log("%s %s -> %v", tag, name, got)
		c.invalid = false
		c.deleted = false
		if pending {
			m.fCursorPending = true
		}
		if dirChange {
			m.fDirChange = true
			vk.Class("cursor/direction-change")
		}
		site := "Cursor." + strings.SplitN(name, "(", 2)[0]
		bad := ""
		if got != ok {
			bad = fmt.Sprintf("%s returned %v, model %v (want item %+v)", name, got, ok, want)
		} else if ok {
			k := c.c.Key()
			if string(k) != want.name || k == nil {
				bad = fmt.Sprintf("%s positioned at %q, model at %+v", name, k, want)
			}
		} else if k := c.c.Key(); k != nil {
			bad = fmt.Sprintf("%s exhausted the cursor but Key()=%q", name, k)
		}
		if bad != "" {
			sig := "C16:" + site + ":position"
			if dirChange {
				sig = "C16:Cursor:direction-change:position"
			}
			m.report(t, sig, bad+fmt.Sprintf(" [bucket %s items %v]", pathStr(c.path), mb.items()))
			// known finding: force a reposition and go on
			c.invalid, c.at, c.dir = true, false, 0
			return
		}
		c.at, c.pos, c.dir = ok, want, dir
		if ok {
			m.checkCursorValue(t, c, mb, site)
		} else if v := c.c.Value(); v != nil {
			m.report(t, "C16:"+site+":value-when-exhausted", fmt.Sprintf("Value()=%s", showVal(v)))
		}
	}

	switch kind {
	case "first":
		its := mb.items()
		var w item
		if len(its) > 0 {
			w = its[0]
		}
		move("First()", c.c.First(), w, len(its) > 0, +1, false)
	case "last":
		its := mb.items()
		var w item
		if len(its) > 0 {
			w = its[len(its)-1]
		}
		move("Last()", c.c.Last(), w, len(its) > 0, -1, false)
	case "seek":
		k := genName(t, "seek")
		w, ok := mb.seek(k)
		move(fmt.Sprintf("Seek(%q)", k), c.c.Seek([]byte(k)), w, ok, +1, false)
	case "next":
		var w item
		ok := false
		if c.at {
			w, ok = mb.after(c.pos)
		}
		move("Next()", c.c.Next(), w, ok, +1, c.at && c.dir < 0)
	case "prev":
		var w item
		ok := false
		if c.at {
			w, ok = mb.before(c.pos)
		}
		move("Prev()", c.c.Prev(), w, ok, -1, c.at && c.dir > 0)
	case "keyvalue":
		if c.deleted {
			return
		}
		k := c.c.Key()
		m.log("%s Key() -> %q", tag, k)
		if c.at {
			if k == nil || string(k) != c.pos.name {
				m.report(t, "C16:Cursor.Key:position", fmt.Sprintf("Key()=%q, model at %+v", k, c.pos))
				return
			}
			m.checkCursorValue(t, c, mb, "Cursor.Value")
		} else if k != nil {
			m.report(t, "C16:Cursor.Key:exhausted-not-nil", fmt.Sprintf("Key()=%q on an unpositioned/exhausted cursor", k))
		}
	case "bucket":
		if c.c.Bucket() == nil {
			m.report(t, "C16:Cursor.Bucket:nil", "Bucket() returned nil on an open transaction")
		}
	case "delete":
		if c.deleted || (c.at && isSpecial(c.pos.name)) {
			return
		}
		var want []database.ErrorCode
		if !x.writable {
			want = append(want, database.ErrTxNotWritable)
		}
		if !c.at || c.pos.bucket {
			want = append(want, database.ErrIncompatibleValue)
		}
		err := c.c.Delete()
		m.log("%s Delete() at %+v -> %v", tag, c.pos, err)
		if !x.writable && err == nil {
			known := m.report(t, "C16:Cursor.Delete:accepted-in-read-only-tx",
				fmt.Sprintf("Delete() on a read-only transaction returned nil at %+v (contract: ErrTxNotWritable)", c.pos))
			if known {
				// the read-only view is now polluted: drop this transaction
				m.dropTx(t, x)
			}
			return
		}
		if m.expectErr(t, "Cursor.Delete", err, want...) && len(want) == 0 {
			delete(mb.keys, c.pos.name)
			c.deleted = true
			x.touch(c.path)
			x.invalidate(c.path, c)
			m.fCursorDelete = true
		}
	}
}

func (m *machine) checkCursorValue(t *rapid.T, c *curh, mb *mbucket, site string) {
	v := c.c.Value()
	if c.pos.bucket {
		if v != nil {
			m.report(t, "C16:"+site+":nested-bucket-value-not-nil", fmt.Sprintf("Value()=%s at nested bucket %q", showVal(v), c.pos.name))
		}
		return
	}
	m.checkValue(t, site, c.pos.name, v, mb.keys[c.pos.name], true)
}

func (m *machine) closedCursorOp(t *rapid.T, x *txh, c *curh, kind, tag string) {
	bad := func(what string) {
		m.report(t, "C16:Cursor:closed-tx", fmt.Sprintf("%s on a cursor of a closed transaction: %s", kind, what))
	}
	m.log("%s %s (tx closed)", tag, kind)
	switch kind {
	case "first":
		if c.c.First() {
			bad("First()=true")
		}
	case "last":
		if c.c.Last() {
			bad("Last()=true")
		}
	case "seek":
		if c.c.Seek([]byte("a")) {
			bad("Seek()=true")
		}
	case "next":
		if c.c.Next() {
			bad("Next()=true")
		}
	case "prev":
		if c.c.Prev() {
			bad("Prev()=true")
		}
	case "keyvalue":
		if c.c.Key() != nil || c.c.Value() != nil {
			bad("Key/Value not nil")
		}
	case "bucket":
		if c.c.Bucket() != nil {
			bad("Bucket() not nil")
		}
	case "delete":
		m.expectErr(t, "Cursor.Delete", c.c.Delete(), database.ErrTxClosed)
	}
}

// dropTx rolls an unmanaged transaction back without further checks.
func (m *machine) dropTx(t *rapid.T, x *txh) {
	if x.managed {
		m.stopped = true
		return
	}
	_ = x.tx.Rollback()
	m.retire(x)
	m.closed = nil
}

// ---------------------------------------------------------------- whole-state comparison

func (m *machine) dump(t *rapid.T, site string, tx database.Tx, root *mbucket, blocks map[common.Uint256][]byte) bool {
	ok := m.dumpBucket(t, site, tx.Metadata(), root, nil)
	for i := 0; i < m.hashCount; i++ {
		h := hashN(i)
		has, err := tx.HasBlock(h)
		want, exists := blocks[h]
		if err != nil || has != exists {
			m.report(t, "C16:"+site+":block-existence", fmt.Sprintf("block %x: HasBlock=%v,%v model=%v", h[0], has, err, exists))
			return false
		}
		if exists {
			got, err := tx.FetchBlock(&h)
			if err != nil || !equalBytes(got, want) {
				m.report(t, "C16:"+site+":block-bytes", fmt.Sprintf("block %x: got %s,%v want %s", h[0], vk.Hex(got), err, vk.Hex(want)))
				return false
			}
		}
	}
	return ok
}

func (m *machine) dumpBucket(t *rapid.T, site string, rb database.Bucket, mb *mbucket, path []string) bool {
	if rb == nil {
		m.report(t, "C16:"+site+":bucket-missing", "bucket "+pathStr(path)+" missing")
		return false
	}
	type ent struct {
		it item
		v  []byte
	}
	var want []ent
	for _, it := range mb.items() {
		want = append(want, ent{it, mb.keys[it.name]})
	}
	describe := func(es []ent) string {
		var sb strings.Builder
		for _, e := range es {
			if e.it.bucket {
				fmt.Fprintf(&sb, "[%s] ", e.it.name)
			} else {
				fmt.Fprintf(&sb, "%s=%s ", e.it.name, showVal(e.v))
			}
		}
		return sb.String()
	}
	same := func(got []ent) bool {
		if len(got) != len(want) {
			return false
		}
		for i := range got {
			if got[i].it != want[i].it {
				return false
			}
			if got[i].it.bucket {
				if got[i].v != nil {
					return false
				}
				continue
			}
			if got[i].v == nil {
				return false
			}
			if !isSpecial(got[i].it.name) && !equalBytes(got[i].v, want[i].v) {
				return false
			}
		}
		return true
	}
	// 1. ForEach + ForEachBucket
	var got []ent
	_ = rb.ForEach(func(k, v []byte) error {
		got = append(got, ent{item{false, string(k)}, append([]byte{}, v...)})
		return nil
	})
	_ = rb.ForEachBucket(func(k []byte) error {
		got = append(got, ent{item{true, string(k)}, nil})
		return nil
	})
	if !same(got) {
		m.report(t, "C16:"+site+":ForEach-contents", fmt.Sprintf("bucket %s: got {%s} want {%s}", pathStr(path), describe(got), describe(want)))
		return false
	}
	// 2. cursor forwards
	got = nil
	c := rb.Cursor()
	for ok := c.First(); ok; ok = c.Next() {
		k, v := c.Key(), c.Value()
		got = append(got, ent{item{v == nil, string(k)}, v})
	}
	if !same(got) {
		m.report(t, "C16:"+site+":cursor-forward-walk", fmt.Sprintf("bucket %s: got {%s} want {%s}", pathStr(path), describe(got), describe(want)))
		return false
	}
	// 3. cursor backwards
	got = nil
	c = rb.Cursor()
	for ok := c.Last(); ok; ok = c.Prev() {
		k, v := c.Key(), c.Value()
		got = append([]ent{{item{v == nil, string(k)}, v}}, got...)
	}
	if !same(got) {
		m.report(t, "C16:"+site+":cursor-backward-walk", fmt.Sprintf("bucket %s: got {%s} want {%s}", pathStr(path), describe(got), describe(want)))
		return false
	}
	// 4. point reads
	for k, v := range mb.keys {
		g := rb.Get([]byte(k))
		if g == nil || (!isSpecial(k) && !equalBytes(g, v)) {
			m.report(t, "C16:"+site+":Get-contents", fmt.Sprintf("bucket %s key %q: got %s want %s", pathStr(path), k, showVal(g), showVal(v)))
			return false
		}
	}
	// 5. absence: everything that ever existed under this path and is gone now
	for name := range m.ever[pathStr(path)] {
		if _, ok := mb.keys[name]; !ok {
			if g := rb.Get([]byte(name)); g != nil {
				m.report(t, "C16:"+site+":Get-absent-key", fmt.Sprintf("bucket %s key %q: got %s, model has no such key", pathStr(path), name, showVal(g)))
				return false
			}
		}
		if _, ok := mb.subs[name]; !ok {
			if rb.Bucket([]byte(name)) != nil {
				m.report(t, "C16:"+site+":Bucket-absent", fmt.Sprintf("bucket %s: nested bucket %q exists, model has none", pathStr(path), name))
				return false
			}
		}
	}
	for _, name := range mb.sortedSubs() {
		sub := mb.subs[name]
		if sub.opaque {
			continue
		}
		if !m.dumpBucket(t, site, rb.Bucket([]byte(name)), sub, append(append([]string{}, path...), name)) {
			return false
		}
	}
	return true
}

// ---------------------------------------------------------------- the state machine

// profiles: how often each action is offered to rapid's Repeat.
var profiles = map[string]map[string]int{
	"mixed": {"kv": 5, "cursor": 4, "beginRW": 1, "beginRO": 1, "commit": 1, "rollback": 1, "update": 1, "view": 1,
		"closedTx": 1, "dump": 1, "reopen": 1, "failCommit": 1},
	// long transactions, many cursor steps between the writes
	// many small commits over a tiny name space, dumps and reopens in between:
	// aimed at the layering of transaction / write cache / leveldb
	"churn": {"update": 8, "dump": 3, "reopen": 1, "view": 1, "beginRO": 1, "rollback": 1, "kv": 2, "cursor": 2, "failCommit": 2},
	"walk":  {"kv": 4, "cursor": 14, "beginRW": 3, "beginRO": 1, "commit": 1, "rollback": 1, "update": 1, "dump": 1},
}

func runMachine(t *rapid.T, profile string) *machine {
	dir, err := os.MkdirTemp("", "c16-")
	if err != nil {
		t.Fatalf("harness: mkdir: %v", err)
	}
	nameAlphabet, nameLens = []byte("abcd"), []int{0, 1, 1, 1, 1, 1, 2, 2, 2, 3}
	if profile == "churn" {
		nameAlphabet, nameLens = []byte("ab"), []int{0, 1, 1, 1, 1, 1, 1, 1, 2, 2}
	}
	m := &machine{dir: dir, cfg: genConfig(t), root: newBucket(), blocks: map[common.Uint256][]byte{}, hashCount: nHashes}
	ffldb.VerifSetWriteBudget(-1)
	m.root.keys["ffldb-writeloc"] = []byte("opaque")
	m.root.subs["ffldb-blockidx"] = &mbucket{keys: map[string][]byte{}, subs: map[string]*mbucket{}, opaque: true}
	defer m.cleanup()
	m.open(t, true)

	anyTx := func(t *rapid.T) *txh {
		if len(m.txs) == 0 {
			return nil
		}
		return m.txs[rapid.IntRange(0, len(m.txs)-1).Draw(t, "tx")]
	}
	begin := func(t *rapid.T, writable bool) {
		tx, err := m.db.Begin(writable)
		if err != nil {
			m.report(t, "C16:Begin:unexpected-error", err.Error())
			return
		}
		x := m.newTx(tx, writable, false)
		m.txs = append(m.txs, x)
		if writable {
			m.rw = x
		}
		m.log("tx%d := Begin(%v)", x.id, writable)
	}
	managed := func(t *rapid.T, writable bool) {
		n := rapid.IntRange(0, 6).Draw(t, "inner")
		outcome := rapid.SampledFrom([]string{"ok", "ok", "ok", "error", "error", "panic", "commitInside", "rollbackInside"}).Draw(t, "outcome")
		var x *txh
		name := map[bool]string{true: "Update", false: "View"}[writable]
		var retErr error
		var pv any
		func() {
			defer func() {
				if e := recover(); e != nil {
					pv = e
				}
			}()
			fn := func(tx database.Tx) error {
				x = m.newTx(tx, writable, true)
				m.txs = append(m.txs, x)
				if writable {
					m.rw = x
				}
				m.log("tx%d := %s{ (%d ops, outcome %s)", x.id, name, n, outcome)
				for i := 0; i < n; i++ {
					if rapid.IntRange(0, 3).Draw(t, "innerKind") == 0 {
						m.cursorOp(t, x)
					} else {
						m.kvOp(t, x)
					}
					if m.stopped {
						break
					}
				}
				switch outcome {
				case "error":
					return errSentinel
				case "panic":
					panic(userPanic{})
				case "commitInside":
					_ = tx.Commit()
				case "rollbackInside":
					_ = tx.Rollback()
				}
				return nil
			}
			if writable {
				retErr = m.db.Update(fn)
			} else {
				retErr = m.db.View(fn)
			}
		}()
		if x == nil {
			if pv != nil {
				panic(pv)
			}
			m.report(t, "C16:"+name+":closure-not-run", fmt.Sprintf("err=%v", retErr))
			return
		}
		m.retire(x)
		m.log("} -> err=%v panic=%v", retErr, pv)
		if pv != nil {
			_, mine := pv.(userPanic)
			s, isStr := pv.(string)
			libPanic := isStr && strings.Contains(s, "managed transaction")
			if !(mine && outcome == "panic") && !(libPanic && (outcome == "commitInside" || outcome == "rollbackInside")) {
				panic(pv) // rapid's own control flow (failure, invalid data) or a harness bug
			}
		}
		switch outcome {
		case "ok":
			if !m.expectErr(t, name, retErr) {
				return
			}
			if writable {
				m.applyCommit(x)
			}
		case "error":
			if retErr != errSentinel {
				m.report(t, "C16:"+name+":closure-error-not-returned", fmt.Sprintf("got %v", retErr))
			}
			if x.wrote {
				m.fFailedUpdateAfterWrite = true
			}
		case "panic":
			if pv == nil {
				m.report(t, "C16:"+name+":panic-swallowed", "closure panic did not propagate")
			}
			if x.wrote {
				m.fFailedUpdateAfterWrite = true
			}
		case "commitInside", "rollbackInside":
			if pv == nil {
				m.report(t, "C16:"+name+":managed-"+outcome+"-no-panic", "Commit/Rollback on a managed transaction did not panic")
			}
			if x.wrote {
				m.fFailedUpdateAfterWrite = true
			}
		}
	}

	actions := map[string]func(*rapid.T){
		"": func(t *rapid.T) {},
		"beginRW": func(t *rapid.T) {
			if m.rw != nil || len(m.txs) >= 4 {
				t.Skip("read-write transaction already open")
			}
			begin(t, true)
		},
		"beginRO": func(t *rapid.T) {
			if len(m.txs) >= 4 {
				t.Skip("enough transactions")
			}
			begin(t, false)
		},
		"commit": func(t *rapid.T) {
			x := anyTx(t)
			if x == nil {
				t.Skip("no transaction")
			}
			err := x.tx.Commit()
			m.log("tx%d Commit() -> %v", x.id, err)
			m.retire(x)
			if !x.writable {
				m.expectErr(t, "Commit", err, database.ErrTxNotWritable)
				return
			}
			if m.expectErr(t, "Commit", err) {
				m.applyCommit(x)
			}
		},
		"rollback": func(t *rapid.T) {
			x := anyTx(t)
			if x == nil {
				t.Skip("no transaction")
			}
			err := x.tx.Rollback()
			m.log("tx%d Rollback() -> %v", x.id, err)
			m.retire(x)
			m.expectErr(t, "Rollback", err)
			if x.wrote {
				m.fRollbackAfterWrite = true
			}
		},
		"update": func(t *rapid.T) {
			if m.rw != nil {
				t.Skip("read-write transaction already open")
			}
			managed(t, true)
		},
		"view": func(t *rapid.T) { managed(t, false) },
		// a commit whose block-file writes run into an injected I/O error part way:
		// it must fail, leave no trace, and the store must stay usable
		"failCommit": func(t *rapid.T) {
			if m.rw != nil || m.hashCount > 200 {
				t.Skip("read-write transaction already open")
			}
			type blk struct {
				h    common.Uint256
				data []byte
			}
			var blks []blk
			total := 0
			for i, n := 0, rapid.IntRange(1, 3).Draw(t, "nblocks"); i < n; i++ {
				b := blk{hashN(m.hashCount), rapid.SliceOfN(rapid.Byte(), 1, 200).Draw(t, "block")}
				m.hashCount++
				total += len(b.data) + 12
				blks = append(blks, b)
			}
			key, val := "io"+genName(t, "key"), genValue(t)
			budget := rapid.IntRange(0, total+8).Draw(t, "budget")
			x := m.newTx(nil, true, true)
			ffldb.VerifSetWriteBudget(int64(budget))
			err := m.db.Update(func(tx database.Tx) error {
				if err := tx.Metadata().Put([]byte(key), val); err != nil {
					return err
				}
				for _, b := range blks {
					if err := tx.StoreBlock(b.h, b.data); err != nil {
						return err
					}
				}
				return nil
			})
			ffldb.VerifSetWriteBudget(-1)
			m.log("Update{Put(%q), %d blocks, %d record bytes} with write budget %d -> %v", key, len(blks), total, budget, err)
			if budget < total {
				m.fIOFailure = true
				m.fFailedUpdateAfterWrite = true
				m.expectErr(t, "Update-io-failure", err, database.ErrDriverSpecific)
				return // nothing of it may be visible: the dumps check that
			}
			if m.expectErr(t, "Update", err) {
				x.root.keys[key] = append([]byte{}, val...)
				m.remember(nil, key)
				for _, b := range blks {
					x.blocks[b.h] = b.data
				}
				m.applyCommit(x)
			}
		},
		"closedTx": func(t *rapid.T) {
			if len(m.closed) == 0 {
				t.Skip("no closed transaction")
			}
			x := m.closed[rapid.IntRange(0, len(m.closed)-1).Draw(t, "closedTx")]
			switch rapid.IntRange(0, 4).Draw(t, "closedKind") {
			case 0:
				err := x.tx.Commit()
				m.log("tx%d(closed) Commit() -> %v", x.id, err)
				m.expectErr(t, "Commit", err, database.ErrTxClosed)
			case 1:
				err := x.tx.Rollback()
				m.log("tx%d(closed) Rollback() -> %v", x.id, err)
				m.expectErr(t, "Rollback", err, database.ErrTxClosed)
			case 2:
				if len(x.cursors) > 0 {
					m.cursorOp(t, x)
					return
				}
				m.kvOp(t, x)
			default:
				m.kvOp(t, x)
			}
		},
		"dump": func(t *rapid.T) {
			if x := anyTx(t); x != nil && rapid.Bool().Draw(t, "dumpTx") {
				m.log("dump through tx%d", x.id)
				if x.writable && len(x.pendingW) > 0 {
					m.fCursorPending = true
				}
				m.dump(t, "dump-open-tx", x.tx, x.root, x.blocks)
				return
			}
			m.log("dump through View")
			err := m.db.View(func(tx database.Tx) error {
				m.dump(t, "dump-committed", tx, m.root, m.blocks)
				return nil
			})
			m.expectErr(t, "View", err)
		},
		"reopen": func(t *rapid.T) {
			for len(m.txs) > 0 {
				x := m.txs[0]
				err := x.tx.Rollback()
				m.log("tx%d Rollback() before close -> %v", x.id, err)
				m.retire(x)
				if x.wrote {
					m.fRollbackAfterWrite = true
				}
			}
			err := m.db.Close()
			m.dbOpen = false
			m.log("Close() -> %v", err)
			if !m.expectErr(t, "Close", err) {
				return
			}
			// a closed database refuses everything
			switch rapid.IntRange(0, 3).Draw(t, "closedDb") {
			case 0:
				_, err := m.db.Begin(rapid.Bool().Draw(t, "w"))
				m.expectErr(t, "Begin-after-Close", err, database.ErrDbNotOpen)
			case 1:
				err := m.db.Update(func(database.Tx) error { return nil })
				m.expectErr(t, "Update-after-Close", err, database.ErrDbNotOpen)
			case 2:
				m.expectErr(t, "Close-after-Close", m.db.Close(), database.ErrDbNotOpen)
			}
			for _, x := range m.closed {
				if b := x.tx.Metadata(); b != nil && b.Get([]byte("a")) != nil {
					m.report(t, "C16:Get:closed-tx-after-db-close", "closed transaction returned data")
				}
			}
			m.open(t, false)
			if m.stopped {
				return
			}
			m.fReopen = true
			m.log("Open()")
			err = m.db.View(func(tx database.Tx) error {
				m.dump(t, "dump-after-reopen", tx, m.root, m.blocks)
				return nil
			})
			m.expectErr(t, "View", err)
		},
	}
	actions["kv"] = func(t *rapid.T) {
		x := anyTx(t)
		if x == nil {
			t.Skip("no transaction")
		}
		m.kvOp(t, x)
	}
	actions["cursor"] = func(t *rapid.T) {
		x := anyTx(t)
		if x == nil {
			t.Skip("no transaction")
		}
		m.cursorOp(t, x)
	}
	weighted := map[string]func(*rapid.T){"": actions[""]}
	for name, n := range profiles[profile] {
		f := actions[name]
		if f == nil {
			t.Fatalf("harness: profile %s names unknown action %s", profile, name)
		}
		g := func(t *rapid.T) {
			if m.stopped || !m.dbOpen {
				return
			}
			f(t)
		}
		for i := 0; i < n; i++ {
			weighted[fmt.Sprintf("%s#%d", name, i)] = g
		}
	}
	t.Repeat(weighted)

	if !m.stopped && m.dbOpen {
		// final: everything still open is compared, then the committed state
		for _, x := range m.txs {
			if !x.closed && !x.managed {
				m.dump(t, "dump-open-tx", x.tx, x.root, x.blocks)
			}
		}
		for len(m.txs) > 0 {
			x := m.txs[0]
			_ = x.tx.Rollback()
			m.retire(x)
		}
		err := m.db.View(func(tx database.Tx) error {
			m.dump(t, "dump-committed", tx, m.root, m.blocks)
			return nil
		})
		m.expectErr(t, "View", err)
		if ck, cr, ok := ffldb.VerifCacheStats(m.db); ok && ck+cr > 0 {
			vk.Class("final/unflushed-cache")
		} else {
			vk.Class("final/cache-empty")
		}
	}
	return m
}

func classify(m *machine) (string, bool) {
	nt := m.fRollbackAfterWrite || m.fFailedUpdateAfterWrite || m.fCursorPending || m.fReopen
	var parts []string
	if m.fRollbackAfterWrite {
		parts = append(parts, "rollback-after-write")
	}
	if m.fFailedUpdateAfterWrite {
		parts = append(parts, "failed-update-after-write")
	}
	if m.fCursorPending {
		parts = append(parts, "walk-over-pending")
	}
	if m.fReopen {
		parts = append(parts, "reopen")
	}
	if len(parts) == 0 {
		parts = append(parts, "plain")
	}
	if m.fSnapshotAcrossCommit {
		vk.Class("feature/read-snapshot-held-across-commit")
	}
	if m.fNested {
		vk.Class("feature/nested-bucket-depth>=2")
	}
	if m.fCursorDelete {
		vk.Class("feature/cursor-delete")
	}
	if m.fIOFailure {
		vk.Class("feature/commit-failed-on-injected-write-error")
	}
	if m.fDirChange {
		vk.Class("feature/cursor-direction-change")
	}
	vk.Class(fmt.Sprintf("config/cache=%d,flush=%d", m.cfg.CacheSize, m.cfg.FlushSecs))
	return strings.Join(parts, "+"), nt
}

func check(t *testing.T, profile string) {
	rapid.Check(t, func(t *rapid.T) {
		m := runMachine(t, profile)
		cl, nt := classify(m)
		key, _ := json.Marshal(m.render())
		vk.Case(profile+"/"+cl, nt, key, m.render)
	})
}

func TestKVMachine(t *testing.T)   { check(t, "mixed") }
func TestCursorWalks(t *testing.T) { check(t, "walk") }
func TestCommitChurn(t *testing.T) { check(t, "churn") }
