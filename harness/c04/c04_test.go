// C04 - wire encoding round-trips; transaction identity ignores programs.
//
// Generator: harness/gen (every tx type x payload version, attributes, inputs,
// outputs with every output payload type, programs; blocks; headers; payloads
// alone) plus mutated encodings that still decode.
// Oracle: (a) decode(encode(v)) == v field by field, modulo the hand-reviewed
// table of fields the codec intentionally does not carry; (b) for decoded v:
// decode(encode(v)) == v, same hash, encode idempotent; (c) Hash() equals the
// double SHA-256 of the encoding minus the (independently encoded) program
// list and does not move when programs change; (d) GetSize / TxLoc agree with
// the encoding.
package c04

import (
	"bytes"
	"crypto/sha256"
	"fmt"
	"io"
	"os"
	"reflect"
	"strings"
	"sync"
	"testing"

	"github.com/elastos/Elastos.ELA/auxpow"
	"github.com/elastos/Elastos.ELA/common"
	pg "github.com/elastos/Elastos.ELA/core/contract/program"
	"github.com/elastos/Elastos.ELA/core/types"
	ctypes "github.com/elastos/Elastos.ELA/core/types/common"
	"github.com/elastos/Elastos.ELA/core/types/interfaces"
	"github.com/elastos/Elastos.ELA/core/types/payload"
	"pgregory.net/rapid"
	"verifharness/gen"
	"verifharness/lib/vk"
)

func TestMain(m *testing.M) {
	gen.Init()
	vk.Main(m, "C04")
}

// ---------------------------------------------------------------- helpers

type finding struct {
	sig, detail string
}

func (f *finding) set(sig, detail string) *finding {
	if f.sig == "" {
		f.sig, f.detail = sig, detail
	}
	return f
}

func stripIdx(p string) string { return idxRe.ReplaceAllString(p, "[]") }

func sha256d(b []byte) (out common.Uint256) {
	a := sha256.Sum256(b)
	return sha256.Sum256(a[:])
}

// encPrograms is an independent encoding of the program list (varuint count,
// then per program varbytes(parameter) varbytes(code)).
func encPrograms(ps []*pg.Program) []byte {
	out := gen.VarUint(uint64(len(ps)))
	for _, p := range ps {
		out = append(out, gen.VarUint(uint64(len(p.Parameter)))...)
		out = append(out, p.Parameter...)
		out = append(out, gen.VarUint(uint64(len(p.Code)))...)
		out = append(out, p.Code...)
	}
	return out
}

func txClass(tx interfaces.Transaction) string {
	name := "?"
	if s := gen.SpecOf(tx.TxType()); s != nil {
		name = s.Name
	}
	c := fmt.Sprintf("%s/pv%d", name, tx.PayloadVersion())
	if v := variantOf(tx.Payload()); v != "" && tx.TxType() == ctypes.CRCProposal {
		c += "/" + v
	}
	return c
}

func renderTx(tx interfaces.Transaction, enc []byte, extra map[string]any) func() any {
	return func() any {
		m := map[string]any{
			"txType": tx.TxType().Name(), "txVersion": byte(tx.Version()), "payloadVersion": tx.PayloadVersion(),
			"encoding": fmt.Sprintf("%x", enc), "attrs": len(tx.Attributes()), "inputs": len(tx.Inputs()),
			"outputs": len(tx.Outputs()), "programs": len(tx.Programs()),
		}
		for k, v := range extra {
			m[k] = v
		}
		return m
	}
}

// compareOutputs: fields by tx version through the table; payloads through
// their own table entries.
func compareOutputs(fd *finding, where string, txv ctypes.TransactionVersion, want, got []*ctypes.Output, useTable bool) {
	if len(want) != len(got) {
		fd.set("C04:roundtrip:"+where+":Outputs:length", fmt.Sprintf("%d != %d", len(want), len(got)))
		return
	}
	for i := range want {
		w, g := *want[i], *got[i]
		wp, gp := w.Payload, g.Payload
		w.Payload, g.Payload = nil, nil
		var omit omitSet
		if useTable {
			o, _, err := omitFor(&w, byte(txv))
			if err != nil {
				fd.set("harness", err.Error())
				return
			}
			omit = o
		}
		if txv < ctypes.TxVersion09 {
			if gp != nil {
				fd.set("C04:roundtrip:"+where+":Outputs[].Payload", "payload decoded for a version < 9 output")
				return
			}
			wp = nil
		}
		delete(omit, "Payload")
		if p, d := diff(reflect.ValueOf(w), reflect.ValueOf(g), "", omit); p != "" {
			fd.set("C04:roundtrip:"+where+":Outputs[]"+stripIdx(p), fmt.Sprintf("output %d %s: %s", i, p, d))
			return
		}
		if wp == nil && gp == nil {
			continue
		}
		if wp == nil || gp == nil {
			fd.set("C04:roundtrip:"+where+":Outputs[].Payload", "payload nil mismatch")
			return
		}
		var pomit omitSet
		if useTable {
			o, _, err := omitFor(wp, wp.GetVersion())
			if err != nil {
				fd.set("harness", err.Error())
				return
			}
			pomit = o
		}
		if p, d := diff(reflect.ValueOf(wp), reflect.ValueOf(gp), "", pomit); p != "" {
			fd.set("C04:roundtrip:"+typeKey(wp)+":"+stripIdx(p), fmt.Sprintf("output %d payload %s: %s", i, p, d))
			return
		}
	}
}

// compareTx compares an original (want) with its decoded form (got).
// useTable=false compares two decoded values (nothing is excused).
// undecodable is returned for table rules marked so.
func compareTx(fd *finding, want, got interfaces.Transaction, useTable bool) {
	where := "tx"
	if want.Version() != got.Version() {
		fd.set("C04:roundtrip:tx:Version", fmt.Sprintf("%d != %d", want.Version(), got.Version()))
	}
	if want.TxType() != got.TxType() {
		fd.set("C04:roundtrip:tx:TxType", fmt.Sprintf("%d != %d", want.TxType(), got.TxType()))
	}
	if want.PayloadVersion() != got.PayloadVersion() {
		fd.set("C04:roundtrip:tx:PayloadVersion", fmt.Sprintf("%d != %d", want.PayloadVersion(), got.PayloadVersion()))
	}
	if want.LockTime() != got.LockTime() {
		fd.set("C04:roundtrip:tx:LockTime", fmt.Sprintf("%d != %d", want.LockTime(), got.LockTime()))
	}
	if fd.sig != "" {
		return
	}
	var omit omitSet
	if useTable {
		o, _, err := omitFor(want.Payload(), want.PayloadVersion())
		if err != nil {
			fd.set("harness", err.Error())
			return
		}
		omit = o
	}
	if p, d := diff(reflect.ValueOf(want.Payload()), reflect.ValueOf(got.Payload()), "", omit); p != "" {
		fd.set("C04:roundtrip:"+typeKey(want.Payload())+":"+stripIdx(p), fmt.Sprintf("payload v%d %s: %s", want.PayloadVersion(), p, d))
		return
	}
	if p, d := diff(reflect.ValueOf(want.Attributes()), reflect.ValueOf(got.Attributes()), "", nil); p != "" {
		fd.set("C04:roundtrip:"+where+":Attributes"+stripIdx(p), p+": "+d)
		return
	}
	if p, d := diff(reflect.ValueOf(want.Inputs()), reflect.ValueOf(got.Inputs()), "", nil); p != "" {
		fd.set("C04:roundtrip:"+where+":Inputs"+stripIdx(p), p+": "+d)
		return
	}
	compareOutputs(fd, where, want.Version(), want.Outputs(), got.Outputs(), useTable)
	if fd.sig != "" {
		return
	}
	if p, d := diff(reflect.ValueOf(want.Programs()), reflect.ValueOf(got.Programs()), "", nil); p != "" {
		fd.set("C04:roundtrip:"+where+":Programs"+stripIdx(p), p+": "+d)
	}
}

// nontrivialTx: the payload has a non-empty variable-length field, or its
// type has none and the transaction carries at least one attribute / input /
// output / program.
func nontrivialTx(tx interfaces.Transaction) bool {
	ne, has := hasVarData(reflect.ValueOf(tx.Payload()))
	if ne {
		return true
	}
	if !has {
		return len(tx.Attributes())+len(tx.Inputs())+len(tx.Outputs())+len(tx.Programs()) > 0
	}
	return false
}

var (
	cellMu   sync.Mutex
	cellSeen = map[string]int{}
)

func countCell(tv gen.TypeVersion) {
	cellMu.Lock()
	cellSeen[fmt.Sprintf("%s/pv%d", tv.Name, tv.Version)]++
	cellMu.Unlock()
}

// ---------------------------------------------------------------- (a)(c)(d) transactions

// checkTx runs every transaction-level clause on one generated transaction.
func checkTx(t *rapid.T, tx interfaces.Transaction, unitClass string) {
	enc := gen.TxBytes(tx)
	if enc == nil {
		t.Fatalf("harness: generated transaction does not serialize (%s)", txClass(tx))
	}
	class := unitClass + "/" + txClass(tx)
	fd := &finding{}
	extra := map[string]any{}
	defer func() {
		vk.Case(class, nontrivialTx(tx), enc, renderTx(tx, enc, extra))
	}()
	report := func() bool {
		if fd.sig == "" {
			return false
		}
		if fd.sig == "harness" {
			t.Fatalf("harness: %s", fd.detail)
		}
		extra["detail"] = fd.detail
		vk.Report(t, fd.sig, fd.detail, renderTx(tx, enc, extra)())
		return true
	}

	// documented domain only
	if tx.Version() < ctypes.TxVersion09 && tx.TxType() > ctypes.TransferCrossChainAsset {
		class = unitClass + "/outside-domain/version0-type>=9"
		return
	}
	_, undecodable, err := omitFor(tx.Payload(), tx.PayloadVersion())
	if err != nil {
		t.Fatalf("harness: %v", err)
	}

	dec, n, derr := gen.DecodeTx(enc)
	if derr != nil {
		if undecodable {
			class = unitClass + "/undefined-version-undecodable/" + txClass(tx)
			return
		}
		fd.set("C04:decode-error:"+typeKey(tx.Payload()), fmt.Sprintf("own encoding rejected: %v", derr))
		report()
		return
	}
	if undecodable {
		// the table says this cannot decode; if it does, the table is stale
		t.Fatalf("harness: table marks %s v%d undecodable but it decoded", typeKey(tx.Payload()), tx.PayloadVersion())
	}
	if n != len(enc) {
		fd.set("C04:decode-short:"+typeKey(tx.Payload()), fmt.Sprintf("decoder consumed %d of %d bytes of the value's own encoding", n, len(enc)))
		report()
		return
	}
	// (a) value equality
	compareTx(fd, tx, dec, true)
	if report() {
		return
	}
	// encode idempotent
	if enc2 := gen.TxBytes(dec); !bytes.Equal(enc2, enc) {
		fd.set("C04:reencode-differs:"+typeKey(tx.Payload()), "encode(decode(encode(v))) != encode(v)")
		report()
		return
	}
	// (d) size
	if tx.GetSize() != len(enc) {
		fd.set("C04:GetSize:tx", fmt.Sprintf("GetSize %d != %d", tx.GetSize(), len(enc)))
		report()
		return
	}
	// (c) hash = sha256d(encoding without the program list)
	penc := encPrograms(tx.Programs())
	if !bytes.HasSuffix(enc, penc) {
		fd.set("C04:hash:program-list-not-suffix", "encoding does not end with the program list")
		report()
		return
	}
	unsigned := enc[:len(enc)-len(penc)]
	ubuf := new(bytes.Buffer)
	if err := tx.SerializeUnsigned(ubuf); err != nil || !bytes.Equal(ubuf.Bytes(), unsigned) {
		fd.set("C04:hash:SerializeUnsigned-not-prefix", fmt.Sprintf("SerializeUnsigned (err %v) is not the encoding minus programs", err))
		report()
		return
	}
	want := sha256d(unsigned)
	if h := tx.Hash(); h != want {
		fd.set("C04:hash:not-unsigned-digest", fmt.Sprintf("Hash %x != sha256d(unsigned) %x", h, want))
		report()
		return
	}
	if h := dec.Hash(); h != want {
		fd.set("C04:hash:decoded-differs", fmt.Sprintf("decoded Hash %x != %x", h, want))
		report()
		return
	}
	// programs replaced / removed / reordered on a fresh object (Hash caches)
	fresh, _, err := gen.DecodeTx(enc)
	if err != nil {
		t.Fatalf("harness: second decode failed: %v", err)
	}
	var other []*pg.Program
	kind := rapid.SampledFrom([]string{"remove", "replace", "reorder", "append"}).Draw(t, "progChange")
	f := gen.NewFiller(t, nil)
	switch kind {
	case "remove":
	case "replace":
		for range tx.Programs() {
			other = append(other, f.GenProgram())
		}
		other = append(other, f.GenProgram())
	case "reorder":
		for i := len(tx.Programs()) - 1; i >= 0; i-- {
			other = append(other, tx.Programs()[i])
		}
	default:
		other = append(append(other, tx.Programs()...), f.GenProgram())
	}
	extra["programChange"] = kind
	fresh.SetPrograms(other)
	if h := fresh.Hash(); h != want {
		fd.set("C04:hash:depends-on-programs", fmt.Sprintf("Hash %x after programs %s, was %x", h, kind, want))
		report()
		return
	}
	if e := gen.TxBytes(fresh); !bytes.Equal(e, append(append([]byte(nil), unsigned...), encPrograms(other)...)) {
		fd.set("C04:hash:unsigned-part-depends-on-programs", "encoding after a program change is not unsigned || programs")
		report()
		return
	}
	vk.Class("progchange/" + kind)
	vk.Class(fmt.Sprintf("txversion/%d", tx.Version()))
	for _, o := range tx.Outputs() {
		if tx.Version() >= ctypes.TxVersion09 {
			vk.Class(fmt.Sprintf("outtype/%d", o.Type))
		}
	}
}

func thoroughBudget() int {
	if vk.Thorough() {
		return 70000
	}
	return 300
}

// txCell is one cell of the transaction unit: a (type, payload version) of the
// grid, and for CRC proposals additionally one codec branch.
type txCell struct {
	gen.TypeVersion
	proposal *payload.CRCProposalType
}

func txCells() []txCell {
	var cells []txCell
	for _, c := range gen.Grid() {
		cells = append(cells, txCell{TypeVersion: c})
		if c.Type == ctypes.CRCProposal {
			for _, pt := range []payload.CRCProposalType{payload.ChangeProposalOwner, payload.CloseProposal,
				payload.SecretaryGeneral, payload.MainChainUpgradeCode, payload.DIDUpgradeCode, payload.ETHUpgradeCode, payload.ReserveCustomID,
				payload.ReceiveCustomID, payload.ChangeCustomIDFee, payload.RegisterSideChain, payload.ELIP} {
				pt := pt
				cells = append(cells, txCell{TypeVersion: c, proposal: &pt})
			}
		}
	}
	return cells
}

// buildCellTx draws a transaction of the cell: 85% the defined version, 10% an
// undefined payload version, 5% version 0 with any type (outside the domain
// for types >= 9: counted, not judged).
func buildCellTx(t *rapid.T, cell txCell, budget int) interfaces.Transaction {
	f := gen.NewFiller(t, nil)
	f.Budget = budget
	if cell.proposal != nil {
		f.Hook = func(_ *gen.Filler, typeName, field string, v reflect.Value) bool {
			if typeName == "CRCProposal" && field == "ProposalType" {
				v.SetUint(uint64(*cell.proposal))
				return true
			}
			return false
		}
	}
	pv := cell.Version
	tv := ctypes.TransactionVersion(9)
	if cell.Type <= ctypes.TransferCrossChainAsset {
		tv = rapid.SampledFrom([]ctypes.TransactionVersion{0, 9, 0, 9, 10, 0xff}).Draw(t, "txVersion")
	} else {
		tv = rapid.SampledFrom([]ctypes.TransactionVersion{9, 9, 9, 10, 0x80, 0xff}).Draw(t, "txVersion")
	}
	switch k := gen.UniformIndex(t, 20, "domainKind"); {
	case k == 0:
		tv = 0
	case k <= 2:
		spec := gen.SpecOf(cell.Type)
		max := spec.Versions[len(spec.Versions)-1]
		pv = rapid.SampledFrom([]byte{max + 1, max + 2, 0x7f, 0xff}).Draw(t, "undefVer")
	}
	opts := &gen.TxOpts{Budget: budget}
	switch gen.UniformIndex(t, 96, "manyKind") {
	case 0:
		// list counts across the one-byte varint limit (0xfd): rapid's ranges
		// favour their bounds, so ~260 elements are drawn often enough
		opts.MaxAttrs, opts.MaxInputs, opts.MaxOutputs, opts.MaxPrograms = 260, 260, 260, 260
		opts.OutputTypes = []ctypes.OutputType{ctypes.OTNone}
		vk.Class("tx-many-elements")
	case 1:
		opts.MaxOutputs = 2
		f.MaxTopElems = 260
		vk.Class("payload-many-elements")
	}
	return f.BuildTx(tv, cell.Type, pv, opts)
}

func TestTxRoundTrip(t *testing.T) {
	grid := gen.Grid()
	cells := txCells()
	n := 0
	rapid.Check(t, func(t *rapid.T) {
		n++
		// cells uniformly, so that no (type, version) stays empty
		cell := cells[gen.UniformIndex(t, len(cells), "cell")]
		countCell(cell.TypeVersion)
		checkTx(t, buildCellTx(t, cell, thoroughBudget()), "tx")
	})
	if n >= 40*len(cells) {
		var empty []string
		for _, c := range grid {
			if cellSeen[fmt.Sprintf("%s/pv%d", c.Name, c.Version)] == 0 {
				empty = append(empty, fmt.Sprintf("%s/pv%d", c.Name, c.Version))
			}
		}
		if len(empty) > 0 {
			t.Fatalf("harness: generator degraded, empty (type, version) cells: %v", empty)
		}
	}
}

// TestGrid: exhaustive (type, version) grid, -rapid.checks fills per cell
// (thorough tier; cells are partitioned over shards).
func TestGrid(t *testing.T) {
	cells := txCells()
	shard, nshards := vk.Shard()
	for i, cell := range cells {
		if i%nshards != shard {
			continue
		}
		cell := cell
		name := fmt.Sprintf("%s-pv%d", cell.Name, cell.Version)
		if cell.proposal != nil {
			name += fmt.Sprintf("-pt%04x", uint16(*cell.proposal))
		}
		t.Run(name, func(t *testing.T) {
			rapid.Check(t, func(t *rapid.T) {
				f := gen.NewFiller(t, nil)
				if cell.proposal != nil {
					f.Hook = func(_ *gen.Filler, typeName, field string, v reflect.Value) bool {
						if typeName == "CRCProposal" && field == "ProposalType" {
							v.SetUint(uint64(*cell.proposal))
							return true
						}
						return false
					}
				}
				tv := ctypes.TransactionVersion(9)
				if cell.Type <= ctypes.TransferCrossChainAsset && rapid.Bool().Draw(t, "txv0") {
					tv = 0
				}
				checkTx(t, f.BuildTx(tv, cell.Type, cell.Version, &gen.TxOpts{Budget: 300}), "grid")
			})
		})
	}
}

// ---------------------------------------------------------------- (b) decoded values

func TestDecodedReencode(t *testing.T) {
	rapid.Check(t, func(t *rapid.T) {
		o := gen.TxOpts{UndefinedVersions: true}
		tx := gen.GenTx(t, o)
		enc := gen.TxBytes(tx)
		if enc == nil {
			t.Fatalf("harness: generated transaction does not serialize")
		}
		mut := gen.MutateN(t, enc, 3)
		class := "decoded/undecodable"
		nt := false
		var dec interfaces.Transaction
		defer func() {
			vk.Case(class, nt, mut, func() any {
				return map[string]any{"from": txClass(tx), "mutated": fmt.Sprintf("%x", mut)}
			})
		}()
		var n int
		var err error
		panicked, pv, frame := vk.Catch(func() { dec, n, err = gen.DecodeTx(mut) })
		if panicked {
			// C02's business; do not fail C04 for it
			class = "decoded/decoder-panic(" + frame + ")"
			_ = pv
			return
		}
		if err != nil {
			return
		}
		class = "decoded/ok/" + txClass(dec)
		nt = !bytes.Equal(mut, enc)
		rend := map[string]any{"from": txClass(tx), "mutated": fmt.Sprintf("%x", mut), "consumed": n}
		fd := &finding{}
		e1 := gen.TxBytes(dec)
		if e1 == nil {
			buf := new(bytes.Buffer)
			err := dec.Serialize(buf)
			vk.Report(t, "C04:decoded:reencode-error:"+typeKey(dec.Payload()), fmt.Sprintf("decoded value does not encode: %v", err), rend)
			return
		}
		dec2, n2, err := gen.DecodeTx(e1)
		if err != nil {
			vk.Report(t, "C04:decoded:redecode-error:"+typeKey(dec.Payload()), fmt.Sprintf("encoding of a decoded value does not decode: %v", err), rend)
			return
		}
		if n2 != len(e1) {
			vk.Report(t, "C04:decoded:redecode-short:"+typeKey(dec.Payload()), fmt.Sprintf("consumed %d of %d", n2, len(e1)), rend)
			return
		}
		compareTx(fd, dec, dec2, false)
		if fd.sig != "" {
			vk.Report(t, strings.Replace(fd.sig, "C04:roundtrip:", "C04:decoded:roundtrip:", 1), fd.detail, rend)
			return
		}
		if dec.Hash() != dec2.Hash() {
			vk.Report(t, "C04:decoded:hash-differs:"+typeKey(dec.Payload()), "hash changed across re-encoding", rend)
			return
		}
		if e2 := gen.TxBytes(dec2); !bytes.Equal(e2, e1) {
			vk.Report(t, "C04:decoded:reencode-not-idempotent:"+typeKey(dec.Payload()), "encode(decode(e1)) != e1", rend)
			return
		}
		if dec.GetSize() != len(e1) {
			vk.Report(t, "C04:GetSize:tx", fmt.Sprintf("GetSize %d != %d", dec.GetSize(), len(e1)), rend)
		}
	})
}

// ---------------------------------------------------------------- blocks, headers

type serializable interface {
	Serialize(w io.Writer) error
	Deserialize(r io.Reader) error
}

func encode(t *rapid.T, s serializable, what string) []byte {
	buf := new(bytes.Buffer)
	if err := s.Serialize(buf); err != nil {
		t.Fatalf("harness: %s does not serialize: %v", what, err)
	}
	return append([]byte(nil), buf.Bytes()...)
}

func compareBlocks(fd *finding, want, got *types.Block) {
	if p, d := diff(reflect.ValueOf(want.Header), reflect.ValueOf(got.Header), "", nil); p != "" {
		fd.set("C04:roundtrip:block:Header"+stripIdx(p), p+": "+d)
		return
	}
	if len(want.Transactions) != len(got.Transactions) {
		fd.set("C04:roundtrip:block:Transactions:length", fmt.Sprintf("%d != %d", len(want.Transactions), len(got.Transactions)))
		return
	}
	for i := range want.Transactions {
		compareTx(fd, want.Transactions[i], got.Transactions[i], true)
		if fd.sig != "" {
			fd.detail = fmt.Sprintf("tx %d: %s", i, fd.detail)
			return
		}
	}
}

func TestBlockRoundTrip(t *testing.T) {
	rapid.Check(t, func(t *rapid.T) {
		maxTx := 6
		if vk.Thorough() {
			maxTx = 24
		}
		db := gen.GenDposBlock(t, gen.TxOpts{}, 0, maxTx)
		enc := encode(t, db, "DposBlock")
		class := fmt.Sprintf("block/txs=%d/confirm=%v/aux=%v", bucket(len(db.Transactions)), db.HaveConfirm, len(db.AuxPow.ParCoinbaseTx.TxIn)+len(db.AuxPow.AuxMerkleBranch)+len(db.AuxPow.ParCoinBaseMerkle) > 0)
		rend := func() any {
			return map[string]any{"dposblock": fmt.Sprintf("%x", enc), "txs": len(db.Transactions), "haveConfirm": db.HaveConfirm}
		}
		defer func() { vk.Case(class, len(db.Transactions) > 0, enc, rend) }()
		fd := &finding{}
		fail := func() bool {
			if fd.sig == "" {
				return false
			}
			if fd.sig == "harness" {
				t.Fatalf("harness: %s", fd.detail)
			}
			vk.Report(t, fd.sig, fd.detail, rend())
			return true
		}

		// DposBlock
		var d2 types.DposBlock
		r := bytes.NewReader(enc)
		if err := d2.Deserialize(r); err != nil {
			fd.set("C04:decode-error:types.DposBlock", err.Error())
			fail()
			return
		}
		if r.Len() != 0 {
			fd.set("C04:decode-short:types.DposBlock", fmt.Sprintf("%d bytes left", r.Len()))
			fail()
			return
		}
		compareBlocks(fd, db.Block, d2.Block)
		if fail() {
			return
		}
		if db.HaveConfirm != d2.HaveConfirm {
			fd.set("C04:roundtrip:dposblock:HaveConfirm", "flag differs")
		} else if db.HaveConfirm {
			if p, d := diff(reflect.ValueOf(db.Confirm), reflect.ValueOf(d2.Confirm), "", nil); p != "" {
				fd.set("C04:roundtrip:payload.Confirm:"+stripIdx(p), p+": "+d)
			}
		} else if d2.Confirm != nil {
			fd.set("C04:roundtrip:dposblock:Confirm", "confirm decoded without flag")
		}
		if fail() {
			return
		}
		if e2 := encode(t, &d2, "decoded DposBlock"); !bytes.Equal(e2, enc) {
			fd.set("C04:reencode-differs:types.DposBlock", "encode(decode(e)) != e")
			fail()
			return
		}
		if db.Hash() != d2.Hash() {
			fd.set("C04:hash:block-decoded-differs", "block hash changed across the round trip")
			fail()
			return
		}

		// plain Block, sizes, TxLoc
		benc := encode(t, db.Block, "Block")
		if !bytes.HasPrefix(enc, benc) {
			fd.set("C04:roundtrip:dposblock:block-not-prefix", "DposBlock encoding does not start with the Block encoding")
			fail()
			return
		}
		var b2 types.Block
		br := bytes.NewReader(benc)
		if err := b2.Deserialize(br); err != nil || br.Len() != 0 {
			fd.set("C04:decode-error:types.Block", fmt.Sprintf("err %v left %d", err, br.Len()))
			fail()
			return
		}
		compareBlocks(fd, db.Block, &b2)
		if fail() {
			return
		}
		if db.Block.GetSize() != len(benc) {
			fd.set("C04:GetSize:block", fmt.Sprintf("%d != %d", db.Block.GetSize(), len(benc)))
			fail()
			return
		}
		locs, err := db.Block.TxLoc()
		if err != nil || len(locs) != len(db.Transactions) {
			fd.set("C04:TxLoc:error", fmt.Sprintf("err %v, %d locs for %d txs", err, len(locs), len(db.Transactions)))
			fail()
			return
		}
		for i, l := range locs {
			if l.TxStart < 0 || l.TxLen < 0 || l.TxStart+l.TxLen > len(benc) {
				fd.set("C04:TxLoc:out-of-range", fmt.Sprintf("loc %d = %+v of %d", i, l, len(benc)))
				break
			}
			raw := benc[l.TxStart : l.TxStart+l.TxLen]
			tx, n, err := gen.DecodeTx(raw)
			if err != nil || n != len(raw) {
				fd.set("C04:TxLoc:slice-not-a-transaction", fmt.Sprintf("loc %d: err %v consumed %d of %d", i, err, n, len(raw)))
				break
			}
			compareTx(fd, db.Transactions[i], tx, true)
			if fd.sig != "" {
				fd.sig = "C04:TxLoc:" + fd.sig
				break
			}
			if !bytes.Equal(raw, gen.TxBytes(db.Transactions[i])) {
				fd.set("C04:TxLoc:slice-differs", fmt.Sprintf("loc %d is not the transaction's encoding", i))
				break
			}
		}
		if fail() {
			return
		}

		// header alone (with its auxpow), no-aux form, DPOSHeader
		henc := encode(t, &db.Header, "Header")
		var h2 ctypes.Header
		hr := bytes.NewReader(henc)
		if err := h2.Deserialize(hr); err != nil || hr.Len() != 0 {
			fd.set("C04:decode-error:common.Header", fmt.Sprintf("err %v left %d", err, hr.Len()))
		} else if p, d := diff(reflect.ValueOf(db.Header), reflect.ValueOf(h2), "", nil); p != "" {
			fd.set("C04:roundtrip:common.Header:"+stripIdx(p), p+": "+d)
		} else if db.Header.GetSize() != len(henc) {
			fd.set("C04:GetSize:header", fmt.Sprintf("%d != %d", db.Header.GetSize(), len(henc)))
		} else if h2.Hash() != db.Header.Hash() || h2.HashWithAux() != db.Header.HashWithAux() {
			fd.set("C04:hash:header-decoded-differs", "header hash changed")
		}
		if fail() {
			return
		}
		nbuf := new(bytes.Buffer)
		if err := db.Header.SerializeNoAux(nbuf); err != nil {
			t.Fatalf("harness: SerializeNoAux: %v", err)
		}
		var h3 ctypes.Header
		nr := bytes.NewReader(nbuf.Bytes())
		if err := h3.DeserializeNoAux(nr); err != nil || nr.Len() != 0 {
			fd.set("C04:decode-error:common.Header.NoAux", fmt.Sprintf("err %v left %d", err, nr.Len()))
		} else {
			h3.AuxPow = db.Header.AuxPow
			if p, d := diff(reflect.ValueOf(db.Header), reflect.ValueOf(h3), "", nil); p != "" {
				fd.set("C04:roundtrip:common.Header.NoAux:"+stripIdx(p), p+": "+d)
			} else if db.Header.Hash() != sha256d(nbuf.Bytes()) {
				fd.set("C04:hash:header-not-noaux-digest", "Header.Hash is not sha256d(SerializeNoAux)")
			}
		}
		if fail() {
			return
		}
		dh := types.DPOSHeader{Header: db.Header, HaveConfirm: db.HaveConfirm}
		if db.HaveConfirm {
			dh.Confirm = *db.Confirm
		}
		dhenc := encode(t, &dh, "DPOSHeader")
		var dh2 types.DPOSHeader
		dr := bytes.NewReader(dhenc)
		if err := dh2.Deserialize(dr); err != nil || dr.Len() != 0 {
			fd.set("C04:decode-error:types.DPOSHeader", fmt.Sprintf("err %v left %d", err, dr.Len()))
		} else if p, d := diff(reflect.ValueOf(dh), reflect.ValueOf(dh2), "", nil); p != "" {
			fd.set("C04:roundtrip:types.DPOSHeader:"+stripIdx(p), p+": "+d)
		}
		fail()
	})
}

func bucket(n int) int {
	switch {
	case n <= 2:
		return n
	case n <= 6:
		return 6
	}
	return 24
}

// ---------------------------------------------------------------- payloads and parts alone

func roundTripPlain(t *rapid.T, name string, orig, fresh serializable) (string, string) {
	enc := encode(t, orig, name)
	r := bytes.NewReader(enc)
	if err := fresh.Deserialize(r); err != nil {
		return "C04:decode-error:" + name, err.Error()
	}
	if r.Len() != 0 {
		return "C04:decode-short:" + name, fmt.Sprintf("%d bytes left", r.Len())
	}
	if p, d := diff(reflect.ValueOf(orig), reflect.ValueOf(fresh), "", nil); p != "" {
		return "C04:roundtrip:" + name + ":" + stripIdx(p), p + ": " + d
	}
	if e2 := encode(t, fresh, name); !bytes.Equal(e2, enc) {
		return "C04:reencode-differs:" + name, "encode(decode(e)) != e"
	}
	return "", ""
}

func TestPartsAlone(t *testing.T) {
	grid := gen.Grid()
	rapid.Check(t, func(t *rapid.T) {
		f := gen.NewFiller(t, nil)
		f.Budget = thoroughBudget()
		kind := rapid.IntRange(0, 9).Draw(t, "partKind")
		switch {
		case kind <= 5: // payload alone
			cell := grid[gen.UniformIndex(t, len(grid), "cell")]
			ver := cell.Version
			if rapid.IntRange(0, 9).Draw(t, "undef") == 0 {
				ver = rapid.SampledFrom([]byte{ver + 1, ver + 2, 0x7f, 0xff}).Draw(t, "undefVer")
			}
			p := f.Payload(cell.Type, ver)
			buf := new(bytes.Buffer)
			if err := p.Serialize(buf, ver); err != nil {
				t.Fatalf("harness: payload %s v%d does not serialize: %v", cell.Name, ver, err)
			}
			enc := append([]byte(nil), buf.Bytes()...)
			class := fmt.Sprintf("payload/%s/pv%d", cell.Name, ver)
			if v := variantOf(p); v != "" {
				class += "/" + v
			}
			ne, _ := hasVarData(reflect.ValueOf(p))
			rend := func() any {
				return map[string]any{"payload": typeKey(p), "version": ver, "encoding": fmt.Sprintf("%x", enc)}
			}
			defer func() { vk.Case(class, ne, append([]byte(class), enc...), rend) }()
			omit, undecodable, err := omitFor(p, ver)
			if err != nil {
				t.Fatalf("harness: %v", err)
			}
			q, err := interfaces.GetPayload(cell.Type, ver)
			if err != nil {
				t.Fatalf("harness: GetPayload: %v", err)
			}
			r := bytes.NewReader(enc)
			if err := q.Deserialize(r, ver); err != nil {
				if undecodable {
					class = "payload/undefined-version-undecodable/" + cell.Name
					return
				}
				vk.Report(t, "C04:decode-error:"+typeKey(p), fmt.Sprintf("v%d own encoding rejected: %v", ver, err), rend())
				return
			}
			if undecodable {
				t.Fatalf("harness: table says undecodable but decoded: %s v%d", typeKey(p), ver)
			}
			if r.Len() != 0 {
				vk.Report(t, "C04:decode-short:"+typeKey(p), fmt.Sprintf("v%d: %d bytes left", ver, r.Len()), rend())
				return
			}
			if pth, d := diff(reflect.ValueOf(p), reflect.ValueOf(q), "", omit); pth != "" {
				vk.Report(t, "C04:roundtrip:"+typeKey(p)+":"+stripIdx(pth), fmt.Sprintf("v%d %s: %s", ver, pth, d), rend())
				return
			}
			b2 := new(bytes.Buffer)
			if err := q.Serialize(b2, ver); err != nil || !bytes.Equal(b2.Bytes(), enc) {
				vk.Report(t, "C04:reencode-differs:"+typeKey(p), fmt.Sprintf("v%d err %v", ver, err), rend())
			}
		case kind == 6: // output payload alone
			ot := rapid.SampledFrom(gen.OutputTypes).Draw(t, "outType")
			p := f.OutputPayload(ot)
			enc := encode(t, p, "output payload")
			class := fmt.Sprintf("outputpayload/%d/%s", ot, strings.TrimPrefix(typeKey(p), "outputpayload."))
			ne, _ := hasVarData(reflect.ValueOf(p))
			rend := func() any {
				return map[string]any{"outputPayload": typeKey(p), "encoding": fmt.Sprintf("%x", enc)}
			}
			defer func() { vk.Case(class, ne || ot == ctypes.OTStake, append([]byte(class), enc...), rend) }()
			omit, _, err := omitFor(p, p.GetVersion())
			if err != nil {
				t.Fatalf("harness: %v", err)
			}
			q := gen.NewOutputPayload(ot)
			r := bytes.NewReader(enc)
			if err := q.Deserialize(r); err != nil || r.Len() != 0 {
				vk.Report(t, "C04:decode-error:"+typeKey(p), fmt.Sprintf("err %v left %d", err, r.Len()), rend())
				return
			}
			if pth, d := diff(reflect.ValueOf(p), reflect.ValueOf(q), "", omit); pth != "" {
				vk.Report(t, "C04:roundtrip:"+typeKey(p)+":"+stripIdx(pth), pth+": "+d, rend())
				return
			}
			if e2 := encode(t, q, "output payload"); !bytes.Equal(e2, enc) {
				vk.Report(t, "C04:reencode-differs:"+typeKey(p), "encode(decode(e)) != e", rend())
			}
		default: // self-contained parts
			type part struct {
				name        string
				orig, fresh serializable
			}
			var pt part
			switch rapid.IntRange(0, 12).Draw(t, "part") {
			case 0:
				pt = part{"payload.Confirm", f.GenConfirm(5), &payload.Confirm{}}
			case 1:
				o := &payload.DPOSProposal{}
				f.Fill(o)
				pt = part{"payload.DPOSProposal", o, &payload.DPOSProposal{}}
			case 2:
				o := &payload.DPOSProposalVote{}
				f.Fill(o)
				pt = part{"payload.DPOSProposalVote", o, &payload.DPOSProposalVote{}}
			case 3:
				pt = part{"program.Program", f.GenProgram(), &pg.Program{}}
			case 4:
				pt = part{"common.Attribute", gen.GenAttribute(t, f.Budget), &ctypes.Attribute{}}
			case 5:
				pt = part{"common.Input", gen.GenInput(t), &ctypes.Input{}}
			case 6:
				a := f.GenAuxPow()
				pt = part{"auxpow.AuxPow", &a, &auxpow.AuxPow{}}
			case 7:
				a := f.GenAuxPow()
				pt = part{"auxpow.BtcTx", &a.ParCoinbaseTx, &auxpow.BtcTx{}}
			case 8:
				a := f.GenAuxPow()
				pt = part{"auxpow.BtcHeader", &a.ParBlockHeader, &auxpow.BtcHeader{}}
			case 9:
				o := &payload.DetailedVoteInfo{}
				f.Fill(o)
				pt = part{"payload.DetailedVoteInfo", o, &payload.DetailedVoteInfo{}}
			case 10:
				o := &payload.NFTInfo{}
				f.Fill(o)
				pt = part{"payload.NFTInfo", o, &payload.NFTInfo{}}
			case 11:
				o := &ctypes.OutputInfo{}
				f.Fill(o)
				pt = part{"common.OutputInfo", o, &ctypes.OutputInfo{}}
			default:
				o := &ctypes.OutPoint{}
				f.Fill(o)
				pt = part{"common.OutPoint", o, &ctypes.OutPoint{}}
			}
			enc := encode(t, pt.orig, pt.name)
			ne, has := hasVarData(reflect.ValueOf(pt.orig))
			rend := func() any { return map[string]any{"part": pt.name, "encoding": fmt.Sprintf("%x", enc)} }
			defer func() { vk.Case("part/"+pt.name, ne || !has, append([]byte(pt.name), enc...), rend) }()
			if sig, detail := roundTripPlain(t, pt.name, pt.orig, pt.fresh); sig != "" {
				vk.Report(t, sig, detail, rend())
			}
		}
	})
}

// ---------------------------------------------------------------- replay of raw inputs

// TestReplayInput re-runs clause (b) on a raw transaction encoding (used by
// `vcheck --replay` for native-fuzz style inputs).
func TestReplayInput(t *testing.T) {
	p := os.Getenv("VERIF_REPLAY_INPUT")
	if p == "" {
		t.Skip("no VERIF_REPLAY_INPUT")
	}
	b, err := os.ReadFile(p)
	if err != nil {
		t.Fatalf("harness: %v", err)
	}
	dec, _, err := gen.DecodeTx(b)
	if err != nil {
		return
	}
	e1 := gen.TxBytes(dec)
	dec2, _, err := gen.DecodeTx(e1)
	if err != nil {
		vk.Report(t, "C04:decoded:redecode-error:"+typeKey(dec.Payload()), err.Error(), fmt.Sprintf("%x", b))
		return
	}
	fd := &finding{}
	compareTx(fd, dec, dec2, false)
	if fd.sig != "" {
		vk.Report(t, strings.Replace(fd.sig, "C04:roundtrip:", "C04:decoded:roundtrip:", 1), fd.detail, fmt.Sprintf("%x", b))
	}
}
