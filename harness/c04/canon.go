package c04

import (
	"fmt"
	"math/big"
	"reflect"
	"regexp"
	"strings"
)

// omitSet is a set of field paths (indices stripped: "Contents[].Votes") the
// codec intentionally does not carry for the value being compared.  A path
// covers everything below it.
type omitSet map[string]bool

var idxRe = regexp.MustCompile(`\[\d+\]`)

func (o omitSet) has(path string) bool {
	if len(o) == 0 {
		return false
	}
	p := idxRe.ReplaceAllString(path, "[]")
	p = strings.TrimPrefix(p, ".")
	for {
		if o[p] {
			return true
		}
		i := strings.LastIndexAny(p, ".[")
		if i < 0 {
			return false
		}
		p = p[:i]
	}
}

// diff compares want (the original) with got (the decoded value) and returns
// the path and a description of the first difference ("" if equal).
//
//   - nil and empty slices are equal (the codec cannot tell them apart);
//   - unexported fields are ignored (hash caches);
//   - below an omitted path the original is ignored and the decoded value must
//     be the zero value (the codec must not invent data there).
func diff(want, got reflect.Value, path string, omit omitSet) (string, string) {
	if omit.has(path) {
		if !isZeroish(got) {
			return path, fmt.Sprintf("codec-omitted field decoded to non-zero value %s", short(got))
		}
		return "", ""
	}
	if !want.IsValid() || !got.IsValid() {
		if want.IsValid() != got.IsValid() {
			return path, "one side invalid"
		}
		return "", ""
	}
	if want.Type() != got.Type() {
		return path, fmt.Sprintf("type %s != %s", want.Type(), got.Type())
	}
	switch want.Kind() {
	case reflect.Interface:
		if want.IsNil() || got.IsNil() {
			if want.IsNil() != got.IsNil() {
				return path, fmt.Sprintf("interface nil mismatch: want nil=%v got nil=%v", want.IsNil(), got.IsNil())
			}
			return "", ""
		}
		return diff(want.Elem(), got.Elem(), path, omit)
	case reflect.Ptr:
		if want.IsNil() || got.IsNil() {
			if want.IsNil() != got.IsNil() {
				return path, fmt.Sprintf("pointer nil mismatch: want nil=%v got nil=%v", want.IsNil(), got.IsNil())
			}
			return "", ""
		}
		if want.Type() == reflect.TypeOf((*big.Int)(nil)) {
			if want.Interface().(*big.Int).Cmp(got.Interface().(*big.Int)) != 0 {
				return path, "big.Int differs"
			}
			return "", ""
		}
		return diff(want.Elem(), got.Elem(), path, omit)
	case reflect.Struct:
		t := want.Type()
		for i := 0; i < t.NumField(); i++ {
			if t.Field(i).PkgPath != "" {
				continue
			}
			if p, d := diff(want.Field(i), got.Field(i), path+"."+t.Field(i).Name, omit); p != "" {
				return p, d
			}
		}
		return "", ""
	case reflect.Slice:
		if want.Len() != got.Len() {
			return path, fmt.Sprintf("length %d != %d", want.Len(), got.Len())
		}
		if want.Type().Elem().Kind() == reflect.Uint8 {
			if string(want.Bytes()) != string(got.Bytes()) {
				return path, fmt.Sprintf("bytes %x != %x", clip(want.Bytes()), clip(got.Bytes()))
			}
			return "", ""
		}
		for i := 0; i < want.Len(); i++ {
			if p, d := diff(want.Index(i), got.Index(i), fmt.Sprintf("%s[%d]", path, i), omit); p != "" {
				return p, d
			}
		}
		return "", ""
	case reflect.Array:
		for i := 0; i < want.Len(); i++ {
			if p, d := diff(want.Index(i), got.Index(i), fmt.Sprintf("%s[%d]", path, i), omit); p != "" {
				// arrays of bytes (hashes): report the array, not the byte
				if want.Type().Elem().Kind() == reflect.Uint8 {
					return path, fmt.Sprintf("%x != %x", arrBytes(want), arrBytes(got))
				}
				return p, d
			}
		}
		return "", ""
	case reflect.String:
		if want.String() != got.String() {
			return path, fmt.Sprintf("%q != %q", clipS(want.String()), clipS(got.String()))
		}
	case reflect.Bool:
		if want.Bool() != got.Bool() {
			return path, fmt.Sprintf("%v != %v", want.Bool(), got.Bool())
		}
	case reflect.Int, reflect.Int8, reflect.Int16, reflect.Int32, reflect.Int64:
		if want.Int() != got.Int() {
			return path, fmt.Sprintf("%d != %d", want.Int(), got.Int())
		}
	case reflect.Uint, reflect.Uint8, reflect.Uint16, reflect.Uint32, reflect.Uint64, reflect.Uintptr:
		if want.Uint() != got.Uint() {
			return path, fmt.Sprintf("%d != %d", want.Uint(), got.Uint())
		}
	case reflect.Float32, reflect.Float64:
		if want.Float() != got.Float() {
			return path, "float differs"
		}
	case reflect.Func, reflect.Chan, reflect.Map, reflect.UnsafePointer:
		// not part of any wire value
	}
	return "", ""
}

func arrBytes(v reflect.Value) []byte {
	b := make([]byte, v.Len())
	for i := range b {
		b[i] = byte(v.Index(i).Uint())
	}
	return b
}

func clip(b []byte) []byte {
	if len(b) > 40 {
		return b[:40]
	}
	return b
}

func clipS(s string) string {
	if len(s) > 40 {
		return s[:40]
	}
	return s
}

func short(v reflect.Value) string {
	s := fmt.Sprintf("%+v", v.Interface())
	if len(s) > 80 {
		s = s[:80]
	}
	return s
}

// isZeroish: zero value, with empty slices / strings and pointers to zeroish
// values counted as zero.
func isZeroish(v reflect.Value) bool {
	if !v.IsValid() {
		return true
	}
	switch v.Kind() {
	case reflect.Ptr, reflect.Interface:
		if v.IsNil() {
			return true
		}
		return isZeroish(v.Elem())
	case reflect.Slice, reflect.String, reflect.Map:
		if v.Len() == 0 {
			return true
		}
		return false
	case reflect.Struct:
		t := v.Type()
		for i := 0; i < v.NumField(); i++ {
			if t.Field(i).PkgPath != "" {
				continue
			}
			if !isZeroish(v.Field(i)) {
				return false
			}
		}
		return true
	case reflect.Array:
		for i := 0; i < v.Len(); i++ {
			if !isZeroish(v.Index(i)) {
				return false
			}
		}
		return true
	}
	return v.IsZero()
}

// hasVarData reports whether the value has at least one non-empty
// variable-length field (slice or string) anywhere, and whether its type has
// any variable-length field at all.
func hasVarData(v reflect.Value) (nonEmpty, hasVarField bool) {
	if !v.IsValid() {
		return
	}
	switch v.Kind() {
	case reflect.Ptr, reflect.Interface:
		if v.IsNil() {
			return
		}
		return hasVarData(v.Elem())
	case reflect.Slice, reflect.String:
		return v.Len() > 0, true
	case reflect.Struct:
		t := v.Type()
		for i := 0; i < v.NumField(); i++ {
			if t.Field(i).PkgPath != "" {
				continue
			}
			n, h := hasVarData(v.Field(i))
			nonEmpty = nonEmpty || n
			hasVarField = hasVarField || h
		}
	}
	return
}
