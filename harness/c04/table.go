package c04

import (
	_ "embed"
	"encoding/json"
	"fmt"
	"reflect"
	"strconv"
	"strings"

	"github.com/elastos/Elastos.ELA/core/types/outputpayload"
	"github.com/elastos/Elastos.ELA/core/types/payload"
)

//go:embed c04_unserialized_fields.json
var tableJSON []byte

type rule struct {
	Variant     string   `json:"variant"`
	Versions    string   `json:"versions"`
	Omit        []string `json:"omit"`
	Carry       []string `json:"carry"`
	Undecodable bool     `json:"undecodable"`
	lo, hi      int
}

var table map[string][]*rule

func init() {
	var doc struct {
		Types map[string][]*rule `json:"types"`
	}
	if err := json.Unmarshal(tableJSON, &doc); err != nil {
		panic("c04: bad table: " + err.Error())
	}
	for name, rules := range doc.Types {
		for _, r := range rules {
			switch {
			case r.Versions == "*":
				r.lo, r.hi = 0, 255
			case strings.Contains(r.Versions, "-"):
				p := strings.SplitN(r.Versions, "-", 2)
				r.lo, _ = strconv.Atoi(p[0])
				r.hi, _ = strconv.Atoi(p[1])
			default:
				v, err := strconv.Atoi(r.Versions)
				if err != nil {
					panic("c04: bad versions in table for " + name)
				}
				r.lo, r.hi = v, v
			}
			if r.Omit != nil && r.Carry != nil {
				panic("c04: rule has both omit and carry: " + name)
			}
		}
	}
	table = doc.Types
}

// variantOf names the codec branch of a value for types whose wire form
// depends on a field of the value itself.
func variantOf(v any) string {
	switch p := v.(type) {
	case *payload.CRCProposal:
		switch p.ProposalType {
		case payload.ChangeProposalOwner:
			return "changeowner"
		case payload.CloseProposal:
			return "close"
		case payload.SecretaryGeneral:
			return "secretary"
		case payload.MainChainUpgradeCode, payload.DIDUpgradeCode, payload.ETHUpgradeCode:
			return "upgrade"
		case payload.ReserveCustomID:
			return "reserve"
		case payload.ReceiveCustomID:
			return "receive"
		case payload.ChangeCustomIDFee:
			return "fee"
		case payload.RegisterSideChain:
			return "sidechain"
		}
		return "normal"
	case *outputpayload.VoteOutput:
		if p.Version == 0 {
			return "v0"
		}
		return "v1+"
	}
	return ""
}

// typeKey is "pkg.Type" of the pointed-to value.
func typeKey(v any) string {
	t := reflect.TypeOf(v)
	for t.Kind() == reflect.Ptr {
		t = t.Elem()
	}
	return t.String()
}

// omitFor returns the omitted-path set for value v at version (harness error
// if the table has no unique rule: the table must cover the generated domain).
func omitFor(v any, version byte) (omitSet, bool, error) {
	key := typeKey(v)
	rules, ok := table[key]
	if !ok {
		return nil, false, fmt.Errorf("no table entry for %s", key)
	}
	variant := variantOf(v)
	var hit *rule
	for _, r := range rules {
		if r.Variant == variant && int(version) >= r.lo && int(version) <= r.hi {
			if hit != nil {
				return nil, false, fmt.Errorf("two table rules match %s v%d %q", key, version, variant)
			}
			hit = r
		}
	}
	if hit == nil {
		return nil, false, fmt.Errorf("no table rule matches %s v%d %q", key, version, variant)
	}
	set := omitSet{}
	if hit.Carry != nil {
		carried := map[string]bool{}
		for _, c := range hit.Carry {
			carried[c] = true
		}
		t := reflect.TypeOf(v)
		for t.Kind() == reflect.Ptr {
			t = t.Elem()
		}
		for i := 0; i < t.NumField(); i++ {
			f := t.Field(i)
			if f.PkgPath != "" {
				continue
			}
			if !carried[f.Name] {
				set[f.Name] = true
			}
			delete(carried, f.Name)
		}
		if len(carried) != 0 {
			return nil, false, fmt.Errorf("table carries unknown fields of %s: %v", key, carried)
		}
	} else {
		t := reflect.TypeOf(v)
		for t.Kind() == reflect.Ptr {
			t = t.Elem()
		}
		for _, o := range hit.Omit {
			top := o
			if i := strings.IndexAny(o, ".["); i >= 0 {
				top = o[:i]
			}
			if _, ok := t.FieldByName(top); !ok {
				return nil, false, fmt.Errorf("table omits unknown field %s of %s", o, key)
			}
			set[o] = true
		}
	}
	return set, hit.Undecodable, nil
}
