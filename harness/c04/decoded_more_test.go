package c04

import (
	"bytes"
	"fmt"
	"reflect"
	"testing"

	"github.com/elastos/Elastos.ELA/core/types"
	"github.com/elastos/Elastos.ELA/core/types/interfaces"
	"pgregory.net/rapid"
	"verifharness/gen"
	"verifharness/lib/vk"
)

// TestDecodedBlocksAndPayloads: clause (b) for blocks and bare payloads - a
// mutated encoding that still decodes re-encodes to bytes that decode to the
// same value (compared without the table: both sides are decoded), with the
// same block hash, and re-encoding is idempotent.
func TestDecodedBlocksAndPayloads(t *testing.T) {
	grid := gen.Grid()
	rapid.Check(t, func(t *rapid.T) {
		if rapid.Bool().Draw(t, "block") {
			db := gen.GenDposBlock(t, gen.TxOpts{MaxAttrs: 2, MaxInputs: 2, MaxOutputs: 3, MaxPrograms: 2}, 0, 3)
			enc := encode(t, db, "DposBlock")
			mut := gen.MutateN(t, enc, 3)
			class, nt := "decoded-block/undecodable", false
			rend := func() any { return map[string]any{"mutatedDposBlock": fmt.Sprintf("%x", mut)} }
			defer func() { vk.Case(class, nt, mut, rend) }()
			var d1 types.DposBlock
			var err error
			if p, _, fr := vk.Catch(func() { err = d1.Deserialize(bytes.NewReader(mut)) }); p {
				class = "decoded-block/decoder-panic(" + fr + ")" // C02's business
				return
			}
			if err != nil {
				return
			}
			class, nt = fmt.Sprintf("decoded-block/ok/txs=%d/confirm=%v", bucket(len(d1.Transactions)), d1.HaveConfirm), !bytes.Equal(mut, enc)
			buf := new(bytes.Buffer)
			if err := d1.Serialize(buf); err != nil {
				vk.Report(t, "C04:decoded:reencode-error:types.DposBlock", err.Error(), rend())
				return
			}
			e1 := append([]byte(nil), buf.Bytes()...)
			var d2 types.DposBlock
			r := bytes.NewReader(e1)
			if err := d2.Deserialize(r); err != nil || r.Len() != 0 {
				vk.Report(t, "C04:decoded:redecode-error:types.DposBlock", fmt.Sprintf("err %v, %d bytes left", err, r.Len()), rend())
				return
			}
			fd := &finding{}
			if p, d := diff(reflect.ValueOf(d1.Header), reflect.ValueOf(d2.Header), "", nil); p != "" {
				fd.set("C04:decoded:roundtrip:block:Header"+stripIdx(p), p+": "+d)
			} else if len(d1.Transactions) != len(d2.Transactions) {
				fd.set("C04:decoded:roundtrip:block:Transactions:length", "count differs")
			} else {
				for i := range d1.Transactions {
					compareTx(fd, d1.Transactions[i], d2.Transactions[i], false)
					if fd.sig != "" {
						fd.sig = "C04:decoded:" + fd.sig[len("C04:"):]
						break
					}
				}
			}
			if fd.sig == "" {
				if d1.HaveConfirm != d2.HaveConfirm {
					fd.set("C04:decoded:roundtrip:dposblock:HaveConfirm", "flag differs")
				} else if p, d := diff(reflect.ValueOf(d1.Confirm), reflect.ValueOf(d2.Confirm), "", nil); p != "" {
					fd.set("C04:decoded:roundtrip:payload.Confirm:"+stripIdx(p), p+": "+d)
				} else if d1.Hash() != d2.Hash() {
					fd.set("C04:decoded:hash-differs:types.DposBlock", "block hash changed across re-encoding")
				}
			}
			if fd.sig != "" {
				vk.Report(t, fd.sig, fd.detail, rend())
				return
			}
			b2 := new(bytes.Buffer)
			if err := d2.Serialize(b2); err != nil || !bytes.Equal(b2.Bytes(), e1) {
				vk.Report(t, "C04:decoded:reencode-not-idempotent:types.DposBlock", fmt.Sprintf("err %v", err), rend())
			}
			return
		}

		// bare payload
		cell := grid[gen.UniformIndex(t, len(grid), "cell")]
		ver := cell.Version
		f := gen.NewFiller(t, nil)
		p0 := f.Payload(cell.Type, ver)
		buf := new(bytes.Buffer)
		if err := p0.Serialize(buf, ver); err != nil {
			t.Fatalf("harness: payload %s v%d does not serialize: %v", cell.Name, ver, err)
		}
		enc := append([]byte(nil), buf.Bytes()...)
		mut := gen.MutateN(t, enc, 3)
		class, nt := "decoded-payload/undecodable", false
		rend := func() any {
			return map[string]any{"payload": typeKey(p0), "version": ver, "mutated": fmt.Sprintf("%x", mut)}
		}
		defer func() { vk.Case(class, nt, append([]byte(cell.Name), mut...), rend) }()
		p1, _ := interfaces.GetPayload(cell.Type, ver)
		var err error
		r1 := bytes.NewReader(mut)
		if p, _, fr := vk.Catch(func() { err = p1.Deserialize(r1, ver) }); p {
			class = "decoded-payload/decoder-panic(" + fr + ")"
			return
		}
		if err != nil {
			return
		}
		class, nt = fmt.Sprintf("decoded-payload/ok/%s/pv%d", cell.Name, ver), !bytes.Equal(mut, enc) && len(mut) > 0
		b1 := new(bytes.Buffer)
		if err := p1.Serialize(b1, ver); err != nil {
			vk.Report(t, "C04:decoded:reencode-error:"+typeKey(p1), err.Error(), rend())
			return
		}
		e1 := append([]byte(nil), b1.Bytes()...)
		p2, _ := interfaces.GetPayload(cell.Type, ver)
		r2 := bytes.NewReader(e1)
		if err := p2.Deserialize(r2, ver); err != nil || r2.Len() != 0 {
			vk.Report(t, "C04:decoded:redecode-error:"+typeKey(p1), fmt.Sprintf("v%d err %v, %d bytes left", ver, err, r2.Len()), rend())
			return
		}
		if pth, d := diff(reflect.ValueOf(p1), reflect.ValueOf(p2), "", nil); pth != "" {
			vk.Report(t, "C04:decoded:roundtrip:"+typeKey(p1)+":"+stripIdx(pth), fmt.Sprintf("v%d %s: %s", ver, pth, d), rend())
			return
		}
		b2 := new(bytes.Buffer)
		if err := p2.Serialize(b2, ver); err != nil || !bytes.Equal(b2.Bytes(), e1) {
			vk.Report(t, "C04:decoded:reencode-not-idempotent:"+typeKey(p1), fmt.Sprintf("v%d err %v", ver, err), rend())
		}
	})
}
