package canon

import (
	"math/big"
	"sync"
	"testing"
)

type inner struct {
	a    int
	b    []byte
	m    map[string]*inner
	self *outer
	f    func()
	mu   sync.Mutex
}

type iface interface{ X() int }
type implA struct{ v int }
type implB struct{ v int }

func (implA) X() int  { return 1 }
func (*implB) X() int { return 2 }

type outer struct {
	Name string
	in   inner
	List []iface
	M    map[[2]byte]int64
	Big  *big.Int
	F    float64
	arr  [3]uint16
}

func mk() *outer {
	o := &outer{Name: "x", List: []iface{implA{1}, &implB{2}}, M: map[[2]byte]int64{{1, 2}: 5, {0, 1}: 0}, Big: big.NewInt(77), F: 0.1}
	o.in = inner{a: 3, b: []byte{1, 2}, m: map[string]*inner{"k": {a: 9}}, self: o}
	o.arr = [3]uint16{1, 2, 3}
	return o
}

func TestEqualAndDiff(t *testing.T) {
	a, b := mk(), mk()
	if p, x, y := FirstDiff(a, b); p != "" {
		t.Fatalf("unexpected diff %s %s %s", p, x, y)
	}
	b.in.m["k"].a = 10
	p, x, y := FirstDiff(a, b)
	if p != "in.m[k].a" || x != "9" || y != "10" {
		t.Fatalf("got %q %q %q", p, x, y)
	}
	if Generalize(p) != "in.m[*].a" {
		t.Fatalf("gen %q", Generalize(p))
	}
	b = mk()
	b.List[1] = implA{2}
	p, _, _ = FirstDiff(a, b)
	if p != "List[1](type)" {
		t.Fatalf("got %q", p)
	}
	// nil == empty
	b = mk()
	a.in.b, b.in.b = nil, []byte{}
	a.in.m, b.in.m = nil, map[string]*inner{}
	if !Equal(a, b) {
		p, x, y := FirstDiff(a, b)
		t.Fatalf("nil!=empty: %s %s %s", p, x, y)
	}
	// zero entry
	b = mk()
	a = mk()
	delete(b.M, [2]byte{0, 1})
	if Equal(a, b) {
		t.Fatalf("strict mode must see the zero entry")
	}
	o := &Options{ZeroEntryAbsent: true}
	if p, _, _ := o.FirstDiff(a, b); p != "" {
		t.Fatalf("zero entry not ignored: %s", p)
	}
	// mask
	b = mk()
	b.in.a = 4
	b.Name = "y"
	d := &Differ{Mask: map[string]bool{"Name": true}}
	df := d.First(Dump(a), Dump(b))
	if df == nil || df.Path != "in.a" {
		t.Fatalf("mask: %+v", df)
	}
	if len((&Differ{}).All(Dump(a), Dump(b), 0)) != 2 {
		t.Fatalf("all")
	}
	if len(Dump(a).Lines()) == 0 || len(Dump(a).Hash()) != 32 {
		t.Fatalf("lines/hash")
	}
}

func TestSkipField(t *testing.T) {
	a, b := mk(), mk()
	b.in.a = 99
	o := &Options{SkipFields: []string{"inner.a"}}
	if p, _, _ := o.FirstDiff(a, b); p != "" {
		t.Fatalf("skip field: %s", p)
	}
}
