// Package canon renders any Go value as a canonical, deterministic tree so
// that two "states" can be compared structurally.
//
//   - every field is visited, exported or not (unexported ones through unsafe)
//   - maps are sorted by the rendering of their key
//   - a nil slice/map equals an empty one
//   - pointers are followed (a cycle guard cuts back-references)
//   - []byte / [N]byte are rendered as hex leaves
//   - big.Int by value, floats bit-exactly
//   - funcs, channels, sync.Mutex/RWMutex/Once/WaitGroup, unsafe pointers and
//     utils.History are skipped by type; further types/fields can be skipped
//     with Options
//
// The exported API is additive; other checks import it.
package canon

import (
	"crypto/sha256"
	"encoding/hex"
	"fmt"
	"math"
	"math/big"
	"reflect"
	"sort"
	"strconv"
	"strings"
	"unsafe"
)

// Kind of a tree node.
type Kind uint8

const (
	KLeaf Kind = iota
	KStruct
	KList
	KMap
)

// Node is one vertex of the canonical tree.
type Node struct {
	Kind Kind
	// Type is the concrete Go type name; it takes part in comparisons only for
	// values reached through an interface (TypeMatters).
	Type        string
	TypeMatters bool
	Leaf        string   // KLeaf
	Names       []string // KStruct: field names, KMap: rendered keys (sorted)
	Kids        []*Node  // KStruct/KMap: parallel to Names; KList: elements
}

// Options tunes a dump.  The zero value is the default behaviour.
type Options struct {
	// SkipTypes lists additional types skipped wherever they occur, written as
	// "pkgpath.Name" (e.g. "github.com/elastos/Elastos.ELA/utils.History") or
	// just "Name".
	SkipTypes []string
	// SkipFields lists struct fields to skip, written "TypeName.Field" (type
	// name without package) or "pkgpath.TypeName.Field".
	SkipFields []string
	// ZeroEntryAbsent drops map entries whose value is the zero value / an
	// empty collection, so that m[k]=0 compares equal to "k not in m".
	ZeroEntryAbsent bool
	// MaxDepth bounds recursion (default 64).
	MaxDepth int

	skipT map[string]bool
	skipF map[string]bool
}

var defaultSkipTypes = map[string]bool{
	"sync.Mutex":     true,
	"sync.RWMutex":   true,
	"sync.Once":      true,
	"sync.WaitGroup": true,
	"sync.Cond":      true,
	"sync.Map":       true,
	"sync.Pool":      true,
	"github.com/elastos/Elastos.ELA/utils.History": true,
}

func (o *Options) prepare() *Options {
	c := *o
	c.skipT = map[string]bool{}
	for k := range defaultSkipTypes {
		c.skipT[k] = true
	}
	for _, s := range o.SkipTypes {
		c.skipT[s] = true
	}
	c.skipF = map[string]bool{}
	for _, s := range o.SkipFields {
		c.skipF[s] = true
	}
	if c.MaxDepth <= 0 {
		c.MaxDepth = 64
	}
	return &c
}

func typeKey(t reflect.Type) (full, short string) {
	if t.Name() == "" {
		return "", ""
	}
	return t.PkgPath() + "." + t.Name(), t.Name()
}

func (o *Options) skipType(t reflect.Type) bool {
	switch t.Kind() {
	case reflect.Func, reflect.Chan, reflect.UnsafePointer:
		return true
	}
	full, short := typeKey(t)
	if full == "" {
		return false
	}
	return o.skipT[full] || o.skipT[short]
}

var (
	bigIntType = reflect.TypeOf(big.Int{})
)

type walker struct {
	o    *Options
	path map[uintptr]int // pointers on the current descent path (cycle guard)
	// per-type caches
	skipT  map[reflect.Type]bool
	fields map[reflect.Type][]fieldPlan
	names  map[reflect.Type]string
}

func (w *walker) typeName(t reflect.Type) string {
	if n, ok := w.names[t]; ok {
		return n
	}
	n := t.String()
	w.names[t] = n
	return n
}

type fieldPlan struct {
	idx  int
	name string
}

func (w *walker) skip(t reflect.Type) bool {
	if v, ok := w.skipT[t]; ok {
		return v
	}
	v := w.o.skipType(t)
	w.skipT[t] = v
	return v
}

func (w *walker) plan(t reflect.Type) []fieldPlan {
	if p, ok := w.fields[t]; ok {
		return p
	}
	full, short := typeKey(t)
	var p []fieldPlan
	for i := 0; i < t.NumField(); i++ {
		f := t.Field(i)
		if w.o.skipF[short+"."+f.Name] || w.o.skipF[full+"."+f.Name] {
			continue
		}
		if w.skip(f.Type) {
			continue
		}
		p = append(p, fieldPlan{i, f.Name})
	}
	w.fields[t] = p
	return p
}

// Dump renders v with default options.
func Dump(v any) *Node { return (&Options{}).Dump(v) }

// Dump renders v.
func (o *Options) Dump(v any) *Node {
	w := &walker{o: o.prepare(), path: map[uintptr]int{}, skipT: map[reflect.Type]bool{}, fields: map[reflect.Type][]fieldPlan{}, names: map[reflect.Type]string{}}
	if v == nil {
		return &Node{Kind: KLeaf, Leaf: "nil"}
	}
	rv := reflect.ValueOf(v)
	return w.walk(addressable(rv), 0)
}

// addressable returns a value equal to v that is addressable, so that
// unexported fields below it can be read through unsafe.
func addressable(v reflect.Value) reflect.Value {
	if v.CanAddr() {
		return v
	}
	n := reflect.New(v.Type()).Elem()
	n.Set(v)
	return n
}

// expose makes a (possibly unexported) field value readable.
func expose(v reflect.Value) reflect.Value {
	if v.CanInterface() {
		return v
	}
	if v.CanAddr() {
		return reflect.NewAt(v.Type(), unsafe.Pointer(v.UnsafeAddr())).Elem()
	}
	return v
}

func leaf(s string) *Node { return &Node{Kind: KLeaf, Leaf: s} }

func (w *walker) walk(v reflect.Value, depth int) *Node {
	if !v.IsValid() {
		return leaf("nil")
	}
	if depth > w.o.MaxDepth {
		return leaf("<max-depth>")
	}
	v = expose(v)
	t := v.Type()
	if w.skip(t) {
		return nil
	}
	switch t.Kind() {
	case reflect.Bool:
		return leaf(strconv.FormatBool(v.Bool()))
	case reflect.Int, reflect.Int8, reflect.Int16, reflect.Int32, reflect.Int64:
		return leaf(strconv.FormatInt(v.Int(), 10))
	case reflect.Uint, reflect.Uint8, reflect.Uint16, reflect.Uint32, reflect.Uint64, reflect.Uintptr:
		return leaf(strconv.FormatUint(v.Uint(), 10))
	case reflect.Float32, reflect.Float64:
		f := v.Float()
		return leaf(fmt.Sprintf("%v#%016x", f, math.Float64bits(f)))
	case reflect.Complex64, reflect.Complex128:
		return leaf(fmt.Sprintf("%v", v.Complex()))
	case reflect.String:
		return leaf(strconv.Quote(v.String()))
	case reflect.Pointer:
		if v.IsNil() {
			return leaf("nil")
		}
		p := v.Pointer()
		if w.path[p] > 0 {
			return leaf("<cycle>")
		}
		w.path[p]++
		n := w.walk(v.Elem(), depth+1)
		w.path[p]--
		return n
	case reflect.Interface:
		if v.IsNil() {
			return leaf("nil")
		}
		e := v.Elem()
		n := w.walk(addressable(e), depth+1)
		if n != nil {
			c := *n
			c.Type = concreteName(e.Type())
			c.TypeMatters = true
			return &c
		}
		return nil
	case reflect.Slice, reflect.Array:
		if t.Elem().Kind() == reflect.Uint8 {
			n := v.Len()
			var b []byte
			if t.Kind() == reflect.Slice {
				b = v.Bytes()
			} else if v.CanAddr() {
				b = v.Slice(0, n).Bytes()
			} else {
				b = make([]byte, n)
				for i := 0; i < n; i++ {
					b[i] = byte(v.Index(i).Uint())
				}
			}
			return leaf("0x" + hex.EncodeToString(b))
		}
		if w.skip(t.Elem()) {
			return nil
		}
		out := &Node{Kind: KList}
		for i := 0; i < v.Len(); i++ {
			k := w.walk(v.Index(i), depth+1)
			if k == nil {
				continue
			}
			out.Kids = append(out.Kids, k)
		}
		return out
	case reflect.Map:
		out := &Node{Kind: KMap}
		if w.skip(t.Elem()) {
			return nil
		}
		type ent struct {
			k string
			n *Node
		}
		var ents []ent
		it := v.MapRange()
		for it.Next() {
			kn := w.walk(addressable(it.Key()), depth+1)
			vn := w.walk(addressable(it.Value()), depth+1)
			if vn == nil {
				continue
			}
			if w.o.ZeroEntryAbsent && vn.isZero() {
				continue
			}
			ents = append(ents, ent{keyString(kn), vn})
		}
		sort.Slice(ents, func(i, j int) bool { return ents[i].k < ents[j].k })
		for _, e := range ents {
			out.Names = append(out.Names, e.k)
			out.Kids = append(out.Kids, e.n)
		}
		return out
	case reflect.Struct:
		if t == bigIntType {
			bi := v.Addr().Interface().(*big.Int)
			return leaf(bi.String())
		}
		pl := w.plan(t)
		out := &Node{Kind: KStruct, Type: w.typeName(t), Names: make([]string, 0, len(pl)), Kids: make([]*Node, 0, len(pl))}
		for _, f := range pl {
			k := w.walk(v.Field(f.idx), depth+1)
			if k == nil {
				continue
			}
			out.Names = append(out.Names, f.name)
			out.Kids = append(out.Kids, k)
		}
		return out
	}
	return leaf(fmt.Sprintf("<%s>", t.Kind()))
}

func concreteName(t reflect.Type) string {
	s := t.String()
	return s
}

// keyString renders a map key node as a single-line string.
func keyString(n *Node) string {
	if n == nil {
		return "<skipped>"
	}
	if n.Kind == KLeaf {
		s := n.Leaf
		if len(s) >= 2 && s[0] == '"' {
			if u, err := strconv.Unquote(s); err == nil {
				return u
			}
		}
		return s
	}
	return n.String()
}

// isZero reports whether the node renders a zero value / empty collection.
func (n *Node) isZero() bool {
	switch n.Kind {
	case KLeaf:
		switch n.Leaf {
		case "0", "false", `""`, "nil", "0x":
			return true
		}
		if strings.HasPrefix(n.Leaf, "0#") {
			return true
		}
		if strings.HasPrefix(n.Leaf, "0x") {
			for _, c := range n.Leaf[2:] {
				if c != '0' {
					return false
				}
			}
			return true
		}
		return false
	case KList, KMap:
		return len(n.Kids) == 0
	case KStruct:
		for _, k := range n.Kids {
			if !k.isZero() {
				return false
			}
		}
		return true
	}
	return false
}

// String renders the tree on one line (deterministic).
func (n *Node) String() string {
	var sb strings.Builder
	n.write(&sb)
	return sb.String()
}

func (n *Node) write(sb *strings.Builder) {
	if n == nil {
		sb.WriteString("<skipped>")
		return
	}
	if n.TypeMatters {
		sb.WriteString("(" + n.Type + ")")
	}
	switch n.Kind {
	case KLeaf:
		sb.WriteString(n.Leaf)
	case KStruct:
		sb.WriteByte('{')
		for i, k := range n.Kids {
			if i > 0 {
				sb.WriteByte(' ')
			}
			sb.WriteString(n.Names[i])
			sb.WriteByte(':')
			k.write(sb)
		}
		sb.WriteByte('}')
	case KList:
		sb.WriteByte('[')
		for i, k := range n.Kids {
			if i > 0 {
				sb.WriteByte(' ')
			}
			k.write(sb)
		}
		sb.WriteByte(']')
	case KMap:
		sb.WriteString("map[")
		for i, k := range n.Kids {
			if i > 0 {
				sb.WriteByte(' ')
			}
			sb.WriteString(n.Names[i])
			sb.WriteByte(':')
			k.write(sb)
		}
		sb.WriteByte(']')
	}
}

// Lines renders the tree as sorted "path = value" lines, one per leaf (and one
// per empty collection).
func (n *Node) Lines() []string {
	var out []string
	n.lines("", &out)
	return out
}

func (n *Node) lines(path string, out *[]string) {
	if n == nil {
		return
	}
	if n.TypeMatters {
		*out = append(*out, path+"(type) = "+n.Type)
	}
	switch n.Kind {
	case KLeaf:
		*out = append(*out, path+" = "+n.Leaf)
	case KStruct:
		for i, k := range n.Kids {
			k.lines(join(path, n.Names[i]), out)
		}
	case KList:
		if len(n.Kids) == 0 {
			*out = append(*out, path+" = []")
		}
		for i, k := range n.Kids {
			k.lines(path+"["+strconv.Itoa(i)+"]", out)
		}
	case KMap:
		if len(n.Kids) == 0 {
			*out = append(*out, path+" = map[]")
		}
		for i, k := range n.Kids {
			k.lines(path+"["+n.Names[i]+"]", out)
		}
	}
}

func join(path, name string) string {
	if path == "" {
		return name
	}
	return path + "." + name
}

// Hash is a digest of the canonical rendering (usable as a distinct-case key).
func (n *Node) Hash() []byte {
	h := sha256.Sum256([]byte(n.String()))
	return h[:]
}

// Short renders a node for messages, truncated to max bytes.
func (n *Node) Short(max int) string {
	if n == nil {
		return "<absent>"
	}
	s := n.String()
	if max > 0 && len(s) > max {
		s = s[:max] + fmt.Sprintf("...(%d bytes)", len(s))
	}
	return s
}

// Differ compares trees; Mask lists generalised paths (see Generalize) whose
// subtrees are ignored.
type Differ struct {
	Mask map[string]bool
	// ZeroEntryAbsent makes a map entry that exists on one side only equal to
	// "absent" when its value is a numeric zero, nil or an empty list/map
	// (m[k] = 0 versus k not in m).  Empty structs (sets) are NOT zero entries.
	ZeroEntryAbsent bool
}

// zeroEntry tells whether n is a numeric zero, nil or an empty collection.
func (n *Node) zeroEntry() bool {
	if n == nil {
		return true
	}
	switch n.Kind {
	case KLeaf:
		return n.Leaf == "0" || n.Leaf == "nil" || strings.HasPrefix(n.Leaf, "0#")
	case KList, KMap:
		return len(n.Kids) == 0
	}
	return false
}

// Diff is one difference between two trees.
type Diff struct {
	Path string // concrete path, e.g. StateKeyFrame.ActivityProducers[02ab..].penalty
	A, B string // rendering of the two sides ("<absent>" when missing)
	// Owner is the Go type of the innermost struct on the path and Field the
	// path below it (filled by OwnerOf; "" for non-struct roots).
	Owner, Field string
}

// TypeSig returns Owner.Field generalised, e.g. payload.CRInfo.Signature or
// state.StateKeyFrame.WithdrawableTxInfo[*]: one signature for a field of a
// type wherever the value is embedded.
func (d Diff) TypeSig() string {
	if d.Owner == "" {
		return d.Sig()
	}
	return d.Owner + "." + Generalize(d.Field)
}

// OwnerOf resolves path in root and returns the type of the innermost struct
// node on it and the remaining path below that struct.
func OwnerOf(root *Node, path string) (owner, field string) {
	n := root
	rest := path
	owner, field = "", path
	if n != nil && n.Kind == KStruct {
		owner = n.Type
	}
	for n != nil && rest != "" {
		var name string
		switch {
		case rest[0] == '.':
			rest = rest[1:]
			continue
		case rest[0] == '[':
			depth, i := 0, 0
			for i = 0; i < len(rest); i++ {
				if rest[i] == '[' {
					depth++
				} else if rest[i] == ']' {
					depth--
					if depth == 0 {
						break
					}
				}
			}
			name = rest[1:i]
			rest = rest[i+1:]
			var next *Node
			switch n.Kind {
			case KMap:
				for j, k := range n.Names {
					if k == name {
						next = n.Kids[j]
					}
				}
			case KList:
				if idx, err := strconv.Atoi(name); err == nil && idx < len(n.Kids) {
					next = n.Kids[idx]
				}
			}
			n = next
		default:
			i := strings.IndexAny(rest, ".[(")
			if i < 0 {
				i = len(rest)
			}
			name = rest[:i]
			rest = rest[i:]
			var next *Node
			if n.Kind == KStruct {
				for j, k := range n.Names {
					if k == name {
						next = n.Kids[j]
					}
				}
			}
			n = next
		}
		if n != nil && n.Kind == KStruct && rest != "" && rest != "(type)" {
			owner, field = n.Type, strings.TrimPrefix(rest, ".")
		}
	}
	return
}

// Sig returns the generalised path (map keys and indexes replaced by *).
func (d Diff) Sig() string { return Generalize(d.Path) }

// Generalize strips the contents of every [...] in a path so that it is stable
// across inputs: A.B[02ab].c[3] -> A.B[*].c[*].
func Generalize(path string) string {
	var sb strings.Builder
	depth := 0
	for _, r := range path {
		switch {
		case r == '[':
			if depth == 0 {
				sb.WriteString("[*")
			}
			depth++
		case r == ']':
			depth--
			if depth == 0 {
				sb.WriteByte(']')
			}
		case depth == 0:
			sb.WriteRune(r)
		}
	}
	return sb.String()
}

// First returns the first difference (in canonical order) or nil.
func (d *Differ) First(a, b *Node) *Diff {
	var out []Diff
	d.diff(a, b, "", &out, 1)
	if len(out) == 0 {
		return nil
	}
	return &out[0]
}

// All returns up to limit differences (limit <= 0: all).
func (d *Differ) All(a, b *Node, limit int) []Diff {
	var out []Diff
	d.diff(a, b, "", &out, limit)
	return out
}

func (d *Differ) masked(path string) bool {
	if len(d.Mask) == 0 {
		return false
	}
	return d.Mask[Generalize(path)]
}

func full(out *[]Diff, limit int) bool { return limit > 0 && len(*out) >= limit }

func (d *Differ) diff(a, b *Node, path string, out *[]Diff, limit int) {
	if full(out, limit) || d.masked(path) {
		return
	}
	if a == nil && b == nil {
		return
	}
	if a == nil || b == nil {
		*out = append(*out, Diff{Path: path, A: a.Short(200), B: b.Short(200)})
		return
	}
	if (a.TypeMatters || b.TypeMatters) && a.Type != b.Type {
		*out = append(*out, Diff{Path: path + "(type)", A: a.Type, B: b.Type})
		return
	}
	if a.Kind != b.Kind {
		*out = append(*out, Diff{Path: path, A: a.Short(200), B: b.Short(200)})
		return
	}
	switch a.Kind {
	case KLeaf:
		if a.Leaf != b.Leaf {
			*out = append(*out, Diff{Path: path, A: a.Leaf, B: b.Leaf})
		}
	case KStruct:
		// same Go type => same field list unless fields were skipped as nil
		i, j := 0, 0
		for i < len(a.Kids) || j < len(b.Kids) {
			if full(out, limit) {
				return
			}
			switch {
			case i < len(a.Kids) && j < len(b.Kids) && a.Names[i] == b.Names[j]:
				d.diff(a.Kids[i], b.Kids[j], join(path, a.Names[i]), out, limit)
				i++
				j++
			case i < len(a.Kids) && (j >= len(b.Kids) || !contains(b.Names[j:], a.Names[i])):
				p := join(path, a.Names[i])
				if !d.masked(p) {
					*out = append(*out, Diff{Path: p, A: a.Kids[i].Short(200), B: "<absent>"})
				}
				i++
			default:
				p := join(path, b.Names[j])
				if !d.masked(p) {
					*out = append(*out, Diff{Path: p, A: "<absent>", B: b.Kids[j].Short(200)})
				}
				j++
			}
		}
	case KList:
		n := len(a.Kids)
		if len(b.Kids) < n {
			n = len(b.Kids)
		}
		for i := 0; i < n; i++ {
			if full(out, limit) {
				return
			}
			d.diff(a.Kids[i], b.Kids[i], path+"["+strconv.Itoa(i)+"]", out, limit)
		}
		if len(a.Kids) != len(b.Kids) && !full(out, limit) {
			p := path + "[" + strconv.Itoa(n) + "]"
			if !d.masked(p) {
				if len(a.Kids) > n {
					*out = append(*out, Diff{Path: p, A: a.Kids[n].Short(200), B: "<absent>"})
				} else {
					*out = append(*out, Diff{Path: p, A: "<absent>", B: b.Kids[n].Short(200)})
				}
			}
		}
	case KMap:
		i, j := 0, 0
		for i < len(a.Kids) || j < len(b.Kids) {
			if full(out, limit) {
				return
			}
			switch {
			case i < len(a.Kids) && j < len(b.Kids) && a.Names[i] == b.Names[j]:
				d.diff(a.Kids[i], b.Kids[j], path+"["+a.Names[i]+"]", out, limit)
				i++
				j++
			case j >= len(b.Kids) || (i < len(a.Kids) && a.Names[i] < b.Names[j]):
				p := path + "[" + a.Names[i] + "]"
				if !d.masked(p) && !(d.ZeroEntryAbsent && a.Kids[i].zeroEntry()) {
					*out = append(*out, Diff{Path: p, A: a.Kids[i].Short(200), B: "<absent>"})
				}
				i++
			default:
				p := path + "[" + b.Names[j] + "]"
				if !d.masked(p) && !(d.ZeroEntryAbsent && b.Kids[j].zeroEntry()) {
					*out = append(*out, Diff{Path: p, A: "<absent>", B: b.Kids[j].Short(200)})
				}
				j++
			}
		}
	}
}

func contains(ss []string, s string) bool {
	for _, x := range ss {
		if x == s {
			return true
		}
	}
	return false
}

// FirstDiff dumps a and b with default options and returns the path of the
// first differing field with the rendering of both sides; path == "" and
// ok == true... (see Equal) when they are equal.  The generalised form of path
// (Generalize) is what checks use as violation-signature suffix.
func FirstDiff(a, b any) (path string, av, bv string) {
	return (&Options{}).FirstDiff(a, b)
}

// FirstDiff is FirstDiff with options.
func (o *Options) FirstDiff(a, b any) (path string, av, bv string) {
	d := (&Differ{}).First(o.Dump(a), o.Dump(b))
	if d == nil {
		return "", "", ""
	}
	p := d.Path
	if p == "" {
		p = "."
	}
	return p, d.A, d.B
}

// Equal reports canonical equality with default options.
func Equal(a, b any) bool {
	return (&Differ{}).First(Dump(a), Dump(b)) == nil
}

// NodesEqual reports equality of two dumped trees.
func NodesEqual(a, b *Node) bool { return (&Differ{}).First(a, b) == nil }
