package chainsm

import (
	"crypto/sha256"
	"fmt"
	"math"
	"sort"

	"github.com/elastos/Elastos.ELA/common"
	"github.com/elastos/Elastos.ELA/core"
	"github.com/elastos/Elastos.ELA/core/contract/program"
	"github.com/elastos/Elastos.ELA/core/types"
	ctypes "github.com/elastos/Elastos.ELA/core/types/common"
	"github.com/elastos/Elastos.ELA/core/types/functions"
	"github.com/elastos/Elastos.ELA/core/types/interfaces"
	"github.com/elastos/Elastos.ELA/core/types/outputpayload"
	"github.com/elastos/Elastos.ELA/core/types/payload"
	"pgregory.net/rapid"

	"verifharness/node"
)

// Opts configures one history.
type Opts struct {
	NAddrs   int  // ring keys used as owners/recipients (2..6, default 4)
	ZeroOuts bool // payments may carry zero-value outputs (and spend them)
	MaxOuts  int  // outputs per payment (default 3)
	MaxIns   int  // inputs per payment (default 3)
	// After is the oracle, called after the setup and after every action with
	// the machine resynchronised with the node's reported active chain.
	After func(m *Machine, t *rapid.T)
}

// KnownTx is a transaction the harness built.
type KnownTx struct {
	Tx   interfaces.Transaction
	Hash common.Uint256
	Ins  []node.Coin    // the coins it spends as the builder saw them (fabricated for never-created outpoints)
	Fee  common.Fixed64 // nominal fee: sum(Ins) - sum(outputs)
	Kind string
}

// Step describes what the last action did (read by the oracles).
type Step struct {
	Op string // action name: setup|mine|pay|conflict|fork|deliver|badBlock|cleanup|resubmit

	// block deliveries of this step, in order
	Deliveries []Delivery

	// pool submission of this step
	Submitted  *KnownTx
	SubmitKind string // honest|pool-conflict|chain-spent|side-only|never-created|resubmit
	SubmitErr  error
	ModelValid bool   // the reference model's admission verdict before the submission
	ModelWhy   string // why the model refuses it
	PoolBefore map[common.Uint256]bool

	// filled by sync
	Disconnected []*types.Block // blocks of the previous active chain that are no longer active
	Connected    []*types.Block
	PoolCleaned  bool // the pool was (re)checked against the current chain during this step
}

// Delivery is one ProcessBlock call.
type Delivery struct {
	Node        *node.TreeNode
	BadKind     string // "" honest; dup-in-tx|dup-across-txs|chain-spent|side-only|never-created
	Sanity      bool   // the block is rejected by context-free checks whatever its parent
	ExtendsTip  bool   // its parent was the reported tip when it was delivered
	ParentKnown bool   // parent delivered before (not an orphan delivery)
	TipBefore   common.Uint256
	TipAfter    common.Uint256
	InMain      bool
	Orphan      bool
	Err         error
}

// Machine is one history in progress.
type Machine struct {
	N        *node.Node
	Tree     *node.Tree
	Opts     Opts
	Maturity uint32
	AutoPool bool

	Txs      []*KnownTx
	TxBy     map[common.Uint256]*KnownTx
	Withheld []*node.TreeNode
	ledgers  map[common.Uint256]*Ledger

	// reference view of the node's REPORTED active chain (refreshed after every step)
	Active    []*types.Block
	ActiveTip *node.TreeNode
	Ledger    *Ledger
	OnActive  map[common.Uint256]uint32 // block hash -> height

	Last Step
	Ops  []string
	// PoolSynced: the pool has been re-checked against the chain since the chain last changed.
	PoolSynced bool
	// MaybeStale: inputs of transactions that left the pool.  The pool drops the
	// conflict-slot keys of a removed transaction only if it can still resolve the
	// transaction's references; after a reorganisation it may not, and the keys
	// stay behind (a mempool-index defect owned by property C34).  A later honest
	// spend of such an outpoint is refused by the slot check.
	MaybeStale  map[ctypes.OutPoint]bool
	poolAtStart map[common.Uint256]interfaces.Transaction

	// history classification
	Reorgs, ReorgsWithSpend, FailedReorgs    int
	RejectedBadBlocks, RejectedPoolConflicts int
	SideBad, OrphanDeliveries                int
	HonestPoolRejects                        int
	MaxHeight                                uint32
	MaxReorgDepth                            int
	RespendReorgs                            int // reorgs after which a restored output is spent by a different transaction
	ReminedReorgs                            int // reorgs that mine a disconnected transaction again on the new branch

	// Wide: transactions with more than 256 outputs (output indexes need both bytes of a uint16)
	Wide      map[common.Uint256]int // txid -> number of outputs
	WideSpent int                    // payments built on purpose from wide outputs around index 256

	salt uint64
}

func (m *Machine) logf(f string, a ...any) { m.Ops = append(m.Ops, fmt.Sprintf(f, a...)) }

// Render is the JSON-able description of the history.
func (m *Machine) Render() any {
	return map[string]any{
		"naddrs": m.Opts.NAddrs, "zero_outs": m.Opts.ZeroOuts, "maturity": m.Maturity, "auto_pool_cleanup": m.AutoPool,
		"ops": m.Ops,
	}
}

// Key identifies the history for distinct counting.
func (m *Machine) Key() []byte {
	h := sha256.New()
	fmt.Fprintf(h, "%d|%v|%d|%v|", m.Opts.NAddrs, m.Opts.ZeroOuts, m.Maturity, m.AutoPool)
	for _, o := range m.Ops {
		h.Write([]byte(o))
		h.Write([]byte{0})
	}
	return h.Sum(nil)
}

func (m *Machine) keyOf(h common.Uint168) int { return m.N.KeyIndexOf(h) }

// LedgerAt is the reference ledger after tree node tn (replay of its path).
func (m *Machine) LedgerAt(tn *node.TreeNode) *Ledger {
	if l, ok := m.ledgers[tn.Hash]; ok {
		return l
	}
	var l *Ledger
	if tn.Parent == nil {
		l = NewLedger()
	} else {
		l = m.LedgerAt(tn.Parent).Clone()
	}
	l.Apply(tn.Block, m.keyOf)
	m.ledgers[tn.Hash] = l
	return l
}

// PoolTxs returns the pool content sorted by hash (the pool's own order is map order).
func (m *Machine) PoolTxs() []interfaces.Transaction {
	txs := m.N.Pool.GetTxsInPool()
	sort.Slice(txs, func(i, j int) bool {
		a, b := txs[i].Hash(), txs[j].Hash()
		return a.Compare(b) < 0
	})
	return txs
}

func (m *Machine) poolUsed() map[ctypes.OutPoint]common.Uint256 {
	u := map[ctypes.OutPoint]common.Uint256{}
	for _, tx := range m.PoolTxs() {
		for _, in := range tx.Inputs() {
			u[in.Previous] = tx.Hash()
		}
	}
	return u
}

// PoolAdmissible is the reference model's verdict on submitting k to the pool now.
func (m *Machine) PoolAdmissible(k *KnownTx) (bool, string) {
	if m.N.Pool.HaveTransaction(k.Hash) {
		return false, "already in pool"
	}
	if _, on := m.Ledger.TxAt[k.Hash]; on {
		return false, "already on the active chain"
	}
	used := m.poolUsed()
	seen := map[ctypes.OutPoint]bool{}
	if k.Fee < minFee {
		return false, "fee below minimum"
	}
	for _, in := range k.Tx.Inputs() {
		op := in.Previous
		if seen[op] {
			return false, "duplicate input"
		}
		seen[op] = true
		c, ok := m.Ledger.UTXO[op]
		if !ok {
			if _, was := m.Ledger.SpentBy[op]; was {
				return false, "input already spent on the active chain"
			}
			return false, "input not created on the active chain"
		}
		if !Mature(c, m.Ledger.Height+1, m.Maturity) {
			return false, "immature coinbase"
		}
		if _, u := used[op]; u {
			return false, "input used by a pool transaction"
		}
	}
	return true, ""
}

// ---------------------------------------------------------------------------
// construction helpers

func (m *Machine) addr(t *rapid.T, label string) common.Uint168 {
	return m.N.Keys[rapid.IntRange(0, m.Opts.NAddrs-1).Draw(t, label)].ProgramHash
}

func (m *Machine) remember(tx interfaces.Transaction, ins []node.Coin, kind string) *KnownTx {
	h := tx.Hash()
	if k, ok := m.TxBy[h]; ok {
		return k
	}
	var fee common.Fixed64
	for _, c := range ins {
		fee += c.Value
	}
	for _, o := range tx.Outputs() {
		fee -= o.Value
	}
	k := &KnownTx{Tx: tx, Hash: h, Ins: ins, Fee: fee, Kind: kind}
	m.Txs = append(m.Txs, k)
	m.TxBy[h] = k
	return k
}

// drawOuts splits amount over 1..MaxOuts outputs (zero-value ones allowed by Opts).
func (m *Machine) drawOuts(t *rapid.T, amount common.Fixed64) []node.Out {
	n := rapid.IntRange(1, m.Opts.MaxOuts).Draw(t, "nouts")
	var outs []node.Out
	rest := amount
	for i := 0; i < n-1; i++ {
		var v common.Fixed64
		switch rapid.IntRange(0, 3).Draw(t, "outshape") {
		case 0:
			if m.Opts.ZeroOuts {
				v = 0
			} else {
				v = 1
			}
		case 1:
			v = common.Fixed64(rapid.Int64Range(1, 1000).Draw(t, "small"))
		default:
			if rest > 1 {
				v = common.Fixed64(rapid.Int64Range(1, int64(rest)).Draw(t, "part"))
			}
		}
		if v > rest {
			v = rest
		}
		if v == 0 && !m.Opts.ZeroOuts {
			continue
		}
		rest -= v
		outs = append(outs, node.Out{To: m.addr(t, "to"), Value: v})
	}
	if rest > 0 || m.Opts.ZeroOuts || len(outs) == 0 {
		outs = append(outs, node.Out{To: m.addr(t, "to"), Value: rest})
	}
	return outs
}

const minFee = 100

// makePay builds a valid payment from the given candidate coins (already
// filtered for spendability); nil if the candidates cannot fund a fee.
func (m *Machine) makePay(t *rapid.T, cands []node.Coin, atHeight uint32, kind string) *KnownTx {
	var funded []node.Coin
	for _, c := range cands {
		if c.Value >= minFee {
			funded = append(funded, c)
		}
	}
	if len(funded) == 0 {
		return nil
	}
	first := funded[rapid.IntRange(0, len(funded)-1).Draw(t, "coin")]
	coins := []node.Coin{first}
	if w := m.wideInteresting(funded); len(w) > 0 && rapid.Bool().Draw(t, "wide-coin") {
		// outputs of a >256-output transaction on both sides of index 256
		coins = []node.Coin{w[rapid.IntRange(0, len(w)-1).Draw(t, "wide-index")]}
		if rapid.Bool().Draw(t, "wide-second") {
			if c := w[rapid.IntRange(0, len(w)-1).Draw(t, "wide-index2")]; c.Op != coins[0].Op {
				coins = append(coins, c)
			}
		}
		m.WideSpent++
	}
	extra := rapid.IntRange(0, m.Opts.MaxIns-1).Draw(t, "extra-ins")
	var zeros []node.Coin
	for _, c := range cands {
		if c.Value == 0 {
			zeros = append(zeros, c)
		}
	}
	for i := 0; i < extra && len(cands) > 1; i++ {
		var c node.Coin
		if len(zeros) > 0 && rapid.Bool().Draw(t, "zero-coin") {
			c = zeros[rapid.IntRange(0, len(zeros)-1).Draw(t, "coin0")] // spend a zero-value output
		} else {
			c = cands[rapid.IntRange(0, len(cands)-1).Draw(t, "coin+")]
		}
		dup := false
		for _, x := range coins {
			if x.Op == c.Op {
				dup = true
			}
		}
		if !dup {
			coins = append(coins, c)
		}
	}
	return m.payFrom(t, coins, atHeight, kind)
}

func (m *Machine) payFrom(t *rapid.T, coins []node.Coin, atHeight uint32, kind string) *KnownTx {
	var total common.Fixed64
	seen := map[ctypes.OutPoint]bool{}
	for _, c := range coins {
		if !seen[c.Op] { // a duplicated input funds only once
			total += c.Value
		}
		seen[c.Op] = true
	}
	maxFee := int64(total)
	if maxFee > 50000 {
		maxFee = 50000
	}
	if maxFee < minFee {
		maxFee = minFee
	}
	fee := common.Fixed64(rapid.Int64Range(minFee, maxFee).Draw(t, "fee"))
	amount := total - fee
	if amount < 0 {
		amount = 0
	}
	outs := m.drawOuts(t, amount)
	tx, err := m.transfer(t, coins, outs, atHeight)
	if err != nil {
		t.Fatalf("harness: Transfer: %v", err)
	}
	return m.remember(tx, coins, kind)
}

// funded keeps the coins that can pay a fee on their own.
func funded(cands []node.Coin) []node.Coin {
	var out []node.Coin
	for _, c := range cands {
		if c.Value >= 2*minFee {
			out = append(out, c)
		}
	}
	return out
}

func minus(cands []node.Coin, used map[ctypes.OutPoint]common.Uint256) []node.Coin {
	var out []node.Coin
	for _, c := range cands {
		if _, u := used[c.Op]; !u {
			out = append(out, c)
		}
	}
	return out
}

// fakeCoin fabricates an outpoint that no chain of this history ever created.
func (m *Machine) fakeCoin(t *rapid.T) node.Coin {
	m.salt++
	h := sha256.Sum256([]byte(fmt.Sprintf("never-created-%d", m.salt)))
	var id common.Uint256
	copy(id[:], h[:])
	ki := rapid.IntRange(0, m.Opts.NAddrs-1).Draw(t, "fake-owner")
	return node.Coin{Op: ctypes.OutPoint{TxID: id, Index: uint16(rapid.IntRange(0, 2).Draw(t, "fake-index"))},
		Value: 1000000, Owner: m.N.Keys[ki].ProgramHash, KeyIdx: ki}
}

// buildBlock builds (does not deliver) a block on parent and registers it in the tree.
func (m *Machine) buildBlock(t *rapid.T, parent *node.TreeNode, txs []*KnownTx, valid bool, note string) *node.TreeNode {
	var fees common.Fixed64
	var list []interfaces.Transaction
	for _, k := range txs {
		fees += k.Fee
		list = append(list, k.Tx)
	}
	m.salt++
	b, err := m.N.BuildBlock(node.BlockSpec{
		Parent: parent.Block, Txs: list, Fees: fees,
		TimeDelta: uint32(rapid.IntRange(1, 3).Draw(t, "dt")),
		MinerKey:  rapid.IntRange(0, m.Opts.NAddrs-1).Draw(t, "miner"),
		Salt:      m.salt,
	})
	if err != nil {
		t.Fatalf("harness: BuildBlock: %v", err)
	}
	tn := m.Tree.Add(b, valid && parent.Valid, note)
	if tn.Parent == nil {
		t.Fatalf("harness: parent of built block not in tree")
	}
	return tn
}

func (m *Machine) deliver(tn *node.TreeNode, badKind string, sanity bool) Delivery {
	d := Delivery{Node: tn, BadKind: badKind, Sanity: sanity}
	d.TipBefore = *m.N.Chain.BestChain.Hash
	d.ExtendsTip = tn.Block.Previous == d.TipBefore
	d.ParentKnown = tn.Parent != nil && tn.Parent.Connected()
	d.InMain, d.Orphan, d.Err = m.N.Process(tn.Block)
	d.TipAfter = *m.N.Chain.BestChain.Hash
	tn.Delivered = true
	for i, w := range m.Withheld {
		if w == tn {
			m.Withheld = append(m.Withheld[:i], m.Withheld[i+1:]...)
			break
		}
	}
	es := ""
	if d.Err != nil {
		es = " err"
	}
	m.logf("  deliver h%d %s parent %s%s -> main=%v orphan=%v%s", tn.Height, short(tn.Hash), short(tn.Block.Previous),
		map[bool]string{true: " (extends tip)", false: ""}[d.ExtendsTip], d.InMain, d.Orphan, es)
	m.Last.Deliveries = append(m.Last.Deliveries, d)
	return d
}

func (m *Machine) submit(k *KnownTx, kind string) {
	m.Last.Submitted, m.Last.SubmitKind = k, kind
	m.Last.ModelValid, m.Last.ModelWhy = m.PoolAdmissible(k)
	m.Last.PoolBefore = map[common.Uint256]bool{}
	for _, tx := range m.N.Pool.GetTxsInPool() {
		m.Last.PoolBefore[tx.Hash()] = true
	}
	if e := m.N.Pool.AppendToTxPool(k.Tx); e != nil {
		m.Last.SubmitErr = e
	}
	m.logf("  submit %s tx %s (%d in, %d out) model=%v pool=%v", kind, short(k.Hash), len(k.Tx.Inputs()), len(k.Tx.Outputs()),
		m.Last.ModelValid, m.Last.SubmitErr == nil)
}

// ---------------------------------------------------------------------------
// synchronisation with the node's reported chain

func (m *Machine) sync(t *rapid.T) {
	chain, err := m.N.ActiveChain()
	if err != nil {
		t.Fatalf("harness: the node cannot return its own active chain: %v", err)
	}
	prev := m.OnActive
	on := make(map[common.Uint256]uint32, len(chain))
	for _, b := range chain {
		on[b.Hash()] = b.Height
	}
	m.Last.Disconnected, m.Last.Connected = nil, nil
	for _, b := range m.Active {
		if _, ok := on[b.Hash()]; !ok {
			m.Last.Disconnected = append(m.Last.Disconnected, b)
		}
	}
	for _, b := range chain {
		if _, ok := prev[b.Hash()]; !ok {
			m.Last.Connected = append(m.Last.Connected, b)
		}
	}
	m.Active, m.OnActive = chain, on
	nowPool := map[common.Uint256]bool{}
	for _, tx := range m.N.Pool.GetTxsInPool() {
		nowPool[tx.Hash()] = true
	}
	for h, tx := range m.poolAtStart {
		if !nowPool[h] {
			for _, in := range tx.Inputs() {
				m.MaybeStale[in.Previous] = true
			}
		}
	}
	m.Ledger = ReplayBlocks(chain, m.keyOf)
	tip := chain[len(chain)-1]
	m.ActiveTip = m.Tree.ByHash[tip.Hash()]
	if m.ActiveTip == nil {
		t.Fatalf("harness: reported tip %s was not built by the harness", tip.Hash())
	}
	if tip.Height > m.MaxHeight {
		m.MaxHeight = tip.Height
	}
	if len(m.Last.Disconnected) > 0 {
		m.Reorgs++
		if d := len(m.Last.Disconnected); d > m.MaxReorgDepth {
			m.MaxReorgDepth = d
		}
		// spent-ness restored and re-applied differently: an outpoint spent by a
		// disconnected block is spent by another transaction of a newly connected block
		was := map[ctypes.OutPoint]common.Uint256{}
		for _, b := range m.Last.Disconnected {
			for _, tx := range b.Transactions[1:] {
				for _, in := range tx.Inputs() {
					was[in.Previous] = tx.Hash()
				}
			}
		}
		respend, remined := false, false
		for _, b := range m.Last.Connected {
			for _, tx := range b.Transactions[1:] {
				for _, in := range tx.Inputs() {
					if by, ok := was[in.Previous]; ok {
						if by != tx.Hash() {
							respend = true
						} else {
							remined = true
						}
					}
				}
			}
		}
		if respend {
			m.RespendReorgs++
		}
		if remined {
			m.ReminedReorgs++
		}
		for _, b := range m.Last.Disconnected {
			if len(b.Transactions) > 1 {
				m.ReorgsWithSpend++
				break
			}
		}
		m.logf("  reorg: -%d +%d blocks, tip h%d %s", len(m.Last.Disconnected), len(m.Last.Connected), tip.Height, short(tip.Hash()))
	}
	for _, d := range m.Last.Deliveries {
		switch {
		case d.BadKind != "" && d.Err != nil && (d.ExtendsTip || d.Sanity):
			m.RejectedBadBlocks++
		case d.BadKind != "" && d.Err == nil && !d.Orphan:
			m.SideBad++
		}
		if d.Err != nil && !d.ExtendsTip && !d.Sanity && d.TipBefore != d.TipAfter {
			m.FailedReorgs++
		}
		if d.Orphan && d.Err == nil {
			m.OrphanDeliveries++
		}
	}
	if m.Last.Submitted != nil && m.Last.SubmitErr != nil {
		if m.Last.SubmitKind != "honest" && !m.Last.ModelValid {
			m.RejectedPoolConflicts++
		}
		if m.Last.ModelValid {
			m.HonestPoolRejects++
		}
	}
	// With netsync-style cleanup switched on, every ProcessBlock that completes
	// without error (and is not parked as an orphan) ends with a re-check of the
	// whole pool against the chain as it is then.  A delivery that fails (a
	// rejected block, a failed reorganisation) sends no such event.
	if m.AutoPool && len(m.Last.Deliveries) > 0 {
		d := m.Last.Deliveries[len(m.Last.Deliveries)-1]
		if d.Err == nil && !d.Orphan {
			m.Last.PoolCleaned = true
		}
	}
	if m.Last.PoolCleaned {
		m.PoolSynced = true
	} else if len(m.Last.Disconnected)+len(m.Last.Connected) > 0 {
		m.PoolSynced = false
	}
}

// ---------------------------------------------------------------------------
// the machine

// Run executes one history on a fresh node and returns the machine (node closed).
func Run(t *rapid.T, o Opts) *Machine {
	if o.NAddrs == 0 {
		o.NAddrs = 4
	}
	if o.MaxOuts == 0 {
		o.MaxOuts = 3
	}
	if o.MaxIns == 0 {
		o.MaxIns = 3
	}
	maturity := uint32(rapid.IntRange(1, 3).Draw(t, "maturity"))
	auto := rapid.IntRange(0, 4).Draw(t, "auto-pool-cleanup") != 0
	n, err := node.New(node.Opts{CoinbaseMaturity: maturity, NKeys: 6})
	if err != nil {
		t.Fatalf("harness: node.New: %v", err)
	}
	defer n.Close()
	n.AutoPoolCleanup = auto
	m := &Machine{N: n, Tree: node.NewTree(n.Genesis), Opts: o, Maturity: maturity, AutoPool: auto,
		TxBy: map[common.Uint256]*KnownTx{}, ledgers: map[common.Uint256]*Ledger{}, OnActive: map[common.Uint256]uint32{}, PoolSynced: true, MaybeStale: map[ctypes.OutPoint]bool{}, Wide: map[common.Uint256]int{}}
	m.setup(t)

	step := func(name string, f func(t *rapid.T)) func(t *rapid.T) {
		return func(t *rapid.T) {
			m.Last = Step{Op: name}
			m.logf("%s", name)
			m.poolAtStart = map[common.Uint256]interfaces.Transaction{}
			for _, tx := range m.N.Pool.GetTxsInPool() {
				m.poolAtStart[tx.Hash()] = tx
			}
			f(t)
			m.sync(t)
			if o.After != nil {
				o.After(m, t)
			}
		}
	}
	actions := map[string]func(*rapid.T){
		"mine":     step("mine", m.actMine),
		"mine2":    step("mine", m.actMine),
		"pay":      step("pay", m.actPay),
		"pay2":     step("pay", m.actPay),
		"conflict": step("conflict", m.actConflict),
		"fork":     step("fork", m.actFork),
		"fork2":    step("fork", m.actFork),
		"deliver":  step("deliver", m.actDeliver),
		"badBlock": step("badBlock", m.actBadBlock),
		"cleanup":  step("cleanup", m.actCleanup),
		"resubmit": step("resubmit", m.actResubmit),
		"payWide":  step("payWide", m.actPayWide),
	}
	t.Repeat(actions)
	return m
}

// setup mines maturity blocks and a funding block that spreads the genesis coin.
func (m *Machine) setup(t *rapid.T) {
	m.Last = Step{Op: "setup"}
	m.logf("setup maturity=%d", m.Maturity)
	tip := m.Tree.Nodes[0]
	for i := uint32(0); i < m.Maturity; i++ {
		tip = m.buildBlock(t, tip, nil, true, "setup")
		if d := m.deliver(tip, "", false); d.Err != nil || !d.InMain {
			t.Fatalf("harness: setup block rejected: %v", d.Err)
		}
	}
	l := m.LedgerAt(tip)
	cands := l.Spendable(tip.Height+1, m.Maturity)
	var g *node.Coin
	for i := range cands {
		if cands[i].Height == 0 && cands[i].KeyIdx == 0 && (g == nil || cands[i].Value > g.Value) {
			g = &cands[i]
		}
	}
	if g == nil {
		t.Fatalf("harness: genesis coin not spendable at height %d", tip.Height+1)
	}
	var outs []node.Out
	var sum common.Fixed64
	for a := 0; a < m.Opts.NAddrs; a++ {
		for j := 0; j < 2; j++ {
			v := common.Fixed64(rapid.Int64Range(1000, 100000000000).Draw(t, "fund"))
			outs = append(outs, node.Out{To: m.N.Keys[a].ProgramHash, Value: v})
			sum += v
		}
	}
	fee := common.Fixed64(10000)
	outs = append(outs, node.Out{To: m.N.Keys[0].ProgramHash, Value: g.Value - sum - fee})
	tx, err := m.N.Transfer([]node.Coin{*g}, outs, tip.Height+1)
	if err != nil {
		t.Fatalf("harness: funding tx: %v", err)
	}
	k := m.remember(tx, []node.Coin{*g}, "fund")
	tip = m.buildBlock(t, tip, []*KnownTx{k}, true, "fund")
	if d := m.deliver(tip, "", false); d.Err != nil || !d.InMain {
		t.Fatalf("harness: funding block rejected: %v", d.Err)
	}
	m.sync(t)
	if m.Opts.After != nil {
		m.Opts.After(m, t)
	}
}

// actMine extends the reported tip with pool transactions (and maybe a direct one).
func (m *Machine) actMine(t *rapid.T) {
	tip := m.ActiveTip
	l := m.Ledger
	used := map[ctypes.OutPoint]common.Uint256{}
	var txs []*KnownTx
	for _, ptx := range m.PoolTxs() {
		k := m.TxBy[ptx.Hash()]
		if k == nil {
			continue
		}
		ok := true
		for _, in := range ptx.Inputs() {
			c, have := l.UTXO[in.Previous]
			if _, u := used[in.Previous]; !have || u || !Mature(c, tip.Height+1, m.Maturity) {
				ok = false
			}
		}
		if _, on := l.TxAt[k.Hash]; on || k.Fee < minFee {
			ok = false
		}
		if !ok || rapid.IntRange(0, 3).Draw(t, "take") == 0 {
			continue
		}
		for _, in := range ptx.Inputs() {
			used[in.Previous] = k.Hash
		}
		txs = append(txs, k)
	}
	if rapid.IntRange(0, 2).Draw(t, "direct") == 0 {
		// a transaction that never went through this node's pool; it may spend
		// what a pool transaction spends (the block wins, the pool must drop its tx)
		if k := m.makePay(t, minus(l.Spendable(tip.Height+1, m.Maturity), used), tip.Height+1, "direct"); k != nil {
			if _, on := l.TxAt[k.Hash]; !on {
				txs = append(txs, k)
			}
		}
	}
	tn := m.buildBlock(t, tip, txs, true, "mine")
	m.logf("  block h%d %s with %d txs", tn.Height, short(tn.Hash), len(txs))
	m.deliver(tn, "", false)
}

// actPay submits a valid payment to the pool.
func (m *Machine) actPay(t *rapid.T) {
	h := m.Ledger.Height + 1
	k := m.makePay(t, minus(m.Ledger.Spendable(h, m.Maturity), m.poolUsed()), h, "pay")
	if k == nil {
		m.actMine(t)
		return
	}
	m.submit(k, "honest")
}

// conflictCoin picks an outpoint that must not be spendable now, by kind.
func (m *Machine) conflictCoin(t *rapid.T, l *Ledger, allowPool bool) (node.Coin, string) {
	type cand struct {
		c    node.Coin
		kind string
	}
	var cs []cand
	if allowPool {
		used := m.poolUsed()
		var ops []node.Coin
		for op := range used {
			if c, ok := m.Ledger.UTXO[op]; ok && c.KeyIdx >= 0 {
				ops = append(ops, c)
			}
		}
		sortCoins(ops)
		for _, c := range ops {
			cs = append(cs, cand{c, "pool-conflict"})
		}
	}
	var spentWide []cand
	for _, c := range l.Spent() {
		if c.KeyIdx >= 0 {
			cs = append(cs, cand{c, "chain-spent"})
			if _, wide := m.Wide[c.Op.TxID]; wide {
				spentWide = append(spentWide, cand{c, "chain-spent"})
			}
		}
	}
	if len(spentWide) > 0 && rapid.Bool().Draw(t, "respend-wide") {
		return spentWide[rapid.IntRange(0, len(spentWide)-1).Draw(t, "spent-wide")].c, "chain-spent"
	}
	// outputs that exist only on other branches
	var side []node.Coin
	for _, tn := range m.Tree.Nodes {
		for op, c := range m.LedgerAt(tn).Created {
			if _, here := l.Created[op]; !here && c.KeyIdx >= 0 && !c.IsCoinbase {
				side = append(side, c)
			}
		}
	}
	sortCoins(side)
	for i, c := range side {
		if i > 0 && side[i-1].Op == c.Op {
			continue
		}
		cs = append(cs, cand{c, "side-only"})
	}
	kinds := []string{"never-created"}
	have := map[string]bool{}
	for _, c := range cs {
		if !have[c.kind] {
			have[c.kind] = true
			kinds = append(kinds, c.kind)
		}
	}
	kind := rapid.SampledFrom(kinds).Draw(t, "conflict-kind")
	if kind == "never-created" {
		return m.fakeCoin(t), kind
	}
	var of []node.Coin
	for _, c := range cs {
		if c.kind == kind {
			of = append(of, c.c)
		}
	}
	return of[rapid.IntRange(0, len(of)-1).Draw(t, "conflict-coin")], kind
}

// actConflict submits to the pool a transaction one of whose inputs is not spendable.
func (m *Machine) actConflict(t *rapid.T) {
	bad, kind := m.conflictCoin(t, m.Ledger, true)
	coins := []node.Coin{bad}
	h := m.Ledger.Height + 1
	if rapid.Bool().Draw(t, "with-good-input") || bad.Value < 2*minFee {
		good := funded(minus(m.Ledger.Spendable(h, m.Maturity), m.poolUsed()))
		if len(good) > 0 {
			g := good[rapid.IntRange(0, len(good)-1).Draw(t, "good")]
			if rapid.Bool().Draw(t, "good-first") {
				coins = []node.Coin{g, bad}
			} else {
				coins = append(coins, g)
			}
		}
	}
	k := m.payFrom(t, coins, h, "conflict:"+kind)
	m.submit(k, kind)
}

// pickParent chooses where a fork grows.
func (m *Machine) pickParent(t *rapid.T) *node.TreeNode {
	switch rapid.IntRange(0, 4).Draw(t, "parent-kind") {
	case 0, 1: // an ancestor of the reported tip
		path := m.ActiveTip.Path()
		back := rapid.IntRange(1, 4).Draw(t, "back")
		i := len(path) - 1 - back
		if i < int(m.Maturity)+1 { // keep the funding block common to all branches
			i = int(m.Maturity) + 1
		}
		if i > len(path)-1 {
			i = len(path) - 1
		}
		return path[i]
	case 2, 3: // the tip of a side branch (a leaf that is not the active tip)
		children := map[*node.TreeNode]bool{}
		for _, x := range m.Tree.Nodes {
			if x.Parent != nil {
				children[x.Parent] = true
			}
		}
		var leaves []*node.TreeNode
		for _, x := range m.Tree.Nodes {
			if !children[x] && x != m.ActiveTip && x.Height > m.Maturity {
				leaves = append(leaves, x)
			}
		}
		if len(leaves) > 0 {
			return leaves[rapid.IntRange(0, len(leaves)-1).Draw(t, "leaf")]
		}
	}
	var all []*node.TreeNode
	for _, x := range m.Tree.Nodes {
		if x.Height > m.Maturity {
			all = append(all, x)
		}
	}
	return all[rapid.IntRange(0, len(all)-1).Draw(t, "any-node")]
}

// branchTxs draws 0..2 transactions valid on branch ledger l for a block of height h.
func (m *Machine) branchTxs(t *rapid.T, l *Ledger, h uint32) []*KnownTx {
	var txs []*KnownTx
	used := map[ctypes.OutPoint]common.Uint256{}
	n := rapid.IntRange(0, 2).Draw(t, "ntx")
	for i := 0; i < n; i++ {
		var k *KnownTx
		if rapid.IntRange(0, 2).Draw(t, "reuse") == 0 {
			// a transaction already known (mined elsewhere, or waiting in the pool) that is valid here as well
			var ok []*KnownTx
			for _, c := range m.Txs {
				if _, on := l.TxAt[c.Hash]; on || len(c.Tx.Inputs()) == 0 || c.Fee < minFee {
					continue
				}
				good := true
				seen := map[ctypes.OutPoint]bool{}
				for _, in := range c.Tx.Inputs() {
					coin, have := l.UTXO[in.Previous]
					if _, u := used[in.Previous]; !have || u || seen[in.Previous] || !Mature(coin, h, m.Maturity) {
						good = false
					}
					seen[in.Previous] = true
				}
				if good {
					ok = append(ok, c)
				}
			}
			if len(ok) > 0 {
				k = ok[rapid.IntRange(0, len(ok)-1).Draw(t, "known")]
			}
		}
		if k == nil {
			k = m.makePay(t, minus(l.Spendable(h, m.Maturity), used), h, "branch")
		}
		if k == nil {
			continue
		}
		if _, on := l.TxAt[k.Hash]; on {
			continue
		}
		dup := false
		for _, x := range txs {
			if x == k {
				dup = true
			}
		}
		if dup {
			continue
		}
		for _, in := range k.Tx.Inputs() {
			used[in.Previous] = k.Hash
		}
		txs = append(txs, k)
	}
	return txs
}

// actFork grows 1..3 blocks on some tree node and delivers them now, later or child-first.
func (m *Machine) actFork(t *rapid.T) {
	parent := m.pickParent(t)
	// how many blocks the branch needs to overtake the reported tip
	need := 1
	if m.ActiveTip.Height >= parent.Height {
		need = int(m.ActiveTip.Height-parent.Height) + 1
	}
	if need > 4 {
		need = 4
	}
	n := rapid.IntRange(1, 3).Draw(t, "len")
	if rapid.Bool().Draw(t, "overtake") {
		n = need
	}
	var built []*node.TreeNode
	cur := parent
	for i := 0; i < n; i++ {
		var txs []*KnownTx
		if cur.ChainValid() {
			txs = m.branchTxs(t, m.LedgerAt(cur), cur.Height+1)
		}
		cur = m.buildBlock(t, cur, txs, true, "fork")
		m.logf("  block h%d %s on %s with %d txs", cur.Height, short(cur.Hash), short(cur.Block.Previous), len(txs))
		built = append(built, cur)
	}
	switch rapid.IntRange(0, 3).Draw(t, "delivery") {
	case 0: // withhold all
		m.Withheld = append(m.Withheld, built...)
		m.logf("  withheld")
	case 1: // children first (orphans), then the rest
		for i := len(built) - 1; i >= 0; i-- {
			m.deliver(built[i], "", false)
		}
	default:
		for _, b := range built {
			m.deliver(b, "", false)
		}
	}
}

// actDeliver hands a withheld block to the node.
func (m *Machine) actDeliver(t *rapid.T) {
	if len(m.Withheld) == 0 {
		m.actFork(t)
		return
	}
	tn := m.Withheld[rapid.IntRange(0, len(m.Withheld)-1).Draw(t, "withheld")]
	bad := ""
	if !tn.Valid && tn.Parent != nil && tn.Parent.Valid {
		bad = tn.Note
	}
	m.deliver(tn, bad, bad == "dup-in-tx" || bad == "dup-across-txs")
}

// actBadBlock builds a block that breaks the spending rules and delivers it.
func (m *Machine) actBadBlock(t *rapid.T) {
	var parent *node.TreeNode
	if rapid.IntRange(0, 2).Draw(t, "on-tip") != 0 {
		parent = m.ActiveTip
	} else {
		parent = m.pickParent(t)
	}
	for !parent.ChainValid() { // keep one offence per branch so that the cause of a rejection is known
		parent = parent.Parent
	}
	l := m.LedgerAt(parent)
	h := parent.Height + 1
	good := l.Spendable(h, m.Maturity)
	funded := funded(good)
	kinds := []string{"never-created", "conflict"}
	if len(funded) > 0 {
		kinds = append(kinds, "dup-in-tx", "dup-across-txs")
	}
	kind := rapid.SampledFrom(kinds).Draw(t, "bad-kind")
	var txs []*KnownTx
	sanity := false
	switch kind {
	case "dup-in-tx":
		c := funded[rapid.IntRange(0, len(funded)-1).Draw(t, "coin")]
		txs = append(txs, m.payFrom(t, []node.Coin{c, c}, h, "bad:dup-in-tx"))
		sanity = true
	case "dup-across-txs":
		c := funded[rapid.IntRange(0, len(funded)-1).Draw(t, "coin")]
		a := m.payFrom(t, []node.Coin{c}, h, "bad:dup-across-a")
		var b *KnownTx
		for i := 0; i < 8; i++ {
			b = m.payFrom(t, []node.Coin{c}, h, "bad:dup-across-b")
			if b != a {
				break
			}
		}
		if b == a { // same outputs drawn again and again: pair it with a second input instead
			txs = append(txs, m.payFrom(t, []node.Coin{c, c}, h, "bad:dup-in-tx"))
			kind = "dup-in-tx"
		} else {
			txs = append(txs, a, b)
		}
		sanity = true
	case "conflict":
		var bad node.Coin
		bad, kind = m.conflictCoin(t, l, false)
		coins := []node.Coin{bad}
		if len(funded) > 0 && (rapid.Bool().Draw(t, "with-good-input") || bad.Value < 2*minFee) {
			coins = append(coins, funded[rapid.IntRange(0, len(funded)-1).Draw(t, "good")])
		}
		txs = append(txs, m.payFrom(t, coins, h, "bad:"+kind))
	default:
		txs = append(txs, m.payFrom(t, []node.Coin{m.fakeCoin(t)}, h, "bad:never-created"))
	}
	// an honest transaction next to the offending one
	if rapid.Bool().Draw(t, "plus-honest") {
		used := map[ctypes.OutPoint]common.Uint256{}
		for _, k := range txs {
			for _, in := range k.Tx.Inputs() {
				used[in.Previous] = k.Hash
			}
		}
		if k := m.makePay(t, minus(good, used), h, "branch"); k != nil {
			if _, on := l.TxAt[k.Hash]; !on {
				if rapid.Bool().Draw(t, "honest-first") {
					txs = append([]*KnownTx{k}, txs...)
				} else {
					txs = append(txs, k)
				}
			}
		}
	}
	tn := m.buildBlock(t, parent, txs, false, kind)
	m.logf("  bad block (%s) h%d %s on %s", kind, tn.Height, short(tn.Hash), short(tn.Block.Previous))
	if rapid.IntRange(0, 4).Draw(t, "withhold-bad") == 0 {
		m.Withheld = append(m.Withheld, tn)
		m.logf("  withheld")
		return
	}
	m.deliver(tn, kind, sanity)
}

// actCleanup runs the pool maintenance netsync runs on chain events.
func (m *Machine) actCleanup(t *rapid.T) {
	tip := m.Active[len(m.Active)-1]
	m.N.Pool.CleanSubmittedTransactions(tip)
	m.N.Pool.CheckAndCleanAllTransactions()
	m.Last.PoolCleaned = true
}

// actResubmit offers an already known transaction to the pool again.
func (m *Machine) actResubmit(t *rapid.T) {
	var cands []*KnownTx
	for _, k := range m.Txs {
		if k.Kind != "fund" {
			cands = append(cands, k)
		}
	}
	if len(cands) == 0 {
		m.actPay(t)
		return
	}
	m.submit(cands[rapid.IntRange(0, len(cands)-1).Draw(t, "known-tx")], "resubmit")
}

// wideInteresting filters coins that are outputs of a wide transaction at the
// indexes where a 16-bit index matters: k and k+256 for the first few k, 255,
// 256 and the last output.
func (m *Machine) wideInteresting(cands []node.Coin) []node.Coin {
	var out []node.Coin
	for _, c := range cands {
		n, ok := m.Wide[c.Op.TxID]
		if !ok {
			continue
		}
		i := int(c.Op.Index)
		lowMax := n - 257
		if lowMax > 3 {
			lowMax = 3
		}
		if i <= lowMax || (i >= 256 && i-256 <= lowMax) || i == 255 || i == 256 || i == n-1 {
			out = append(out, c)
		}
	}
	return out
}

// actPayWide builds a payment with 257..320 small outputs (at most two per
// history) and either offers it to the pool or mines it directly.
func (m *Machine) actPayWide(t *rapid.T) {
	if len(m.Wide) >= 2 {
		m.actPay(t)
		return
	}
	h := m.Ledger.Height + 1
	n := rapid.IntRange(257, 320).Draw(t, "wide-outputs")
	base := rapid.IntRange(1, 1000).Draw(t, "wide-base")
	var src *node.Coin
	cands := minus(m.Ledger.Spendable(h, m.Maturity), m.poolUsed())
	for i := range cands {
		if src == nil || cands[i].Value > src.Value {
			src = &cands[i]
		}
	}
	fee := common.Fixed64(rapid.Int64Range(minFee, 50000).Draw(t, "fee"))
	var outs []node.Out
	var sum common.Fixed64
	for i := 0; i < n-1; i++ {
		v := common.Fixed64(2*minFee + (base*(i+7))%1800)
		if m.Opts.ZeroOuts && (i+base)%97 == 0 {
			v = 0
		}
		outs = append(outs, node.Out{To: m.N.Keys[(i+base)%m.Opts.NAddrs].ProgramHash, Value: v})
		sum += v
	}
	if src == nil || src.Value < sum+fee+1 {
		m.actPay(t)
		return
	}
	outs = append(outs, node.Out{To: m.N.Keys[src.KeyIdx].ProgramHash, Value: src.Value - sum - fee})
	tx, err := m.transfer(t, []node.Coin{*src}, outs, h)
	if err != nil {
		t.Fatalf("harness: wide Transfer: %v", err)
	}
	k := m.remember(tx, []node.Coin{*src}, "wide")
	m.Wide[k.Hash] = n
	m.logf("  wide tx %s with %d outputs", short(k.Hash), n)
	if rapid.Bool().Draw(t, "via-pool") {
		m.submit(k, "honest")
		return
	}
	tn := m.buildBlock(t, m.ActiveTip, []*KnownTx{k}, true, "mine")
	m.logf("  block h%d %s with the wide tx", tn.Height, short(tn.Hash))
	m.deliver(tn, "", false)
}

// transfer is node.Transfer with a drawn Sequence per input (the outpoint, not
// the sequence, identifies what is spent: conflicting spends of one outpoint
// differ in Sequence about half the time).
func (m *Machine) transfer(t *rapid.T, coins []node.Coin, outs []node.Out, atHeight uint32) (interfaces.Transaction, error) {
	ins := make([]*ctypes.Input, 0, len(coins))
	for _, c := range coins {
		var seq uint32
		switch rapid.IntRange(0, 5).Draw(t, "seq-kind") {
		case 0, 1, 2:
			seq = 0
		case 3:
			seq = 1
		case 4:
			seq = math.MaxUint32
		default:
			seq = rapid.Uint32().Draw(t, "seq")
		}
		ins = append(ins, &ctypes.Input{Previous: c.Op, Sequence: seq})
	}
	os := make([]*ctypes.Output, 0, len(outs))
	for _, o := range outs {
		os = append(os, &ctypes.Output{AssetID: core.ELAAssetID, Value: o.Value, ProgramHash: o.To,
			Type: ctypes.OTNone, Payload: &outputpayload.DefaultOutput{}})
	}
	tx := functions.CreateTransaction(m.N.TxVersionAt(atHeight), ctypes.TransferAsset, 0, &payload.TransferAsset{},
		[]*ctypes.Attribute{}, ins, os, 0, []*program.Program{})
	if err := m.N.SignStandard(tx, coins); err != nil {
		return nil, err
	}
	return tx, nil
}
