// Package chainsm is the shared history machine of the ledger properties
// (C06 no double spend, C14 UTXO views): a rapid state machine that drives the
// in-process mini-node with payments, conflicting spends, mempool operations,
// forks, withheld/orphan blocks and deliberately invalid blocks, and keeps an
// independent reference ledger obtained by replaying block lists.
//
// Nothing in here states a verdict about a property; the property packages plug
// their oracle in through Opts.After and read the machine's reference state.
package chainsm

import (
	"fmt"
	"sort"

	"github.com/elastos/Elastos.ELA/common"
	"github.com/elastos/Elastos.ELA/core/types"
	ctypes "github.com/elastos/Elastos.ELA/core/types/common"

	"verifharness/node"
)

// Violation is a ledger rule broken by a block list (found while replaying).
type Violation struct {
	Kind   string // "double-in-block" | "missing" | "already-spent"
	Op     ctypes.OutPoint
	Tx     common.Uint256 // spending transaction
	Height uint32
	By     common.Uint256 // for already-spent: the earlier spender
}

func (v Violation) String() string {
	s := fmt.Sprintf("%s %s:%d by tx %s at height %d", v.Kind, short(v.Op.TxID), v.Op.Index, short(v.Tx), v.Height)
	if v.Kind == "already-spent" {
		s += " (first spent by " + short(v.By) + ")"
	}
	return s
}

func short(h common.Uint256) string { return h.String()[:12] }

// TxPos is where a transaction sits on a replayed chain.
type TxPos struct {
	Height uint32
	Block  common.Uint256
	Index  int
}

// Ledger is the reference state obtained by replaying a list of blocks
// (written for this harness, shares no code with the node).
type Ledger struct {
	UTXO    node.UTXOSet                       // unspent outputs (including zero-value ones)
	Created map[ctypes.OutPoint]node.Coin      // every output ever created on this chain
	SpentBy map[ctypes.OutPoint]common.Uint256 // outpoint -> spending tx
	TxAt    map[common.Uint256]TxPos           // txid -> position
	Height  uint32
	Viol    []Violation
}

// NewLedger returns an empty ledger.
func NewLedger() *Ledger {
	return &Ledger{UTXO: node.UTXOSet{}, Created: map[ctypes.OutPoint]node.Coin{},
		SpentBy: map[ctypes.OutPoint]common.Uint256{}, TxAt: map[common.Uint256]TxPos{}}
}

// Clone deep-copies the ledger.
func (l *Ledger) Clone() *Ledger {
	c := &Ledger{UTXO: l.UTXO.Clone(), Created: make(map[ctypes.OutPoint]node.Coin, len(l.Created)),
		SpentBy: make(map[ctypes.OutPoint]common.Uint256, len(l.SpentBy)),
		TxAt:    make(map[common.Uint256]TxPos, len(l.TxAt)), Height: l.Height}
	for k, v := range l.Created {
		c.Created[k] = v
	}
	for k, v := range l.SpentBy {
		c.SpentBy[k] = v
	}
	for k, v := range l.TxAt {
		c.TxAt[k] = v
	}
	c.Viol = append(c.Viol, l.Viol...)
	return c
}

// Apply connects one block.  The node validates every transaction of a block
// against the state BEFORE the block (it never accepts a spend of an output
// created in the same block), so inputs are resolved against the pre-block
// set.  Violations are recorded and the offending input is skipped, so that a
// replay always completes.
func (l *Ledger) Apply(b *types.Block, keyOf func(common.Uint168) int) {
	spentHere := map[ctypes.OutPoint]common.Uint256{}
	bh := b.Hash()
	for _, tx := range b.Transactions {
		if tx.IsCoinBaseTx() {
			continue
		}
		th := tx.Hash()
		for _, in := range tx.Inputs() {
			op := in.Previous
			if by, dup := spentHere[op]; dup {
				l.Viol = append(l.Viol, Violation{"double-in-block", op, th, b.Height, by})
				continue
			}
			if _, ok := l.UTXO[op]; !ok {
				if by, was := l.SpentBy[op]; was {
					l.Viol = append(l.Viol, Violation{"already-spent", op, th, b.Height, by})
				} else {
					l.Viol = append(l.Viol, Violation{"missing", op, th, b.Height, common.Uint256{}})
				}
				continue
			}
			spentHere[op] = th
		}
	}
	for op, by := range spentHere {
		delete(l.UTXO, op)
		l.SpentBy[op] = by
	}
	for i, tx := range b.Transactions {
		th := tx.Hash()
		l.TxAt[th] = TxPos{b.Height, bh, i}
		for j, o := range tx.Outputs() {
			ki := -1
			if keyOf != nil {
				ki = keyOf(o.ProgramHash)
			}
			op := ctypes.OutPoint{TxID: th, Index: uint16(j)}
			c := node.Coin{Op: op, Value: o.Value, Owner: o.ProgramHash, KeyIdx: ki, Height: b.Height, IsCoinbase: tx.IsCoinBaseTx()}
			l.UTXO[op] = c
			l.Created[op] = c
		}
	}
	l.Height = b.Height
}

// ReplayBlocks replays blocks[0..] from the empty ledger.
func ReplayBlocks(blocks []*types.Block, keyOf func(common.Uint168) int) *Ledger {
	l := NewLedger()
	for _, b := range blocks {
		l.Apply(b, keyOf)
	}
	return l
}

// Mature tells whether coin c may be spent by a block of height spendHeight
// (node rule: tipHeight - coinbaseHeight >= maturity, tip = spendHeight-1).
func Mature(c node.Coin, spendHeight, maturity uint32) bool {
	return !c.IsCoinbase || spendHeight >= c.Height+maturity+1
}

// Spendable lists ring-owned mature coins of the ledger in deterministic order
// (zero-value outputs included).
func (l *Ledger) Spendable(spendHeight, maturity uint32) []node.Coin {
	var out []node.Coin
	for _, c := range l.UTXO.Sorted() {
		if c.KeyIdx < 0 || !Mature(c, spendHeight, maturity) {
			continue
		}
		out = append(out, c)
	}
	return out
}

// Spent lists outputs that were created and spent on this chain, deterministic order.
func (l *Ledger) Spent() []node.Coin {
	var out []node.Coin
	for op := range l.SpentBy {
		if c, ok := l.Created[op]; ok {
			out = append(out, c)
		}
	}
	sortCoins(out)
	return out
}

func sortCoins(cs []node.Coin) {
	sort.Slice(cs, func(i, j int) bool {
		if c := cs[i].Op.TxID.Compare(cs[j].Op.TxID); c != 0 {
			return c < 0
		}
		return cs[i].Op.Index < cs[j].Op.Index
	})
}
