// Package polkit holds what the two consensus-policy checks (C31 cross-chain
// UTXO emergency policy, C32 frozen addresses) share: an independent address
// codec, transaction construction for every transaction type, a real
// blockchain.BlockChain fixture whose CheckTransactionContext is the entry the
// node uses, and a runner that loads generated configuration files through
// settings.SetupConfig with every global it touches reset.
package polkit

import (
	"bytes"
	"crypto/sha256"
	"errors"
	"fmt"
	"math/big"
	"os"
	"path/filepath"

	"github.com/elastos/Elastos.ELA/blockchain"
	"github.com/elastos/Elastos.ELA/common"
	"github.com/elastos/Elastos.ELA/common/config"
	"github.com/elastos/Elastos.ELA/common/config/settings"
	"github.com/elastos/Elastos.ELA/common/log"
	"github.com/elastos/Elastos.ELA/core"
	"github.com/elastos/Elastos.ELA/core/checkpoint"
	"github.com/elastos/Elastos.ELA/core/transaction"
	"github.com/elastos/Elastos.ELA/core/types"
	ctypes "github.com/elastos/Elastos.ELA/core/types/common"
	"github.com/elastos/Elastos.ELA/core/types/functions"
	"github.com/elastos/Elastos.ELA/core/types/interfaces"
	crstate "github.com/elastos/Elastos.ELA/cr/state"
	"github.com/elastos/Elastos.ELA/dpos/state"
	"github.com/elastos/Elastos.ELA/elanet/pact"
)

// ---------------------------------------------------------------------------
// Constants transcribed from the property statements / the coordinated
// announcement (NOT read from the config package, so that a change of the
// constants themselves is seen as a deviation).
const (
	MainNetFreezeHeight      uint32 = 2256110
	MainNetRestrictionHeight uint32 = 2256724
	Disabled                 uint32 = 0xFFFFFFFF
	MainNetFrozenAddress            = "EfduuvdDcAgif8njgXNJUfsBumQf9yYP72"
	MainNetFrozenStart       uint32 = 2256110
	MainNetMagic             uint32 = 2017001
	MainNetFoundation               = "8VYXVxKKSAxkmRrfmGpQR2Kc66XhG6m3ta"
	PrefixCrossChain         byte   = 0x4B // 'X' addresses
)

// ---------------------------------------------------------------------------
// Independent address codec.  ELA addresses are base58(decimal-string(
// bigint(programhash || sha256d(programhash)[:4]))).

const b58 = "123456789ABCDEFGHJKLMNPQRSTUVWXYZabcdefghijkmnopqrstuvwxyz"

func sha256d(b []byte) []byte {
	a := sha256.Sum256(b)
	c := sha256.Sum256(a[:])
	return c[:]
}

// EncodeAddress renders a 21-byte program hash as an address.
func EncodeAddress(h [21]byte) string {
	data := append(append([]byte{}, h[:]...), sha256d(h[:])[:4]...)
	n := new(big.Int).SetBytes(data)
	var out []byte
	zero := big.NewInt(0)
	radix := big.NewInt(58)
	mod := new(big.Int)
	for n.Cmp(zero) > 0 {
		n.DivMod(n, radix, mod)
		out = append(out, b58[mod.Int64()])
	}
	for i, j := 0, len(out)-1; i < j; i, j = i+1, j-1 {
		out[i], out[j] = out[j], out[i]
	}
	return string(out)
}

// DecodeAddress is the inverse; ok=false for anything that is not the
// canonical 34-character encoding of a 21-byte hash with a valid checksum.
func DecodeAddress(s string) (h [21]byte, ok bool) {
	if len(s) != 34 {
		return h, false
	}
	n := new(big.Int)
	radix := big.NewInt(58)
	for i := 0; i < len(s); i++ {
		k := bytes.IndexByte([]byte(b58), s[i])
		if k < 0 {
			return h, false
		}
		n.Mul(n, radix)
		n.Add(n, big.NewInt(int64(k)))
	}
	raw := n.Bytes()
	if len(raw) != 25 {
		return h, false
	}
	copy(h[:], raw[:21])
	if !bytes.Equal(sha256d(raw[:21])[:4], raw[21:]) {
		return h, false
	}
	if EncodeAddress(h) != s {
		return h, false
	}
	return h, true
}

// ---------------------------------------------------------------------------
// Transactions.

// WireFunctions installs the transaction factory functions (as main does).
func WireFunctions() {
	functions.GetTransactionByTxType = transaction.GetTransaction
	functions.GetTransactionByBytes = transaction.GetTransactionByBytes
	functions.CreateTransaction = transaction.CreateTransaction
	functions.GetTransactionParameters = transaction.GetTransactionparameters
}

var allTypes []ctypes.TxType

// TxTypes lists every transaction type the node can instantiate.
func TxTypes() []ctypes.TxType {
	if allTypes == nil {
		for i := 0; i < 256; i++ {
			if _, err := transaction.GetTransaction(ctypes.TxType(i)); err == nil {
				allTypes = append(allTypes, ctypes.TxType(i))
			}
		}
	}
	return allTypes
}

// NewTx builds a transaction of the given type the way the node's factory
// does, with a zero payload of the right Go type.
func NewTx(txType ctypes.TxType, payloadVersion byte, inputs []*ctypes.Input,
	outputs []*ctypes.Output, lockTime uint32) (interfaces.Transaction, error) {
	if _, err := transaction.GetTransaction(txType); err != nil {
		return nil, err
	}
	p, err := interfaces.GetPayload(txType, payloadVersion)
	if err != nil {
		p = nil
	}
	version := ctypes.TxVersionDefault
	if txType != ctypes.CoinBase && txType != ctypes.RegisterAsset {
		version = ctypes.TxVersion09
	}
	tx := transaction.CreateTransaction(version, txType, payloadVersion, p,
		nil, inputs, outputs, lockTime, nil)
	return tx, nil
}

// Hash168 builds a program hash from a prefix byte and a small tag.
func Hash168(prefix byte, tag uint32) common.Uint168 {
	var h common.Uint168
	h[0] = prefix
	s := sha256.Sum256([]byte(fmt.Sprintf("polkit-%d", tag)))
	copy(h[1:], s[:20])
	return h
}

// ---------------------------------------------------------------------------
// Chain fixture.

// Chain is a real BlockChain on a fresh store holding only the genesis block.
type Chain struct {
	Chain  *blockchain.BlockChain
	Params *config.Configuration
	Dir    string
	store  blockchain.IChainStore
	seq    uint64
}

var logInit bool

// NewChain builds the fixture (one per process is enough; cases reset the
// parameters they touch).
func NewChain() (*Chain, error) {
	WireFunctions()
	dir, err := os.MkdirTemp("", "polkit-chain")
	if err != nil {
		return nil, err
	}
	if !logInit {
		log.NewDefault(filepath.Join(dir, "logs"), 6, 0, 0)
		logInit = true
	}
	p := config.GetDefaultParams()
	p.DataDir = dir
	p.Sterilize()
	config.DefaultParams = *p
	config.Parameters = p
	blockchain.FoundationAddress = *p.FoundationProgramHash

	ckp := checkpoint.NewManager(p)
	ckp.SetDataPath(filepath.Join(dir, "checkpoints"))
	store, err := blockchain.NewChainStore(filepath.Join(dir, "data"), p)
	if err != nil {
		return nil, err
	}
	committee := crstate.NewCommittee(p, ckp)
	chain, err := blockchain.New(store, p,
		state.NewState(p, nil, nil, nil, func() bool { return false },
			nil, nil, nil, nil, nil, nil, nil),
		committee, ckp)
	if err != nil {
		return nil, err
	}
	c := &Chain{Chain: chain, Params: p, Dir: dir, store: store}
	committee.RegisterFuncitons(&crstate.CommitteeFuncsConfig{
		GetTxReference: chain.UTXOCache.GetTxReference,
		GetUTXO:        store.GetFFLDB().GetUTXO,
		GetHeight:      func() uint32 { return 0 },
		CreateCRAppropriationTransaction: chain.CreateCRCAppropriationTransaction,
	})
	if err := chain.Init(nil); err != nil {
		return nil, err
	}
	arbiters, err := state.NewArbitrators(p, nil, nil, nil, nil, nil, nil, nil, nil, ckp)
	if err != nil {
		return nil, err
	}
	arbiters.RegisterFunction(store.GetHeight,
		func() *common.Uint256 { return &common.Uint256{} },
		func(height uint32) (*types.Block, error) { return nil, nil }, nil)
	blockchain.DefaultLedger = &blockchain.Ledger{Arbitrators: arbiters, Store: store,
		Committee: committee, Blockchain: chain}
	return c, nil
}

// Close releases the store and deletes the directory.
func (c *Chain) Close() {
	if c == nil {
		return
	}
	c.store.Close()
	os.RemoveAll(c.Dir)
}

// Spendable registers `out` as the output referenced by a fresh input (the
// way the node's reference cache knows outputs of earlier transactions) and
// returns that input.
func (c *Chain) Spendable(out ctypes.Output) *ctypes.Input {
	c.seq++
	var id common.Uint256
	s := sha256.Sum256([]byte(fmt.Sprintf("polkit-prev-%d", c.seq)))
	copy(id[:], s[:])
	in := &ctypes.Input{Previous: ctypes.OutPoint{TxID: id, Index: uint16(c.seq % 3)}, Sequence: 0}
	if out.AssetID == (common.Uint256{}) {
		out.AssetID = core.ELAAssetID
	}
	c.Chain.UTXOCache.InsertReference(in, &out)
	return in
}

// ResetCache forgets all registered references.
func (c *Chain) ResetCache() { c.Chain.UTXOCache.CleanCache() }

// ---------------------------------------------------------------------------
// Configuration loading.

// ConfigRun describes one start-up: the files present in the working
// directory and the command line.
type ConfigRun struct {
	Files map[string]string // name -> content, created in the temp working dir
	Args  []string          // nil: SetupConfig(false,..) like cmd/rollback; else os.Args[1:] for SetupConfig(true,..) like main
}

// RunSetupConfig executes settings.SetupConfig in a fresh temporary working
// directory with every global it reads or writes reset first, and restores the
// process state afterwards.  Relative paths in Args are relative to that dir.
func RunSetupConfig(r ConfigRun) (cfg *config.Configuration, err error) {
	dir, e := os.MkdirTemp("", "polkit-cfg")
	if e != nil {
		return nil, e
	}
	defer os.RemoveAll(dir)
	for name, content := range r.Files {
		if e := os.WriteFile(filepath.Join(dir, name), []byte(content), 0o644); e != nil {
			return nil, e
		}
	}
	old, e := os.Getwd()
	if e != nil {
		return nil, e
	}
	if e := os.Chdir(dir); e != nil {
		return nil, e
	}
	oldArgs := os.Args
	oldStdout := os.Stdout
	defer func() {
		os.Args = oldArgs
		os.Stdout = oldStdout
		os.Chdir(old)
		if p := recover(); p != nil {
			err = fmt.Errorf("SetupConfig panicked: %v", p)
		}
	}()
	// globals SetupConfig reads/writes
	config.DefaultParams = *config.GetDefaultParams()
	config.Parameters = nil
	pact.MaxBlockContextSize = 8000000
	pact.MaxBlockHeaderSize = 1000000
	pact.MaxTxPerBlock = 10000
	functions.GetTransactionByTxType = nil
	functions.GetTransactionByBytes = nil
	functions.CreateTransaction = nil
	functions.GetTransactionParameters = nil

	withScrew := r.Args != nil
	if withScrew {
		os.Args = append([]string{"ela"}, r.Args...)
	}
	cfg = settings.NewSettings().SetupConfig(withScrew, "about", "version")
	if cfg == nil {
		return nil, errors.New("SetupConfig returned nil")
	}
	return cfg, nil
}
