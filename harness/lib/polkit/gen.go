package polkit

import (
	"encoding/json"
	"fmt"
	"sort"
	"strings"

	"github.com/elastos/Elastos.ELA/common/config"
	"pgregory.net/rapid"
)

// U32Around draws a uint32 biased to the neighbourhood of the anchors and to
// the ends of the range.
func U32Around(t *rapid.T, label string, anchors ...uint32) uint32 {
	k := rapid.IntRange(0, 9).Draw(t, label+"-kind")
	switch {
	case k <= 5 && len(anchors) > 0:
		a := anchors[rapid.IntRange(0, len(anchors)-1).Draw(t, label+"-anchor")]
		d := int64(rapid.IntRange(-2, 2).Draw(t, label+"-delta"))
		v := int64(a) + d
		if v < 0 {
			v = 0
		}
		if v > 0xFFFFFFFF {
			v = 0xFFFFFFFF
		}
		return uint32(v)
	case k == 6:
		return []uint32{0, 1, 2, 0xFFFFFFFE, 0xFFFFFFFF, 0x7FFFFFFF, 0x80000000}[rapid.IntRange(0, 6).Draw(t, label+"-edge")]
	case k == 7:
		return uint32(rapid.IntRange(0, 3000).Draw(t, label+"-small"))
	default:
		return rapid.Uint32().Draw(t, label+"-any")
	}
}

// ---------------------------------------------------------------------------
// Configuration cases.

// NetClass is how the statement's words classify an ActiveNet name.
type NetClass string

const (
	NetMain    NetClass = "mainnet-name" // absent, "", "mainnet", "main" in any ASCII case
	NetOther   NetClass = "other-net"    // testnet/test/regnet/regtest/reg in any ASCII case
	NetUnknown NetClass = "unknown-name" // anything else
)

func asciiLower(s string) string {
	b := []byte(s)
	for i, c := range b {
		if c >= 'A' && c <= 'Z' {
			b[i] = c + 32
		}
	}
	return string(b)
}

// ClassifyNet classifies a network name.
func ClassifyNet(name string) NetClass {
	switch asciiLower(name) {
	case "", "mainnet", "main":
		return NetMain
	case "testnet", "test", "regnet", "regtest", "reg":
		return NetOther
	}
	return NetUnknown
}

// ConfigCase is one generated start-up.
type ConfigCase struct {
	Run        ConfigRun
	FileText   string
	FileName   string
	NetWritten string // JSON text of the ActiveNet value written ("" = absent)
	Overrides  []string
	Malformed  bool
	NoFile     bool
	TouchesIdentity bool // file/CLI overrides Magic or the foundation address
	OverridesHeights bool
	OverridesFrozen  bool
}

func randCase(t *rapid.T, s string, label string) string {
	mode := rapid.IntRange(0, 3).Draw(t, label+"-case")
	switch mode {
	case 0:
		return s
	case 1:
		return strings.ToUpper(s)
	case 2:
		return strings.ToLower(s)
	}
	b := []byte(s)
	for i := range b {
		if rapid.Bool().Draw(t, label+"-flip") {
			if b[i] >= 'a' && b[i] <= 'z' {
				b[i] -= 32
			} else if b[i] >= 'A' && b[i] <= 'Z' {
				b[i] += 32
			}
		}
	}
	return string(b)
}

var unknownNames = []string{
	"private-net", "mainnet ", " mainnet", "main-net", "main_net", "mainnet1", "mainnet\n", "main net",
	"mainnet.", "prod", "production", "ela", "mainnet-arbiter", "testnet2", "regnet ", " testnet", "tes",
	"regtes", "1", "true", "null", "0", "maınnet", "mainnét", "ｍａｉｎｎｅｔ",
	"майннет", "MainNet2", "TestNet_", "reg test", "x",
}

// ValidAddresses are well-formed addresses a config may mention.
var ValidAddresses = []string{
	MainNetFrozenAddress,
	"EJMzC16Eorq9CuFCGtyMrq4Jmgw9jYCHQR",
	"8ZNizBf4KhhPjeJRGpox6rPcHE5Np6tFx3",
	"XKUh4GLhFJiqAMTF6HyWQrV9pK9HcGUdfJ",
	"ELANULLXXXXXXXXXXXXXXXXXXXXXYvs3rr",
}

var invalidAddresses = []string{"", "E", "EfduuvdDcAgif8njgXNJUfsBumQf9yYP73", "not-an-address", "0000000000000000000000000000000000",
	"EfduuvdDcAgif8njgXNJUfsBumQf9yYP7", "efduuvddcagif8njgxnjufsbumqf9yyp72"}

func jsonNum(t *rapid.T, label string, anchors ...uint32) string {
	k := rapid.IntRange(0, 11).Draw(t, label+"-form")
	switch k {
	case 0:
		return `"` + fmt.Sprint(U32Around(t, label, anchors...)) + `"` // weakly typed string
	case 1:
		return "-1"
	case 2:
		return "4294967296"
	case 3:
		return "1.5"
	case 4:
		return "null"
	case 5:
		return `"abc"`
	case 6:
		return "true"
	}
	return fmt.Sprint(U32Around(t, label, anchors...))
}

// GenConfig draws a configuration case.
func GenConfig(t *rapid.T) *ConfigCase {
	c := &ConfigCase{FileName: "config.json"}
	type kv struct{ k, v string }
	var fields []kv
	add := func(k, v string) {
		fields = append(fields, kv{randCase(t, k, "key"), v})
		c.Overrides = append(c.Overrides, k)
	}

	// ActiveNet
	switch rapid.IntRange(0, 11).Draw(t, "net-kind") {
	case 0: // absent
	case 1:
		c.NetWritten = `""`
	case 2, 3, 4:
		name := randCase(t, rapid.SampledFrom([]string{"mainnet", "main"}).Draw(t, "main-spelling"), "net")
		b, _ := json.Marshal(name)
		c.NetWritten = string(b)
	case 5, 6, 7:
		name := randCase(t, rapid.SampledFrom([]string{"testnet", "test", "regnet", "regtest", "reg"}).Draw(t, "other-spelling"), "net")
		b, _ := json.Marshal(name)
		c.NetWritten = string(b)
	case 8, 9, 10:
		var name string
		if rapid.IntRange(0, 4).Draw(t, "unknown-random") == 0 {
			name = rapid.StringMatching(`[a-zA-Z0-9 _\-]{1,12}`).Draw(t, "unknown-name")
		} else {
			name = rapid.SampledFrom(unknownNames).Draw(t, "unknown-listed")
		}
		b, _ := json.Marshal(name)
		c.NetWritten = string(b)
	case 11:
		c.NetWritten = rapid.SampledFrom([]string{"1", "0", "true", "false", "null", `["mainnet"]`, `["testnet"]`, `{"a":1}`, "1.5", "-7"}).Draw(t, "net-nonstring")
	}
	if c.NetWritten != "" {
		fields = append(fields, kv{randCase(t, "ActiveNet", "key"), c.NetWritten})
	}

	// the two policy heights
	if rapid.IntRange(0, 3).Draw(t, "ovr-freeze") != 0 {
		add("CrossChainUTXOFreezeHeight", jsonNum(t, "freeze", 0, MainNetFreezeHeight, MainNetRestrictionHeight, Disabled))
		c.OverridesHeights = true
	}
	if rapid.IntRange(0, 3).Draw(t, "ovr-restr") != 0 {
		add("CrossChainUTXORestrictionHeight", jsonNum(t, "restr", 0, MainNetFreezeHeight, MainNetRestrictionHeight, Disabled))
		c.OverridesHeights = true
	}
	// frozen list
	switch rapid.IntRange(0, 5).Draw(t, "ovr-frozen") {
	case 0, 1: // absent
	case 2:
		add("FrozenAddresses", rapid.SampledFrom([]string{"[]", "null", `"x"`, "{}", "7"}).Draw(t, "frozen-odd"))
		c.OverridesFrozen = true
	default:
		n := rapid.IntRange(1, 3).Draw(t, "frozen-n")
		var es []string
		for i := 0; i < n; i++ {
			var parts []string
			if rapid.IntRange(0, 4).Draw(t, "fa-has-addr") != 0 {
				var a string
				if rapid.IntRange(0, 3).Draw(t, "fa-valid") != 0 {
					a = rapid.SampledFrom(ValidAddresses).Draw(t, "fa-addr")
				} else {
					a = rapid.SampledFrom(invalidAddresses).Draw(t, "fa-bad")
				}
				b, _ := json.Marshal(a)
				parts = append(parts, fmt.Sprintf("%q:%s", randCase(t, "Address", "key"), b))
			}
			if rapid.IntRange(0, 4).Draw(t, "fa-has-h") != 0 {
				parts = append(parts, fmt.Sprintf("%q:%s", randCase(t, "DisableStartHeight", "key"),
					jsonNum(t, "fa-h", 0, MainNetFrozenStart, Disabled)))
			}
			es = append(es, "{"+strings.Join(parts, ",")+"}")
		}
		add("FrozenAddresses", "["+strings.Join(es, ",")+"]")
		c.OverridesFrozen = true
	}
	// identity and noise
	if rapid.IntRange(0, 5).Draw(t, "ovr-magic") == 0 {
		add("Magic", fmt.Sprint(rapid.SampledFrom([]uint32{1, 2017001, 2018101, 2018201, 7630401}).Draw(t, "magic")))
		c.TouchesIdentity = true
	}
	if rapid.IntRange(0, 7).Draw(t, "ovr-foundation") == 0 {
		b, _ := json.Marshal(rapid.SampledFrom([]string{"8ZNizBf4KhhPjeJRGpox6rPcHE5Np6tFx3", "EJMzC16Eorq9CuFCGtyMrq4Jmgw9jYCHQR", MainNetFoundation}).Draw(t, "foundation"))
		add("FoundationAddress", string(b))
		c.TouchesIdentity = true
	}
	if rapid.IntRange(0, 5).Draw(t, "ovr-instant") == 0 {
		add("PowConfiguration", `{"InstantBlock":true}`)
	}
	if rapid.IntRange(0, 5).Draw(t, "ovr-misc") == 0 {
		add("MaxBlockSize", fmt.Sprint(rapid.IntRange(0, 9000000).Draw(t, "maxblock")))
		add("DPoSConfiguration", `{"CRCArbiters":[],"EnableArbiter":false}`)
	}
	if rapid.IntRange(0, 7).Draw(t, "ovr-printlevel") == 0 {
		add("PrintLevel", `"zzz"`) // a field that fails to decode must not disturb the rest
	}

	// order of keys
	perm := rapid.Permutation(fields).Draw(t, "order")
	var parts []string
	for _, f := range perm {
		parts = append(parts, fmt.Sprintf("%q:%s", f.k, f.v))
	}
	body := "{" + strings.Join(parts, ",") + "}"
	text := fmt.Sprintf("{%q:%s}", randCase(t, "Configuration", "topkey"), body)

	switch rapid.IntRange(0, 19).Draw(t, "file-kind") {
	case 0:
		c.Malformed = true
		text = text[:len(text)-rapid.IntRange(1, len(text)/2+1).Draw(t, "trunc")]
	case 1:
		c.NoFile = true
	}
	c.FileText = text

	// command line
	switch rapid.IntRange(0, 5).Draw(t, "cli") {
	case 0, 1, 2: // like cmd/rollback: no command-line binding
	case 3:
		c.Run.Args = []string{}
	case 4:
		c.FileName = rapid.SampledFrom([]string{"node.json", "my.config.json", "CONFIG.JSON", "node.yaml", "node.yml"}).Draw(t, "conf-name")
		c.Run.Args = []string{"--conf", "./" + c.FileName}
	case 5:
		m := rapid.SampledFrom([]uint32{2017001, 2018101, 5}).Draw(t, "cli-magic")
		c.Run.Args = []string{"--magic", fmt.Sprint(m)}
		c.TouchesIdentity = true
	}
	if !c.NoFile {
		c.Run.Files = map[string]string{c.FileName: c.FileText}
	}
	sort.Strings(c.Overrides)
	return c
}

// Render is the JSON-able form of the case.
func (c *ConfigCase) Render() any {
	return map[string]any{"file": c.FileName, "text": c.FileText, "no_file": c.NoFile, "args": c.Run.Args}
}

// Key identifies the case.
func (c *ConfigCase) Key() []byte {
	b, _ := json.Marshal(c.Render())
	return b
}

// MainNetIdentity tells whether a loaded configuration still carries the
// mainnet network identity (magic number and foundation/genesis address).
func MainNetIdentity(cfg *config.Configuration) bool {
	want, _ := DecodeAddress(MainNetFoundation)
	if cfg.Magic != MainNetMagic || cfg.FoundationProgramHash == nil {
		return false
	}
	return [21]byte(*cfg.FoundationProgramHash) == want
}
