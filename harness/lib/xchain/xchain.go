// Package xchain builds side-chain withdrawal fixtures whose arbiter keys the
// harness owns: raw cross-chain multisig scripts (m, n and the key list are
// free parameters, so the harness can lie about any of them), ECDSA signature
// parameters, and an independent Schnorr signer for aggregated keys.
// Nothing here draws randomness.
package xchain

import (
	"crypto/elliptic"
	"crypto/sha256"
	"encoding/hex"
	"fmt"
	"math/big"

	"github.com/elastos/Elastos.ELA/common"
	"github.com/elastos/Elastos.ELA/core/contract"
	"github.com/elastos/Elastos.ELA/dpos/state"
	"verifharness/gen"
)

const (
	opPush1      = 0x51
	opCrossChain = common.CROSSCHAIN
)

// Keys returns n deterministic arbiter keys (seeds base+1 .. base+n).
func Keys(n int, base uint64) []*gen.Key {
	ks := make([]*gen.Key, n)
	for i := range ks {
		ks[i] = gen.KeyFromSeed(base + uint64(i) + 1)
	}
	return ks
}

// Pubs lists the 33-byte public keys.
func Pubs(ks []*gen.Key) [][]byte {
	out := make([][]byte, len(ks))
	for i, k := range ks {
		out[i] = k.PK
	}
	return out
}

// HexPubs lists the public keys as hex strings (config OriginArbiters / CRCArbiters format).
func HexPubs(ks []*gen.Key) []string {
	out := make([]string, len(ks))
	for i, k := range ks {
		out[i] = hex.EncodeToString(k.PK)
	}
	return out
}

// Members turns keys into arbiter members for state.ArbitratorsMock.
func Members(ks []*gen.Key) []state.ArbiterMember {
	out := make([]state.ArbiterMember, 0, len(ks))
	for _, k := range ks {
		a, err := state.NewOriginArbiter(k.PK)
		if err != nil {
			panic("xchain: NewOriginArbiter: " + err.Error())
		}
		out = append(out, a)
	}
	return out
}

// Code builds PUSH(m) {0x21 pk}* PUSH(nByte) CROSSCHAIN without sorting or
// validating anything: nByte may differ from len(pubs).
func Code(m int, pubs [][]byte, nByte int) []byte {
	c := []byte{byte(opPush1 + m - 1)}
	for _, pk := range pubs {
		c = append(c, byte(len(pk)))
		c = append(c, pk...)
	}
	c = append(c, byte(opPush1+nByte-1), opCrossChain)
	return c
}

// Param concatenates length-prefixed signatures.
func Param(sigs [][]byte) []byte {
	p := []byte{}
	for _, s := range sigs {
		p = append(p, byte(len(s)))
		p = append(p, s...)
	}
	return p
}

// XHash is a cross-chain ("X") program hash with the given tag.
func XHash(tag byte) common.Uint168 {
	var h common.Uint168
	h[0] = byte(contract.PrefixCrossChain)
	h[20] = tag
	return h
}

// ---------------------------------------------------------------------------
// Schnorr over P-256 as the node verifies it (crypto.SchnorrVerify), written
// independently of the node's signer.

var curve = elliptic.P256()

func pad32(i *big.Int) []byte {
	b := make([]byte, 32)
	i.FillBytes(b)
	return b
}

func compress(x, y *big.Int) []byte {
	out := make([]byte, 33)
	out[0] = 2 + byte(y.Bit(0))
	copy(out[1:], pad32(x))
	return out
}

// SumPriv adds the private scalars of keys[idx...] (with multiplicity) mod N.
func SumPriv(keys []*gen.Key, idx []int) *big.Int {
	d := new(big.Int)
	for _, i := range idx {
		d.Add(d, new(big.Int).SetBytes(keys[i].Priv))
	}
	return d.Mod(d, curve.Params().N)
}

// PubOf returns the compressed point d*G (nil for d == 0).
func PubOf(d *big.Int) []byte {
	if d.Sign() == 0 {
		return nil
	}
	x, y := curve.ScalarBaseMult(pad32(d))
	return compress(x, y)
}

// SchnorrCode is the redeem script PUSH1 PUSHBYTES33 <pk> of an aggregated key.
func SchnorrCode(pk []byte) []byte {
	c := []byte{opPush1, byte(len(pk))}
	return append(c, pk...)
}

// SchnorrSign signs the 32-byte message with private scalar d (1 <= d < N),
// nonce derived from (d, msg).
func SchnorrSign(d *big.Int, msg [32]byte) ([]byte, error) {
	n, p := curve.Params().N, curve.Params().P
	if d.Sign() <= 0 || d.Cmp(n) >= 0 {
		return nil, fmt.Errorf("xchain: scalar out of range")
	}
	h := sha256.Sum256(append(append(pad32(d), msg[:]...), []byte("verif-nonce")...))
	k0 := new(big.Int).SetBytes(h[:])
	k0.Mod(k0, n)
	if k0.Sign() == 0 {
		k0.SetInt64(1)
	}
	rx, ry := curve.ScalarBaseMult(pad32(k0))
	k := k0
	if big.Jacobi(ry, p) != 1 {
		k = new(big.Int).Sub(n, k0)
	}
	px, py := curve.ScalarBaseMult(pad32(d))
	eh := sha256.Sum256(append(append(pad32(rx), compress(px, py)...), msg[:]...))
	e := new(big.Int).SetBytes(eh[:])
	e.Mod(e, n)
	s := new(big.Int).Mul(e, d)
	s.Add(s, k)
	s.Mod(s, n)
	return append(pad32(rx), pad32(s)...), nil
}
