package xchain

// Fixture shared by the units: an in-process node whose store holds a funding
// block (saved through the real IChainStore.SaveBlock, the way the shipped
// kit_test fixture does) with cross-chain ("X") and standard outputs, and a
// harness-owned arbiter set installed in blockchain.DefaultLedger.Arbitrators.

import (
	"bytes"
	"encoding/binary"
	"fmt"

	"github.com/elastos/Elastos.ELA/blockchain"
	"github.com/elastos/Elastos.ELA/common"
	"github.com/elastos/Elastos.ELA/common/config"
	"github.com/elastos/Elastos.ELA/core"
	"github.com/elastos/Elastos.ELA/core/contract/program"
	"github.com/elastos/Elastos.ELA/core/types"
	ctypes "github.com/elastos/Elastos.ELA/core/types/common"
	"github.com/elastos/Elastos.ELA/core/types/functions"
	"github.com/elastos/Elastos.ELA/core/types/interfaces"
	"github.com/elastos/Elastos.ELA/core/types/outputpayload"
	"github.com/elastos/Elastos.ELA/core/types/payload"
	"github.com/elastos/Elastos.ELA/dpos/state"
	"verifharness/gen"
	"verifharness/node"
)

const MaxArbiters = 8

type Coin struct {
	Op    ctypes.OutPoint
	Val   common.Fixed64
	Owner common.Uint168
	Key   int // ring key index for standard owners, -1 for X
}

type Fixture struct {
	N        *node.Node
	ArbKeys  []*gen.Key // pool of arbiter keys (harness-owned)
	Foreign  []*gen.Key // keys that are never arbiters
	Mock     *state.ArbitratorsMock
	TipNode  *blockchain.BlockNode
	TipBlock *types.Block
	XCoins   []Coin
	SCoins   []Coin
	nonce    uint64
}

func (f *Fixture) NonceAttr() *ctypes.Attribute {
	f.nonce++
	b := make([]byte, 8)
	binary.BigEndian.PutUint64(b, f.nonce)
	a := ctypes.NewAttribute(ctypes.Nonce, b)
	return &a
}

func (f *Fixture) FreshHash(tag string) common.Uint256 {
	f.nonce++
	return common.Hash([]byte(fmt.Sprintf("%s-%d", tag, f.nonce)))
}

func PlainOut(v common.Fixed64, to common.Uint168) *ctypes.Output {
	return &ctypes.Output{AssetID: core.ELAAssetID, Value: v, ProgramHash: to, Type: ctypes.OTNone, Payload: &outputpayload.DefaultOutput{}}
}

// saveBlock appends a synthetic block to the store (no validation: store level).
func (f *Fixture) SaveBlock(txs []interfaces.Transaction) (*types.Block, *blockchain.BlockNode, error) {
	height := f.TipBlock.Height + 1
	cb := f.N.NewCoinbase(height, 0, f.nonce)
	f.nonce++
	raw := &types.Block{
		Header: ctypes.Header{Previous: f.TipBlock.Hash(), Timestamp: f.TipBlock.Timestamp + 1, Height: height,
			Bits: f.N.Params.PowConfiguration.PowLimitBits, Nonce: uint32(f.nonce)},
		Transactions: append([]interfaces.Transaction{cb}, txs...),
	}
	if err := f.N.Seal(raw, false); err != nil {
		return nil, nil, err
	}
	buf := new(bytes.Buffer)
	if err := raw.Serialize(buf); err != nil {
		return nil, nil, err
	}
	b := &types.Block{}
	if err := b.Deserialize(bytes.NewReader(buf.Bytes())); err != nil {
		return nil, nil, err
	}
	h := b.Hash()
	bn := blockchain.NewBlockNode(&b.Header, &h)
	bn.Parent = f.TipNode
	bn.InMainChain = true
	if err := f.N.Store.SaveBlock(b, bn, nil, blockchain.CalcPastMedianTime(f.TipNode)); err != nil {
		return nil, nil, err
	}
	f.TipBlock, f.TipNode = b, bn
	return b, bn, nil
}

// rollbackTip undoes the last saveBlock.
func (f *Fixture) RollbackTip() error {
	stored, err := f.N.Store.GetFFLDB().GetBlock(f.TipBlock.Hash())
	if err != nil {
		return err
	}
	if err := f.N.Store.RollbackBlock(stored.Block, f.TipNode, nil, blockchain.CalcPastMedianTime(f.TipNode.Parent)); err != nil {
		return err
	}
	parent := f.TipNode.Parent
	pb, err := f.N.Store.GetFFLDB().GetBlock(*parent.Hash)
	if err != nil {
		return err
	}
	f.TipNode, f.TipBlock = parent, pb.Block
	return nil
}

// newFixture builds the node, funds nX outputs on each of 3 X addresses and
// nS standard outputs, and installs the arbiter mock.
func NewFixture(nX, nS int, tweak func(p *config.Configuration)) (*Fixture, error) {
	n, err := node.New(node.Opts{Tweak: tweak})
	if err != nil {
		return nil, err
	}
	f := &Fixture{N: n, ArbKeys: Keys(MaxArbiters, 7000), Foreign: Keys(4, 9000)}
	f.TipNode = n.Chain.BestChain
	f.TipBlock = n.Genesis
	// the genesis coin pays everything
	var gen0 interfaces.Transaction
	for _, tx := range n.Genesis.Transactions {
		if tx.IsCoinBaseTx() {
			gen0 = tx
		}
	}
	in := &ctypes.Input{Previous: ctypes.OutPoint{TxID: gen0.Hash(), Index: 0}}
	var outs []*ctypes.Output
	const each = common.Fixed64(10 * 100000000)
	for a := 0; a < 3; a++ {
		for i := 0; i < nX; i++ {
			outs = append(outs, PlainOut(each, XHash(byte(a+1))))
		}
	}
	for i := 0; i < nS; i++ {
		outs = append(outs, PlainOut(each, n.Keys[1].ProgramHash))
	}
	fund := functions.CreateTransaction(ctypes.TxVersion09, ctypes.TransferAsset, 0, &payload.TransferAsset{},
		[]*ctypes.Attribute{f.NonceAttr()}, []*ctypes.Input{in}, outs, 0, []*program.Program{{Code: []byte{1}, Parameter: []byte{1}}})
	if _, _, err := f.SaveBlock([]interfaces.Transaction{fund}); err != nil {
		n.Close()
		return nil, err
	}
	h := fund.Hash()
	for i, o := range outs {
		c := Coin{ctypes.OutPoint{TxID: h, Index: uint16(i)}, o.Value, o.ProgramHash, -1}
		if o.ProgramHash == n.Keys[1].ProgramHash {
			c.Key = 1
			f.SCoins = append(f.SCoins, c)
		} else {
			f.XCoins = append(f.XCoins, c)
		}
	}
	f.Mock = state.NewArbitratorsMock(Members(f.ArbKeys[:5]), 0, 3)
	f.Mock.CRCArbitrators = f.Mock.CurrentArbitrators
	blockchain.DefaultLedger.Arbitrators = f.Mock
	return f, nil
}

// setArbiters installs keys[:n] as current (and CRC) arbiters.
func (f *Fixture) SetArbiters(n int, crcN int) {
	f.Mock.CurrentArbitrators = Members(f.ArbKeys[:n])
	f.Mock.CRCArbitrators = Members(f.ArbKeys[:crcN])
	f.Mock.MajorityCount = n * 2 / 3
}

// unsigned returns the bytes every program of tx signs.
func Unsigned(tx interfaces.Transaction) []byte {
	buf := new(bytes.Buffer)
	_ = tx.SerializeUnsigned(buf)
	return buf.Bytes()
}

// checkTx runs the node's complete sanity + context validation of tx at the
// given height under cfg, the way BlockChain.CheckTransactionSanity/Context do.
func (f *Fixture) CheckTx(tx interfaces.Transaction, height uint32, cfg *config.Configuration) (stage string, err error) {
	para := functions.GetTransactionParameters(tx, height, 0, cfg, f.N.Chain, 0)
	if e := tx.SanityCheck(para); e != nil {
		return "sanity", e
	}
	para = functions.GetTransactionParameters(tx, height, 0, cfg, f.N.Chain, 0)
	if _, e := tx.ContextCheck(para); e != nil {
		return "context", e
	}
	return "", nil
}

// WithdrawSpec describes an honestly authorised withdrawal.
type WithdrawSpec struct {
	Version byte             // payload version 0, 1, 2
	Hashes  []common.Uint256 // side-chain transaction hashes it withdraws
	Coins   []Coin           // cross-chain coins it spends
	Height  uint32           // payload BlockHeight (v0)
	Keys    []*gen.Key       // the current cross-chain arbiters, in the node's order
	M       int              // signatures required by the script / number of schnorr signers
	To      common.Uint168
	Fee     common.Fixed64
}

// HonestWithdraw builds and signs a withdrawal the arbiters Keys[0..M) authorise.
func (f *Fixture) HonestWithdraw(s WithdrawSpec) (interfaces.Transaction, error) {
	if s.Fee == 0 {
		s.Fee = 100
	}
	var total common.Fixed64
	owners := map[common.Uint168]bool{}
	var ins []*ctypes.Input
	for _, c := range s.Coins {
		total += c.Val
		owners[c.Owner] = true
		ins = append(ins, &ctypes.Input{Previous: c.Op})
	}
	total -= s.Fee
	pl := &payload.WithdrawFromSideChain{}
	var outs []*ctypes.Output
	txVersion := ctypes.TxVersion09
	const gaddr = "XQd1DCi6H62NQdWZQhJCRnrPn7sF9CTjaU"
	if s.Version == payload.WithdrawFromSideChainVersion {
		pl.BlockHeight = s.Height
		pl.GenesisBlockAddress = gaddr
		pl.SideChainTransactionHashes = append(pl.SideChainTransactionHashes, s.Hashes...)
		outs = append(outs, PlainOut(total, s.To))
	} else {
		each := total / common.Fixed64(len(s.Hashes))
		for i, h := range s.Hashes {
			v := each
			if i == len(s.Hashes)-1 {
				v = total - each*common.Fixed64(len(s.Hashes)-1)
			}
			o := PlainOut(v, s.To)
			o.Type = ctypes.OTWithdrawFromSideChain
			o.Payload = &outputpayload.Withdraw{Version: outputpayload.WithdrawOutputVersion, GenesisBlockAddress: gaddr,
				SideChainTransactionHash: h, TargetData: []byte("t")}
			outs = append(outs, o)
		}
	}
	var progs []*program.Program
	var code []byte
	if s.Version == payload.WithdrawFromSideChainVersionV2 {
		idx := make([]int, s.M)
		for i := range idx {
			idx[i] = i
			pl.Signers = append(pl.Signers, uint8(i))
		}
		code = SchnorrCode(PubOf(SumPriv(s.Keys, idx)))
	} else {
		code = Code(s.M, Pubs(s.Keys), len(s.Keys))
	}
	for range owners {
		progs = append(progs, &program.Program{Code: code})
	}
	tx := functions.CreateTransaction(txVersion, ctypes.WithdrawFromSideChain, s.Version, pl,
		[]*ctypes.Attribute{f.NonceAttr()}, ins, outs, 0, progs)
	data := Unsigned(tx)
	var param []byte
	if s.Version == payload.WithdrawFromSideChainVersionV2 {
		idx := make([]int, s.M)
		for i := range idx {
			idx[i] = i
		}
		sig, err := SchnorrSign(SumPriv(s.Keys, idx), common.Sha256D(data))
		if err != nil {
			return nil, err
		}
		param = sig
	} else {
		var sigs [][]byte
		for i := 0; i < s.M; i++ {
			sigs = append(sigs, s.Keys[i].Sign(data))
		}
		param = Param(sigs)
	}
	for _, p := range progs {
		p.Parameter = param
	}
	tx.SetPrograms(progs)
	return tx, nil
}

// WithdrawHashes lists the side-chain transaction hashes a withdrawal carries
// (payload list for v0, withdraw output payloads for v1/v2), read from the
// transaction alone.
func WithdrawHashes(tx interfaces.Transaction) []common.Uint256 {
	var hs []common.Uint256
	if tx.PayloadVersion() == payload.WithdrawFromSideChainVersion {
		if p, ok := tx.Payload().(*payload.WithdrawFromSideChain); ok {
			hs = append(hs, p.SideChainTransactionHashes...)
		}
		return hs
	}
	for _, o := range tx.Outputs() {
		if o.Type != ctypes.OTWithdrawFromSideChain {
			continue
		}
		if w, ok := o.Payload.(*outputpayload.Withdraw); ok {
			hs = append(hs, w.SideChainTransactionHash)
		}
	}
	return hs
}

// NodeArbiters is the size of the origin arbiter set of NewWithdrawNode.
const NodeArbiters = 5

// NewWithdrawNode builds an in-process node whose origin arbiters are harness
// keys and on which every withdrawal payload version is admissible in the
// PoW-era band the mini-node lives in (v0: legacy majority rule; v1:
// NormalArbitratorsCount+1 of the current arbiters; v2: MemberCount*2/3+1 signers).
func NewWithdrawNode(extra func(p *config.Configuration)) (*node.Node, []*gen.Key, error) {
	keys := Keys(NodeArbiters, 7000)
	n, err := node.New(node.Opts{Tweak: func(p *config.Configuration) {
		p.DPoSConfiguration.OriginArbiters = HexPubs(keys)
		p.NormalSchnorrStartHeight = 0
		p.CRConfiguration.MemberCount = 3
		p.DPoSConfiguration.DPOSNodeCrossChainHeight = 0
		p.DPoSConfiguration.NormalArbitratorsCount = 2
		if extra != nil {
			extra(p)
		}
	}})
	return n, keys, err
}

// SigsFor is the number of signatures / signers an honest withdrawal of the
// payload version needs on a NewWithdrawNode node.
func SigsFor(ver byte) int {
	if ver == 0 {
		return NodeArbiters*2/3 + 1 // strictly more than the majority count
	}
	return 3 // NormalArbitratorsCount+1 (v1), MemberCount*2/3+1 (v2)
}
