package vk

import (
	"os"
	"path/filepath"
	"sort"
	"strings"
)

// Race-detector integration.  The driver starts -race binaries with
// GORACE="log_path=<prefix> halt_on_error=0 exitcode=0" and VERIF_RACE_LOG=<prefix>.
// After the tests ran, Main parses the report files.  Each report has two access
// stacks.  An access is attributed to the first frame (from the top) that is
// repository code or harness code (runtime / stdlib / third-party frames above it
// are skipped).  If either access is made by harness code the report is a harness
// problem (exit 3 -> the driver reports infrastructure), never a verdict.
// Otherwise the verdict signature is
//
//	<prop>:race:<funcA> <-> <funcB>      (attributed functions, sorted)
//
// A known-finding entry may name that exact pair, or a root cause of the form
//
//	<prop>:race-involving:<func>
//
// which matches every report in which <func> appears ANYWHERE in one of the two
// access stacks ("everything this function does runs without the
// synchronisation it needs, whatever it races with").

type raceReport struct {
	sig    string
	text   string
	stacks [2][]string // repo functions of each access stack, top first
}

func stackFuncs(section string) (all []string, fn string, owner string) {
	owner = "none"
	for _, ln := range strings.Split(section, "\n") {
		if !(strings.HasPrefix(ln, "  ") && !strings.HasPrefix(ln, "   ") && strings.HasSuffix(ln, ")")) {
			continue
		}
		i := strings.LastIndex(ln, "(")
		if i <= 2 {
			continue
		}
		f := ln[2:i]
		switch {
		case strings.Contains(f, "github.com/elastos/Elastos.ELA/"):
			f = strings.TrimPrefix(f, "github.com/elastos/Elastos.ELA/")
			all = append(all, f)
			if owner == "none" {
				fn, owner = f, "repo"
			}
		case strings.HasPrefix(f, "verifharness/"):
			if owner == "none" {
				fn, owner = f, "harness"
			}
		}
	}
	return
}

// ParseRaceReports parses race-detector output text.
func ParseRaceReports(text string) (reps []raceReport, harness map[string]string) {
	harness = map[string]string{}
	seen := map[string]bool{}
	for _, blk := range strings.Split(text, "==================") {
		if !strings.Contains(blk, "WARNING: DATA RACE") {
			continue
		}
		secs := strings.Split(strings.TrimSpace(blk), "\n\n")
		var acc []string
		for _, s := range secs {
			t := strings.TrimSpace(s)
			t = strings.TrimPrefix(t, "WARNING: DATA RACE\n")
			if strings.HasPrefix(t, "Read at") || strings.HasPrefix(t, "Write at") ||
				strings.HasPrefix(t, "Previous read at") || strings.HasPrefix(t, "Previous write at") ||
				strings.HasPrefix(t, "Atomic") || strings.HasPrefix(t, "Previous atomic") {
				acc = append(acc, t)
			}
		}
		if len(acc) < 2 {
			continue
		}
		all1, f1, o1 := stackFuncs(acc[0])
		all2, f2, o2 := stackFuncs(acc[1])
		if o1 != "repo" || o2 != "repo" {
			harness[f1+" <-> "+f2] = firstLines(strings.TrimSpace(blk), 40)
			continue
		}
		pair := []string{f1, f2}
		sort.Strings(pair)
		sig := "race:" + pair[0] + " <-> " + pair[1]
		if seen[sig] {
			continue
		}
		seen[sig] = true
		reps = append(reps, raceReport{sig: sig, text: strings.TrimSpace(blk), stacks: [2][]string{all1, all2}})
	}
	sort.Slice(reps, func(i, j int) bool { return reps[i].sig < reps[j].sig })
	return
}

func firstLines(s string, n int) string {
	l := strings.Split(s, "\n")
	if len(l) > n {
		l = l[:n]
	}
	return strings.Join(l, "\n")
}

// processRaceLogs is called by Main after m.Run. It returns the number of
// unlisted race signatures (each recorded as a violation) and harness races.
func processRaceLogs() (unlisted int, harnessOnly int) {
	prefix := os.Getenv("VERIF_RACE_LOG")
	if prefix == "" {
		return 0, 0
	}
	files, _ := filepath.Glob(prefix + "*")
	var all strings.Builder
	for _, f := range files {
		b, err := os.ReadFile(f)
		if err == nil {
			all.Write(b)
			all.WriteString("\n")
		}
	}
	reps, harness := ParseRaceReports(all.String())
	st.mu.Lock()
	defer st.mu.Unlock()
	st.counters["race_reports_distinct"] += int64(len(reps))
	for k, v := range harness {
		st.notes["harness_race "+k] = v
		harnessOnly++
	}
	// root-cause entries of this property
	var involving []string
	pfx := st.property + "|" + st.property + ":race-involving:"
	for k := range st.known {
		if strings.HasPrefix(k, pfx) {
			involving = append(involving, strings.TrimPrefix(k, pfx))
		}
	}
	sort.Strings(involving)
	for _, r := range reps {
		sig := st.property + ":" + r.sig
		matched := ""
		if _, ok := st.known[st.property+"|"+sig]; ok {
			matched = sig
		} else {
		search:
			for _, f := range involving {
				for _, stk := range r.stacks {
					for _, g := range stk {
						if g == f {
							matched = st.property + ":race-involving:" + f
							break search
						}
					}
				}
			}
		}
		if matched != "" {
			st.excluded[matched]++
			st.knownWhat[matched] = st.known[st.property+"|"+matched].What
			st.counters["race_pair "+r.sig]++
			continue
		}
		path := writeReplay(sig, "data race reported by the Go race detector", map[string]any{"report": r.text})
		st.violations[sig] = path
		unlisted++
	}
	return unlisted, harnessOnly
}
