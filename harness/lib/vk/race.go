package vk

import (
	"os"
	"path/filepath"
	"regexp"
	"sort"
	"strings"
)

// Race-detector integration.  The driver starts -race binaries with
// GORACE="log_path=<prefix> halt_on_error=0 exitcode=0" and VERIF_RACE_LOG=<prefix>.
// After the tests ran, Main parses the report files: every report whose two
// access stacks touch the repository becomes a verdict with signature
// "<prop>:race:<funcA> <-> <funcB>" (top in-repo function of each stack,
// sorted), handled like any other Report (known finding or violation).

var raceFuncRe = regexp.MustCompile(`^  (\S.*)\(.*\)$`)

func topRepoFunc(section string) (string, bool) {
	first := ""
	for _, ln := range strings.Split(section, "\n") {
		m := raceFuncRe.FindStringSubmatch(ln)
		if m == nil {
			// function lines look like "  pkg.Func()" ; file lines are indented deeper
			if strings.HasPrefix(ln, "  ") && !strings.HasPrefix(ln, "   ") && strings.HasSuffix(ln, ")") {
				if i := strings.LastIndex(ln, "("); i > 2 {
					m = []string{ln, ln[2:i]}
				}
			}
			if m == nil {
				continue
			}
		}
		fn := m[1]
		if first == "" {
			first = fn
		}
		if strings.Contains(fn, "github.com/elastos/Elastos.ELA/") {
			return strings.TrimPrefix(fn, "github.com/elastos/Elastos.ELA/"), true
		}
	}
	return first, false
}

// RaceSignatures parses race-detector output text.
func RaceSignatures(text string) (sigs []string, reports map[string]string, harnessOnly int) {
	reports = map[string]string{}
	for _, blk := range strings.Split(text, "==================") {
		if !strings.Contains(blk, "WARNING: DATA RACE") {
			continue
		}
		secs := strings.Split(strings.TrimSpace(blk), "\n\n")
		var acc []string
		for _, s := range secs {
			t := strings.TrimSpace(s)
			t = strings.TrimPrefix(t, "WARNING: DATA RACE\n")
			if strings.HasPrefix(t, "Read at") || strings.HasPrefix(t, "Write at") ||
				strings.HasPrefix(t, "Previous read at") || strings.HasPrefix(t, "Previous write at") ||
				strings.HasPrefix(t, "Atomic") || strings.HasPrefix(t, "Previous atomic") {
				acc = append(acc, t)
			}
		}
		if len(acc) < 2 {
			continue
		}
		f1, r1 := topRepoFunc(acc[0])
		f2, r2 := topRepoFunc(acc[1])
		if !r1 && !r2 {
			harnessOnly++
			continue
		}
		pair := []string{f1, f2}
		sort.Strings(pair)
		sig := "race:" + pair[0] + " <-> " + pair[1]
		if _, ok := reports[sig]; !ok {
			sigs = append(sigs, sig)
			reports[sig] = strings.TrimSpace(blk)
		}
	}
	sort.Strings(sigs)
	return
}

// processRaceLogs is called by Main after m.Run. It returns the number of
// unlisted race signatures (each recorded as a violation) and harness-only races.
func processRaceLogs() (unlisted int, harnessOnly int) {
	prefix := os.Getenv("VERIF_RACE_LOG")
	if prefix == "" {
		return 0, 0
	}
	files, _ := filepath.Glob(prefix + "*")
	var all strings.Builder
	for _, f := range files {
		b, err := os.ReadFile(f)
		if err == nil {
			all.Write(b)
			all.WriteString("\n")
		}
	}
	sigs, reports, ho := RaceSignatures(all.String())
	st.mu.Lock()
	defer st.mu.Unlock()
	st.counters["race_reports_distinct"] += int64(len(sigs))
	for _, s := range sigs {
		sig := st.property + ":" + s
		if k, ok := st.known[st.property+"|"+sig]; ok {
			st.excluded[sig]++
			st.knownWhat[sig] = k.What
			continue
		}
		path := writeReplay(sig, "data race reported by the Go race detector", map[string]any{"report": reports[s]})
		st.violations[sig] = path
		unlisted++
	}
	return unlisted, ho
}
