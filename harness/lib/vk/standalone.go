package vk

import (
	"flag"
	"fmt"
	"os"
	"regexp"
	"sort"
	"sync"
	"testing"
)

// Standalone runner: runs "tests" WITHOUT the testing package's per-test
// machinery.  Needed for -race checks: package testing marks every test during
// which the race detector fired as failed, even when each reported race is a
// listed known finding; here the race reports are judged by processRaceLogs
// instead.  The TB passed to the functions satisfies rapid.TB.

type STB struct {
	name   string
	mu     sync.Mutex
	failed bool
}

type stbAbort struct{}

func (t *STB) Helper()      {}
func (t *STB) Name() string { return t.name }
func (t *STB) Logf(format string, args ...any) {
	fmt.Printf("    "+format+"\n", args...)
}
func (t *STB) Log(args ...any)                     { fmt.Println(append([]any{"   "}, args...)...) }
func (t *STB) Skipf(format string, args ...any)    { t.Logf(format, args...); panic(stbAbort{}) }
func (t *STB) Skip(args ...any)                    { t.Log(args...); panic(stbAbort{}) }
func (t *STB) SkipNow()                            { panic(stbAbort{}) }
func (t *STB) Errorf(format string, args ...any)   { t.Logf(format, args...); t.Fail() }
func (t *STB) Error(args ...any)                   { t.Log(args...); t.Fail() }
func (t *STB) Fatalf(format string, args ...any)   { t.Logf(format, args...); t.FailNow() }
func (t *STB) Fatal(args ...any)                   { t.Log(args...); t.FailNow() }
func (t *STB) FailNow()                            { t.Fail(); panic(stbAbort{}) }
func (t *STB) Fail()                               { t.mu.Lock(); t.failed = true; t.mu.Unlock() }
func (t *STB) Failed() bool                        { t.mu.Lock(); defer t.mu.Unlock(); return t.failed }

// MainStandalone replaces Main for packages whose tests must run outside
// package testing.  tests maps a name (matched against -test.run) to a function.
func MainStandalone(m *testing.M, property string, tests map[string]func(t *STB)) {
	_ = m
	st.property = property
	if p := os.Getenv("VERIF_PROPERTY"); p != "" && p != property {
		st.property = p
	}
	loadKnown()
	if !flag.Parsed() {
		flag.Parse()
	}
	pat := ""
	if f := flag.Lookup("test.run"); f != nil {
		pat = f.Value.String()
	}
	re, err := regexp.Compile(pat)
	if err != nil {
		fmt.Println("harness: bad -test.run pattern:", err)
		os.Exit(3)
	}
	var names []string
	for n := range tests {
		names = append(names, n)
	}
	sort.Strings(names)
	code := 0
	for _, n := range names {
		if pat != "" && !re.MatchString(n) {
			continue
		}
		tb := &STB{name: n}
		done := make(chan struct{})
		go func() {
			defer close(done)
			defer func() {
				if e := recover(); e != nil {
					if _, ok := e.(stbAbort); !ok {
						fmt.Printf("harness: panic in %s: %v\n", n, e)
						tb.Fail()
					}
				}
			}()
			tests[n](tb)
		}()
		<-done
		if tb.Failed() {
			fmt.Printf("--- FAIL: %s\n", n)
			code = 1
		} else {
			fmt.Printf("--- PASS: %s\n", n)
		}
	}
	if unlisted, harnessOnly := processRaceLogs(); unlisted > 0 && code == 0 {
		code = 1
	} else if harnessOnly > 0 {
		fmt.Println("harness: data race with an access made by harness code (infrastructure problem, not a verdict); see notes in the fragment")
		if code == 0 {
			code = 3
		}
	}
	writeFragment(code)
	os.Exit(code)
}
