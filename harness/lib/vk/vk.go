// Package vk is the small runtime every check links: evidence accounting,
// known-finding handling, replay files and a crash journal.
//
// Contract with bin/vcheck (the driver):
//
//	VERIF_PROPERTY   property id (C01..C40)
//	VERIF_TIER       quick | thorough
//	VERIF_SEED       integer seed given to the check (already remapped, never 0)
//	VERIF_SHARD / VERIF_NSHARDS   shard index / count of this process
//	VERIF_FRAG       path of the evidence fragment this process must write
//	VERIF_ROOT       /verif (known_findings.json lives there)
//	VERIF_REPLAY_DIR directory receiving replay files of unlisted violations
//	VERIF_JOURNAL    file overwritten with the current case before risky calls
//	VERIF_UNIT       name of the unit (driver's job label)
//
// Every verdict of a property goes through Report (or Violation).  Any other
// test failure is treated by the driver as an infrastructure problem (exit 2),
// never as a violation.
package vk

import (
	"crypto/sha256"
	"encoding/binary"
	"encoding/hex"
	"encoding/json"
	"fmt"
	"os"
	"path/filepath"
	"runtime"
	"sort"
	"strconv"
	"strings"
	"sync"
	"testing"
)

// TB is the part of *testing.T / *rapid.T the library needs.
type TB interface {
	Fatalf(format string, args ...any)
	Logf(format string, args ...any)
}

type sample struct {
	h uint64
	v any
}

type knownEntry struct {
	Property  string `json:"property"`
	Signature string `json:"signature"`
	What      string `json:"what"`
}

type state struct {
	mu          sync.Mutex
	property    string
	evaluations int64
	nontrivial  int64
	distinct    map[uint64]struct{}
	distinctCap bool
	classes     map[string]int64
	samples     []sample // smallest-hash reservoir of non-trivial cases
	first       []any    // first few cases verbatim
	excluded    map[string]int64
	knownWhat   map[string]string
	known       map[string]knownEntry
	violations  map[string]string // signature -> replay path
	notes       map[string]string
	counters    map[string]int64
}

const (
	maxDistinct = 400000
	maxSamples  = 6
	maxFirst    = 2
)

var st = &state{
	distinct:   map[uint64]struct{}{},
	classes:    map[string]int64{},
	excluded:   map[string]int64{},
	knownWhat:  map[string]string{},
	known:      map[string]knownEntry{},
	violations: map[string]string{},
	notes:      map[string]string{},
	counters:   map[string]int64{},
}

// Main is called from TestMain: vk.Main(m, "C19").
func Main(m *testing.M, property string) {
	st.property = property
	if p := os.Getenv("VERIF_PROPERTY"); p != "" && p != property {
		// several properties may share a package; the driver decides
		st.property = p
	}
	loadKnown()
	code := m.Run()
	if unlisted, harnessOnly := processRaceLogs(); unlisted > 0 && code == 0 {
		code = 1
	} else if harnessOnly > 0 {
		Note("harness_only_races", fmt.Sprint(harnessOnly))
		fmt.Println("harness: data race with an access made by harness code (infrastructure problem, not a verdict); see notes in the fragment")
		if code == 0 {
			code = 3
		}
	}
	writeFragment(code)
	os.Exit(code)
}

// Property returns the property id this process is deciding.
func Property() string { return st.property }

// Tier returns "quick" or "thorough".
func Tier() string {
	if t := os.Getenv("VERIF_TIER"); t == "thorough" {
		return t
	}
	return "quick"
}

// Thorough reports whether the thorough tier is running.
func Thorough() bool { return Tier() == "thorough" }

// Seed is the (non-zero) seed of this process, already mixed with the shard.
func Seed() uint64 {
	v, _ := strconv.ParseUint(os.Getenv("VERIF_SEED"), 10, 64)
	if v == 0 {
		v = 0x9E3779B97F4A7C15
	}
	return v
}

// Shard returns (index, count) of this process.
func Shard() (int, int) {
	i, _ := strconv.Atoi(os.Getenv("VERIF_SHARD"))
	n, _ := strconv.Atoi(os.Getenv("VERIF_NSHARDS"))
	if n <= 0 {
		n = 1
	}
	return i, n
}

// Scale is an integer the driver passes for plain-loop tests (VERIF_N); def if absent.
func Scale(def int) int {
	if v, err := strconv.Atoi(os.Getenv("VERIF_N")); err == nil && v > 0 {
		return v
	}
	return def
}

func loadKnown() {
	root := os.Getenv("VERIF_ROOT")
	if root == "" {
		root = "/verif"
	}
	b, err := os.ReadFile(filepath.Join(root, "known_findings.json"))
	if err != nil {
		return
	}
	var f struct {
		Known []knownEntry `json:"known"`
	}
	if json.Unmarshal(b, &f) != nil {
		return
	}
	for _, k := range f.Known {
		st.known[k.Property+"|"+k.Signature] = k
	}
}

func hash64(b []byte) uint64 {
	s := sha256.Sum256(b)
	return binary.BigEndian.Uint64(s[:8])
}

// Case records one generated case.  class feeds the generator-distribution
// histogram; nontrivial is the property's stated rule; key identifies the case
// for distinct counting; render (may be nil) produces a JSON-able sample and is
// only called for the few cases that are kept.
func Case(class string, nontrivial bool, key []byte, render func() any) {
	st.mu.Lock()
	defer st.mu.Unlock()
	st.evaluations++
	st.classes[class]++
	if !nontrivial {
		return
	}
	st.nontrivial++
	h := hash64(key)
	if _, ok := st.distinct[h]; ok {
		return
	}
	if len(st.distinct) < maxDistinct {
		st.distinct[h] = struct{}{}
	} else {
		st.distinctCap = true
		return
	}
	if render == nil {
		return
	}
	if len(st.first) < maxFirst {
		st.first = append(st.first, safeRender(render))
		return
	}
	if len(st.samples) < maxSamples {
		st.samples = append(st.samples, sample{h, safeRender(render)})
		sort.Slice(st.samples, func(i, j int) bool { return st.samples[i].h < st.samples[j].h })
		return
	}
	if h < st.samples[len(st.samples)-1].h {
		st.samples[len(st.samples)-1] = sample{h, safeRender(render)}
		sort.Slice(st.samples, func(i, j int) bool { return st.samples[i].h < st.samples[j].h })
	}
}

func safeRender(r func() any) (v any) {
	defer func() {
		if e := recover(); e != nil {
			v = fmt.Sprintf("<render panic: %v>", e)
		}
	}()
	return r()
}

// Class adds to the class histogram without counting an evaluation.
func Class(class string) {
	st.mu.Lock()
	st.classes[class]++
	st.mu.Unlock()
}

// Count adds n to a named counter reported in coverage.counters.
func Count(name string, n int64) {
	st.mu.Lock()
	st.counters[name] += n
	st.mu.Unlock()
}

// Note stores a free-text note reported in coverage.notes.
func Note(key, val string) {
	st.mu.Lock()
	st.notes[key] = val
	st.mu.Unlock()
}

// IsKnown tells whether (property, signature) is listed as a known finding.
func IsKnown(signature string) bool {
	_, ok := st.known[st.property+"|"+signature]
	return ok
}

// Report is the single exit for verdicts.  If the signature is a listed known
// finding the case is counted as excluded and Report returns true (the caller
// continues, usually by returning from the property).  Otherwise a replay file
// is written and the test fails (rapid shrinks and calls Report again; the
// last call leaves the minimal case in the file).
func Report(t TB, signature, detail string, rendered any) bool {
	st.mu.Lock()
	if k, ok := st.known[st.property+"|"+signature]; ok {
		st.excluded[signature]++
		st.knownWhat[signature] = k.What
		st.mu.Unlock()
		return true
	}
	path := writeReplay(signature, detail, rendered)
	st.violations[signature] = path
	st.mu.Unlock()
	flushFragment()
	t.Fatalf("VIOLATION-CANDIDATE property=%s signature=%s detail=%s", st.property, signature, detail)
	return false
}

// Violation is Report for callers that have no known-finding path.
func Violation(t TB, signature, detail string, rendered any) {
	Report(t, signature, detail, rendered)
}

func sigFile(signature string) string {
	var sb strings.Builder
	for _, r := range signature {
		switch {
		case r >= 'a' && r <= 'z', r >= 'A' && r <= 'Z', r >= '0' && r <= '9', r == '-', r == '_', r == '.':
			sb.WriteRune(r)
		default:
			sb.WriteByte('_')
		}
	}
	s := sb.String()
	if len(s) > 80 {
		s = s[:80]
	}
	h := sha256.Sum256([]byte(signature))
	return s + "-" + hex.EncodeToString(h[:4])
}

func writeReplay(signature, detail string, rendered any) string {
	dir := os.Getenv("VERIF_REPLAY_DIR")
	if dir == "" {
		dir = filepath.Join(os.TempDir(), "verif-replays")
	}
	dir = filepath.Join(dir, st.property)
	_ = os.MkdirAll(dir, 0o755)
	path := filepath.Join(dir, sigFile(signature)+".json")
	shard, nshards := Shard()
	doc := map[string]any{
		"property":  st.property,
		"signature": signature,
		"detail":    detail,
		"case":      rendered,
		"unit":      os.Getenv("VERIF_UNIT"),
		"tier":      Tier(),
		"seed":      os.Getenv("VERIF_SEED"),
		"base_seed": os.Getenv("VERIF_BASE_SEED"),
		"shard":     shard,
		"nshards":   nshards,
		"args":      os.Args[1:],
		"n":         os.Getenv("VERIF_N"),
	}
	b, err := json.MarshalIndent(doc, "", " ")
	if err != nil {
		doc["case"] = fmt.Sprintf("%+v", rendered)
		b, _ = json.MarshalIndent(doc, "", " ")
	}
	_ = os.WriteFile(path, b, 0o644)
	return path
}

// Journal overwrites the journal file with the case about to be executed, so
// that a fatal runtime error (OOM, stack exhaustion, concurrent map write),
// which no recover can catch, still leaves the input behind.
func Journal(data []byte) {
	p := os.Getenv("VERIF_JOURNAL")
	if p == "" {
		return
	}
	_ = os.WriteFile(p, data, 0o644)
}

// TopRepoFrame returns "pkg.Func" of the innermost stack frame that belongs
// to the repository under test (used as panic signature).  Call it from a
// deferred function while the panic is being recovered.
func TopRepoFrame() string {
	pcs := make([]uintptr, 64)
	n := runtime.Callers(2, pcs)
	frames := runtime.CallersFrames(pcs[:n])
	for {
		f, more := frames.Next()
		if strings.Contains(f.Function, "github.com/elastos/Elastos.ELA/") {
			fn := strings.TrimPrefix(f.Function, "github.com/elastos/Elastos.ELA/")
			return fn
		}
		if !more {
			break
		}
	}
	return "unknown"
}

// Catch runs f and reports whether it panicked, with the panic value and the
// top in-repo frame.
func Catch(f func()) (panicked bool, val any, frame string) {
	defer func() {
		if e := recover(); e != nil {
			panicked = true
			val = e
			frame = TopRepoFrame()
		}
	}()
	f()
	return
}

type fragment struct {
	Property       string            `json:"property"`
	Unit           string            `json:"unit"`
	Shard          int               `json:"shard"`
	ExitCode       int               `json:"exit_code"`
	Evaluations    int64             `json:"evaluations"`
	Nontrivial     int64             `json:"nontrivial"`
	Distinct       []string          `json:"distinct"`
	DistinctCapped bool              `json:"distinct_capped"`
	Classes        map[string]int64  `json:"classes"`
	Samples        []any             `json:"samples"`
	Excluded       map[string]int64  `json:"excluded_known"`
	KnownWhat      map[string]string `json:"known_what"`
	Violations     map[string]string `json:"violations"`
	Notes          map[string]string `json:"notes"`
	Counters       map[string]int64  `json:"counters"`
}

func flushFragment() { writeFragment(-1) }

func writeFragment(code int) {
	p := os.Getenv("VERIF_FRAG")
	if p == "" {
		return
	}
	st.mu.Lock()
	defer st.mu.Unlock()
	shard, _ := Shard()
	fr := fragment{
		Property: st.property, Unit: os.Getenv("VERIF_UNIT"), Shard: shard, ExitCode: code,
		Evaluations: st.evaluations, Nontrivial: st.nontrivial, DistinctCapped: st.distinctCap,
		Classes: st.classes, Excluded: st.excluded, KnownWhat: st.knownWhat,
		Violations: st.violations, Notes: st.notes, Counters: st.counters,
	}
	fr.Distinct = make([]string, 0, len(st.distinct))
	var buf [8]byte
	for h := range st.distinct {
		binary.BigEndian.PutUint64(buf[:], h)
		fr.Distinct = append(fr.Distinct, hex.EncodeToString(buf[:]))
	}
	fr.Samples = append(fr.Samples, st.first...)
	for _, s := range st.samples {
		fr.Samples = append(fr.Samples, s.v)
	}
	b, err := json.Marshal(fr)
	if err != nil {
		fr.Samples = []any{fmt.Sprintf("%+v", fr.Samples)}
		b, _ = json.Marshal(fr)
	}
	tmp := p + ".tmp"
	if os.WriteFile(tmp, b, 0o644) == nil {
		_ = os.Rename(tmp, p)
	}
}

// Hex is a convenience for rendering byte strings in samples.
func Hex(b []byte) string {
	if len(b) > 96 {
		return hex.EncodeToString(b[:96]) + fmt.Sprintf("...(%d bytes)", len(b))
	}
	return hex.EncodeToString(b)
}
