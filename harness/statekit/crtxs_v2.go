package statekit

import (
	"fmt"

	"github.com/elastos/Elastos.ELA/common"
	"github.com/elastos/Elastos.ELA/core/types/outputpayload"
	"github.com/elastos/Elastos.ELA/core/types/payload"
	crstate "github.com/elastos/Elastos.ELA/cr/state"
	"pgregory.net/rapid"
)

// CR votes of the DPoS 2.0 era: Voting transactions (stake-based vote rights)
// with CRC, CRCImpeachment and CRCProposal contents.  Each new content of a
// type replaces the stake address' previous votes of that type in the
// committee (UsedCRVotes / UsedCRImpeachmentVotes / UsedCRCProposalVotes).

func init() {
	extraKinds["votingcr"] = candVotingCR
	extraKinds["votingimpeach"] = candVotingImpeach
	extraKinds["votingproposal"] = candVotingProposal
}

// CRV2Kinds are the stake-based CR vote kinds with their weights (they need
// the "stake" kind of C28Kinds to give the voters vote rights).
func CRV2Kinds() map[string]int {
	return map[string]int{"votingcr": 6, "votingimpeach": 2, "votingproposal": 2}
}

// votersWithRights lists the cast voters whose stake address has vote rights.
func (g *Gen) votersWithRights() []int {
	var out []int
	for v := 0; v < g.NVoters; v++ {
		if g.K.Arbiters.State.DposV2VoteRights[g.voter(v).Stake] > 0 {
			out = append(out, v)
		}
	}
	return out
}

// votingAmount draws the votes of one content: mostly within the rights,
// sometimes all of them, rarely one above (the node must refuse that).
func votingAmount(t *rapid.T, rights common.Fixed64) (common.Fixed64, string) {
	switch rapid.IntRange(0, 9).Draw(t, "votingamount") {
	case 0:
		return rights, "all"
	case 1:
		return rights + 1, "above"
	default:
		if rights <= 1 {
			return rights, "all"
		}
		return common.Fixed64(rapid.Int64Range(1, int64(rights)).Draw(t, "votes")), "within"
	}
}

func candVotingCR(g *Gen, t *rapid.T, spent map[string]bool) *cand {
	k := g.K
	h := k.Height + 1
	if h < k.Params.DPoSV2StartHeight || !k.Committee.IsInVotingPeriod(h) {
		return nil
	}
	voters := g.votersWithRights()
	if len(voters) == 0 {
		return nil
	}
	var active []int
	for i := 0; i < g.nCR(); i++ {
		if cd := k.Committee.GetCandidate(g.crKey(i).CID); cd != nil && cd.State == crstate.Active {
			active = append(active, i)
		}
	}
	if len(active) == 0 {
		return nil
	}
	v := voters[rapid.IntRange(0, len(voters)-1).Draw(t, "crvoter")]
	voter := g.voter(v)
	rights := k.Arbiters.State.DposV2VoteRights[voter.Stake]
	total, mode := votingAmount(t, rights)
	nc := rapid.IntRange(1, minInt(3, len(active))).Draw(t, "ncrcand")
	perm := rapid.Permutation(active).Draw(t, "crcands")[:nc]
	parts := split(t, total, nc)
	if len(parts) < nc {
		perm, parts = perm[:1], []common.Fixed64{total}
	}
	c := payload.VotesContent{VoteType: outputpayload.CRC}
	desc := ""
	for j, i := range perm {
		c.VotesInfo = append(c.VotesInfo, payload.VotesWithLockTime{Candidate: g.crKey(i).CID.Bytes(), Votes: parts[j]})
		desc += fmt.Sprintf("c%d ", i)
	}
	pl := &payload.Voting{Contents: []payload.VotesContent{c}}
	// sometimes an impeachment content rides along (two types in one transaction)
	if ms := k.Committee.GetImpeachableMembers(); len(ms) > 0 && rapid.IntRange(0, 5).Draw(t, "withimpeach") == 0 {
		var cids [][]byte
		for _, m := range ms {
			cids = append(cids, m.Info.CID.Bytes())
		}
		sortBytes(cids)
		pl.Contents = append(pl.Contents, payload.VotesContent{VoteType: outputpayload.CRCImpeachment,
			VotesInfo: []payload.VotesWithLockTime{{Candidate: cids[rapid.IntRange(0, len(cids)-1).Draw(t, "impeached")], Votes: rights}}})
		mode += "+impeach"
	}
	tx := k.VotingTx(voter, payload.VoteVersion, pl)
	return &cand{"votingcr", tx, fmt.Sprintf("v%d", v), fmt.Sprintf("votingcr(v%d->%s%s,total=%s,rights=%s)", v, desc, mode, total, rights)}
}

func candVotingImpeach(g *Gen, t *rapid.T, spent map[string]bool) *cand {
	k := g.K
	h := k.Height + 1
	if h < k.Params.DPoSV2StartHeight {
		return nil
	}
	voters := g.votersWithRights()
	ms := k.Committee.GetImpeachableMembers()
	if len(voters) == 0 || len(ms) == 0 {
		return nil
	}
	var cids [][]byte
	for _, m := range ms {
		cids = append(cids, m.Info.CID.Bytes())
	}
	sortBytes(cids)
	v := voters[rapid.IntRange(0, len(voters)-1).Draw(t, "impvoter")]
	voter := g.voter(v)
	rights := k.Arbiters.State.DposV2VoteRights[voter.Stake]
	total, mode := votingAmount(t, rights)
	n := rapid.IntRange(1, minInt(2, len(cids))).Draw(t, "nimpeached")
	perm := rapid.Permutation(cids).Draw(t, "impeachedmembers")[:n]
	parts := split(t, total, n)
	if len(parts) < n {
		perm, parts = perm[:1], []common.Fixed64{total}
	}
	c := payload.VotesContent{VoteType: outputpayload.CRCImpeachment}
	desc := ""
	for j, cid := range perm {
		c.VotesInfo = append(c.VotesInfo, payload.VotesWithLockTime{Candidate: cid, Votes: parts[j]})
		desc += fmt.Sprintf("%x ", cid[:4])
	}
	tx := k.VotingTx(voter, payload.VoteVersion, &payload.Voting{Contents: []payload.VotesContent{c}})
	return &cand{"votingimpeach", tx, fmt.Sprintf("v%d", v), fmt.Sprintf("votingimpeach(v%d->%s%s,total=%s,rights=%s)", v, desc, mode, total, rights)}
}

func candVotingProposal(g *Gen, t *rapid.T, spent map[string]bool) *cand {
	k := g.K
	h := k.Height + 1
	if h < k.Params.DPoSV2StartHeight {
		return nil
	}
	voters := g.votersWithRights()
	if len(voters) == 0 {
		return nil
	}
	var agreed []*crstate.ProposalState
	for _, p := range k.Proposals() {
		if p.Status == crstate.CRAgreed {
			agreed = append(agreed, p)
		}
	}
	if len(agreed) == 0 {
		return nil
	}
	v := voters[rapid.IntRange(0, len(voters)-1).Draw(t, "propvoter")]
	voter := g.voter(v)
	rights := k.Arbiters.State.DposV2VoteRights[voter.Stake]
	n := rapid.IntRange(1, minInt(2, len(agreed))).Draw(t, "nrejected")
	c := payload.VotesContent{VoteType: outputpayload.CRCProposal}
	desc, mode := "", ""
	first := rapid.IntRange(0, len(agreed)-1).Draw(t, "rejected")
	for j := 0; j < n; j++ {
		p := agreed[(first+j)%len(agreed)]
		var amt common.Fixed64
		// every proposal may get up to the whole rights (the maximum counts)
		amt, mode = votingAmount(t, rights)
		c.VotesInfo = append(c.VotesInfo, payload.VotesWithLockTime{Candidate: p.Proposal.Hash.Bytes(), Votes: amt})
		desc += fmt.Sprintf("%x:%s ", p.Proposal.Hash[:4], amt)
	}
	tx := k.VotingTx(voter, payload.VoteVersion, &payload.Voting{Contents: []payload.VotesContent{c}})
	return &cand{"votingproposal", tx, fmt.Sprintf("v%d", v), fmt.Sprintf("votingproposal(v%d rejects %s%s,rights=%s)", v, desc, mode, rights)}
}
