package statekit

// Additions for C28/C29 (owner: C28/C29 builder).  Nothing here changes the
// behaviour of the existing generator: it adds a stricter transaction filter
// (CheckTxFull) and a block builder with callbacks (BlockEx).

import (
	"fmt"

	"github.com/elastos/Elastos.ELA/blockchain"
	"github.com/elastos/Elastos.ELA/common"
	"github.com/elastos/Elastos.ELA/core"
	"github.com/elastos/Elastos.ELA/core/transaction"
	"github.com/elastos/Elastos.ELA/core/types"
	"github.com/elastos/Elastos.ELA/core/types/interfaces"
	"github.com/elastos/Elastos.ELA/core/types/payload"
	"pgregory.net/rapid"
)

// NormalizeOutputs gives every output the ELA asset id (the statekit builders
// leave it zero; the sanity checks demand it).  Must run before the first
// Hash() of the transaction.
func NormalizeOutputs(tx interfaces.Transaction) {
	var zero common.Uint256
	for _, o := range tx.Outputs() {
		if o.AssetID == zero {
			o.AssetID = core.ELAAssetID
		}
	}
}

// CheckTxFull is the admission filter used by C28/C29 for a transaction that
// would be included in the block at height Height+1:
//
//	sanity   the node's SanityCheck (size, inputs, outputs, asset precision,
//	         attributes/programs, payload - e.g. payload.Voting.Validate) when
//	         fullSanity is set; otherwise only HeightVersionCheck and
//	         CheckTransactionPayload (the older statekit builders make
//	         transactions without change outputs, which the node's output
//	         sanity check would refuse for a reason that has nothing to do
//	         with the state)
//	context  transaction.VerifC28ContextCheck: ContextCheck in the node's
//	         order with references from the outpoint model, including the fee
//	         and deposit-address rules; only the database-bound steps
//	         (duplicate hash, double spend, UTXO lock, signatures) are left out
func (k *Kit) CheckTxFull(tx interfaces.Transaction, timestamp uint32, proposalsUsed common.Fixed64, fullSanity bool) error {
	k.Activate()
	refs, err := k.TxReference(tx)
	if err != nil {
		return err
	}
	para := &transaction.TransactionParameters{
		Transaction:         tx,
		BlockHeight:         k.Height + 1,
		TimeStamp:           timestamp,
		Config:              k.Params,
		BlockChain:          k.Chain,
		ProposalsUsedAmount: proposalsUsed,
	}
	var cerr error
	func() {
		defer func() {
			if e := recover(); e != nil {
				cerr = fmt.Errorf("statekit: checker panicked: %v", e)
			}
		}()
		if fullSanity {
			if e := tx.SanityCheck(para); e != nil {
				cerr = fmt.Errorf("sanity: %v", e)
				return
			}
		} else {
			if e := tx.SetParameters(para); e != nil {
				cerr = e
				return
			}
			if e := tx.HeightVersionCheck(); e != nil {
				cerr = e
				return
			}
			if e := tx.CheckTransactionPayload(); e != nil {
				cerr = fmt.Errorf("sanity: %v", e)
				return
			}
		}
		cerr = transaction.VerifC28ContextCheck(tx, para, refs)
	}()
	return cerr
}

// TxEvent is what BlockEx reports about one candidate.
type TxEvent struct {
	Kind    string
	Subject string
	Desc    string
	Tx      interfaces.Transaction
	Err     error // nil: accepted and put into the block
	// Second is set for a candidate that was tried although its subject
	// already has a transaction in this block (BlockOpts.SameSubject).
	Second bool
}

// BlockOpts tunes BlockEx.
type BlockOpts struct {
	// FullSanity lists the kinds whose transactions are complete enough for
	// the node's full SanityCheck.
	FullSanity map[string]bool
	// SameSubject lets a second (third ...) transaction of a subject into the
	// block if the node's block-level checks allow it (the mempool would not
	// hold both, a block producer can include both).  Applies to the listed
	// kinds only.
	SameSubject map[string]bool
	// OnTx is called for every candidate that reached the checker.
	OnTx func(ev TxEvent)
	// MinTxs is the least number of candidates tried per block.
	MinTxs int
	// Veto drops a candidate before it reaches the checkers (used to steer
	// away from a known finding by construction).
	Veto func(kind string, tx interfaces.Transaction) bool
}

// BlockEx is Gen.Block with the stricter filter and callbacks.  The
// proposalsUsedAmount handed to the checkers accumulates over the block the
// way BlockChain.checkTxsContext does it.
func (g *Gen) BlockEx(t *rapid.T, o *BlockOpts) (*types.Block, *payload.Confirm, BlockInfo) {
	k := g.K
	h := k.Height + 1
	info := BlockInfo{Height: h}
	var txs []interfaces.Transaction
	subjects := map[string]bool{}
	spent := map[string]bool{}
	n := 0
	if h >= k.Params.VoteStartHeight {
		n = rapid.IntRange(0, g.MaxTxs).Draw(t, "ntx")
		if n < 2 && g.understaffed() {
			n = 2
		}
		if n < o.MinTxs {
			n = o.MinTxs
		}
	}
	var proposalsUsed common.Fixed64
	ts := 1600000000 + 120*h
	lastSubject, lastKind := "", ""
	for i := 0; i < n; i++ {
		kind := g.drawKind(t)
		delete(c28Force, g)
		if lastSubject != "" && o.SameSubject[lastKind] && rapid.Bool().Draw(t, "companion") {
			// a second transaction about the subject of the previous one
			var ks []string
			switch lastSubject[0] {
			case 'v':
				ks = []string{"voting", "voting", "returnvotes", "returnvotes", "stake", "renewvoting"}
			case 'p':
				ks = []string{"returndeposit2"}
			case 'c':
				ks = []string{"returncrdeposit2"}
			}
			if len(ks) > 0 {
				kind = ks[rapid.IntRange(0, len(ks)-1).Draw(t, "companionkind")]
				c28Force[g] = lastSubject
			}
		}
		c := g.candidate(t, kind, spent)
		delete(c28Force, g)
		if c == nil {
			g.Rejected[kind+"/na"]++
			continue
		}
		second := false
		if subjects[c.subject] {
			if !o.SameSubject[kind] {
				g.Rejected[kind+"/dup-subject"]++
				continue
			}
			second = true
		}
		clash := false
		for _, in := range c.tx.Inputs() {
			if spent[in.ReferKey()] {
				clash = true
			}
		}
		if clash {
			g.Rejected[kind+"/dup-input"]++
			continue
		}
		if o.Veto != nil && o.Veto(kind, c.tx) {
			g.Rejected[kind+"/veto"]++
			continue
		}
		NormalizeOutputs(c.tx)
		err := k.CheckTxFull(c.tx, ts, proposalsUsed, o.FullSanity[kind])
		if err == nil && second {
			// the block-level rules must also allow the pair
			trial := k.NewBlock(append(append([]interfaces.Transaction{}, txs...), c.tx))
			if berr := k.CheckBlock(trial); berr != nil {
				err = fmt.Errorf("block: %v", berr)
			}
		}
		if o.OnTx != nil {
			o.OnTx(TxEvent{Kind: kind, Subject: c.subject, Desc: c.desc, Tx: c.tx, Err: err, Second: second})
		}
		if err != nil {
			g.Rejected[kind]++
			g.LastErr[kind] = err.Error()
			continue
		}
		subjects[c.subject] = true
		lastSubject, lastKind = c.subject, kind
		for _, in := range c.tx.Inputs() {
			spent[in.ReferKey()] = true
		}
		if c.tx.IsCRCProposalTx() {
			blockchain.RecordCRCProposalAmount(&proposalsUsed, c.tx)
		}
		g.Accepted[kind]++
		txs = append(txs, c.tx)
		info.Txs = append(info.Txs, c.desc)
	}
	req := g.requiredTxs(&info)
	for _, tx := range req {
		NormalizeOutputs(tx)
	}
	b := k.NewBlock(append(txs, req...))
	if err := k.CheckBlock(b); err != nil {
		g.Rejected["block"]++
		g.LastErr["block"] = err.Error()
		if o.OnTx != nil {
			o.OnTx(TxEvent{Kind: "block-dropped", Err: err})
		}
		info.Txs = nil
		b = k.NewBlock(g.requiredTxs(&info))
		if err := k.CheckBlock(b); err != nil {
			t.Fatalf("harness: cannot build a valid block at %d: %v", h, err)
		}
	}
	confirm := g.confirm(t, b, &info)
	return b, confirm, info
}

