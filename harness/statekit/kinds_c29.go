package statekit

// Candidate kinds for C29 (CR proposals and their budgets): funding of the CR
// addresses, proposals with 1-5 budget stages (amounts around the committee's
// limits, including sums that leave the int64 range), reviews, public reject
// votes, tracking of every type, withdrawals (payload v0 / v1; exact, wrong,
// repeated, before anything is withdrawable).

import (
	"bytes"
	"fmt"
	"math"
	"sort"

	"github.com/elastos/Elastos.ELA/common"
	"github.com/elastos/Elastos.ELA/core/contract/program"
	common2 "github.com/elastos/Elastos.ELA/core/types/common"
	"github.com/elastos/Elastos.ELA/core/types/interfaces"
	"github.com/elastos/Elastos.ELA/core/types/outputpayload"
	"github.com/elastos/Elastos.ELA/core/types/payload"
	crstate "github.com/elastos/Elastos.ELA/cr/state"
	"pgregory.net/rapid"
)

func init() {
	extraKinds["fundcr"] = candFundCR
	extraKinds["proposal"] = candProposal
	extraKinds["review"] = candReview
	extraKinds["voteproposal"] = candVoteProposal
	extraKinds["tracking"] = candTracking
	extraKinds["withdraw"] = candWithdraw
}

// C29Kinds are the proposal kinds with their weights.
func C29Kinds() map[string]int {
	return map[string]int{"fundcr": 2, "proposal": 8, "review": 10, "voteproposal": 1, "tracking": 8, "withdraw": 9}
}

// C29FullSanity lists the kinds of this file that pass the node's full SanityCheck.
func C29FullSanity() map[string]bool {
	return map[string]bool{"fundcr": true, "proposal": true, "review": true, "voteproposal": true, "tracking": true, "withdraw": true}
}

// c29Dup: subjects of withdraw / tracking candidates get a serial number so
// that a block may hold several of them for one proposal (block producers can
// do that, the mempool cannot).
var c29Dup = map[*Gen]bool{}
var c29Serial = map[*Gen]int{}

// SetC29SeveralPerProposal switches the several-per-proposal mode for g.
func SetC29SeveralPerProposal(g *Gen, on bool) {
	if on {
		c29Dup[g] = true
	} else {
		delete(c29Dup, g)
		delete(c29Serial, g)
	}
}

// drain mode: proposals ask for exactly the limit, so that the committee's
// remaining funds fall below the 10% cap and proposals of one block compete
// for them (proposalsUsedAmount).
var c29Drain = map[*Gen]bool{}

// SetC29Drain switches the drain mode for g.
func SetC29Drain(g *Gen, on bool) {
	if on {
		c29Drain[g] = true
	} else {
		delete(c29Drain, g)
	}
}

func c29Subject(g *Gen, prefix string, hash common.Uint256) string {
	s := fmt.Sprintf("%s-%x", prefix, hash[:6])
	if c29Dup[g] {
		c29Serial[g]++
		s += fmt.Sprintf("-%d", c29Serial[g])
	}
	return s
}

func (k *Kit) proposalVersion() byte {
	if k.Height+1 >= k.Params.CRConfiguration.CRCProposalDraftDataStartHeight {
		return payload.CRCProposalVersion01
	}
	return payload.CRCProposalVersion
}

// SignProposal fills the owner and council member signatures.
func SignProposal(p *payload.CRCProposal, owner, member *Key, version byte) {
	buf := new(bytes.Buffer)
	if err := p.SerializeUnsigned(buf, version); err != nil {
		panic(err)
	}
	p.Signature = owner.Sign(buf.Bytes())
	if err := common.WriteVarBytes(buf, p.Signature); err != nil {
		panic(err)
	}
	if err := p.CRCouncilMemberDID.Serialize(buf); err != nil {
		panic(err)
	}
	p.CRCouncilMemberSignature = member.Sign(buf.Bytes())
}

// ProposalTx wraps a signed proposal payload.
func (k *Kit) ProposalTx(owner *Key, p *payload.CRCProposal, version byte) interfaces.Transaction {
	in := k.FaucetInput(owner.Standard, 2*ELA)
	return newTx(common2.TxVersion09, common2.CRCProposal, version, p,
		[]*common2.Input{in}, []*common2.Output{elaOutput(owner.Standard, ELA)}, []*program.Program{prog(owner)})
}

// electedCastMembers lists the cast indexes of the current council members in
// state Elected.
func (g *Gen) electedCastMembers() []int {
	var out []int
	for _, m := range g.K.Committee.GetCurrentMembers() {
		if m.MemberState != crstate.MemberElected {
			continue
		}
		for i := 0; i < g.nCR(); i++ {
			if m.Info.DID.IsEqual(g.crKey(i).DID) {
				out = append(out, i)
			}
		}
	}
	sort.Ints(out)
	return out
}

// Proposals lists the proposals known to the committee in hash order.
func (k *Kit) Proposals() []*crstate.ProposalState {
	all := k.Committee.GetAllProposals()
	var hs []common.Uint256
	for h := range all {
		hs = append(hs, h)
	}
	sort.Slice(hs, func(i, j int) bool { return bytes.Compare(hs[i][:], hs[j][:]) < 0 })
	var out []*crstate.ProposalState
	for _, h := range hs {
		out = append(out, all[h])
	}
	return out
}

func (g *Gen) pickProposal(t *rapid.T, label string, pred func(*crstate.ProposalState) bool) *crstate.ProposalState {
	var ps []*crstate.ProposalState
	for _, p := range g.K.Proposals() {
		if pred(p) {
			ps = append(ps, p)
		}
	}
	if len(ps) == 0 {
		return nil
	}
	return ps[rapid.IntRange(0, len(ps)-1).Draw(t, label)]
}

func candFundCR(g *Gen, t *rapid.T, spent map[string]bool) *cand {
	k := g.K
	if k.Height+1 < k.Params.CRConfiguration.CRVotingStartHeight {
		return nil
	}
	to := *k.Params.CRConfiguration.CRAssetsProgramHash
	name := "assets"
	if rapid.IntRange(0, 3).Draw(t, "toexpenses") == 0 {
		to = *k.Params.CRConfiguration.CRExpensesProgramHash
		name = "expenses"
	}
	amount := common.Fixed64(rapid.SampledFrom([]int64{100, 1000, 20000, 500000}).Draw(t, "fund")) * ELA
	v := rapid.IntRange(0, g.NVoters-1).Draw(t, "payer")
	tx := k.TransferTx(g.voter(v), nil, []*common2.Output{elaOutput(to, amount)})
	return &cand{"fundcr", tx, fmt.Sprintf("pay%d", v), fmt.Sprintf("fundcr(%s,%s)", name, amount)}
}

// budgetLayout draws stage types: optional imprest (stage 0), 0-3 normal
// payments, one final payment.
func budgetLayout(t *rapid.T) []payload.Budget {
	var bs []payload.Budget
	stage := byte(1)
	if rapid.IntRange(0, 3).Draw(t, "imprest") > 0 {
		bs = append(bs, payload.Budget{Type: payload.Imprest, Stage: 0})
	}
	n := rapid.IntRange(0, 3).Draw(t, "nnormal")
	for i := 0; i < n; i++ {
		bs = append(bs, payload.Budget{Type: payload.NormalPayment, Stage: stage})
		stage++
	}
	bs = append(bs, payload.Budget{Type: payload.FinalPayment, Stage: stage})
	return bs
}

func candProposal(g *Gen, t *rapid.T, spent map[string]bool) *cand {
	k := g.K
	h := k.Height + 1
	if h < k.Params.CRConfiguration.CRCommitteeStartHeight {
		return nil
	}
	ms := g.electedCastMembers()
	if len(ms) == 0 {
		return nil
	}
	mi := ms[rapid.IntRange(0, len(ms)-1).Draw(t, "sponsor")]
	member := g.crKey(mi)
	ov := rapid.IntRange(0, g.NVoters-1).Draw(t, "propowner")
	owner := g.voter(ov)
	version := k.proposalVersion()
	g.nick++
	draft := []byte(fmt.Sprintf("draft-%d-%d", h, g.nick))
	p := &payload.CRCProposal{ProposalType: payload.Normal, CategoryData: "verif", OwnerKey: owner.PK,
		DraftHash: common.Hash(draft), Recipient: owner.Standard, CRCouncilMemberDID: member.DID}
	if version >= payload.CRCProposalVersion01 {
		p.DraftData = draft
	}
	c := k.Committee
	canUse := c.GetCommitteeCanUseAmount()
	cap10 := (c.CRCCurrentStageAmount - c.CommitteeUsedAmount) / 10
	limit := canUse
	if cap10 < limit {
		limit = cap10
	}
	pos := func(x common.Fixed64) common.Fixed64 {
		if x < 1 {
			return 1
		}
		return x
	}
	mode := "within"
	typ := rapid.IntRange(0, 11).Draw(t, "proptype")
	drain := c29Drain[g] && rapid.IntRange(0, 3).Draw(t, "drain") > 0
	if drain {
		typ = 5
	}
	if !drain && typ <= 2 && h >= k.Params.CRConfiguration.CRCProposalV1Height {
		// close a proposal that the voters agreed to
		target := g.pickProposal(t, "closetarget", func(ps *crstate.ProposalState) bool { return ps.Status == crstate.VoterAgreed })
		if target != nil {
			p.ProposalType = payload.CloseProposal
			p.TargetProposalHash = target.Proposal.Hash
			p.Recipient = common.Uint168{}
			SignProposal(p, owner, member, version)
			tx := k.ProposalTx(owner, p, version)
			// one close proposal per target and block (a mempool conflict slot), unless several are allowed
			return &cand{"proposal", tx, c29Subject(g, "close", target.Proposal.Hash), fmt.Sprintf("proposal(close %x,by c%d)", target.Proposal.Hash[:4], mi)}
		}
	}
	bs := budgetLayout(t)
	if typ == 3 {
		p.ProposalType = payload.ELIP
		bs = []payload.Budget{{Type: payload.Imprest, Stage: 0}, {Type: payload.FinalPayment, Stage: 1}}
	}
	var total common.Fixed64
	bmode := rapid.IntRange(0, 9).Draw(t, "budgetmode")
	if drain {
		bmode = 4
	}
	switch bmode {
	case 0, 1, 2, 3:
		total = pos(limit / 8 * common.Fixed64(rapid.IntRange(1, 8).Draw(t, "eighths")))
	case 4:
		mode = "exact-limit"
		total = pos(limit)
	case 5:
		mode = "limit-plus-one"
		total = pos(limit) + 1
	case 6:
		mode = "all-can-use"
		total = pos(canUse)
	case 7:
		mode = "tiny"
		total = common.Fixed64(rapid.Int64Range(1, 100000).Draw(t, "tinytotal"))
	case 8:
		mode = "far-above"
		total = pos(canUse) + common.Fixed64(rapid.Int64Range(1, int64(100000*ELA)).Draw(t, "excess"))
	case 9:
		mode = "wrapping-sum"
	}
	if mode == "wrapping-sum" && len(bs) >= 2 {
		// amounts whose int64 sum wraps around to a small value: the first
		// stage asks for what the committee really has, the last two add up
		// to 2^64 - first + rest
		first := pos(canUse)
		if c.CRCCommitteeBalance > first {
			first = c.CRCCommitteeBalance
		}
		rest := common.Fixed64(rapid.Int64Range(0, int64(pos(limit))).Draw(t, "wraprest"))
		if len(bs) == 2 {
			// first + x = 2^64 + rest is impossible with two non-negative int64: use three stages
			bs = []payload.Budget{{Type: payload.Imprest, Stage: 0}, {Type: payload.NormalPayment, Stage: 1}, {Type: payload.FinalPayment, Stage: 2}}
		}
		for i := range bs {
			bs[i].Amount = 0
		}
		bs[0].Amount = first
		a := common.Fixed64(math.MaxInt64)
		// b = 2^64 + rest - first - a  (computed in uint64 arithmetic)
		b := common.Fixed64(int64(uint64(rest) - uint64(first) - uint64(a)))
		if b < 0 {
			mode = "within"
			total = pos(limit / 2)
		} else {
			bs[len(bs)-2].Amount = a
			bs[len(bs)-1].Amount = b
		}
	}
	if mode != "wrapping-sum" {
		// mostly stages above the real-withdraw fee (a payload-v1 withdrawal of
		// less is refused), sometimes any split
		var parts []common.Fixed64
		floor := common.Fixed64(20000)
		if total >= floor*common.Fixed64(len(bs))+common.Fixed64(len(bs)) && rapid.IntRange(0, 5).Draw(t, "rawsplit") > 0 {
			parts = split(t, total-floor*common.Fixed64(len(bs)), len(bs))
			if len(parts) == len(bs) {
				for i := range parts {
					parts[i] += floor
				}
			}
		} else {
			parts = split(t, total, len(bs))
		}
		if len(parts) < len(bs) {
			// total too small to split: everything on the last stage
			for i := range bs {
				bs[i].Amount = 0
			}
			bs[len(bs)-1].Amount = total
		} else {
			for i := range bs {
				bs[i].Amount = parts[i]
			}
		}
	}
	p.Budgets = bs
	SignProposal(p, owner, member, version)
	tx := k.ProposalTx(owner, p, version)
	desc := fmt.Sprintf("proposal(%s,%s,by c%d,owner v%d,stages=", p.ProposalType.Name(), mode, mi, ov)
	for _, b := range bs {
		desc += fmt.Sprintf("%d:%s:%s ", b.Stage, b.Type.Name(), b.Amount)
	}
	desc += fmt.Sprintf("canuse=%s cap10=%s)", canUse, cap10)
	return &cand{"proposal", tx, fmt.Sprintf("prop-%d", g.nick), desc}
}

func candReview(g *Gen, t *rapid.T, spent map[string]bool) *cand {
	k := g.K
	if k.Height+1 < k.Params.CRConfiguration.CRCommitteeStartHeight {
		return nil
	}
	ms := g.electedCastMembers()
	if len(ms) == 0 {
		return nil
	}
	ps := g.pickProposal(t, "reviewed", func(p *crstate.ProposalState) bool { return p.Status == crstate.Registered })
	if ps == nil {
		return nil
	}
	// prefer a member that has not reviewed it yet
	var fresh []int
	for _, i := range ms {
		if _, ok := ps.CRVotes[g.crKey(i).DID]; !ok {
			fresh = append(fresh, i)
		}
	}
	if len(fresh) > 0 {
		ms = fresh
	}
	mi := ms[rapid.IntRange(0, len(ms)-1).Draw(t, "reviewer")]
	member := g.crKey(mi)
	version := k.proposalVersion()
	res := payload.Approve
	switch rapid.IntRange(0, 15).Draw(t, "opinion") {
	case 0:
		res = payload.Reject
	case 1:
		res = payload.Abstain
	}
	opinion := []byte(fmt.Sprintf("opinion-%d-%d", k.Height, mi))
	pl := &payload.CRCProposalReview{ProposalHash: ps.Proposal.Hash, VoteResult: res, OpinionHash: common.Hash(opinion), DID: member.DID}
	if version >= payload.CRCProposalVersion01 {
		pl.OpinionData = opinion
	}
	buf := new(bytes.Buffer)
	if err := pl.SerializeUnsigned(buf, version); err != nil {
		panic(err)
	}
	pl.Signature = member.Sign(buf.Bytes())
	in := k.FaucetInput(member.Standard, 2*ELA)
	tx := newTx(common2.TxVersion09, common2.CRCProposalReview, version, pl,
		[]*common2.Input{in}, []*common2.Output{elaOutput(member.Standard, ELA)}, []*program.Program{prog(member)})
	return &cand{"review", tx, fmt.Sprintf("rev-%d-%x", mi, ps.Proposal.Hash[:6]), fmt.Sprintf("review(%x,c%d,%s)", ps.Proposal.Hash[:4], mi, res.Name())}
}

func candVoteProposal(g *Gen, t *rapid.T, spent map[string]bool) *cand {
	k := g.K
	h := k.Height + 1
	if h >= k.Params.DPoSV2StartHeight && k.Arbiters.State.DPoSV2ActiveHeight <= h {
		return nil
	}
	ps := g.pickProposal(t, "rejected", func(p *crstate.ProposalState) bool { return p.Status == crstate.CRAgreed })
	if ps == nil {
		return nil
	}
	v := rapid.IntRange(0, g.NVoters-1).Draw(t, "voter")
	amount := common.Fixed64(rapid.SampledFrom([]int64{10, 1000000, 4000000}).Draw(t, "rejectamount")) * ELA
	tx := k.VoteTx(g.voter(v), amount, outputpayload.VoteProducerAndCRVersion,
		[]outputpayload.VoteContent{{VoteType: outputpayload.CRCProposal,
			CandidateVotes: []outputpayload.CandidateVotes{{Candidate: ps.Proposal.Hash.Bytes(), Votes: amount}}}}, nil)
	return &cand{"voteproposal", tx, fmt.Sprintf("v%d", v), fmt.Sprintf("voteproposal(v%d rejects %x,amount=%d)", v, ps.Proposal.Hash[:4], amount/ELA)}
}

// SignTracking fills the owner, new owner and secretary-general signatures.
func SignTracking(p *payload.CRCProposalTracking, owner, newOwner, secretary *Key, version byte) {
	buf := new(bytes.Buffer)
	if err := p.SerializeUnsigned(buf, version); err != nil {
		panic(err)
	}
	p.OwnerSignature = owner.Sign(buf.Bytes())
	if err := common.WriteVarBytes(buf, p.OwnerSignature); err != nil {
		panic(err)
	}
	if newOwner != nil {
		p.NewOwnerSignature = newOwner.Sign(buf.Bytes())
	}
	if err := common.WriteVarBytes(buf, p.NewOwnerSignature); err != nil {
		panic(err)
	}
	buf.Write([]byte{byte(p.ProposalTrackingType)})
	if err := p.SecretaryGeneralOpinionHash.Serialize(buf); err != nil {
		panic(err)
	}
	if version >= payload.CRCProposalTrackingVersion01 {
		if err := common.WriteVarBytes(buf, p.SecretaryGeneralOpinionData); err != nil {
			panic(err)
		}
	}
	p.SecretaryGeneralSignature = secretary.Sign(buf.Bytes())
}

func candTracking(g *Gen, t *rapid.T, spent map[string]bool) *cand {
	k := g.K
	if k.Height+1 < k.Params.CRConfiguration.CRCommitteeStartHeight {
		return nil
	}
	// mostly proposals that can be tracked, sometimes any
	any := rapid.IntRange(0, 7).Draw(t, "anyproposal") == 0
	ps := g.pickProposal(t, "tracked", func(p *crstate.ProposalState) bool {
		return (any || p.Status == crstate.VoterAgreed) && KeyByPK(p.ProposalOwner) != nil
	})
	if ps == nil {
		return nil
	}
	owner := KeyByPK(ps.ProposalOwner)
	version := k.proposalVersion()
	msg := []byte(fmt.Sprintf("msg-%d-%d", k.Height, ps.TrackingCount))
	op := []byte(fmt.Sprintf("sg-%d-%d", k.Height, ps.TrackingCount))
	pl := &payload.CRCProposalTracking{ProposalHash: ps.Proposal.Hash, MessageHash: common.Hash(msg), OwnerKey: owner.PK,
		SecretaryGeneralOpinionHash: common.Hash(op)}
	if version >= payload.CRCProposalTrackingVersion01 {
		pl.MessageData, pl.SecretaryGeneralOpinionData = msg, op
	}
	var finalStage byte
	var normal []byte
	for _, b := range ps.Proposal.Budgets {
		if b.Type == payload.FinalPayment {
			finalStage = b.Stage
		}
		if b.Type == payload.NormalPayment {
			if _, done := ps.WithdrawableBudgets[b.Stage]; !done {
				normal = append(normal, b.Stage)
			}
		}
	}
	var newOwner *Key
	ttype := rapid.IntRange(0, 11).Draw(t, "trackingtype")
	if g.OwnerChangeFocus && rapid.Bool().Draw(t, "ownerchange") {
		ttype = 8
	}
	// the target of a close proposal that is still being voted on: end it
	// through tracking first, half of the time
	for _, cp := range k.Proposals() {
		if cp.Proposal.ProposalType == payload.CloseProposal && (cp.Status == crstate.Registered || cp.Status == crstate.CRAgreed) &&
			cp.Proposal.TargetProposalHash.IsEqual(ps.Proposal.Hash) && ps.Status == crstate.VoterAgreed {
			if rapid.Bool().Draw(t, "endtarget") {
				ttype = 7 + 2*rapid.IntRange(0, 1).Draw(t, "endhow") // Terminated or Finalized
			}
			break
		}
	}
	switch ttype {
	case 0:
		pl.ProposalTrackingType = payload.Common
	case 1, 2, 3, 4, 5:
		pl.ProposalTrackingType = payload.Progress
		if len(normal) > 0 && rapid.IntRange(0, 7).Draw(t, "anystage") > 0 {
			pl.Stage = normal[rapid.IntRange(0, len(normal)-1).Draw(t, "progressstage")]
		} else {
			// any stage: imprest, final, already withdrawable, out of range
			pl.Stage = byte(rapid.IntRange(0, len(ps.Proposal.Budgets)+1).Draw(t, "stage"))
		}
	case 6:
		pl.ProposalTrackingType = payload.Rejected
		pl.Stage = byte(rapid.IntRange(0, len(ps.Proposal.Budgets)).Draw(t, "stage"))
	case 7:
		pl.ProposalTrackingType = payload.Terminated
	case 8:
		pl.ProposalTrackingType = payload.ChangeOwner
		newOwner = g.voter(rapid.IntRange(0, g.NVoters-1).Draw(t, "newowner"))
		pl.NewOwnerKey = newOwner.PK
	default:
		pl.ProposalTrackingType = payload.Finalized
		pl.Stage = finalStage
		if rapid.IntRange(0, 7).Draw(t, "wrongfinal") == 0 {
			pl.Stage = byte(rapid.IntRange(0, len(ps.Proposal.Budgets)).Draw(t, "stage"))
		}
	}
	SignTracking(pl, owner, newOwner, K(KeySecretaryGen), version)
	in := k.FaucetInput(owner.Standard, 2*ELA)
	tx := newTx(common2.TxVersion09, common2.CRCProposalTracking, version, pl,
		[]*common2.Input{in}, []*common2.Output{elaOutput(owner.Standard, ELA)}, []*program.Program{prog(owner)})
	return &cand{"tracking", tx, c29Subject(g, "trk", ps.Proposal.Hash),
		fmt.Sprintf("tracking(%x,%s,stage=%d,status=%s)", ps.Proposal.Hash[:4], pl.ProposalTrackingType.Name(), pl.Stage, ps.Status)}
}

func candWithdraw(g *Gen, t *rapid.T, spent map[string]bool) *cand {
	k := g.K
	h := k.Height + 1
	if h < k.Params.CRConfiguration.CRCommitteeStartHeight {
		return nil
	}
	// mostly proposals with something to withdraw, sometimes any agreed one, rarely any
	cls := rapid.IntRange(0, 9).Draw(t, "withdrawclass")
	ps := g.pickProposal(t, "withdrawn", func(p *crstate.ProposalState) bool {
		if KeyByPK(p.ProposalOwner) == nil {
			return false
		}
		switch {
		case cls == 0:
			return true
		case cls <= 3:
			return p.Status == crstate.VoterAgreed || p.Status == crstate.Finished || p.Status == crstate.Terminated || p.Status == crstate.Aborted
		default:
			return k.Committee.AvailableWithdrawalAmount(p.Proposal.Hash) > 0
		}
	})
	if ps == nil {
		return nil
	}
	owner := KeyByPK(ps.ProposalOwner)
	avail := k.Committee.AvailableWithdrawalAmount(ps.Proposal.Hash)
	var total, next common.Fixed64
	for _, b := range ps.Proposal.Budgets {
		total += b.Amount
		if _, ok := ps.WithdrawableBudgets[b.Stage]; !ok && next == 0 {
			next = b.Amount
		}
	}
	amount := avail
	mode := "exact"
	switch rapid.IntRange(0, 9).Draw(t, "withdrawmode") {
	case 0:
		mode, amount = "plus-one", avail+1
	case 1:
		mode, amount = "whole-budget", total
	case 2:
		mode, amount = "with-next-stage", avail+next
	case 3:
		mode, amount = "half", avail/2
	}
	fee := common.Fixed64(10000)
	pl := &payload.CRCProposalWithdraw{ProposalHash: ps.Proposal.Hash, OwnerKey: owner.PK}
	var tx interfaces.Transaction
	if h < k.Params.CRConfiguration.CRCProposalWithdrawPayloadV1Height {
		buf := new(bytes.Buffer)
		if err := pl.SerializeUnsigned(buf, payload.CRCProposalWithdrawDefault); err != nil {
			panic(err)
		}
		pl.Signature = owner.Sign(buf.Bytes())
		expenses := *k.Params.CRConfiguration.CRExpensesProgramHash
		ins, in := g.pickInputs(t, expenses, spent, amount, "withdrawins")
		if len(ins) == 0 || in < amount || amount <= fee {
			return nil
		}
		outs := []*common2.Output{elaOutput(ps.Recipient, amount-fee)}
		if in > amount {
			outs = append(outs, elaOutput(expenses, in-amount))
		}
		tx = newTx(common2.TxVersion09, common2.CRCProposalWithdraw, payload.CRCProposalWithdrawDefault, pl, ins, outs, nil)
	} else {
		pl.Recipient, pl.Amount = ps.Recipient, amount
		buf := new(bytes.Buffer)
		if err := pl.SerializeUnsigned(buf, payload.CRCProposalWithdrawVersion01); err != nil {
			panic(err)
		}
		pl.Signature = owner.Sign(buf.Bytes())
		in := k.FaucetInput(owner.Standard, 2*ELA)
		tx = newTx(common2.TxVersion09, common2.CRCProposalWithdraw, payload.CRCProposalWithdrawVersion01, pl,
			[]*common2.Input{in}, []*common2.Output{elaOutput(owner.Standard, ELA)}, []*program.Program{prog(owner)})
	}
	return &cand{"withdraw", tx, c29Subject(g, "wd", ps.Proposal.Hash),
		fmt.Sprintf("withdraw(%x,%s,amount=%s,available=%s,status=%s)", ps.Proposal.Hash[:4], mode, amount, avail, ps.Status)}
}
