package statekit

import (
	"fmt"
	"sort"

	"github.com/elastos/Elastos.ELA/common"
	"github.com/elastos/Elastos.ELA/core/types"
	common2 "github.com/elastos/Elastos.ELA/core/types/common"
	"github.com/elastos/Elastos.ELA/core/types/interfaces"
	"github.com/elastos/Elastos.ELA/core/types/outputpayload"
	"github.com/elastos/Elastos.ELA/core/types/payload"
	crstate "github.com/elastos/Elastos.ELA/cr/state"
	dstate "github.com/elastos/Elastos.ELA/dpos/state"
	"pgregory.net/rapid"
)

// Gen generates node-valid blocks for a kit.  Every random choice is a rapid
// draw; candidates are constructed from the live state (so that most are
// plausible) and then filtered through the node's own context checks.
type Gen struct {
	K          *Kit
	NProducers int // size of the producer cast (<= 12)
	NVoters    int // size of the voter cast (<= 8)
	NCRCast    int // size of the CR candidate cast (default 6)
	MaxTxs     int // candidate transactions per block

	// Kinds lists the enabled candidate kinds with weights.
	Kinds map[string]int
	// AllowActivationClash lets the generator cancel / punish a producer in the
	// very block that auto-activates it (a forward-processing defect of the
	// node leaves such a producer both Active and Canceled/Illegal).
	AllowActivationClash bool
	// AllowKeyOverlap lets a producer register with a node key that is another
	// cast member's owner key (known defect: State.getProducer then resolves
	// that owner key to the wrong producer).
	AllowKeyOverlap bool
	// MinTxs, if set, is the least number of candidates tried for the next block.
	MinTxs func() int
	// UniformKinds makes the kind draw follow the weights exactly (default:
	// rapid's small-value bias favours the alphabetically first kinds).
	UniformKinds bool
	kindDraws    uint64
	// OwnerChangeFocus: half of the generated proposal trackings change the proposal owner (so that one proposal
	// changes hands several times within a history)
	OwnerChangeFocus bool
	// StaffEveryElection: work towards enough voted CR candidates in every
	// voting period (default: the first one only).
	StaffEveryElection bool
	// Boost, if set, multiplies the weight of a kind for the next block (lets a
	// check steer the mix by the live state).
	Boost func(kind string) int
	// Lazy producers (cast index) never sponsor a block when on duty: the view
	// changes to the next arbiter, which is how producers become inactive.
	Lazy map[int]bool

	nick int
	// Stats
	Accepted map[string]int
	Rejected map[string]int
	LastErr  map[string]string
}

// BlockInfo describes a generated block (for rendering / classification).
type BlockInfo struct {
	Height  uint32   `json:"h"`
	Txs     []string `json:"txs,omitempty"`
	Sponsor string   `json:"sponsor,omitempty"`
}

// DefaultKinds are the DPoS-relevant candidate kinds of the v1 era.
func DefaultKinds() map[string]int {
	return map[string]int{
		"register": 6, "update": 3, "cancel": 2, "activate": 3,
		"vote": 6, "cancelvote": 2, "topup": 2, "returndeposit": 3,
		"illegalproposal": 2, "illegalvote": 2, "illegalblock": 1, "sidechainillegal": 1,
		"inactivearbiters": 1,
	}
}

// NewGen returns a generator with default cast sizes.
func NewGen(k *Kit) *Gen {
	return &Gen{K: k, NProducers: 8, NVoters: 4, MaxTxs: 3, Kinds: DefaultKinds(),
		Accepted: map[string]int{}, Rejected: map[string]int{}, LastErr: map[string]string{}}
}

type cand struct {
	kind string
	tx   interfaces.Transaction
	// subject identifies the producer / voter the tx is about: at most one
	// transaction per subject and block.
	subject string
	desc    string
}

func (g *Gen) kindNames() []string {
	var ks []string
	for k, w := range g.Kinds {
		if w > 0 {
			ks = append(ks, k)
		}
	}
	sort.Strings(ks)
	return ks
}

func (g *Gen) weight(kind string) int {
	w := g.Kinds[kind]
	if g.Boost != nil {
		w *= g.Boost(kind)
	}
	k := g.K
	switch kind {
	case "register", "vote":
		// while there are not enough voted producers to staff the arbiter set,
		// registering and voting is what matters
		need := k.Params.DPoSConfiguration.NormalArbitratorsCount + k.Params.DPoSConfiguration.CandidatesCount
		voted := len(k.Arbiters.State.GetVotedProducers())
		active := len(k.Arbiters.State.GetActiveProducers()) + len(k.Arbiters.State.GetPendingProducers())
		if kind == "register" && active < need {
			w *= 4
		}
		if kind == "vote" && voted < need && active > voted {
			w *= 6
		}
	case "renewvoting":
		// a vote in the last block in which it can be renewed
		if w > 0 && k.Height+1 >= k.Params.DPoSV2StartHeight && len(g.expiringVoters(k.Height+1)) > 0 {
			w *= 8
		}
	case "registercr", "votecr", "votingcr":
		// same for the first committee election
		h := k.Height + 1
		if h >= k.Params.CRConfiguration.CRVotingStartHeight && k.Committee.IsInVotingPeriod(h) {
			cands := k.Committee.GetCandidates(crstate.Active)
			pend := k.Committee.GetCandidates(crstate.Pending)
			voted := 0
			for _, c := range cands {
				if c.Votes > 0 {
					voted++
				}
			}
			n := int(k.Params.CRConfiguration.MemberCount)
			if kind == "registercr" && len(cands)+len(pend) < n+1 {
				w *= 6
			}
			if (kind == "votecr" || kind == "votingcr") && voted < n && len(cands) > voted {
				w *= 8
			}
		}
	}
	return w
}

// Weights lists the effective kind weights for the next block (diagnostics).
func (g *Gen) Weights() map[string]int {
	out := map[string]int{}
	for _, k := range g.kindNames() {
		out[k] = g.weight(k)
	}
	return out
}

// understaffed tells that the arbiter set or the first committee cannot be
// filled yet (the generator then works towards filling them).
func (g *Gen) understaffed() bool {
	k := g.K
	need := k.Params.DPoSConfiguration.NormalArbitratorsCount + k.Params.DPoSConfiguration.CandidatesCount
	if len(k.Arbiters.State.GetVotedProducers()) < need {
		return true
	}
	h := k.Height + 1
	if h >= k.Params.CRConfiguration.CRVotingStartHeight && (h < k.Params.CRConfiguration.CRCommitteeStartHeight || g.StaffEveryElection && k.Committee.IsInVotingPeriod(h)) {
		voted := 0
		for _, c := range k.Committee.GetCandidates(crstate.Active) {
			if c.Votes > 0 {
				voted++
			}
		}
		return voted < int(k.Params.CRConfiguration.MemberCount)
	}
	return false
}

func (g *Gen) drawKind(t *rapid.T) string {
	ks := g.kindNames()
	total := 0
	for _, k := range ks {
		total += g.weight(k)
	}
	x := 0
	if g.UniformKinds {
		// rapid's integers are drawn bit-length first (small values are far
		// more likely than their share), which would favour the kinds that come
		// first in the alphabet whatever their weights: mix the bits
		// (the draw counter spreads rapid's favourite values 0, 1, 2, ...)
		g.kindDraws++
		u := rapid.Uint64().Draw(t, "kind") + g.kindDraws*0x9e3779b97f4a7c15
		u = (u ^ (u >> 33)) * 0xff51afd7ed558ccd
		u = (u ^ (u >> 33)) * 0xc4ceb9fe1a85ec53
		u ^= u >> 33
		x = int(u % uint64(total))
	} else {
		x = rapid.IntRange(0, total-1).Draw(t, "kind")
	}
	for _, k := range ks {
		if x < g.weight(k) {
			return k
		}
		x -= g.weight(k)
	}
	return ks[0]
}

// Block generates the block for height K.Height+1 and its confirm (nil when the
// node would not have one).  It does not process it.
func (g *Gen) Block(t *rapid.T) (*types.Block, *payload.Confirm, BlockInfo) {
	k := g.K
	h := k.Height + 1
	info := BlockInfo{Height: h}
	var txs []interfaces.Transaction
	subjects := map[string]bool{}
	spent := map[string]bool{}
	n := 0
	if h >= k.Params.VoteStartHeight {
		n = rapid.IntRange(0, g.MaxTxs).Draw(t, "ntx")
		if n < 2 && g.understaffed() {
			n = 2
		}
		if g.MinTxs != nil {
			if m := g.MinTxs(); n < m {
				n = m
			}
		}
	}
	for i := 0; i < n; i++ {
		kind := g.drawKind(t)
		c := g.candidate(t, kind, spent)
		if c == nil {
			g.Rejected[kind+"/na"]++
			continue
		}
		if subjects[c.subject] {
			g.Rejected[kind+"/dup-subject"]++
			continue
		}
		clash := false
		for _, in := range c.tx.Inputs() {
			if spent[in.ReferKey()] {
				clash = true
			}
		}
		if clash {
			g.Rejected[kind+"/dup-input"]++
			continue
		}
		if err := k.CheckTx(c.tx, 1600000000+120*h, 0); err != nil {
			g.Rejected[kind]++
			g.LastErr[kind] = err.Error()
			continue
		}
		subjects[c.subject] = true
		for _, in := range c.tx.Inputs() {
			spent[in.ReferKey()] = true
		}
		g.Accepted[kind]++
		txs = append(txs, c.tx)
		info.Txs = append(info.Txs, c.desc)
	}
	txs = append(txs, g.requiredTxs(&info)...)
	b := k.NewBlock(txs)
	if err := k.CheckBlock(b); err != nil {
		g.Rejected["block"]++
		g.LastErr["block"] = err.Error()
		info.Txs = nil
		b = k.NewBlock(g.requiredTxs(&info))
		if err := k.CheckBlock(b); err != nil {
			t.Fatalf("harness: cannot build a valid block at %d: %v", h, err)
		}
	}
	confirm := g.confirm(t, b, &info)
	return b, confirm, info
}

// requiredTxs are the transactions the node demands in the next block
// (CheckBlockContext): the next-turn DPoS info, the CR appropriation and the
// proposal-result record, built the way the node builds them.
func (g *Gen) requiredTxs(info *BlockInfo) []interfaces.Transaction {
	k := g.K
	k.Activate()
	var txs []interfaces.Transaction
	if k.Arbiters.IsNeedNextTurnDPOSInfo() {
		force := false
		if tip := k.Blocks[k.Height]; tip != nil {
			for _, tx := range tip.Transactions {
				if tx.IsIllegalBlockTx() {
					force = true
				}
			}
		}
		txs = append(txs, k.Arbiters.VerifSKNextTurnDPOSInfoTx(k.Height, force))
		info.Txs = append(info.Txs, "nextturn()")
	}
	if k.Committee.IsAppropriationNeeded() {
		if tx := k.AppropriationTx(); tx != nil {
			txs = append(txs, tx)
			info.Txs = append(info.Txs, fmt.Sprintf("appropriation(%d)", k.Committee.AppropriationAmount/ELA))
		}
	}
	if k.Committee.IsProposalResultNeeded() {
		txs = append(txs, k.ProposalResultTx())
		info.Txs = append(info.Txs, "proposalresult()")
	}
	return txs
}

func (g *Gen) confirm(t *rapid.T, b *types.Block, info *BlockInfo) *payload.Confirm {
	k := g.K
	if b.Height < k.Params.CRCOnlyDPOSHeight || k.Arbiters.State.ConsensusAlgorithm == dstate.POW {
		return nil
	}
	var normal [][]byte
	for _, a := range k.Arbiters.GetArbitrators() {
		if a.IsNormal {
			normal = append(normal, a.NodePublicKey)
		}
	}
	if len(normal) == 0 {
		return nil
	}
	sponsor := k.Arbiters.GetOnDutyArbitrator()
	offset := uint32(0)
	for len(sponsor) != 0 && g.isLazy(sponsor) && offset < uint32(len(normal))+2 {
		offset++
		sponsor = k.Arbiters.GetNextOnDutyArbitrator(offset)
		if !isIn(normal, sponsor) {
			sponsor = nil
		}
	}
	if len(sponsor) == 0 || g.isLazy(sponsor) || rapid.IntRange(0, 7).Draw(t, "viewchange") == 0 {
		i := rapid.IntRange(0, len(normal)-1).Draw(t, "sponsor")
		sponsor = normal[i]
		offset = 1
	}
	info.Sponsor = keyName(sponsor)
	return &payload.Confirm{Proposal: payload.DPOSProposal{Sponsor: sponsor, BlockHash: b.Hash(), ViewOffset: offset}}
}

func isIn(set [][]byte, pk []byte) bool {
	for _, s := range set {
		if string(s) == string(pk) {
			return true
		}
	}
	return false
}

func (g *Gen) isLazy(nodePK []byte) bool {
	for i := range g.Lazy {
		if !g.Lazy[i] {
			continue
		}
		if string(g.nodeKey(i).PK) == string(nodePK) || string(g.nodeAlt(i).PK) == string(nodePK) {
			return true
		}
	}
	return false
}

// DrawLazy draws the set of lazy producers for a case.
func (g *Gen) DrawLazy(t *rapid.T) {
	g.Lazy = map[int]bool{}
	for i := 0; i < g.NProducers; i++ {
		if rapid.IntRange(0, 4).Draw(t, "lazy") == 0 {
			g.Lazy[i] = true
		}
	}
}

// keyName renders a cast public key as its cast index.
func keyName(pk []byte) string {
	for _, base := range []int{KeyOriginBase, KeyCRCBase, KeyOwnerBase, KeyNodeBase, KeyNodeAltBase, KeyVoterBase, KeyCRBase, KeyCRNodeBase} {
		for i := 0; i < 12; i++ {
			if string(K(base+i).PK) == string(pk) {
				return fmt.Sprintf("k%d", base+i)
			}
		}
	}
	return common.BytesToHexString(pk)[:8]
}

func (g *Gen) owner(i int) *Key   { return K(KeyOwnerBase + i) }
func (g *Gen) voter(i int) *Key   { return K(KeyVoterBase + i) }
func (g *Gen) nodeKey(i int) *Key { return K(KeyNodeBase + i) }
func (g *Gen) nodeAlt(i int) *Key { return K(KeyNodeAltBase + i) }

func (g *Gen) producer(i int) *dstate.Producer {
	return g.K.Arbiters.State.GetProducerByOwnerPublicKey(g.owner(i).PK)
}

// pick draws one index of the producer cast satisfying pred, or -1.
func (g *Gen) pick(t *rapid.T, label string, pred func(i int, p *dstate.Producer) bool) int {
	var idx []int
	for i := 0; i < g.NProducers; i++ {
		if pred(i, g.producer(i)) {
			idx = append(idx, i)
		}
	}
	if len(idx) == 0 {
		return -1
	}
	return idx[rapid.IntRange(0, len(idx)-1).Draw(t, label)]
}

func (g *Gen) voteOutputs(v *Key, spent map[string]bool) []*OutRec {
	var out []*OutRec
	for _, r := range g.K.UTXOs(v.Standard) {
		if r.Out.Type == common2.OTVote && r.Height > 0 && !spent[refKey(r)] {
			out = append(out, r)
		}
	}
	return out
}

// autoActivates tells whether processTransactions will move p to Active in the
// block at height h by itself (6 confirmations of a registration or of an
// activate request).
func (g *Gen) autoActivates(p *dstate.Producer, h uint32) bool {
	if p == nil {
		return false
	}
	switch p.State() {
	case dstate.Pending:
		return h-p.RegisterHeight()+1 >= dstate.ActivateDuration
	case dstate.Inactive:
		return h > p.ActivateRequestHeight() && h-p.ActivateRequestHeight()+1 >= dstate.ActivateDuration
	case dstate.Illegal:
		return h >= g.K.Params.EnableActivateIllegalHeight && h > p.ActivateRequestHeight() &&
			h-p.ActivateRequestHeight()+1 >= dstate.ActivateDuration
	}
	return false
}

func (g *Gen) clash(p *dstate.Producer, h uint32) bool {
	return !g.AllowActivationClash && g.autoActivates(p, h)
}

func refKey(r *OutRec) string { return common2.NewOutPoint(r.TxID, r.Index).ReferKey() }

func inputOfRec(r *OutRec) *common2.Input {
	return &common2.Input{Previous: *common2.NewOutPoint(r.TxID, r.Index)}
}

func (g *Gen) candidate(t *rapid.T, kind string, spent map[string]bool) *cand {
	k := g.K
	h := k.Height + 1
	switch kind {
	case "register":
		i := g.pick(t, "reg", func(i int, p *dstate.Producer) bool { return p == nil })
		if i < 0 {
			return nil
		}
		node := g.nodeKey(i)
		switch rapid.IntRange(0, 7).Draw(t, "altnode") {
		case 0:
			node = g.nodeAlt(i)
		case 1:
			// the node key is the owner key of the next cast member (who may
			// register later: owner key == somebody's node key is admitted
			// before DPoSV2StartHeight and makes getProducer ambiguous)
			if g.AllowKeyOverlap {
				node = g.owner((i + 1) % g.NProducers)
			}
		}
		g.nick++
		dep := common.Fixed64(rapid.SampledFrom([]int64{5000, 5000, 5500, 6000, 8000}).Draw(t, "deposit")) * ELA
		var stake uint32
		if h >= k.Params.DPoSV2StartHeight && rapid.Bool().Draw(t, "v2") {
			stake = h + k.Params.DPoSConfiguration.DPoSV2DepositCoinMinLockTime + uint32(rapid.IntRange(1, 40).Draw(t, "stake"))
			dep = common.Fixed64(rapid.SampledFrom([]int64{2000, 2500, 5000}).Draw(t, "deposit2")) * ELA
		}
		tx := k.RegisterProducerTx(g.owner(i), node, fmt.Sprintf("n%d", g.nick), dep, stake)
		return &cand{kind, tx, fmt.Sprintf("p%d", i), fmt.Sprintf("register(p%d,%s,dep=%d,stake=%d)", i, keyName(node.PK), dep/ELA, stake)}
	case "update":
		i := g.pick(t, "upd", func(i int, p *dstate.Producer) bool {
			return p != nil && (p.State() == dstate.Pending || p.State() == dstate.Active || p.State() == dstate.Inactive)
		})
		if i < 0 {
			return nil
		}
		p := g.producer(i)
		node := g.nodeKey(i)
		if string(p.NodePublicKey()) == string(node.PK) && rapid.Bool().Draw(t, "swapnode") {
			node = g.nodeAlt(i)
		} else if string(p.NodePublicKey()) != string(node.PK) && rapid.Bool().Draw(t, "keepnode") {
			node = g.nodeAlt(i)
		}
		nick := p.Info().NickName
		if rapid.Bool().Draw(t, "newnick") {
			g.nick++
			nick = fmt.Sprintf("n%d", g.nick)
		}
		stake := p.Info().StakeUntil
		if h >= k.Params.DPoSV2StartHeight && rapid.Bool().Draw(t, "restake") {
			stake = h + k.Params.DPoSConfiguration.DPoSV2DepositCoinMinLockTime + uint32(rapid.IntRange(1, 40).Draw(t, "stake"))
		}
		tx := k.UpdateProducerTx(g.owner(i), node, nick, stake)
		return &cand{kind, tx, fmt.Sprintf("p%d", i), fmt.Sprintf("update(p%d,%s,%s,stake=%d)", i, keyName(node.PK), nick, stake)}
	case "cancel":
		i := g.pick(t, "can", func(i int, p *dstate.Producer) bool {
			return p != nil && (p.State() == dstate.Pending || p.State() == dstate.Active || p.State() == dstate.Inactive) && !g.clash(p, h)
		})
		if i < 0 {
			return nil
		}
		return &cand{kind, k.CancelProducerTx(g.owner(i)), fmt.Sprintf("p%d", i), fmt.Sprintf("cancel(p%d)", i)}
	case "activate":
		i := g.pick(t, "act", func(i int, p *dstate.Producer) bool {
			return p != nil && (p.State() == dstate.Inactive || p.State() == dstate.Illegal)
		})
		if i < 0 {
			return nil
		}
		p := g.producer(i)
		node := KeyByPK(p.NodePublicKey())
		if node == nil {
			return nil
		}
		return &cand{kind, k.ActivateProducerTx(node), fmt.Sprintf("p%d", i), fmt.Sprintf("activate(p%d)", i)}
	case "vote":
		v := rapid.IntRange(0, g.NVoters-1).Draw(t, "voter")
		var active []int
		for i := 0; i < g.NProducers; i++ {
			if p := g.producer(i); p != nil && (p.State() == dstate.Active || (h < k.Params.PublicDPOSHeight && p.State() == dstate.Pending)) {
				active = append(active, i)
			}
		}
		if len(active) == 0 {
			return nil
		}
		nc := rapid.IntRange(1, minInt(3, len(active))).Draw(t, "ncand")
		perm := rapid.Permutation(active).Draw(t, "cands")[:nc]
		amount := common.Fixed64(rapid.IntRange(1, 400).Draw(t, "amount")) * ELA
		version := byte(outputpayload.VoteProducerVersion)
		if h >= k.Params.CRConfiguration.CRVotingStartHeight && rapid.Bool().Draw(t, "votev1") {
			version = outputpayload.VoteProducerAndCRVersion
		}
		var cvs []outputpayload.CandidateVotes
		desc := ""
		for _, i := range perm {
			cv := outputpayload.CandidateVotes{Candidate: g.owner(i).PK}
			if version >= outputpayload.VoteProducerAndCRVersion {
				cv.Votes = amount / common.Fixed64(rapid.IntRange(1, 3).Draw(t, "frac"))
			}
			cvs = append(cvs, cv)
			desc += fmt.Sprintf("p%d ", i)
		}
		var spend []*common2.Input
		if old := g.voteOutputs(g.voter(v), spent); len(old) > 0 && rapid.IntRange(0, 2).Draw(t, "revote") > 0 {
			spend = append(spend, inputOfRec(old[rapid.IntRange(0, len(old)-1).Draw(t, "oldvote")]))
		}
		tx := k.VoteTx(g.voter(v), amount, version, []outputpayload.VoteContent{{VoteType: outputpayload.Delegate, CandidateVotes: cvs}}, spend)
		return &cand{kind, tx, fmt.Sprintf("v%d", v), fmt.Sprintf("vote(v%d->%samount=%d,ver=%d,respend=%d)", v, desc, amount/ELA, version, len(spend))}
	case "cancelvote":
		v := rapid.IntRange(0, g.NVoters-1).Draw(t, "voter")
		old := g.voteOutputs(g.voter(v), spent)
		if len(old) == 0 {
			return nil
		}
		r := old[rapid.IntRange(0, len(old)-1).Draw(t, "oldvote")]
		tx := k.TransferTx(g.voter(v), []*common2.Input{inputOfRec(r)}, []*common2.Output{PlainOutput(g.voter(v).Standard, r.Out.Value)})
		return &cand{kind, tx, fmt.Sprintf("v%d", v), fmt.Sprintf("cancelvote(v%d,%d)", v, r.Out.Value/ELA)}
	case "topup":
		i := g.pick(t, "top", func(i int, p *dstate.Producer) bool { return p != nil })
		if i < 0 {
			// a deposit-address payment for somebody who is not (yet) a producer
			i = rapid.IntRange(0, g.NProducers-1).Draw(t, "topany")
		}
		amount := common.Fixed64(rapid.IntRange(1, 2000).Draw(t, "amount")) * ELA
		v := rapid.IntRange(0, g.NVoters-1).Draw(t, "payer")
		tx := k.TransferTx(g.voter(v), nil, []*common2.Output{PlainOutput(g.owner(i).Deposit, amount)})
		return &cand{kind, tx, fmt.Sprintf("pay%d", v), fmt.Sprintf("topup(p%d,%d)", i, amount/ELA)}
	case "returndeposit":
		i := g.pick(t, "ret", func(i int, p *dstate.Producer) bool { return p != nil && p.AvailableAmount() > ELA })
		if i < 0 {
			return nil
		}
		p := g.producer(i)
		var ins []*common2.Input
		var total common.Fixed64
		for _, r := range k.UTXOs(g.owner(i).Deposit) {
			if spent[refKey(r)] {
				continue
			}
			ins = append(ins, inputOfRec(r))
			total += r.Out.Value
		}
		if len(ins) == 0 {
			return nil
		}
		avail := p.AvailableAmount()
		take := avail
		if rapid.Bool().Draw(t, "partial") {
			take = common.Fixed64(rapid.Int64Range(int64(ELA), int64(avail)).Draw(t, "take"))
		}
		if take > total {
			take = total
		}
		change := total - take
		out := take - ELA/100
		tx := k.ReturnDepositTx(g.owner(i), ins, out, change)
		return &cand{kind, tx, fmt.Sprintf("p%d", i), fmt.Sprintf("returndeposit(p%d,in=%d,out=%d,change=%d,state=%s)", i, total/ELA, out/ELA, change/ELA, p.State())}
	}
	if f, ok := extraKinds[kind]; ok {
		return f(g, t, spent)
	}
	return nil
}

// extraKinds holds candidate builders defined in other files of the package.
var extraKinds = map[string]func(g *Gen, t *rapid.T, spent map[string]bool) *cand{}

func minInt(a, b int) int {
	if a < b {
		return a
	}
	return b
}
