package statekit

import (
	"bytes"
	"fmt"
	"sort"

	"github.com/elastos/Elastos.ELA/common"
	"github.com/elastos/Elastos.ELA/core/contract"
	"github.com/elastos/Elastos.ELA/core/contract/program"
	common2 "github.com/elastos/Elastos.ELA/core/types/common"
	"github.com/elastos/Elastos.ELA/core/types/interfaces"
	"github.com/elastos/Elastos.ELA/core/types/payload"
	"github.com/elastos/Elastos.ELA/crypto"
	dstate "github.com/elastos/Elastos.ELA/dpos/state"
	"pgregory.net/rapid"
)

func init() {
	extraKinds["illegalproposal"] = candIllegalProposal
	extraKinds["illegalvote"] = candIllegalVote
	extraKinds["illegalblock"] = candIllegalBlock
	extraKinds["sidechainillegal"] = candSidechainIllegal
	extraKinds["inactivearbiters"] = candInactiveArbiters
}

// KeyByPK finds the cast key with the given compressed public key.
func KeyByPK(pk []byte) *Key {
	for _, base := range []int{KeyOriginBase, KeyCRCBase, KeyOwnerBase, KeyNodeBase, KeyNodeAltBase, KeyVoterBase, KeyCRBase, KeyCRNodeBase} {
		for i := 0; i < 12; i++ {
			if bytes.Equal(K(base+i).PK, pk) {
				return K(base + i)
			}
		}
	}
	return nil
}

// signingArbiters lists the current arbiters whose private key is in the cast.
func (g *Gen) signingArbiters() []*Key {
	var out []*Key
	for _, a := range g.K.Arbiters.GetArbitrators() {
		if !a.IsNormal {
			continue
		}
		if k := KeyByPK(a.NodePublicKey); k != nil {
			out = append(out, k)
		}
	}
	return out
}

func headerBytes(height uint32, nonce uint32) ([]byte, common.Uint256) {
	h := &common2.Header{Version: 1, Height: height, Nonce: nonce, Timestamp: 1600000000 + 120*height, Bits: 0x207fffff}
	buf := new(bytes.Buffer)
	if err := h.Serialize(buf); err != nil {
		panic("statekit: header serialize: " + err.Error())
	}
	return buf.Bytes(), h.Hash()
}

func signedProposal(sponsor *Key, blockHash common.Uint256, view uint32) payload.DPOSProposal {
	p := payload.DPOSProposal{Sponsor: sponsor.PK, BlockHash: blockHash, ViewOffset: view}
	p.Sign = sponsor.Sign(p.Data())
	return p
}

func signedVote(signer *Key, proposalHash common.Uint256) payload.DPOSProposalVote {
	v := payload.DPOSProposalVote{ProposalHash: proposalHash, Signer: signer.PK, Accept: true}
	v.Sign = signer.Sign(v.Data())
	return v
}

// evidenceHeight picks the height the evidence talks about: the tip (the
// arbiters of that height are the current ones).
func (g *Gen) evidenceHeight() uint32 { return g.K.Height }

func candIllegalProposal(g *Gen, t *rapid.T, spent map[string]bool) *cand {
	arbs := g.signingArbiters()
	if len(arbs) == 0 || g.K.Height < g.K.Params.CRCOnlyDPOSHeight {
		return nil
	}
	sp := arbs[rapid.IntRange(0, len(arbs)-1).Draw(t, "evsponsor")]
	if p := g.K.Arbiters.State.GetProducer(sp.PK); g.clash(p, g.K.Height+1) {
		return nil
	}
	eh := g.evidenceHeight()
	n := uint32(rapid.IntRange(1, 1000).Draw(t, "evnonce"))
	h1, hash1 := headerBytes(eh, 2*n)
	h2, hash2 := headerBytes(eh, 2*n+1)
	e1 := payload.ProposalEvidence{Proposal: signedProposal(sp, hash1, 0), BlockHeader: h1, BlockHeight: eh}
	e2 := payload.ProposalEvidence{Proposal: signedProposal(sp, hash2, 0), BlockHeader: h2, BlockHeight: eh}
	if e1.Proposal.Hash().Compare(e2.Proposal.Hash()) > 0 {
		e1, e2 = e2, e1
	}
	pl := &payload.DPOSIllegalProposals{Evidence: e1, CompareEvidence: e2}
	tx := newTx(common2.TxVersion09, common2.IllegalProposalEvidence, payload.IllegalProposalVersion, pl, nil, nil, nil)
	return &cand{"illegalproposal", tx, "ev-" + sp.Hex, fmt.Sprintf("illegalproposal(%s,h=%d)", keyName(sp.PK), eh)}
}

func candIllegalVote(g *Gen, t *rapid.T, spent map[string]bool) *cand {
	arbs := g.signingArbiters()
	if len(arbs) < 2 || g.K.Height < g.K.Params.CRCOnlyDPOSHeight {
		return nil
	}
	perm := rapid.Permutation(arbs).Draw(t, "evkeys")
	sp, signer := perm[0], perm[1]
	if p := g.K.Arbiters.State.GetProducer(signer.PK); g.clash(p, g.K.Height+1) {
		return nil
	}
	eh := g.evidenceHeight()
	n := uint32(rapid.IntRange(1, 1000).Draw(t, "evnonce"))
	h1, hash1 := headerBytes(eh, 2*n)
	h2, hash2 := headerBytes(eh, 2*n+1)
	p1, p2 := signedProposal(sp, hash1, 0), signedProposal(sp, hash2, 0)
	e1 := payload.VoteEvidence{ProposalEvidence: payload.ProposalEvidence{Proposal: p1, BlockHeader: h1, BlockHeight: eh}, Vote: signedVote(signer, p1.Hash())}
	e2 := payload.VoteEvidence{ProposalEvidence: payload.ProposalEvidence{Proposal: p2, BlockHeader: h2, BlockHeight: eh}, Vote: signedVote(signer, p2.Hash())}
	if e1.Vote.Hash().Compare(e2.Vote.Hash()) > 0 {
		e1, e2 = e2, e1
	}
	pl := &payload.DPOSIllegalVotes{Evidence: e1, CompareEvidence: e2}
	tx := newTx(common2.TxVersion09, common2.IllegalVoteEvidence, payload.IllegalVoteVersion, pl, nil, nil, nil)
	return &cand{"illegalvote", tx, "ev-" + signer.Hex, fmt.Sprintf("illegalvote(%s,h=%d)", keyName(signer.PK), eh)}
}

// IllegalBlocksPayload builds evidence of two confirmed blocks at the same
// height, both signed by `both` (plus enough other arbiters for a majority).
func (g *Gen) IllegalBlocksPayload(t *rapid.T) (*payload.DPOSIllegalBlocks, []*Key) {
	arbs := g.signingArbiters()
	need := g.K.Arbiters.GetArbitersMajorityCount() + 1
	if len(arbs) < need || len(arbs) != len(g.K.Arbiters.GetArbitrators()) {
		return nil, nil
	}
	eh := g.evidenceHeight()
	n := uint32(rapid.IntRange(1, 1000).Draw(t, "evnonce"))
	h1, hash1 := headerBytes(eh, 2*n)
	h2, hash2 := headerBytes(eh, 2*n+1)
	if common.BytesToHexString(h1) > common.BytesToHexString(h2) {
		h1, h2, hash1, hash2 = h2, h1, hash2, hash1
	}
	sp := arbs[rapid.IntRange(0, len(arbs)-1).Draw(t, "evsponsor")]
	// two signer sets of majority size with a drawn overlap
	perm1 := rapid.Permutation(arbs).Draw(t, "signers1")[:need]
	perm2 := rapid.Permutation(arbs).Draw(t, "signers2")[:need]
	mk := func(hash common.Uint256, hdr []byte, signers []*Key) payload.BlockEvidence {
		c := payload.Confirm{Proposal: signedProposal(sp, hash, 0)}
		ev := payload.BlockEvidence{Header: hdr}
		for _, s := range signers {
			c.Votes = append(c.Votes, signedVote(s, c.Proposal.Hash()))
			ev.Signers = append(ev.Signers, s.PK)
		}
		buf := new(bytes.Buffer)
		if err := c.Serialize(buf); err != nil {
			panic(err)
		}
		ev.BlockConfirm = buf.Bytes()
		return ev
	}
	pl := &payload.DPOSIllegalBlocks{CoinType: payload.ELACoin, BlockHeight: eh,
		Evidence: mk(hash1, h1, perm1), CompareEvidence: mk(hash2, h2, perm2)}
	var both []*Key
	in1 := map[string]bool{}
	for _, s := range perm1 {
		in1[s.Hex] = true
	}
	for _, s := range perm2 {
		if in1[s.Hex] {
			both = append(both, s)
		}
	}
	return pl, both
}

func candIllegalBlock(g *Gen, t *rapid.T, spent map[string]bool) *cand {
	if g.K.Height < g.K.Params.CRCOnlyDPOSHeight {
		return nil
	}
	pl, both := g.IllegalBlocksPayload(t)
	if pl == nil {
		return nil
	}
	for _, s := range both {
		if p := g.K.Arbiters.State.GetProducer(s.PK); g.clash(p, g.K.Height+1) {
			return nil
		}
	}
	tx := newTx(common2.TxVersion09, common2.IllegalBlockEvidence, payload.IllegalBlockVersion, pl, nil, nil, nil)
	names := ""
	for _, s := range both {
		names += keyName(s.PK) + " "
	}
	return &cand{"illegalblock", tx, "ev-block", fmt.Sprintf("illegalblock(%sh=%d)", names, pl.BlockHeight)}
}

func candSidechainIllegal(g *Gen, t *rapid.T, spent map[string]bool) *cand {
	arbs := g.signingArbiters()
	if len(arbs) == 0 || g.K.Height < g.K.Params.CRCOnlyDPOSHeight {
		return nil
	}
	s := arbs[rapid.IntRange(0, len(arbs)-1).Draw(t, "evsigner")]
	if p := g.K.Arbiters.State.GetProducer(s.PK); g.clash(p, g.K.Height+1) {
		return nil
	}
	n := rapid.IntRange(1, 100000).Draw(t, "evdata")
	var d1, d2 common.Uint256
	copy(d1[:], fmt.Sprintf("a-%d", n))
	copy(d2[:], fmt.Sprintf("b-%d", n))
	if d1.Compare(d2) >= 0 {
		d1, d2 = d2, d1
	}
	addr, _ := K(KeyMiner).Standard.ToAddress()
	pl := &payload.SidechainIllegalData{IllegalType: payload.SidechainIllegalProposal, Height: g.K.Height,
		IllegalSigner: s.PK, Evidence: payload.SidechainIllegalEvidence{DataHash: d1},
		CompareEvidence: payload.SidechainIllegalEvidence{DataHash: d2}, GenesisBlockAddress: addr}
	for i := 0; i <= g.K.Arbiters.GetArbitersMajorityCount(); i++ {
		pl.Signs = append(pl.Signs, bytes.Repeat([]byte{byte(i + 1)}, 64))
	}
	tx := newTx(common2.TxVersion09, common2.IllegalSidechainEvidence, payload.SidechainIllegalDataVersion, pl, nil, nil, nil)
	return &cand{"sidechainillegal", tx, "ev-" + s.Hex, fmt.Sprintf("sidechainillegal(%s)", keyName(s.PK))}
}

// InactiveArbitratorsTx builds the emergency "inactive arbitrators" transaction
// signed (as far as its context check looks) by the CRC arbiters.
func (g *Gen) InactiveArbitratorsTx(arbiters [][]byte) interfaces.Transaction {
	k := g.K
	var crc []*crypto.PublicKey
	var sponsor []byte
	var keys [][]byte
	for _, a := range k.Arbiters.GetCRCArbiters() {
		keys = append(keys, a.NodePublicKey)
	}
	sort.Slice(keys, func(i, j int) bool { return bytes.Compare(keys[i], keys[j]) < 0 })
	for _, pk := range keys {
		p, err := crypto.DecodePoint(pk)
		if err != nil {
			return nil
		}
		crc = append(crc, p)
		if sponsor == nil {
			sponsor = pk
		}
	}
	if len(crc) < 2 {
		return nil
	}
	m := int(float64(len(crc))*dstate.MajoritySignRatioNumerator/dstate.MajoritySignRatioDenominator) + 1
	code, err := contract.CreateMultiSigRedeemScript(m, crc)
	if err != nil {
		return nil
	}
	sort.Slice(arbiters, func(i, j int) bool { return bytes.Compare(arbiters[i], arbiters[j]) < 0 })
	pl := &payload.InactiveArbitrators{Sponsor: sponsor, Arbitrators: arbiters, BlockHeight: k.Height}
	return newTx(common2.TxVersion09, common2.InactiveArbitrators, payload.InactiveArbitratorsVersion, pl, nil, nil,
		[]*program.Program{{Code: code, Parameter: bytes.Repeat([]byte{0x40}, 65*m)}})
}

func candInactiveArbiters(g *Gen, t *rapid.T, spent map[string]bool) *cand {
	k := g.K
	if k.Height < k.Params.PublicDPOSHeight {
		return nil
	}
	var normal [][]byte
	for _, a := range k.Arbiters.GetArbitrators() {
		if a.IsNormal && !k.Arbiters.IsCRCArbitrator(a.NodePublicKey) {
			if p := k.Arbiters.State.GetProducer(a.NodePublicKey); p != nil && !g.clash(p, k.Height+1) {
				normal = append(normal, a.NodePublicKey)
			}
		}
	}
	if len(normal) == 0 {
		return nil
	}
	n := rapid.IntRange(1, minInt(2, len(normal))).Draw(t, "ninactive")
	sel := rapid.Permutation(normal).Draw(t, "inactive")[:n]
	tx := g.InactiveArbitratorsTx(sel)
	if tx == nil {
		return nil
	}
	names := ""
	for _, pk := range sel {
		names += keyName(pk) + " "
	}
	return &cand{"inactivearbiters", tx, "ev-inactive", fmt.Sprintf("inactivearbiters(%s)", names)}
}
