// Package rbk is the rollback-vs-direct-build engine shared by C21 (DPoS
// state) and C22 (CR committee state).
//
// One real Arbiters/State/Committee instance (statekit) is fed a generated,
// node-valid block sequence; after every block the full state is dumped
// (canon).  The dump taken when the instance had processed exactly the blocks
// up to h IS the direct build to h.  The instance is then rolled back the way
// reorganizeChain does it (one OnRollbackTo per detached block) and compared
// with the direct-build dump after every step; the detached blocks are then
// re-applied (and must reproduce the original dumps) or a fork is generated.
// At the end a fresh instance is fed the final chain from scratch and compared
// with the instance that went through the rollbacks (hidden state such as the
// change histories shows up here).
//
// Both states are always observed.  Side selects which one is reported; a
// difference on the other side only resynchronises the instance (it belongs
// to the other property).
package rbk

import (
	"encoding/hex"
	"encoding/json"
	"fmt"
	"os"
	"strings"

	"pgregory.net/rapid"
	"verifharness/lib/canon"
	"verifharness/lib/vk"
	"verifharness/statekit"

	"github.com/elastos/Elastos.ELA/core/types/payload"
	crstate "github.com/elastos/Elastos.ELA/cr/state"
)

// Side selects the reported state.
type Side int

const (
	DPoS Side = iota
	CR
)

// Config parameterises a run.
type Config struct {
	Prop string // "C21" / "C22"
	Side Side
	Eras []int // eras to draw from (statekit.Era values, repeated = weight)
	// Kinds adjusts the generator after the defaults were installed.
	Kinds func(g *statekit.Gen, era statekit.Era)
	// Done is called at the end of the case (undo per-generator registrations).
	Done func(g *statekit.Gen)
	// Profile adjusts the drawn profile.
	Profile func(t *rapid.T, p *statekit.Profile, era statekit.Era)
	// MaxHeight, if set, draws the height the history ends at.
	MaxHeight func(t *rapid.T, p *statekit.Profile, era statekit.Era) uint32
}

type history struct {
	Profile statekit.Profile     `json:"profile"`
	Era     string               `json:"era"`
	Ops     []string             `json:"ops"`
	Blocks  []statekit.BlockInfo `json:"blocks"`
}

type obs struct {
	d *statekit.DPoSObs
	c *statekit.CRObs
}

type run struct {
	cfg   Config
	t     *rapid.T
	k     *statekit.Kit
	g     *statekit.Gen
	hist  *history
	dumps map[uint32]*obs
	base  uint32 // lowest rollback target

	roundChg, crChg bool
	// CR side: a committee change (or a failed one) was just connected - the
	// next operation should be a rollback across it
	hot                              bool
	secondTerm, endAtChg, endAtChgRb bool
	hotHeights                       map[uint32]bool
	maxDepth, rollbacks, forks       int
	kindsInRange                     int
	known                            bool
	otherSide                        int
	dead                             string
}

func (r *run) render() any { return r.hist }

func (r *run) observe() *obs {
	o := &obs{d: r.k.ObserveDPoS(), c: r.k.ObserveCR()}
	if pat := os.Getenv("RBK_WATCH"); pat != "" {
		// debugging aid: print the leaves whose path contains RBK_WATCH
		for _, l := range append(o.d.Live.Lines(), o.c.Live.Lines()...) {
			if strings.Contains(l, pat) {
				fmt.Printf("RBK watch h=%d %s\n", r.k.Height, l)
			}
		}
	}
	return o
}

// arbiterCopyMask: the vote maps inside the Producer copies of the arbiter lists.
var arbiterCopyMask = func() map[string]bool {
	m := map[string]bool{}
	for _, pre := range []string{"", "Checkpoint.", "Frame."} {
		_ = pre
	}
	for _, l := range []string{"LastArbitrators", "CurrentArbitrators", "CurrentCandidates", "nextArbitrators", "nextCandidates",
		"CurrentCRCArbitersMap", "nextCRCArbitersMap", "nextCRCArbiters",
		"NextArbitrators", "NextCandidates", "NextCRCArbitersMap", "NextCRCArbiters", "CurrentOnDutyCRCArbitersMap"} {
		for _, f := range []string{"detailedDPoSV2Votes", "expiredNFTVotes"} {
			m[l+"[*].producer."+f] = true
		}
	}
	return m
}()

// dposInternal: DPoS fields with listed C21 findings that neither the committee
// nor the DPoS calls into the committee read (the degradation state machine's
// state, the cache of the CR nodes' owner keys).
var dposInternal = map[string]bool{"degradation": true, "State.StateKeyFrame.CurrentCRNodeOwnerKeys": true, "State.StateKeyFrame.NextCRNodeOwnerKeys": true}

// ArbiterCopyMask lists the generalised paths of the vote maps inside the
// Producer copies held by the arbiter lists (shared with the live producer
// until that one replaces them; see the C21 finding
// arbiter-producer-copy-shares-vote-maps).
func ArbiterCopyMask() map[string]bool {
	m := map[string]bool{}
	for k := range arbiterCopyMask {
		m[k] = true
	}
	return m
}

// dposBenign: dposInternal plus the representation residues listed for C21
// (zero-valued map entries via Differ.ZeroEntryAbsent, the vote maps of the
// arbiter lists' producer copies).
var dposBenign = func() map[string]bool {
	m := map[string]bool{}
	for k := range dposInternal {
		m[k] = true
	}
	for k := range arbiterCopyMask {
		m[k] = true
	}
	return m
}()

type view struct {
	name string
	a, b *canon.Node
}

func (r *run) views(side Side, got, want *obs) []view {
	if side == DPoS {
		return []view{{"", got.d.Live, want.d.Live}, {"Checkpoint.", got.d.Checkpoint, want.d.Checkpoint}, {"Frame.", got.d.Frame, want.d.Frame}}
	}
	return []view{{"", got.c.Live, want.c.Live}, {"Frame.", got.c.Frame, want.c.Frame}}
}

// compare reports the differences between got (the instance under test) and
// want (the direct build) on the reported side, one signature per generalised
// path of a differing field (listed ones are masked and the search goes on).  Returns (clean, ok): clean =
// both sides equal; ok = no unlisted difference (the caller resynchronises
// when !clean).
func (r *run) compare(clause string, h uint32, got, want *obs) (clean, ok bool) {
	other := CR
	if r.cfg.Side == CR {
		other = DPoS
	}
	// the DPoS state embeds pointers to CR members and the committee reads the
	// arbiters: a difference on the other side makes this side's comparison
	// meaningless, and it is the other property's finding
	otherDiverged := false
	for _, v := range r.views(other, got, want)[:1] {
		if df := (&canon.Differ{}).First(v.a, v.b); df != nil {
			r.otherSide++
			if os.Getenv("RBK_DEBUG") != "" {
				fmt.Printf("RBK other side: %s height %d %s = %s want %s\n", clause, h, df.Path, df.A, df.B)
			}
			if r.cfg.Side == CR && (&canon.Differ{ZeroEntryAbsent: true, Mask: dposBenign}).First(v.a, v.b) == nil {
				// listed C21 findings in fields the committee never sees or mere
				// representation residues: this side is still compared, the
				// instance is resynchronised after
				vk.Class("other-side-diverged-in-dpos-internal-fields/" + clause)
				otherDiverged = true
				continue
			}
			vk.Class("other-side-diverged/" + clause)
			if os.Getenv("RBK_DEBUG") != "" {
				if m := (&canon.Differ{ZeroEntryAbsent: true, Mask: dposBenign}).First(v.a, v.b); m != nil {
					fmt.Printf("RBK other side (not benign): %s height %d %s = %s want %s\n", clause, h, m.Path, m.A, m.B)
				}
			}
			return false, true
		}
	}
	defer func() {
		if otherDiverged && ok {
			clean = false
		}
	}()
	for _, v := range r.views(r.cfg.Side, got, want) {
		// Differences are reported one by one: a listed one is masked (its
		// generalised path) and the comparison goes on, so that a frequent known
		// finding does not hide the fields that come after it.  The views after
		// the first differing one would repeat the same root causes.
		mask := map[string]bool{}
		found, resync := false, false
		for iter := 0; iter < 12; iter++ {
			df := (&canon.Differ{Mask: mask}).First(v.a, v.b)
			if df == nil {
				break
			}
			found = true
			// m[k] = 0 (or an empty inner map) left behind by a "+= / -=" rollback
			// where the direct build has no entry is one finding, whatever the map
			lenient := (&canon.Differ{ZeroEntryAbsent: true, Mask: mask}).First(v.a, v.b)
			if lenient == nil {
				detail := fmt.Sprintf("height %d: %s%s = %s, direct build has %s", h, v.name, df.Path, df.A, df.B)
				if !vk.Report(r.t, r.cfg.Prop+":"+clause+":zero-valued-map-entry-left-behind", detail, r.render()) {
					return false, false
				}
				r.known = true
				// behaviourally equal: no resynchronisation needed
				break
			}
			if r.cfg.Side == DPoS {
				// dposArbiter keeps a shallow copy of the Producer taken when the
				// arbiter list was built: its vote maps are shared with the live
				// producer until that one replaces them, so their content depends on
				// the order of later operations (only info/owner keys are read from
				// the copy).  One finding whatever the list.
				both := map[string]bool{}
				for k := range mask {
					both[k] = true
				}
				for k := range arbiterCopyMask {
					both[k] = true
				}
				if (&canon.Differ{ZeroEntryAbsent: true, Mask: both}).First(v.a, v.b) == nil {
					detail := fmt.Sprintf("height %d: %s%s = %s, direct build has %s", h, v.name, lenient.Path, lenient.A, lenient.B)
					if !vk.Report(r.t, r.cfg.Prop+":"+clause+":arbiter-producer-copy-shares-vote-maps", detail, r.render()) {
						return false, false
					}
					r.known = true
					break
				}
			}
			df = lenient
			sig := r.cfg.Prop + ":" + clause + ":" + v.name + df.Sig()
			detail := fmt.Sprintf("height %d: %s%s = %s, direct build has %s", h, v.name, df.Path, df.A, df.B)
			if r.cfg.Side == DPoS && r.effectedSetContradictsRights(df) {
				// forward inconsistency, not a rollback one: in the direct build the
				// membership of a producer in DposV2EffectedProducers contradicts its
				// vote rights (renewals raise and expiries lower the rights without
				// maintaining the set; only new votes and their rollbacks apply the
				// rule), so undoing a later vote "repairs" the set.  One finding.
				sig = r.cfg.Prop + ":" + clause + ":effected-set-of-the-direct-build-contradicts-the-vote-rights"
			}
			if !vk.Report(r.t, sig, detail, r.render()) {
				return false, false
			}
			r.known = true
			resync = true
			mask[canon.Generalize(df.Path)] = true
			if strings.HasPrefix(df.Path, "degradation.") {
				// one root cause (the degradation state machine is outside the
				// change history): state, understaffedSince, ... differ together
				mask["degradation"] = true
			}
			if strings.HasPrefix(df.Path, "State.StateKeyFrame.CurrentCRNodeOwnerKeys[") {
				// one root cause (handleEvents(ETCRCChangeCommittee) moves the next
				// CR node keys to the current ones outside the change history)
				mask["State.StateKeyFrame.NextCRNodeOwnerKeys"] = true
			}
		}
		if found {
			return !resync, true
		}
	}
	return true, true
}

// effectedSetContradictsRights: the difference is a DposV2EffectedProducers
// entry present on one side only, and it is the DIRECT build whose membership
// contradicts the set's rule (in the set <=> DPoS 2.0 vote rights at or over
// DPoSV2EffectiveVotes) for the vote rights of the compared state.
func (r *run) effectedSetContradictsRights(df *canon.Diff) bool {
	const pre = "State.StateKeyFrame.DposV2EffectedProducers["
	if !strings.HasPrefix(df.Path, pre) || (df.A != "<absent>") == (df.B != "<absent>") {
		return false
	}
	rest := df.Path[len(pre):]
	i := strings.IndexByte(rest, ']')
	if i < 0 || i != len(rest)-1 {
		return false
	}
	owner, err := hex.DecodeString(strings.TrimPrefix(rest[:i], "0x"))
	if err != nil {
		return false
	}
	p := r.k.Arbiters.State.GetProducer(owner)
	if p == nil {
		return false
	}
	over := p.GetTotalDPoSV2VoteRights() >= float64(r.k.Params.DPoSV2EffectiveVotes)
	if os.Getenv("RBK_DEBUG") != "" {
		fmt.Printf("RBK effected-set: %s rights=%v threshold=%v state=%v directHasIt=%v\n", rest[:i], p.GetTotalDPoSV2VoteRights(), float64(r.k.Params.DPoSV2EffectiveVotes), p.State(), df.B != "<absent>")
	}
	directHasIt := df.B != "<absent>"
	return over != directHasIt
}

func (r *run) advance(n int) {
	for i := 0; i < n && r.dead == ""; i++ {
		before := r.k.Arbiters.DutyIndex
		nArb := len(r.k.Arbiters.CurrentArbitrators)
		sess := r.k.Committee.GetState().CurrentSession
		inElection := r.k.Committee.IsInElectionPeriod()
		open := map[string]bool{}
		if r.cfg.Side == CR {
			for _, p := range r.k.Proposals() {
				if p.Status == crstate.Registered || p.Status == crstate.CRAgreed {
					open[p.Proposal.Hash.String()] = true
				}
			}
		}
		if os.Getenv("RBK_DEBUG") == "3" && r.k.Committee.IsInVotingPeriod(r.k.Height+1) && r.k.Committee.IsInElectionPeriod() {
			fmt.Println("RBK weights", r.k.Height+1, r.g.Weights())
		}
		b, c, info := r.g.Block(r.t)
		r.hist.Blocks = append(r.hist.Blocks, info)
		if os.Getenv("RBK_DEBUG") == "3" && r.k.Committee.IsInVotingPeriod(r.k.Height+1) && r.k.Committee.IsInElectionPeriod() {
			fmt.Println("RBK block", info.Txs)
		}
		if p, val, frame := vk.Catch(func() { r.k.Process(b, c) }); p {
			// a node panic while connecting a valid block is not a rollback
			// question (C27/C03 territory); the history cannot continue
			r.dead = fmt.Sprintf("forward-panic:%s: %v", frame, val)
			if os.Getenv("RBK_DEBUG") != "" {
				j, _ := json.Marshal(r.hist)
				fmt.Println("RBK", r.dead, string(j))
			}
			return
		}
		if ok, why := r.k.ProducerMapsConsistent(); !ok {
			if !r.conflictingTransitions(b.Height, why) {
				return
			}
			continue
		}
		r.dumps[b.Height] = r.observe()
		if r.k.Arbiters.DutyIndex < before || len(r.k.Arbiters.CurrentArbitrators) != nArb {
			r.roundChg = true
		}
		if now := r.k.Committee.GetState().CurrentSession; now != sess {
			r.crChg = true
			if now >= 2 {
				r.secondTerm = true
			}
		}
		if r.cfg.Side == CR && (r.k.Committee.GetState().CurrentSession != sess || r.k.Committee.IsInElectionPeriod() != inElection) {
			// proposals that ended with unused budget in the block of the change:
			// proposal manager and committee both write CRCCommitteeUsedAmount
			for _, p := range r.k.Proposals() {
				if open[p.Proposal.Hash.String()] && (p.Status == crstate.CRCanceled || p.Status == crstate.VoterCanceled || p.Status == crstate.Aborted || p.Proposal.ProposalType == payload.CloseProposal && p.Status == crstate.VoterAgreed) {
					if r.k.Committee.GetState().CurrentSession != sess {
						r.endAtChg = true
						r.hotHeights[b.Height] = true
					}
				}
			}
			if os.Getenv("RBK_DEBUG") != "" {
				st := map[string]int{}
				for _, p := range r.k.Proposals() {
					st[fmt.Sprintf("%v:%v", open[p.Proposal.Hash.String()], p.Status)]++
				}
				cc := r.k.Params.CRConfiguration
				fmt.Printf("RBK change at %d session %d->%d open=%d statuses=%v PCV=%d PPV=%d VP=%d\n", b.Height, sess, r.k.Committee.GetState().CurrentSession, len(open), st, cc.ProposalCRVotingPeriod, cc.ProposalPublicVotingPeriod, cc.VotingPeriod)
			}
			// stop here: the caller rolls the change back most of the time
			r.hot = true
			return
		}
	}
}

// quiet connects n blocks without dumps (heights nobody rolls back to).
func (r *run) quiet(n int) {
	for i := 0; i < n && r.dead == ""; i++ {
		b, c, info := r.g.Block(r.t)
		r.hist.Blocks = append(r.hist.Blocks, info)
		if p, val, frame := vk.Catch(func() { r.k.Process(b, c) }); p {
			r.dead = fmt.Sprintf("forward-panic:%s: %v", frame, val)
			return
		}
		if ok, why := r.k.ProducerMapsConsistent(); !ok {
			r.hist.Ops = append(r.hist.Ops, fmt.Sprintf("block %d dropped: %s", b.Height, why))
			vk.Class("forward-conflicting-transitions")
			r.truncateBlocks(b.Height - 1)
			old := r.k
			r.k = old.Rebuild(b.Height - 1)
			old.Close()
			r.g.K = r.k
		}
	}
}

// conflictingTransitions handles a block after which the producer maps are
// inconsistent (known forward-processing defect: the per-transaction closures
// and the automatic transitions of one block are all computed from the
// pre-block state).  The block is detached again; if that does not give back
// the previous DPoS state the known finding is counted (C21 only).  The
// history continues without the block.  Returns false when the case must stop.
func (r *run) conflictingTransitions(h uint32, why string) bool {
	vk.Class("forward-conflicting-transitions")
	r.hist.Ops = append(r.hist.Ops, fmt.Sprintf("block %d dropped: %s", h, why))
	var err error
	if p, val, frame := vk.Catch(func() { err = r.k.RollbackOne() }); p {
		vk.Report(r.t, r.cfg.Prop+":rollback:panic:"+frame, fmt.Sprintf("RollbackTo(%d) panicked: %v", h-1, val), r.render())
		return false
	}
	if err != nil {
		vk.Report(r.t, r.cfg.Prop+":rollback:error-within-capacity", fmt.Sprintf("RollbackTo(%d): %v", h-1, err), r.render())
		return false
	}
	if want := r.dumps[h-1]; want != nil && r.cfg.Side == DPoS {
		if df := (&canon.Differ{}).First(r.k.ObserveDPoS().Live, want.d.Live); df != nil {
			detail := fmt.Sprintf("block %d (%s) rolled back: %s = %s, direct build has %s", h, why, df.Path, df.A, df.B)
			if !vk.Report(r.t, r.cfg.Prop+":rollback:two-transitions-of-one-producer-in-a-block", detail, r.render()) {
				return false
			}
			r.known = true
		}
	}
	r.truncateBlocks(h - 1)
	r.rebuild()
	return true
}

// rebuild replaces the instance by a fresh one fed the current chain (used to
// resynchronise after a known finding left the instance diverged).
func (r *run) rebuild() {
	old := r.k
	k := old.Rebuild(old.Height)
	old.Close()
	r.k = k
	r.g.K = k
}

// Run executes one case.
func Run(t *rapid.T, cfg Config) {
	era := statekit.Era(rapid.SampledFrom(cfg.Eras).Draw(t, "era"))
	prof := statekit.DrawProfile(t, era)
	// RecordSponsor transactions are not modelled by the block builder
	prof.RecordSponsorStart = statekit.Far
	if cfg.Profile != nil {
		cfg.Profile(t, &prof, era)
	}
	k := statekit.New(prof)
	r := &run{cfg: cfg, t: t, k: k, hist: &history{Profile: prof, Era: era.String()}, dumps: map[uint32]*obs{}, hotHeights: map[uint32]bool{}}
	defer func() { r.k.Close() }()
	r.g = statekit.NewGen(k)
	r.g.DrawLazy(t)
	r.g.UniformKinds = true
	if era >= statekit.EraCR {
		r.g.AddKinds(statekit.CRKinds())
	}
	if cfg.Kinds != nil {
		cfg.Kinds(r.g, era)
	}
	if cfg.Done != nil {
		defer cfg.Done(r.g)
	}
	if cfg.Side == CR && rapid.IntRange(0, 3).Draw(t, "ownerfocus") == 0 {
		r.g.OwnerChangeFocus = true
	}
	// heights below VoteStart do not touch either state
	k.StartAt(prof.VoteStart - 1)
	r.base = prof.VoteStart
	// histories reach a drawn distance past the last activation height of the era
	last := prof.PublicDPOS
	switch era {
	case statekit.EraCR:
		last = prof.CRClaimStart
	case statekit.EraNewCR:
		last = prof.RevertToPOWStart
	case statekit.EraV2:
		last = prof.DPoSV2Start
	}
	span := 30
	if era == statekit.EraV2 {
		// staking, voting and the activation of DPoS 2.0 need room
		span = 50
	}
	if cfg.Side == CR {
		// a whole committee term
		span = int(prof.DutyPeriod) + 12
	}
	lo := 4
	if cfg.Side == CR {
		lo = span / 2
	}
	maxHeight := last + uint32(rapid.IntRange(lo, span).Draw(t, "maxheight"))
	if vk.Thorough() {
		maxHeight = last + uint32(rapid.IntRange(lo, span+20).Draw(t, "maxheight2"))
	}
	if cfg.MaxHeight != nil {
		maxHeight = cfg.MaxHeight(t, &prof, era)
	}
	if cfg.Side == CR && prof.CRVotingStart > prof.VoteStart+2 {
		// the committee ignores blocks below CRVotingStart: connect them without
		// dumps and rollbacks (the producers still register and get voted)
		r.quiet(int(prof.CRVotingStart - 2 - k.Height))
	}
	// first block: after it the lowest rollback target exists
	r.advance(1)
	for r.dead == "" && r.dumps[r.k.Height] == nil {
		// the block was dropped (conflicting transitions): the base needs a dump
		r.advance(1)
	}
	r.base = r.k.Height
	nops := rapid.IntRange(6, 30).Draw(t, "nops")
	if cfg.Side == CR {
		// the end of the history is what MaxHeight says
		nops = 120
	}
	for op := 0; op < nops; op++ {
		if r.k.Height >= maxHeight || r.dead != "" {
			break
		}
		if r.hot {
			r.hot = false
			if r.k.Height > r.base && rapid.IntRange(0, 3).Draw(t, "hotrollback") > 0 {
				if !r.rollbackEpisode() {
					return
				}
				continue
			}
		}
		if r.k.Height > r.base && rapid.IntRange(0, 2).Draw(t, "op") == 0 {
			if !r.rollbackEpisode() {
				return
			}
			continue
		}
		n := rapid.IntRange(1, 8).Draw(t, "advance")
		r.hist.Ops = append(r.hist.Ops, fmt.Sprintf("advance %d from %d", n, r.k.Height))
		r.advance(n)
	}
	if os.Getenv("RBK_DEBUG") != "" {
		fmt.Printf("RBK END era=%s height=%d max=%d nops=%d ops=%d committeeStart=%d duty=%d session=%d second=%v endAtChg=%v dead=%q\n", r.hist.Era, r.k.Height, maxHeight, nops, len(r.hist.Ops), prof.CRCommitteeStart, prof.DutyPeriod, r.k.Committee.GetState().CurrentSession, r.secondTerm, r.endAtChg, r.dead)
		if os.Getenv("RBK_DEBUG") == "2" && !r.secondTerm && r.k.Height > prof.CRCommitteeStart+prof.DutyPeriod {
			fmt.Println("    registercr acc/rej/na", r.g.Accepted["registercr"], r.g.Rejected["registercr"], r.g.Rejected["registercr/na"], "votecr", r.g.Accepted["votecr"], r.g.Rejected["votecr"], r.g.Rejected["votecr/na"], "lasterr", r.g.LastErr["registercr"], "|", r.g.LastErr["votecr"], "VP", prof.VotingPeriod, "block rej", r.g.Rejected["block"], r.g.LastErr["block"], "regcr dup", r.g.Rejected["registercr/dup-subject"], r.g.Rejected["registercr/dup-input"])
			for _, bi := range r.hist.Blocks {
				if bi.Height+prof.VotingPeriod+1 >= prof.CRCommitteeStart+prof.DutyPeriod && bi.Height <= prof.CRCommitteeStart+prof.DutyPeriod {
					fmt.Println("   ", bi.Height, bi.Txs)
				}
			}
		}
	}
	if r.dead == "" && r.k.Height > r.base {
		if !r.rollbackEpisode() {
			return
		}
	}
	if r.dead != "" {
		vk.Class("dead/" + r.dead[:minInt(len(r.dead), 90)])
		vk.Case("era-"+r.hist.Era+"/forward-panic", false, nil, nil)
		return
	}
	// fresh instance fed the final chain
	// (after a listed finding the instance was resynchronised or the difference
	// is a representation residue with its own rebuild-clause entry)
	if r.rollbacks > 0 {
		fresh := r.k.Rebuild(r.k.Height)
		got := r.observe()
		want := &obs{d: fresh.ObserveDPoS(), c: fresh.ObserveCR()}
		fresh.Close()
		if _, ok := r.compare("rebuild", r.k.Height, got, want); !ok {
			return
		}
	}
	r.classify()
}

// rollbackEpisode rolls back d blocks step by step, then re-applies or forks.
func (r *run) rollbackEpisode() bool {
	t := r.t
	tip := r.k.Height
	maxD := int(tip - r.base)
	d := 1
	switch rapid.IntRange(0, 3).Draw(t, "depthclass") {
	case 0:
		d = 1
	case 1, 2:
		d = rapid.IntRange(1, minInt(6, maxD)).Draw(t, "depth")
	case 3:
		d = rapid.IntRange(1, maxD).Draw(t, "deepdepth")
	}
	fork := rapid.IntRange(0, 2).Draw(t, "fork") == 0
	r.hist.Ops = append(r.hist.Ops, fmt.Sprintf("rollback %d from %d fork=%v", d, tip, fork))
	r.rollbacks++
	if d > r.maxDepth {
		r.maxDepth = d
	}
	// what is in the rolled-back range
	kinds := map[string]bool{}
	for _, bi := range r.hist.Blocks {
		if bi.Height > tip-uint32(d) && bi.Height <= tip {
			for _, s := range bi.Txs {
				if i := strings.IndexByte(s, '('); i > 0 {
					kinds[s[:i]] = true
				}
			}
		}
	}
	if len(kinds) > r.kindsInRange {
		r.kindsInRange = len(kinds)
	}
	for i := 0; i < d; i++ {
		target := r.k.Height - 1
		if r.hotHeights[r.k.Height] {
			r.endAtChgRb = true
		}
		var err error
		p, val, frame := vk.Catch(func() { err = r.k.RollbackOne() })
		if p {
			vk.Report(t, r.cfg.Prop+":rollback:panic:"+frame, fmt.Sprintf("RollbackTo(%d) panicked: %v", target, val), r.render())
			return false
		}
		if err != nil {
			vk.Report(t, r.cfg.Prop+":rollback:error-within-capacity", fmt.Sprintf("RollbackTo(%d): %v", target, err), r.render())
			return false
		}
		if r.dumps[target] == nil {
			t.Fatalf("harness: no dump of height %d (base %d)", target, r.base)
		}
		clean, ok := r.compare("rollback", target, r.observe(), r.dumps[target])
		if !ok {
			return false
		}
		if !clean {
			// known finding / other side: resynchronise with a fresh build up to target
			r.rebuild()
		}
	}
	target := tip - uint32(d)
	if fork {
		r.forks++
		r.truncateBlocks(target)
		for h := range r.dumps {
			if h > target {
				delete(r.dumps, h)
			}
		}
		n := rapid.IntRange(1, d+2).Draw(t, "forklen")
		r.advance(n)
		return r.dead == ""
	}
	// re-apply the detached blocks: must reproduce the original states
	for r.k.Height < tip {
		if r.k.Blocks[r.k.Height+1] == nil {
			break
		}
		if p, val, frame := vk.Catch(func() { r.k.Replay() }); p {
			// the same block was processed without a panic before the rollback
			vk.Report(t, r.cfg.Prop+":reapply:panic:"+frame, fmt.Sprintf("re-applying block %d after the rollback panicked: %v", r.k.Height+1, val), r.render())
			return false
		}
		clean, ok := r.compare("reapply", r.k.Height, r.observe(), r.dumps[r.k.Height])
		if !ok {
			return false
		}
		if !clean {
			r.rebuild()
		}
	}
	return true
}

// truncateBlocks drops the rendering of blocks above h (they are abandoned).
func (r *run) truncateBlocks(h uint32) {
	n := 0
	for _, bi := range r.hist.Blocks {
		if bi.Height <= h {
			r.hist.Blocks[n] = bi
			n++
		}
	}
	if n < len(r.hist.Blocks) {
		r.hist.Ops = append(r.hist.Ops, fmt.Sprintf("abandon blocks above %d", h))
	}
	r.hist.Blocks = r.hist.Blocks[:n]
}

func (r *run) classify() {
	cl := "era-" + r.hist.Era
	switch {
	case r.rollbacks == 0:
		cl += "/no-rollback"
	case r.maxDepth > 6:
		cl += "/deep-rollback"
	case r.forks > 0:
		cl += "/fork"
	default:
		cl += "/rollback-reapply"
	}
	nt := r.rollbacks > 0 && (r.kindsInRange >= 2 || r.roundChg)
	if r.cfg.Side == CR {
		nt = r.rollbacks > 0 && (r.kindsInRange >= 2 || r.crChg)
	}
	key, _ := json.Marshal(r.hist)
	vk.Case(cl, nt, key, r.render)
	for k, v := range r.g.Accepted {
		vk.Count("tx-accepted/"+k, int64(v))
	}
	for k, v := range r.g.Rejected {
		vk.Count("tx-rejected/"+k, int64(v))
	}
	if r.roundChg {
		vk.Class("has-round-change")
	}
	if r.crChg {
		vk.Class("has-committee-change")
	}
	if r.k.Arbiters.State.DPoSV2ActiveHeight != ^uint32(0) {
		vk.Class("dpos-v2-activation-scheduled")
	}
	if r.secondTerm {
		vk.Class("second-committee-seated")
	}
	if r.endAtChg {
		vk.Class("proposal-ended-with-unused-budget-in-the-block-of-a-committee-change")
	}
	if r.endAtChgRb {
		vk.Class("proposal-ended-in-the-block-of-a-committee-change/rolled-back")
	}
	vk.Count("blocks", int64(len(r.hist.Blocks)))
}

// ErasFromEnv lets RBK_ERAS=0123 narrow the eras for debugging.
func ErasFromEnv(def []int) []int {
	if v := os.Getenv("RBK_ERAS"); v != "" {
		var out []int
		for _, c := range v {
			if c >= '0' && c <= '3' {
				out = append(out, int(c-'0'))
			}
		}
		if len(out) > 0 {
			return out
		}
	}
	return def
}

func minInt(a, b int) int {
	if a < b {
		return a
	}
	return b
}
