package statekit

import (
	"bytes"
	"fmt"

	"github.com/elastos/Elastos.ELA/common"
	"github.com/elastos/Elastos.ELA/core/contract/program"
	common2 "github.com/elastos/Elastos.ELA/core/types/common"
	"github.com/elastos/Elastos.ELA/core/types/interfaces"
	"github.com/elastos/Elastos.ELA/core/types/outputpayload"
	"github.com/elastos/Elastos.ELA/core/types/payload"
	crstate "github.com/elastos/Elastos.ELA/cr/state"
	"pgregory.net/rapid"
)

func init() {
	extraKinds["registercr"] = candRegisterCR
	extraKinds["updatecr"] = candUpdateCR
	extraKinds["unregistercr"] = candUnregisterCR
	extraKinds["votecr"] = candVoteCR
	extraKinds["impeach"] = candImpeach
	extraKinds["returncrdeposit"] = candReturnCRDeposit
	extraKinds["claimnode"] = candClaimNode
	extraKinds["activatecr"] = candActivateCR
}

// CRKinds are the CR-committee candidate kinds (without proposals).
func CRKinds() map[string]int {
	return map[string]int{
		"registercr": 6, "updatecr": 2, "unregistercr": 2, "votecr": 6, "impeach": 2,
		"returncrdeposit": 2, "claimnode": 4, "activatecr": 2,
	}
}

// AddKinds merges more kinds into the generator.
func (g *Gen) AddKinds(m map[string]int) {
	for k, v := range m {
		g.Kinds[k] = v
	}
}

func (g *Gen) crKey(i int) *Key  { return K(KeyCRBase + i) }
func (g *Gen) crNode(i int) *Key { return K(KeyCRNodeBase + i) }

// NCR is the size of the CR candidate cast.
func (g *Gen) nCR() int {
	if g.NCRCast > 0 {
		return g.NCRCast
	}
	return 6
}

// CRInfoPayload builds and signs a CR info.
func CRInfoPayload(k *Key, nick string, version byte) *payload.CRInfo {
	info := &payload.CRInfo{Code: k.Code, CID: k.CID, NickName: nick, Url: "http://" + nick + ".cr", Location: uint64(1 + k.Index%200)}
	if version >= payload.CRInfoDIDVersion {
		info.DID = k.DID
	}
	buf := new(bytes.Buffer)
	if err := info.SerializeUnsigned(buf, version); err != nil {
		panic(err)
	}
	info.Signature = k.Sign(buf.Bytes())
	return info
}

func (k *Kit) crInfoVersion() byte {
	if k.Height+1 >= k.Params.CRConfiguration.RegisterCRByDIDHeight {
		return payload.CRInfoDIDVersion
	}
	return payload.CRInfoVersion
}

// RegisterCRTx registers a CR candidate.
func (k *Kit) RegisterCRTx(key *Key, nick string, deposit common.Fixed64) interfaces.Transaction {
	v := k.crInfoVersion()
	in := k.FaucetInput(key.Standard, deposit+ELA)
	return newTx(common2.TxVersion09, common2.RegisterCR, v, CRInfoPayload(key, nick, v),
		[]*common2.Input{in}, []*common2.Output{PlainOutput(key.Deposit, deposit)}, []*program.Program{prog(key)})
}

// UpdateCRTx updates a CR candidate's info.
func (k *Kit) UpdateCRTx(key *Key, nick string) interfaces.Transaction {
	v := k.crInfoVersion()
	in := k.FaucetInput(key.Standard, ELA)
	return newTx(common2.TxVersion09, common2.UpdateCR, v, CRInfoPayload(key, nick, v),
		[]*common2.Input{in}, nil, []*program.Program{prog(key)})
}

// UnregisterCRTx cancels a CR candidate.
func (k *Kit) UnregisterCRTx(key *Key) interfaces.Transaction {
	pl := &payload.UnregisterCR{CID: key.CID}
	buf := new(bytes.Buffer)
	if err := pl.SerializeUnsigned(buf, payload.UnregisterCRVersion); err != nil {
		panic(err)
	}
	pl.Signature = key.Sign(buf.Bytes())
	in := k.FaucetInput(key.Standard, ELA)
	return newTx(common2.TxVersion09, common2.UnregisterCR, payload.UnregisterCRVersion, pl,
		[]*common2.Input{in}, nil, []*program.Program{prog(key)})
}

// ReturnCRDepositTx spends CR deposit outpoints.
func (k *Kit) ReturnCRDepositTx(key *Key, spend []*common2.Input, out, change common.Fixed64) interfaces.Transaction {
	outs := []*common2.Output{PlainOutput(key.Standard, out)}
	if change > 0 {
		outs = append(outs, PlainOutput(key.Deposit, change))
	}
	return newTx(common2.TxVersion09, common2.ReturnCRDepositCoin, 0, &payload.ReturnDepositCoin{},
		spend, outs, []*program.Program{prog(key)})
}

// ClaimNodeTx lets CR member `key` claim DPoS node key `node`.
func (k *Kit) ClaimNodeTx(key, node *Key, version byte) interfaces.Transaction {
	pl := &payload.CRCouncilMemberClaimNode{NodePublicKey: node.PK, CRCouncilCommitteeDID: key.DID}
	buf := new(bytes.Buffer)
	if err := pl.SerializeUnsigned(buf, payload.CurrentCRClaimDPoSNodeVersion); err != nil {
		panic(err)
	}
	pl.CRCouncilCommitteeSignature = key.Sign(buf.Bytes())
	in := k.FaucetInput(key.Standard, ELA)
	return newTx(common2.TxVersion09, common2.CRCouncilMemberClaimNode, version, pl,
		[]*common2.Input{in}, nil, []*program.Program{prog(key)})
}

func candRegisterCR(g *Gen, t *rapid.T, spent map[string]bool) *cand {
	k := g.K
	c := k.Committee
	var free []int
	for i := 0; i < g.nCR(); i++ {
		if c.GetCandidate(g.crKey(i).CID) == nil && !c.IsCRMember(g.crKey(i).Code) {
			free = append(free, i)
		}
	}
	if len(free) == 0 {
		return nil
	}
	i := free[rapid.IntRange(0, len(free)-1).Draw(t, "cr")]
	g.nick++
	dep := common.Fixed64(rapid.SampledFrom([]int64{5000, 5000, 5500, 8000}).Draw(t, "crdeposit")) * ELA
	return &cand{"registercr", k.RegisterCRTx(g.crKey(i), fmt.Sprintf("c%d", g.nick), dep), fmt.Sprintf("c%d", i),
		fmt.Sprintf("registercr(c%d,dep=%d)", i, dep/ELA)}
}

func (g *Gen) pickCandidate(t *rapid.T, label string, pred func(*crstate.Candidate) bool) int {
	var idx []int
	for i := 0; i < g.nCR(); i++ {
		if cd := g.K.Committee.GetCandidate(g.crKey(i).CID); cd != nil && pred(cd) {
			idx = append(idx, i)
		}
	}
	if len(idx) == 0 {
		return -1
	}
	return idx[rapid.IntRange(0, len(idx)-1).Draw(t, label)]
}

func candUpdateCR(g *Gen, t *rapid.T, spent map[string]bool) *cand {
	i := g.pickCandidate(t, "updcr", func(c *crstate.Candidate) bool { return c.State == crstate.Pending || c.State == crstate.Active })
	if i < 0 {
		return nil
	}
	g.nick++
	nick := fmt.Sprintf("c%d", g.nick)
	return &cand{"updatecr", g.K.UpdateCRTx(g.crKey(i), nick), fmt.Sprintf("c%d", i), fmt.Sprintf("updatecr(c%d,%s)", i, nick)}
}

func candUnregisterCR(g *Gen, t *rapid.T, spent map[string]bool) *cand {
	i := g.pickCandidate(t, "unregcr", func(c *crstate.Candidate) bool { return c.State == crstate.Pending || c.State == crstate.Active })
	if i < 0 {
		return nil
	}
	return &cand{"unregistercr", g.K.UnregisterCRTx(g.crKey(i)), fmt.Sprintf("c%d", i), fmt.Sprintf("unregistercr(c%d)", i)}
}

func candVoteCR(g *Gen, t *rapid.T, spent map[string]bool) *cand {
	k := g.K
	h := k.Height + 1
	if h >= k.Params.DPoSV2StartHeight && k.Arbiters.State.DPoSV2ActiveHeight <= h {
		return nil
	}
	var active []int
	for i := 0; i < g.nCR(); i++ {
		if cd := k.Committee.GetCandidate(g.crKey(i).CID); cd != nil && cd.State == crstate.Active {
			active = append(active, i)
		}
	}
	if len(active) == 0 {
		return nil
	}
	v := rapid.IntRange(0, g.NVoters-1).Draw(t, "voter")
	nc := rapid.IntRange(1, minInt(3, len(active))).Draw(t, "ncrcand")
	perm := rapid.Permutation(active).Draw(t, "crcands")[:nc]
	amount := common.Fixed64(rapid.IntRange(3, 400).Draw(t, "amount")) * ELA
	var cvs []outputpayload.CandidateVotes
	desc := ""
	for _, i := range perm {
		cvs = append(cvs, outputpayload.CandidateVotes{Candidate: g.crKey(i).CID.Bytes(), Votes: amount / common.Fixed64(nc)})
		desc += fmt.Sprintf("c%d ", i)
	}
	var spend []*common2.Input
	if old := g.voteOutputs(g.voter(v), spent); len(old) > 0 && rapid.IntRange(0, 2).Draw(t, "revote") > 0 {
		spend = append(spend, inputOfRec(old[rapid.IntRange(0, len(old)-1).Draw(t, "oldvote")]))
	}
	tx := k.VoteTx(g.voter(v), amount, outputpayload.VoteProducerAndCRVersion,
		[]outputpayload.VoteContent{{VoteType: outputpayload.CRC, CandidateVotes: cvs}}, spend)
	return &cand{"votecr", tx, fmt.Sprintf("v%d", v), fmt.Sprintf("votecr(v%d->%samount=%d,respend=%d)", v, desc, amount/ELA, len(spend))}
}

func candImpeach(g *Gen, t *rapid.T, spent map[string]bool) *cand {
	k := g.K
	h := k.Height + 1
	if h >= k.Params.DPoSV2StartHeight && k.Arbiters.State.DPoSV2ActiveHeight <= h {
		return nil
	}
	ms := k.Committee.GetImpeachableMembers()
	if len(ms) == 0 {
		return nil
	}
	var cids [][]byte
	for _, m := range ms {
		cids = append(cids, m.Info.CID.Bytes())
	}
	sortBytes(cids)
	target := cids[rapid.IntRange(0, len(cids)-1).Draw(t, "impeached")]
	v := rapid.IntRange(0, g.NVoters-1).Draw(t, "voter")
	// large amounts so that the reject percentage of the circulation is reachable
	amount := common.Fixed64(rapid.SampledFrom([]int64{10, 1000, 1000000, 4000000}).Draw(t, "impamount")) * ELA
	tx := k.VoteTx(g.voter(v), amount, outputpayload.VoteProducerAndCRVersion,
		[]outputpayload.VoteContent{{VoteType: outputpayload.CRCImpeachment,
			CandidateVotes: []outputpayload.CandidateVotes{{Candidate: target, Votes: amount}}}}, nil)
	return &cand{"impeach", tx, fmt.Sprintf("v%d", v), fmt.Sprintf("impeach(v%d->%x,amount=%d)", v, target[:4], amount/ELA)}
}

func sortBytes(b [][]byte) {
	for i := 1; i < len(b); i++ {
		for j := i; j > 0 && bytes.Compare(b[j-1], b[j]) > 0; j-- {
			b[j-1], b[j] = b[j], b[j-1]
		}
	}
}

func candReturnCRDeposit(g *Gen, t *rapid.T, spent map[string]bool) *cand {
	k := g.K
	var idx []int
	for i := 0; i < g.nCR(); i++ {
		if k.Committee.Exist(g.crKey(i).CID) && k.Committee.GetAvailableDepositAmount(g.crKey(i).CID) > ELA {
			idx = append(idx, i)
		}
	}
	if len(idx) == 0 {
		return nil
	}
	i := idx[rapid.IntRange(0, len(idx)-1).Draw(t, "retcr")]
	key := g.crKey(i)
	var ins []*common2.Input
	var total common.Fixed64
	for _, r := range k.UTXOs(key.Deposit) {
		if spent[refKey(r)] {
			continue
		}
		ins = append(ins, inputOfRec(r))
		total += r.Out.Value
	}
	if len(ins) == 0 {
		return nil
	}
	avail := k.Committee.GetAvailableDepositAmount(key.CID)
	take := avail
	if rapid.Bool().Draw(t, "partial") {
		take = common.Fixed64(rapid.Int64Range(int64(ELA), int64(avail)).Draw(t, "take"))
	}
	if take > total {
		take = total
	}
	tx := k.ReturnCRDepositTx(key, ins, take-ELA/100, total-take)
	return &cand{"returncrdeposit", tx, fmt.Sprintf("c%d", i), fmt.Sprintf("returncrdeposit(c%d,in=%d,take=%d)", i, total/ELA, take/ELA)}
}

func candClaimNode(g *Gen, t *rapid.T, spent map[string]bool) *cand {
	k := g.K
	h := k.Height + 1
	if h < k.Params.CRConfiguration.CRClaimDPOSNodeStartHeight {
		return nil
	}
	version := payload.CurrentCRClaimDPoSNodeVersion
	members := k.Committee.GetCurrentMembers()
	if h >= k.Params.DPoSV2StartHeight && rapid.Bool().Draw(t, "claimnext") {
		version = payload.NextCRClaimDPoSNodeVersion
		members = k.Committee.GetNextMembers()
	}
	var idx []int
	for i := 0; i < g.nCR(); i++ {
		for _, m := range members {
			if m.Info.DID.IsEqual(g.crKey(i).DID) {
				idx = append(idx, i)
			}
		}
	}
	if len(idx) == 0 {
		return nil
	}
	i := idx[rapid.IntRange(0, len(idx)-1).Draw(t, "claimer")]
	// every member only ever claims its own two node keys: before
	// DPoSV2StartHeight the node does not refuse a key another member has
	// claimed already, and with a duplicate the order of the arbiter list
	// depends on map iteration (reported to the C24 owner, not a rollback matter)
	node := g.crNode(i)
	if rapid.IntRange(0, 3).Draw(t, "claimkey") == 0 {
		node = K(KeyCRNodeBase + 6 + i)
	}
	return &cand{"claimnode", k.ClaimNodeTx(g.crKey(i), node, version), fmt.Sprintf("c%d", i),
		fmt.Sprintf("claimnode(c%d,%s,v=%d)", i, keyName(node.PK), version)}
}

func candActivateCR(g *Gen, t *rapid.T, spent map[string]bool) *cand {
	k := g.K
	if !k.Committee.IsInElectionPeriod() {
		return nil
	}
	var nodes []*Key
	for _, m := range k.Committee.GetCurrentMembers() {
		if (m.MemberState == crstate.MemberInactive || m.MemberState == crstate.MemberIllegal) && len(m.DPOSPublicKey) != 0 {
			if key := KeyByPK(m.DPOSPublicKey); key != nil {
				nodes = append(nodes, key)
			}
		}
	}
	if len(nodes) == 0 {
		return nil
	}
	sortKeys(nodes)
	n := nodes[rapid.IntRange(0, len(nodes)-1).Draw(t, "actcr")]
	return &cand{"activatecr", k.ActivateProducerTx(n), "crnode-" + n.Hex, fmt.Sprintf("activatecr(%s)", keyName(n.PK))}
}

func sortKeys(ks []*Key) {
	for i := 1; i < len(ks); i++ {
		for j := i; j > 0 && ks[j-1].Index > ks[j].Index; j-- {
			ks[j-1], ks[j] = ks[j], ks[j-1]
		}
	}
}

// AppropriationTx builds the CRC appropriation the committee is waiting for:
// all CR-assets UTXOs in, AppropriationAmount to the CR expenses address, the
// rest back (BlockChain.CreateCRCAppropriationTransaction does the same).
func (k *Kit) AppropriationTx() interfaces.Transaction {
	assets := *k.Params.CRConfiguration.CRAssetsProgramHash
	var ins []*common2.Input
	var total common.Fixed64
	for _, r := range k.UTXOs(assets) {
		ins = append(ins, inputOfRec(r))
		total += r.Out.Value
	}
	amount := k.Committee.AppropriationAmount
	if len(ins) == 0 || amount > total {
		return nil
	}
	return newTx(common2.TxVersion09, common2.CRCAppropriation, 0, &payload.CRCAppropriation{}, ins,
		[]*common2.Output{PlainOutput(*k.Params.CRConfiguration.CRExpensesProgramHash, amount), PlainOutput(assets, total-amount)}, nil)
}

// createAppropriation is the callback the committee uses when it changes:
// (nil, 0, nil) means there is nothing to appropriate.
func (k *Kit) createAppropriation() (interfaces.Transaction, common.Fixed64, error) {
	var total common.Fixed64
	for _, r := range k.UTXOs(*k.Params.CRConfiguration.CRAssetsProgramHash) {
		total += r.Out.Value
	}
	amount := common.Fixed64(float64(total) * k.Params.CRConfiguration.CRCAppropriatePercentage / 100.0)
	if amount <= 0 {
		return nil, 0, nil
	}
	// the committee only needs to know that there is one and the locked amount
	return newTx(common2.TxVersion09, common2.CRCAppropriation, 0, &payload.CRCAppropriation{}, nil, nil, nil), 0, nil
}

// ProposalResultTx records the custom-id proposal results the committee holds.
func (k *Kit) ProposalResultTx() interfaces.Transaction {
	res := append([]payload.ProposalResult{}, k.Committee.GetCustomIDResults()...)
	for i := 1; i < len(res); i++ {
		for j := i; j > 0 && res[j-1].ProposalHash.Compare(res[j].ProposalHash) > 0; j-- {
			res[j-1], res[j] = res[j], res[j-1]
		}
	}
	return newTx(common2.TxVersion09, common2.ProposalResult, 0, &payload.RecordProposalResult{ProposalResults: res}, nil, nil, nil)
}
