package statekit

import (
	"bytes"
	"fmt"

	"github.com/elastos/Elastos.ELA/core/checkpoint"
	dstate "github.com/elastos/Elastos.ELA/dpos/state"
)

// checkpoint keys of the two state checkpoints (cr/state keeps its key private).
const (
	DPoSCheckpointKey = dstate.CheckpointKey
	CRCheckpointKey   = "cp_cr"
)

// SavedCheckpoints are the bytes the node would write to its checkpoint files
// at the kit's height.
type SavedCheckpoints struct {
	Height uint32
	Data   map[string][]byte
}

// Save produces the checkpoint files' content the way checkpoint.Manager does
// when a save is due: SetHeight, Snapshot() (itself a Serialize+Deserialize)
// and Serialize of the snapshot.
func (k *Kit) Save() (*SavedCheckpoints, error) {
	k.Activate()
	out := &SavedCheckpoints{Height: k.Height, Data: map[string][]byte{}}
	for _, key := range []string{CRCheckpointKey, DPoSCheckpointKey} {
		cp, ok := k.Ckp.GetCheckpoint(key, ^uint32(0))
		if !ok || cp == nil {
			return nil, fmt.Errorf("statekit: checkpoint %s not registered", key)
		}
		old := cp.GetHeight()
		cp.SetHeight(k.Height)
		snap := cp.Snapshot()
		cp.SetHeight(old)
		if snap == nil {
			return nil, fmt.Errorf("statekit: snapshot of %s failed", key)
		}
		buf := new(bytes.Buffer)
		if err := snap.Serialize(buf); err != nil {
			return nil, err
		}
		out.Data[key] = buf.Bytes()
	}
	return out, nil
}

// Restore creates a fresh kit (a restarted node) that loads the saved
// checkpoints the way checkpoint.Manager.Restore does (Deserialize into the
// registered checkpoint object, then OnInit) and stands at the saved height.
// The block store and the outpoint model are shared knowledge of the chain and
// are copied from k.
func (k *Kit) Restore(s *SavedCheckpoints) (*Kit, error) {
	n := New(k.Profile)
	n.faucet = k.faucet
	n.base = k.base
	for key, rec := range k.Outs {
		c := *rec
		n.Outs[key] = &c
	}
	for h, b := range k.Blocks {
		n.Blocks[h], n.Confirms[h] = b, k.Confirms[h]
	}
	n.Activate()
	for _, key := range []string{CRCheckpointKey, DPoSCheckpointKey} {
		var cp checkpoint.ICheckPoint
		cp, ok := n.Ckp.GetCheckpoint(key, ^uint32(0))
		if !ok || cp == nil {
			return nil, fmt.Errorf("statekit: checkpoint %s not registered", key)
		}
		if err := cp.Deserialize(bytes.NewReader(s.Data[key])); err != nil {
			return nil, fmt.Errorf("statekit: %s: %v", key, err)
		}
		cp.OnInit()
	}
	n.setChainHeight(s.Height)
	return n, nil
}

// AdoptFaucet copies the faucet outpoints k does not know yet from another kit
// of the same chain (they stand for coins that exist independently of the
// DPoS/CR state).
func (k *Kit) AdoptFaucet(from *Kit) {
	for key, rec := range from.Outs {
		if rec.Height == 0 {
			if _, ok := k.Outs[key]; !ok {
				c := *rec
				c.SpentAt = 0
				k.Outs[key] = &c
			}
		}
	}
}
