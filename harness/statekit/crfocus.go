package statekit

import (
	crstate "github.com/elastos/Elastos.ELA/cr/state"
	"pgregory.net/rapid"
)

// CR focus: what histories about the CR committee (C22, C23) share - period
// lengths that let proposals end at a committee change, and kind weights that
// steer towards whole proposal life cycles and a staffed second election.

// CRFocusProfile stretches the proposal periods in three quarters of the cases.
// Proposals are admitted outside the CR voting period only, so with the default
// short review periods every proposal is decided before the next committee
// change.  In mode 1 the review period, in mode 2 review + public vote of a
// proposal registered just before the voting period end exactly at / next to
// the block that seats the next committee (proposal manager and committee then
// change common fields in one block).
func CRFocusProfile(t *rapid.T, p *Profile) {
	if p.CRVotingStart >= Far {
		return
	}
	// candidates need six blocks to become active and then votes: three more
	// blocks in every voting period make most elections succeed
	const more = 3
	p.VotingPeriod += more
	p.DutyPeriod += more
	for _, h := range []*uint32{&p.CRCommitteeStart, &p.CRClaimStart, &p.NewCR, &p.RevertToPOWStart, &p.DPoSV2Start, &p.NFTStart} {
		if *h < Far {
			*h += more
		}
	}
	vp := int(p.VotingPeriod)
	if p.DPoSV2Start < Far && rapid.Bool().Draw(t, "claimperiod-counts") {
		// from DPoSV2StartHeight on proposals are not admitted during the claim
		// period between the end of the voting and the change either
		vp += int(p.CRClaimPeriod)
	}
	switch rapid.IntRange(0, 3).Draw(t, "periodmode") {
	case 1, 2:
		p.ProposalCRVotingPeriod = uint32(vp + rapid.IntRange(-1, 2).Draw(t, "crvoting-vs-votingperiod"))
	case 3:
		ppv := rapid.IntRange(2, 4).Draw(t, "publicvoting")
		p.ProposalPublicVotingPeriod = uint32(ppv)
		p.ProposalCRVotingPeriod = uint32(vp - ppv + rapid.IntRange(-1, 2).Draw(t, "review-vs-votingperiod"))
	}
}

// NextCommitteeChange is the height the sitting committee's term ends at (0
// when no committee sits).
func (k *Kit) NextCommitteeChange() uint32 {
	c := k.Committee
	if !c.IsInElectionPeriod() || c.LastCommitteeHeight == 0 {
		return 0
	}
	return c.LastCommitteeHeight + k.Params.CRConfiguration.DutyPeriod
}

// CRFocusKinds adds the proposal kinds (at half their C29 weights), lowers the
// DPoS-only kinds and installs the boost.
func CRFocusKinds(g *Gen) {
	for k, w := range C29Kinds() {
		g.Kinds[k] = (w + 1) / 2
	}
	// the DPoS side only has to keep the chain staffed here
	for _, k := range []string{"illegalproposal", "illegalvote", "illegalblock", "sidechainillegal", "inactivearbiters", "cancel", "topup", "returndeposit", "update"} {
		if _, ok := g.Kinds[k]; ok {
			g.Kinds[k] = 1
		}
	}
	min := func(a, b int) int {
		if a < b {
			return a
		}
		return b
	}
	g.StaffEveryElection = true
	// distance of the end of a proposal registered in the next block (its
	// review, or review + public vote) from the next committee change: 0 = ends
	// in the block of the change, 1 = next to it, 9 = elsewhere / no proposals now
	endsAtChange := func() int {
		k := g.K
		next := k.NextCommitteeChange()
		if next == 0 || !k.Committee.IsProposalAllowed(k.Height) {
			return 9
		}
		h := k.Height + 1
		cc := k.Params.CRConfiguration
		best := 9
		for _, end := range []uint32{h + cc.ProposalCRVotingPeriod, h + cc.ProposalCRVotingPeriod + cc.ProposalPublicVotingPeriod} {
			if end == next {
				best = 0
			} else if (end+1 == next || end == next+1) && best > 1 {
				best = 1
			}
		}
		return best
	}
	g.MinTxs = func() int {
		switch endsAtChange() {
		case 0:
			return 4
		case 1:
			return 2
		}
		if g.K.Committee.IsInElectionPeriod() {
			return 1
		}
		return 0
	}
	g.Boost = func(kind string) int {
		c := g.K.Committee
		h := g.K.Height + 1
		cc := g.K.Params.CRConfiguration
		if kind == "proposal" && endsAtChange() == 0 {
			return 60
		}
		if h >= g.K.Params.DPoSV2StartHeight {
			// the CR votes of the DPoS 2.0 era need stake
			switch kind {
			case "stake":
				if len(g.votersWithRights()) < 3 {
					return 12
				}
			case "votingimpeach":
				return 3
			}
		}
		if h >= cc.CRVotingStartHeight && c.IsInVotingPeriod(h) {
			// the next committee needs voted candidates (on top of Gen.weight)
			if kind == "registercr" || kind == "votecr" || kind == "votingcr" {
				return 4
			}
			return 1
		}
		if !c.IsInElectionPeriod() {
			return 1
		}
		if kind == "proposal" {
			switch endsAtChange() {
			case 0:
				return 60
			case 1:
				return 12
			}
		}
		// whole proposal life cycles (the weights of the C29 builder's own
		// check): members claim nodes, proposals get reviewed within the review
		// period, agreed ones are tracked and paid
		registered, agreed, payable, inPublicVote := 0, 0, 0, 0
		for _, p := range g.K.Proposals() {
			switch p.Status {
			case crstate.CRAgreed:
				inPublicVote++
			case crstate.Registered:
				registered++
			case crstate.VoterAgreed:
				agreed++
			}
			if c.AvailableWithdrawalAmount(p.Proposal.Hash) > 0 {
				payable++
			}
		}
		switch kind {
		case "claimnode":
			for _, m := range c.GetCurrentMembers() {
				if len(m.DPOSPublicKey) == 0 && (m.MemberState == crstate.MemberElected || m.MemberState == crstate.MemberInactive) {
					return 4
				}
			}
		case "proposal":
			if registered+agreed < 3 {
				return 4
			}
		case "review":
			if cc.ProposalCRVotingPeriod >= cc.VotingPeriod {
				// long review periods: let some proposals expire unreviewed
				return 1 + 2*min(registered, 3)
			}
			return 1 + 8*min(registered, 3)
		case "voteproposal", "votingproposal":
			// voters reject a proposal during its public vote
			return 1 + 10*min(inPublicVote, 2)
		case "tracking":
			return 1 + 3*min(agreed, 2)
		case "withdraw":
			return 1 + 3*min(payable+agreed, 3)
		}
		return 1
	}
}
