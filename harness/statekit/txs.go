package statekit

import (
	"bytes"
	"encoding/binary"

	"github.com/elastos/Elastos.ELA/common"
	"github.com/elastos/Elastos.ELA/core/contract/program"
	"github.com/elastos/Elastos.ELA/core/types"
	common2 "github.com/elastos/Elastos.ELA/core/types/common"
	"github.com/elastos/Elastos.ELA/core/types/functions"
	"github.com/elastos/Elastos.ELA/core/types/interfaces"
	"github.com/elastos/Elastos.ELA/core/types/outputpayload"
	"github.com/elastos/Elastos.ELA/core/types/payload"
)

// ELA is one coin in sela.
const ELA = common.Fixed64(100000000)

func newTx(version common2.TransactionVersion, typ common2.TxType, pv byte, pl interfaces.Payload,
	ins []*common2.Input, outs []*common2.Output, progs []*program.Program) interfaces.Transaction {
	if ins == nil {
		ins = []*common2.Input{}
	}
	if outs == nil {
		outs = []*common2.Output{}
	}
	if progs == nil {
		progs = []*program.Program{}
	}
	return functions.CreateTransaction(version, typ, pv, pl, []*common2.Attribute{}, ins, outs, 0, progs)
}

func prog(k *Key) *program.Program { return &program.Program{Code: k.Code, Parameter: []byte{}} }

// PlainOutput is a default-payload output.
func PlainOutput(to common.Uint168, v common.Fixed64) *common2.Output {
	return &common2.Output{Value: v, ProgramHash: to, Type: common2.OTNone, Payload: &outputpayload.DefaultOutput{}}
}

// CoinbaseTx builds the coinbase of a block: foundation / CR assets share and
// miner share.  LockTime carries the height so hashes differ per block.
func (k *Kit) CoinbaseTx(height uint32) interfaces.Transaction {
	reward := k.Params.GetBlockReward(height)
	found := common.Fixed64(float64(reward) * 0.30)
	miner := reward - found
	to := *k.Params.FoundationProgramHash
	if height >= k.Params.CRConfiguration.CRCommitteeStartHeight {
		to = *k.Params.CRConfiguration.CRAssetsProgramHash
	}
	var content [8]byte
	binary.LittleEndian.PutUint32(content[:], height)
	tx := functions.CreateTransaction(0, common2.CoinBase, 0, &payload.CoinBase{Content: content[:]},
		[]*common2.Attribute{}, []*common2.Input{{Previous: common2.OutPoint{Index: 0xffff}, Sequence: 0xffffffff}},
		[]*common2.Output{PlainOutput(to, found), PlainOutput(K(KeyMiner).Standard, miner)},
		height, []*program.Program{})
	return tx
}

// NewBlock assembles a block for height Height+1.
func (k *Kit) NewBlock(txs []interfaces.Transaction) *types.Block {
	h := k.Height + 1
	b := &types.Block{Header: common2.Header{Version: 1, Height: h, Timestamp: 1600000000 + 120*h, Bits: 0x207fffff}}
	if prev := k.Blocks[k.Height]; prev != nil {
		b.Previous = prev.Hash()
	}
	b.Transactions = append([]interfaces.Transaction{k.CoinbaseTx(h)}, txs...)
	return b
}

// ProducerInfoPayload builds and signs a producer info.
func ProducerInfoPayload(owner, node *Key, nick string, stakeUntil uint32, version byte) *payload.ProducerInfo {
	info := &payload.ProducerInfo{
		OwnerKey:      owner.PK,
		NodePublicKey: node.PK,
		NickName:      nick,
		Url:           "http://" + nick + ".example",
		Location:      uint64(1 + owner.Index%200),
		NetAddress:    "127.0.0.1:20338",
		StakeUntil:    stakeUntil,
	}
	buf := new(bytes.Buffer)
	if err := info.SerializeUnsigned(buf, version); err != nil {
		panic(err)
	}
	info.Signature = owner.Sign(buf.Bytes())
	return info
}

// RegisterProducerTx: stakeUntil == 0 registers a DPoS 1.0 producer (payload
// version 0), otherwise a DPoS 2.0 producer (payload version 1).
func (k *Kit) RegisterProducerTx(owner, node *Key, nick string, deposit common.Fixed64, stakeUntil uint32) interfaces.Transaction {
	pv := payload.ProducerInfoVersion
	if stakeUntil != 0 {
		pv = payload.ProducerInfoDposV2Version
	}
	in := k.FaucetInput(owner.Standard, deposit+ELA)
	return newTx(common2.TxVersion09, common2.RegisterProducer, pv,
		ProducerInfoPayload(owner, node, nick, stakeUntil, pv),
		[]*common2.Input{in},
		[]*common2.Output{PlainOutput(owner.Deposit, deposit)},
		[]*program.Program{prog(owner)})
}

// UpdateProducerTx updates node key / nickname / stakeUntil.
func (k *Kit) UpdateProducerTx(owner, node *Key, nick string, stakeUntil uint32) interfaces.Transaction {
	pv := payload.ProducerInfoVersion
	if stakeUntil != 0 {
		pv = payload.ProducerInfoDposV2Version
	}
	in := k.FaucetInput(owner.Standard, ELA)
	return newTx(common2.TxVersion09, common2.UpdateProducer, pv,
		ProducerInfoPayload(owner, node, nick, stakeUntil, pv),
		[]*common2.Input{in}, nil, []*program.Program{prog(owner)})
}

// CancelProducerTx cancels a producer.
func (k *Kit) CancelProducerTx(owner *Key) interfaces.Transaction {
	pl := &payload.ProcessProducer{OwnerKey: owner.PK}
	buf := new(bytes.Buffer)
	if err := pl.SerializeUnsigned(buf, payload.ProcessProducerVersion); err != nil {
		panic(err)
	}
	pl.Signature = owner.Sign(buf.Bytes())
	in := k.FaucetInput(owner.Standard, ELA)
	return newTx(common2.TxVersion09, common2.CancelProducer, payload.ProcessProducerVersion, pl,
		[]*common2.Input{in}, nil, []*program.Program{prog(owner)})
}

// ActivateProducerTx requests activation (signed by the node key).
func (k *Kit) ActivateProducerTx(node *Key) interfaces.Transaction {
	pl := &payload.ActivateProducer{NodePublicKey: node.PK}
	buf := new(bytes.Buffer)
	if err := pl.SerializeUnsigned(buf, payload.ActivateProducerVersion); err != nil {
		panic(err)
	}
	pl.Signature = node.Sign(buf.Bytes())
	return newTx(common2.TxVersion09, common2.ActivateProducer, payload.ActivateProducerVersion, pl,
		nil, nil, nil)
}

// VoteTx is a TransferAsset (tx version 0x09) with one vote output paying the
// voter back.  version is the VoteOutput version (0: gross, 1: per-candidate
// votes); inputs are extra outpoints to spend (e.g. an earlier vote output,
// which cancels it) in addition to a faucet input.
func (k *Kit) VoteTx(voter *Key, amount common.Fixed64, version byte, contents []outputpayload.VoteContent,
	spend []*common2.Input) interfaces.Transaction {
	ins := append([]*common2.Input{}, spend...)
	ins = append(ins, k.FaucetInput(voter.Standard, amount+ELA))
	out := &common2.Output{Value: amount, ProgramHash: voter.Standard, Type: common2.OTVote,
		Payload: &outputpayload.VoteOutput{Version: version, Contents: contents}}
	return newTx(common2.TxVersion09, common2.TransferAsset, 0, &payload.TransferAsset{},
		ins, []*common2.Output{out}, []*program.Program{prog(voter)})
}

// TransferTx is a plain TransferAsset spending the given inputs (plus a faucet
// input of the sender) to the given outputs.
func (k *Kit) TransferTx(from *Key, spend []*common2.Input, outs []*common2.Output) interfaces.Transaction {
	ins := append([]*common2.Input{}, spend...)
	var total common.Fixed64
	for _, o := range outs {
		total += o.Value
	}
	ins = append(ins, k.FaucetInput(from.Standard, total+ELA))
	return newTx(common2.TxVersion09, common2.TransferAsset, 0, &payload.TransferAsset{},
		ins, outs, []*program.Program{prog(from)})
}

// ReturnDepositTx spends deposit outpoints of owner, paying out to the owner's
// standard address and change back to the deposit address.
func (k *Kit) ReturnDepositTx(owner *Key, spend []*common2.Input, out, change common.Fixed64) interfaces.Transaction {
	outs := []*common2.Output{PlainOutput(owner.Standard, out)}
	if change > 0 {
		outs = append(outs, PlainOutput(owner.Deposit, change))
	}
	return newTx(common2.TxVersion09, common2.ReturnDepositCoin, 0, &payload.ReturnDepositCoin{},
		spend, outs, []*program.Program{prog(owner)})
}

// InputOf returns an input spending output idx of tx.
func InputOf(tx interfaces.Transaction, idx int) *common2.Input {
	return &common2.Input{Previous: *common2.NewOutPoint(tx.Hash(), uint16(idx))}
}
