package statekit

import (
	"github.com/elastos/Elastos.ELA/common"
	"github.com/elastos/Elastos.ELA/common/config"
	"github.com/elastos/Elastos.ELA/core"
)

// Far is the height used for "this feature never activates in the history".
const Far = uint32(50_000_000)

// Profile describes a compressed parameter set: cast sizes, activation heights
// (Far = off) and period lengths.  All heights are absolute block heights.
type Profile struct {
	NOrigin     int // origin arbiters (before CRCOnlyDPOSHeight)
	NCRC        int // CRC arbiters == CR member count
	NNormal     int // NormalArbitratorsCount
	NCandidates int // CandidatesCount

	PreConnectOffset uint32

	VoteStart             uint32 // register/vote allowed, DPoS state starts
	CRCOnly               uint32 // H1
	PublicDPOS            uint32 // H2
	EnableActivateIllegal uint32
	CRVotingStart         uint32
	CRCommitteeStart      uint32
	CRClaimStart          uint32 // CRClaimDPOSNodeStartHeight (+CRC proposal v1, withdraw v1 ...)
	NewCR                 uint32 // ChangeCommitteeNewCRHeight / NoCRCDPOSNodeHeight / CustomID start
	RevertToPOWStart      uint32 // RevertToPOWStartHeight (irreversibility bookkeeping)
	DPoSV2Start           uint32
	NFTStart              uint32
	RecordSponsorStart    uint32
	DexStart              uint32
	DPOSNodeCrossChain    uint32

	// CR periods
	VotingPeriod               uint32
	DutyPeriod                 uint32
	DepositLockupBlocks        uint32
	CRClaimDPOSNodePeriod      uint32
	CRClaimPeriod              uint32
	ProposalCRVotingPeriod     uint32
	ProposalPublicVotingPeriod uint32
	CRAgreementCount           uint32

	// DPoS knobs
	MaxInactiveRounds             uint32
	MaxInactiveRoundsOfRandomNode uint32
	RandomCandidatePeriod         uint32
	InactivePenalty               common.Fixed64
	IllegalPenalty                common.Fixed64
	EmergencyInactivePenalty      common.Fixed64
	DPoSV2EffectiveVotes          common.Fixed64
	DPoSV2DepositCoinMinLockTime  uint32
	DPoSV2MinVotesLockTime        uint32
	DPoSV2MaxVotesLockTime        uint32
}

// DefaultProfile is a small DPoS-v1 era profile: everything later is Far.
func DefaultProfile() Profile {
	return Profile{
		NOrigin: 3, NCRC: 2, NNormal: 3, NCandidates: 2,
		PreConnectOffset:      2,
		VoteStart:             2,
		CRCOnly:               10,
		PublicDPOS:            16,
		EnableActivateIllegal: 16,
		CRVotingStart:         Far, CRCommitteeStart: Far, CRClaimStart: Far, NewCR: Far,
		RevertToPOWStart: Far, DPoSV2Start: Far, NFTStart: Far, RecordSponsorStart: Far,
		DexStart: Far, DPOSNodeCrossChain: Far,
		VotingPeriod: 8, DutyPeriod: 24, DepositLockupBlocks: 4, CRClaimDPOSNodePeriod: 4,
		CRClaimPeriod: 4, ProposalCRVotingPeriod: 3, ProposalPublicVotingPeriod: 3, CRAgreementCount: 2,
		MaxInactiveRounds: 4, MaxInactiveRoundsOfRandomNode: 3, RandomCandidatePeriod: 6,
		InactivePenalty: 100 * 1e8, IllegalPenalty: 200 * 1e8, EmergencyInactivePenalty: 50 * 1e8,
		DPoSV2EffectiveVotes:         800 * 1e8,
		DPoSV2DepositCoinMinLockTime: 10, DPoSV2MinVotesLockTime: 10, DPoSV2MaxVotesLockTime: 1000,
	}
}

// Params materialises the profile as a node configuration.  The cast keys are
// the deterministic keys of this package.
func (p Profile) Params() *config.Configuration {
	c := config.GetDefaultParams()
	c.GenesisBlock = core.GenesisBlock(*c.FoundationProgramHash)

	c.DPoSConfiguration.OriginArbiters = nil
	for i := 0; i < p.NOrigin; i++ {
		c.DPoSConfiguration.OriginArbiters = append(c.DPoSConfiguration.OriginArbiters, K(KeyOriginBase+i).Hex)
	}
	c.DPoSConfiguration.CRCArbiters = nil
	for i := 0; i < p.NCRC; i++ {
		c.DPoSConfiguration.CRCArbiters = append(c.DPoSConfiguration.CRCArbiters, K(KeyCRCBase+i).Hex)
	}
	c.DPoSConfiguration.NormalArbitratorsCount = p.NNormal
	c.DPoSConfiguration.CandidatesCount = p.NCandidates
	c.DPoSConfiguration.PreConnectOffset = p.PreConnectOffset
	c.DPoSConfiguration.SponsorsFilePath = "/nonexistent/verif-sponsors"

	c.CheckAddressHeight = 0
	c.VoteStartHeight = p.VoteStart
	c.CRCOnlyDPOSHeight = p.CRCOnly
	c.PublicDPOSHeight = p.PublicDPOS
	c.EnableActivateIllegalHeight = p.EnableActivateIllegal
	c.CheckRewardHeight = 0
	c.VoteStatisticsHeight = 0

	cr := &c.CRConfiguration
	cr.MemberCount = uint32(p.NCRC)
	cr.CRAgreementCount = p.CRAgreementCount
	cr.CRVotingStartHeight = p.CRVotingStart
	cr.CRCommitteeStartHeight = p.CRCommitteeStart
	cr.CRClaimDPOSNodeStartHeight = p.CRClaimStart
	cr.CRCProposalV1Height = p.CRClaimStart
	cr.NewP2PProtocolVersionHeight = uint64(p.CRClaimStart)
	cr.CRAssetsRectifyTransactionHeight = p.CRClaimStart
	cr.CRCProposalWithdrawPayloadV1Height = p.CRClaimStart
	cr.RegisterCRByDIDHeight = p.CRVotingStart
	cr.CheckVoteCRCountHeight = p.CRCommitteeStart
	cr.ChangeCommitteeNewCRHeight = p.NewCR
	cr.CRCProposalDraftDataStartHeight = p.NewCR
	cr.VotingPeriod = p.VotingPeriod
	cr.DutyPeriod = p.DutyPeriod
	cr.DepositLockupBlocks = p.DepositLockupBlocks
	cr.CRClaimDPOSNodePeriod = p.CRClaimDPOSNodePeriod
	cr.CRClaimPeriod = p.CRClaimPeriod
	cr.ProposalCRVotingPeriod = p.ProposalCRVotingPeriod
	cr.ProposalPublicVotingPeriod = p.ProposalPublicVotingPeriod
	cr.SecretaryGeneral = K(KeySecretaryGen).Hex
	cr.MaxCommitteeProposalCount = 6
	cr.MaxProposalTrackingCount = 4

	d := &c.DPoSConfiguration
	d.NoCRCDPOSNodeHeight = p.NewCR
	d.RevertToPOWStartHeight = p.RevertToPOWStart
	d.CRDPoSNodeHotFixHeight = 0
	d.DPOSNodeCrossChainHeight = p.DPOSNodeCrossChain
	d.ChangeViewV1Height = Far
	d.NFTStartHeight = p.NFTStart
	d.NFTV2StartHeight = Far
	d.RecordSponsorStartHeight = p.RecordSponsorStart
	d.DexStartHeight = p.DexStart
	d.MaxInactiveRounds = p.MaxInactiveRounds
	d.MaxInactiveRoundsOfRandomNode = p.MaxInactiveRoundsOfRandomNode
	d.RandomCandidatePeriod = p.RandomCandidatePeriod
	d.InactivePenalty = p.InactivePenalty
	d.IllegalPenalty = p.IllegalPenalty
	d.DPoSV2IllegalPenalty = p.IllegalPenalty
	d.EmergencyInactivePenalty = p.EmergencyInactivePenalty
	d.DPoSV2DepositCoinMinLockTime = p.DPoSV2DepositCoinMinLockTime
	d.DPoSV2MinVotesLockTime = p.DPoSV2MinVotesLockTime
	d.DPoSV2MaxVotesLockTime = p.DPoSV2MaxVotesLockTime

	c.CustomIDProposalStartHeight = p.NewCR
	c.DPoSV2StartHeight = p.DPoSV2Start
	c.DPoSV2EffectiveVotes = p.DPoSV2EffectiveVotes
	c.HalvingRewardHeight = Far
	c.HalvingRewardInterval = Far
	c.NewELAIssuanceHeight = Far
	c.CrossChainUTXOFreezeHeight = config.DisabledCrossChainUTXORestrictionHeight
	c.CrossChainUTXORestrictionHeight = config.DisabledCrossChainUTXORestrictionHeight
	c.FrozenAddresses = nil
	c.NewCrossChainStartHeight = Far
	c.ReturnCrossChainCoinStartHeight = Far
	c.ProhibitTransferToDIDHeight = Far
	c.SupportMultiCodeHeight = Far
	c.MultiExchangeVotesStartHeight = Far
	c.SchnorrStartHeight = Far
	c.NormalSchnorrStartHeight = Far
	c.ProducerSchnorrStartHeight = Far
	c.CRSchnorrStartHeight = Far
	c.VotesSchnorrStartHeight = Far
	c.CrossChainMonitorStartHeight = Far

	c.CheckPointConfiguration.NeedSave = false
	c.CheckPointConfiguration.EnableHistory = false
	return c
}
