// Package statekit drives the real DPoS (dpos/state.Arbiters, State) and CR
// (cr/state.Committee) state objects of the node with synthetic blocks, in the
// style of /repo/test/unit/*rollback_test.go, but with generated, node-valid
// block sequences.  There are no real UTXOs: references are supplied from a
// small outpoint model kept by the kit.
//
// The exported API is additive (C21-C24, C27-C29 import it).
package statekit

import (
	"crypto/sha256"
	"encoding/hex"
	"fmt"
	"math/big"
	"sync"

	"github.com/elastos/Elastos.ELA/common"
	"github.com/elastos/Elastos.ELA/core/contract"
	"github.com/elastos/Elastos.ELA/crypto"
)

// Key is one deterministic P-256 key pair of the cast.
type Key struct {
	Index int
	Priv  []byte            // 32-byte scalar
	Pub   *crypto.PublicKey // point
	PK    []byte            // 33-byte compressed public key
	Hex   string            // hex of PK
	Code  []byte            // standard redeem script
	// program hashes derived from the standard code
	Standard common.Uint168 // prefix 0x21 "E..." address
	Deposit  common.Uint168 // prefix 0x1f "D..." address
	Stake    common.Uint168 // prefix "S" DPoS-v2 stake address
	CID      common.Uint168 // CR candidate id
	DID      common.Uint168
}

var (
	keyMu    sync.Mutex
	keyCache = map[int]*Key{}
)

// K returns the i-th key of the deterministic cast (no randomness involved:
// scalar = sha256("verif-statekit-key" || i) mod N, never zero).
func K(i int) *Key {
	keyMu.Lock()
	defer keyMu.Unlock()
	if k, ok := keyCache[i]; ok {
		return k
	}
	h := sha256.Sum256([]byte(fmt.Sprintf("verif-statekit-key-%d", i)))
	d := new(big.Int).SetBytes(h[:])
	n := new(big.Int).Sub(crypto.DefaultParams.N, big.NewInt(1))
	d.Mod(d, n)
	d.Add(d, big.NewInt(1))
	priv := make([]byte, 32)
	d.FillBytes(priv)
	x, y := crypto.DefaultCurve.ScalarBaseMult(priv)
	pub := &crypto.PublicKey{X: x, Y: y}
	pk, err := pub.EncodePoint(true)
	if err != nil {
		panic("statekit: encode point: " + err.Error())
	}
	k := &Key{Index: i, Priv: priv, Pub: pub, PK: pk, Hex: hex.EncodeToString(pk)}
	code, err := contract.CreateStandardRedeemScript(pub)
	if err != nil {
		panic("statekit: redeem script: " + err.Error())
	}
	k.Code = code
	ct, _ := contract.CreateStandardContract(pub)
	k.Standard = *ct.ToProgramHash()
	dc, _ := contract.CreateDepositContractByPubKey(pub)
	k.Deposit = *dc.ToProgramHash()
	sc, _ := contract.CreateStakeContractByCode(code)
	k.Stake = *sc.ToProgramHash()
	cc, _ := contract.CreateCRIDContractByCode(code)
	k.CID = *cc.ToProgramHash()
	k.DID = *didByCode(code)
	keyCache[i] = k
	return k
}

func didByCode(code []byte) *common.Uint168 {
	didCode := make([]byte, len(code))
	copy(didCode, code)
	didCode = append(didCode[:len(code)-1], common.DID)
	ct, err := contract.CreateCRIDContractByCode(didCode)
	if err != nil {
		panic("statekit: did: " + err.Error())
	}
	return ct.ToProgramHash()
}

// Sign signs data with the key (ECDSA; signature bytes are randomised by the
// Go runtime, verdicts never depend on them).
func (k *Key) Sign(data []byte) []byte {
	sig, err := crypto.Sign(k.Priv, data)
	if err != nil {
		panic("statekit: sign: " + err.Error())
	}
	return sig
}

// Cast layout (indexes into K): fixed roles so that histories are readable.
const (
	KeyOriginBase   = 0  // 0..4   origin arbiters
	KeyCRCBase      = 10 // 10..15 CRC arbiter node keys
	KeyOwnerBase    = 20 // 20..31 producer owner keys
	KeyNodeBase     = 40 // 40..51 producer node keys (and alternates 60..71)
	KeyNodeAltBase  = 60
	KeyVoterBase    = 80  // 80..87 voters / stakers
	KeyCRBase       = 100 // 100..111 CR candidates
	KeyCRNodeBase   = 120 // 120..131 DPoS node keys claimed by CR members
	KeySecretaryGen = 140
	KeyMiner        = 141
)
