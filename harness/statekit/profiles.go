package statekit

import "pgregory.net/rapid"

// Era selects how far the drawn activation heights reach.
type Era int

const (
	EraV1    Era = iota // register/vote, CRC-only, public DPoS (mainnet < 537670)
	EraCR               // + CR voting, committee, claim node (mainnet < 932530)
	EraNewCR            // + ChangeCommitteeNewCR / RevertToPOW / irreversibility (mainnet < 1405000)
	EraV2               // + DPoS 2.0 staking, NFT, record sponsor
)

func (e Era) String() string {
	return [...]string{"v1", "cr", "newcr", "v2"}[e]
}

// DrawProfile draws a compressed profile: milestones keep their mainnet order,
// gaps between them are small random numbers so that every era change happens
// within a few dozen blocks.
func DrawProfile(t *rapid.T, era Era) Profile {
	p := DefaultProfile()
	gap := func(label string, lo, hi int) uint32 {
		return uint32(rapid.IntRange(lo, hi).Draw(t, label))
	}
	p.NOrigin = rapid.IntRange(2, 4).Draw(t, "norigin")
	p.NCRC = rapid.IntRange(2, 3).Draw(t, "ncrc")
	p.NNormal = rapid.IntRange(2, 4).Draw(t, "nnormal")
	p.NCandidates = rapid.IntRange(1, 3).Draw(t, "ncandidates")
	p.PreConnectOffset = gap("preconnect", 1, 3)
	p.VoteStart = gap("votestart", 21, 24)
	p.CRCOnly = p.VoteStart + p.PreConnectOffset + gap("g-crconly", 1, 9)
	p.PublicDPOS = p.CRCOnly + p.PreConnectOffset + gap("g-public", 1, 8)
	p.EnableActivateIllegal = p.PublicDPOS + gap("g-actillegal", 0, 8)
	// an arbiter sponsors once per round: it must miss one to three turns
	p.MaxInactiveRounds = uint32(p.NCRC+p.NNormal) + gap("maxinactive", 1, 8)
	p.DepositLockupBlocks = gap("lockup", 2, 6)
	if rapid.Bool().Draw(t, "nopenalty") {
		// mainnet values
		p.InactivePenalty, p.IllegalPenalty, p.EmergencyInactivePenalty = 0, 0, 0
	}
	return p
}
