package statekit

import "pgregory.net/rapid"

// Era selects how far the drawn activation heights reach.
type Era int

const (
	EraV1    Era = iota // register/vote, CRC-only, public DPoS (mainnet < 537670)
	EraCR               // + CR voting, committee, claim node (mainnet < 932530)
	EraNewCR            // + ChangeCommitteeNewCR / RevertToPOW / irreversibility (mainnet < 1405000)
	EraV2               // + DPoS 2.0 staking, NFT, record sponsor
)

func (e Era) String() string {
	return [...]string{"v1", "cr", "newcr", "v2"}[e]
}

// DrawProfile draws a compressed profile: milestones keep their mainnet order,
// gaps between them are small random numbers so that every era change happens
// within a few dozen blocks.
func DrawProfile(t *rapid.T, era Era) Profile {
	p := DefaultProfile()
	gap := func(label string, lo, hi int) uint32 {
		return uint32(rapid.IntRange(lo, hi).Draw(t, label))
	}
	p.NOrigin = rapid.IntRange(2, 4).Draw(t, "norigin")
	p.NCRC = rapid.IntRange(2, 3).Draw(t, "ncrc")
	p.NNormal = rapid.IntRange(2, 4).Draw(t, "nnormal")
	p.NCandidates = rapid.IntRange(1, 3).Draw(t, "ncandidates")
	p.PreConnectOffset = gap("preconnect", 1, 3)
	p.VoteStart = gap("votestart", 21, 24)
	p.CRCOnly = p.VoteStart + p.PreConnectOffset + gap("g-crconly", 1, 9)
	p.PublicDPOS = p.CRCOnly + p.PreConnectOffset + gap("g-public", 1, 8)
	p.EnableActivateIllegal = p.PublicDPOS + gap("g-actillegal", 0, 8)
	// an arbiter sponsors once per round: it must miss one to three turns
	p.MaxInactiveRounds = uint32(p.NCRC+p.NNormal) + gap("maxinactive", 1, 8)
	p.DepositLockupBlocks = gap("lockup", 2, 6)
	if era >= EraCR {
		p.CRVotingStart = p.PublicDPOS + gap("g-crvoting", 1, 8)
		// candidates need 6 confirmations and votes before the first election
		p.CRCommitteeStart = p.CRVotingStart + gap("g-committee", 8, 14)
		p.CRClaimStart = p.CRCommitteeStart + gap("g-claim", 0, 8)
		p.VotingPeriod = gap("votingperiod", 7, 10)
		p.DutyPeriod = p.VotingPeriod + gap("g-duty", 6, 16)
		p.CRClaimDPOSNodePeriod = gap("claimnodeperiod", 3, 8)
		p.CRClaimPeriod = gap("claimperiod", 2, 5)
		p.ProposalCRVotingPeriod = gap("propcrvoting", 2, 4)
		p.ProposalPublicVotingPeriod = gap("proppublicvoting", 2, 4)
		p.CRAgreementCount = uint32(p.NCRC*2/3 + 1)
		if p.CRAgreementCount > uint32(p.NCRC) {
			p.CRAgreementCount = uint32(p.NCRC)
		}
	}
	if era >= EraNewCR {
		p.NewCR = p.CRClaimStart + gap("g-newcr", 2, 10)
		p.RevertToPOWStart = p.NewCR + gap("g-reverttopow", 0, 4)
	}
	if era >= EraV2 {
		p.DPoSV2Start = p.RevertToPOWStart + gap("g-v2", 3, 10)
		p.NFTStart = p.DPoSV2Start
		if rapid.Bool().Draw(t, "recordsponsor") {
			p.RecordSponsorStart = p.DPoSV2Start + gap("g-recordsponsor", 4, 20)
		}
	}
	if rapid.Bool().Draw(t, "nopenalty") {
		// mainnet values
		p.InactivePenalty, p.IllegalPenalty, p.EmergencyInactivePenalty = 0, 0, 0
	}
	return p
}
