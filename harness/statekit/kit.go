package statekit

import (
	"bytes"
	"fmt"
	"os"
	"reflect"
	"sort"
	"sync"
	"unsafe"

	"github.com/elastos/Elastos.ELA/blockchain"
	"github.com/elastos/Elastos.ELA/common"
	"github.com/elastos/Elastos.ELA/common/config"
	"github.com/elastos/Elastos.ELA/common/log"
	"github.com/elastos/Elastos.ELA/core/checkpoint"
	"github.com/elastos/Elastos.ELA/core/transaction"
	"github.com/elastos/Elastos.ELA/core/types"
	common2 "github.com/elastos/Elastos.ELA/core/types/common"
	"github.com/elastos/Elastos.ELA/core/types/functions"
	"github.com/elastos/Elastos.ELA/core/types/interfaces"
	"github.com/elastos/Elastos.ELA/core/types/payload"
	crstate "github.com/elastos/Elastos.ELA/cr/state"
	dstate "github.com/elastos/Elastos.ELA/dpos/state"
	"github.com/elastos/Elastos.ELA/events"
)

var initOnce sync.Once

// InitProcess sets the process-wide function tables of the node once.
func InitProcess() {
	initOnce.Do(func() {
		functions.GetTransactionByTxType = transaction.GetTransaction
		functions.GetTransactionByBytes = transaction.GetTransactionByBytes
		functions.CreateTransaction = transaction.CreateTransaction
		functions.GetTransactionParameters = transaction.GetTransactionparameters
		dir, err := os.MkdirTemp("", "sklog")
		if err != nil {
			panic(err)
		}
		// level 5 = fatal only; the logger is a process global some checkers write to
		log.NewDefault(dir, 6, 0, 0)
	})
}

// Kit is one independent "node state": committee + arbiters + the bare chain
// object the transaction checkers look at.  Several kits may live in one
// process; Activate (called by every method that runs node code) installs the
// kit's globals (default ledger, event subscribers).
type Kit struct {
	Profile   Profile
	Params    *config.Configuration
	Ckp       *checkpoint.Manager
	Committee *crstate.Committee
	Arbiters  *dstate.Arbiters
	Chain     *blockchain.BlockChain
	Ledger    *blockchain.Ledger

	// Height is the height of the last processed block (tip).
	Height uint32
	// Blocks[h] / Confirms[h] is the block processed at height h (nil below the
	// first processed height).  Kept across rollbacks (it is the block store).
	Blocks   map[uint32]*types.Block
	Confirms map[uint32]*payload.Confirm
	// Outs is the outpoint model: every output of every transaction put in a
	// block (plus faucet outputs), by outpoint refer key.
	Outs map[string]*OutRec

	subs   []events.EventCallback
	closed bool
	faucet uint32
	base   uint32
}

// New creates a kit at height start-1 (nothing processed yet).  start is the
// first height that will be fed; real nodes feed every height from 1, the DPoS
// state ignores heights below its StartHeight, so starting right below
// VoteStartHeight is equivalent and cheaper.
func New(p Profile) *Kit {
	InitProcess()
	k := &Kit{Profile: p, Params: p.Params(),
		Blocks: map[uint32]*types.Block{}, Confirms: map[uint32]*payload.Confirm{},
		Outs: map[string]*OutRec{}}
	old := events.VerifSKSwapSubscribers(nil)
	k.Ckp = checkpoint.NewManager(k.Params)
	k.Committee = crstate.NewCommittee(k.Params, k.Ckp)
	ar, err := dstate.NewArbitrators(k.Params, k.Committee,
		k.depositAmount,
		k.Committee.TryUpdateCRMemberInactivity,
		k.Committee.TryRevertCRMemberInactivity,
		k.Committee.TryUpdateCRMemberIllegal,
		k.Committee.TryRevertCRMemberIllegal,
		k.Committee.UpdateCRInactivePenalty,
		k.Committee.RevertUpdateCRInactivePenalty,
		k.Ckp)
	if err != nil {
		panic("statekit: NewArbitrators: " + err.Error())
	}
	k.Arbiters = ar
	k.subs = events.VerifSKSwapSubscribers(old)

	k.Chain = &blockchain.BlockChain{}
	k.Chain.SetState(ar.State)
	k.Chain.SetCRCommittee(k.Committee)
	k.Chain.CkpManager = k.Ckp
	setUnexported(k.Chain, "db", blockchain.IChainStore(&fakeStore{k: k}))
	setUnexported(k.Chain, "chainParams", k.Params)
	k.Ledger = &blockchain.Ledger{Blockchain: k.Chain, Arbitrators: ar, Committee: k.Committee}

	ar.RegisterFunction(k.bestHeight, k.bestHash, k.blockByHeight, k.TxReference)
	ar.State.RegisterFuncitons(&dstate.StateFuncsConfig{GetHeight: k.bestHeight})
	k.Committee.RegisterFuncitons(&crstate.CommitteeFuncsConfig{
		GetTxReference:                   k.TxReference,
		GetHeight:                        k.bestHeight,
		GetCurrentArbiters:               ar.GetCurrentArbitratorKeys,
		CreateCRAppropriationTransaction: k.createAppropriation,
		GetUTXO: func(programHash *common.Uint168) ([]*common2.UTXO, error) {
			return (&fakeFFLDB{k: k}).GetUTXO(programHash)
		},
	})
	k.setChainHeight(0)
	return k
}

// StartAt positions a fresh kit at height h without feeding blocks 1..h.  The
// DPoS and CR states ignore every block below their start heights
// (checkpoint.Manager skips them), so for h < VoteStartHeight this equals
// having processed h irrelevant blocks.  Heights above 20 are needed for the
// arbiters' per-height snapshot cache to work (bestHeight-MaxSnapshotLength
// wraps around below that).
func (k *Kit) StartAt(h uint32) {
	if k.Height != 0 || len(k.Blocks) != 0 {
		panic("statekit: StartAt on a used kit")
	}
	k.base = h
	k.setChainHeight(h)
}

// Base is the height the kit started at (blocks exist for Base+1..Height).
func (k *Kit) Base() uint32 { return k.base }

// Close releases the goroutines of the checkpoint manager.
func (k *Kit) Close() {
	if k.closed {
		return
	}
	k.closed = true
	k.Ckp.Close()
}

// Activate installs the kit's process globals.
func (k *Kit) Activate() {
	blockchain.DefaultLedger = k.Ledger
	events.VerifSKSwapSubscribers(k.subs)
}

func (k *Kit) depositAmount(common.Uint168) (common.Fixed64, error) { return 0, nil }
func (k *Kit) bestHeight() uint32                                   { return k.Height }
func (k *Kit) bestHash() *common.Uint256 {
	if b := k.Blocks[k.Height]; b != nil {
		h := b.Hash()
		return &h
	}
	return &common.Uint256{}
}

func (k *Kit) blockByHeight(h uint32) (*types.Block, error) {
	if b := k.Blocks[h]; b != nil && h <= k.Height {
		return b, nil
	}
	return nil, fmt.Errorf("statekit: no block at height %d", h)
}

// TxReference resolves the inputs of tx in the outpoint model.
func (k *Kit) TxReference(tx interfaces.Transaction) (map[*common2.Input]common2.Output, error) {
	refs := make(map[*common2.Input]common2.Output, len(tx.Inputs()))
	for _, in := range tx.Inputs() {
		o, ok := k.Outs[in.ReferKey()]
		if !ok {
			return nil, fmt.Errorf("statekit: unknown outpoint %s", in.ReferKey())
		}
		refs[in] = o.Out
	}
	return refs, nil
}

func (k *Kit) setChainHeight(h uint32) {
	k.Height = h
	// BlockChain.GetHeight() is len(Nodes)-1
	if uint32(len(k.Chain.Nodes)) != h+1 {
		k.Chain.IndexLock.Lock()
		k.Chain.Nodes = make([]*blockchain.BlockNode, h+1)
		k.Chain.IndexLock.Unlock()
	}
	var ts uint32
	if b := k.Blocks[h]; b != nil {
		ts = b.Timestamp
	}
	k.Chain.BestChain = &blockchain.BlockNode{Height: h, Timestamp: ts}
}

// OutRec is one entry of the outpoint model.
type OutRec struct {
	TxID    common.Uint256
	Index   uint16
	Out     common2.Output
	Height  uint32 // creating block (0: faucet)
	SpentAt uint32 // spending block (0: unspent)
}

// Unspent tells whether the outpoint exists and is unspent at the kit's tip.
func (k *Kit) Unspent(r *OutRec) bool {
	return r.Height <= k.Height && (r.SpentAt == 0 || r.SpentAt > k.Height)
}

// recordBlock puts the block's outputs/spends into the outpoint model,
// forgetting whatever an abandoned block of the same or a greater height left.
func (k *Kit) recordBlock(b *types.Block) {
	for key, r := range k.Outs {
		if r.Height >= b.Height {
			delete(k.Outs, key)
			continue
		}
		if r.SpentAt >= b.Height {
			r.SpentAt = 0
		}
	}
	for _, tx := range b.Transactions {
		h := tx.Hash()
		for i, o := range tx.Outputs() {
			k.Outs[common2.NewOutPoint(h, uint16(i)).ReferKey()] = &OutRec{TxID: h, Index: uint16(i), Out: *o, Height: b.Height}
		}
	}
	for _, tx := range b.Transactions {
		if tx.IsCoinBaseTx() {
			continue
		}
		for _, in := range tx.Inputs() {
			if r, ok := k.Outs[in.ReferKey()]; ok {
				r.SpentAt = b.Height
			}
		}
	}
}

// UTXOs lists the unspent outputs paying programHash at the kit's tip.
func (k *Kit) UTXOs(programHash common.Uint168) []*OutRec {
	var out []*OutRec
	for _, r := range k.Outs {
		if r.Out.ProgramHash.IsEqual(programHash) && k.Unspent(r) {
			out = append(out, r)
		}
	}
	sort.Slice(out, func(i, j int) bool {
		if c := bytes.Compare(out[i].TxID[:], out[j].TxID[:]); c != 0 {
			return c < 0
		}
		return out[i].Index < out[j].Index
	})
	return out
}

// fakeStore / fakeFFLDB give the checkers the few database reads they do
// (deposit UTXO lookup); everything else panics on the nil embedded interface
// and is reported by CheckTx as a rejected candidate.
type fakeStore struct {
	blockchain.IChainStore
	k *Kit
}

func (s *fakeStore) GetFFLDB() blockchain.IFFLDBChainStore { return &fakeFFLDB{k: s.k} }
func (s *fakeStore) GetHeight() uint32                     { return s.k.Height }
func (s *fakeStore) IsTxHashDuplicate(common.Uint256) bool { return false }
func (s *fakeStore) IsDoubleSpend(interfaces.Transaction) bool {
	return false
}

type fakeFFLDB struct {
	blockchain.IFFLDBChainStore
	k *Kit
}

func (f *fakeFFLDB) GetUTXO(programHash *common.Uint168) ([]*common2.UTXO, error) {
	var out []*common2.UTXO
	for _, r := range f.k.UTXOs(*programHash) {
		out = append(out, &common2.UTXO{TxID: r.TxID, Index: r.Index, Value: r.Out.Value})
	}
	return out, nil
}

// setUnexported sets an unexported struct field through unsafe.
func setUnexported(structPtr any, field string, val any) {
	v := reflect.ValueOf(structPtr).Elem().FieldByName(field)
	if !v.IsValid() {
		panic("statekit: no field " + field)
	}
	reflect.NewAt(v.Type(), unsafe.Pointer(v.UnsafeAddr())).Elem().Set(reflect.ValueOf(val))
}

// Process feeds one block (height must be Height+1) through the checkpoint
// manager exactly as BlockChain does after connecting a block: CR committee
// first, then the DPoS state (checkpoint priorities).
func (k *Kit) Process(b *types.Block, confirm *payload.Confirm) {
	if b.Height != k.Height+1 {
		panic(fmt.Sprintf("statekit: non-consecutive height %d after %d", b.Height, k.Height))
	}
	k.Activate()
	k.recordBlock(b)
	k.Blocks[b.Height] = b
	k.Confirms[b.Height] = confirm
	// the chain tip is already the new block when OnBlockSaved runs
	k.setChainHeight(b.Height)
	isPow := k.Arbiters.State.ConsensusAlgorithm == dstate.POW
	k.Ckp.OnBlockSaved(&types.DposBlock{Block: b, HaveConfirm: confirm != nil, Confirm: confirm},
		nil, isPow, k.Arbiters.State.RevertToPOWBlockHeight, false)
}

// RollbackTo rolls both states back to height h (h < Height) the way
// reorganizeChain does: one OnRollbackTo per detached block, tip first.
func (k *Kit) RollbackTo(h uint32) error {
	k.Activate()
	for k.Height > h {
		if err := k.RollbackOne(); err != nil {
			return err
		}
	}
	return nil
}

// RollbackOne detaches the tip block.
func (k *Kit) RollbackOne() error {
	k.Activate()
	if k.Height == 0 {
		return fmt.Errorf("statekit: nothing to roll back")
	}
	target := k.Height - 1
	isPow := k.Arbiters.State.ConsensusAlgorithm == dstate.POW
	err := k.Ckp.OnRollbackTo(target, isPow)
	k.setChainHeight(target)
	return err
}

// RollbackJump calls OnRollbackTo(h) once (multi-block jump; the node itself
// only does single steps, the repo's unit tests also jump).
func (k *Kit) RollbackJump(h uint32) error {
	k.Activate()
	isPow := k.Arbiters.State.ConsensusAlgorithm == dstate.POW
	err := k.Ckp.OnRollbackTo(h, isPow)
	k.setChainHeight(h)
	return err
}

// Replay re-applies the stored block of height Height+1.
func (k *Kit) Replay() {
	h := k.Height + 1
	b := k.Blocks[h]
	if b == nil {
		panic(fmt.Sprintf("statekit: no stored block at %d", h))
	}
	k.Process(b, k.Confirms[h])
}

// CheckTx runs the state-dependent part of the node's context check for a
// transaction that would be included in the block at height Height+1.
func (k *Kit) CheckTx(tx interfaces.Transaction, timestamp uint32, proposalsUsed common.Fixed64) error {
	k.Activate()
	refs, err := k.TxReference(tx)
	if err != nil {
		return err
	}
	para := &transaction.TransactionParameters{
		Transaction:         tx,
		BlockHeight:         k.Height + 1,
		TimeStamp:           timestamp,
		Config:              k.Params,
		BlockChain:          k.Chain,
		ProposalsUsedAmount: proposalsUsed,
	}
	var cerr error
	func() {
		defer func() {
			if e := recover(); e != nil {
				cerr = fmt.Errorf("statekit: checker panicked: %v", e)
			}
		}()
		cerr = transaction.VerifSKStateContextCheck(tx, para, refs)
	}()
	return cerr
}

// CheckBlock applies the state-dependent block-level rules of
// BlockChain.CheckBlockContext / PowCheckBlockSanity to a candidate block for
// height Height+1.
func (k *Kit) CheckBlock(b *types.Block) error {
	k.Activate()
	if err := blockchain.CheckDuplicateTx(b); err != nil {
		return err
	}
	if err := k.Arbiters.CheckDPOSIllegalTx(b); err != nil {
		return err
	}
	if err := k.Arbiters.CheckCRCAppropriationTx(b); err != nil {
		return err
	}
	if err := k.Arbiters.CheckNextTurnDPOSInfoTx(b); err != nil {
		return err
	}
	if err := k.Arbiters.CheckCustomIDResultsTx(b); err != nil {
		return err
	}
	// (Arbiters.CheckRevertToDPOSTX exists but no caller in the node uses it)
	return nil
}

// FaucetInput fabricates a spendable outpoint paying amount to programHash and
// returns an input spending it.
func (k *Kit) FaucetInput(programHash common.Uint168, amount common.Fixed64) *common2.Input {
	k.faucet++
	var id common.Uint256
	copy(id[:], fmt.Sprintf("faucet-%08d", k.faucet))
	op := common2.NewOutPoint(id, 0)
	k.Outs[op.ReferKey()] = &OutRec{TxID: id, Out: common2.Output{Value: amount, ProgramHash: programHash}}
	return &common2.Input{Previous: *op, Sequence: 0}
}

// Rebuild returns a fresh kit (same profile, same block store and faucet
// outpoints) that has processed the stored blocks 1..upTo from scratch.
func (k *Kit) Rebuild(upTo uint32) *Kit {
	n := New(k.Profile)
	n.faucet = k.faucet
	if k.base > 0 {
		n.StartAt(k.base)
	}
	for key, rec := range k.Outs {
		if rec.Height == 0 {
			c := *rec
			c.SpentAt = 0
			n.Outs[key] = &c
		}
	}
	for h := k.base + 1; h <= upTo; h++ {
		b := k.Blocks[h]
		if b == nil {
			panic(fmt.Sprintf("statekit: Rebuild: no block %d", h))
		}
		n.Process(b, k.Confirms[h])
	}
	for h, b := range k.Blocks {
		if h > upTo {
			n.Blocks[h], n.Confirms[h] = b, k.Confirms[h]
		}
	}
	return n
}
