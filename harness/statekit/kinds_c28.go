package statekit

// Candidate kinds for C28 (deposits and DPoS-v2 vote rights): DPoS 2.0
// producers with long stakes, stake (ExchangeVotes), Voting (new / renewal,
// several contents), ReturnVotes and deposit returns with amounts drawn
// around the boundary of what the node says is available.

import (
	"bytes"
	"fmt"
	"sort"

	"github.com/elastos/Elastos.ELA/common"
	"github.com/elastos/Elastos.ELA/core"
	"github.com/elastos/Elastos.ELA/core/contract/program"
	common2 "github.com/elastos/Elastos.ELA/core/types/common"
	"github.com/elastos/Elastos.ELA/core/types/interfaces"
	"github.com/elastos/Elastos.ELA/core/types/outputpayload"
	"github.com/elastos/Elastos.ELA/core/types/payload"
	dstate "github.com/elastos/Elastos.ELA/dpos/state"
	"pgregory.net/rapid"
)

func init() {
	extraKinds["registerv2"] = candRegisterV2
	extraKinds["stake"] = candStake
	extraKinds["voting"] = candVoting
	extraKinds["renewvoting"] = candRenewVoting
	extraKinds["returnvotes"] = candReturnVotes
	extraKinds["returndeposit2"] = candReturnDeposit2
	extraKinds["returncrdeposit2"] = candReturnCRDeposit2
	extraKinds["topupcr"] = candTopupCR
	extraKinds["updatev2"] = candUpdateV2
	extraKinds["cancelexpired"] = candCancelExpired
}

// candCancelExpired cancels a 1.0&2.0 producer whose stake has run out (the
// only moment its CancelProducer transaction is admitted).
func candCancelExpired(g *Gen, t *rapid.T, spent map[string]bool) *cand {
	k := g.K
	h := k.Height + 1
	if h < k.Params.DPoSV2StartHeight {
		return nil
	}
	i := g.pick(t, "canexp", func(i int, p *dstate.Producer) bool {
		return p != nil && p.Identity() == dstate.DPoSV1V2 && p.Info().StakeUntil < h &&
			(p.State() == dstate.Active || p.State() == dstate.Inactive || p.State() == dstate.Pending)
	})
	if i < 0 {
		return nil
	}
	return &cand{"cancelexpired", k.CancelProducerTx(g.owner(i)), fmt.Sprintf("p%d", i), fmt.Sprintf("cancelexpired(p%d,until=%d)", i, g.producer(i).Info().StakeUntil)}
}

// candUpdateV2 gives a DPoS 1.0 producer a (long or short) stake: it becomes
// a 1.0&2.0 producer; for a 2.0 producer it extends the stake.
func candUpdateV2(g *Gen, t *rapid.T, spent map[string]bool) *cand {
	k := g.K
	h := k.Height + 1
	if h < k.Params.DPoSV2StartHeight {
		return nil
	}
	i := g.pick(t, "updv2", func(i int, p *dstate.Producer) bool {
		return p != nil && (p.State() == dstate.Pending || p.State() == dstate.Active || p.State() == dstate.Inactive)
	})
	if i < 0 {
		return nil
	}
	p := g.producer(i)
	node := g.nodeKey(i)
	if string(p.NodePublicKey()) != string(node.PK) {
		node = KeyByPK(p.NodePublicKey())
		if node == nil {
			return nil
		}
	}
	var stake uint32
	if rapid.IntRange(0, 2).Draw(t, "updv2long") > 0 || driving(g) {
		stake = h + uint32(rapid.IntRange(8000, 90000).Draw(t, "stakelong"))
	} else {
		stake = h + k.Params.DPoSConfiguration.DPoSV2DepositCoinMinLockTime + uint32(rapid.IntRange(1, 30).Draw(t, "stakeshort"))
	}
	if stake <= p.Info().StakeUntil {
		stake = p.Info().StakeUntil + uint32(rapid.IntRange(0, 20).Draw(t, "extend"))
	}
	tx := k.UpdateProducerTx(g.owner(i), node, p.Info().NickName, stake)
	return &cand{"updatev2", tx, fmt.Sprintf("p%d", i), fmt.Sprintf("updatev2(p%d,%s,stake=%d)", i, p.Identity(), stake)}
}

// forced subjects: BlockEx (several transactions per subject and block) asks
// the builders of this file for a candidate about a given subject.
var c28Force = map[*Gen]string{}

func forcedIndex(g *Gen, prefix byte) int {
	s := c28Force[g]
	if len(s) < 2 || s[0] != prefix {
		return -1
	}
	n := 0
	for _, c := range s[1:] {
		if c < '0' || c > '9' {
			return -1
		}
		n = n*10 + int(c-'0')
	}
	return n
}

// drive mode: work towards an active DPoS 2.0 (long stakes, weighty votes for
// producers that are not "effective" yet) instead of drawing freely.
var c28Drive = map[*Gen]bool{}

// SetC28Drive switches the drive mode of the C28 kinds for g.
func SetC28Drive(g *Gen, on bool) {
	if on {
		c28Drive[g] = true
	} else {
		delete(c28Drive, g)
	}
}

// driving tells whether the drive mode is on and DPoS 2.0 still lacks
// effective producers.
func driving(g *Gen) bool {
	if !c28Drive[g] {
		return false
	}
	st := g.K.Arbiters.State
	return st.DPoSV2ActiveHeight == ^uint32(0) &&
		len(st.DposV2EffectedProducers) < g.K.Params.DPoSConfiguration.NormalArbitratorsCount*3/2
}

// C28Kinds are the kinds above with their weights.
func C28Kinds() map[string]int {
	return map[string]int{
		"registerv2": 6, "stake": 5, "voting": 9, "renewvoting": 3, "returnvotes": 4,
		"returndeposit2": 5, "returncrdeposit2": 3, "topupcr": 1, "updatev2": 3, "cancelexpired": 6,
	}
}

// C28FullSanity lists the kinds whose transactions pass the node's full
// SanityCheck (complete outputs).
func C28FullSanity() map[string]bool {
	return map[string]bool{"registerv2": true, "stake": true, "voting": true, "renewvoting": true,
		"returnvotes": true, "returndeposit2": true, "returncrdeposit2": true, "topupcr": true,
		"register": true, "registercr": true, "topup": true, "returndeposit": true, "returncrdeposit": true,
		"vote": true, "votecr": true, "impeach": true, "cancelvote": true}
}

func elaOutput(to common.Uint168, v common.Fixed64) *common2.Output {
	return &common2.Output{AssetID: core.ELAAssetID, Value: v, ProgramHash: to, Type: common2.OTNone, Payload: &outputpayload.DefaultOutput{}}
}

// StakeTx exchanges `amount` for DPoS-v2 vote rights of voter's stake address.
func (k *Kit) StakeTx(voter *Key, amount common.Fixed64) interfaces.Transaction {
	in := k.FaucetInput(voter.Standard, amount+2*ELA)
	out := &common2.Output{AssetID: core.ELAAssetID, Value: amount, ProgramHash: *k.Params.StakePoolProgramHash,
		Type: common2.OTStake, Payload: &outputpayload.ExchangeVotesOutput{Version: 0, StakeAddress: voter.Stake}}
	return newTx(common2.TxVersion09, common2.ExchangeVotes, 0, &payload.ExchangeVotes{},
		[]*common2.Input{in}, []*common2.Output{out, elaOutput(voter.Standard, ELA)}, []*program.Program{prog(voter)})
}

// VotingTx builds a Voting transaction (payload version 0: new votes, 1: renewal).
func (k *Kit) VotingTx(voter *Key, version byte, pl *payload.Voting) interfaces.Transaction {
	in := k.FaucetInput(voter.Standard, 2*ELA)
	return newTx(common2.TxVersion09, common2.Voting, version, pl,
		[]*common2.Input{in}, []*common2.Output{elaOutput(voter.Standard, ELA)}, []*program.Program{prog(voter)})
}

// ReturnVotesTx returns `value` of the voter's vote rights (payload version 0,
// signed over the unsigned payload with the voter's key).
func (k *Kit) ReturnVotesTx(voter *Key, value common.Fixed64) interfaces.Transaction {
	pl := &payload.ReturnVotes{ToAddr: voter.Standard, Code: voter.Code, Value: value}
	buf := new(bytes.Buffer)
	if err := pl.SerializeUnsigned(buf, payload.ReturnVotesVersionV0); err != nil {
		panic(err)
	}
	pl.Signature = voter.Sign(buf.Bytes())
	in := k.FaucetInput(voter.Standard, 2*ELA)
	return newTx(common2.TxVersion09, common2.ReturnVotes, payload.ReturnVotesVersionV0, pl,
		[]*common2.Input{in}, []*common2.Output{elaOutput(voter.Standard, ELA)}, []*program.Program{prog(voter)})
}

func candRegisterV2(g *Gen, t *rapid.T, spent map[string]bool) *cand {
	k := g.K
	h := k.Height + 1
	if h < k.Params.DPoSV2StartHeight {
		return nil
	}
	i := g.pick(t, "regv2", func(i int, p *dstate.Producer) bool { return p == nil })
	if i < 0 {
		return nil
	}
	g.nick++
	minLock := k.Params.DPoSConfiguration.DPoSV2DepositCoinMinLockTime
	var stake uint32
	stakeClass := rapid.IntRange(0, 3).Draw(t, "stakeclass")
	if driving(g) {
		stakeClass = 3
	}
	switch stakeClass {
	case 0: // expires within the history
		stake = h + minLock + uint32(rapid.IntRange(1, 30).Draw(t, "stakeshort"))
	case 1: // at the limit (rejected)
		stake = h + minLock
	default: // long enough for weighty votes
		stake = h + uint32(rapid.IntRange(8000, 90000).Draw(t, "stakelong"))
	}
	dep := common.Fixed64(rapid.SampledFrom([]int64{2000, 2000, 2500, 5000, 1999}).Draw(t, "deposit2")) * ELA
	tx := k.RegisterProducerTx(g.owner(i), g.nodeKey(i), fmt.Sprintf("n%d", g.nick), dep, stake)
	return &cand{"registerv2", tx, fmt.Sprintf("p%d", i), fmt.Sprintf("registerv2(p%d,dep=%d,stake=%d)", i, dep/ELA, stake)}
}

func candStake(g *Gen, t *rapid.T, spent map[string]bool) *cand {
	k := g.K
	if k.Height+1 < k.Params.DPoSV2StartHeight {
		return nil
	}
	v := rapid.IntRange(0, g.NVoters-1).Draw(t, "voter")
	if f := forcedIndex(g, 'v'); f >= 0 {
		v = f
	}
	var amount common.Fixed64
	if rapid.Bool().Draw(t, "bigstake") {
		amount = common.Fixed64(rapid.IntRange(1000, 20000).Draw(t, "amount")) * ELA
	} else {
		amount = common.Fixed64(rapid.Int64Range(1, int64(50*ELA)).Draw(t, "amountsela"))
	}
	return &cand{"stake", k.StakeTx(g.voter(v), amount), fmt.Sprintf("v%d", v), fmt.Sprintf("stake(v%d,%s)", v, amount)}
}

// v2Candidates lists the cast indexes of the producers a DposV2 vote may name.
func (g *Gen) v2Candidates() []int {
	var out []int
	for i := 0; i < g.NProducers; i++ {
		p := g.producer(i)
		if p != nil && p.State() == dstate.Active && (p.Identity() == dstate.DPoSV2 || p.Identity() == dstate.DPoSV1V2) {
			out = append(out, i)
		}
	}
	return out
}

// split cuts total into n positive parts.
func split(t *rapid.T, total common.Fixed64, n int) []common.Fixed64 {
	if n <= 1 || total < common.Fixed64(n) {
		return []common.Fixed64{total}
	}
	parts := make([]common.Fixed64, n)
	rest := total
	for i := 0; i < n-1; i++ {
		max := int64(rest) - int64(n-1-i)
		p := common.Fixed64(rapid.Int64Range(1, max).Draw(t, "part"))
		if rapid.Bool().Draw(t, "evenpart") && int64(total)/int64(n) >= 1 && int64(total)/int64(n) <= max {
			p = total / common.Fixed64(n)
		}
		parts[i] = p
		rest -= p
	}
	parts[n-1] = rest
	return parts
}

func candVoting(g *Gen, t *rapid.T, spent map[string]bool) *cand {
	k := g.K
	h := k.Height + 1
	if h < k.Params.DPoSV2StartHeight {
		return nil
	}
	st := k.Arbiters.State
	// prefer voters that have rights
	var have []int
	for v := 0; v < g.NVoters; v++ {
		if st.DposV2VoteRights[g.voter(v).Stake] > 0 {
			have = append(have, v)
		}
	}
	v := rapid.IntRange(0, g.NVoters-1).Draw(t, "voter")
	if len(have) > 0 && rapid.IntRange(0, 9).Draw(t, "anyvoter") > 0 {
		v = have[rapid.IntRange(0, len(have)-1).Draw(t, "votingvoter")]
	}
	if f := forcedIndex(g, 'v'); f >= 0 {
		v = f
	}
	voter := g.voter(v)
	rights := st.DposV2VoteRights[voter.Stake]
	used := st.UsedDposV2Votes[voter.Stake]
	remaining := rights - used
	cands := g.v2Candidates()
	drive := driving(g)
	if drive {
		// producers with a long stake that are not effective yet
		var want []int
		for _, i := range cands {
			p := g.producer(i)
			if _, eff := st.DposV2EffectedProducers[common.BytesToHexString(p.OwnerPublicKey())]; !eff && p.Info().StakeUntil > h+7200 {
				want = append(want, i)
			}
		}
		if len(want) > 0 {
			cands = want
		} else {
			drive = false
		}
	}
	if len(cands) == 0 {
		return nil
	}
	dc := k.Params.DPoSConfiguration
	// at most one bad lock time per transaction, in one transaction out of eight
	badLock := rapid.IntRange(0, 7).Draw(t, "badlock") == 0
	lockFor := func(i int) uint32 {
		until := g.producer(i).Info().StakeUntil
		cls := rapid.IntRange(2, 9).Draw(t, "lockclass")
		if badLock {
			badLock = false
			cls = rapid.IntRange(0, 1).Draw(t, "badlockclass")
		}
		if drive {
			cls = 9
		}
		switch cls {
		case 0: // too short / in the past
			return h + uint32(rapid.IntRange(0, int(dc.DPoSV2MinVotesLockTime)).Draw(t, "lockbad")) - 1
		case 1: // beyond the producer's stake
			return until + 1
		case 2, 3, 4: // expires within the history
			l := h + dc.DPoSV2MinVotesLockTime + uint32(rapid.IntRange(0, 12).Draw(t, "lockshort"))
			if l > until {
				l = until
			}
			return l
		default: // long (weighty)
			l := h + uint32(rapid.IntRange(7200, 80000).Draw(t, "locklong"))
			if l > until {
				l = until
			}
			if l-h > dc.DPoSV2MaxVotesLockTime {
				l = h + dc.DPoSV2MaxVotesLockTime
			}
			return l
		}
	}
	mkContent := func(total common.Fixed64, label string) payload.VotesContent {
		n := rapid.IntRange(1, minInt(3, len(cands))).Draw(t, "nv2"+label)
		perm := rapid.Permutation(cands).Draw(t, "v2cands"+label)[:n]
		parts := split(t, total, n)
		c := payload.VotesContent{VoteType: outputpayload.DposV2}
		for j, part := range parts {
			i := perm[j]
			c.VotesInfo = append(c.VotesInfo, payload.VotesWithLockTime{Candidate: g.owner(i).PK, Votes: part, LockTime: lockFor(i)})
		}
		return c
	}
	pl := &payload.Voting{}
	mode := "within"
	pos := func(x common.Fixed64) common.Fixed64 {
		if x < 1 {
			return 1
		}
		return x
	}
	vmode := rapid.IntRange(0, 11).Draw(t, "votingmode")
	if drive && remaining > 0 {
		vmode = vmode % 6 // within / exact
	}
	switch vmode {
	case 0, 1, 2, 3:
		// an eighth .. all of the remaining rights (rapid's integers lean to
		// tiny values, which never make a producer "effective")
		total := pos(remaining / 8 * common.Fixed64(rapid.IntRange(1, 8).Draw(t, "eighths")))
		if rapid.IntRange(0, 3).Draw(t, "tinyvote") == 0 {
			total = pos(common.Fixed64(rapid.Int64Range(1, int64(pos(remaining))).Draw(t, "total")))
		}
		pl.Contents = append(pl.Contents, mkContent(total, "a"))
	case 4, 5:
		mode = "exact"
		pl.Contents = append(pl.Contents, mkContent(pos(remaining), "a"))
	case 6:
		mode = "above-by-one"
		pl.Contents = append(pl.Contents, mkContent(pos(remaining)+1, "a"))
	case 7:
		mode = "far-above"
		pl.Contents = append(pl.Contents, mkContent(pos(remaining)+common.Fixed64(rapid.Int64Range(1, int64(1000*ELA)).Draw(t, "excess")), "a"))
	case 8, 9:
		// several contents of the same vote type, each within the remaining
		// rights, together above them
		mode = "dup-type"
		a := pos(common.Fixed64(rapid.Int64Range(int64(pos(remaining))/2+1, int64(pos(remaining))).Draw(t, "totala")))
		b := pos(common.Fixed64(rapid.Int64Range(int64(pos(remaining))/2+1, int64(pos(remaining))).Draw(t, "totalb")))
		pl.Contents = append(pl.Contents, mkContent(a, "a"), mkContent(b, "b"))
		if rapid.IntRange(0, 3).Draw(t, "third") == 0 {
			pl.Contents = append(pl.Contents, mkContent(a, "c"))
		}
	case 10:
		// a v1-style delegate content next to the v2 content (different types)
		mode = "with-delegate"
		total := pos(common.Fixed64(rapid.Int64Range(1, int64(pos(remaining))).Draw(t, "total")))
		pl.Contents = append(pl.Contents, mkContent(total, "a"))
		var v1 []int
		for i := 0; i < g.NProducers; i++ {
			if p := g.producer(i); p != nil && p.State() == dstate.Active && (p.Identity() == dstate.DPoSV1 || p.Identity() == dstate.DPoSV1V2) {
				v1 = append(v1, i)
			}
		}
		if len(v1) > 0 {
			i := v1[rapid.IntRange(0, len(v1)-1).Draw(t, "delegatee")]
			amt := pos(common.Fixed64(rapid.Int64Range(1, int64(pos(rights))+1).Draw(t, "delegated")))
			pl.Contents = append(pl.Contents, payload.VotesContent{VoteType: outputpayload.Delegate,
				VotesInfo: []payload.VotesWithLockTime{{Candidate: g.owner(i).PK, Votes: amt}}})
		}
	case 11:
		// every candidate within the remaining rights, the content above them
		mode = "sum-above"
		c := payload.VotesContent{VoteType: outputpayload.DposV2}
		n := minInt(3, len(cands))
		perm := rapid.Permutation(cands).Draw(t, "v2cands")[:n]
		for _, i := range perm {
			c.VotesInfo = append(c.VotesInfo, payload.VotesWithLockTime{Candidate: g.owner(i).PK, Votes: pos(remaining), LockTime: lockFor(i)})
		}
		pl.Contents = append(pl.Contents, c)
	}
	var sum common.Fixed64
	for _, c := range pl.Contents {
		if c.VoteType == outputpayload.DposV2 {
			for _, vi := range c.VotesInfo {
				sum += vi.Votes
			}
		}
	}
	tx := k.VotingTx(voter, payload.VoteVersion, pl)
	return &cand{"voting", tx, fmt.Sprintf("v%d", v),
		fmt.Sprintf("voting(v%d,%s,contents=%d,v2sum=%s,remaining=%s)", v, mode, len(pl.Contents), sum, remaining)}
}

// liveVotes lists the DPoS-v2 votes of a stake address recorded in the state,
// in a deterministic order.
func (g *Gen) liveVotes(stake common.Uint168) []payload.DetailedVoteInfo {
	vs := g.K.Arbiters.State.GetDetailedDPoSV2Votes(&stake)
	sort.Slice(vs, func(i, j int) bool {
		a, b := vs[i].ReferKey(), vs[j].ReferKey()
		return bytes.Compare(a[:], b[:]) < 0
	})
	return vs
}

// expiringVoters lists the voters with a live DPoS 2.0 vote that expires in the block of height h (lock time h-1):
// the last block in which it can still be renewed.
func (g *Gen) expiringVoters(h uint32) []int {
	var out []int
	for v := 0; v < g.NVoters; v++ {
		for _, dv := range g.liveVotes(g.voter(v).Stake) {
			if len(dv.Info) > 0 && dv.Info[0].LockTime+1 == h {
				out = append(out, v)
				break
			}
		}
	}
	return out
}

func candRenewVoting(g *Gen, t *rapid.T, spent map[string]bool) *cand {
	k := g.K
	h := k.Height + 1
	if h < k.Params.DPoSV2StartHeight {
		return nil
	}
	var voters []int
	for v := 0; v < g.NVoters; v++ {
		if len(g.liveVotes(g.voter(v).Stake)) > 0 {
			voters = append(voters, v)
		}
	}
	if len(voters) == 0 {
		return nil
	}
	v := voters[rapid.IntRange(0, len(voters)-1).Draw(t, "renewvoter")]
	lastChance := false
	if ex := g.expiringVoters(h); len(ex) > 0 && rapid.IntRange(0, 3).Draw(t, "renewexpiring") != 0 {
		// a vote in its last renewable block goes first
		v, lastChance = ex[rapid.IntRange(0, len(ex)-1).Draw(t, "renewexpiringvoter")], true
	}
	if f := forcedIndex(g, 'v'); f >= 0 {
		if len(g.liveVotes(g.voter(f).Stake)) == 0 {
			return nil
		}
		v = f
	}
	votes := g.liveVotes(g.voter(v).Stake)
	n := rapid.IntRange(1, minInt(2, len(votes))).Draw(t, "nrenew")
	perm := rapid.Permutation(votes).Draw(t, "renewed")
	if lastChance {
		for i, dv := range perm {
			if len(dv.Info) > 0 && dv.Info[0].LockTime+1 == h {
				perm[0], perm[i] = perm[i], perm[0]
				break
			}
		}
	}
	perm = perm[:n]
	pl := &payload.Voting{}
	desc := ""
	for _, dv := range perm {
		old := dv.Info[0]
		nl := old.LockTime
		switch rapid.IntRange(0, 5).Draw(t, "renewclass") {
		case 0:
			// not later than before (rejected)
		case 1:
			nl = old.LockTime + 100000
		default:
			nl = old.LockTime + uint32(rapid.IntRange(1, 40).Draw(t, "renewby"))
		}
		votesAmt := old.Votes
		if rapid.IntRange(0, 7).Draw(t, "renewmore") == 0 {
			votesAmt += ELA // a renewal may not change the amount
		}
		pl.RenewalContents = append(pl.RenewalContents, payload.RenewalVotesContent{ReferKey: dv.ReferKey(),
			VotesInfo: payload.VotesWithLockTime{Candidate: old.Candidate, Votes: votesAmt, LockTime: nl}})
		desc += fmt.Sprintf("%d->%d ", old.LockTime, nl)
	}
	tx := k.VotingTx(g.voter(v), payload.RenewalVoteVersion, pl)
	return &cand{"renewvoting", tx, fmt.Sprintf("v%d", v), fmt.Sprintf("renewvoting(v%d,%s)", v, desc)}
}

func candReturnVotes(g *Gen, t *rapid.T, spent map[string]bool) *cand {
	k := g.K
	h := k.Height + 1
	if h < k.Params.DPoSV2StartHeight {
		return nil
	}
	st := k.Arbiters.State
	var have []int
	for v := 0; v < g.NVoters; v++ {
		if st.DposV2VoteRights[g.voter(v).Stake] > 0 {
			have = append(have, v)
		}
	}
	if len(have) == 0 {
		return nil
	}
	v := have[rapid.IntRange(0, len(have)-1).Draw(t, "retvoter")]
	if f := forcedIndex(g, 'v'); f >= 0 {
		v = f
	}
	voter := g.voter(v)
	free := st.DposV2VoteRights[voter.Stake] - st.UsedDposV2Votes[voter.Stake]
	fee := k.Params.CRConfiguration.RealWithdrawSingleFee
	var value common.Fixed64
	mode := ""
	switch rapid.IntRange(0, 5).Draw(t, "retmode") {
	case 0, 1:
		mode = "within"
		if free <= fee+1 {
			value = free
		} else {
			value = common.Fixed64(rapid.Int64Range(int64(fee)+1, int64(free)).Draw(t, "retvalue"))
		}
	case 2, 3:
		mode = "exact"
		value = free
	case 4:
		mode = "above-by-one"
		value = free + 1
	case 5:
		mode = "all-rights"
		value = st.DposV2VoteRights[voter.Stake]
	}
	if value <= 0 {
		value = fee + 1
	}
	return &cand{"returnvotes", k.ReturnVotesTx(voter, value), fmt.Sprintf("v%d", v),
		fmt.Sprintf("returnvotes(v%d,%s,value=%s,free=%s)", v, mode, value, free)}
}

// pickInputs selects unspent outpoints of addr (smallest set in drawn order)
// whose sum reaches want; all of them if want is not reachable.
func (g *Gen) pickInputs(t *rapid.T, addr common.Uint168, spent map[string]bool, want common.Fixed64, label string) ([]*common2.Input, common.Fixed64) {
	var recs []*OutRec
	for _, r := range g.K.UTXOs(addr) {
		if !spent[refKey(r)] {
			recs = append(recs, r)
		}
	}
	if len(recs) == 0 {
		return nil, 0
	}
	if len(recs) > 1 {
		recs = rapid.Permutation(recs).Draw(t, label)
	}
	var ins []*common2.Input
	var total common.Fixed64
	for _, r := range recs {
		ins = append(ins, inputOfRec(r))
		total += r.Out.Value
		if total >= want {
			break
		}
	}
	return ins, total
}

// returnAmount draws the amount to take out of a deposit address around the
// boundary `avail` the node reports; `loose` is what would be available if the
// penalty were ignored.
func returnAmount(t *rapid.T, avail, loose, balance common.Fixed64) (common.Fixed64, string) {
	pos := func(x common.Fixed64) common.Fixed64 {
		if x < 1 {
			return 1
		}
		return x
	}
	switch rapid.IntRange(0, 8).Draw(t, "takemode") {
	case 0, 1:
		return pos(avail), "exact"
	case 2:
		return pos(avail) + 1, "above-by-one"
	case 3:
		return pos(avail - 1), "below-by-one"
	case 4:
		return pos(loose), "ignoring-penalty"
	case 5:
		return pos(balance), "everything"
	case 6:
		return pos(avail) + common.Fixed64(rapid.Int64Range(1, int64(1000*ELA)).Draw(t, "excess")), "far-above"
	default:
		return common.Fixed64(rapid.Int64Range(1, int64(pos(avail))).Draw(t, "take")), "within"
	}
}

func returnOutputs(to, change common.Uint168, take, total common.Fixed64) []*common2.Output {
	fee := ELA / 100
	out := take - fee
	if out < 1 {
		out = 1
	}
	outs := []*common2.Output{elaOutput(to, out)}
	if total > take {
		outs = append(outs, elaOutput(change, total-take))
	}
	return outs
}

func candReturnDeposit2(g *Gen, t *rapid.T, spent map[string]bool) *cand {
	k := g.K
	i := g.pick(t, "ret2", func(i int, p *dstate.Producer) bool {
		return p != nil && len(k.UTXOs(g.owner(i).Deposit)) > 0
	})
	if f := forcedIndex(g, 'p'); f >= 0 {
		i = -1
		if p := g.producer(f); p != nil {
			i = f
		}
	}
	if i < 0 {
		return nil
	}
	p := g.producer(i)
	take, mode := returnAmount(t, p.AvailableAmount(), p.TotalAmount()-p.DepositAmount(), p.TotalAmount())
	ins, total := g.pickInputs(t, g.owner(i).Deposit, spent, take, "ret2ins")
	if len(ins) == 0 {
		return nil
	}
	if take > total {
		take = total
	}
	changeTo := g.owner(i).Deposit
	if total > take && g.NProducers > 1 && rapid.IntRange(0, 3).Draw(t, "ret2foreign") == 0 {
		// the "change" goes to ANOTHER producer's deposit address: coins that leave this deposit
		changeTo = g.owner((i + 1 + rapid.IntRange(0, g.NProducers-2).Draw(t, "ret2to")) % g.NProducers).Deposit
		mode += "/change-to-other-deposit"
	}
	tx := newTx(common2.TxVersion09, common2.ReturnDepositCoin, 0, &payload.ReturnDepositCoin{}, ins,
		returnOutputs(g.owner(i).Standard, changeTo, take, total), []*program.Program{prog(g.owner(i))})
	return &cand{"returndeposit2", tx, fmt.Sprintf("p%d", i),
		fmt.Sprintf("returndeposit2(p%d,%s,take=%s,in=%s,avail=%s,state=%s)", i, mode, take, total, p.AvailableAmount(), p.State())}
}

func candReturnCRDeposit2(g *Gen, t *rapid.T, spent map[string]bool) *cand {
	k := g.K
	if k.Height+1 < k.Params.CRConfiguration.CRVotingStartHeight {
		return nil
	}
	var idx []int
	for i := 0; i < g.nCR(); i++ {
		if k.Committee.Exist(g.crKey(i).CID) && len(k.UTXOs(g.crKey(i).Deposit)) > 0 {
			idx = append(idx, i)
		}
	}
	if len(idx) == 0 {
		return nil
	}
	i := idx[rapid.IntRange(0, len(idx)-1).Draw(t, "retcr2")]
	if f := forcedIndex(g, 'c'); f >= 0 {
		i = -1
		for _, x := range idx {
			if x == f {
				i = f
			}
		}
		if i < 0 {
			return nil
		}
	}
	key := g.crKey(i)
	avail, penalty, _, totalAmt, err := k.Committee.GetDepositAmountByID(key.CID)
	if err != nil {
		return nil
	}
	take, mode := returnAmount(t, avail, avail+penalty, totalAmt)
	ins, total := g.pickInputs(t, key.Deposit, spent, take, "retcr2ins")
	if len(ins) == 0 {
		return nil
	}
	if take > total {
		take = total
	}
	changeTo := key.Deposit
	if total > take && g.nCR() > 1 && rapid.IntRange(0, 3).Draw(t, "retcr2foreign") == 0 {
		changeTo = g.crKey((i + 1 + rapid.IntRange(0, g.nCR()-2).Draw(t, "retcr2to")) % g.nCR()).Deposit
		mode += "/change-to-other-deposit"
	}
	tx := newTx(common2.TxVersion09, common2.ReturnCRDepositCoin, 0, &payload.ReturnDepositCoin{}, ins,
		returnOutputs(key.Standard, changeTo, take, total), []*program.Program{prog(key)})
	return &cand{"returncrdeposit2", tx, fmt.Sprintf("c%d", i),
		fmt.Sprintf("returncrdeposit2(c%d,%s,take=%s,in=%s,avail=%s)", i, mode, take, total, avail)}
}

func candTopupCR(g *Gen, t *rapid.T, spent map[string]bool) *cand {
	k := g.K
	if k.Height+1 < k.Params.CRConfiguration.CRVotingStartHeight {
		return nil
	}
	i := rapid.IntRange(0, g.nCR()-1).Draw(t, "topcr")
	amount := common.Fixed64(rapid.Int64Range(1, int64(2000*ELA)).Draw(t, "amount"))
	v := rapid.IntRange(0, g.NVoters-1).Draw(t, "payer")
	tx := k.TransferTx(g.voter(v), nil, []*common2.Output{elaOutput(g.crKey(i).Deposit, amount)})
	return &cand{"topupcr", tx, fmt.Sprintf("pay%d", v), fmt.Sprintf("topupcr(c%d,%s)", i, amount)}
}
