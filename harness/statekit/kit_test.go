package statekit

import (
	"testing"

	"github.com/elastos/Elastos.ELA/core/types/interfaces"
	"github.com/elastos/Elastos.ELA/core/types/outputpayload"
)

// smoke test of the kit itself (not a property check)
func TestKitSmoke(t *testing.T) {
	p := DefaultProfile()
	k := New(p)
	defer k.Close()
	// feed empty blocks up to VoteStart-1
	for k.Height+1 < p.VoteStart {
		k.Process(k.NewBlock(nil), nil)
	}
	var txs []interfaces.Transaction
	for i := 0; i < 5; i++ {
		tx := k.RegisterProducerTx(K(KeyOwnerBase+i), K(KeyNodeBase+i), "p"+string(rune('a'+i)), 5000*ELA, 0)
		if err := k.CheckTx(tx, 0, 0); err != nil {
			t.Fatalf("register rejected: %v", err)
		}
		txs = append(txs, tx)
	}
	b := k.NewBlock(txs)
	if err := k.CheckBlock(b); err != nil {
		t.Fatalf("block rejected: %v", err)
	}
	k.Process(b, nil)
	if n := len(k.Arbiters.State.PendingProducers); n != 5 {
		t.Fatalf("pending %d", n)
	}
	for i := 0; i < 6; i++ {
		k.Process(k.NewBlock(nil), nil)
	}
	if n := len(k.Arbiters.State.ActivityProducers); n != 5 {
		t.Fatalf("active %d", n)
	}
	// duplicate register must be rejected by the node's own check
	if err := k.CheckTx(k.RegisterProducerTx(K(KeyOwnerBase), K(KeyNodeBase+9), "zz", 5000*ELA, 0), 0, 0); err == nil {
		t.Fatalf("duplicate owner accepted")
	}
	var vtx []interfaces.Transaction
	for i := 0; i < 5; i++ {
		tx := k.VoteTx(K(KeyVoterBase+i), 100*ELA, outputpayload.VoteProducerVersion, []outputpayload.VoteContent{{
			VoteType: outputpayload.Delegate, CandidateVotes: []outputpayload.CandidateVotes{{Candidate: K(KeyOwnerBase + i).PK}}}}, nil)
		if err := k.CheckTx(tx, 0, 0); err != nil {
			t.Fatalf("vote rejected: %v", err)
		}
		vtx = append(vtx, tx)
	}
	k.Process(k.NewBlock(vtx), nil)
	for k.Height < p.PublicDPOS+8 {
		k.Process(k.NewBlock(nil), nil)
	}
	t.Logf("height %d arbiters %d crc %d duty %d", k.Height, len(k.Arbiters.CurrentArbitrators), len(k.Arbiters.CurrentCRCArbitersMap), k.Arbiters.DutyIndex)
	if len(k.Arbiters.CurrentArbitrators) != p.NCRC+p.NNormal {
		t.Fatalf("arbiters %d", len(k.Arbiters.CurrentArbitrators))
	}
	if err := k.RollbackTo(p.PublicDPOS - 1); err != nil {
		t.Fatalf("rollback: %v", err)
	}
	for k.Height < p.PublicDPOS+8 {
		k.Replay()
	}
}
