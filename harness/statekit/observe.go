package statekit

import (
	dstate "github.com/elastos/Elastos.ELA/dpos/state"
	"verifharness/lib/canon"
)

// DPoSObs is what "the DPoS/arbiter state" means for the equivalence checks:
//
//	Live        every field of the live Arbiters object (State, StateKeyFrame,
//	            degradation, reward bookkeeping, arbiter lists), unexported ones
//	            included; caches, callbacks, locks, histories and configuration
//	            are skipped (DPoSSkipFields)
//	Checkpoint  the checkpoint the node would persist now
//	            (dpos/state.NewCheckpoint(arbiters).Snapshot(): Serialize +
//	            Deserialize of the full state)
//	Frame       Arbiters.Snapshot(), the frame served by GetSnapshot
type DPoSObs struct {
	Live       *canon.Node
	Checkpoint *canon.Node
	Frame      *canon.Node
}

// DPoSSkipFields are the fields of the live objects that are not state:
// per-height snapshot cache (kept across rollbacks by design: one frame list
// per height for fork handling), static configuration, wiring, scratch.
var DPoSSkipFields = []string{
	"Arbiters.Snapshots", "Arbiters.SnapshotKeysDesc", "Arbiters.BlockConfirmProposalSponsors",
	"Arbiters.ChainParams", "Arbiters.CRCommittee", "Arbiters.CkpManager", "Arbiters.started",
	"State.ChainParams", "State.LastRenewalDPoSV2Votes",
	"CheckPoint.arbitrators",
}

// DPoSOptions are the canon options of DPoS state dumps.
func DPoSOptions() *canon.Options {
	return &canon.Options{SkipFields: DPoSSkipFields, SkipTypes: []string{
		"github.com/elastos/Elastos.ELA/common/config.Configuration",
		"github.com/elastos/Elastos.ELA/core/checkpoint.Manager",
		"github.com/elastos/Elastos.ELA/cr/state.Committee",
	}}
}

// ObserveDPoS dumps the DPoS state of the kit.
func (k *Kit) ObserveDPoS() *DPoSObs {
	k.Activate()
	o := DPoSOptions()
	return &DPoSObs{
		Live:       o.Dump(k.Arbiters),
		Checkpoint: o.Dump(dstate.NewCheckpoint(k.Arbiters).Snapshot()),
		Frame:      o.Dump(k.Arbiters.Snapshot()),
	}
}

// ProducerMapsConsistent checks the representation invariant of the producer
// maps of the DPoS state: every owner key is in exactly one of the five state
// maps, its state field matches the map, PendingCanceled is a subset of
// Canceled.  Two state transitions of one producer in one block (e.g. cancel
// in the block that auto-activates it) break it in forward processing.
func (k *Kit) ProducerMapsConsistent() (bool, string) {
	s := k.Arbiters.State.StateKeyFrame
	seen := map[string]string{}
	check := func(name string, m map[string]*dstate.Producer, ok func(dstate.ProducerState) bool) string {
		for key, p := range m {
			if prev, dup := seen[key]; dup {
				return "producer " + key[:8] + " in " + prev + " and " + name
			}
			seen[key] = name
			if !ok(p.State()) {
				return "producer " + key[:8] + " in " + name + " has state " + p.State().String()
			}
		}
		return ""
	}
	for _, c := range []struct {
		name string
		m    map[string]*dstate.Producer
		ok   func(dstate.ProducerState) bool
	}{
		{"PendingProducers", s.PendingProducers, func(st dstate.ProducerState) bool { return st == dstate.Pending }},
		{"ActivityProducers", s.ActivityProducers, func(st dstate.ProducerState) bool { return st == dstate.Active }},
		{"InactiveProducers", s.InactiveProducers, func(st dstate.ProducerState) bool { return st == dstate.Inactive }},
		{"CanceledProducers", s.CanceledProducers, func(st dstate.ProducerState) bool { return st == dstate.Canceled || st == dstate.Returned }},
		{"IllegalProducers", s.IllegalProducers, func(st dstate.ProducerState) bool { return st == dstate.Illegal }},
	} {
		if why := check(c.name, c.m, c.ok); why != "" {
			return false, why
		}
	}
	for key := range s.PendingCanceledProducers {
		if seen[key] != "CanceledProducers" {
			return false, "producer " + key[:8] + " in PendingCanceledProducers but not in CanceledProducers"
		}
	}
	return true, ""
}

// CRObs is the CR committee state for the equivalence checks: Live = every
// field of the live Committee (KeyFrame, State.StateKeyFrame, ProposalManager),
// Frame = Committee.Snapshot() (the three key frames a checkpoint persists).
type CRObs struct {
	Live  *canon.Node
	Frame *canon.Node
}

// CRSkipFields are wiring / configuration fields of the committee objects.
var CRSkipFields = []string{
	"Committee.Params", "Committee.CkpManager",
	"State.params", "ProposalManager.params",
}

// CROptions are the canon options of CR state dumps.
func CROptions() *canon.Options {
	return &canon.Options{SkipFields: CRSkipFields, SkipTypes: []string{
		"github.com/elastos/Elastos.ELA/common/config.Configuration",
		"github.com/elastos/Elastos.ELA/core/checkpoint.Manager",
	}}
}

// ObserveCR dumps the CR committee state of the kit.
func (k *Kit) ObserveCR() *CRObs {
	k.Activate()
	o := CROptions()
	return &CRObs{Live: o.Dump(k.Committee), Frame: o.Dump(k.Committee.Snapshot())}
}
