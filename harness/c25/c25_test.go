// C25 - a block confirmation needs a two-thirds quorum of distinct current arbiters.
//
// The real blockchain.ConfirmSanityCheck + ConfirmContextCheck (the two checks
// a block confirmation passes: mempool.BlockPool.AppendConfirm, then
// BlockChain.ProcessBlock/checkBlockWithConfirmation) run against a real
// state.Arbiters whose CurrentArbitrators are generated (origin, CR normal, CR
// abnormal members), with real P-256 signatures from a deterministic key pool.
// The oracle is the statement-derived predicate, evaluated from the way the
// case was constructed and cross-checked with an independent ECDSA verifier.
package c25

import (
	"bytes"
	"crypto/ecdsa"
	"crypto/elliptic"
	"crypto/sha256"
	"encoding/binary"
	"encoding/hex"
	"encoding/json"
	"fmt"
	"math/big"
	"testing"

	"github.com/elastos/Elastos.ELA/blockchain"
	"github.com/elastos/Elastos.ELA/common"
	"github.com/elastos/Elastos.ELA/common/config"
	"github.com/elastos/Elastos.ELA/core/types/payload"
	crstate "github.com/elastos/Elastos.ELA/cr/state"
	"github.com/elastos/Elastos.ELA/crypto"
	"github.com/elastos/Elastos.ELA/dpos/state"
	"pgregory.net/rapid"
	"verifharness/lib/vk"
)

func TestMain(m *testing.M) {
	vk.Main(m, "C25")
}

// ---------------------------------------------------------------- key pool

type key struct {
	priv []byte
	pub  []byte // 33-byte compressed
	x, y *big.Int
}

const poolSize = 96

var pool = func() []key {
	ks := make([]key, poolSize)
	curve := elliptic.P256()
	for i := range ks {
		h := sha256.Sum256([]byte(fmt.Sprintf("verif-c25-key-%d", i)))
		d := new(big.Int).SetBytes(h[:])
		d.Mod(d, new(big.Int).Sub(curve.Params().N, big.NewInt(1)))
		d.Add(d, big.NewInt(1))
		priv := make([]byte, 32)
		d.FillBytes(priv)
		x, y := curve.ScalarBaseMult(priv)
		ks[i] = key{priv: priv, pub: elliptic.MarshalCompressed(curve, x, y), x: x, y: y}
	}
	return ks
}()

// negated returns the key pair (N-d, (x,-y)): its compressed encoding differs
// from k's only in the parity prefix, and it produces valid signatures - but it
// is a different key, not the arbiter's.
func (k *key) negated() *key {
	curve := elliptic.P256()
	d := new(big.Int).Sub(curve.Params().N, new(big.Int).SetBytes(k.priv))
	priv := make([]byte, 32)
	d.FillBytes(priv)
	y := new(big.Int).Sub(curve.Params().P, k.y)
	return &key{priv: priv, pub: elliptic.MarshalCompressed(curve, k.x, y), x: k.x, y: y}
}

// altEncoding is the 65-byte encoding prefix || x || y of k's public key.
func (k *key) altEncoding(prefix byte) []byte {
	out := make([]byte, 65)
	out[0] = prefix
	k.x.FillBytes(out[1:33])
	k.y.FillBytes(out[33:])
	return out
}

func sign(k *key, data []byte) []byte {
	s, err := crypto.Sign(k.priv, data)
	if err != nil {
		panic("harness: sign: " + err.Error())
	}
	return s
}

// refVerify is an ECDSA verifier independent of the node's crypto package.
func refVerify(pub []byte, data, sig []byte) bool {
	if len(sig) != 64 {
		return false
	}
	var x, y *big.Int
	switch {
	case len(pub) == 33 && (pub[0] == 2 || pub[0] == 3):
		x, y = elliptic.UnmarshalCompressed(elliptic.P256(), pub)
	case len(pub) == 65 && (pub[0] == 4 || pub[0] == 6 || pub[0] == 7):
		// the node's decoder (crypto.DecodePoint) takes x and y as they are for all three prefixes
		x, y = new(big.Int).SetBytes(pub[1:33]), new(big.Int).SetBytes(pub[33:])
		if !elliptic.P256().IsOnCurve(x, y) {
			x = nil
		}
	}
	if x == nil {
		return false
	}
	d := sha256.Sum256(data)
	return ecdsa.Verify(&ecdsa.PublicKey{Curve: elliptic.P256(), X: x, Y: y}, d[:],
		new(big.Int).SetBytes(sig[:32]), new(big.Int).SetBytes(sig[32:]))
}

// reference serialisations of the signed data (written from the wire format)
func varBytes(b []byte) []byte {
	var out []byte
	switch n := len(b); {
	case n < 0xfd:
		out = []byte{byte(n)}
	default:
		out = []byte{0xfd, byte(n), byte(n >> 8)}
	}
	return append(out, b...)
}

func proposalData(sponsor []byte, blockHash common.Uint256, viewOffset uint32) []byte {
	out := varBytes(sponsor)
	out = append(out, blockHash[:]...)
	return binary.LittleEndian.AppendUint32(out, viewOffset)
}

func voteData(proposalHash common.Uint256, signer []byte, accept bool) []byte {
	out := append([]byte{}, proposalHash[:]...)
	out = append(out, varBytes(signer)...)
	if accept {
		return append(out, 1)
	}
	return append(out, 0)
}

func dhash(b []byte) common.Uint256 {
	a := sha256.Sum256(b)
	return common.Uint256(sha256.Sum256(a[:]))
}

// ---------------------------------------------------------------- case

type arbiterSpec struct {
	Key  int    `json:"key"`
	Kind string `json:"kind"` // origin | crc | crc-abnormal
}

type voteSpec struct {
	Kind   string `json:"kind"`
	Key    int    `json:"key"`
	Signer string `json:"signer"`
	Accept bool   `json:"accept"`
	// facts by construction
	hashOK, sigOK bool
	// alt: Signer is an uncompressed / hybrid (04/06/07 || x || y) encoding of arbiter key Key. crypto.DecodePoint
	// accepts all of them for the same point, so ONE arbiter can present up to four byte-distinct signers.
	alt bool
}

type confirmSpec struct {
	SponsorKind string     `json:"sponsor_kind"`
	SponsorKey  int        `json:"sponsor_key"`
	PropSig     string     `json:"proposal_signature"`
	Votes       []voteSpec `json:"votes"`
	Distinct    int        `json:"distinct_valid_signers"`

	sponsorIsNormalArbiter, propSigOK bool
	wire                              []byte
	// mem: set when a vote carries a 65-byte signer.  Every decoder of a vote bounds the signer to 33 bytes, so such
	// a confirmation cannot arrive from the network; it is handed to the validators as the in-memory value instead
	// (the validators' own contract, not the wire's, is what the statement is about).
	mem      *payload.Confirm
	InMemory bool `json:"in_memory_only,omitempty"`
}

type caseV struct {
	N        int           `json:"n"`
	Arbiters []arbiterSpec `json:"arbiters"`
	Thr      int           `json:"threshold_floor_2n_3"`
	A        *confirmSpec  `json:"confirm"`
	B        *confirmSpec  `json:"second_confirm,omitempty"`
}

func genN(t *rapid.T) int {
	max := 72
	switch rapid.IntRange(0, 5).Draw(t, "nkind") {
	case 0:
		return rapid.SampledFrom([]int{1, 2, 3, 4, 5, 6, 7, 12, 24, 36, 72}).Draw(t, "nCommon")
	case 1, 2:
		return rapid.IntRange(1, 12).Draw(t, "nSmall")
	}
	return rapid.IntRange(1, max).Draw(t, "n")
}

type world struct {
	arbiters  []arbiterSpec
	normalIdx []int // indexes into arbiters of members allowed to sponsor/vote
	abnormal  []int
	foreign   []int // pool keys that are no arbiter
	byKey     map[string]int
	real      *state.Arbiters
	thr       int
}

func genWorld(t *rapid.T) *world {
	n := genN(t)
	rot := rapid.IntRange(0, poolSize-1).Draw(t, "rot")
	w := &world{byKey: map[string]int{}}
	abnormalRate := rapid.SampledFrom([]int{0, 0, 0, 1, 3}).Draw(t, "abnormalRate")
	members := make([]state.ArbiterMember, 0, n)
	for i := 0; i < n; i++ {
		k := (rot + i) % poolSize
		kind := "origin"
		r := rapid.IntRange(0, 9).Draw(t, "kind")
		switch {
		case r < abnormalRate:
			kind = "crc-abnormal"
		case r < 5:
			kind = "crc"
		}
		var m state.ArbiterMember
		var err error
		if kind == "origin" {
			m, err = state.NewOriginArbiter(pool[k].pub)
		} else {
			m, err = state.NewCRCArbiter(pool[k].pub, pool[(k+1)%poolSize].pub, &crstate.CRMember{DPOSPublicKey: pool[k].pub}, kind == "crc")
		}
		if err != nil {
			t.Fatalf("harness: arbiter member: %v", err)
		}
		members = append(members, m)
		w.arbiters = append(w.arbiters, arbiterSpec{k, kind})
		w.byKey[string(pool[k].pub)] = i
		if kind == "crc-abnormal" {
			w.abnormal = append(w.abnormal, i)
		} else {
			w.normalIdx = append(w.normalIdx, i)
		}
	}
	for i := n; i < poolSize && len(w.foreign) < 8; i++ {
		w.foreign = append(w.foreign, (rot+i)%poolSize)
	}
	params := config.GetDefaultParams()
	w.real = &state.Arbiters{ChainParams: params, CurrentArbitrators: members}
	w.thr = 2 * n / 3
	return w
}

// genConfirm builds one confirmation.  preferred (may be nil) lists arbiter
// indexes to take signers from first (used to minimise the overlap of a pair).
//
// forceHonest: honest proposal, a quorum of honest votes, at most harmless
// duplicates (used for pairs, where both confirmations should be acceptable).
func genConfirm(t *rapid.T, w *world, label string, preferred []int, forceHonest bool) *confirmSpec {
	c := &confirmSpec{}
	n := len(w.arbiters)
	// three quarters of the confirmations carry an honest proposal so that the
	// verdict is decided by the votes
	honestProposal := forceHonest || rapid.IntRange(0, 3).Draw(t, label+"proposalProfile") != 3

	// ---- proposal
	var sponsor []byte
	var sponsorKey *key
	sk := 19
	if !honestProposal {
		sk = rapid.IntRange(0, 5).Draw(t, label+"sponsorKind")
	}
	switch {
	case sk == 0 && len(w.abnormal) > 0:
		c.SponsorKind = "abnormal-arbiter"
		c.SponsorKey = w.arbiters[w.abnormal[rapid.IntRange(0, len(w.abnormal)-1).Draw(t, label+"sa")]].Key
	case sk == 1:
		c.SponsorKind = "foreign"
		c.SponsorKey = w.foreign[rapid.IntRange(0, len(w.foreign)-1).Draw(t, label+"sf")]
	case sk == 2 && len(w.normalIdx) > 0:
		c.SponsorKind = "arbiter-key-negated"
		c.SponsorKey = w.arbiters[w.normalIdx[rapid.IntRange(0, len(w.normalIdx)-1).Draw(t, label+"su")]].Key
	case len(w.normalIdx) > 0:
		c.SponsorKind = "arbiter"
		c.SponsorKey = w.arbiters[w.normalIdx[rapid.IntRange(0, len(w.normalIdx)-1).Draw(t, label+"sn")]].Key
	default:
		c.SponsorKind = "foreign"
		c.SponsorKey = w.foreign[0]
	}
	sponsorKey = &pool[c.SponsorKey]
	sponsor = sponsorKey.pub
	if c.SponsorKind == "arbiter-key-negated" {
		sponsorKey = sponsorKey.negated()
		sponsor = sponsorKey.pub
	}
	c.sponsorIsNormalArbiter = c.SponsorKind == "arbiter"
	var blockHash common.Uint256
	copy(blockHash[:], rapid.SliceOfN(rapid.Byte(), 32, 32).Draw(t, label+"blockHash"))
	viewOffset := rapid.Uint32().Draw(t, label+"viewOffset")
	pdata := proposalData(sponsor, blockHash, viewOffset)
	proposalHash := dhash(pdata)
	var psig []byte
	c.PropSig = "valid"
	c.propSigOK = true
	ps := 9
	if !honestProposal {
		ps = rapid.IntRange(0, 5).Draw(t, label+"propSig")
	}
	switch ps {
	case 0:
		c.PropSig, c.propSigOK = "signed-by-other-key", false
		psig = sign(&pool[(c.SponsorKey+7)%poolSize], pdata)
	case 1:
		c.PropSig, c.propSigOK = "bit-flipped", false
		psig = sign(sponsorKey, pdata)
		psig[rapid.IntRange(0, 63).Draw(t, label+"flipAt")] ^= 1 << rapid.IntRange(0, 7).Draw(t, label+"flipBit")
	case 2:
		c.PropSig, c.propSigOK = "signed-other-view-offset", false
		psig = sign(sponsorKey, proposalData(sponsor, blockHash, viewOffset+1))
	case 3:
		c.PropSig, c.propSigOK = "short", false
		psig = sign(sponsorKey, pdata)[:rapid.SampledFrom([]int{0, 1, 32, 63}).Draw(t, label+"short")]
	default:
		psig = sign(sponsorKey, pdata)
	}

	// ---- honest part: k distinct accepting votes of normal arbiters
	order := append([]int{}, preferred...)
	seen := map[int]bool{}
	for _, i := range preferred {
		seen[i] = true
	}
	rest := []int{}
	for _, i := range w.normalIdx {
		if !seen[i] {
			rest = append(rest, i)
		}
	}
	if len(rest) > 1 {
		rest = rapid.Permutation(rest).Draw(t, label+"perm")
	}
	if preferred == nil {
		order = rest
	} else {
		// preferred first (those are the ones the other confirmation did not use)
		order = append(order, rest...)
	}
	var k int
	kk := rapid.IntRange(0, 9).Draw(t, label+"kKind")
	if forceHonest {
		kk = rapid.SampledFrom([]int{9, 9, 5, 1, 10}).Draw(t, label+"kKindHonest")
	}
	switch kk {
	case 10:
		k = rapid.IntRange(w.thr+1, n).Draw(t, label+"kQuorum")
	case 0:
		k = rapid.IntRange(0, n).Draw(t, label+"kAny")
	case 1:
		k = n
	case 2, 3:
		k = w.thr
	case 4:
		k = w.thr - 1
	case 5:
		k = w.thr + 2
	default:
		k = w.thr + 1
	}
	if k < 0 {
		k = 0
	}
	if k > len(order) {
		k = len(order)
	}
	type built struct {
		spec voteSpec
		v    payload.DPOSProposalVote
	}
	var votes []built
	mk := func(kind string, ki int, signer []byte, ph common.Uint256, accept bool, signWith *key, signData []byte) built {
		if signData == nil {
			signData = voteData(ph, signer, accept)
		}
		sig := sign(signWith, signData)
		return built{
			spec: voteSpec{Kind: kind, Key: ki, Signer: hex.EncodeToString(signer[:4]), Accept: accept,
				hashOK: ph == proposalHash, sigOK: true},
			v: payload.DPOSProposalVote{ProposalHash: ph, Signer: signer, Accept: accept, Sign: sig},
		}
	}
	for _, ai := range order[:k] {
		ki := w.arbiters[ai].Key
		votes = append(votes, mk("accept", ki, pool[ki].pub, proposalHash, true, &pool[ki], nil))
	}

	// ---- adversarial additions
	nadv := rapid.SampledFrom([]int{0, 0, 0, 1, 1, 2, 3}).Draw(t, label+"nadv")
	if forceHonest && nadv > 0 && len(votes) > 0 {
		// harmless duplicates of honest votes only
		for i := 0; i < nadv; i++ {
			src := votes[rapid.IntRange(0, len(votes)-1).Draw(t, label+"hdupOf")]
			if src.spec.Kind != "accept" {
				continue
			}
			ki := src.spec.Key
			if rapid.Bool().Draw(t, label+"hresign") {
				votes = append(votes, mk("duplicate-resigned", ki, pool[ki].pub, proposalHash, true, &pool[ki], nil))
			} else {
				src.spec.Kind = "duplicate-identical"
				votes = append(votes, src)
			}
		}
		nadv = 0
	}
	// "stuffing": try to reach the vote count of a quorum with duplicates only
	if k > 0 && k <= w.thr && rapid.IntRange(0, 2).Draw(t, label+"stuff") == 0 {
		need := w.thr + 1 - k + rapid.IntRange(0, 2).Draw(t, label+"stuffExtra")
		for i := 0; i < need; i++ {
			src := votes[rapid.IntRange(0, k-1).Draw(t, label+"dupOf")]
			if rapid.IntRange(0, 2).Draw(t, label+"stuffAlt") == 0 {
				ki := src.spec.Key
				signer := pool[ki].altEncoding(rapid.SampledFrom([]byte{4, 6, 7}).Draw(t, label+"altPrefix"))
				b := mk("alt-encoding-signer", ki, signer, proposalHash, true, &pool[ki], nil)
				b.spec.alt = true
				votes = append(votes, b)
			} else if rapid.Bool().Draw(t, label+"resign") {
				ki := src.spec.Key
				votes = append(votes, mk("duplicate-resigned", ki, pool[ki].pub, proposalHash, true, &pool[ki], nil))
			} else {
				d := src
				d.spec.Kind = "duplicate-identical"
				votes = append(votes, d)
			}
		}
	}
	var otherHash common.Uint256
	copy(otherHash[:], proposalHash[:])
	otherHash[rapid.IntRange(0, 31).Draw(t, label+"ohAt")] ^= 0x40
	anyArb := func() int { return w.arbiters[rapid.IntRange(0, n-1).Draw(t, label+"anyArb")].Key }
	for i := 0; i < nadv; i++ {
		kind := rapid.SampledFrom([]string{"duplicate-resigned", "duplicate-identical", "reject", "foreign-signer",
			"abnormal-signer", "wrong-proposal-hash", "bad-signature", "signed-by-other-key", "negated-key-signer",
			"short-signature", "garbage-signer", "accept-flag-flipped", "alt-encoding-signer"}).Draw(t, label+"advKind")
		if len(w.abnormal) > 0 && rapid.IntRange(0, 3).Draw(t, label+"preferAbnormal") == 0 {
			kind = "abnormal-signer"
		}
		switch kind {
		case "duplicate-resigned", "duplicate-identical":
			if len(votes) == 0 {
				continue
			}
			src := votes[rapid.IntRange(0, len(votes)-1).Draw(t, label+"dupOf2")]
			if kind == "duplicate-identical" || src.spec.Kind != "accept" {
				d := src
				if d.spec.Kind == "accept" {
					d.spec.Kind = "duplicate-identical"
				}
				votes = append(votes, d)
			} else {
				ki := src.spec.Key
				votes = append(votes, mk(kind, ki, pool[ki].pub, proposalHash, true, &pool[ki], nil))
			}
		case "reject":
			ki := anyArb()
			votes = append(votes, mk(kind, ki, pool[ki].pub, proposalHash, false, &pool[ki], nil))
		case "foreign-signer":
			ki := w.foreign[rapid.IntRange(0, len(w.foreign)-1).Draw(t, label+"fs")]
			votes = append(votes, mk(kind, ki, pool[ki].pub, proposalHash, true, &pool[ki], nil))
		case "abnormal-signer":
			if len(w.abnormal) == 0 {
				continue
			}
			ki := w.arbiters[w.abnormal[rapid.IntRange(0, len(w.abnormal)-1).Draw(t, label+"ab")]].Key
			votes = append(votes, mk(kind, ki, pool[ki].pub, proposalHash, true, &pool[ki], nil))
		case "wrong-proposal-hash":
			ki := anyArb()
			votes = append(votes, mk(kind, ki, pool[ki].pub, otherHash, true, &pool[ki], nil))
		case "bad-signature":
			ki := anyArb()
			b := mk(kind, ki, pool[ki].pub, proposalHash, true, &pool[ki], nil)
			b.v.Sign[rapid.IntRange(0, 63).Draw(t, label+"vflipAt")] ^= 1 << rapid.IntRange(0, 7).Draw(t, label+"vflipBit")
			b.spec.sigOK = false
			votes = append(votes, b)
		case "signed-by-other-key":
			ki := anyArb()
			b := mk(kind, ki, pool[ki].pub, proposalHash, true, &pool[(ki+1)%poolSize], nil)
			b.spec.sigOK = false
			votes = append(votes, b)
		case "accept-flag-flipped":
			// an arbiter's validly signed REJECT vote relabelled as accept
			ki := anyArb()
			b := mk(kind, ki, pool[ki].pub, proposalHash, true, &pool[ki], voteData(proposalHash, pool[ki].pub, false))
			b.spec.sigOK = false
			votes = append(votes, b)
		case "alt-encoding-signer":
			ki := anyArb()
			signer := pool[ki].altEncoding(rapid.SampledFrom([]byte{4, 6, 7}).Draw(t, label+"altPrefix2"))
			b := mk(kind, ki, signer, proposalHash, true, &pool[ki], nil)
			b.spec.alt = true
			votes = append(votes, b)
		case "negated-key-signer":
			ki := anyArb()
			nk := pool[ki].negated()
			votes = append(votes, mk(kind, ki, nk.pub, proposalHash, true, nk, nil))
		case "short-signature":
			ki := anyArb()
			b := mk(kind, ki, pool[ki].pub, proposalHash, true, &pool[ki], nil)
			b.v.Sign = b.v.Sign[:rapid.SampledFrom([]int{0, 1, 63}).Draw(t, label+"vshort")]
			b.spec.sigOK = false
			votes = append(votes, b)
		case "garbage-signer":
			ki := anyArb()
			signer := rapid.SliceOfN(rapid.Byte(), 0, 33).Draw(t, label+"garbage")
			if _, isArb := w.byKey[string(signer)]; isArb {
				continue
			}
			b := mk(kind, ki, signer, proposalHash, true, &pool[ki], nil)
			b.spec.sigOK = false
			votes = append(votes, b)
		}
	}
	if len(votes) > 1 {
		perm := rapid.Permutation(seq(len(votes))).Draw(t, label+"voteOrder")
		sh := make([]built, len(votes))
		for i, p := range perm {
			sh[i] = votes[p]
		}
		votes = sh
	}

	conf := payload.Confirm{Proposal: payload.DPOSProposal{Sponsor: sponsor, BlockHash: blockHash, ViewOffset: viewOffset, Sign: psig}}
	for _, b := range votes {
		conf.Votes = append(conf.Votes, b.v)
		c.Votes = append(c.Votes, b.spec)
	}
	buf := new(bytes.Buffer)
	if err := conf.Serialize(buf); err != nil {
		t.Fatalf("harness: serialize confirm: %v", err)
	}
	c.wire = buf.Bytes()
	for _, b := range votes {
		if b.spec.alt {
			cp := conf
			c.mem, c.InMemory = &cp, true
			break
		}
	}

	// harness self-check: the by-construction facts agree with the independent verifier
	if refVerify(sponsor, pdata, psig) != c.propSigOK {
		t.Fatalf("harness: proposal signature label %q disagrees with the reference verifier", c.PropSig)
	}
	for i, b := range votes {
		if got := refVerify(b.v.Signer, voteData(b.v.ProposalHash, b.v.Signer, b.v.Accept), b.v.Sign); got != b.spec.sigOK {
			t.Fatalf("harness: vote %d label %q sigOK=%v disagrees with the reference verifier", i, b.spec.Kind, b.spec.sigOK)
		}
	}
	return c
}

func seq(n int) []int {
	s := make([]int, n)
	for i := range s {
		s[i] = i
	}
	return s
}

// oracle: the statement's predicate.  Returns "" when the confirmation must be
// accepted, else the first clause that forbids it; also the set of distinct
// valid signers (arbiter indexes).
//
// Votes whose signer is an alternative ENCODING of an arbiter's key admit two
// readings that both satisfy the statement: "not an arbiter's key bytes" (what
// the pinned node does: the confirmation is refused) and "that arbiter" (counted
// once, by identity).  strict is the first reading and decides which refusals are
// wrong; lenient is the second and decides which acceptances are wrong.  Without
// such votes the two coincide.
func oracle(w *world, c *confirmSpec, conf *payload.Confirm) (strict, lenient string, lenientSigners map[int]bool) {
	signers := map[int]bool{}
	lenientSigners = map[int]bool{}
	reason := ""
	set := func(r string) {
		if reason == "" {
			reason = r
		}
		if lenient == "" {
			lenient = r
		}
	}
	setStrict := func(r string) {
		if reason == "" {
			reason = r
		}
	}
	setLenient := func(r string) {
		if lenient == "" {
			lenient = r
		}
	}
	if !c.sponsorIsNormalArbiter {
		set("sponsor-not-current-arbiter")
	}
	if !c.propSigOK {
		set("proposal-signature-invalid")
	}
	for i, v := range conf.Votes {
		s := c.Votes[i]
		switch {
		case !v.Accept:
			set("reject-vote")
		case !s.hashOK:
			set("vote-for-other-proposal")
		case !s.sigOK:
			set("vote-signature-invalid")
		default:
			ai, isArb := w.byKey[string(v.Signer)]
			if !isArb && s.alt {
				setStrict("vote-by-non-arbiter")
				if li, ok := w.byKey[string(pool[s.Key].pub)]; !ok {
					setLenient("vote-by-non-arbiter")
				} else if w.arbiters[li].Kind == "crc-abnormal" {
					setLenient("vote-by-abnormal-arbiter")
				} else {
					lenientSigners[li] = true
				}
				continue
			}
			switch {
			case !isArb:
				set("vote-by-non-arbiter")
			case w.arbiters[ai].Kind == "crc-abnormal":
				set("vote-by-abnormal-arbiter")
			default:
				signers[ai] = true
				lenientSigners[ai] = true
			}
		}
	}
	c.Distinct = len(signers)
	if len(signers) <= w.thr {
		setStrict("no-two-thirds-quorum-of-distinct-arbiters")
	}
	if len(lenientSigners) <= w.thr {
		setLenient("no-two-thirds-quorum-of-distinct-arbiters")
	}
	return reason, lenient, lenientSigners
}

// evaluate runs the node's checks on the wire form of the confirmation.
func evaluate(t *rapid.T, w *world, cv *caseV, c *confirmSpec) (accepted bool, signers map[int]bool, ok bool) {
	var conf payload.Confirm
	if c.mem != nil {
		conf = *c.mem
		vk.Class("in-memory-only/65-byte-signer")
	} else if err := conf.Deserialize(bytes.NewReader(c.wire)); err != nil {
		t.Fatalf("harness: confirm does not decode: %v", err)
	}
	if len(conf.Votes) != len(c.Votes) {
		t.Fatalf("harness: vote count changed in round trip")
	}
	if conf.Proposal.Hash() != dhash(proposalData(conf.Proposal.Sponsor, conf.Proposal.BlockHash, conf.Proposal.ViewOffset)) {
		t.Fatalf("harness: reference proposal hash differs from payload.DPOSProposal.Hash")
	}
	reason, lenient, signers := oracle(w, c, &conf)

	blockchain.DefaultLedger = &blockchain.Ledger{Arbitrators: w.real}
	var e1, e2 error
	panicked, val, frame := vk.Catch(func() {
		e1 = blockchain.ConfirmSanityCheck(&conf)
		e2 = blockchain.ConfirmContextCheck(&conf)
	})
	if panicked {
		vk.Report(t, "C25:confirm:panic:"+frame, fmt.Sprint(val), cv)
		return false, nil, false
	}
	accepted = e1 == nil && e2 == nil
	switch {
	case accepted && lenient != "":
		vk.Report(t, "C25:confirm:accepted-although:"+lenient,
			fmt.Sprintf("n=%d threshold=%d distinct valid signers=%d votes=%d", cv.N, w.thr, len(signers), len(conf.Votes)), cv)
		return accepted, signers, false
	case !accepted && reason == "":
		vk.Report(t, "C25:confirm:rejected-valid-quorum",
			fmt.Sprintf("n=%d threshold=%d distinct valid signers=%d sanity=%v context=%v", cv.N, w.thr, len(signers), e1, e2), cv)
		return accepted, signers, false
	}
	vk.Class("verdict/" + map[bool]string{true: "accepted", false: "rejected:" + reason}[accepted])
	return accepted, signers, true
}

func TestConfirm(t *testing.T) {
	rapid.Check(t, func(t *rapid.T) {
		w := genWorld(t)
		cv := &caseV{N: len(w.arbiters), Arbiters: w.arbiters, Thr: w.thr}
		if got := w.real.GetArbitersMajorityCount(); got != w.thr {
			vk.Report(t, "C25:GetArbitersMajorityCount:not-floor-two-thirds", fmt.Sprintf("n=%d got %d want %d", cv.N, got, w.thr), cv)
			return
		}
		pair := rapid.IntRange(0, 2).Draw(t, "pair") == 0
		pairHonest := pair && rapid.IntRange(0, 3).Draw(t, "pairHonest") != 0
		cv.A = genConfirm(t, w, "a.", nil, pairHonest)
		accA, sigA, ok := evaluate(t, w, cv, cv.A)
		if !ok {
			return
		}
		if pair {
			// second confirmation for the same arbiter set, signers taken first from the
			// arbiters the first one did not use: the smallest possible overlap
			var unused []int
			for _, i := range w.normalIdx {
				if !sigA[i] {
					unused = append(unused, i)
				}
			}
			if unused == nil {
				unused = []int{}
			}
			cv.B = genConfirm(t, w, "b.", unused, pairHonest)
			accB, sigB, ok := evaluate(t, w, cv, cv.B)
			if !ok {
				return
			}
			if accA && accB {
				common := 0
				for i := range sigA {
					if sigB[i] {
						common++
					}
				}
				vk.Class("pair/both-accepted")
				if 3*common <= cv.N {
					vk.Report(t, "C25:confirm:two-accepted-confirmations-share-at-most-a-third",
						fmt.Sprintf("n=%d common signers=%d", cv.N, common), cv)
					return
				}
			}
		}
		dup := false
		for _, v := range cv.A.Votes {
			if v.Kind == "duplicate-resigned" || v.Kind == "duplicate-identical" {
				dup = true
			}
		}
		d := cv.A.Distinct - w.thr
		nt := dup || (d >= -1 && d <= 1)
		cl := "distinct-vs-threshold/"
		switch {
		case d < -1:
			cl += "<thr-1"
		case d > 2:
			cl += ">thr+2"
		default:
			cl += fmt.Sprintf("thr%+d", d)
		}
		if dup {
			vk.Class("has-duplicate-vote")
			if accA {
				vk.Class("accepted-with-duplicate-vote")
			}
		}
		if len(w.abnormal) > 0 {
			vk.Class("has-abnormal-arbiter")
		}
		for _, v := range cv.A.Votes {
			if v.Kind != "accept" {
				vk.Class("adversarial-vote/" + v.Kind)
			}
		}
		vk.Class("sponsor/" + cv.A.SponsorKind)
		vk.Class("proposal-signature/" + cv.A.PropSig)
		key, _ := json.Marshal(cv)
		vk.Case(cl, nt, key, func() any { return cv })
	})
}

// TestQuorumArithmetic enumerates every arbiter count 0..N (N = 10 000 by
// default): the node's threshold is floor(2n/3) and any two sets of more than
// that many distinct arbiters share more than n/3 members.
func TestQuorumArithmetic(t *testing.T) {
	limit := vk.Scale(10000)
	shard, nshards := vk.Shard()
	one, err := state.NewOriginArbiter(pool[0].pub)
	if err != nil {
		t.Fatalf("harness: %v", err)
	}
	params := config.GetDefaultParams()
	fallback := len(params.DPoSConfiguration.CRCArbiters) + params.DPoSConfiguration.NormalArbitratorsCount
	members := make([]state.ArbiterMember, 0, limit)
	for n := 0; n <= limit; n++ {
		if n > 0 {
			members = append(members, one)
		}
		if n%nshards != shard {
			continue
		}
		a := &state.Arbiters{ChainParams: params, CurrentArbitrators: members}
		eff := n
		if n == 0 {
			eff = fallback // documented fallback: configured CRC + normal arbiter count
		}
		m := a.GetArbitersMajorityCount()
		info := map[string]int{"n": n, "effective_n": eff, "majority_count": m}
		if m != 2*eff/3 {
			vk.Report(t, "C25:GetArbitersMajorityCount:not-floor-two-thirds", fmt.Sprintf("n=%d got %d want %d", eff, m, 2*eff/3), info)
			return
		}
		if a.HasArbitersMajorityCount(m) || !a.HasArbitersMajorityCount(m+1) {
			vk.Report(t, "C25:HasArbitersMajorityCount:threshold", fmt.Sprintf("n=%d m=%d", eff, m), info)
			return
		}
		// smallest accepted signer sets have m+1 members; two of them overlap in >= 2(m+1)-n
		if overlap := 2*(m+1) - eff; m+1 <= eff && 3*overlap <= eff {
			vk.Report(t, "C25:quorum-intersection:at-most-a-third", fmt.Sprintf("n=%d m=%d overlap=%d", eff, m, overlap), info)
			return
		}
		if m+1 > eff && eff > 0 {
			vk.Report(t, "C25:GetArbitersMajorityCount:quorum-unreachable", fmt.Sprintf("n=%d m=%d", eff, m), info)
			return
		}
		vk.Case(fmt.Sprintf("arithmetic/n-mod-3=%d", eff%3), true, []byte(fmt.Sprintf("n=%d", n)), func() any { return info })
	}
}
