package c25

// History unit: the acceptance PATH of confirmations.  A real regnet chain in
// DPoS mode (arbiters = harness keys, confirmations required from height 2)
// with the real mempool.BlockPool in front of it receives blocks and
// confirmations in any order (AppendConfirm, AddDposBlock with / without a
// confirmation, a confirmation attached to an unrelated decoy block).  Oracle:
// every block the chain stores from height 2 on is stored with a confirmation
// that satisfies the statement predicate for exactly that block; and a block on
// the tip whose last sane confirmation is a valid quorum does get connected.

import (
	"encoding/hex"
	"encoding/json"
	"fmt"
	"testing"

	"github.com/elastos/Elastos.ELA/common"
	"github.com/elastos/Elastos.ELA/common/config"
	"github.com/elastos/Elastos.ELA/core/types"
	"github.com/elastos/Elastos.ELA/core/types/payload"
	"github.com/elastos/Elastos.ELA/mempool"
	"pgregory.net/rapid"
	"verifharness/lib/vk"
	"verifharness/node"
)

type poolStep struct {
	Op      string `json:"op"`
	Block   int    `json:"block,omitempty"`   // index into the built candidate blocks
	Decoy   int    `json:"decoy,omitempty"`   // for op decoy: the block the confirmation travels with
	Confirm string `json:"confirm,omitempty"` // kind of the confirmation
	Result  string `json:"result,omitempty"`
}

type poolCase struct {
	N     int        `json:"arbiters"`
	Steps []poolStep `json:"steps"`
}

// confirmKinds: only "valid" satisfies the statement.
var confirmKinds = []string{"valid", "valid", "valid", "forged-signatures", "forged-signatures", "sub-quorum", "reject-vote", "other-proposal",
	"duplicates-instead-of-quorum", "non-arbiter-signers", "bad-proposal-signature", "non-arbiter-sponsor"}

// sane kinds pass ConfirmSanityCheck (every signature is genuine): the pool keeps them
var saneKinds = map[string]bool{"valid": true, "sub-quorum": true, "duplicates-instead-of-quorum": true,
	"non-arbiter-signers": true, "non-arbiter-sponsor": true}

func garbageSig(t *rapid.T, label string) []byte {
	return rapid.SliceOfN(rapid.Byte(), 64, 64).Draw(t, label)
}

// mkPoolConfirm builds a confirmation of the given kind for blockHash; arb are
// pool indexes of the current arbiters, foreign of keys that are no arbiters.
func mkPoolConfirm(t *rapid.T, kind string, blockHash common.Uint256, arb, foreign []int) *payload.Confirm {
	n := len(arb)
	thr := 2 * n / 3
	sponsor := &pool[arb[rapid.IntRange(0, n-1).Draw(t, "sponsor")]]
	if kind == "non-arbiter-sponsor" {
		sponsor = &pool[foreign[0]]
	}
	viewOffset := uint32(rapid.IntRange(0, 3).Draw(t, "viewOffset"))
	c := &payload.Confirm{Proposal: payload.DPOSProposal{Sponsor: sponsor.pub, BlockHash: blockHash, ViewOffset: viewOffset}}
	c.Proposal.Sign = sign(sponsor, proposalData(sponsor.pub, blockHash, viewOffset))
	if kind == "bad-proposal-signature" {
		c.Proposal.Sign = garbageSig(t, "psig")
	}
	ph := dhash(proposalData(sponsor.pub, blockHash, viewOffset))
	vote := func(k *key, hash common.Uint256, accept, genuine bool) {
		v := payload.DPOSProposalVote{ProposalHash: hash, Signer: k.pub, Accept: accept}
		if genuine {
			v.Sign = sign(k, voteData(hash, k.pub, accept))
		} else {
			v.Sign = garbageSig(t, "vsig")
		}
		c.Votes = append(c.Votes, v)
	}
	order := rapid.Permutation(append([]int{}, arb...)).Draw(t, "signers")
	quorum := thr + 1 + rapid.IntRange(0, n-thr-1).Draw(t, "extra")
	switch kind {
	case "valid", "bad-proposal-signature", "non-arbiter-sponsor":
		for _, i := range order[:quorum] {
			vote(&pool[i], ph, true, true)
		}
	case "forged-signatures":
		genuine := rapid.IntRange(0, thr).Draw(t, "genuine")
		for j, i := range order[:quorum] {
			vote(&pool[i], ph, true, j < genuine)
		}
	case "sub-quorum":
		for _, i := range order[:rapid.IntRange(0, thr).Draw(t, "k")] {
			vote(&pool[i], ph, true, true)
		}
	case "reject-vote":
		for j, i := range order[:quorum] {
			vote(&pool[i], ph, j != 0, true)
		}
	case "other-proposal":
		other := ph
		other[5] ^= 0x10
		for _, i := range order[:quorum] {
			vote(&pool[i], other, true, true)
		}
	case "duplicates-instead-of-quorum":
		k := thr
		if k == 0 {
			k = 1
		}
		for _, i := range order[:k] {
			vote(&pool[i], ph, true, true)
		}
		for len(c.Votes) < quorum+1 {
			vote(&pool[order[0]], ph, true, true)
		}
	case "non-arbiter-signers":
		for j := 0; j < quorum; j++ {
			vote(&pool[foreign[j%len(foreign)]], ph, true, true)
		}
	}
	return c
}

// statementHolds is the predicate of the statement for a stored confirmation;
// it returns "" or the first clause that fails.
func statementHolds(c *payload.Confirm, blockHash common.Uint256, arbiters map[string]bool, n int) string {
	if c == nil {
		return "no-confirmation"
	}
	if c.Proposal.BlockHash != blockHash {
		return "confirmation-for-another-block"
	}
	if !arbiters[string(c.Proposal.Sponsor)] {
		return "sponsor-not-current-arbiter"
	}
	pdata := proposalData(c.Proposal.Sponsor, c.Proposal.BlockHash, c.Proposal.ViewOffset)
	if !refVerify(c.Proposal.Sponsor, pdata, c.Proposal.Sign) {
		return "proposal-signature-invalid"
	}
	ph := dhash(pdata)
	signers := map[string]bool{}
	for _, v := range c.Votes {
		switch {
		case !v.Accept:
			return "reject-vote"
		case v.ProposalHash != ph:
			return "vote-for-other-proposal"
		case !refVerify(v.Signer, voteData(v.ProposalHash, v.Signer, v.Accept), v.Sign):
			return "vote-signature-invalid"
		case !arbiters[string(v.Signer)]:
			return "vote-by-non-arbiter"
		}
		signers[string(v.Signer)] = true
	}
	if len(signers) <= 2*n/3 {
		return "no-two-thirds-quorum-of-distinct-arbiters"
	}
	return ""
}

func TestBlockPoolHistory(t *testing.T) {
	rapid.Check(t, func(t *rapid.T) {
		nArb := rapid.SampledFrom([]int{5, 5, 3, 4, 6, 7}).Draw(t, "narbiters")
		rot := rapid.IntRange(0, poolSize-1).Draw(t, "rot")
		var arb, foreign []int
		var pubHex []string
		for i := 0; i < nArb; i++ {
			arb = append(arb, (rot+i)%poolSize)
			pubHex = append(pubHex, hex.EncodeToString(pool[(rot+i)%poolSize].pub))
		}
		for i := 0; i < 8; i++ {
			foreign = append(foreign, (rot+nArb+i)%poolSize)
		}
		nd, err := node.New(node.Opts{Tweak: func(p *config.Configuration) {
			p.DPoSConfiguration.OriginArbiters = pubHex
			p.DPoSConfiguration.CRCArbiters = pubHex
			p.CRCOnlyDPOSHeight = 2 // block 1 is plain PoW, confirmations are required from block 2 on
			// keep the DPoS checkpoint's StartHeight (min(VoteStartHeight,
			// CRCOnlyDPOSHeight-PreConnectOffset)) below the DPoS blocks, as on every
			// real network, so that a failed connect rolls back through History
			p.VoteStartHeight = 1
			p.DPoSConfiguration.PreConnectOffset = 0
		}})
		if err != nil {
			t.Fatalf("harness: node: %v", err)
		}
		defer nd.Close()
		bp := mempool.NewBlockPool(nd.Params)
		bp.Chain, bp.Store, bp.IsCurrent = nd.Chain, nd.Store, func() bool { return true }

		first, err := nd.BuildBlock(node.BlockSpec{Parent: nd.Genesis})
		if err != nil {
			t.Fatalf("harness: build block 1: %v", err)
		}
		if _, _, err := nd.Process(first); err != nil || nd.Chain.GetHeight() != 1 {
			t.Fatalf("harness: PoW block 1 not connected: %v", err)
		}

		pc := &poolCase{N: nArb}
		var cands []*types.Block
		lastSane := map[common.Uint256]string{} // kind of the last delivered confirmation that passes the sanity check
		arbitersAt := map[uint32]map[string]bool{}
		nAt := map[uint32]int{}
		checked := uint32(1)
		forgedThenConnected, validConnected := false, false

		snapshotArbiters := func() {
			h := nd.Chain.GetHeight() + 1
			if _, ok := arbitersAt[h]; ok {
				return
			}
			set := map[string]bool{}
			infos := nd.Arbiters.GetArbitrators()
			for _, a := range infos {
				if a.IsNormal {
					set[string(a.NodePublicKey)] = true
				}
			}
			arbitersAt[h], nAt[h] = set, len(infos)
		}
		tip := func() *types.Block {
			b, err := nd.Tip()
			if err != nil {
				t.Fatalf("harness: tip: %v", err)
			}
			return b
		}
		newCandidate := func() int {
			b, err := nd.BuildBlock(node.BlockSpec{Parent: tip(), Salt: uint64(len(cands) + 1)})
			if err != nil {
				t.Fatalf("harness: build candidate: %v", err)
			}
			cands = append(cands, b)
			return len(cands) - 1
		}
		pick := func(label string) int {
			if len(cands) == 0 || rapid.IntRange(0, 3).Draw(t, label+"new") == 0 {
				return newCandidate()
			}
			if rapid.IntRange(0, 2).Draw(t, label+"last") != 0 {
				return len(cands) - 1
			}
			return rapid.IntRange(0, len(cands)-1).Draw(t, label)
		}

		nsteps := rapid.IntRange(2, 9).Draw(t, "nsteps")
		for s := 0; s < nsteps; s++ {
			snapshotArbiters()
			curArb := []int{}
			for _, i := range arb {
				if arbitersAt[nd.Chain.GetHeight()+1][string(pool[i].pub)] {
					curArb = append(curArb, i)
				}
			}
			if len(curArb) == 0 {
				break
			}
			st := poolStep{Op: rapid.SampledFrom([]string{"confirm", "confirm", "block", "block", "block+confirm", "decoy"}).Draw(t, "op")}
			st.Block = pick("x")
			x := cands[st.Block]
			xh := x.Hash()
			var perr error
			var conf *payload.Confirm
			if st.Op != "block" {
				st.Confirm = rapid.SampledFrom(confirmKinds).Draw(t, "kind")
				conf = mkPoolConfirm(t, st.Confirm, xh, curArb, foreign)
			}
			if st.Op == "decoy" {
				// the confirmation for x travels with another (sane) block
				st.Decoy = newCandidate()
			}
			_, inPoolBefore := bp.GetBlock(xh)
			onTip := x.Header.Previous == tip().Hash()
			// the step that completes (block, valid quorum confirmation) for the next
			// block of the chain must connect it
			expectConnect := onTip && !nd.Chain.BlockExists(&xh) &&
				((st.Op == "block" && !inPoolBefore && lastSane[xh] == "valid") ||
					(st.Op == "block+confirm" && st.Confirm == "valid") ||
					((st.Op == "confirm" || st.Op == "decoy") && st.Confirm == "valid" && inPoolBefore))
			if saneKinds[st.Confirm] {
				lastSane[xh] = st.Confirm
			}
			panicked, val, frame := vk.Catch(func() {
				switch st.Op {
				case "confirm":
					_, _, perr = bp.AppendConfirm(conf)
				case "block":
					_, _, perr = bp.AddDposBlock(&types.DposBlock{Block: x})
				case "block+confirm":
					_, _, perr = bp.AddDposBlock(&types.DposBlock{Block: x, HaveConfirm: true, Confirm: conf})
				case "decoy":
					_, _, perr = bp.AddDposBlock(&types.DposBlock{Block: cands[st.Decoy], HaveConfirm: true, Confirm: conf})
				}
			})
			if perr != nil {
				st.Result = "error"
			} else {
				st.Result = "ok"
			}
			pc.Steps = append(pc.Steps, st)
			if panicked {
				vk.Report(t, "C25:blockpool:panic:"+frame, fmt.Sprint(val), pc)
				return
			}

			// ---- oracle 1: everything the chain stored from height 2 on carries a
			// confirmation that satisfies the statement for exactly that block
			for h := checked + 1; h <= nd.Chain.GetHeight(); h++ {
				hash, err := nd.Chain.GetBlockHash(h)
				if err != nil {
					t.Fatalf("harness: block hash %d: %v", h, err)
				}
				db, err := nd.Chain.GetDposBlockByHash(hash)
				if err != nil {
					t.Fatalf("harness: stored block %d: %v", h, err)
				}
				var conf *payload.Confirm
				if db.HaveConfirm {
					conf = db.Confirm
				}
				if reason := statementHolds(conf, hash, arbitersAt[h], nAt[h]); reason != "" {
					vk.Report(t, "C25:blockpool:block-stored-with-unacceptable-confirmation:"+reason,
						fmt.Sprintf("height %d block %s connected after step %d (%s %s)", h, hash.String()[:16], s, st.Op, st.Confirm), pc)
					return
				}
				validConnected = true
				checked = h
			}
			// ---- oracle 2 (non-vacuity): block and valid quorum delivered => connected
			if expectConnect && tip().Hash() != xh {
				vk.Report(t, "C25:blockpool:valid-confirmed-block-not-connected",
					fmt.Sprintf("step %d (%s %s) completed block %s (height %d) + valid quorum confirmation, the tip did not move to it (error: %v)", s, st.Op, st.Confirm, xh.String()[:16], x.Height, perr), pc)
				return
			}
			if st.Confirm == "forged-signatures" {
				forgedThenConnected = true
			}
		}
		cl := "pool/no-block-connected"
		if validConnected {
			cl = "pool/confirmed-block-connected"
		}
		if forgedThenConnected {
			vk.Class("pool/history-has-forged-confirmation")
		}
		key, _ := json.Marshal(pc)
		badConfirm, blockStep := false, false
		for _, st := range pc.Steps {
			if st.Confirm != "" && st.Confirm != "valid" {
				badConfirm = true
			}
			if st.Op == "block" || st.Op == "block+confirm" {
				blockStep = true
			}
		}
		vk.Case(cl, badConfirm && blockStep, key, func() any { return pc })
	})
}
