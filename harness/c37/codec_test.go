// C37 (codec half) - address strings and amount strings produced by the wallet
// parse back to the same program hash / value.
//
// Oracles are independent of the code under test: a base58check encoder and a
// decimal parser/formatter written here with math/big.
package c37

import (
	"crypto/sha256"
	"encoding/hex"
	"fmt"
	"math"
	"math/big"
	"strings"
	"testing"

	"github.com/elastos/Elastos.ELA/common"
	"pgregory.net/rapid"
	"verifharness/lib/vk"
)

func TestMain(m *testing.M) { vk.Main(m, "C37") }

// ---------------------------------------------------------------- addresses

// issued address prefixes (core/contract/contract.go)
var issuedPrefixes = []byte{0x21, 0x12, 0x4b, 0x1f, 0x67, 0x3f}

const b58alphabet = "123456789ABCDEFGHJKLMNPQRSTUVWXYZabcdefghijkmnopqrstuvwxyz"

// refBase58Check is the reference address encoder: base58 (bitcoin alphabet) of
// hash || sha256(sha256(hash))[:4]; leading zero bytes become '1'.
func refBase58Check(h []byte) string {
	a := sha256.Sum256(h)
	b := sha256.Sum256(a[:])
	data := append(append([]byte{}, h...), b[:4]...)
	x := new(big.Int).SetBytes(data)
	base := big.NewInt(58)
	mod := new(big.Int)
	var out []byte
	for x.Sign() > 0 {
		x.DivMod(x, base, mod)
		out = append(out, b58alphabet[mod.Int64()])
	}
	for _, c := range data {
		if c != 0 {
			break
		}
		out = append(out, '1')
	}
	for i, j := 0, len(out)-1; i < j; i, j = i+1, j-1 {
		out[i], out[j] = out[j], out[i]
	}
	return string(out)
}

func genCodeHash(t *rapid.T) ([]byte, string) {
	b := make([]byte, 20)
	kind := rapid.SampledFrom([]string{"random", "random", "random", "zeros", "ones", "lead-zeros", "single-bit", "low"}).Draw(t, "hashKind")
	switch kind {
	case "random":
		copy(b, rapid.SliceOfN(rapid.Byte(), 20, 20).Draw(t, "hash"))
	case "zeros":
	case "ones":
		for i := range b {
			b[i] = 0xff
		}
	case "lead-zeros":
		k := rapid.IntRange(1, 19).Draw(t, "nzero")
		copy(b[k:], rapid.SliceOfN(rapid.Byte(), 20-k, 20-k).Draw(t, "tail"))
	case "single-bit":
		bit := rapid.IntRange(0, 159).Draw(t, "bit")
		b[bit/8] = 1 << uint(bit%8)
	case "low":
		b[19] = rapid.Byte().Draw(t, "lowbyte")
	}
	return b, kind
}

// checkAddressRoundTrip is shared with the signing unit (addresses of accounts).
func checkAddressRoundTrip(t vk.TB, h common.Uint168, addr string, site string, render any) bool {
	var got *common.Uint168
	var err error
	p, val, frame := vk.Catch(func() { got, err = common.Uint168FromAddress(addr) })
	if p {
		return vk.Report(t, "C37:Uint168FromAddress:panic:"+frame, fmt.Sprintf("%s: address %q of %x: %v", site, addr, h[:], val), render)
	}
	if err != nil {
		return vk.Report(t, "C37:Uint168FromAddress:wallet-address-rejected", fmt.Sprintf("%s: address %q of %x: %v", site, addr, h[:], err), render)
	}
	if *got != h {
		return vk.Report(t, "C37:Uint168FromAddress:roundtrip-value", fmt.Sprintf("%s: address %q of %x parsed to %x", site, addr, h[:], got[:]), render)
	}
	return false
}

func TestAddressCodec(t *testing.T) {
	rapid.Check(t, func(t *rapid.T) {
		var h common.Uint168
		h[0] = rapid.SampledFrom(issuedPrefixes).Draw(t, "prefix")
		ch, kind := genCodeHash(t)
		copy(h[1:], ch)
		render := func() any { return map[string]any{"program_hash": hex.EncodeToString(h[:])} }
		vk.Class("address-hash-kind/" + kind)
		defer vk.Case(fmt.Sprintf("address/prefix-%02x", h[0]), true, h[:], render)

		var addr string
		var err error
		p, val, frame := vk.Catch(func() { addr, err = h.ToAddress() })
		if p {
			vk.Report(t, "C37:ToAddress:panic:"+frame, fmt.Sprint(val), render())
			return
		}
		if err != nil {
			vk.Report(t, "C37:ToAddress:error", err.Error(), render())
			return
		}
		if ref := refBase58Check(h[:]); addr != ref {
			if vk.Report(t, "C37:ToAddress:differs-from-base58check", fmt.Sprintf("ToAddress=%q reference=%q", addr, ref), render()) {
				return
			}
		}
		checkAddressRoundTrip(t, h, addr, "ToAddress", render())
	})
}

// ------------------------------------------------------------------ amounts

var (
	bigE8     = big.NewInt(100000000)
	bigMaxI64 = big.NewInt(math.MaxInt64)
	bigMinI64 = big.NewInt(math.MinInt64)
)

// refParseDecimal parses -?digits(.digits{0,8})? exactly into 10^-8 units.
// ok=false if the shape is not a plain decimal or the value is outside int64.
func refParseDecimal(s string) (int64, bool) {
	neg := false
	if strings.HasPrefix(s, "-") {
		neg = true
		s = s[1:]
	}
	ip, fp := s, ""
	if i := strings.IndexByte(s, '.'); i >= 0 {
		ip, fp = s[:i], s[i+1:]
		if len(fp) == 0 {
			return 0, false
		}
	}
	if len(ip) == 0 || len(fp) > 8 {
		return 0, false
	}
	for _, c := range ip + fp {
		if c < '0' || c > '9' {
			return 0, false
		}
	}
	v, _ := new(big.Int).SetString(ip, 10)
	v.Mul(v, bigE8)
	if fp != "" {
		f, _ := new(big.Int).SetString(fp+strings.Repeat("0", 8-len(fp)), 10)
		v.Add(v, f)
	}
	if neg {
		v.Neg(v)
	}
	if v.Cmp(bigMaxI64) > 0 || v.Cmp(bigMinI64) < 0 {
		return 0, false
	}
	return v.Int64(), true
}

// refFormat is the normalised amount string: integer part, and an 8-digit
// fraction iff the fraction is non-zero.
func refFormat(f int64) string {
	v := big.NewInt(f)
	neg := v.Sign() < 0
	v.Abs(v)
	q, r := new(big.Int).DivMod(v, bigE8, new(big.Int))
	s := q.String()
	if r.Sign() != 0 {
		s += "." + fmt.Sprintf("%08d", r.Int64())
	}
	if neg {
		s = "-" + s
	}
	return s
}

var pow10 = func() []int64 {
	p := []int64{1}
	for i := 1; i <= 18; i++ {
		p = append(p, p[len(p)-1]*10)
	}
	return p
}()

func genFixed64(t *rapid.T) (int64, string) {
	kind := rapid.SampledFrom([]string{"any", "any", "small", "whole", "whole", "whole+frac", "boundary", "pow10"}).Draw(t, "amountKind")
	var v int64
	switch kind {
	case "any":
		v = rapid.Int64().Draw(t, "f")
	case "small":
		v = rapid.Int64Range(-99999999, 99999999).Draw(t, "f")
	case "whole":
		digits := rapid.IntRange(1, 11).Draw(t, "digits")
		hi := pow10[digits] - 1
		if hi > math.MaxInt64/100000000 {
			hi = math.MaxInt64 / 100000000
		}
		v = rapid.Int64Range(pow10[digits-1], hi).Draw(t, "coins") * 100000000
		if rapid.Bool().Draw(t, "neg") {
			v = -v
		}
	case "whole+frac":
		digits := rapid.IntRange(1, 11).Draw(t, "digits")
		hi := pow10[digits] - 1
		if hi > math.MaxInt64/100000000-1 {
			hi = math.MaxInt64/100000000 - 1
		}
		v = rapid.Int64Range(pow10[digits-1], hi).Draw(t, "coins")*100000000 +
			rapid.SampledFrom([]int64{1, 10, 5000000, 50000000, 99999999, 12345678, 10000000, 100, 1000000}).Draw(t, "frac")
		if rapid.Bool().Draw(t, "neg") {
			v = -v
		}
	case "boundary":
		v = rapid.SampledFrom([]int64{0, 1, -1, 99999999, -99999999, 100000000, -100000000, 100000001, 999999999, 1000000000,
			9999999900000000, 10000000000000000, -10000000000000000, 1 << 62, -(1 << 62), math.MaxInt64, math.MinInt64, math.MinInt64 + 1,
			math.MaxInt64 - 1, 9223372036800000000, -9223372036800000000, 3300000000000000, 100, 4860}).Draw(t, "f")
	case "pow10":
		e := rapid.IntRange(0, 18).Draw(t, "e")
		v = pow10[e] + rapid.Int64Range(-2, 2).Draw(t, "delta")
		if rapid.Bool().Draw(t, "neg") {
			v = -v
		}
	}
	return v, kind
}

func amountClass(f int64) string {
	a := new(big.Int).Abs(big.NewInt(f))
	q, r := new(big.Int).DivMod(a, bigE8, new(big.Int))
	c := "int"
	if r.Sign() != 0 {
		c = "frac"
	}
	l := "string<9chars"
	if len(refFormat(f)) >= 9 {
		l = "string>=9chars"
	}
	if len(q.String()) >= 9 {
		l = "integer-part>=9digits"
	}
	return c + "/" + l
}

// checkAmount: String(f) denotes f, and StringToFixed64(String(f)) == f.
func checkAmount(t vk.TB, f int64) {
	render := map[string]any{"fixed64": f}
	var s string
	p, val, frame := vk.Catch(func() { s = common.Fixed64(f).String() })
	if p {
		vk.Report(t, "C37:Fixed64.String:panic:"+frame, fmt.Sprint(val), render)
		return
	}
	render["string"] = s
	if rv, ok := refParseDecimal(s); !ok || rv != f {
		if vk.Report(t, "C37:Fixed64.String:wrong-decimal", fmt.Sprintf("Fixed64(%d).String()=%q which denotes %d (ok=%v); normalised form %q", f, s, rv, ok, refFormat(f)), render) {
			return
		}
	}
	checkParse(t, s, f, "roundtrip", render)
}

// checkParse: StringToFixed64(s) must succeed with value want.
func checkParse(t vk.TB, s string, want int64, dir string, render any) {
	var got *common.Fixed64
	var err error
	p, val, frame := vk.Catch(func() { got, err = common.StringToFixed64(s) })
	if p {
		vk.Report(t, "C37:StringToFixed64:panic:"+frame, fmt.Sprintf("%q: %v", s, val), render)
		return
	}
	if err != nil {
		if !strings.Contains(s, ".") && len(s) >= 9 && strings.Contains(err.Error(), "precision") {
			// one root cause: the precision test is applied to strings without a point
			vk.Report(t, "C37:StringToFixed64:integer-string-rejected", fmt.Sprintf("StringToFixed64(%q) = error %q; the string is Fixed64(%d).String()", s, err, want), render)
			return
		}
		vk.Report(t, "C37:StringToFixed64:"+dir+"-rejected", fmt.Sprintf("StringToFixed64(%q) = error %q, want %d", s, err, want), render)
		return
	}
	if int64(*got) != want {
		vk.Report(t, "C37:StringToFixed64:"+dir+"-value", fmt.Sprintf("StringToFixed64(%q) = %d, want %d", s, int64(*got), want), render)
	}
}

func TestFixed64Codec(t *testing.T) {
	rapid.Check(t, func(t *rapid.T) {
		f, kind := genFixed64(t)
		var key [9]byte
		big.NewInt(f).FillBytes(key[1:])
		if f < 0 {
			key[0] = 1
			new(big.Int).Neg(big.NewInt(f)).FillBytes(key[1:])
		}
		nt := f >= 100000000 || f <= -100000000 || f%100000000 != 0
		vk.Class("amount-generator/" + kind)
		defer vk.Case("amount/"+amountClass(f), nt, key[:], func() any {
			return map[string]any{"fixed64": f, "string": refFormat(f)}
		})
		checkAmount(t, f)
	})
}

// TestDecimalStrings: plain decimal strings (what a wallet user types and what
// String produces: optional '-', integer part without superfluous zeros, at
// most 8 fraction digits) parse to the exact value, and String of the parsed
// value is the normalised string.
func TestDecimalStrings(t *testing.T) {
	rapid.Check(t, func(t *rapid.T) {
		neg := rapid.Bool().Draw(t, "neg")
		idig := rapid.IntRange(1, 11).Draw(t, "intDigits")
		var ip string
		if idig == 1 {
			ip = fmt.Sprint(rapid.IntRange(0, 9).Draw(t, "int1"))
		} else {
			hi := pow10[idig] - 1
			if hi > 92233720367 { // keep inside int64 after scaling
				hi = 92233720367
			}
			ip = fmt.Sprint(rapid.Int64Range(pow10[idig-1], hi).Draw(t, "int"))
		}
		fdig := rapid.IntRange(0, 8).Draw(t, "fracDigits")
		s := ip
		if fdig > 0 {
			fr := rapid.Int64Range(0, pow10[fdig]-1).Draw(t, "frac")
			s += "." + fmt.Sprintf("%0*d", fdig, fr)
		}
		if neg {
			s = "-" + s
		}
		want, ok := refParseDecimal(s)
		if !ok {
			t.Fatalf("harness: generated %q is not a decimal in range", s)
		}
		render := map[string]any{"string": s, "want": want}
		nt := want >= 100000000 || want <= -100000000 || want%100000000 != 0
		ic := "int<9digits"
		if len(ip) >= 9 {
			ic = "int>=9digits"
		}
		defer vk.Case(fmt.Sprintf("decimal/fracdigits-%d/%s", fdig, ic), nt, []byte(s), func() any { return render })
		checkParse(t, s, want, "decimal", render)
		// and back: the value prints as the normalised string
		var back string
		p, val, frame := vk.Catch(func() { back = common.Fixed64(want).String() })
		if p {
			vk.Report(t, "C37:Fixed64.String:panic:"+frame, fmt.Sprint(val), render)
			return
		}
		if rv, ok := refParseDecimal(back); !ok || rv != want {
			vk.Report(t, "C37:Fixed64.String:wrong-decimal", fmt.Sprintf("Fixed64(%d).String()=%q denotes %d (ok=%v), normalised %q", want, back, rv, ok, refFormat(want)), render)
		}
	})
}

// TestFixed64Exhaustive enumerates sub-domains completely (plain loops, sharded):
// every f with |f| <= N, every whole amount k*10^8 with |k| <= N, a window of N
// values around every power of ten and around the int64 limits.
func TestFixed64Exhaustive(t *testing.T) {
	n := int64(vk.Scale(200000))
	shard, nshards := vk.Shard()
	var cnt int64
	do := func(f int64) {
		cnt++
		if cnt%int64(nshards) != int64(shard) {
			return
		}
		checkAmount(t, f)
	}
	for f := -n; f <= n; f++ {
		do(f)
	}
	for k := -n; k <= n; k++ {
		do(k * 100000000)
	}
	w := n / 100
	if w < 10 {
		w = 10
	}
	for e := 8; e <= 18; e++ {
		for d := -w; d <= w; d++ {
			do(pow10[e] + d)
			do(-(pow10[e] + d))
		}
	}
	for d := int64(0); d <= w; d++ {
		do(math.MaxInt64 - d)
		do(math.MinInt64 + d)
	}
	var k [8]byte
	vk.Count("exhaustive_amounts", cnt/int64(nshards))
	// one Case per 1000 values keeps the evidence counters meaningful without a 64-bit key per value
	per := cnt / int64(nshards)
	for i := int64(0); i < per/1000+1; i++ {
		big.NewInt(i*int64(nshards) + int64(shard)).FillBytes(k[:])
		vk.Case("amount-exhaustive/block-of-1000", true, k[:], func() any {
			return map[string]any{"exhaustive": fmt.Sprintf("|f|<=%d, k*1e8 for |k|<=%d, +-%d around 10^8..10^18 and the int64 limits", n, n, w)}
		})
	}
}
