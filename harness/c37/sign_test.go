// C37 (signing half) - a transaction signed by the wallet with a standard,
// multisig (m of n) or aggregated Schnorr account passes the node's signature
// check (blockchain.RunPrograms over SerializeUnsigned, programs and hashes
// sorted as core/transaction.checkTransactionSignature does), and changing any
// byte of the signed content makes it fail.
package c37

import (
	"bytes"
	"crypto/ecdsa"
	"crypto/elliptic"
	"crypto/sha256"
	"encoding/hex"
	"encoding/json"
	"fmt"
	"math/big"
	"os"
	"path/filepath"
	"sort"
	"testing"

	"github.com/elastos/Elastos.ELA/account"
	"github.com/elastos/Elastos.ELA/blockchain"
	"github.com/elastos/Elastos.ELA/common"
	"github.com/elastos/Elastos.ELA/common/config"
	"github.com/elastos/Elastos.ELA/core"
	"github.com/elastos/Elastos.ELA/core/contract"
	pg "github.com/elastos/Elastos.ELA/core/contract/program"
	"github.com/elastos/Elastos.ELA/core/transaction"
	common2 "github.com/elastos/Elastos.ELA/core/types/common"
	"github.com/elastos/Elastos.ELA/core/types/functions"
	"github.com/elastos/Elastos.ELA/core/types/interfaces"
	"github.com/elastos/Elastos.ELA/core/types/outputpayload"
	"github.com/elastos/Elastos.ELA/core/types/payload"
	"github.com/elastos/Elastos.ELA/crypto"
	"github.com/elastos/Elastos.ELA/vm"
	"pgregory.net/rapid"
	"verifharness/lib/vk"
)

func init() {
	functions.GetTransactionByTxType = transaction.GetTransaction
	functions.GetTransactionByBytes = transaction.GetTransactionByBytes
	functions.CreateTransaction = transaction.CreateTransaction
	functions.GetTransactionParameters = transaction.GetTransactionparameters
	config.DefaultParams = *config.GetDefaultParams()
}

var curveN = elliptic.P256().Params().N

// key is one wallet key, derived from a rapid-drawn scalar (never crypto/rand).
type key struct {
	d    *big.Int
	priv []byte // as the wallet holds it: D.Bytes() (GenerateKeyPair) or 32 bytes (keystore load)
	x, y *big.Int
	acc  *account.Account
}

func genScalar(t *rapid.T, label string) *big.Int {
	kind := rapid.SampledFrom([]string{"random", "random", "random", "random", "short", "small", "high"}).Draw(t, label+"Kind")
	b := rapid.SliceOfN(rapid.Byte(), 32, 32).Draw(t, label)
	switch kind {
	case "short": // leading zero bytes: PrivateKey is shorter than 32 bytes, as D.Bytes() yields once in 256
		z := rapid.IntRange(1, 3).Draw(t, label+"Zeros")
		for i := 0; i < z; i++ {
			b[i] = 0
		}
	case "small":
		for i := 0; i < 30; i++ {
			b[i] = 0
		}
	case "high":
		for i := 0; i < 8; i++ {
			b[i] = 0xff
		}
	}
	d := new(big.Int).SetBytes(b)
	d.Mod(d, new(big.Int).Sub(curveN, big.NewInt(1)))
	d.Add(d, big.NewInt(1)) // 1..N-1
	return d
}

func newKey(t *rapid.T, d *big.Int, padded bool) *key {
	k := &key{d: d}
	k.priv = d.Bytes()
	if padded {
		k.priv = d.FillBytes(make([]byte, 32))
	}
	k.x, k.y = elliptic.P256().ScalarBaseMult(d.Bytes())
	acc, err := account.NewAccountWithPrivateKey(k.priv)
	if err != nil {
		t.Fatalf("harness: NewAccountWithPrivateKey: %v", err)
	}
	k.acc = acc
	return k
}

// ------------------------------------------------------------ transactions

type txDesc struct {
	Version  byte     `json:"version"`
	TxType   string   `json:"type"`
	Payload  string   `json:"payload"`
	Attrs    []string `json:"attrs"`
	Inputs   []string `json:"inputs"`
	Outputs  []string `json:"outputs"`
	LockTime uint32   `json:"locktime"`
}

func genBytes(t *rapid.T, min, max int, label string) []byte {
	return rapid.SliceOfN(rapid.Byte(), min, max).Draw(t, label)
}

func genTx(t *rapid.T) (interfaces.Transaction, *txDesc) {
	d := &txDesc{}
	version := common2.TxVersionDefault
	if rapid.Bool().Draw(t, "v09") {
		version = common2.TxVersion09
	}
	d.Version = byte(version)
	var txType common2.TxType
	var pl interfaces.Payload
	switch d.TxType = rapid.SampledFrom([]string{"TransferAsset", "TransferAsset", "Record", "CancelProducer", "ReturnDepositCoin"}).Draw(t, "txType"); d.TxType {
	case "TransferAsset":
		txType, pl = common2.TransferAsset, &payload.TransferAsset{}
	case "Record":
		r := &payload.Record{Type: rapid.StringN(0, 12, 40).Draw(t, "recType"), Content: genBytes(t, 0, 48, "recContent")}
		txType, pl = common2.Record, r
		d.Payload = fmt.Sprintf("%q/%x", r.Type, r.Content)
	case "CancelProducer":
		p := &payload.ProcessProducer{OwnerKey: genBytes(t, 33, 33, "ownerKey"), Signature: genBytes(t, 64, 64, "plSig")}
		txType, pl = common2.CancelProducer, p
		d.Payload = fmt.Sprintf("%x/%x", p.OwnerKey, p.Signature)
	case "ReturnDepositCoin":
		txType, pl = common2.ReturnDepositCoin, &payload.ReturnDepositCoin{}
	}
	var attrs []*common2.Attribute
	for i, n := 0, rapid.IntRange(0, 3).Draw(t, "nattr"); i < n; i++ {
		a := &common2.Attribute{
			Usage: rapid.SampledFrom([]common2.AttributeUsage{common2.Nonce, common2.Memo, common2.Description, common2.DescriptionUrl, common2.Confirmations}).Draw(t, "usage"),
			Data:  genBytes(t, 0, 40, "attrData"),
		}
		attrs = append(attrs, a)
		d.Attrs = append(d.Attrs, fmt.Sprintf("%02x:%x", byte(a.Usage), a.Data))
	}
	var inputs []*common2.Input
	for i, n := 0, rapid.IntRange(0, 4).Draw(t, "nin"); i < n; i++ {
		in := &common2.Input{Sequence: rapid.Uint32().Draw(t, "seq")}
		copy(in.Previous.TxID[:], genBytes(t, 32, 32, "txid"))
		in.Previous.Index = rapid.Uint16().Draw(t, "index")
		inputs = append(inputs, in)
		d.Inputs = append(d.Inputs, fmt.Sprintf("%x:%d:%d", in.Previous.TxID[:], in.Previous.Index, in.Sequence))
	}
	var outputs []*common2.Output
	for i, n := 0, rapid.IntRange(0, 4).Draw(t, "nout"); i < n; i++ {
		o := &common2.Output{AssetID: core.ELAAssetID, Type: common2.OTNone, Payload: &outputpayload.DefaultOutput{}}
		if rapid.IntRange(0, 4).Draw(t, "otherAsset") == 0 {
			copy(o.AssetID[:], genBytes(t, 32, 32, "asset"))
		}
		v, _ := genFixed64(t)
		o.Value = common.Fixed64(v)
		o.OutputLock = rapid.Uint32().Draw(t, "lock")
		o.ProgramHash[0] = rapid.SampledFrom(issuedPrefixes).Draw(t, "outPrefix")
		copy(o.ProgramHash[1:], genBytes(t, 20, 20, "outHash"))
		outputs = append(outputs, o)
		d.Outputs = append(d.Outputs, fmt.Sprintf("%x:%d:%d:%x", o.AssetID[:4], v, o.OutputLock, o.ProgramHash[:]))
	}
	d.LockTime = rapid.Uint32().Draw(t, "locktime")
	tx := functions.CreateTransaction(version, txType, 0, pl, attrs, inputs, outputs, d.LockTime, nil)
	return tx, d
}

func unsigned(t vk.TB, tx interfaces.Transaction) []byte {
	buf := new(bytes.Buffer)
	if err := tx.SerializeUnsigned(buf); err != nil {
		t.Fatalf("harness: SerializeUnsigned: %v", err)
	}
	return buf.Bytes()
}

// ------------------------------------------------------------- node check

// nodeCheck is core/transaction.checkTransactionSignature without the UTXO
// lookup: the program hashes are those of the accounts that own the inputs.
func nodeCheck(data []byte, hashes []common.Uint168, programs []*pg.Program) (err error, panicked bool, frame string) {
	hs := append([]common.Uint168{}, hashes...)
	ps := append([]*pg.Program{}, programs...)
	var val any
	panicked, val, frame = vk.Catch(func() {
		common.SortProgramHashByCodeHash(hs)
		blockchain.SortPrograms(ps)
		err = blockchain.RunPrograms(data, hs, ps)
	})
	if panicked {
		err = fmt.Errorf("panic: %v", val)
	}
	return
}

// ------------------------------------------------- independent reference

func refVerify(x, y *big.Int, data, sig []byte) bool {
	if len(sig) != 64 {
		return false
	}
	h := sha256.Sum256(data)
	pub := ecdsa.PublicKey{Curve: elliptic.P256(), X: x, Y: y}
	return ecdsa.Verify(&pub, h[:], new(big.Int).SetBytes(sig[:32]), new(big.Int).SetBytes(sig[32:]))
}

// refSigners returns the distinct keys (indices into ks) whose signatures over
// data appear in a parameter made of 65-byte (0x40 || sig) chunks; ok=false if
// the parameter is malformed or a chunk is signed by none of ks.
func refSigners(ks []*key, data, param []byte) (map[int]bool, bool) {
	if len(param)%65 != 0 {
		return nil, false
	}
	got := map[int]bool{}
	for i := 0; i < len(param); i += 65 {
		if param[i] != 64 {
			return nil, false
		}
		found := false
		for j, k := range ks {
			if refVerify(k.x, k.y, data, param[i+1:i+65]) {
				if got[j] {
					return got, false // same signer twice
				}
				got[j] = true
				found = true
				break
			}
		}
		if !found {
			return got, false
		}
	}
	return got, true
}

// ---------------------------------------------------------------- wallets

type wallet struct {
	keys     []*key
	accounts map[common.Uint160]*account.Account // direct API
	client   *account.Client                     // keystore API
	dir      string
}

// openWallet builds a wallet holding ks. keystore=true goes through the real
// keystore file: CreateFromAccount + SaveAccount, then Open (decrypts the keys).
func openWallet(t *rapid.T, ks []*key, keystore bool, multi *multiProg) *wallet {
	w := &wallet{keys: ks}
	if !keystore {
		w.accounts = map[common.Uint160]*account.Account{}
		for _, k := range ks {
			w.accounts[k.acc.ProgramHash.ToCodeHash()] = k.acc
		}
		return w
	}
	dir, err := os.MkdirTemp("", "c37w")
	if err != nil {
		t.Fatalf("harness: mkdtemp: %v", err)
	}
	w.dir = dir
	path := filepath.Join(dir, "keystore.dat")
	pwd := []byte(rapid.StringN(1, 12, 24).Draw(t, "password"))
	cl, err := account.CreateFromAccount(path, pwd, ks[0].acc)
	if err != nil {
		t.Fatalf("harness: CreateFromAccount: %v", err)
	}
	for _, k := range ks[1:] {
		if err := cl.SaveAccount(k.acc); err != nil {
			t.Fatalf("harness: SaveAccount: %v", err)
		}
	}
	if multi != nil && rapid.Bool().Draw(t, "listMultiAccount") {
		var pubs []*crypto.PublicKey
		for _, k := range multi.signers {
			pubs = append(pubs, k.acc.PublicKey)
		}
		if _, err := cl.CreateMultiSigAccount(multi.m, pubs); err != nil {
			t.Fatalf("harness: CreateMultiSigAccount: %v", err)
		}
	}
	w.client, err = account.Open(path, pwd)
	if err != nil {
		t.Fatalf("harness: account.Open: %v", err)
	}
	return w
}

func (w *wallet) close() {
	if w.dir != "" {
		os.RemoveAll(w.dir)
	}
}

// sign = Client.Sign, or the same loop over the exported functions with an
// account map (what servers.SignRawTransactionWithKey does).
func (w *wallet) sign(tx interfaces.Transaction, byM int) error {
	if w.client != nil {
		var err error
		if byM > 0 {
			_, err = w.client.MultiSign(byM, tx)
		} else {
			_, err = w.client.Sign(tx)
		}
		return err
	}
	var signed []*pg.Program
	for _, p := range tx.Programs() {
		st, err := crypto.GetScriptType(p.Code)
		if err != nil {
			return err
		}
		var sp *pg.Program
		switch {
		case st == vm.CHECKSIG:
			sp, err = account.SignStandardTransaction(tx, p, w.accounts)
		case st == vm.CHECKMULTISIG && byM > 0:
			sp, err = account.SignMultiSignTransactionByM(byM, tx, p, w.accounts)
		case st == vm.CHECKMULTISIG:
			sp, err = account.SignMultiSignTransaction(tx, p, w.accounts)
		default:
			return fmt.Errorf("harness: unexpected script type %x", st)
		}
		if err != nil {
			return err
		}
		signed = append(signed, sp)
	}
	tx.SetPrograms(signed)
	return nil
}

type multiProg struct {
	m       int
	signers []*key // in script (sorted) order
	code    []byte
	hash    common.Uint168
}

type caseDesc struct {
	Kind     string   `json:"kind"`
	API      string   `json:"api"`
	Keys     []string `json:"keys"`
	Standard []int    `json:"standard_programs,omitempty"`
	M        int      `json:"m,omitempty"`
	N        int      `json:"n,omitempty"`
	Signers  []int    `json:"multisig_keys,omitempty"`
	Rounds   [][]int  `json:"wallets,omitempty"`
	Prefix   string   `json:"hash_prefix,omitempty"`
	Tx       *txDesc  `json:"tx"`
	Mutation string   `json:"mutation,omitempty"`
}

func keyIndex(ks []*key, k *key) int {
	for i := range ks {
		if ks[i] == k {
			return i
		}
	}
	return -1
}

// mutateAndCheck: the statement's second half. data' differs from data in one
// byte (any position, any non-zero xor mask) => the node rejects the programs.
func mutateAndCheck(t *rapid.T, kind string, data []byte, hashes []common.Uint168, programs []*pg.Program, cd *caseDesc) {
	n := rapid.IntRange(2, 4).Draw(t, "nmut")
	for i := 0; i < n; i++ {
		pos := rapid.IntRange(0, len(data)-1).Draw(t, "mutPos")
		if rapid.IntRange(0, 3).Draw(t, "mutEdge") == 0 {
			pos = rapid.SampledFrom([]int{0, len(data) - 1, len(data) / 2, 1 % len(data)}).Draw(t, "mutEdgePos")
		}
		mask := byte(rapid.IntRange(1, 255).Draw(t, "mutMask"))
		if rapid.Bool().Draw(t, "singleBit") {
			mask = 1 << uint(rapid.IntRange(0, 7).Draw(t, "mutBit"))
		}
		md := append([]byte{}, data...)
		md[pos] ^= mask
		err, _, _ := nodeCheck(md, hashes, programs)
		vk.Count("byte_mutations", 1)
		if err == nil {
			cd.Mutation = fmt.Sprintf("byte %d of %d xor %02x", pos, len(data), mask)
			vk.Report(t, "C37:mutate:"+kind+":accepted", "signature still verifies after "+cd.Mutation, cd)
			return
		}
	}
}

// structuralEdit changes one field of the transaction (keeping the programs)
// and demands rejection over the new unsigned serialization.
func structuralEdit(t *rapid.T, kind string, tx interfaces.Transaction, data []byte, hashes []common.Uint168, programs []*pg.Program, cd *caseDesc) {
	var edits []string
	edits = append(edits, "locktime", "payloadVersion")
	if len(tx.Outputs()) > 0 {
		edits = append(edits, "outValue", "outHash", "outLock", "dropOutput")
	}
	if len(tx.Inputs()) > 0 {
		edits = append(edits, "inIndex", "inSequence", "inTxid")
	}
	if len(tx.Attributes()) > 0 {
		edits = append(edits, "attrData")
	}
	edits = append(edits, "addAttr")
	e := rapid.SampledFrom(edits).Draw(t, "edit")
	switch e {
	case "locktime":
		tx.SetLockTime(tx.LockTime() + uint32(rapid.IntRange(1, 1000).Draw(t, "dl")))
	case "payloadVersion":
		tx.SetPayloadVersion(tx.PayloadVersion() + 1)
	case "outValue":
		o := tx.Outputs()[rapid.IntRange(0, len(tx.Outputs())-1).Draw(t, "oi")]
		o.Value ^= common.Fixed64(1) << uint(rapid.IntRange(0, 62).Draw(t, "vbit"))
	case "outHash":
		o := tx.Outputs()[rapid.IntRange(0, len(tx.Outputs())-1).Draw(t, "oi")]
		o.ProgramHash[rapid.IntRange(0, 20).Draw(t, "hb")] ^= 0x01
	case "outLock":
		o := tx.Outputs()[rapid.IntRange(0, len(tx.Outputs())-1).Draw(t, "oi")]
		o.OutputLock++
	case "dropOutput":
		tx.SetOutputs(tx.Outputs()[1:])
	case "inIndex":
		tx.Inputs()[rapid.IntRange(0, len(tx.Inputs())-1).Draw(t, "ii")].Previous.Index ^= 1
	case "inSequence":
		tx.Inputs()[rapid.IntRange(0, len(tx.Inputs())-1).Draw(t, "ii")].Sequence ^= 0x80000000
	case "inTxid":
		tx.Inputs()[rapid.IntRange(0, len(tx.Inputs())-1).Draw(t, "ii")].Previous.TxID[rapid.IntRange(0, 31).Draw(t, "tb")] ^= 0x10
	case "attrData":
		a := tx.Attributes()[rapid.IntRange(0, len(tx.Attributes())-1).Draw(t, "ai")]
		a.Data = append(append([]byte{}, a.Data...), 0x00)
	case "addAttr":
		tx.SetAttributes(append(tx.Attributes(), &common2.Attribute{Usage: common2.Memo, Data: []byte{1}}))
	}
	buf := new(bytes.Buffer)
	if err := tx.SerializeUnsigned(buf); err != nil {
		vk.Class("edit/unserializable/" + e)
		return
	}
	if bytes.Equal(buf.Bytes(), data) {
		vk.Class("edit/no-change-in-signed-content/" + e)
		return
	}
	vk.Count("structural_edits", 1)
	if err, _, _ := nodeCheck(buf.Bytes(), hashes, programs); err == nil {
		cd.Mutation = "field edit " + e
		vk.Report(t, "C37:mutate:"+kind+":accepted", "signature still verifies after "+cd.Mutation, cd)
	}
}

func reportSignErr(t *rapid.T, kind string, step string, err error, panicked bool, frame string, cd *caseDesc) {
	if panicked {
		vk.Report(t, "C37:sign:"+kind+":panic:"+frame, fmt.Sprintf("%s: %v", step, err), cd)
		return
	}
	vk.Report(t, "C37:sign:"+kind+":"+step, err.Error(), cd)
}

// TestWalletSignECDSA: transactions with 0..2 standard programs and at most one
// m-of-n multisig program, signed through the wallet API the way its callers do.
func TestWalletSignECDSA(t *testing.T) {
	rapid.Check(t, func(t *rapid.T) {
		cd := &caseDesc{}
		// --- shape of the transaction's programs first: it decides how many keys are needed.
		// Multisig domain = what the wallet accepts and can sign: contract.CreateMultiSigRedeemScript
		// takes 1 <= m <= n <= 24, but only n <= 16 fits the one-byte PUSH1..PUSH16 form that the
		// wallet's own ParseMultisigScript (GetSigners) and the node understand; n >= 2 because of
		// crypto.MinMultiSignCodeLength.  n in 17..24 is generated too and only judged if the wallet
		// manages to sign.
		shape := rapid.SampledFrom([]string{"standard", "multisig", "multisig", "multisig-byM", "mixed"}).Draw(t, "shape")
		wantN, wantStd := 0, 0
		switch shape {
		case "standard":
			wantStd = rapid.IntRange(1, 3).Draw(t, "nstd")
		case "mixed":
			wantStd = rapid.IntRange(1, 2).Draw(t, "nstd")
		}
		if shape != "standard" {
			wantN = rapid.SampledFrom([]int{2, 2, 3, 3, 4, 5, 6, 15, 16, 16, 16, 17, 24, 0, 0, 0}).Draw(t, "nBias")
			if wantN == 0 {
				wantN = rapid.IntRange(2, 16).Draw(t, "nAny")
			}
		}
		nkeys := wantStd + wantN + rapid.IntRange(0, 2).Draw(t, "nextra")
		var ks []*key
		seen := map[string]bool{}
		for len(ks) < nkeys {
			d := genScalar(t, fmt.Sprintf("key%d", len(ks)))
			if seen[d.String()] {
				d = new(big.Int).Add(d, big.NewInt(int64(len(ks)+1)))
				if d.Cmp(curveN) >= 0 || seen[d.String()] {
					continue
				}
			}
			seen[d.String()] = true
			ks = append(ks, newKey(t, d, rapid.Bool().Draw(t, "padded")))
			cd.Keys = append(cd.Keys, hex.EncodeToString(ks[len(ks)-1].priv))
		}
		// every wallet-produced account address parses back to its program hash
		for _, k := range ks {
			if checkAddressRoundTrip(t, k.acc.ProgramHash, k.acc.Address, "Account.Address", cd) {
				return
			}
		}

		keystore := rapid.IntRange(0, 2).Draw(t, "keystore") == 0
		cd.API = "functions+map"
		if keystore {
			cd.API = "Client+keystore"
		}
		perm := rapid.Permutation(ks).Draw(t, "perm")
		var std []*key
		var multi *multiProg
		rest := perm
		switch shape {
		case "standard":
			std, rest = rest[:wantStd], rest[wantStd:]
		case "mixed":
			std, rest = rest[:wantStd], rest[wantStd:]
		}
		if shape != "standard" {
			n := wantN
			m := rapid.SampledFrom([]int{1, 2, n - 1, n, 0, 0}).Draw(t, "mBias")
			if m < 1 || m > n {
				m = rapid.IntRange(1, n).Draw(t, "mAny")
			}
			var pubs []*crypto.PublicKey
			for _, k := range rest[:n] {
				pubs = append(pubs, k.acc.PublicKey)
			}
			acc, err := account.NewMultiSigAccount(m, pubs)
			if err != nil || len(acc.RedeemScript) == 0 {
				t.Fatalf("harness: NewMultiSigAccount(%d of %d): %v", m, n, err)
			}
			if checkAddressRoundTrip(t, acc.ProgramHash, acc.Address, "MultiSigAccount.Address", cd) {
				return
			}
			multi = &multiProg{m: m, code: acc.RedeemScript, hash: acc.ProgramHash}
			// script order = order of the public keys inside the redeem script
			pos := map[*key]int{}
			for _, k := range rest[:n] {
				enc, _ := k.acc.PublicKey.EncodePoint(true)
				i := bytes.Index(acc.RedeemScript, append([]byte{33}, enc...))
				if i < 0 {
					t.Fatalf("harness: could not map redeem script keys")
				}
				pos[k] = i
				multi.signers = append(multi.signers, k)
			}
			sort.Slice(multi.signers, func(i, j int) bool { return pos[multi.signers[i]] < pos[multi.signers[j]] })
			if n > 16 {
				// the wallet built the account; can it sign for it at all?
				all := map[common.Uint160]*account.Account{}
				for _, k := range multi.signers {
					all[k.acc.ProgramHash.ToCodeHash()] = k.acc
				}
				ptx, _ := genTx(t)
				prog := &pg.Program{Code: acc.RedeemScript}
				ptx.SetPrograms([]*pg.Program{prog})
				var serr error
				pp, _, _ := vk.Catch(func() { _, serr = account.SignMultiSignTransaction(ptx, prog, all) })
				if pp || serr != nil {
					vk.Case("sign/"+shape+"/n>16: wallet creates the account but refuses to sign (not judged)", false, nil, nil)
					return
				}
			}
			rest = rest[n:]
			cd.M, cd.N = m, n
			for _, k := range multi.signers {
				cd.Signers = append(cd.Signers, keyIndex(ks, k))
			}
		}
		for _, k := range std {
			cd.Standard = append(cd.Standard, keyIndex(ks, k))
		}
		kind := shape
		cd.Kind = kind

		tx, td := genTx(t)
		cd.Tx = td
		var programs []*pg.Program
		var hashes []common.Uint168
		depositPrefix := rapid.IntRange(0, 5).Draw(t, "depositPrefix") == 0
		for _, k := range std {
			programs = append(programs, &pg.Program{Code: k.acc.RedeemScript, Parameter: nil})
			h := k.acc.ProgramHash
			if depositPrefix {
				h = *common.ToProgramHash(byte(contract.PrefixDeposit), k.acc.RedeemScript)
				cd.Prefix = "deposit"
			}
			hashes = append(hashes, h)
		}
		if multi != nil {
			programs = append(programs, &pg.Program{Code: multi.code, Parameter: nil})
			hashes = append(hashes, multi.hash)
		}
		// program order inside the transaction is the caller's business
		order := rapid.Permutation(seq(len(programs))).Draw(t, "progOrder")
		var pp []*pg.Program
		var hh []common.Uint168
		for _, i := range order {
			pp, hh = append(pp, programs[i]), append(hh, hashes[i])
		}
		programs, hashes = pp, hh
		tx.SetPrograms(programs)
		data := unsigned(t, tx)

		// --- signing sessions
		var wallets []*wallet
		defer func() {
			for _, w := range wallets {
				w.close()
			}
		}()
		extra := func() []*key { // unrelated keys also held by a wallet
			var e []*key
			for _, k := range rest {
				if rapid.IntRange(0, 3).Draw(t, "extraKey") == 0 {
					e = append(e, k)
				}
			}
			return e
		}
		indices := func(w []*key) []int {
			var r []int
			for _, k := range w {
				r = append(r, keyIndex(ks, k))
			}
			return r
		}
		runSign := func(w *wallet, byM int, step string) bool {
			var err error
			p, val, frame := vk.Catch(func() { err = w.sign(tx, byM) })
			if p {
				reportSignErr(t, kind, step, fmt.Errorf("%v", val), true, frame, cd)
				return false
			}
			if err != nil {
				reportSignErr(t, kind, step+"-error", err, false, "", cd)
				return false
			}
			return true
		}
		switch {
		case multi == nil:
			held := append(append([]*key{}, std...), extra()...)
			held = rapid.Permutation(held).Draw(t, "heldOrder")
			cd.Rounds = append(cd.Rounds, indices(held))
			w := openWallet(t, held, keystore, nil)
			wallets = append(wallets, w)
			if !runSign(w, 0, "Sign") {
				return
			}
		case shape == "multisig-byM":
			// the wallet holds s >= m of the n keys (cmd/script multiSignTx holds all n)
			s := rapid.IntRange(multi.m, len(multi.signers)).Draw(t, "held")
			if rapid.Bool().Draw(t, "holdAll") {
				s = len(multi.signers)
			}
			sub := rapid.Permutation(multi.signers).Draw(t, "heldSigners")[:s]
			held := append(append(append([]*key{}, std...), sub...), extra()...)
			held = rapid.Permutation(held).Draw(t, "heldOrder")
			cd.Rounds = append(cd.Rounds, indices(held))
			w := openWallet(t, held, keystore, multi)
			wallets = append(wallets, w)
			if !runSign(w, multi.m, "MultiSign") {
				return
			}
		default:
			// m co-signers, one Sign call each.  SignMultiSignTransaction signs with the
			// FIRST key of the script that the wallet holds, so a co-signer's wallet may hold
			// further keys of the script only behind its own.
			signerOrder := rapid.Permutation(seq(len(multi.signers))).Draw(t, "signerOrder")[:multi.m]
			for r, si := range signerOrder {
				held := append([]*key{}, std...)
				held = append(held, multi.signers[si])
				for j := si + 1; j < len(multi.signers); j++ {
					if rapid.IntRange(0, 4).Draw(t, "laterSigner") == 0 {
						held = append(held, multi.signers[j])
					}
				}
				held = append(held, extra()...)
				held = rapid.Permutation(held).Draw(t, "heldOrder")
				cd.Rounds = append(cd.Rounds, indices(held))
				w := openWallet(t, held, keystore && r < 3, multi)
				wallets = append(wallets, w)
				if r > 0 {
					// fewer than m signatures: the node must not accept yet
					if err, _, _ := nodeCheck(data, hashes, tx.Programs()); err == nil {
						vk.Report(t, "C37:partial:"+kind+":accepted", fmt.Sprintf("accepted with %d of m=%d signatures", r, multi.m), cd)
						return
					}
					vk.Count("partial_checks", 1)
				}
				if !runSign(w, 0, "Sign") {
					return
				}
			}
		}

		signed := tx.Programs()
		if len(signed) != len(programs) {
			vk.Report(t, "C37:sign:"+kind+":programs-lost", fmt.Sprintf("%d programs before signing, %d after", len(programs), len(signed)), cd)
			return
		}
		if d2 := unsigned(t, tx); !bytes.Equal(d2, data) {
			vk.Report(t, "C37:sign:"+kind+":signed-content-changed-by-signing", "", cd)
			return
		}

		// --- (1) the node accepts
		if err, p, frame := nodeCheck(data, hashes, signed); err != nil {
			if p {
				vk.Report(t, "C37:verify:"+kind+":panic:"+frame, err.Error(), cd)
			} else {
				vk.Report(t, "C37:verify:"+kind+":honest-rejected", err.Error(), cd)
			}
			return
		}
		// --- (1b) independent reference: the parameters are signatures by the account keys over data
		for _, p := range signed {
			if multi != nil && bytes.Equal(p.Code, multi.code) {
				got, ok := refSigners(multi.signers, data, p.Parameter)
				if !ok || len(got) < multi.m {
					vk.Report(t, "C37:sign:"+kind+":multisig-parameter-not-m-distinct-signatures", fmt.Sprintf("ok=%v distinct=%d m=%d param=%x", ok, len(got), multi.m, p.Parameter), cd)
					return
				}
				continue
			}
			okStd := false
			for _, k := range std {
				if bytes.Equal(p.Code, k.acc.RedeemScript) {
					okStd = len(p.Parameter) == 65 && p.Parameter[0] == 64 && refVerify(k.x, k.y, data, p.Parameter[1:])
				}
			}
			if !okStd {
				vk.Report(t, "C37:sign:"+kind+":standard-parameter-not-signature-by-account-key", fmt.Sprintf("param=%x", p.Parameter), cd)
				return
			}
		}
		// --- (2) any changed byte is rejected
		mutateAndCheck(t, kind, data, hashes, signed, cd)
		structuralEdit(t, kind, tx, data, hashes, signed, cd)

		nt := len(programs) >= 2 || (multi != nil && multi.m < len(multi.signers))
		cls := fmt.Sprintf("sign/%s/%s", kind, cd.API)
		if multi != nil {
			if len(multi.signers) >= 15 {
				cls += fmt.Sprintf("/n=%d", len(multi.signers))
			}
			switch {
			case multi.m == len(multi.signers):
				cls += "/m=n"
			default:
				cls += "/m<n"
			}
		}
		kj, _ := json.Marshal(cd)
		vk.Case(cls, nt, kj, func() any { return cd })
	})
}

func seq(n int) []int {
	r := make([]int, n)
	for i := range r {
		r[i] = i
	}
	return r
}

// TestWalletSignSchnorr: aggregated Schnorr account of 1..5 keys, signed as
// cmd/script signSchnorrTx does (AggregateSignatures over Sha256D(unsigned)).
func TestWalletSignSchnorr(t *testing.T) {
	devnull, _ := os.OpenFile(os.DevNull, os.O_WRONLY, 0)
	rapid.Check(t, func(t *rapid.T) {
		cd := &caseDesc{Kind: "schnorr", API: "NewSchnorrAggregateAccount+AggregateSignatures"}
		n := rapid.IntRange(1, 5).Draw(t, "nkeys")
		var ks []*key
		var accs []*account.Account
		sum := new(big.Int)
		for i := 0; i < n; i++ {
			d := genScalar(t, fmt.Sprintf("key%d", i))
			k := newKey(t, d, rapid.Bool().Draw(t, "padded"))
			ks = append(ks, k)
			accs = append(accs, k.acc)
			cd.Keys = append(cd.Keys, hex.EncodeToString(k.priv))
			sum.Add(sum, d)
		}
		if new(big.Int).Mod(sum, curveN).Sign() == 0 {
			vk.Case("sign/schnorr/degenerate-sum-at-infinity", false, nil, nil)
			return
		}
		cd.N = n
		// NewSchnorrAggregateAccount prints to stdout; keep the job log small
		stdout := os.Stdout
		if devnull != nil {
			os.Stdout = devnull
		}
		var sa *account.SchnorAccount
		p, val, frame := vk.Catch(func() { sa = account.NewSchnorrAggregateAccount(accs) })
		os.Stdout = stdout
		if p {
			vk.Report(t, "C37:sign:schnorr:panic:"+frame, fmt.Sprint(val), cd)
			return
		}
		if sa.ProgramHash == nil || len(sa.RedeemScript) == 0 {
			vk.Report(t, "C37:sign:schnorr:no-account", "NewSchnorrAggregateAccount returned no script/hash", cd)
			return
		}
		addr, err := sa.ProgramHash.ToAddress()
		if err != nil {
			vk.Report(t, "C37:ToAddress:error", err.Error(), cd)
			return
		}
		if checkAddressRoundTrip(t, *sa.ProgramHash, addr, "SchnorAccount address", cd) {
			return
		}
		tx, td := genTx(t)
		cd.Tx = td
		data := unsigned(t, tx)
		var sig [64]byte
		p, val, frame = vk.Catch(func() { sig, err = crypto.AggregateSignatures(sa.PrivateKeys, common.Sha256D(data)) })
		if p {
			vk.Report(t, "C37:sign:schnorr:panic:"+frame, fmt.Sprint(val), cd)
			return
		}
		if err != nil {
			vk.Report(t, "C37:sign:schnorr:AggregateSignatures-error", err.Error(), cd)
			return
		}
		programs := []*pg.Program{{Code: sa.RedeemScript, Parameter: sig[:]}}
		tx.SetPrograms(programs)
		hashes := []common.Uint168{*sa.ProgramHash}
		if err, p, frame := nodeCheck(data, hashes, programs); err != nil {
			if p {
				vk.Report(t, "C37:verify:schnorr:panic:"+frame, err.Error(), cd)
			} else {
				vk.Report(t, "C37:verify:schnorr:honest-rejected", err.Error(), cd)
			}
			return
		}
		// independent reference: the aggregate key of the script is the sum of the members' keys
		sx, sy := new(big.Int), new(big.Int)
		for _, k := range ks {
			sx, sy = elliptic.P256().Add(sx, sy, k.x, k.y)
		}
		wantPk := elliptic.MarshalCompressed(elliptic.P256(), sx, sy)
		if len(sa.RedeemScript) != 35 || !bytes.Equal(sa.RedeemScript[2:], wantPk) {
			vk.Report(t, "C37:sign:schnorr:script-key-not-sum-of-member-keys", fmt.Sprintf("script=%x want key %x", sa.RedeemScript, wantPk), cd)
			return
		}
		mutateAndCheck(t, "schnorr", data, hashes, programs, cd)
		structuralEdit(t, "schnorr", tx, data, hashes, programs, cd)
		kj, _ := json.Marshal(cd)
		vk.Case(fmt.Sprintf("sign/schnorr/keys-%d", n), n >= 2, kj, func() any { return cd })
	})
}

