package c37

import (
	"bytes"
	"sort"
	"crypto/elliptic"
	"crypto/sha256"
	"fmt"
	"math/big"
	"testing"

	"github.com/elastos/Elastos.ELA/account"
	"github.com/elastos/Elastos.ELA/common"
	"github.com/elastos/Elastos.ELA/core"
	pg "github.com/elastos/Elastos.ELA/core/contract/program"
	common2 "github.com/elastos/Elastos.ELA/core/types/common"
	"github.com/elastos/Elastos.ELA/core/types/functions"
	"github.com/elastos/Elastos.ELA/core/types/outputpayload"
	"github.com/elastos/Elastos.ELA/core/types/payload"
	"github.com/elastos/Elastos.ELA/crypto"
	"verifharness/lib/vk"
)

const mnMax = 16 // largest n the wallet can sign for (PUSH1..PUSH16)

// TestMultisigAllMN enumerates EVERY (m, n) with 1 <= m <= n, 2 <= n <= 16 on one fixed
// key ring and both wallet signing styles: m co-signer wallets calling
// SignMultiSignTransaction once each (the last m keys of the script sign), and one wallet
// holding all n keys calling SignMultiSignTransactionByM.  Verdicts: the wallet signs,
// the node accepts, m-1 signatures are not accepted, a changed byte is rejected.
func TestMultisigAllMN(t *testing.T) {
	var ring []*account.Account
	var xs, ys []*big.Int
	for i := 0; i < mnMax; i++ {
		h := sha256.Sum256([]byte(fmt.Sprintf("c37-mn-ring-%d", i)))
		h[0] &= 0x7f
		acc, err := account.NewAccountWithPrivateKey(h[:])
		if err != nil {
			t.Fatalf("harness: %v", err)
		}
		ring = append(ring, acc)
		x, y := elliptic.P256().ScalarBaseMult(h[:])
		xs, ys = append(xs, x), append(ys, y)
	}
	shard, nshards := vk.Shard()
	idx := 0
	for n := 2; n <= mnMax; n++ {
		for m := 1; m <= n; m++ {
			idx++
			if idx%nshards != shard {
				continue
			}
			for _, style := range []string{"Sign", "ByM"} {
				desc := map[string]any{"m": m, "n": n, "style": style, "ring": "sha256(\"c37-mn-ring-<i>\") with the top bit cleared, i < n"}
				kind := "multisig"
				if style == "ByM" {
					kind = "multisig-byM"
				}
				var pubs []*crypto.PublicKey
				for _, a := range ring[:n] {
					pubs = append(pubs, a.PublicKey)
				}
				macc, err := account.NewMultiSigAccount(m, pubs)
				if err != nil || len(macc.RedeemScript) == 0 {
					t.Fatalf("harness: NewMultiSigAccount(%d,%d): %v", m, n, err)
				}
				if checkAddressRoundTrip(t, macc.ProgramHash, macc.Address, "MultiSigAccount.Address", desc) {
					continue
				}
				out := &common2.Output{AssetID: core.ELAAssetID, Value: common.Fixed64(100000000*n + m), ProgramHash: ring[0].ProgramHash,
					Type: common2.OTNone, Payload: &outputpayload.DefaultOutput{}}
				in := &common2.Input{Sequence: uint32(m)}
				in.Previous.TxID = sha256.Sum256([]byte{byte(m), byte(n)})
				tx := functions.CreateTransaction(common2.TxVersion09, common2.TransferAsset, 0, &payload.TransferAsset{}, nil,
					[]*common2.Input{in}, []*common2.Output{out}, uint32(n), nil)
				prog := &pg.Program{Code: macc.RedeemScript}
				tx.SetPrograms([]*pg.Program{prog})
				data := unsigned(t, tx)
				hashes := []common.Uint168{macc.ProgramHash}
				// script order of the ring members
				signers, ok := scriptOrder(macc.RedeemScript, ring[:n])
				if !ok {
					t.Fatalf("harness: cannot map script keys")
				}
				failed := false
				if style == "Sign" {
					for r := 0; r < m && !failed; r++ {
						a := signers[n-m+r] // the last m keys of the script, one wallet each
						accs := map[common.Uint160]*account.Account{a.ProgramHash.ToCodeHash(): a}
						if r == m-1 && m > 1 {
							if e, _, _ := nodeCheck(data, hashes, []*pg.Program{prog}); e == nil {
								vk.Report(t, "C37:partial:"+kind+":accepted", fmt.Sprintf("accepted with %d of m=%d signatures (n=%d)", r, m, n), desc)
								failed = true
								break
							}
						}
						var sp *pg.Program
						var serr error
						p, val, frame := vk.Catch(func() { sp, serr = account.SignMultiSignTransaction(tx, prog, accs) })
						if p {
							vk.Report(t, "C37:sign:"+kind+":panic:"+frame, fmt.Sprint(val), desc)
							failed = true
						} else if serr != nil {
							vk.Report(t, "C37:sign:"+kind+":Sign-error", fmt.Sprintf("%d of %d: %v", m, n, serr), desc)
							failed = true
						} else {
							prog = sp
						}
					}
				} else {
					accs := map[common.Uint160]*account.Account{}
					for _, a := range ring[:n] {
						accs[a.ProgramHash.ToCodeHash()] = a
					}
					var sp *pg.Program
					var serr error
					p, val, frame := vk.Catch(func() { sp, serr = account.SignMultiSignTransactionByM(m, tx, prog, accs) })
					if p {
						vk.Report(t, "C37:sign:"+kind+":panic:"+frame, fmt.Sprint(val), desc)
						failed = true
					} else if serr != nil {
						vk.Report(t, "C37:sign:"+kind+":MultiSign-error", fmt.Sprintf("%d of %d: %v", m, n, serr), desc)
						failed = true
					} else {
						prog = sp
					}
				}
				vk.Case(fmt.Sprintf("mn-exhaustive/%s", style), m < n, []byte(fmt.Sprintf("%s|%d|%d", style, m, n)), func() any { return desc })
				if failed {
					continue
				}
				if e, p, frame := nodeCheck(data, hashes, []*pg.Program{prog}); e != nil {
					if p {
						vk.Report(t, "C37:verify:"+kind+":panic:"+frame, e.Error(), desc)
					} else {
						vk.Report(t, "C37:verify:"+kind+":honest-rejected", fmt.Sprintf("%d of %d: %v", m, n, e), desc)
					}
					continue
				}
				md := append([]byte{}, data...)
				md[(m*31+n*7)%len(md)] ^= byte(1 << uint((m+n)%8))
				if e, _, _ := nodeCheck(md, hashes, []*pg.Program{prog}); e == nil {
					vk.Report(t, "C37:mutate:"+kind+":accepted", fmt.Sprintf("%d of %d: one changed byte still verifies", m, n), desc)
				}
			}
		}
	}
	_ = xs
	_ = ys
}

// scriptOrder returns accs in the order their public keys appear in the redeem script
// (located by content, so that an unexpected encoding of m or n does not confuse the harness).
func scriptOrder(code []byte, accs []*account.Account) ([]*account.Account, bool) {
	pos := map[*account.Account]int{}
	out := append([]*account.Account{}, accs...)
	for _, a := range accs {
		enc, _ := a.PublicKey.EncodePoint(true)
		i := bytes.Index(code, append([]byte{33}, enc...))
		if i < 0 {
			return nil, false
		}
		pos[a] = i
	}
	sort.Slice(out, func(i, j int) bool { return pos[out[i]] < pos[out[j]] })
	return out, true
}
